(* C13b, part 1: helper lemmas for "the native lax functor path agrees with the strict path".
   - the iterated tensor of a list of lax diagrams: well-formedness, label consistency, typing;
   - the tensored operation images [map_ops_pure] as such an iterated tensor;
   - the plain shape of the native result [result_pure]: three discrete copies of the mapped
     objects around the tensored operations, and its pending pairs. *)
From OHG Require Import Spec.Plain Proofs.PrimsThm Proofs.CCThm Proofs.SegThm Proofs.C08Thm Proofs.C09Thm
  Proofs.C01Lemmas Proofs.C01Thm Proofs.QuotThm Proofs.C10Lemmas Proofs.C10Strict
  Proofs.C12Lemmas Proofs.C12Plain.
From OHG Require Proofs.C13Thm.
From Coq Require Import List Arith Lia Bool.
Import ListNotations.

Set Implicit Arguments.
Arguments Nat.sub : simpl never.

(* ---------- list facts ---------- *)
Lemma fold_left_map_arg {X Y Z} (g : Z -> Y -> Z) (h : X -> Y) (l : list X) : forall acc,
  fold_left (fun a x => g a (h x)) l acc = fold_left g (map h l) acc.
Proof. induction l as [|x l IH]; intros acc; cbn [fold_left map]; auto. Qed.

Lemma fold_left_combine3 {X Y S T Z} (g : Z -> X * (S * T) -> Z) (g1 : Y -> S) (g2 : Y -> T) :
  forall (xs : list X) (l : list Y) acc,
  fold_left g (combine xs (combine (map g1 l) (map g2 l))) acc
  = fold_left (fun a p => g a (fst p, (g1 (snd p), g2 (snd p)))) (combine xs l) acc.
Proof.
  induction xs as [|x xs IH]; intros [|y l] acc; cbn [map combine fold_left]; auto.
Qed.

Lemma mapM_get_types {T} (xs : list T) idx r :
  mapM (get xs) idx = Ok r -> map (nth_error xs) idx = map Some r.
Proof.
  intros H. apply mapM_ok_iff in H. induction H as [|i x idx r Hi _ IH]; cbn [map]. reflexivity.
  apply get_ok_inv in Hi. destruct Hi as [_ Hi]. rewrite Hi, IH. reflexivity.
Qed.

Lemma pairs_lt_of_in n P : (forall x y, In (x, y) P -> x < n /\ y < n) -> pairs_lt n P.
Proof.
  intros H. unfold pairs_lt. apply Forall_forall. intros [x y] Hin. cbn [fst snd]. apply H. exact Hin.
Qed.

Lemma shift_pairs_nil n : shift_pairs n [] = [].
Proof. reflexivity. Qed.

Lemma shift_pairs_shift_pairs a b P : shift_pairs a (shift_pairs b P) = shift_pairs (b + a) P.
Proof.
  unfold shift_pairs. rewrite pmap_pmap. unfold pmap. apply map_ext. intros [x y]. cbn [fst snd].
  f_equal; lia.
Qed.

(* ====================================================================== *)
(* iterated tensor                                                         *)
(* ====================================================================== *)
Section TensorList.
  Variables O A : Type.
  Notation lohg := (lohg O A).

  Definition tens_list (l : list lohg) (acc : lohg) : lohg := fold_left (@lohg_tensor O A) l acc.

  Lemma lwf_empty : lwf (@lohg_empty O A).
  Proof.
    unfold lwf, hwf, lohg_empty, lhg_empty, nn, hn. cbn [lo_h lo_sources lo_targets l_nodes l_adj l_q fst snd].
    split; [split; [intros e []|repeat split; constructor]|split; constructor].
  Qed.

  Lemma ladj_ok_empty : ladj_ok (@lohg_empty O A).
  Proof. reflexivity. Qed.

  Lemma lc_empty : labels_consistent (@lohg_empty O A).
  Proof. intros i j Hi. cbn in Hi. lia. Qed.

  Lemma pending_pairs_lt (f : lohg) : lwf f -> pairs_lt (nn f) (pending f).
  Proof. intros W. apply pairs_lt_of_in. exact (pending_range O A f W). Qed.

  Lemma nn_tensor (f g : lohg) : nn (lohg_tensor f g) = nn f + nn g.
  Proof. unfold nn, lohg_tensor, lhg_coproduct. cbn [lo_h l_nodes]. apply app_length. Qed.

  Lemma lc_tensor (f g : lohg) : lwf f -> lwf g -> labels_consistent f -> labels_consistent g ->
    labels_consistent (lohg_tensor f g).
  Proof.
    intros Wf Wg Cf Cg i j Hi Hj Hc. rewrite nn_tensor in Hi, Hj.
    rewrite (pending_tensor g Wf) in Hc.
    change (map (shift_pair (nn f)) (pending g)) with (shift_pairs (nn f) (pending g)) in Hc.
    apply (conn_sum_char _ _ _ (pending_pairs_lt Wf)) in Hc.
    unfold lohg_tensor, lhg_coproduct. cbn [lo_h l_nodes]. fold (nn f) in *.
    destruct Hc as [(Li & Lj & Hc)|(Li & Lj & Hc)].
    - rewrite !nth_error_app1 by exact Li || exact Lj. apply Cf; assumption.
    - unfold nn in Li, Lj. rewrite !nth_error_app2 by assumption. apply Cg; unfold nn in *; try lia. exact Hc.
  Qed.

  Lemma tens_list_ok (l : list lohg) : forall acc,
    lwf acc -> ladj_ok acc -> labels_consistent acc ->
    Forall (fun g => lwf g /\ ladj_ok g /\ labels_consistent g) l ->
    lwf (tens_list l acc) /\ ladj_ok (tens_list l acc) /\ labels_consistent (tens_list l acc).
  Proof.
    induction l as [|g l IH]; intros acc W L C H; cbn [tens_list fold_left].
    - auto.
    - apply Forall_cons_iff in H. destruct H as [(Wg & Lg & Cg) H].
      apply IH; auto using lwf_tensor, ladj_ok_tensor, lc_tensor.
  Qed.

  (* the interface types of an iterated tensor *)
  Lemma src_type_tensor (f g : lohg) : lwf f -> ladj_ok f ->
    src_type (labs (lohg_tensor f g)) = src_type (labs f) ++ src_type (labs g) /\
    tgt_type (labs (lohg_tensor f g)) = tgt_type (labs f) ++ tgt_type (labs g).
  Proof.
    intros (_ & Ws & Wt) L. rewrite (labs_tensor g L). unfold src_type, tgt_type.
    cbn [ptensor p_ins p_outs]. split; apply type_ptensor; assumption.
  Qed.

  Lemma tens_list_types (l : list lohg) : forall acc,
    lwf acc -> ladj_ok acc -> Forall (fun g => lwf g /\ ladj_ok g) l ->
    src_type (labs (tens_list l acc)) = src_type (labs acc) ++ concat (map (fun g => src_type (labs g)) l) /\
    tgt_type (labs (tens_list l acc)) = tgt_type (labs acc) ++ concat (map (fun g => tgt_type (labs g)) l).
  Proof.
    induction l as [|g l IH]; intros acc W L H; cbn [tens_list fold_left map concat].
    - rewrite !app_nil_r. auto.
    - apply Forall_cons_iff in H. destruct H as [(Wg & Lg) H].
      destruct (IH (lohg_tensor acc g) (lwf_tensor W Wg) (ladj_ok_tensor L Lg) H) as [E1 E2].
      destruct (src_type_tensor g W L) as [S1 S2].
      unfold tens_list in E1, E2. rewrite E1, E2, S1, S2, <- !app_assoc. auto.
  Qed.
End TensorList.

(* ====================================================================== *)
(* the tensored operation images                                           *)
(* ====================================================================== *)
Section Images.
  Variables O1 A1 O2 A2 : Type.
  Variable F : lfunctor O1 A1 O2 A2.
  Notation Fo := (lf_map_object F).
  Notation Fa := (lf_map_operation F).

  (* the documented contract of map_operation *)
  Definition F_wf : Prop := forall a s t,
    lwf (Fa a s t) /\ ladj_ok (Fa a s t) /\ labels_consistent (Fa a s t).
  Definition F_src_tgt : Prop := forall a s t,
    lohg_source (Fa a s t) = Ok (flat_map Fo s) /\ lohg_target (Fa a s t) = Ok (flat_map Fo t).

  Lemma F_typed_of : F_src_tgt -> C13Thm.F_typed F.
  Proof.
    intros H a s t. destruct (H a s t) as [Hs Ht]. unfold lohg_source, lohg_target in *.
    apply mapM_length in Hs, Ht. split; congruence.
  Qed.

  Lemma F_balanced_of : F_wf -> C13Thm.F_balanced F.
  Proof. intros H a s t. destruct (H a s t) as (((_ & _ & _ & E) & _) & _). exact E. Qed.

  Lemma F_types : F_wf -> F_src_tgt -> forall a s t,
    src_type (labs (Fa a s t)) = map Some (flat_map Fo s) /\
    tgt_type (labs (Fa a s t)) = map Some (flat_map Fo t).
  Proof.
    intros HW HT a s t. destruct (HT a s t) as [Hs Ht]. split.
    - apply (mapM_get_types _ _ Hs).
    - apply (mapM_get_types _ _ Ht).
  Qed.

  (* the image of one hyperedge of f *)
  Definition img (nodes : list O1) (p : A1 * (list nat * list nat)) : lohg O2 A2 :=
    Fa (fst p) (C13Thm.labs_of nodes (fst (snd p))) (C13Thm.labs_of nodes (snd (snd p))).

  Lemma map_ops_tens (f : lohg O1 A1) :
    C13Thm.map_ops_pure F f
    = tens_list (map (img (l_nodes (lo_h f))) (combine (l_edges (lo_h f)) (l_adj (lo_h f)))) lohg_empty.
  Proof.
    unfold C13Thm.map_ops_pure, tens_list. rewrite <- fold_left_map_arg. reflexivity.
  Qed.

  (* the type of the image of a list of node ids, without a default label *)
  Definition img_type (nodes : list O1) (ids : list nat) : list O2 :=
    flat_map (fun o => match o with Some x => Fo x | None => [] end) (map (nth_error nodes) ids).

  Lemma img_type_app nodes a b : img_type nodes (a ++ b) = img_type nodes a ++ img_type nodes b.
  Proof. unfold img_type. rewrite map_app. apply flat_map_app. Qed.

  Lemma img_type_labs_of nodes ids : flat_map Fo (C13Thm.labs_of nodes ids) = img_type nodes ids.
  Proof.
    unfold img_type, C13Thm.labs_of. induction ids as [|i ids IH]; cbn [flat_map map]. reflexivity.
    rewrite flat_map_app, IH. f_equal. destruct (nth_error nodes i); cbn [flat_map]; auto using app_nil_r.
  Qed.

  Lemma concat_img_types (proj : hyperedge -> list nat) nodes (edges : list A1) : forall adj,
    length edges = length adj ->
    concat (map (fun p : A1 * hyperedge => map Some (img_type nodes (proj (snd p)))) (combine edges adj))
    = map Some (img_type nodes (flat_map proj adj)).
  Proof.
    induction edges as [|x edges IH]; intros [|e adj] H; cbn [length] in H; try lia. reflexivity.
    cbn [combine map concat flat_map snd]. rewrite IH by lia. rewrite img_type_app, map_app. reflexivity.
  Qed.

  Theorem map_ops_facts (f : lohg O1 A1) : F_wf -> F_src_tgt -> ladj_ok f ->
    let fx := C13Thm.map_ops_pure F f in
    lwf fx /\ ladj_ok fx /\ labels_consistent fx /\
    src_type (labs fx) = map Some (img_type (l_nodes (lo_h f)) (flat_map fst (l_adj (lo_h f)))) /\
    tgt_type (labs fx) = map Some (img_type (l_nodes (lo_h f)) (flat_map snd (l_adj (lo_h f)))).
  Proof.
    intros HW HT Lf fx. unfold fx. rewrite map_ops_tens.
    set (nodes := l_nodes (lo_h f)). set (ops := combine (l_edges (lo_h f)) (l_adj (lo_h f))).
    assert (Hall : Forall (fun g => lwf g /\ ladj_ok g /\ labels_consistent g) (map (img nodes) ops)).
    { apply Forall_forall. intros g Hg. apply in_map_iff in Hg. destruct Hg as (p & <- & _). apply HW. }
    assert (Hall' : Forall (fun g => lwf g /\ ladj_ok g) (map (img nodes) ops)).
    { eapply Forall_impl; [|exact Hall]. cbv beta. tauto. }
    destruct (tens_list_ok (@lwf_empty O2 A2) (@ladj_ok_empty O2 A2) (@lc_empty O2 A2) Hall) as (W & L & C).
    destruct (tens_list_types (@lwf_empty O2 A2) (@ladj_ok_empty O2 A2) Hall') as [E1 E2].
    split; [exact W|]. split; [exact L|]. split; [exact C|].
    rewrite E1, E2.
    change (src_type (labs (@lohg_empty O2 A2))) with (@nil (option O2)).
    change (tgt_type (labs (@lohg_empty O2 A2))) with (@nil (option O2)). cbn [app].
    rewrite !map_map. unfold ops. split.
    - etransitivity; [|exact (concat_img_types (@fst _ _) nodes (l_edges (lo_h f)) (l_adj (lo_h f)) Lf)]. f_equal.
      apply map_ext. intros p. unfold img. rewrite (proj1 (F_types HW HT _ _ _)), img_type_labs_of. reflexivity.
    - etransitivity; [|exact (concat_img_types (@snd _ _) nodes (l_edges (lo_h f)) (l_adj (lo_h f)) Lf)]. f_equal.
      apply map_ext. intros p. unfold img. rewrite (proj2 (F_types HW HT _ _ _)), img_type_labs_of. reflexivity.
  Qed.
End Images.

(* ====================================================================== *)
(* plain model: quotienting the middle block of a three-block gluing       *)
(* ====================================================================== *)
Section Plain3.
  Variables O A : Type.
  Implicit Types D M h : pohg O A.

  (* the glue pairs of a sum of two quotients are the images of the glue pairs *)
  Lemma pmap_glue_pairs D1 D2 q1 q2 h1 h2 : pwf D1 -> IsQuot D1 q1 h1 -> IsQuot D2 q2 h2 ->
    pmap (qsum (length (p_nodes D1)) (length (p_nodes h1)) q1 q2) (glue_pairs D1 D2) = glue_pairs h1 h2.
  Proof.
    intros (_ & _ & Wo) (_ & _ & _ & _ & _ & O1) (_ & _ & _ & _ & I2 & _).
    unfold glue_pairs. rewrite <- combine_pmap. rewrite map_qsum_l by exact Wo.
    rewrite map_qsum_r. rewrite O1, I2. reflexivity.
  Qed.

  Lemma glue_pairs_lt D1 D2 : pwf D1 -> pwf D2 ->
    pairs_lt (length (p_nodes D1) + length (p_nodes D2)) (glue_pairs D1 D2).
  Proof.
    intros (_ & _ & Wo) (_ & Wi & _). unfold glue_pairs. apply pairs_lt_combine.
    - eapply C01Lemmas.all_lt_mono; [|exact Wo]. lia.
    - apply C01Lemmas.all_lt_shiftl. exact Wi.
  Qed.

  Theorem glue_quot Psx M Ms Pyt (qm q3 : nat -> nat) PM h :
    pwf Psx -> pwf M -> pwf Pyt ->
    IsQuot M qm Ms -> KerIs (length (p_nodes M)) qm PM -> pairs_lt (length (p_nodes M)) PM ->
    IsQuot (pjoin (pjoin Psx Ms) Pyt) q3 h ->
    KerIs (length (p_nodes Psx) + length (p_nodes Ms) + length (p_nodes Pyt)) q3
          (glue_pairs Psx Ms ++ glue_pairs (pjoin Psx Ms) Pyt) ->
    exists q4, IsQuot (pjoin (pjoin Psx M) Pyt) q4 h /\
      KerIs (length (p_nodes Psx) + length (p_nodes M) + length (p_nodes Pyt)) q4
            (shift_pairs (length (p_nodes Psx)) PM ++
             glue_pairs Psx M ++ glue_pairs (pjoin Psx M) Pyt).
  Proof.
    intros Wsx WM Wyt HQm HKm HPM HQ3 HK3.
    set (a := length (p_nodes Psx)) in *. set (m := length (p_nodes M)) in *.
    set (ms := length (p_nodes Ms)) in *. set (c := length (p_nodes Pyt)) in *.
    pose proof (quot_pwf WM HQm) as WMs.
    pose proof (pwf_pjoin Wsx WM) as Wmid. pose proof (pwf_pjoin Wsx WMs) as Wmids.
    set (Qmid := qsum a a (fun i => i) qm).
    assert (Hmid : IsQuot (pjoin Psx M) Qmid (pjoin Psx Ms)).
    { apply (IsQuot_pjoin Wsx (IsQuot_id Psx) HQm). }
    assert (Lmid : length (p_nodes (pjoin Psx M)) = a + m) by (cbn [pjoin p_nodes]; apply app_length).
    assert (Lmids : length (p_nodes (pjoin Psx Ms)) = a + ms) by (cbn [pjoin p_nodes]; apply app_length).
    set (Q1 := qsum (a + m) (a + ms) Qmid (fun i => i)).
    assert (H1 : IsQuot (pjoin (pjoin Psx M) Pyt) Q1 (pjoin (pjoin Psx Ms) Pyt)).
    { pose proof (IsQuot_pjoin Wmid Hmid (IsQuot_id Pyt)) as H. rewrite Lmid, Lmids in H. exact H. }
    assert (Kmid : KerIs (a + m) Qmid (shift_pairs a PM)).
    { apply (ker_sum (m := a) (@KerIs_id a) HKm).
      - constructor.
      - intros i Hi. exact Hi. }
    assert (Pmid : pairs_lt (a + m) (shift_pairs a PM)).
    { unfold shift_pairs. eapply pairs_lt_pmap; [|exact HPM]. intros i Hi. cbv beta. fold m in Hi. lia. }
    assert (Rmid : forall i, i < a + m -> Qmid i < a + ms).
    { destruct Hmid as (R & _). intros i Hi. rewrite <- Lmids. apply R. rewrite Lmid. exact Hi. }
    assert (K1 : KerIs (a + m + c) Q1 (shift_pairs a PM)).
    { pose proof (ker_sum (m := a + ms) Kmid (@KerIs_id c) Pmid Rmid) as K.
      rewrite shift_pairs_nil, app_nil_r in K. exact K. }
    pose proof H1 as (R1 & S1 & _). cbn [pjoin p_nodes] in R1, S1. rewrite !app_length in R1, S1.
    fold a m ms c in R1, S1.
    (* the glue pairs upstairs are mapped onto the glue pairs downstairs *)
    assert (G1 : pmap Q1 (glue_pairs Psx M) = glue_pairs Psx Ms).
    { rewrite (@pmap_ext_lt (a + m) Q1 Qmid).
      - apply (pmap_glue_pairs Wsx (IsQuot_id Psx) HQm).
      - apply glue_pairs_lt; assumption.
      - intros x Hx. unfold Q1. apply qsum_l. exact Hx. }
    assert (G2 : pmap Q1 (glue_pairs (pjoin Psx M) Pyt) = glue_pairs (pjoin Psx Ms) Pyt).
    { pose proof (pmap_glue_pairs Wmid Hmid (IsQuot_id Pyt)) as H. rewrite Lmid, Lmids in H. exact H. }
    assert (PG1 : pairs_lt (a + m + c) (glue_pairs Psx M)).
    { eapply pairs_lt_mono; [|apply glue_pairs_lt; assumption]. fold a m. lia. }
    assert (PG2 : pairs_lt (a + m + c) (glue_pairs (pjoin Psx M) Pyt)).
    { pose proof (glue_pairs_lt Wmid Wyt) as H. rewrite Lmid in H. exact H. }
    exists (fun i => q3 (Q1 i)). split.
    - exact (quot_trans H1 HQ3).
    - apply (ker_trans (m := a + ms + c) (P' := glue_pairs Psx Ms ++ glue_pairs (pjoin Psx Ms) Pyt)).
      + exact R1.
      + exact S1.
      + exact K1.
      + exact HK3.
      + eapply pairs_lt_mono; [|exact Pmid]. lia.
      + apply pairs_lt_app; assumption.
      + intros x y. rewrite pmap_app, G1, G2. tauto.
  Qed.
End Plain3.
