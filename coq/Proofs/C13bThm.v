(* C13b: on a lax diagram without pending unifications, the natively computed functor image, once
   quotiented, is isomorphic to the image computed through the strict representation; pushing the
   input interfaces through the witness and the quotient map gives the output interfaces.
   Model: Model/LaxFunctor.v (l_try_define_map_arrow, l_map_arrow_witness, dyn_define_map_arrow),
   i.e. src/lax/functor/traits.rs and src/lax/functor/dyn_functor.rs. *)
From OHG Require Import Spec.Plain Proofs.PrimsThm Proofs.CCThm Proofs.SegThm Proofs.C08Thm Proofs.C09Thm
  Proofs.C01Lemmas Proofs.C01Thm Proofs.QuotThm Proofs.C10Lemmas Proofs.C10Strict
  Proofs.C12Lemmas Proofs.C12Plain Proofs.C12Thm Proofs.C13bLemmas.
From OHG Require Proofs.C13Thm Proofs.C10Thm Proofs.C12Compose.
From Coq Require Import List Arith Lia Bool.
Import ListNotations.
Set Implicit Arguments.
Arguments Nat.sub : simpl never.

Section C13b.
  Variables O1 A1 O2 A2 : Type.
  Variable F : lfunctor O1 A1 O2 A2.
  Notation Fo := (lf_map_object F).
  Notation Fa := (lf_map_operation F).
  Implicit Types f : lohg O1 A1.

  Definition szs f : list nat := map (@length O2) (map Fo (l_nodes (lo_h f))).
  Definition Wf f : list O2 := concat (map Fo (l_nodes (lo_h f))).
  Definition all_s f := flat_map fst (l_adj (lo_h f)).
  Definition all_t f := flat_map snd (l_adj (lo_h f)).
  Definition fxl f : lohg O2 A2 := C13Thm.map_ops_pure F f.

  Definition sx f : lohg O2 A2 :=
    mkLOHG (inj_table (szs f) (lo_sources f)) (seq 0 (length (Wf f)) ++ inj_table (szs f) (all_s f))
           (@lhg_discrete O2 A2 (Wf f)).
  Definition yt f : lohg O2 A2 :=
    mkLOHG (seq 0 (length (Wf f)) ++ inj_table (szs f) (all_t f)) (inj_table (szs f) (lo_targets f))
           (@lhg_discrete O2 A2 (Wf f)).
  Definition ifx f : lohg O2 A2 := lohg_tensor (lohg_identity A2 (Wf f)) (fxl f).

  Lemma szs_sum f : list_sum (szs f) = length (Wf f).
  Proof. apply list_sum_map_length. Qed.

  Lemma result_compose f :
    C13Thm.result_pure F f = lax_compose_pure (lax_compose_pure (sx f) (ifx f)) (yt f).
  Proof.
    unfold C13Thm.result_pure, C13Thm.spider_pure. change (C13Thm.sizes_of F (l_nodes (lo_h f))) with (szs f).
    rewrite szs_sum. fold (Wf f) (fxl f) (all_s f) (all_t f).
    unfold lax_compose_pure, sx, yt, ifx, lohg_tensor, lohg_identity, lhg_coproduct, lhg_discrete, nn.
    cbn [lo_sources lo_targets lo_h l_nodes l_edges l_adj l_q fst snd length map app].
    change (shift (length (Wf f ++ Wf f ++ l_nodes (lo_h (fxl f)))) []) with (@nil nat).
    rewrite !app_nil_r, !app_length, !C13Thm.shift_shift, map_map, Nat.add_assoc, <- !app_assoc.
    f_equal. f_equal. apply map_ext. intros e. cbn [fst snd]. rewrite !C13Thm.shift_shift. reflexivity.
  Qed.

  (* ---------- well-formedness of the three factors ---------- *)
  Lemma lwf_disc (w : list O2) s t : all_lt (length w) s -> all_lt (length w) t ->
    lwf (mkLOHG s t (@lhg_discrete O2 A2 w)) /\ ladj_ok (mkLOHG s t (@lhg_discrete O2 A2 w)).
  Proof.
    intros Hs Ht. split; [|reflexivity].
    unfold lwf, hwf, nn, hn. cbn [lo_h lo_sources lo_targets lhg_discrete l_nodes l_adj l_q fst snd].
    repeat split; try assumption; try constructor; contradiction.
  Qed.

  Lemma inj_lt f l : all_lt (length (Wf f)) (inj_table (szs f) l).
  Proof. rewrite <- szs_sum. apply C12Lemmas.inj_table_lt. Qed.

  Lemma seq_inj_lt f l : all_lt (length (Wf f)) (seq 0 (length (Wf f)) ++ inj_table (szs f) l).
  Proof. apply C09Thm.all_lt_app; [apply all_lt_seq0|apply inj_lt]. Qed.

  Lemma lwf_sx f : lwf (sx f) /\ ladj_ok (sx f).
  Proof. apply lwf_disc; [apply inj_lt|apply seq_inj_lt]. Qed.

  Lemma lwf_yt f : lwf (yt f) /\ ladj_ok (yt f).
  Proof. apply lwf_disc; [apply seq_inj_lt|apply inj_lt]. Qed.

  Lemma lwf_id (w : list O2) : lwf (lohg_identity A2 w) /\ ladj_ok (lohg_identity A2 w).
  Proof. apply lwf_disc; apply all_lt_seq0. Qed.

  Lemma lwf13_of f : lwf f -> ladj_ok f -> C13Thm.lwf13 f.
  Proof.
    intros ((Ha & _) & Hs & Ht) L. unfold C13Thm.lwf13. split; [exact Hs|]. split; [exact Ht|].
    split; [|exact L]. apply Forall_forall. intros e He. apply Ha. exact He.
  Qed.

  Section Native.
    Variable f : lohg O1 A1.
    Hypothesis HW : F_wf F.
    Hypothesis HT : F_src_tgt F.
    Hypothesis Wff : lwf f.
    Hypothesis Lf : ladj_ok f.

    Let Hfx := @map_ops_facts _ _ _ _ F f HW HT Lf.

    Lemma lwf_fxl : lwf (fxl f).
    Proof. apply Hfx. Qed.
    Lemma ladj_fxl : ladj_ok (fxl f).
    Proof. apply Hfx. Qed.
    Lemma lc_fxl : labels_consistent (fxl f).
    Proof. apply Hfx. Qed.

    Lemma lwf_ifx : lwf (ifx f) /\ ladj_ok (ifx f).
    Proof.
      destruct (lwf_id (Wf f)) as [W L]. split.
      - apply lwf_tensor; [exact W|exact lwf_fxl].
      - apply ladj_ok_tensor; [exact L|exact ladj_fxl].
    Qed.

    Lemma arity_fxl :
      length (lo_sources (fxl f)) = length (inj_table (szs f) (all_s f)) /\
      length (lo_targets (fxl f)) = length (inj_table (szs f) (all_t f)).
    Proof. exact (C13Thm.map_ops_arity (F_typed_of HT) (lwf13_of Wff Lf)). Qed.

    Lemma len1 : length (lo_targets (sx f)) = length (lo_sources (ifx f)).
    Proof.
      unfold sx, ifx, lohg_tensor, lohg_identity. cbn [lo_targets lo_sources].
      rewrite !app_length, C13Thm.shift_length, seq_length. rewrite (proj1 arity_fxl). reflexivity.
    Qed.

    Lemma len2 : length (lo_targets (lax_compose_pure (sx f) (ifx f))) = length (lo_sources (yt f)).
    Proof.
      unfold lax_compose_pure, sx, yt, ifx, lohg_tensor, lohg_identity. cbn [lo_targets lo_sources].
      rewrite C13Thm.shift_length, !app_length, C13Thm.shift_length, seq_length.
      rewrite (proj2 arity_fxl). reflexivity.
    Qed.

    Lemma lwf_c1 : lwf (lax_compose_pure (sx f) (ifx f)) /\ ladj_ok (lax_compose_pure (sx f) (ifx f)).
    Proof.
      split.
      - apply lwf_lax_compose; [apply lwf_sx|apply lwf_ifx|exact len1].
      - apply ladj_ok_lax_compose; [apply lwf_sx|apply lwf_ifx].
    Qed.

    Notation r := (C13Thm.result_pure F f).

    Lemma lwf_result : lwf r /\ ladj_ok r.
    Proof.
      rewrite result_compose. split.
      - apply lwf_lax_compose; [apply lwf_c1|apply lwf_yt|exact len2].
      - apply ladj_ok_lax_compose; [apply lwf_c1|apply lwf_yt].
    Qed.

    (* the plain shape: three blocks *)
    Definition Psx : pohg O2 A2 := labs (sx f).
    Definition Pyt : pohg O2 A2 := labs (yt f).
    Definition Pid : pohg O2 A2 := labs (lohg_identity A2 (Wf f)).
    Definition PM : pohg O2 A2 := ptensor Pid (labs (fxl f)).

    Lemma labs_ifx : labs (ifx f) = PM.
    Proof. apply labs_tensor. apply lwf_id. Qed.

    Lemma labs_result : labs r = pjoin (pjoin Psx PM) Pyt.
    Proof.
      rewrite result_compose. rewrite labs_lax_compose by apply lwf_c1.
      rewrite labs_lax_compose by apply lwf_sx. rewrite labs_ifx. reflexivity.
    Qed.

    Lemma pending_ifx : pending (ifx f) = shift_pairs (length (Wf f)) (pending (fxl f)).
    Proof. unfold ifx. rewrite pending_tensor by apply lwf_id. reflexivity. Qed.

    Lemma pending_result :
      pending r = shift_pairs (length (Wf f)) (shift_pairs (length (Wf f)) (pending (fxl f)))
                  ++ glue_pairs Psx PM ++ glue_pairs (pjoin Psx PM) Pyt.
    Proof.
      rewrite result_compose.
      rewrite pending_lax_compose by (apply lwf_c1 || apply lwf_yt).
      rewrite pending_lax_compose by (apply lwf_sx || apply lwf_ifx).
      rewrite pending_ifx.
      change (pending (sx f)) with (@nil (nat * nat)). change (pending (yt f)) with (@nil (nat * nat)).
      change (map (shift_pair (nn (lax_compose_pure (sx f) (ifx f)))) []) with (@nil (nat * nat)).
      cbn [app]. rewrite <- app_assoc.
      change (map (shift_pair (nn (sx f)))) with (shift_pairs (length (Wf f))).
      reflexivity.
    Qed.
  End Native.

  (* ====================================================================== *)
  (* the strict path                                                         *)
  (* ====================================================================== *)
  (* the object map of the induced strict functor, as a value *)
  Definition fw_of (a : list O1) : ic (list O2) :=
    mkIC (mkFF (map (@length O2) (map Fo a)) (length (concat (map Fo a)) + 1)) (concat (map Fo a)).

  Lemma dyn_object_val a : dyn_map_object F a = Ok (fw_of a).
  Proof.
    unfold dyn_map_object.
    rewrite (from_semifinite_ok (semi_vops O2) (map (@length O2) (map Fo a)) (concat (map Fo a))).
    - reflexivity.
    - cbn [vlen semi_vops]. apply list_sum_map_length.
  Qed.

  Lemma fw_of_facts a :
    wf_ics (fw_of a) /\ decode_s (fw_of a) = map Fo a /\ ic_len (fw_of a) = length a.
  Proof.
    split; [|split].
    - split; cbn [fw_of ic_sources ic_values table target]; rewrite list_sum_map_length; reflexivity.
    - unfold decode_s, fw_of. cbn [ic_sources ic_values table]. apply segs_of_concat.
    - unfold ic_len, ff_source, fw_of. cbn [ic_sources table]. rewrite !map_length. reflexivity.
  Qed.

  (* labels of in-range node ids *)
  Lemma labs_of_types (nodes : list O1) ids : all_lt (length nodes) ids ->
    map Some (C13Thm.labs_of nodes ids) = map (nth_error nodes) ids /\
    length (C13Thm.labs_of nodes ids) = length ids.
  Proof.
    unfold all_lt, C13Thm.labs_of. induction ids as [|i ids IH]; intros H; cbn [flat_map map length].
    - auto.
    - apply Forall_cons_iff in H. destruct H as [Hi H]. destruct (IH H) as [E1 E2].
      destruct (nth_error nodes i) as [x|] eqn:E.
      + cbn [app map length]. rewrite E1, E2. auto.
      + apply nth_error_None in E. lia.
  Qed.

  Lemma labs_of_flat {X} (proj : X -> list nat) (nodes : list O1) (l : list X) :
    C13Thm.labs_of nodes (flat_map proj l) = concat (map (fun e => C13Thm.labs_of nodes (proj e)) l).
  Proof.
    induction l as [|e l IH]; cbn [flat_map map concat]. reflexivity.
    unfold C13Thm.labs_of in *. rewrite flat_map_app, IH. reflexivity.
  Qed.

  Lemma segs_labs_of {X} (proj : X -> list nat) (nodes : list O1) (l : list X) :
    (forall e, In e l -> all_lt (length nodes) (proj e)) ->
    segs (map (fun e => length (proj e)) l) (C13Thm.labs_of nodes (flat_map proj l))
    = map (fun e => C13Thm.labs_of nodes (proj e)) l.
  Proof.
    intros H. rewrite labs_of_flat.
    rewrite <- (segs_of_concat (map (fun e => C13Thm.labs_of nodes (proj e)) l)) at 2.
    f_equal. rewrite map_map. apply map_ext_in. intros e He. symmetry.
    apply labs_of_types. apply H. exact He.
  Qed.

  Section Strict.
    Variable B : Backend.
    Hypothesis OK : BackendOK B.
    Variable eqO2 : O2 -> O2 -> bool.
    Hypothesis eqO2_spec : forall x y, eqO2 x y = true <-> x = y.
    Variable f : lohg O1 A1.
    Hypothesis HW : F_wf F.
    Hypothesis HT : F_src_tgt F.
    Hypothesis Wff : lwf f.
    Hypothesis Lf : ladj_ok f.

    Notation sf := (strict_of f).
    Notation fw := (fw_of (l_nodes (lo_h f))).
    Notation nodes := (l_nodes (lo_h f)).

    Lemma adj_lt : forall e, In e (l_adj (lo_h f)) ->
      all_lt (length nodes) (fst e) /\ all_lt (length nodes) (snd e).
    Proof. destruct Wff as ((Ha & _) & _). exact Ha. Qed.

    Lemma all_s_lt : all_lt (length nodes) (all_s f).
    Proof. apply all_lt_flat_map. intros e He. apply adj_lt. exact He. Qed.
    Lemma all_t_lt : all_lt (length nodes) (all_t f).
    Proof. apply all_lt_flat_map. intros e He. apply adj_lt. exact He. Qed.

    Definition ops_of : operations O1 A1 :=
      to_ops_pure sf (C13Thm.labs_of nodes (all_s f)) (C13Thm.labs_of nodes (all_t f)).

    Lemma to_operations_strict : to_operations sf = Ok ops_of.
    Proof.
      destruct (to_operations_val (wf_strict_of Wff Lf)) as (va & vb & E & Ea & Eb).
      rewrite E. unfold ops_of. do 2 f_equal.
      - apply C01Lemmas.map_Some_inj. rewrite Ea. symmetry. apply (@labs_of_types nodes (all_s f) all_s_lt).
      - apply C01Lemmas.map_Some_inj. rewrite Eb. symmetry. apply (@labs_of_types nodes (all_t f) all_t_lt).
    Qed.

    Lemma wf_ops_of : wf_ics (ops_a ops_of) /\ wf_ics (ops_b ops_of).
    Proof.
      destruct (wf_to_ops_pure (C13Thm.labs_of nodes (all_s f)) (C13Thm.labs_of nodes (all_t f))
                  (wf_strict_of Wff Lf)) as (Wa & Wb & _).
      - apply (@labs_of_types nodes (all_s f) all_s_lt).
      - apply (@labs_of_types nodes (all_t f) all_t_lt).
      - split; assumption.
    Qed.

    (* the operation map of the induced strict functor strictifies the same tensored images *)
    Lemma dyn_operations_val : dyn_map_operations F B eqO2 ops_of = lohg_to_strict B eqO2 (fxl f).
    Proof.
      unfold dyn_map_operations. destruct wf_ops_of as [Wa Wb].
      destruct (C08_iter_s Wa) as (_ & _ & _ & _ & _ & _ & _ & _ & Ea & _).
      destruct (C08_iter_s Wb) as (_ & _ & _ & _ & _ & _ & _ & _ & Eb & _).
      rewrite Ea, Eb. cbn [bind]. f_equal.
      unfold ops_of, to_ops_pure, decode_s, strict_of, hstrict_of, enc.
      cbn [ops_a ops_b ops_x ic_sources ic_values table o_h h_s h_t h_x].
      unfold all_s, all_t. rewrite !segs_labs_of by (intros e He; apply adj_lt; exact He).
      rewrite fold_left_combine3. reflexivity.
    Qed.

    (* the strict image of the operations *)
    Lemma strict_fx :
      exists fx qx, lohg_to_strict B eqO2 (fxl f) = Ok fx /\ wf_ohg fx /\
        IsQuot (labs (fxl f)) qx (abs fx) /\ KerIs (nn (fxl f)) qx (pending (fxl f)) /\
        fx_typed sf fw fx.
    Proof.
      destruct (C10_to_strict_spec OK eqO2 eqO2_spec (lwf_fxl HW HT Lf) (ladj_fxl HW HT Lf)
                  (lc_fxl HW HT Lf)) as (fx & E & Wfx & qx & HQ & HK).
      exists fx, qx. split; [exact E|]. split; [exact Wfx|]. split; [exact HQ|]. split; [exact HK|].
      destruct (C10Thm.strict_types (s:=fx) (lwf_fxl HW HT Lf) HQ) as [Es Et].
      destruct (@map_ops_facts _ _ _ _ F f HW HT Lf) as (_ & _ & _ & Ts & Tt).
      destruct (fw_of_facts nodes) as (Wfw & Dfw & _).
      unfold fx_typed. rewrite Es, Et. unfold fxl. rewrite Ts, Tt. split; symmetry.
      - exact (C12Compose.image_type Fo nodes (edge_sources sf) Wfw Dfw).
      - exact (C12Compose.image_type Fo nodes (edge_targets sf) Wfw Dfw).
    Qed.

    Lemma blocks_eq :
      abs (c12_sx A2 sf fw) = Psx f /\ abs (c12_yt A2 sf fw) = Pyt f /\ abs (c12_i A2 fw) = Pid f.
    Proof. repeat split. Qed.

    (* the strict run: define_map_arrow on the strictified argument is a quotient of the three-block
       union around the strictified operation images, its kernel is generated by the boundary pairs *)
    Lemma strict_run :
      exists fx qx h q3,
        lohg_to_strict B eqO2 (fxl f) = Ok fx /\ wf_ohg fx /\
        IsQuot (labs (fxl f)) qx (abs fx) /\ KerIs (nn (fxl f)) qx (pending (fxl f)) /\
        define_map_arrow B eqO2 (dyn_functor F B eqO2) sf = Ok h /\ wf_ohg h /\
        IsQuot (pjoin (pjoin (Psx f) (ptensor (Pid f) (abs fx))) (Pyt f)) q3 (abs h) /\
        KerIs (length (p_nodes (Psx f)) + length (p_nodes (ptensor (Pid f) (abs fx))) + length (p_nodes (Pyt f)))
              q3 (glue_pairs (Psx f) (ptensor (Pid f) (abs fx)) ++
                  glue_pairs (pjoin (Psx f) (ptensor (Pid f) (abs fx))) (Pyt f)).
    Proof.
      destruct strict_fx as (fx & qx & E & Wfx & HQ & HK & Hty).
      pose proof (wf_strict_of Wff Lf) as Wsf. destruct (fw_of_facts nodes) as (Wfw & Dfw & Lfw).
      destruct (c12_run OK eqO2 eqO2_spec Wsf Wfw Lfw Wfx Hty) as (c1 & h & Hrun & Wc1 & Wh & Hic1 & Hich).
      exists fx, qx, h.
      pose proof (wf_abs_pwf (wf_c12_sx A2 sf Wfw)) as Hpsx.
      pose proof (wf_abs_pwf (wf_c12_yt A2 sf Wfw)) as Hpyt.
      pose proof (wf_abs_pwf (wf_c12_ifx fw Wfx)) as Hpifx.
      rewrite abs_c12_ifx in Hpifx, Hic1.
      destruct blocks_eq as (Bsx & Byt & Bid). rewrite Bsx, Bid in *. rewrite Byt in *.
      destruct Hic1 as (q1 & HQ1 & K1). destruct Hich as (q2 & HQ2 & K2).
      pose proof (pwf_pjoin Hpsx Hpifx) as HpD.
      set (Ms := ptensor (Pid f) (abs fx)) in *.
      assert (HP1 : pairs_lt (length (p_nodes (pjoin (Psx f) Ms))) (glue_pairs (Psx f) Ms)).
      { cbn [pjoin p_nodes]. rewrite app_length. apply glue_pairs_lt; assumption. }
      assert (K1' : forall i j, i < length (p_nodes (pjoin (Psx f) Ms)) -> j < length (p_nodes (pjoin (Psx f) Ms)) ->
                 (q1 i = q1 j <-> conn (glue_pairs (Psx f) Ms) i j)).
      { intros i j Hi Hj. cbn [pjoin p_nodes] in Hi, Hj. rewrite app_length in Hi, Hj. apply K1; assumption. }
      destruct (quot_then_glue HpD (proj1 (proj2 Hpyt)) HQ1 HP1 K1' HQ2 K2) as [HQ3 K3].
      eexists. split; [exact E|]. split; [exact Wfx|]. split; [exact HQ|]. split; [exact HK|].
      split; [|split; [exact Wh|split; [exact HQ3|]]].
      - unfold define_map_arrow. rewrite to_operations_strict. cbn [bind dyn_functor sf_map_operations].
        rewrite dyn_operations_val, E. cbn [bind sf_map_object dyn_functor].
        change (h_w (o_h sf)) with nodes. rewrite dyn_object_val. exact Hrun.
      - intros i j Hi Hj. apply K3.
        + cbn [pjoin p_nodes]. rewrite app_length. exact Hi.
        + cbn [pjoin p_nodes]. rewrite app_length. exact Hj.
    Qed.

    Notation r := (C13Thm.result_pure F f).

    (* the strict image is a quotient of the (unquotiented) native result, and the kernel of the
       quotient map is generated by the pending pairs of the native result *)
    Lemma native_over_strict :
      exists h q4,
        define_map_arrow B eqO2 (dyn_functor F B eqO2) sf = Ok h /\ wf_ohg h /\
        IsQuot (labs r) q4 (abs h) /\ KerIs (nn r) q4 (pending r).
    Proof.
      destruct strict_run as (fx & qx & h & q3 & E & Wfx & HQx & HKx & Hdef & Wh & HQ3 & HK3).
      exists h.
      pose proof (C10Thm.lwf_pwf (proj1 (lwf_sx f))) as Wsx. fold (Psx f) in Wsx.
      pose proof (C10Thm.lwf_pwf (proj1 (lwf_yt f))) as Wyt. fold (Pyt f) in Wyt.
      pose proof (C10Thm.lwf_pwf (proj1 (lwf_id (Wf f)))) as Wid. fold (Pid f) in Wid.
      pose proof (C10Thm.lwf_pwf (proj1 (lwf_ifx HW HT Lf))) as WM. rewrite labs_ifx in WM.
      set (a := length (p_nodes (Pid f))).
      set (qm := qsum a a (fun i => i) qx).
      assert (HQm : IsQuot (PM f) qm (ptensor (Pid f) (abs fx))).
      { apply (IsQuot_ptensor Wid (IsQuot_id (Pid f)) HQx). }
      assert (LM : length (p_nodes (PM f)) = a + nn (fxl f)).
      { unfold PM. cbn [ptensor p_nodes]. apply app_length. }
      assert (HKm : KerIs (length (p_nodes (PM f))) qm (shift_pairs a (pending (fxl f)))).
      { rewrite LM. apply (ker_sum (m := a) (@KerIs_id a) HKx).
        - constructor.
        - intros i Hi. exact Hi. }
      assert (HPm : pairs_lt (length (p_nodes (PM f))) (shift_pairs a (pending (fxl f)))).
      { rewrite LM. unfold shift_pairs. eapply pairs_lt_pmap; [|exact (pending_pairs_lt (lwf_fxl HW HT Lf))].
        intros i Hi. cbv beta. lia. }
      destruct (glue_quot Wsx WM Wyt HQm HKm HPm HQ3 HK3) as (q4 & HQ4 & HK4).
      exists q4. split; [exact Hdef|]. split; [exact Wh|].
      rewrite <- (labs_result HW HT Wff Lf) in HQ4. split; [exact HQ4|].
      rewrite (pending_result HW HT Wff Lf).
      replace (nn r) with (length (p_nodes (Psx f)) + length (p_nodes (PM f)) + length (p_nodes (Pyt f))).
      - exact HK4.
      - change (nn r) with (length (p_nodes (labs r))). rewrite (labs_result HW HT Wff Lf).
        cbn [pjoin p_nodes]. rewrite !app_length. reflexivity.
    Qed.

    (* (b) the quotient of the native result succeeds; it is the quotient of the four-block union
       by the equivalence generated by the pending pairs; it is a renumbering of the strict image *)
    Lemma native_quotient :
      exists r' q h,
        lohg_quotient B eqO2 r = Ok (r', inl q) /\
        IsQuot (labs r) (C09Thm.app q) (labs r') /\ KerIs (nn r) (C09Thm.app q) (pending r) /\
        lwf r' /\ pending r' = [] /\
        define_map_arrow B eqO2 (dyn_functor F B eqO2) sf = Ok h /\ wf_ohg h /\
        (exists q4, IsQuot (labs r) q4 (abs h) /\ KerIs (nn r) q4 (pending r)) /\
        NIso (labs r') (abs h).
    Proof.
      destruct native_over_strict as (h & q4 & Hdef & Wh & HQ4 & HK4).
      destruct (lwf_result HW HT Wff Lf) as [Wr Lr].
      assert (Cr : labels_consistent r).
      { apply (C10Thm.consistent_from_quot HQ4). intros i j Hi Hj Hc. apply (HK4 i j Hi Hj). exact Hc. }
      destruct (@C09_success B OK O2 A2 eqO2 eqO2_spec r Wr Cr)
        as (q & r' & Equot & _ & _ & _ & HKr & HQr & _ & Pr' & _ & Wr').
      assert (HN : NIso (labs r') (abs h)).
      { apply (quot_unique (C10Thm.lwf_pwf Wr) HQr HQ4). intros i j Hi Hj.
        change (length (p_nodes (labs r))) with (nn r) in Hi, Hj.
        rewrite (HKr i j Hi Hj), (HK4 i j Hi Hj). tauto. }
      exists r', q, h. split; [exact Equot|]. split; [exact HQr|]. split; [exact HKr|].
      split; [exact Wr'|]. split; [exact Pr'|]. split; [exact Hdef|]. split; [exact Wh|].
      split; [exists q4; split; assumption|exact HN].
    Qed.

    (* ================================================================== *)
    (* the two paths agree                                                 *)
    (* ================================================================== *)
    Variable eqO1 : O1 -> O1 -> bool.
    Hypothesis eqO1_spec : forall x y, eqO1 x y = true <-> x = y.
    Hypothesis CC : cc_canonical B.
    Hypothesis Hpend : pending f = [].

    Lemma lq_nil : l_q (lo_h f) = ([], []).
    Proof. exact (C10Thm.pending_nil_lq Wff Hpend). Qed.

    Lemma native_value : l_try_define_map_arrow F f = Ok (Some r).
    Proof.
      apply (C13Thm.C13_value (lwf13_of Wff Lf)); [|exact (F_typed_of HT)].
      rewrite lq_nil. reflexivity.
    Qed.

    (* ================================================================== *)
    (* the witness                                                         *)
    (* ================================================================== *)
    Notation n := (length (Wf f)).
    Notation NN := (length (Wf f ++ Wf f ++ l_nodes (lo_h (fxl f)))).

    Lemma witness_value : l_map_arrow_witness F f = Ok (Some (r, C13Thm.witness_pure F f)).
    Proof.
      apply (C13Thm.C13_value (lwf13_of Wff Lf)); [|exact (F_typed_of HT)].
      rewrite lq_nil. reflexivity.
    Qed.

    (* node i of the argument is sent to its block in the middle copy of the mapped objects *)
    Lemma witness_blocks ids : all_lt (length nodes) ids ->
      flat_map (fun i => nth i (decode_f (C13Thm.witness_pure F f)) []) ids
      = shiftl n (inj_table (szs f) ids).
    Proof.
      intros H. unfold decode_f, C13Thm.witness_pure. cbn [ic_sources ic_values table].
      change (C13Thm.sizes_of F nodes) with (szs f). rewrite C13Thm.segs_seq, szs_sum.
      unfold all_lt in H. induction H as [|i ids Hi _ IH]; cbn [flat_map]. reflexivity.
      rewrite IH. change (inj_table (szs f) (i :: ids))
        with (seq (list_sum (firstn i (szs f))) (nth i (szs f) 0) ++ inj_table (szs f) ids).
      rewrite shiftl_app. f_equal.
      assert (Hlt : i < length (szs f)) by (unfold szs; rewrite !map_length; exact Hi).
      rewrite (nth_map_seq _ 0 [] Hlt). cbn [Nat.add].
      rewrite (seq_shiftl (nth i (szs f) 0) (n + list_sum (firstn i (szs f)))).
      rewrite (seq_shiftl (nth i (szs f) 0) (list_sum (firstn i (szs f)))).
      rewrite shiftl_shiftl. f_equal. lia.
    Qed.

    Lemma glue1_explicit :
      glue_pairs (Psx f) (PM f)
      = combine (seq 0 n) (shiftl n (seq 0 n))
        ++ combine (inj_table (szs f) (all_s f)) (shiftl n (shiftl n (lo_sources (fxl f)))).
    Proof.
      unfold glue_pairs, Psx, PM, Pid, ptensor, labs, sx, lohg_identity, lhg_discrete.
      cbn [p_outs p_ins p_nodes lo_h lo_sources lo_targets l_nodes].
      rewrite shiftl_app. apply combine_app_eq. rewrite shiftl_length. reflexivity.
    Qed.

    Lemma glue2_explicit :
      glue_pairs (pjoin (Psx f) (PM f)) (Pyt f)
      = combine (shiftl n (seq 0 n)) (shiftl NN (seq 0 n))
        ++ combine (shiftl n (shiftl n (lo_targets (fxl f)))) (shiftl NN (inj_table (szs f) (all_t f))).
    Proof.
      unfold glue_pairs, pjoin, Psx, PM, Pid, Pyt, ptensor, labs, sx, yt, lohg_identity, lhg_discrete.
      cbn [p_outs p_ins p_nodes lo_h lo_sources lo_targets l_nodes].
      rewrite !shiftl_app. apply combine_app_eq. rewrite !shiftl_length. reflexivity.
    Qed.

    Lemma conn_first_middle k : k < n -> conn (pending r) k (k + n).
    Proof.
      intros Hk. rewrite (pending_result HW HT Wff Lf). apply conn_app_r. apply conn_app_l.
      rewrite glue1_explicit. apply conn_app_l. apply conn_step. unfold shiftl.
      apply in_combine_diag. split; [apply in_seq; lia|reflexivity].
    Qed.

    Lemma conn_middle_last k : k < n -> conn (pending r) (k + n) (k + NN).
    Proof.
      intros Hk. rewrite (pending_result HW HT Wff Lf). apply conn_app_r. apply conn_app_r.
      rewrite glue2_explicit. apply conn_app_l. apply conn_step. unfold shiftl.
      apply (in_combine_map2 (fun x => x + n) (fun x => x + NN)). apply in_seq. lia.
    Qed.

    Lemma result_interfaces :
      lo_sources r = inj_table (szs f) (lo_sources f) /\
      lo_targets r = shiftl NN (inj_table (szs f) (lo_targets f)) /\ nn r = NN + n.
    Proof.
      rewrite result_compose. unfold lax_compose_pure, nn.
      cbn [lo_sources lo_targets lo_h l_nodes lhg_coproduct sx yt ifx lohg_tensor lohg_identity lhg_discrete].
      split; [reflexivity|]. split; [reflexivity|]. rewrite app_length. reflexivity.
    Qed.

    (* pushing the input interfaces through the witness and the quotient map gives the output
       interfaces *)
    Theorem C13_witness_interfaces_sec r0 w r' q :
      l_map_arrow_witness F f = Ok (Some (r0, w)) ->
      lohg_quotient B eqO2 r0 = Ok (r', inl q) ->
      map (C09Thm.app q) (flat_map (fun i => nth i (decode_f w) []) (lo_sources f)) = lo_sources r' /\
      map (C09Thm.app q) (flat_map (fun i => nth i (decode_f w) []) (lo_targets f)) = lo_targets r'.
    Proof.
      intros Ew Eq. rewrite witness_value in Ew. inversion Ew; subst r0 w. clear Ew.
      destruct (lwf_result HW HT Wff Lf) as [Wr _].
      destruct (quotient_inl_inv B OK O2 A2 eqO2 eqO2_spec r r' q Wr Eq) as (Eq' & _ & _ & _ & u & Er' & _).
      destruct (hq_spec B OK O2 A2 (lo_h r) (proj1 Wr)) as (_ & _ & _ & HK).
      change (hn (lo_h r)) with (nn r) in HK. change (hpending (lo_h r)) with (pending r) in HK.
      rewrite <- Eq' in HK.
      destruct result_interfaces as (Es & Et & En).
      destruct Wff as (_ & Hs & Ht).
      assert (HNN : n <= NN) by (rewrite app_length; lia).
      rewrite (witness_blocks Hs), (witness_blocks Ht). rewrite Er'. unfold quot_result.
      cbn [lo_sources lo_targets]. rewrite <- Eq', Es, Et. unfold shiftl. rewrite !map_map.
      split; apply map_ext_in; intros x Hx.
      - assert (Hlt : x < n) by (eapply all_lt_In; [apply inj_lt|exact Hx]).
        symmetry. apply HK; [lia|lia|]. apply conn_first_middle. exact Hlt.
      - assert (Hlt : x < n) by (eapply all_lt_In; [apply inj_lt|exact Hx]).
        apply HK; [lia|lia|]. apply conn_middle_last. exact Hlt.
    Qed.

    Theorem C13_agrees_detailed :
      exists r' q h s',
        (* the native path and its quotient *)
        l_try_define_map_arrow F f = Ok (Some r) /\
        lohg_quotient B eqO2 r = Ok (r', inl q) /\
        IsQuot (labs r) (C09Thm.app q) (labs r') /\ KerIs (nn r) (C09Thm.app q) (pending r) /\
        lwf r' /\ pending r' = [] /\
        (* the strict path *)
        lohg_to_strict B eqO1 f = Ok sf /\
        define_map_arrow B eqO2 (dyn_functor F B eqO2) sf = Ok h /\ wf_ohg h /\
        lohg_from_strict h = Ok s' /\ labs s' = abs h /\
        dyn_define_map_arrow F B eqO1 eqO2 f = Ok s' /\
        (sf' <- lohg_to_strict B eqO1 f ;; define_map_arrow B eqO2 (dyn_functor F B eqO2) sf') = Ok h /\
        (* both are quotients of the unquotiented native result with the same kernel *)
        (exists q4, IsQuot (labs r) q4 (abs h) /\ KerIs (nn r) q4 (pending r)) /\
        NIso (labs r') (abs h) /\ Iso (labs r') (abs h) /\ Iso (labs r') (labs s').
    Proof.
      destruct native_quotient as (r' & q & h & Equot & HQr & HKr & Wr' & Pr' & Hdef & Wh & (q4 & HQ4 & HK4) & HN).
      pose proof (to_strict_nopending OK eqO1 eqO1_spec CC Wff Lf lq_nil) as Estrict.
      pose proof (lohg_from_strict_ok Wh) as Efrom.
      exists r', q, h, (lax_of h).
      split; [exact native_value|]. split; [exact Equot|]. split; [exact HQr|]. split; [exact HKr|].
      split; [exact Wr'|]. split; [exact Pr'|]. split; [exact Estrict|]. split; [exact Hdef|].
      split; [exact Wh|]. split; [exact Efrom|]. split; [apply labs_lax_of|].
      split; [|split; [|split; [|split; [exact HN|split]]]].
      - unfold dyn_define_map_arrow. rewrite Estrict. cbn [bind]. rewrite Hdef. cbn [bind]. exact Efrom.
      - rewrite Estrict. cbn [bind]. exact Hdef.
      - exists q4. split; assumption.
      - apply C12Plain.NIso_Iso. exact HN.
      - rewrite labs_lax_of. apply C12Plain.NIso_Iso. exact HN.
    Qed.
  End Strict.
End C13b.

(* ====================================================================== *)
(* the theorems, closed                                                    *)
(* ====================================================================== *)
(* The hypotheses on the lax functor are the documented contract of `map_operation` ("has type
   F s -> F t", returns a well-formed diagram):
     F_wf F      : every image is lwf, ladj_ok and label-consistent;
     F_src_tgt F : lohg_source (image) = Ok (F s), lohg_target (image) = Ok (F t).
   The hypotheses on the argument: lwf, ladj_ok, no pending pairs.
   [cc_canonical B] (component ids are first-occurrence ranks; true of VecBackend, the only back-end
   the lax layer runs on) makes strictification of a pending-free diagram a re-encoding. *)
Definition C13_agrees_full : Prop :=
  forall (B : Backend), BackendOK B -> cc_canonical B ->
  forall (O1 A1 O2 A2 : Type)
         (eqO1 : O1 -> O1 -> bool) (eqO2 : O2 -> O2 -> bool),
    (forall x y, eqO1 x y = true <-> x = y) -> (forall x y, eqO2 x y = true <-> x = y) ->
  forall (F : lfunctor O1 A1 O2 A2), F_wf F -> F_src_tgt F ->
  forall f : lohg O1 A1, lwf f -> ladj_ok f -> pending f = [] ->
  exists (r r' : lohg O2 A2) (q : ff) (h : ohg O2 A2) (s' : lohg O2 A2),
    (* the native path, and the quotient of its result *)
    l_try_define_map_arrow F f = Ok (Some r) /\ r = C13Thm.result_pure F f /\
    lohg_quotient B eqO2 r = Ok (r', inl q) /\
    (* the strict path: strictify, apply the induced strict functor, embed *)
    (sf <- lohg_to_strict B eqO1 f ;; define_map_arrow B eqO2 (dyn_functor F B eqO2) sf) = Ok h /\
    lohg_from_strict h = Ok s' /\
    dyn_define_map_arrow F B eqO1 eqO2 f = Ok s' /\
    (* they agree *)
    Iso (labs r') (abs h) /\ Iso (labs r') (labs s').

Theorem C13_agrees : C13_agrees_full.
Proof.
  intros B OK CC O1 A1 O2 A2 eqO1 eqO2 S1 S2 F HW HT f Wf0 Lf Hp.
  destruct (@C13_agrees_detailed O1 A1 O2 A2 F B OK eqO2 S2 f HW HT Wf0 Lf eqO1 S1 CC Hp)
    as (r' & q & h & s' & E1 & E2 & _ & _ & _ & _ & _ & _ & _ & E3 & _ & E4 & E5 & _ & _ & I1 & I2).
  exists (C13Thm.result_pure F f), r', q, h, s'.
  repeat (split; [first [assumption | reflexivity]|]). exact I2.
Qed.

(* (b): the quotient of the native result succeeds (labels are consistent) and is the quotient of the
   four-block union FW + (FW + FXlax) + FW whose kernel is generated by the pending pairs: those of
   the tensored images (shifted) and the two families of boundary pairs.  Needs neither the
   canonical numbering nor the absence of pending pairs in f ([result_pure] is the value of the
   spider construction in any case). *)
Theorem C13_native_quotient :
  forall (B : Backend), BackendOK B ->
  forall (O1 A1 O2 A2 : Type) (eqO2 : O2 -> O2 -> bool), (forall x y, eqO2 x y = true <-> x = y) ->
  forall (F : lfunctor O1 A1 O2 A2), F_wf F -> F_src_tgt F ->
  forall f : lohg O1 A1, lwf f -> ladj_ok f ->
  let r := C13Thm.result_pure F f in
  exists r' q,
    lohg_quotient B eqO2 r = Ok (r', inl q) /\
    labs r = pjoin (pjoin (Psx F f) (PM F f)) (Pyt F f) /\
    pending r = shift_pairs (length (Wf F f)) (shift_pairs (length (Wf F f)) (pending (fxl F f)))
                ++ glue_pairs (Psx F f) (PM F f) ++ glue_pairs (pjoin (Psx F f) (PM F f)) (Pyt F f) /\
    IsQuot (labs r) (C09Thm.app q) (labs r') /\ KerIs (nn r) (C09Thm.app q) (pending r) /\
    lwf r' /\ pending r' = [].
Proof.
  intros B OK O1 A1 O2 A2 eqO2 S2 F HW HT f Wf0 Lf r.
  destruct (@native_quotient O1 A1 O2 A2 F B OK eqO2 S2 f HW HT Wf0 Lf)
    as (r' & q & h & E2 & HQ & HK & Wr' & Pr' & _).
  exists r', q. split; [exact E2|]. split; [exact (labs_result HW HT Wf0 Lf)|].
  split; [exact (pending_result HW HT Wf0 Lf)|].
  split; [exact HQ|]. split; [exact HK|]. split; [exact Wr'|exact Pr'].
Qed.

(* the witness clause *)
Theorem C13_witness_interfaces :
  forall (B : Backend), BackendOK B ->
  forall (O1 A1 O2 A2 : Type) (eqO2 : O2 -> O2 -> bool), (forall x y, eqO2 x y = true <-> x = y) ->
  forall (F : lfunctor O1 A1 O2 A2), F_wf F -> F_src_tgt F ->
  forall f : lohg O1 A1, lwf f -> ladj_ok f -> pending f = [] ->
  forall (r : lohg O2 A2) (w : icf) (r' : lohg O2 A2) (q : ff),
    l_map_arrow_witness F f = Ok (Some (r, w)) ->
    lohg_quotient B eqO2 r = Ok (r', inl q) ->
    map (C09Thm.app q) (flat_map (fun i => nth i (decode_f w) []) (lo_sources f)) = lo_sources r' /\
    map (C09Thm.app q) (flat_map (fun i => nth i (decode_f w) []) (lo_targets f)) = lo_targets r'.
Proof.
  intros B OK O1 A1 O2 A2 eqO2 S2 F HW HT f Wf0 Lf Hp r w r' q.
  exact (@C13_witness_interfaces_sec O1 A1 O2 A2 F B OK eqO2 S2 f HW HT Wf0 Lf Hp r w r' q).
Qed.

(* ... and both hypotheses of the witness clause are met: the witness is returned and the quotient
   of the result succeeds *)
Theorem C13_witness_defined :
  forall (B : Backend), BackendOK B ->
  forall (O1 A1 O2 A2 : Type) (eqO2 : O2 -> O2 -> bool), (forall x y, eqO2 x y = true <-> x = y) ->
  forall (F : lfunctor O1 A1 O2 A2), F_wf F -> F_src_tgt F ->
  forall f : lohg O1 A1, lwf f -> ladj_ok f -> pending f = [] ->
  exists r w r' q,
    l_map_arrow_witness F f = Ok (Some (r, w)) /\ lohg_quotient B eqO2 r = Ok (r', inl q) /\
    map (C09Thm.app q) (flat_map (fun i => nth i (decode_f w) []) (lo_sources f)) = lo_sources r' /\
    map (C09Thm.app q) (flat_map (fun i => nth i (decode_f w) []) (lo_targets f)) = lo_targets r'.
Proof.
  intros B OK O1 A1 O2 A2 eqO2 S2 F HW HT f Wf0 Lf Hp.
  destruct (@native_quotient O1 A1 O2 A2 F B OK eqO2 S2 f HW HT Wf0 Lf) as (r' & q & _ & E2 & _).
  pose proof (@witness_value O1 A1 O2 A2 F f HT Wf0 Lf Hp) as Ew.
  exists (C13Thm.result_pure F f), (C13Thm.witness_pure F f), r', q.
  split; [exact Ew|]. split; [exact E2|].
  exact (@C13_witness_interfaces_sec O1 A1 O2 A2 F B OK eqO2 S2 f HW HT Wf0 Lf Hp _ _ _ _ Ew E2).
Qed.

Print Assumptions C13_agrees.
Print Assumptions C13_native_quotient.
Print Assumptions C13_witness_interfaces.
Print Assumptions C13_witness_defined.
