(* C14: optics.  Part A: the object map of an optic, interleaving spiders, the partial dagger
   (pure list facts about the model functions of Model/Functor.v).  Part B: the polynomial-circuit
   theory of Run/Dispatch.v, generator by generator: the adapted optic of every generator is an
   explicit well-formed monogamous acyclic circuit which, evaluated on (x, dy), returns
   (g(x), J_g(x)^T dy) modulo 2^64; the lens chain rule.  Part C: what is NOT proved. *)
From OHG Require Import Spec.Plain Proofs.PrimsThm Proofs.C06Thm Proofs.SegThm Proofs.C08Thm.
From Coq Require Import Permutation.

Set Implicit Arguments.

(* ======================= Part A: pure list facts ======================= *)

(* ---- the interleaving of two lists, and the transposition table picking it ---- *)
Definition interleave2 {X} (la lb : list X) : list X :=
  flat_map (fun p => [fst p; snd p]) (combine la lb).

(* [F a_i ++ R a_i | i] *)
Definition zip_app {X} (la lb : list (list X)) : list (list X) :=
  map (fun p => fst p ++ snd p) (combine la lb).

Lemma concat_interleave2 {X} (la lb : list (list X)) :
  concat (interleave2 la lb) = concat (zip_app la lb).
Proof.
  unfold interleave2, zip_app. induction (combine la lb) as [|p l IH]; [reflexivity|].
  cbn [flat_map map concat List.app]. rewrite IH, app_assoc. reflexivity.
Qed.

Lemma seq_double n : forall a, seq (2 * a) (n * 2) = flat_map (fun k => [2 * k; 2 * k + 1]) (seq a n).
Proof.
  induction n as [|n IH]; intros a; [reflexivity|].
  change (S n * 2) with (S (S (n * 2))). cbn [seq flat_map List.app].
  rewrite <- IH. replace (2 * S a) with (S (S (2 * a))) by lia.
  f_equal. f_equal. lia.
Qed.

Lemma tr_fun_even n k : tr_fun 2 n (2 * k) = k.
Proof.
  unfold tr_fun. rewrite (Nat.mul_comm 2 k), Nat.mod_mul, Nat.div_mul by discriminate. lia.
Qed.

Lemma tr_fun_odd n k : tr_fun 2 n (2 * k + 1) = n + k.
Proof.
  unfold tr_fun. rewrite (Nat.mul_comm 2 k).
  rewrite (Nat.add_comm (k * 2) 1), Nat.mod_add, Nat.div_add by discriminate.
  cbn. lia.
Qed.

(* the table of ff_transpose 2 n is [0, n, 1, n+1, ...] *)
Lemma transpose2_table n :
  map (tr_fun 2 n) (seq 0 (n * 2)) = flat_map (fun k => [k; n + k]) (seq 0 n).
Proof.
  change (seq 0 (n * 2)) with (seq (2 * 0) (n * 2)). rewrite seq_double.
  generalize (seq 0 n). intros l. induction l as [|k l IH]; [reflexivity|].
  cbn [flat_map map List.app]. rewrite IH, tr_fun_even, tr_fun_odd. reflexivity.
Qed.

Lemma combine_nth_seq {X} (d : X) (la : list X) : forall lb n, length la = n -> length lb = n ->
  combine la lb = map (fun k => (nth k la d, nth k lb d)) (seq 0 n).
Proof.
  induction la as [|x la IH]; intros [|y lb] n Ha Hb; cbn [length] in *; subst n; try discriminate.
  - reflexivity.
  - cbn [seq map combine nth]. f_equal. rewrite <- seq_shift, map_map.
    apply IH; [reflexivity|]. injection Hb. auto.
Qed.

(* picking the entries of la ++ lb along the transposition table interleaves them *)
Lemma pick_transpose {X} (d : X) (la lb : list X) n : length la = n -> length lb = n ->
  map (fun i => nth i (la ++ lb) d) (map (tr_fun 2 n) (seq 0 (n * 2))) = interleave2 la lb.
Proof.
  intros Ha Hb. rewrite transpose2_table. unfold interleave2.
  rewrite (combine_nth_seq d la lb Ha Hb).
  assert (E : forall l, Forall (fun k => k < n) l ->
            map (fun i => nth i (la ++ lb) d) (flat_map (fun k => [k; n + k]) l)
            = flat_map (fun p : X * X => [fst p; snd p]) (map (fun k => (nth k la d, nth k lb d)) l)).
  { intros l. induction l as [|k l IH]; intros F; [reflexivity|].
    inversion F as [|k' l' Hk Hl]; subst.
    cbn [flat_map map List.app fst snd]. rewrite IH by exact Hl.
    rewrite app_nth1 by lia. rewrite app_nth2 by lia.
    replace (length la + k - length la) with k by lia. reflexivity. }
  apply E. apply Forall_forall. intros k Hk. apply in_seq in Hk. lia.
Qed.

Lemma skipn_seq k : forall a n, skipn k (seq a n) = seq (a + k) (n - k).
Proof.
  induction k as [|k IH]; intros a n.
  - rewrite Nat.add_0_r, Nat.sub_0_r. reflexivity.
  - destruct n as [|n]; [reflexivity|]. cbn [seq skipn]. rewrite IH.
    replace (S a + k) with (a + S k) by lia. reflexivity.
Qed.

(* the image of an injections table under any map of node ids *)
Lemma map_inj_table {X} (f : nat -> X) sizes idx :
  map f (inj_table sizes idx)
  = flat_map (fun i => nth i (segs sizes (map f (seq 0 (list_sum sizes)))) []) idx.
Proof.
  unfold inj_table. rewrite !flat_map_concat_map, concat_map, map_map. f_equal.
  apply map_ext. intros i. rewrite segs_nth.
  pose proof (prefix_plus_size_le sizes i) as P.
  rewrite skipn_map, firstn_map, skipn_seq, firstn_seq_le by lia. reflexivity.
Qed.

Lemma inj_table_segs sizes idx :
  inj_table sizes idx = flat_map (fun i => nth i (segs sizes (seq 0 (list_sum sizes))) []) idx.
Proof.
  rewrite <- (map_id (inj_table sizes idx)). rewrite map_inj_table, map_id. reflexivity.
Qed.

Lemma inj_table_all sizes : inj_table sizes (seq 0 (length sizes)) = seq 0 (list_sum sizes).
Proof.
  rewrite inj_table_segs, flat_map_concat_map.
  assert (E : map (fun i => nth i (segs sizes (seq 0 (list_sum sizes))) []) (seq 0 (length sizes))
              = segs sizes (seq 0 (list_sum sizes))).
  { rewrite <- (segs_length sizes (seq 0 (list_sum sizes))). apply C08Thm.map_nth_seq. }
  rewrite E. apply segs_concat. rewrite seq_length. reflexivity.
Qed.

Lemma map_some_nth_error {X} (v : list X) : map (nth_error v) (seq 0 (length v)) = map Some v.
Proof.
  induction v as [|x v IH]; [reflexivity|]. cbn [length seq map nth_error]. f_equal.
  rewrite <- seq_shift, map_map. exact IH.
Qed.

Lemma list_sum_zip_add ta : forall tb, length ta = length tb ->
  list_sum (map (fun p => fst p + snd p) (combine ta tb)) = list_sum ta + list_sum tb.
Proof.
  induction ta as [|x ta IH]; intros [|y tb] H; cbn [length] in H; try discriminate; [reflexivity|].
  simpl. rewrite IH by lia. lia.
Qed.

Lemma zip_app_lengths {X} (la : list (list X)) : forall lb,
  map (@length X) (zip_app la lb)
  = map (fun p => fst p + snd p) (combine (map (@length X) la) (map (@length X) lb)).
Proof.
  unfold zip_app. induction la as [|a la IH]; intros [|b lb]; try reflexivity.
  cbn [combine map fst snd]. rewrite app_length, IH. reflexivity.
Qed.

(* ---- the coproduct of two well-formed segmented label arrays, as a value ---- *)
Section Coproduct.
  Variable T : Type.

  Definition cop_s (c d : ic (list T)) : ic (list T) :=
    mkIC (mkFF (table (ic_sources c) ++ table (ic_sources d))
               (target (ic_sources c) + target (ic_sources d) - 1))
         (ic_values c ++ ic_values d).

  Lemma coproduct_s_ok (c d : ic (list T)) : wf_ics c -> wf_ics d ->
    ic_coproduct (semi_vops T) c d = Ok (Some (cop_s c d)).
  Proof.
    intros [C1 C2] [D1 D2]. unfold ic_coproduct. rewrite sub_chk_ok by lia. reflexivity.
  Qed.

  Lemma cop_s_wf (c d : ic (list T)) : wf_ics c -> wf_ics d -> wf_ics (cop_s c d).
  Proof.
    intros [C1 C2] [D1 D2]. split; cbn [cop_s ic_sources ic_values table target].
    - rewrite list_sum_app. lia.
    - rewrite list_sum_app, app_length. lia.
  Qed.

  Lemma cop_s_decode (c d : ic (list T)) : wf_ics c -> wf_ics d ->
    decode_s (cop_s c d) = decode_s c ++ decode_s d.
  Proof.
    intros [C1 C2] [D1 D2]. unfold decode_s. cbn [cop_s ic_sources ic_values table].
    apply segs_app. exact C2.
  Qed.

  Lemma cop_s_len (c d : ic (list T)) : ic_len (cop_s c d) = ic_len c + ic_len d.
  Proof. unfold ic_len, ff_source. cbn. apply app_length. Qed.
End Coproduct.

Lemma decode_s_length T (c : ic (list T)) : length (decode_s c) = ic_len c.
Proof. unfold decode_s. apply segs_length. Qed.

Lemma decode_s_lengths T (c : ic (list T)) : wf_ics c ->
  map (@length T) (decode_s c) = table (ic_sources c).
Proof. intros [W1 W2]. unfold decode_s. apply segs_lengths. lia. Qed.

Lemma wf_transpose2 n : wf_ff (mkFF (map (tr_fun 2 n) (seq 0 (n * 2))) (n * 2)).
Proof.
  unfold wf_ff. cbn [table target]. apply Forall_map. apply Forall_forall. intros i Hi.
  apply in_seq in Hi. apply tr_fun_lt. lia.
Qed.

(* ================= C14_map_object ================= *)
Section MapObject.
  Variables O1 A1 O2 A2 : Type.

  (* the value computed by the optic's object map from the two images of the same object list *)
  Definition optic_object (fa ra : ic (list O2)) : ic (list O2) :=
    mkIC (mkFF (map (fun p => fst p + snd p) (combine (table (ic_sources fa)) (table (ic_sources ra))))
               (target (ic_sources fa) + target (ic_sources ra) - 1))
         (concat (zip_app (decode_s fa) (decode_s ra))).

  Theorem C14_map_object (P : optic O1 A1 O2 A2) (a : list O1) (fa ra : ic (list O2)) n :
    sf_map_object (op_fwd P) a = Ok fa -> sf_map_object (op_rev P) a = Ok ra ->
    wf_ics fa -> wf_ics ra -> ic_len fa = n -> ic_len ra = n ->
    exists c, optic_map_object P a = Ok c /\ c = optic_object fa ra /\ wf_ics c /\ ic_len c = n /\
      decode_s c = map (fun p => fst p ++ snd p) (combine (decode_s fa) (decode_s ra)).
  Proof.
    intros HF HR Wf Wr Lf Lr.
    assert (Hlen : length (table (ic_sources fa)) = length (table (ic_sources ra))).
    { unfold ic_len, ff_source in Lf, Lr. lia. }
    assert (Hsum : list_sum (map (fun p => fst p + snd p)
                                 (combine (table (ic_sources fa)) (table (ic_sources ra))))
                   = list_sum (table (ic_sources fa)) + list_sum (table (ic_sources ra))).
    { apply list_sum_zip_add. exact Hlen. }
    assert (Hlens : map (@length O2) (zip_app (decode_s fa) (decode_s ra))
                    = map (fun p => fst p + snd p)
                          (combine (table (ic_sources fa)) (table (ic_sources ra)))).
    { rewrite zip_app_lengths, !decode_s_lengths by assumption. reflexivity. }
    assert (Hvals : length (concat (zip_app (decode_s fa) (decode_s ra)))
                    = list_sum (table (ic_sources fa)) + list_sum (table (ic_sources ra))).
    { rewrite <- list_sum_map_length, Hlens. exact Hsum. }
    exists (optic_object fa ra).
    split; [|split; [reflexivity|split; [|split]]].
    - unfold optic_map_object. rewrite HF. cbn [bind]. rewrite HR. cbn [bind].
      rewrite Lf, Lr, Nat.eqb_refl. cbn [assert bind].
      rewrite coproduct_s_ok by assumption. cbn [unwrap bind].
      rewrite ff_transpose_ok by lia. cbn [bind].
      rewrite aadd_ok by exact Hlen. cbn [bind].
      destruct Wf as [F1 F2]. destruct Wr as [R1 R2].
      rewrite sub_chk_ok by lia. cbn [bind].
      rewrite ff_new_lt_sum by (rewrite Hsum; lia). cbn [unwrap bind].
      rewrite (indexed_values_ok (semi_laws O2)).
      2:{ apply cop_s_wf; split; assumption. }
      2:{ apply wf_transpose2. }
      2:{ cbn [target]. rewrite cop_s_len. lia. }
      cbn [bind unwrap semi_rebuild].
      unfold pick. cbn [table]. rewrite <- decode_s_g.
      rewrite cop_s_decode by (split; assumption).
      rewrite (pick_transpose [] (decode_s fa) (decode_s ra)) by (rewrite decode_s_length; assumption).
      rewrite concat_interleave2.
      rewrite C08_new_some.
      2:{ split; cbn [ic_sources ic_values table target semi_vops vlen].
          - rewrite Hsum. lia.
          - unfold semi_rebuild. rewrite Hsum, Hvals. reflexivity. }
      reflexivity.
    - destruct Wf as [F1 F2]. destruct Wr as [R1 R2].
      split; cbn [optic_object ic_sources ic_values table target].
      + rewrite Hsum. lia.
      + rewrite Hsum, Hvals. reflexivity.
    - unfold ic_len, ff_source. cbn [optic_object ic_sources table].
      rewrite map_length, combine_length. unfold ic_len, ff_source in Lf. lia.
    - unfold decode_s at 1. cbn [optic_object ic_sources ic_values table].
      rewrite <- Hlens. apply segs_of_concat.
  Qed.

  (* the assertion of the Rust code: different numbers of blocks panic *)
  Theorem C14_map_object_panic (P : optic O1 A1 O2 A2) (a : list O1) (fa ra : ic (list O2)) :
    sf_map_object (op_fwd P) a = Ok fa -> sf_map_object (op_rev P) a = Ok ra ->
    ic_len fa <> ic_len ra -> optic_map_object P a = Panic.
  Proof.
    intros HF HR Hne. unfold optic_map_object. rewrite HF. cbn [bind]. rewrite HR. cbn [bind].
    apply Nat.eqb_neq in Hne. rewrite Hne. reflexivity.
  Qed.
End MapObject.

(* ================= C14_interleave ================= *)
Section Interleave.
  Variables O2 A2 : Type.

  (* the interleaving spider: identity source leg, target leg listing the nodes block by block *)
  Definition interleave_spider (a b : ic (list O2)) : ohg O2 A2 :=
    mkOHG (idf (length (ic_values a) + length (ic_values b)))
          (mkFF (inj_table (table (ic_sources a) ++ table (ic_sources b))
                           (map (tr_fun 2 (ic_len a)) (seq 0 (ic_len a * 2))))
                (list_sum (table (ic_sources a) ++ table (ic_sources b))))
          (hg_discrete A2 (ic_values a ++ ic_values b)).

  Lemma interleave_blocks_ok (a b : ic (list O2)) : wf_ics a -> wf_ics b -> ic_len a = ic_len b ->
    interleave_blocks A2 a b = Ok (interleave_spider a b).
  Proof.
    intros Wa Wb E. unfold interleave_blocks. rewrite <- E, Nat.eqb_refl. cbn [assert bind].
    rewrite coproduct_s_ok by assumption. cbn [unwrap bind].
    rewrite ff_identity_ok. cbn [bind].
    rewrite ff_transpose_ok by lia. cbn [bind].
    rewrite ff_injections_ok.
    2:{ cbn [target]. change (ff_source (ic_sources (cop_s a b))) with (ic_len (cop_s a b)).
        rewrite cop_s_len. lia. }
    2:{ apply wf_transpose2. }
    cbn [unwrap bind cop_s ic_sources ic_values table].
    destruct Wa as [A1' A2']. destruct Wb as [B1' B2'].
    unfold ohg_spider. cbn [target idf].
    rewrite list_sum_app, app_length, A2', B2', !Nat.eqb_refl. cbn [negb orb unwrap].
    unfold interleave_spider. rewrite list_sum_app, A2', B2'. reflexivity.
  Qed.

  Lemma interleave_table_perm (a b : ic (list O2)) : ic_len a = ic_len b ->
    Permutation (table (o_t (interleave_spider a b)))
                (seq 0 (list_sum (table (ic_sources a) ++ table (ic_sources b)))).
  Proof.
    intros E. cbn [interleave_spider o_t table].
    rewrite <- inj_table_all. unfold inj_table. apply Permutation_flat_map.
    rewrite app_length.
    destruct (C06_transpose 2 (ic_len a)) as [H _].
    destruct (H ltac:(lia)) as (f & Hf & _ & _ & _ & _ & _ & HP).
    rewrite ff_transpose_ok in Hf by lia. inversion Hf as [Hf']. subst f. cbn [table] in HP.
    unfold ic_len, ff_source in *. rewrite <- E.
    replace (length (table (ic_sources a)) + length (table (ic_sources a)))
      with (length (table (ic_sources a)) * 2) by lia.
    exact HP.
  Qed.

  Theorem C14_interleave (a b : ic (list O2)) : wf_ics a -> wf_ics b -> ic_len a = ic_len b ->
    let total := length (ic_values a) + length (ic_values b) in
    exists h, interleave_blocks A2 a b = Ok h /\ wf_ohg h /\
      (* the spider: no hyperedges, one node per entry of a.values ++ b.values *)
      o_h h = hg_discrete A2 (ic_values a ++ ic_values b) /\
      h_x (o_h h) = [] /\ decode_f (h_s (o_h h)) = [] /\ decode_f (h_t (o_h h)) = [] /\
      (* source leg: the identity *)
      o_s h = idf total /\
      (* target leg: a permutation of all nodes ... *)
      target (o_t h) = total /\ length (table (o_t h)) = total /\
      NoDup (table (o_t h)) /\ Permutation (table (o_t h)) (seq 0 total) /\
      (* ... listing block by block the nodes of a_0, b_0, a_1, b_1, ... *)
      table (o_t h)
      = concat (zip_app (segs (table (ic_sources a)) (seq 0 (length (ic_values a))))
                        (segs (table (ic_sources b)) (seq (length (ic_values a)) (length (ic_values b))))) /\
      (* typing *)
      src_type (abs h) = map Some (ic_values a ++ ic_values b) /\
      tgt_type (abs h) = map Some (concat (zip_app (decode_s a) (decode_s b))).
  Proof.
    intros Wa Wb E total.
    pose proof (interleave_table_perm a b E) as HP.
    destruct Wa as [A1' A2']. destruct Wb as [B1' B2'].
    assert (Hsum : list_sum (table (ic_sources a) ++ table (ic_sources b)) = total).
    { rewrite list_sum_app. unfold total. lia. }
    rewrite Hsum in HP.
    exists (interleave_spider a b).
    split; [apply interleave_blocks_ok; [split; assumption|split; assumption|exact E]|].
    assert (Wt : wf_ff (o_t (interleave_spider a b))).
    { unfold wf_ff. cbn [interleave_spider o_t target]. rewrite Hsum.
      apply Forall_forall. intros x Hx. apply (Permutation_in _ HP) in Hx.
      apply in_seq in Hx. lia. }
    split.
    { (* wf_ohg *)
      split; [|split; [|split; [|split]]].
      - cbn [interleave_spider o_h]. unfold wf_hg, hg_discrete. cbn [h_s h_t h_w h_x].
        pose proof (C08_initial (length (ic_values a ++ ic_values b))) as [W0 _].
        repeat split; try exact W0; try apply W0; reflexivity.
      - apply wf_idf.
      - exact Wt.
      - cbn [interleave_spider o_s o_h idf target hg_discrete h_w]. rewrite app_length. reflexivity.
      - cbn [interleave_spider o_t o_h target hg_discrete h_w]. rewrite Hsum, app_length. reflexivity. }
    split; [reflexivity|]. split; [reflexivity|]. split; [reflexivity|]. split; [reflexivity|].
    split; [reflexivity|].
    split; [cbn [interleave_spider o_t target]; exact Hsum|].
    split; [rewrite (Permutation_length HP), seq_length; reflexivity|].
    split; [apply (Permutation_NoDup (Permutation_sym HP)), seq_NoDup|].
    split; [exact HP|].
    assert (Hda : length (segs (table (ic_sources a)) (seq 0 (length (ic_values a)))) = ic_len a)
      by apply segs_length.
    split; [|split].
    - cbn [interleave_spider o_t table]. rewrite inj_table_segs, Hsum. unfold total.
      rewrite seq_app, segs_app by (rewrite seq_length; exact A2'). cbn [Nat.add].
      rewrite flat_map_concat_map.
      rewrite pick_transpose by (rewrite segs_length; unfold ic_len, ff_source in *; lia).
      apply concat_interleave2.
    - unfold src_type, type_of. cbn [abs p_ins p_nodes interleave_spider o_s o_h hg_discrete h_w idf table].
      fold total. replace total with (length (ic_values a ++ ic_values b))
        by (rewrite app_length; reflexivity).
      apply map_some_nth_error.
    - unfold tgt_type, type_of. cbn [abs p_outs p_nodes interleave_spider o_t o_h hg_discrete h_w table].
      rewrite map_inj_table, Hsum.
      replace total with (length (ic_values a ++ ic_values b)) by (rewrite app_length; reflexivity).
      rewrite map_some_nth_error, segs_map, segs_app by exact A2'.
      rewrite map_app, flat_map_concat_map.
      rewrite pick_transpose
        by (rewrite map_length, segs_length; unfold ic_len, ff_source in *; lia).
      rewrite concat_interleave2. unfold decode_s, zip_app.
      rewrite concat_map, map_map.
      f_equal. generalize (segs (table (ic_sources a)) (ic_values a)).
      generalize (segs (table (ic_sources b)) (ic_values b)). intros lb la.
      revert lb. induction la as [|x la IH]; intros [|y lb]; try reflexivity.
      cbn [map combine fst snd]. rewrite map_app, IH. reflexivity.
  Qed.

  (* assert_eq!(a.len(), b.len()) *)
  Theorem C14_interleave_panic (a b : ic (list O2)) :
    ic_len a <> ic_len b -> interleave_blocks A2 a b = Panic.
  Proof.
    intros H. unfold interleave_blocks. apply Nat.eqb_neq in H. rewrite H. reflexivity.
  Qed.

  Corollary C14_interleave_panic_iff (a b : ic (list O2)) : wf_ics a -> wf_ics b ->
    (interleave_blocks A2 a b = Panic <-> ic_len a <> ic_len b).
  Proof.
    intros Wa Wb. split.
    - intros HP E. rewrite interleave_blocks_ok in HP by assumption. discriminate.
    - apply C14_interleave_panic.
  Qed.
End Interleave.

(* ================= C14_partial_dagger_type ================= *)
Section PartialDagger.
  Variables O2 A2 : Type.

  (* precomposing with an injection selects a range of the table *)
  Lemma compose_range (a k tg : nat) (g : ff) : tg = ff_source g -> a + k <= ff_source g ->
    ff_compose (mkFF (seq a k) tg) g = Ok (Some (mkFF (firstn k (skipn a (table g))) (target g))).
  Proof.
    intros Ht Hk. unfold ff_compose. cbn [target table]. rewrite Ht, Nat.eqb_refl.
    rewrite get_range_full. cbn [bind]. rewrite gather_seq by exact Hk. reflexivity.
  Qed.

  Definition partial_dagger_value (c : ohg O2 A2) (nfa nfb : nat) : ohg O2 A2 :=
    mkOHG (mkFF (firstn nfa (table (o_s c)) ++ skipn nfb (table (o_t c))) (target (o_s c)))
          (mkFF (firstn nfb (table (o_t c)) ++ skipn nfa (table (o_s c))) (target (o_t c)))
          (o_h c).

  Lemma hg_validate_wf (h : hg O2 A2) : wf_hg h -> hg_validate h = inl h.
  Proof.
    intros (_ & _ & H1 & H2 & H3 & H4). unfold hg_validate.
    apply Nat.eqb_eq in H1, H2, H3, H4. rewrite H1, H2, H3, H4. reflexivity.
  Qed.

  Lemma Forall_firstn {X} (Q : X -> Prop) k : forall l, Forall Q l -> Forall Q (firstn k l).
  Proof.
    induction k as [|k IH]; intros [|x l] H; cbn [firstn]; try constructor.
    - inversion H; assumption.
    - apply IH. inversion H; assumption.
  Qed.

  Lemma Forall_skipn {X} (Q : X -> Prop) k : forall l, Forall Q l -> Forall Q (skipn k l).
  Proof.
    induction k as [|k IH]; intros [|x l] H; cbn [skipn]; try assumption.
    apply IH. inversion H; assumption.
  Qed.

  Theorem C14_partial_dagger_type (c : ohg O2 A2) (fa fb ra rb : ic (list O2)) :
    wf_ohg c ->
    ff_source (o_s c) = length (ic_values fa) + length (ic_values rb) ->
    ff_source (o_t c) = length (ic_values fb) + length (ic_values ra) ->
    let nfa := length (ic_values fa) in
    let nfb := length (ic_values fb) in
    exists d, partial_dagger c fa fb ra rb = Ok d /\
      d = partial_dagger_value c nfa nfb /\ wf_ohg d /\
      (* hypergraph unchanged *)
      o_h d = o_h c /\
      (* the interfaces, exactly as the code computes them *)
      table (o_s d) = firstn nfa (table (o_s c)) ++ skipn nfb (table (o_t c)) /\
      table (o_t d) = firstn nfb (table (o_t c)) ++ skipn nfa (table (o_s c)) /\
      ff_source (o_s d) = nfa + length (ic_values ra) /\
      ff_source (o_t d) = nfb + length (ic_values rb) /\
      (* typing: source = first |fa| of c's source ++ last |ra| of c's target,
                 target = first |fb| of c's target ++ last |rb| of c's source *)
      src_type (abs d) = firstn nfa (src_type (abs c)) ++ skipn nfb (tgt_type (abs c)) /\
      tgt_type (abs d) = firstn nfb (tgt_type (abs c)) ++ skipn nfa (src_type (abs c)).
  Proof.
    intros W Hs Ht nfa nfb.
    destruct W as (Wh & Ws & Wt & Ts & Tt).
    exists (partial_dagger_value c nfa nfb).
    split.
    { unfold partial_dagger. rewrite !ff_inj0_ok, !ff_inj1_ok. cbn [bind].
      rewrite (compose_range 0) by (rewrite Hs; lia). cbn [unwrap bind skipn].
      rewrite (compose_range (length (ic_values fb))) by (rewrite Ht; lia). cbn [unwrap bind].
      unfold ff_coproduct at 1. cbn [target]. rewrite Ts, Tt, Nat.eqb_refl. cbn [unwrap bind table].
      rewrite (compose_range 0) by (rewrite Ht; lia). cbn [unwrap bind skipn].
      rewrite (compose_range (length (ic_values fa))) by (rewrite Hs; lia). cbn [unwrap bind].
      unfold ff_coproduct. cbn [target]. rewrite Ts, Tt, Nat.eqb_refl. cbn [unwrap bind table].
      unfold ohg_new, ohg_validate. cbn [o_h o_s o_t target].
      rewrite hg_validate_wf by exact Wh. rewrite !Nat.eqb_refl. cbn [negb].
      unfold partial_dagger_value. fold nfa nfb. rewrite Ts, Tt.
      unfold ff_source in Hs, Ht.
      rewrite (firstn_all2 (n := length (ic_values ra)))
        by (rewrite skipn_length; fold nfb; lia).
      rewrite (firstn_all2 (n := length (ic_values rb)))
        by (rewrite skipn_length; fold nfa; lia).
      reflexivity. }
    split; [reflexivity|].
    unfold ff_source in Hs, Ht.
    split.
    { split; [exact Wh|]. unfold wf_ff in *. cbn [partial_dagger_value o_s o_t o_h target table].
      split; [|split; [|split; [exact Ts|exact Tt]]].
      - apply Forall_app. split; [apply Forall_firstn; exact Ws|].
        apply Forall_skipn. rewrite Ts, <- Tt. exact Wt.
      - apply Forall_app. split; [apply Forall_firstn; exact Wt|].
        apply Forall_skipn. rewrite Tt, <- Ts. exact Ws. }
    split; [reflexivity|]. split; [reflexivity|]. split; [reflexivity|].
    split.
    { unfold ff_source. cbn [partial_dagger_value o_s table].
      rewrite app_length, firstn_length, skipn_length. fold nfa nfb in Hs, Ht. lia. }
    split.
    { unfold ff_source. cbn [partial_dagger_value o_t table].
      rewrite app_length, firstn_length, skipn_length. fold nfa nfb in Hs, Ht. lia. }
    unfold src_type, tgt_type, type_of.
    cbn [abs p_ins p_outs p_nodes partial_dagger_value o_s o_t o_h table].
    rewrite !map_app, !firstn_map, !skipn_map. split; reflexivity.
  Qed.

  (* in the intended situation: c : FA ● RB -> FB ● RA gives d : FA ● RA -> FB ● RB *)
  Corollary C14_partial_dagger_typed (c : ohg O2 A2) (fa fb ra rb : ic (list O2))
      (FA RB FB RA : list O2) :
    wf_ohg c ->
    length FA = length (ic_values fa) -> length RB = length (ic_values rb) ->
    length FB = length (ic_values fb) -> length RA = length (ic_values ra) ->
    src_type (abs c) = map Some (FA ++ RB) -> tgt_type (abs c) = map Some (FB ++ RA) ->
    exists d, partial_dagger c fa fb ra rb = Ok d /\ wf_ohg d /\ o_h d = o_h c /\
      src_type (abs d) = map Some (FA ++ RA) /\ tgt_type (abs d) = map Some (FB ++ RB).
  Proof.
    intros W LFA LRB LFB LRA HS HT.
    assert (Hs : ff_source (o_s c) = length (ic_values fa) + length (ic_values rb)).
    { unfold ff_source. apply (f_equal (@length _)) in HS.
      unfold src_type, type_of in HS. cbn [abs p_ins] in HS.
      rewrite !map_length, app_length in HS. lia. }
    assert (Ht : ff_source (o_t c) = length (ic_values fb) + length (ic_values ra)).
    { unfold ff_source. apply (f_equal (@length _)) in HT.
      unfold tgt_type, type_of in HT. cbn [abs p_outs] in HT.
      rewrite !map_length, app_length in HT. lia. }
    destruct (C14_partial_dagger_type fa fb ra rb W Hs Ht)
      as (d & Hd & _ & Wd & Hh & _ & _ & _ & _ & HSd & HTd).
    exists d. split; [exact Hd|]. split; [exact Wd|]. split; [exact Hh|].
    rewrite HSd, HTd, HS, HT, !map_app.
    rewrite <- LFA, <- LFB.
    rewrite <- (map_length Some FA), <- (map_length Some FB).
    rewrite !firstn_app, !skipn_app, !Nat.sub_diag, !firstn_all, !skipn_all.
    cbn [firstn skipn]. rewrite !app_nil_r. cbn [List.app]. split; reflexivity.
  Qed.

  (* the first `unwrap`: a source boundary of the wrong width *)
  Theorem C14_partial_dagger_panic (c : ohg O2 A2) (fa fb ra rb : ic (list O2)) :
    ff_source (o_s c) <> length (ic_values fa) + length (ic_values rb) ->
    partial_dagger c fa fb ra rb = Panic.
  Proof.
    intros H. unfold partial_dagger. rewrite ff_inj0_ok. cbn [bind].
    rewrite ff_compose_none by (cbn [target]; lia). reflexivity.
  Qed.
End PartialDagger.

(* ---- Part A examples: the hypotheses are satisfiable, the model computes what the theorems say ---- *)
Definition ex14_a : ic (list nat) := mkIC (mkFF [2; 0; 1] 4) [10; 11; 12].
Definition ex14_b : ic (list nat) := mkIC (mkFF [1; 2; 0] 4) [20; 21; 22].

Example C14_interleave_ex :
  wf_ics ex14_a /\ wf_ics ex14_b /\ ic_len ex14_a = ic_len ex14_b /\
  interleave_blocks nat ex14_a ex14_b
  = Ok (mkOHG (mkFF [0; 1; 2; 3; 4; 5] 6) (mkFF [0; 1; 3; 4; 5; 2] 6)
              (hg_discrete nat [10; 11; 12; 20; 21; 22])) /\
  concat (zip_app (decode_s ex14_a) (decode_s ex14_b)) = [10; 11; 20; 21; 22; 12] /\
  interleave_blocks nat ex14_a (mkIC (mkFF [3] 4) [20; 21; 22]) = Panic.
Proof. repeat split. Qed.

Definition ex14_optic : optic nat nat nat nat :=
  mkOptic (mkSF (fun _ => Ok ex14_a) (fun _ => Panic)) (mkSF (fun _ => Ok ex14_b) (fun _ => Panic))
          (fun _ => Panic).

Example C14_map_object_ex :
  optic_map_object ex14_optic [7; 8; 9] = Ok (mkIC (mkFF [3; 2; 1] 7) [10; 11; 20; 21; 22; 12]) /\
  decode_s (mkIC (mkFF [3; 2; 1] 7) [10; 11; 20; 21; 22; 12]) = [[10; 11; 20]; [21; 22]; [12]] /\
  decode_s ex14_a = [[10; 11]; []; [12]] /\ decode_s ex14_b = [[20]; [21; 22]; []].
Proof. repeat split. Qed.

(* c : (2 + 1) -> (1 + 1) on four nodes; fa has 2 values, rb 1, fb 1, ra 1 *)
Definition ex14_c : ohg nat nat := mkOHG (mkFF [0; 1; 2] 4) (mkFF [3; 1] 4) (hg_discrete nat [5; 6; 7; 8]).
Definition ex14_v (n : nat) : ic (list nat) := mkIC (mkFF [n] (n + 1)) (repeat 0 n).

Example C14_partial_dagger_ex :
  wf_ohg ex14_c /\
  partial_dagger ex14_c (ex14_v 2) (ex14_v 1) (ex14_v 1) (ex14_v 1)
  = Ok (mkOHG (mkFF [0; 1; 1] 4) (mkFF [3; 2] 4) (hg_discrete nat [5; 6; 7; 8])) /\
  partial_dagger ex14_c (ex14_v 2) (ex14_v 1) (ex14_v 1) (ex14_v 2) = Panic.
Proof.
  split; [|split; reflexivity].
  repeat split; try reflexivity; repeat constructor.
Qed.

From Coq Require Import ZArith Setoid Morphisms.

(* ======================= the lens chain rule (pure algebra over Z) ======================= *)
Section LinAlg.
  Open Scope Z_scope.

  Definition vzero (n : nat) : list Z := repeat 0 n.
  Definition vplus (u v : list Z) : list Z := map (fun p => fst p + snd p) (combine u v).
  Definition vscale (c : Z) (v : list Z) : list Z := map (Z.mul c) v.

  (* J^T dy = sum_i dy_i * row_i(J), a vector with n entries (n = number of columns of J) *)
  Fixpoint tmulv (n : nat) (J : list (list Z)) (dy : list Z) : list Z :=
    match J, dy with
    | row :: J', d :: dy' => vplus (vscale d row) (tmulv n J' dy')
    | _, _ => vzero n
    end.

  (* matrix product: row_i(A B) = B^T row_i(A) *)
  Definition mmul (n : nat) (A B : list (list Z)) : list (list Z) := map (tmulv n B) A.

  (* block-diagonal matrix of A1 (.. x n1) and A2 (.. x n2) *)
  Definition blockdiag (n1 n2 : nat) (A1 A2 : list (list Z)) : list (list Z) :=
    map (fun r => r ++ vzero n2) A1 ++ map (fun r => vzero n1 ++ r) A2.

  Definition rows_len (n : nat) (J : list (list Z)) : Prop := Forall (fun r => length r = n) J.

  Lemma vzero_length n : length (vzero n) = n.
  Proof. apply repeat_length. Qed.

  Lemma vplus_length u v : length u = length v -> length (vplus u v) = length u.
  Proof. intros H. unfold vplus. rewrite map_length, combine_length. lia. Qed.

  Lemma vscale_length c v : length (vscale c v) = length v.
  Proof. apply map_length. Qed.

  Lemma tmulv_length n J : rows_len n J -> forall dy, length (tmulv n J dy) = n.
  Proof.
    induction J as [|r J IH]; intros HJ dy; cbn [tmulv]; [apply vzero_length|].
    destruct dy as [|d dy]; [apply vzero_length|].
    apply Forall_cons_iff in HJ. destruct HJ as [Hr HJ'].
    rewrite vplus_length; rewrite vscale_length; [exact Hr|]. rewrite IH by exact HJ'. exact Hr.
  Qed.

  Lemma vplus_interchange a : forall b c d,
    vplus (vplus a b) (vplus c d) = vplus (vplus a c) (vplus b d).
  Proof.
    unfold vplus. induction a as [|x a IH]; intros [|y b] [|z c] [|w d]; cbn; try reflexivity.
    f_equal; [ring|apply IH].
  Qed.

  Lemma vplus_assoc a : forall b c, length a = length b -> length b = length c ->
    vplus (vplus a b) c = vplus a (vplus b c).
  Proof.
    unfold vplus. induction a as [|x a IH]; intros [|y b] [|z c] H1 H2; cbn in *; try discriminate;
      try reflexivity.
    f_equal; [ring|apply IH; lia].
  Qed.

  Lemma vscale_add_l a b r : vscale (a + b) r = vplus (vscale a r) (vscale b r).
  Proof. unfold vscale, vplus. induction r as [|x r IH]; cbn; [reflexivity|]. f_equal; [ring|exact IH]. Qed.

  Lemma vscale_vplus c u : forall v, vscale c (vplus u v) = vplus (vscale c u) (vscale c v).
  Proof.
    unfold vscale, vplus. induction u as [|x u IH]; intros [|y v]; cbn; try reflexivity.
    f_equal; [ring|apply IH].
  Qed.

  Lemma vscale_vscale c d r : vscale c (vscale d r) = vscale (d * c) r.
  Proof. unfold vscale. rewrite map_map. apply map_ext. intros x. ring. Qed.

  Lemma vplus_zero_zero n : vplus (vzero n) (vzero n) = vzero n.
  Proof. unfold vplus, vzero. induction n as [|n IH]; cbn; [reflexivity|]. f_equal. exact IH. Qed.

  Lemma vscale_zero c n : vscale c (vzero n) = vzero n.
  Proof. unfold vscale, vzero. induction n as [|n IH]; cbn; [reflexivity|]. rewrite IH. f_equal. ring. Qed.

  Lemma vplus_zero_r v : vplus v (vzero (length v)) = v.
  Proof. unfold vplus, vzero. induction v as [|x v IH]; cbn; [reflexivity|]. rewrite IH. f_equal. ring. Qed.

  Lemma vplus_zero_l v : vplus (vzero (length v)) v = v.
  Proof. unfold vplus, vzero. induction v as [|x v IH]; cbn; [reflexivity|]. rewrite IH. f_equal. Qed.

  Lemma vscale_0 r : vscale 0 r = vzero (length r).
  Proof. unfold vscale, vzero. induction r as [|x r IH]; cbn; [reflexivity|]. rewrite IH. reflexivity. Qed.

  (* J^T is linear *)
  Lemma tmulv_vplus n J : rows_len n J -> forall u v, length u = length J -> length v = length J ->
    tmulv n J (vplus u v) = vplus (tmulv n J u) (tmulv n J v).
  Proof.
    induction J as [|r J IH]; intros HJ u v Hu Hv.
    - cbn [tmulv]. symmetry. apply vplus_zero_zero.
    - destruct u as [|a u]; [discriminate|]. destruct v as [|b v]; [discriminate|].
      apply Forall_cons_iff in HJ. destruct HJ as [Hr HJ'].
      cbn [vplus combine map fst snd tmulv]. fold (vplus u v).
      rewrite IH by (cbn [length] in *; auto; lia).
      rewrite vscale_add_l. apply vplus_interchange.
  Qed.

  Lemma tmulv_vscale n c J : forall u,
    tmulv n J (vscale c u) = vscale c (tmulv n J u).
  Proof.
    induction J as [|r J IH]; intros u.
    - cbn [tmulv]. symmetry. apply vscale_zero.
    - destruct u as [|a u]; [cbn [tmulv]; symmetry; apply vscale_zero|].
      change (vscale c (a :: u)) with (c * a :: vscale c u). cbn [tmulv].
      rewrite IH, vscale_vplus, vscale_vscale. do 2 f_equal. ring.
  Qed.

  Lemma tmulv_zero n J : rows_len n J -> forall m, tmulv n J (vzero m) = vzero n.
  Proof.
    induction J as [|r J IH]; intros HJ m; [reflexivity|].
    destruct m as [|m]; [reflexivity|]. apply Forall_cons_iff in HJ. destruct HJ as [Hr HJ'].
    cbn [vzero repeat tmulv]. fold (vzero m). rewrite IH by exact HJ'.
    rewrite vscale_0, Hr. apply vplus_zero_zero.
  Qed.

  (* chain rule: (A B)^T dz = B^T (A^T dz) for A : p x m, B : m x n *)
  Theorem tmulv_mmul n (A B : list (list Z)) :
    rows_len n B -> rows_len (length B) A ->
    forall dz, tmulv n (mmul n A B) dz = tmulv n B (tmulv (length B) A dz).
  Proof.
    intros HB. induction A as [|r A IH]; intros HA dz.
    - cbn [mmul map tmulv]. symmetry. apply tmulv_zero. exact HB.
    - apply Forall_cons_iff in HA. destruct HA as [Hr HA'].
      destruct dz as [|d dz]; cbn [mmul map tmulv].
      + symmetry. apply tmulv_zero. exact HB.
      + fold (mmul n A B). rewrite IH by exact HA'.
        rewrite tmulv_vplus; [|exact HB|rewrite vscale_length; exact Hr|apply tmulv_length; exact HA'].
        rewrite tmulv_vscale. reflexivity.
  Qed.

  (* block-diagonal Jacobian: (A1 (+) A2)^T (dy1 ++ dy2) = A1^T dy1 ++ A2^T dy2 *)
  Lemma vplus_app u1 v1 u2 v2 : length u1 = length v1 ->
    vplus (u1 ++ u2) (v1 ++ v2) = vplus u1 v1 ++ vplus u2 v2.
  Proof.
    intros H. unfold vplus. revert v1 H. induction u1 as [|x u1 IH]; intros [|y v1] H; try discriminate.
    - reflexivity.
    - cbn. f_equal. apply IH. cbn in H. lia.
  Qed.

  Lemma vscale_app c u v : vscale c (u ++ v) = vscale c u ++ vscale c v.
  Proof. apply map_app. Qed.

  Lemma vzero_app n m : vzero (n + m) = vzero n ++ vzero m.
  Proof. apply repeat_app. Qed.

  Lemma tmulv_left n1 n2 A1 : rows_len n1 A1 -> forall dy,
    tmulv (n1 + n2) (map (fun r => r ++ vzero n2) A1) dy = tmulv n1 A1 dy ++ vzero n2.
  Proof.
    induction A1 as [|r A IH]; intros HA dy; cbn [map tmulv]; [apply vzero_app|].
    destruct dy as [|d dy]; [apply vzero_app|]. apply Forall_cons_iff in HA. destruct HA as [Hr HA'].
    rewrite IH by exact HA'. rewrite vscale_app, vplus_app.
    2:{ rewrite vscale_length, tmulv_length by exact HA'. exact Hr. }
    rewrite vscale_zero, vplus_zero_zero. reflexivity.
  Qed.

  Lemma tmulv_right n1 n2 A2 : rows_len n2 A2 -> forall dy,
    tmulv (n1 + n2) (map (fun r => vzero n1 ++ r) A2) dy = vzero n1 ++ tmulv n2 A2 dy.
  Proof.
    induction A2 as [|r A IH]; intros HA dy; cbn [map tmulv]; [apply vzero_app|].
    destruct dy as [|d dy]; [apply vzero_app|]. apply Forall_cons_iff in HA. destruct HA as [Hr HA'].
    rewrite IH by exact HA'. rewrite vscale_app, vplus_app.
    2:{ rewrite vscale_length, !vzero_length. reflexivity. }
    rewrite vscale_zero, vplus_zero_zero. reflexivity.
  Qed.

  Lemma tmulv_app n A1 : rows_len n A1 -> forall A2 dy1 dy2, rows_len n A2 -> length dy1 = length A1 ->
    tmulv n (A1 ++ A2) (dy1 ++ dy2) = vplus (tmulv n A1 dy1) (tmulv n A2 dy2).
  Proof.
    induction A1 as [|r A IH]; intros HA A2 dy1 dy2 HA2 Hl.
    - destruct dy1; [|discriminate]. cbn [List.app tmulv].
      rewrite <- (tmulv_length HA2 dy2) at 2. symmetry. apply vplus_zero_l.
    - destruct dy1 as [|d dy1]; [discriminate|]. apply Forall_cons_iff in HA. destruct HA as [Hr HA'].
      cbn [List.app tmulv]. rewrite IH by (auto; cbn in Hl; lia).
      symmetry. apply vplus_assoc.
      + rewrite vscale_length, tmulv_length by exact HA'. exact Hr.
      + rewrite !tmulv_length by assumption. reflexivity.
  Qed.

  Lemma rows_len_blockdiag n1 n2 A1 A2 : rows_len n1 A1 -> rows_len n2 A2 ->
    rows_len (n1 + n2) (blockdiag n1 n2 A1 A2).
  Proof.
    intros H1 H2. unfold rows_len, blockdiag. apply Forall_app. split; apply Forall_map.
    - eapply Forall_impl; [|exact H1]. cbn. intros r Hr. rewrite app_length, vzero_length. lia.
    - eapply Forall_impl; [|exact H2]. cbn. intros r Hr. rewrite app_length, vzero_length. lia.
  Qed.

  Theorem tmulv_blockdiag n1 n2 A1 A2 dy1 dy2 :
    rows_len n1 A1 -> rows_len n2 A2 -> length dy1 = length A1 ->
    tmulv (n1 + n2) (blockdiag n1 n2 A1 A2) (dy1 ++ dy2) = tmulv n1 A1 dy1 ++ tmulv n2 A2 dy2.
  Proof.
    intros H1 H2 Hl. unfold blockdiag.
    pose proof (rows_len_blockdiag H1 H2) as HB. unfold blockdiag, rows_len in HB.
    apply Forall_app in HB. destruct HB as [HB1 HB2].
    rewrite tmulv_app; [|exact HB1|exact HB2|rewrite map_length; exact Hl].
    rewrite tmulv_left by exact H1. rewrite tmulv_right by exact H2.
    rewrite vplus_app by (rewrite tmulv_length, vzero_length by exact H1; reflexivity).
    rewrite <- (tmulv_length H1 dy1) at 2. rewrite vplus_zero_r.
    rewrite <- (tmulv_length H2 dy2) at 1. rewrite vplus_zero_l. reflexivity.
  Qed.

  Lemma rows_len_mmul n A B : rows_len n B -> rows_len n (mmul n A B).
  Proof.
    intros HB. unfold rows_len, mmul. apply Forall_map. apply Forall_forall. intros r _.
    apply tmulv_length. exact HB.
  Qed.

  (* ---- lenses ---- *)
  Record lens (M : Type) := mkLens { l_fwd : list Z -> list Z * M; l_rev : M * list Z -> list Z }.

  (* L is a reverse-derivative lens of f : Z^n -> Z^m with Jacobian J (m rows, n columns): the forward
     pass computes f and a residual, the reverse pass maps the residual of x and dy to J(x)^T dy *)
  Definition rd_lens {M} (n m : nat) (L : lens M) (f : list Z -> list Z) (J : list Z -> list (list Z))
    : Prop :=
    forall x, length x = n ->
      fst (l_fwd L x) = f x /\ length (f x) = m /\ length (J x) = m /\ rows_len n (J x) /\
      forall dy, length dy = m -> l_rev L (snd (l_fwd L x), dy) = tmulv n (J x) dy.

  Definition lens_seq {M N} (L1 : lens M) (L2 : lens N) : lens (M * N) :=
    mkLens (fun x => (fst (l_fwd L2 (fst (l_fwd L1 x))),
                      (snd (l_fwd L1 x), snd (l_fwd L2 (fst (l_fwd L1 x))))))
           (fun p => l_rev L1 (fst (fst p), l_rev L2 (snd (fst p), snd p))).

  Definition lens_par {M N} (n1 m1 : nat) (L1 : lens M) (L2 : lens N) : lens (M * N) :=
    mkLens (fun x => (fst (l_fwd L1 (firstn n1 x)) ++ fst (l_fwd L2 (skipn n1 x)),
                      (snd (l_fwd L1 (firstn n1 x)), snd (l_fwd L2 (skipn n1 x)))))
           (fun p => l_rev L1 (fst (fst p), firstn m1 (snd p))
                     ++ l_rev L2 (snd (fst p), skipn m1 (snd p))).

  (* chain rule: the Jacobian of the composite is the matrix product *)
  Theorem C14_lens_chain_rule_seq {M N} n m p (L1 : lens M) (L2 : lens N) f g J1 J2 :
    rd_lens n m L1 f J1 -> rd_lens m p L2 g J2 ->
    rd_lens n p (lens_seq L1 L2) (fun x => g (f x)) (fun x => mmul n (J2 (f x)) (J1 x)).
  Proof.
    intros H1 H2 x Hx.
    destruct (H1 x Hx) as (F1 & Lf & LJ1 & RJ1 & R1).
    destruct (H2 (f x) Lf) as (F2 & Lg & LJ2 & RJ2 & R2).
    cbn [lens_seq l_fwd l_rev fst snd]. rewrite F1.
    split; [exact F2|]. split; [exact Lg|].
    split; [unfold mmul; rewrite map_length; exact LJ2|].
    split; [apply rows_len_mmul; exact RJ1|].
    intros dz Hdz. rewrite R2 by exact Hdz.
    rewrite R1 by (apply tmulv_length; exact RJ2).
    rewrite tmulv_mmul; [rewrite LJ1; reflexivity|exact RJ1|rewrite LJ1; exact RJ2].
  Qed.

  (* parallel composition: the Jacobian is block-diagonal *)
  Theorem C14_lens_chain_rule_par {M N} n1 m1 n2 m2 (L1 : lens M) (L2 : lens N) f1 f2 J1 J2 :
    rd_lens n1 m1 L1 f1 J1 -> rd_lens n2 m2 L2 f2 J2 ->
    rd_lens (n1 + n2) (m1 + m2) (lens_par n1 m1 L1 L2)
            (fun x => f1 (firstn n1 x) ++ f2 (skipn n1 x))
            (fun x => blockdiag n1 n2 (J1 (firstn n1 x)) (J2 (skipn n1 x))).
  Proof.
    intros H1 H2 x Hx.
    assert (Hx1 : length (firstn n1 x) = n1) by (rewrite firstn_length; lia).
    assert (Hx2 : length (skipn n1 x) = n2) by (rewrite skipn_length; lia).
    destruct (H1 _ Hx1) as (F1 & Lf1 & LJ1 & RJ1 & R1).
    destruct (H2 _ Hx2) as (F2 & Lf2 & LJ2 & RJ2 & R2).
    cbn [lens_par l_fwd l_rev fst snd]. rewrite F1, F2.
    split; [reflexivity|]. split; [rewrite app_length; lia|].
    split; [unfold blockdiag; rewrite app_length, !map_length; lia|].
    split; [apply rows_len_blockdiag; assumption|].
    intros dy Hdy.
    rewrite R1 by (rewrite firstn_length; lia). rewrite R2 by (rewrite skipn_length; lia).
    rewrite <- (firstn_skipn m1 dy) at 3.
    rewrite tmulv_blockdiag; [reflexivity|exact RJ1|exact RJ2|rewrite firstn_length; lia].
  Qed.
End LinAlg.

(* ---- example: the hypotheses of the chain rule are satisfiable (mul, neg, and their composites) ---- *)
Definition lens_mul : lens (Z * Z) :=
  mkLens (fun v => match v with [x; y] => ([x * y], (x, y)) | _ => ([], (0, 0)) end)%Z
         (fun p => match p with ((x, y), [dz]) => [y * dz; x * dz] | _ => [] end)%Z.
Definition lens_neg : lens unit :=
  mkLens (fun v => match v with [x] => ([- x], tt) | _ => ([], tt) end)%Z
         (fun p => match snd p with [dz] => [- dz] | _ => [] end)%Z.
Definition f_mul (v : list Z) : list Z := match v with [x; y] => [x * y] | _ => [] end%Z.
Definition J_mul (v : list Z) : list (list Z) := match v with [x; y] => [[y; x]] | _ => [] end.
Definition f_neg (v : list Z) : list Z := match v with [x] => [- x] | _ => [] end%Z.
Definition J_neg (v : list Z) : list (list Z) := [[(-1)%Z]].

Example rd_lens_mul : rd_lens 2 1 lens_mul f_mul J_mul.
Proof.
  intros v Hv. destruct v as [|x [|y [|z v]]]; try discriminate.
  split; [reflexivity|]. split; [reflexivity|]. split; [reflexivity|].
  split; [repeat constructor|].
  intros dy Hdy. destruct dy as [|dz [|e dy]]; try discriminate.
  cbn. f_equal; [ring|]. f_equal. ring.
Qed.

Example rd_lens_neg : rd_lens 1 1 lens_neg f_neg J_neg.
Proof.
  intros v Hv. destruct v as [|x [|y v]]; try discriminate.
  split; [reflexivity|]. split; [reflexivity|]. split; [reflexivity|].
  split; [repeat constructor|].
  intros dy Hdy. destruct dy as [|dz [|e dy]]; try discriminate.
  cbn. f_equal. ring.
Qed.

(* -(x*y) and (x*y, -z): reverse-derivative lenses by the chain rule; on numbers *)
Example C14_lens_chain_rule_ex :
  rd_lens 2 1 (lens_seq lens_mul lens_neg) (fun v => f_neg (f_mul v))
          (fun v => mmul 2 (J_neg (f_mul v)) (J_mul v)) /\
  rd_lens (2 + 1) (1 + 1) (lens_par 2 1 lens_mul lens_neg)
          (fun v => f_mul (firstn 2 v) ++ f_neg (skipn 2 v))
          (fun v => blockdiag 2 1 (J_mul (firstn 2 v)) (J_neg (skipn 2 v))) /\
  (mmul 2 (J_neg [15]) (J_mul [3; 5]) = [[-5; -3]])%Z /\
  (l_rev (lens_seq lens_mul lens_neg) (snd (l_fwd (lens_seq lens_mul lens_neg) [3; 5]), [7])
   = [-35; -21])%Z /\
  (blockdiag 2 1 (J_mul [3; 5]) (J_neg [4]) = [[5; 3; 0]; [0; 0; -1]])%Z.
Proof.
  split; [apply (C14_lens_chain_rule_seq rd_lens_mul rd_lens_neg)|].
  split; [apply (C14_lens_chain_rule_par rd_lens_mul rd_lens_neg)|].
  repeat split.
Qed.

(* ======================= Part B: the polynomial theory, generator by generator ======================= *)
From OHG Require Import Run.Dispatch.
(* Run.Dispatch opens string_scope: put the list and nat notations back on top *)
Open Scope list_scope. Open Scope nat_scope.

(* the adapted optic of a term of the polynomial theory, and evaluation of a lax diagram on the test
   signature (strictify, then strict::eval::eval) *)
Definition poly_adapted (T : lohg nat nat) : res (lohg nat nat) :=
  loptic_map_adapted VecBackend Nat.eqb Nat.eqb poly_optic T.

Definition poly_run (D : lohg nat nat) (inp : list Z) : res (option (list Z)) :=
  s <- lohg_to_strict VecBackend Nat.eqb D ;; eval VecBackend 0%Z apply_sig s inp.

(* strictifiable to a well-formed, monogamous, acyclic open hypergraph *)
Definition good_circuit (D : lohg nat nat) : Prop :=
  exists s, lohg_to_strict VecBackend Nat.eqb D = Ok s /\ wf_ohg s /\
            ohg_is_monogamous s = Ok true /\ ohg_is_acyclic VecBackend s = Ok true.

(* the generators as one-operation terms *)
Definition T_add : lohg nat nat := lohg_singleton 0 [0; 0] [0].
Definition T_mul : lohg nat nat := lohg_singleton 1 [0; 0] [0].
Definition T_neg : lohg nat nat := lohg_singleton 2 [0] [0].
Definition T_copy : lohg nat nat := lohg_singleton 3 [0] [0; 0].
Definition T_discard : lohg nat nat := lohg_singleton 4 [0] [].
Definition T_const (c : nat) : lohg nat nat := lohg_singleton (10 + c) [] [0].

(* their adapted optics, as computed by the model: inputs F A ● R B, outputs F B ● R A *)
Definition D_add : lohg nat nat :=
  mkLOHG [0; 1; 5] [4; 2; 3]
    (mkLHG [0; 0; 0; 0; 0; 0] [0; 3] [([0; 1], [4]); ([5], [2; 3])] ([], [])).
Definition D_mul : lohg nat nat :=
  mkLOHG [0; 1; 5] [4; 2; 3]
    (mkLHG [0; 0; 0; 0; 0; 0; 0; 0; 0; 0; 0; 0] [3; 3; 1; 3; 1; 1]
       [([0], [6; 7]); ([1], [8; 9]); ([6; 8], [4]); ([5], [10; 11]); ([9; 10], [2]); ([7; 11], [3])]
       ([], [])).
Definition D_neg : lohg nat nat :=
  mkLOHG [0; 3] [2; 1] (mkLHG [0; 0; 0; 0] [2; 2] [([0], [2]); ([3], [1])] ([], [])).
Definition D_copy : lohg nat nat :=
  mkLOHG [0; 3; 5] [2; 4; 1]
    (mkLHG [0; 0; 0; 0; 0; 0] [3; 0] [([0], [2; 4]); ([3; 5], [1])] ([], [])).
Definition D_discard : lohg nat nat :=
  mkLOHG [0] [1] (mkLHG [0; 0] [4; 10] [([0], []); ([], [1])] ([], [])).
Definition D_const (c : nat) : lohg nat nat :=
  mkLOHG [1] [0] (mkLHG [0; 0] [10 + c; 4] [([], [0]); ([1], [])] ([], [])).

Ltac good_circuit_tac :=
  eexists; split; [vm_compute; reflexivity|];
  split; [repeat split; try reflexivity; repeat constructor|];
  split; vm_compute; reflexivity.

Theorem C14_generator_adapted_value_add : poly_adapted T_add = Ok D_add /\ good_circuit D_add.
Proof. split; [vm_compute; reflexivity|good_circuit_tac]. Qed.
Theorem C14_generator_adapted_value_mul : poly_adapted T_mul = Ok D_mul /\ good_circuit D_mul.
Proof. split; [vm_compute; reflexivity|good_circuit_tac]. Qed.
Theorem C14_generator_adapted_value_neg : poly_adapted T_neg = Ok D_neg /\ good_circuit D_neg.
Proof. split; [vm_compute; reflexivity|good_circuit_tac]. Qed.
Theorem C14_generator_adapted_value_copy : poly_adapted T_copy = Ok D_copy /\ good_circuit D_copy.
Proof. split; [vm_compute; reflexivity|good_circuit_tac]. Qed.
Theorem C14_generator_adapted_value_discard :
  poly_adapted T_discard = Ok D_discard /\ good_circuit D_discard.
Proof. split; [vm_compute; reflexivity|good_circuit_tac]. Qed.
Theorem C14_generator_adapted_value_const c :
  poly_adapted (T_const c) = Ok (D_const c) /\ good_circuit (D_const c).
Proof. split; [vm_compute; reflexivity|good_circuit_tac]. Qed.

Theorem C14_generator_adapted_value :
  (poly_adapted T_add = Ok D_add /\ good_circuit D_add) /\
  (poly_adapted T_mul = Ok D_mul /\ good_circuit D_mul) /\
  (poly_adapted T_neg = Ok D_neg /\ good_circuit D_neg) /\
  (poly_adapted T_copy = Ok D_copy /\ good_circuit D_copy) /\
  (poly_adapted T_discard = Ok D_discard /\ good_circuit D_discard) /\
  (forall c, poly_adapted (T_const c) = Ok (D_const c) /\ good_circuit (D_const c)).
Proof.
  repeat split; try apply C14_generator_adapted_value_add; try apply C14_generator_adapted_value_mul;
    try apply C14_generator_adapted_value_neg; try apply C14_generator_adapted_value_copy;
    try apply C14_generator_adapted_value_discard; try apply C14_generator_adapted_value_const.
Qed.

(* the types: the optic image of g : A -> B goes interleave(F A, R A) -> interleave(F B, R B), its
   adapted form F A ● R B -> F B ● R A (one object, F 0 = R 0 = [0]: the types are the arities) *)
Definition poly_image (T : lohg nat nat) : res (lohg nat nat) :=
  loptic_map_arrow VecBackend Nat.eqb Nat.eqb poly_optic T.
Definition has_type (r : res (lohg nat nat)) (n m : nat) : Prop :=
  exists D, r = Ok D /\ lohg_source D = Ok (repeat 0 n) /\ lohg_target D = Ok (repeat 0 m).

Theorem C14_generator_types :
  (has_type (poly_image T_add) (2 + 2) (1 + 1) /\ has_type (poly_adapted T_add) (2 + 1) (1 + 2)) /\
  (has_type (poly_image T_mul) (2 + 2) (1 + 1) /\ has_type (poly_adapted T_mul) (2 + 1) (1 + 2)) /\
  (has_type (poly_image T_neg) (1 + 1) (1 + 1) /\ has_type (poly_adapted T_neg) (1 + 1) (1 + 1)) /\
  (has_type (poly_image T_copy) (1 + 1) (2 + 2) /\ has_type (poly_adapted T_copy) (1 + 2) (2 + 1)) /\
  (has_type (poly_image T_discard) (1 + 1) (0 + 0) /\ has_type (poly_adapted T_discard) (1 + 0) (0 + 1)) /\
  (forall c, has_type (poly_image (T_const c)) (0 + 0) (1 + 1) /\
             has_type (poly_adapted (T_const c)) (0 + 1) (1 + 0)).
Proof.
  repeat split; try (eexists; split; [vm_compute; reflexivity|split; reflexivity]).
Qed.

(* ---- evaluation on symbolic inputs: ALL integers (the test signature wraps every operation) ---- *)
Lemma two64_pos : (0 < two64)%Z.
Proof. reflexivity. Qed.

Lemma two64_nz : two64 <> 0%Z.
Proof. discriminate. Qed.

Lemma wrap_wrap z : wrap (wrap z) = wrap z.
Proof. unfold wrap. apply Z.mod_mod. exact two64_nz. Qed.

Lemma wrap_small z : (0 <= z < two64)%Z -> wrap z = z.
Proof. intros H. unfold wrap. apply Z.mod_small. exact H. Qed.

Lemma wrap_add_l a b : wrap (wrap a + b) = wrap (a + b).
Proof. unfold wrap. apply Zplus_mod_idemp_l. Qed.

Lemma wrap_add_r a b : wrap (a + wrap b) = wrap (a + b).
Proof. unfold wrap. apply Zplus_mod_idemp_r. Qed.

Lemma wrap_mul_l a b : wrap (wrap a * b) = wrap (a * b).
Proof. unfold wrap. apply Zmult_mod_idemp_l. Qed.

Lemma wrap_mul_r a b : wrap (a * wrap b) = wrap (a * b).
Proof. unfold wrap. apply Zmult_mod_idemp_r. Qed.

Lemma wrap_opp z : wrap (- wrap z) = wrap (- z).
Proof.
  unfold wrap. rewrite <- (Z.sub_0_l (z mod two64)), <- (Z.sub_0_l z).
  apply Zminus_mod_idemp_r.
Qed.

(* structural computation of eval on a concrete diagram, the arithmetic kept symbolic *)
Ltac run_symbolic := unfold poly_run; cbv -[wrap Z.add Z.mul Z.opp Z.of_nat].
(* congruence modulo 2^64: the inner reductions can be dropped under +, *, - *)
Definition eq64 (a b : Z) : Prop := wrap a = wrap b.

#[local] Instance eq64_equiv : Equivalence eq64.
Proof.
  split.
  - intros a. reflexivity.
  - intros a b H. symmetry. exact H.
  - intros a b c H1 H2. unfold eq64 in *. congruence.
Qed.

#[local] Instance eq64_add : Proper (eq64 ==> eq64 ==> eq64) Z.add.
Proof.
  intros a a' Ha b b' Hb. unfold eq64 in *.
  rewrite <- (wrap_add_l a b), <- (wrap_add_r (wrap a) b), Ha, Hb, wrap_add_l, wrap_add_r. reflexivity.
Qed.

#[local] Instance eq64_mul : Proper (eq64 ==> eq64 ==> eq64) Z.mul.
Proof.
  intros a a' Ha b b' Hb. unfold eq64 in *.
  rewrite <- (wrap_mul_l a b), <- (wrap_mul_r (wrap a) b), Ha, Hb, wrap_mul_l, wrap_mul_r. reflexivity.
Qed.

#[local] Instance eq64_opp : Proper (eq64 ==> eq64) Z.opp.
Proof.
  intros a a' Ha. unfold eq64 in *. rewrite <- (wrap_opp a), Ha, wrap_opp. reflexivity.
Qed.

Lemma wrap_eq64 a : eq64 (wrap a) a.
Proof. apply wrap_wrap. Qed.

#[local] Instance eq64_wrap : Proper (eq64 ==> eq64) wrap.
Proof. intros a a' Ha. rewrite !wrap_eq64. exact Ha. Qed.

(* lists of residues, entry by entry: drop the inner reductions, then ring *)
Ltac wrap_solve :=
  repeat match goal with
  | |- Ok _ = Ok _ => apply f_equal
  | |- Some _ = Some _ => apply f_equal
  | |- _ :: _ = _ :: _ => apply f_equal2
  | |- @nil _ = @nil _ => reflexivity
  | |- wrap ?a = wrap ?b => change (eq64 a b); rewrite ?wrap_eq64; unfold eq64; apply f_equal; ring
  end.

Lemma C14_generator_eval_add x y dz :
  poly_run D_add [x; y; dz] = Ok (Some [wrap (x + y); wrap dz; wrap dz]).
Proof. run_symbolic. wrap_solve. Qed.

Lemma C14_generator_eval_mul x y dz :
  poly_run D_mul [x; y; dz] = Ok (Some [wrap (x * y); wrap (y * dz); wrap (x * dz)]).
Proof. run_symbolic. wrap_solve. Qed.

Lemma C14_generator_eval_neg x dz :
  poly_run D_neg [x; dz] = Ok (Some [wrap (- x); wrap (- dz)]).
Proof. run_symbolic. wrap_solve. Qed.

Lemma C14_generator_eval_copy x da db :
  poly_run D_copy [x; da; db] = Ok (Some [wrap x; wrap x; wrap (da + db)]).
Proof. run_symbolic. wrap_solve. Qed.

Lemma C14_generator_eval_discard x :
  poly_run D_discard [x] = Ok (Some [0%Z]).
Proof. run_symbolic. reflexivity. Qed.

Lemma C14_generator_eval_const c dz :
  poly_run (D_const c) [dz] = Ok (Some [wrap (Z.of_nat c)]).
Proof. run_symbolic. destruct c; reflexivity. Qed.

(* ---- the reverse-derivative statement: on (x, dy) the adapted optic returns (g(x), J_g(x)^T dy),
   arithmetic modulo 2^64, for all in-range inputs.  Input order F A ● R B, output order F B ● R A. ---- *)
Definition in64 (z : Z) : Prop := (0 <= z < two64)%Z.

Theorem C14_generator_derivative_add x y dz : in64 x -> in64 y -> in64 dz ->
  poly_run D_add [x; y; dz] = Ok (Some [((x + y) mod two64)%Z; dz; dz]).
Proof.
  intros _ _ Hz. rewrite C14_generator_eval_add, (@wrap_small dz Hz). reflexivity.
Qed.

Theorem C14_generator_derivative_mul x y dz : in64 x -> in64 y -> in64 dz ->
  poly_run D_mul [x; y; dz]
  = Ok (Some [((x * y) mod two64)%Z; ((y * dz) mod two64)%Z; ((x * dz) mod two64)%Z]).
Proof. intros _ _ _. apply C14_generator_eval_mul. Qed.

Theorem C14_generator_derivative_neg x dz : in64 x -> in64 dz ->
  poly_run D_neg [x; dz] = Ok (Some [((- x) mod two64)%Z; ((- dz) mod two64)%Z]).
Proof. intros _ _. apply C14_generator_eval_neg. Qed.

Theorem C14_generator_derivative_copy x da db : in64 x -> in64 da -> in64 db ->
  poly_run D_copy [x; da; db] = Ok (Some [x; x; ((da + db) mod two64)%Z]).
Proof.
  intros Hx _ _. rewrite C14_generator_eval_copy, (@wrap_small x Hx). reflexivity.
Qed.

Theorem C14_generator_derivative_discard x : in64 x ->
  poly_run D_discard [x] = Ok (Some [0%Z]).
Proof. intros _. apply C14_generator_eval_discard. Qed.

Theorem C14_generator_derivative_const c dz : in64 dz ->
  poly_run (D_const c) [dz] = Ok (Some [(Z.of_nat c mod two64)%Z]).
Proof. intros _. apply C14_generator_eval_const. Qed.

(* ---- the same in Jacobian form: value and Jacobian of every generator over Z; the adapted optic
   computes map wrap (g(x) ++ J_g(x)^T dy) for ALL integer inputs ---- *)
Ltac jac_tac := cbv [tmulv vplus vscale vzero map combine List.app repeat fst snd]; wrap_solve.

Theorem C14_generator_derivative :
  (forall x y dz, poly_run D_add ([x; y] ++ [dz])
     = Ok (Some (map wrap ([x + y] ++ tmulv 2 [[1; 1]] [dz])))%Z) /\
  (forall x y dz, poly_run D_mul ([x; y] ++ [dz])
     = Ok (Some (map wrap ([x * y] ++ tmulv 2 [[y; x]] [dz])))%Z) /\
  (forall x dz, poly_run D_neg ([x] ++ [dz])
     = Ok (Some (map wrap ([- x] ++ tmulv 1 [[-1]] [dz])))%Z) /\
  (forall x da db, poly_run D_copy ([x] ++ [da; db])
     = Ok (Some (map wrap ([x; x] ++ tmulv 1 [[1]; [1]] [da; db])))%Z) /\
  (forall x, poly_run D_discard ([x] ++ [])
     = Ok (Some (map wrap ([] ++ tmulv 1 [] [])))%Z) /\
  (forall c dz, poly_run (D_const c) ([] ++ [dz])
     = Ok (Some (map wrap ([Z.of_nat c] ++ tmulv 0 [[]] [dz])))%Z).
Proof.
  split; [|split; [|split; [|split; [|split]]]].
  - intros x y dz. cbn [List.app]. rewrite C14_generator_eval_add. jac_tac.
  - intros x y dz. cbn [List.app]. rewrite C14_generator_eval_mul. jac_tac.
  - intros x dz. cbn [List.app]. rewrite C14_generator_eval_neg. jac_tac.
  - intros x da db. cbn [List.app]. rewrite C14_generator_eval_copy. jac_tac.
  - intros x. cbn [List.app]. rewrite C14_generator_eval_discard. reflexivity.
  - intros c dz. cbn [List.app]. rewrite C14_generator_eval_const. reflexivity.
Qed.

(* ---- composite circuits (evidence beyond the generators; each is one concrete diagram) ---- *)
Definition lcomp (f g : lohg nat nat) : lohg nat nat :=
  match lohg_lax_compose f g with Some h => h | None => lohg_empty end.
(* x |-> x * x  =  copy ; mul *)
Definition T_square : lohg nat nat := lcomp T_copy T_mul.
(* (x, y) |-> (x + y) * y  =  (id (x) copy) ; (add (x) id) ; mul *)
Definition T_poly : lohg nat nat :=
  lcomp (lcomp (lohg_tensor (lohg_identity nat [0]) T_copy) (lohg_tensor T_add (lohg_identity nat [0])))
        T_mul.

Example C14_composite_square x dz :
  exists D, poly_adapted T_square = Ok D /\ good_circuit D /\
    poly_run D ([x] ++ [dz]) = Ok (Some (map wrap ([x * x] ++ tmulv 1 [[2 * x]] [dz])))%Z.
Proof.
  eexists. split; [vm_compute; reflexivity|]. split; [good_circuit_tac|].
  run_symbolic. jac_tac.
Qed.

Example C14_composite_poly x y dz :
  exists D, poly_adapted T_poly = Ok D /\ good_circuit D /\
    poly_run D ([x; y] ++ [dz])
    = Ok (Some (map wrap ([(x + y) * y] ++ tmulv 2 [[y; x + 2 * y]] [dz])))%Z.
Proof.
  eexists. split; [vm_compute; reflexivity|]. split; [good_circuit_tac|].
  run_symbolic. jac_tac.
Qed.

(* numbers, with overflow: 2^63 * 2 = 0 and (2^64 - 1) + 1 = 0 modulo 2^64 *)
Example C14_generator_derivative_ex :
  in64 3 /\ in64 5 /\ in64 7 /\ in64 (2 ^ 63) /\ in64 (two64 - 1) /\
  poly_run D_mul [3; 5; 7]%Z = Ok (Some [15; 35; 21]%Z) /\
  poly_run D_mul [2 ^ 63; 2; 1]%Z = Ok (Some [0; 2; 2 ^ 63]%Z) /\
  poly_run D_add [two64 - 1; 1; 7]%Z = Ok (Some [0; 7; 7]%Z) /\
  poly_run D_neg [1; 0]%Z = Ok (Some [two64 - 1; 0]%Z) /\
  poly_run (D_const 3) [9%Z] = Ok (Some [3%Z]).
Proof. unfold in64. repeat split; try discriminate; vm_compute; reflexivity. Qed.

(* ======================= Part C: what is NOT proved ======================= *)
(* The statement for EVERY circuit.  It is kept as a [Prop], not proved: lifting the generator results
   to arbitrary wiring needs (a) functoriality of the optic construction, i.e. that optic_map_arrow
   preserves composition and tensor up to isomorphism (the composition clause of C12), (b) the same
   for optic_adapt / partial_dagger, and (c) functoriality of [eval] (evaluation of a composite is the
   composite of the evaluations, invariance under isomorphism, i.e. under node numbering and hyperedge
   order).  None of these is available in the development. *)

Definition poly_strict_optic : optic nat nat nat nat := to_strict_optic VecBackend Nat.eqb poly_optic.

(* the adapted optic of a strict diagram: loptic_map_adapted without the lax/strict conversions *)
Definition poly_adapted_strict (s : ohg nat nat) : res (ohg nat nat) :=
  g <- optic_map_arrow VecBackend Nat.eqb poly_strict_optic s ;;
  a <- ohg_source s ;; b <- ohg_target s ;;
  optic_adapt VecBackend Nat.eqb poly_strict_optic g a b.

Lemma poly_adapted_via_strict (T : lohg nat nat) s : lohg_to_strict VecBackend Nat.eqb T = Ok s ->
  poly_adapted T = (d <- poly_adapted_strict s ;; lohg_from_strict d).
Proof.
  intros H. unfold poly_adapted, loptic_map_adapted, poly_adapted_strict. rewrite H. cbn [bind].
  fold poly_strict_optic.
  destruct (optic_map_arrow VecBackend Nat.eqb poly_strict_optic s) as [g| |]; cbn [bind]; try reflexivity.
  destruct (ohg_source s) as [a| |]; cbn [bind]; try reflexivity.
  destruct (ohg_target s) as [b| |]; cbn [bind]; reflexivity.
Qed.

(* the signature: arities, values and Jacobians of the generators over Z *)
Definition poly_arity (g : nat) : option (nat * nat) :=
  match g with
  | 0 | 1 => Some (2, 1) | 2 => Some (1, 1) | 3 => Some (1, 2) | 4 => Some (1, 0)
  | 5 | 6 | 7 | 8 | 9 => None
  | _ => Some (0, 1)
  end.
Definition gen_sem (g : nat) (v : list Z) : list Z :=
  match g with
  | 0 => match v with [x; y] => [(x + y)%Z] | _ => [] end
  | 1 => match v with [x; y] => [(x * y)%Z] | _ => [] end
  | 2 => match v with [x] => [(- x)%Z] | _ => [] end
  | 3 => match v with [x] => [x; x] | _ => [] end
  | 4 => []
  | _ => [Z.of_nat (g - 10)]
  end.
Definition gen_jac (g : nat) (v : list Z) : list (list Z) :=
  match g with
  | 0 => [[1; 1]%Z]
  | 1 => match v with [x; y] => [[y; x]] | _ => [] end
  | 2 => [[(-1)%Z]]
  | 3 => [[1%Z]; [1%Z]]
  | 4 => []
  | _ => [[]]
  end.

(* values and Jacobians of the structural circuits and of composites *)
Definition idmat (k : nat) : list (list Z) :=
  map (fun i => map (fun j => if i =? j then 1%Z else 0%Z) (seq 0 k)) (seq 0 k).
Definition twist_f (n : nat) (x : list Z) : list Z := skipn n x ++ firstn n x.
Definition twist_J (n m : nat) : list (list Z) := skipn n (idmat (n + m)) ++ firstn n (idmat (n + m)).
Definition seq_f (f g : list Z -> list Z) (x : list Z) : list Z := g (f x).
Definition seq_J (n : nat) (f : list Z -> list Z) (J1 J2 : list Z -> list (list Z)) (x : list Z) :=
  mmul n (J2 (f x)) (J1 x).
Definition par_f (n1 : nat) (f1 f2 : list Z -> list Z) (x : list Z) : list Z :=
  f1 (firstn n1 x) ++ f2 (skipn n1 x).
Definition par_J (n1 n2 : nat) (J1 J2 : list Z -> list (list Z)) (x : list Z) :=
  blockdiag n1 n2 (J1 (firstn n1 x)) (J2 (skipn n1 x)).

(* [denotes s n m f J]: the circuit s : n -> m computes f and J is the Jacobian of f — closed under
   composition (chain rule), tensor (block-diagonal Jacobian) and isomorphism (any node numbering,
   any hyperedge order) *)
Inductive denotes : ohg nat nat -> nat -> nat -> (list Z -> list Z) -> (list Z -> list (list Z)) -> Prop :=
| den_gen g n m s : poly_arity g = Some (n, m) ->
    ohg_singleton g (repeat 0 n) (repeat 0 m) = Ok s -> denotes s n m (gen_sem g) (gen_jac g)
| den_id n s : ohg_identity nat (repeat 0 n) = Ok s -> denotes s n n (fun x => x) (fun _ => idmat n)
| den_twist n m s : ohg_twist nat (repeat 0 n) (repeat 0 m) = Ok s ->
    denotes s (n + m) (m + n) (twist_f n) (fun _ => twist_J n m)
| den_seq s1 s2 s n m p f g J1 J2 : denotes s1 n m f J1 -> denotes s2 m p g J2 ->
    ohg_compose VecBackend Nat.eqb s1 s2 = Ok (Some s) ->
    denotes s n p (seq_f f g) (seq_J n f J1 J2)
| den_par s1 s2 s n1 m1 n2 m2 f1 f2 J1 J2 : denotes s1 n1 m1 f1 J1 -> denotes s2 n2 m2 f2 J2 ->
    ohg_tensor s1 s2 = Ok s ->
    denotes s (n1 + n2) (m1 + m2) (par_f n1 f1 f2) (par_J n1 n2 J1 J2)
| den_iso s s' n m f J : denotes s n m f J -> wf_ohg s' -> Iso (abs s) (abs s') -> denotes s' n m f J.

(* a circuit of the theory: one object, every hyperedge has the arity of its label *)
Definition poly_circuit (s : ohg nat nat) : Prop :=
  wf_ohg s /\ Forall (fun w => w = 0) (h_w (o_h s)) /\
  Forall (fun e => poly_arity (pe_lbl e) = Some (List.length (pe_src e), List.length (pe_tgt e)))
         (p_edges (abs s)).

(* on (x, dy) the adapted optic of s returns (f(x), J(x)^T dy), modulo 2^64 *)
Definition derivative_statement (s : ohg nat nat) (n m : nat) (f : list Z -> list Z)
    (J : list Z -> list (list Z)) : Prop :=
  exists d, poly_adapted_strict s = Ok d /\ wf_ohg d /\
    forall x dy, List.length x = n -> List.length dy = m ->
      eval VecBackend 0%Z apply_sig d (x ++ dy) = Ok (Some (map wrap (f x ++ tmulv n (J x) dy))).

Definition C14_full : Prop :=
  (* the derivative statement for every denotable circuit ... *)
  (forall s n m f J, denotes s n m f J -> derivative_statement s n m f J) /\
  (* ... and every monogamous acyclic circuit of the theory, whatever its wiring and edge order, is one *)
  (forall s, poly_circuit s -> ohg_is_monogamous s = Ok true -> ohg_is_acyclic VecBackend s = Ok true ->
     exists n m f J, denotes s n m f J) /\
  (* the optic image preserves composition and tensor up to isomorphism *)
  (forall f g h, poly_circuit f -> poly_circuit g -> ohg_compose VecBackend Nat.eqb f g = Ok (Some h) ->
     exists F G H FG, optic_map_arrow VecBackend Nat.eqb poly_strict_optic f = Ok F /\
       optic_map_arrow VecBackend Nat.eqb poly_strict_optic g = Ok G /\
       optic_map_arrow VecBackend Nat.eqb poly_strict_optic h = Ok H /\
       ohg_compose VecBackend Nat.eqb F G = Ok (Some FG) /\ Iso (abs H) (abs FG)) /\
  (forall f g h, poly_circuit f -> poly_circuit g -> ohg_tensor f g = Ok h ->
     exists F G H FG, optic_map_arrow VecBackend Nat.eqb poly_strict_optic f = Ok F /\
       optic_map_arrow VecBackend Nat.eqb poly_strict_optic g = Ok G /\
       optic_map_arrow VecBackend Nat.eqb poly_strict_optic h = Ok H /\
       ohg_tensor F G = Ok FG /\ Iso (abs H) (abs FG)).

(* ---- what IS proved of C14_full: its first clause at the generators (the base case [den_gen]) ---- *)
Ltac gen_case Ha Hs :=
  cbn in Ha; inversion Ha; subst; vm_compute in Hs; inversion Hs; subst;
  eexists; split; [vm_compute; reflexivity|];
  split; [repeat split; try reflexivity; repeat constructor|];
  let x := fresh "x" in let dy := fresh "dy" in let Hx := fresh "Hx" in let Hy := fresh "Hy" in
  intros x dy Hx Hy;
  destruct x as [|? [|? [|? ?]]]; cbn in Hx; try discriminate Hx;
  destruct dy as [|? [|? [|? ?]]]; cbn in Hy; try discriminate Hy;
  cbv -[wrap Z.add Z.mul Z.opp Z.of_nat]; wrap_solve.

Theorem C14_full_generators g n m s :
  poly_arity g = Some (n, m) -> ohg_singleton g (repeat 0 n) (repeat 0 m) = Ok s ->
  derivative_statement s n m (gen_sem g) (gen_jac g).
Proof.
  intros Ha Hs. unfold derivative_statement.
  destruct g as [|g]; [gen_case Ha Hs|].
  destruct g as [|g]; [gen_case Ha Hs|].
  destruct g as [|g]; [gen_case Ha Hs|].
  destruct g as [|g]; [gen_case Ha Hs|].
  destruct g as [|g]; [gen_case Ha Hs|].
  do 5 (destruct g as [|g]; [discriminate Ha|]).
  gen_case Ha Hs.
Qed.

(* the hypotheses of C14_full are satisfiable beyond the generators: the squaring circuit copy ; mul is
   denotable, and the derivative statement holds for it (Jacobian by the chain rule) *)
Definition s_square : ohg nat nat :=
  mkOHG (mkFF [0] 4) (mkFF [3] 4)
    (mkHG (mkIC (mkFF [1; 2] 4) (mkFF [0; 1; 2] 4)) (mkIC (mkFF [2; 1] 4) (mkFF [1; 2; 3] 4))
          [0; 0; 0; 0] [3; 1]).

Example C14_full_ex :
  denotes s_square 1 1 (seq_f (gen_sem 3) (gen_sem 1)) (seq_J 1 (gen_sem 3) (gen_jac 3) (gen_jac 1)) /\
  poly_circuit s_square /\
  ohg_is_monogamous s_square = Ok true /\ ohg_is_acyclic VecBackend s_square = Ok true /\
  derivative_statement s_square 1 1 (seq_f (gen_sem 3) (gen_sem 1))
                       (seq_J 1 (gen_sem 3) (gen_jac 3) (gen_jac 1)).
Proof.
  split; [|split; [|split; [|split]]].
  - eapply den_seq.
    + apply (@den_gen 3 1 2); [reflexivity|vm_compute; reflexivity].
    + apply (@den_gen 1 2 1); [reflexivity|vm_compute; reflexivity].
    + vm_compute. reflexivity.
  - split; [repeat split; try reflexivity; repeat constructor|].
    split; repeat constructor.
  - vm_compute. reflexivity.
  - vm_compute. reflexivity.
  - eexists. split; [vm_compute; reflexivity|].
    split; [repeat split; try reflexivity; repeat constructor|].
    intros x dy Hx Hy.
    destruct x as [|x1 [|x2 x]]; cbn in Hx; try discriminate Hx.
    destruct dy as [|d1 [|d2 dy]]; cbn in Hy; try discriminate Hy.
    cbv -[wrap Z.add Z.mul Z.opp Z.of_nat]. wrap_solve.
Qed.
