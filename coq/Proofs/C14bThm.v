(* C14 (typing clause): the optic image of a diagram f : A -> B built from a forward functor F, a
   reverse functor R and per-operation residuals has type interleave(F A, R A) -> interleave(F B, R B);
   its adapted form has type F A ● R B -> F B ● R A.
   The documented contract of the three user-supplied components of an optic is the record
   [optic_contract]; under it every step of optic_map_operations / optic_adapt is defined (no
   Panic: all `compose(..).unwrap()`, the debug_assert_eq!s and `OpenHypergraph::new(..).unwrap()`
   succeed) and has the expected type. *)
From OHG Require Import Spec.Plain Proofs.PrimsThm Proofs.SegThm Proofs.C08Thm
  Proofs.C01Lemmas Proofs.C01Thm Proofs.C12Lemmas Proofs.C12Thm Proofs.C14Thm.

Set Implicit Arguments.
Arguments Nat.sub : simpl never.

(* ======================= list facts ======================= *)
Lemma concat_decode_s T (c : ic (list T)) : wf_ics c -> concat (decode_s c) = ic_values c.
Proof. intros [_ H]. unfold decode_s. apply SegThm.segs_concat. exact H. Qed.

Lemma zip_app_map {X Y} (F R : X -> list Y) (a : list X) :
  zip_app (map F a) (map R a) = map (fun o => F o ++ R o) a.
Proof.
  unfold zip_app. induction a as [|x a IH]; [reflexivity|].
  cbn [map combine fst snd]. rewrite IH. reflexivity.
Qed.

Lemma nth_map_of_nth_error {X Y} (h : X -> Y) (w : list X) i x d :
  nth_error w i = Some x -> nth i (map h w) d = h x.
Proof. intros H. apply nth_error_nth. apply map_nth_error. exact H. Qed.

(* the labels found at the expansion of the node references l, when block i of fw is G (w_i) *)
Lemma expand_labels {X Y} (G : X -> list Y) (fw : ic (list Y)) (w : list X) :
  wf_ics fw -> decode_s fw = map G w ->
  forall (l : list nat) (va : list X), map Some va = map (nth_error w) l ->
  map (nth_error (ic_values fw)) (expand fw l) = map Some (flat_map G va).
Proof.
  intros Wf Hd l va Hva. destruct Wf as [W1 W2].
  unfold expand. rewrite map_inj_table, W2, map_some_nth_error, SegThm.segs_map.
  fold (decode_s fw). rewrite Hd.
  revert va Hva. induction l as [|i l IH]; intros [|x va] Hva; cbn [map] in Hva; try discriminate.
  - reflexivity.
  - injection Hva as Hx Hrest. cbn [flat_map]. rewrite map_app, (IH va Hrest). f_equal.
    rewrite map_map. apply (nth_map_of_nth_error (fun o => map Some (G o))). symmetry. exact Hx.
Qed.

Lemma list_eqb_refl {T} (eqb : T -> T -> bool) : (forall x y, eqb x y = true <-> x = y) ->
  forall l, list_eqb eqb l l = true.
Proof. intros H l. apply (C01Lemmas.list_eqb_spec eqb H). reflexivity. Qed.

(* ======================= typed values, one lemma per kind of step ======================= *)
Section Typed.
  Variable B : Backend.
  Hypothesis OK : BackendOK B.
  Variables O2 A2 : Type.
  Variable eqO2 : O2 -> O2 -> bool.
  Hypothesis eqO2_spec : forall x y, eqO2 x y = true <-> x = y.

  (* c : S -> T, well-formed *)
  Definition typed (c : ohg O2 A2) (S T : list O2) : Prop :=
    wf_ohg c /\ src_type (abs c) = map Some S /\ tgt_type (abs c) = map Some T.

  Lemma typed_source c S T : typed c S T -> ohg_source c = Ok S.
  Proof.
    intros (W & HS & _). destruct (ohg_source_ok W) as (r & Hr & Hm).
    rewrite Hr. f_equal. apply map_Some_inj. congruence.
  Qed.

  Lemma typed_target c S T : typed c S T -> ohg_target c = Ok T.
  Proof.
    intros (W & _ & HT). destruct (ohg_target_ok W) as (r & Hr & Hm).
    rewrite Hr. f_equal. apply map_Some_inj. congruence.
  Qed.

  Lemma dagger_typed c S T : typed c S T -> typed (ohg_dagger c) T S.
  Proof.
    intros ((Wh & Ws & Wt & Ts & Tt) & HS & HT). split; [|split; assumption].
    repeat split; try assumption; apply Wh.
  Qed.

  (* f.compose(&g).unwrap() *)
  Lemma compose_unwrap_typed f g S M T : typed f S M -> typed g M T ->
    exists h, compose_unwrap B eqO2 f g = Ok h /\ typed h S T.
  Proof.
    intros (Wf & HSf & HTf) (Wg & HSg & HTg).
    assert (Hty : tgt_type (abs f) = src_type (abs g)) by congruence.
    destruct (C01_compose_is_gluing OK eqO2 eqO2_spec Wf Wg Hty) as (h & Hh & Wh & Hic).
    destruct (C01_types Wf Wg Hic) as [Hs Ht].
    exists h. split.
    - unfold compose_unwrap. rewrite Hh. reflexivity.
    - split; [exact Wh|]. split; congruence.
  Qed.

  Lemma tensor_typed f g S T S' T' : typed f S T -> typed g S' T' ->
    exists h, ohg_tensor f g = Ok h /\ typed h (S ++ S') (T ++ T').
  Proof.
    intros (Wf & HSf & HTf) (Wg & HSg & HTg).
    exists (tensor_pure f g). split; [apply ohg_tensor_val; exact Wf|].
    split; [apply wf_tensor_pure; assumption|].
    rewrite abs_tensor_pure by exact Wf.
    destruct Wf as (_ & Fs & Ft & Fws & Fwt). unfold wf_ff in Fs, Ft.
    unfold src_type, tgt_type in *. cbn [ptensor p_ins p_outs].
    rewrite !type_ptensor
      by (cbn [abs p_nodes p_ins p_outs]; first [rewrite <- Fws; exact Fs|rewrite <- Fwt; exact Ft]).
    rewrite HSf, HTf, HSg, HTg, !map_app. split; reflexivity.
  Qed.

  Lemma identity_typed (w : list O2) : exists i, ohg_identity A2 w = Ok i /\ typed i w w.
  Proof.
    eexists. split; [apply ohg_identity_val|].
    split; [apply wf_spider_pure; apply all_lt_seq0|].
    rewrite abs_spider_pure. unfold src_type, tgt_type, type_of. cbn [p_ins p_outs p_nodes].
    split; apply map_some_nth_error.
  Qed.

  Lemma interleave_typed (a b : ic (list O2)) : wf_ics a -> wf_ics b -> ic_len a = ic_len b ->
    exists h, interleave_blocks A2 a b = Ok h /\
      typed h (ic_values a ++ ic_values b) (concat (zip_app (decode_s a) (decode_s b))).
  Proof.
    intros Wa Wb E.
    destruct (C14_interleave A2 Wa Wb E) as (h & Hh & Wh & _ & _ & _ & _ & _ & _ & _ & _ & _ & _ & HS & HT).
    exists h. split; [exact Hh|]. split; [exact Wh|]. split; assumption.
  Qed.

  Lemma partial_dagger_typed (c : ohg O2 A2) (fa fb ra rb : ic (list O2)) :
    typed c (ic_values fa ++ ic_values rb) (ic_values fb ++ ic_values ra) ->
    exists d, partial_dagger c fa fb ra rb = Ok d /\
      typed d (ic_values fa ++ ic_values ra) (ic_values fb ++ ic_values rb).
  Proof.
    intros (W & HS & HT).
    destruct (@C14_partial_dagger_typed O2 A2 c fa fb ra rb (ic_values fa) (ic_values rb)
                (ic_values fb) (ic_values ra) W eq_refl eq_refl eq_refl eq_refl HS HT)
      as (d & Hd & Wd & _ & HSd & HTd).
    exists d. split; [exact Hd|]. split; [exact Wd|]. split; assumption.
  Qed.
End Typed.

(* ======================= the contract of an optic's components ======================= *)
Section C14b.
  Variable B : Backend.
  Hypothesis OK : BackendOK B.
  Variables O1 A1 O2 A2 : Type.
  Variable eqO2 : O2 -> O2 -> bool.
  Hypothesis eqO2_spec : forall x y, eqO2 x y = true <-> x = y.
  Variable P : optic O1 A1 O2 A2.

  (* a well-formed batch of operations: one source block and one target block per operation *)
  Definition wf_ops (ops : operations O1 A1) : Prop :=
    wf_ics (ops_a ops) /\ wf_ics (ops_b ops) /\
    ic_len (ops_a ops) = length (ops_x ops) /\ ic_len (ops_b ops) = length (ops_x ops).

  Section Contract.
    (* the object maps of the two functors on generating objects *)
    Variables Fobj Robj : O1 -> list O2.

    (* the object F(A) ● R(A) interleaved label by label: the values of optic_map_object *)
    Definition optic_values (a : list O1) : list O2 := flat_map (fun o => Fobj o ++ Robj o) a.

    (* target type of the forward image of a batch: for every operation i, F(b_i) ++ M_i *)
    Definition fwd_target (ops : operations O1 A1) (m : ic (list O2)) : list O2 :=
      concat (zip_app (map (flat_map Fobj) (decode_s (ops_b ops))) (decode_s m)).
    (* source type of the reverse image of a batch: for every operation i, M_i ++ R(b_i) *)
    Definition rev_source (ops : operations O1 A1) (m : ic (list O2)) : list O2 :=
      concat (zip_app (decode_s m) (map (flat_map Robj) (decode_s (ops_b ops)))).

    Record optic_contract_for : Prop := {
      (* object maps: total, well-formed, one block per label, block of label o is Fobj o / Robj o *)
      oc_fwd_object : forall a, exists fa,
        sf_map_object (op_fwd P) a = Ok fa /\ wf_ics fa /\ decode_s fa = map Fobj a;
      oc_rev_object : forall a, exists ra,
        sf_map_object (op_rev P) a = Ok ra /\ wf_ics ra /\ decode_s ra = map Robj a;
      (* residual: one block per operation *)
      oc_residual : forall ops, wf_ops ops -> exists m,
        op_residual P ops = Ok m /\ wf_ics m /\ ic_len m = length (ops_x ops);
      (* forward operations  fwd : F(a_0 .. a_{k-1}) -> (F b_0 ● M_0) ● ... ● (F b_{k-1} ● M_{k-1}) *)
      oc_fwd_operations : forall ops m, wf_ops ops -> op_residual P ops = Ok m -> exists fwd,
        sf_map_operations (op_fwd P) ops = Ok fwd /\
        typed fwd (flat_map Fobj (ic_values (ops_a ops))) (fwd_target ops m);
      (* reverse operations  rev : (M_0 ● R b_0) ● ... ● (M_{k-1} ● R b_{k-1}) -> R(a_0 .. a_{k-1}) *)
      oc_rev_operations : forall ops m, wf_ops ops -> op_residual P ops = Ok m -> exists rev,
        sf_map_operations (op_rev P) ops = Ok rev /\
        typed rev (rev_source ops m) (flat_map Robj (ic_values (ops_a ops)))
    }.

    Hypothesis C : optic_contract_for.

    (* everything the code computes from a label list: F a, R a, their interleaving spider *)
    Lemma objects (a : list O1) : exists fa ra la,
      sf_map_object (op_fwd P) a = Ok fa /\ sf_map_object (op_rev P) a = Ok ra /\
      wf_ics fa /\ wf_ics ra /\ ic_len fa = length a /\ ic_len ra = length a /\
      decode_s fa = map Fobj a /\ decode_s ra = map Robj a /\
      ic_values fa = flat_map Fobj a /\ ic_values ra = flat_map Robj a /\
      interleave_blocks A2 fa ra = Ok la /\
      typed la (ic_values fa ++ ic_values ra) (optic_values a).
    Proof.
      destruct (oc_fwd_object C a) as (fa & Hfa & Wfa & Dfa).
      destruct (oc_rev_object C a) as (ra & Hra & Wra & Dra).
      assert (Lfa : ic_len fa = length a) by (rewrite <- decode_s_length, Dfa, map_length; reflexivity).
      assert (Lra : ic_len ra = length a) by (rewrite <- decode_s_length, Dra, map_length; reflexivity).
      destruct (@interleave_typed O2 A2 fa ra Wfa Wra ltac:(congruence)) as (la & Hla & Tla).
      exists fa, ra, la. repeat (split; [assumption|]).
      split; [rewrite <- (concat_decode_s Wfa), Dfa, flat_map_concat_map; reflexivity|].
      split; [rewrite <- (concat_decode_s Wra), Dra, flat_map_concat_map; reflexivity|].
      split; [exact Hla|].
      rewrite Dfa, Dra, zip_app_map in Tla. unfold optic_values. rewrite flat_map_concat_map. exact Tla.
    Qed.

    (* the object map of the optic: defined, one block F o ++ R o per label o *)
    Theorem C14_object (a : list O1) : exists oa,
      optic_map_object P a = Ok oa /\ wf_ics oa /\ ic_len oa = length a /\
      decode_s oa = map (fun o => Fobj o ++ Robj o) a /\ ic_values oa = optic_values a.
    Proof.
      destruct (objects a) as (fa & ra & _ & Hfa & Hra & Wfa & Wra & Lfa & Lra & Dfa & Dra & _).
      destruct (C14_map_object P a Hfa Hra Wfa Wra Lfa Lra) as (oa & Hoa & _ & Woa & Loa & Doa).
      rewrite Dfa, Dra in Doa. fold (zip_app (map Fobj a) (map Robj a)) in Doa. rewrite zip_app_map in Doa.
      exists oa. repeat (split; [assumption|]).
      rewrite <- (concat_decode_s Woa), Doa. unfold optic_values. rewrite flat_map_concat_map. reflexivity.
    Qed.

    (* ---------------- Optic::adapt ---------------- *)
    Theorem C14_adapt_type_values (c : ohg O2 A2) (a b : list O1) :
      typed c (optic_values a) (optic_values b) ->
      exists d, optic_adapt B eqO2 P c a b = Ok d /\
        typed d (flat_map Fobj a ++ flat_map Robj b) (flat_map Fobj b ++ flat_map Robj a).
    Proof.
      intros Tc.
      destruct (objects a) as (fa & ra & la & Hfa & Hra & Wfa & Wra & _ & _ & _ & _ & Vfa & Vra & Hla & Tla).
      destruct (objects b) as (fb & rb & lb & Hfb & Hrb & Wfb & Wrb & _ & _ & _ & _ & Vfb & Vrb & Hlb & Tlb).
      destruct (compose_unwrap_typed OK eqO2 eqO2_spec Tla Tc) as (d0 & Hd0 & Td0).
      destruct (compose_unwrap_typed OK eqO2 eqO2_spec Td0 (dagger_typed Tlb)) as (d & Hd & Td).
      destruct (@partial_dagger_typed O2 A2 d fa fb rb ra Td) as (r & Hr & Tr).
      exists r. split.
      - unfold optic_adapt. rewrite Hfa. cbn [bind]. rewrite Hfb. cbn [bind].
        rewrite Hra. cbn [bind]. rewrite Hrb. cbn [bind].
        rewrite Hla. cbn [bind]. rewrite Hlb. cbn [bind].
        rewrite Hd0. cbn [bind]. rewrite Hd. cbn [bind].
        rewrite (typed_source Td). cbn [bind].
        rewrite (coproduct_s_ok Wfa Wra). cbn [bind unwrap cop_s ic_values].
        rewrite (list_eqb_refl eqO2 eqO2_spec). cbn [assert bind].
        rewrite (typed_target Td). cbn [bind].
        rewrite (coproduct_s_ok Wfb Wrb). cbn [bind unwrap cop_s ic_values].
        rewrite (list_eqb_refl eqO2 eqO2_spec). cbn [assert bind].
        exact Hr.
      - rewrite <- Vfa, <- Vra, <- Vfb, <- Vrb. exact Tr.
    Qed.

    (* ---------------- Optic::map_operations ---------------- *)
    (* ops.b.flatmap_sources(&fb): the blocks of fb regrouped operation by operation *)
    Lemma flatmap_blocks (G : O1 -> list O2) (ops : operations O1 A1) (fb : ic (list O2)) :
      wf_ics (ops_b ops) -> wf_ics fb -> decode_s fb = map G (ic_values (ops_b ops)) ->
      exists bfb, ic_flatmap_sources (semi_vops O1) (ops_b ops) fb = Ok bfb /\ wf_ics bfb /\
        ic_values bfb = ic_values fb /\ ic_len bfb = ic_len (ops_b ops) /\
        decode_s bfb = map (flat_map G) (decode_s (ops_b ops)).
    Proof.
      intros Wb Wfb Dfb.
      assert (Hl : vlen (semi_vops O1) (ic_values (ops_b ops)) = ic_len fb).
      { cbn [semi_vops vlen]. rewrite <- decode_s_length, Dfb, map_length. reflexivity. }
      destruct (@C08_flatmap_sources _ _ (semi_vops O1) (@length O2) (ops_b ops) fb Wb Wfb Hl)
        as (r & R1 & R2 & R3 & R4 & R5).
      exists r. repeat (split; [assumption|]).
      rewrite decode_s_g, (R5 _ (fun v => v)), <- decode_s_g, Dfb, SegThm.segs_map, map_map.
      apply map_ext. intros l. rewrite flat_map_concat_map. reflexivity.
    Qed.

    Theorem C14_map_operations_typed_values (ops : operations O1 A1) : wf_ops ops ->
      exists c, optic_map_operations B eqO2 P ops = Ok c /\
        typed c (optic_values (ic_values (ops_a ops))) (optic_values (ic_values (ops_b ops))).
    Proof.
      intros Wops. pose proof Wops as (Wa & Wb & La & Lb).
      (* the components *)
      destruct (oc_residual C Wops) as (m & Hm & Wm & Lm).
      destruct (oc_fwd_operations C Wops Hm) as (fwd & Hfwd & Tfwd).
      destruct (oc_rev_operations C Wops Hm) as (rev & Hrev & Trev).
      destruct (objects (ic_values (ops_a ops)))
        as (fa & ra & l1 & Hfa & Hra & Wfa & Wra & _ & _ & _ & _ & Vfa & Vra & Hl1 & Tl1).
      destruct (objects (ic_values (ops_b ops)))
        as (fb & rb & rhs1 & Hfb & Hrb & Wfb & Wrb & _ & _ & Dfb & Drb & _ & _ & Hrhs1 & Trhs1).
      (* the interleavings *)
      destruct (flatmap_blocks Fobj ops Wb Wfb Dfb) as (bfb & Hbfb & Wbfb & Vbfb & Lbfb & Dbfb).
      destruct (flatmap_blocks Robj ops Wb Wrb Drb) as (brb & Hbrb & Wbrb & Vbrb & Lbrb & Dbrb).
      destruct (@interleave_typed O2 A2 bfb m Wbfb Wm ltac:(congruence)) as (fi0 & Hfi0 & Tfi0).
      destruct (@interleave_typed O2 A2 m brb Wm Wbrb ltac:(congruence)) as (rci & Hrci & Trci).
      rewrite Dbfb, Vbfb in Tfi0. fold (fwd_target ops m) in Tfi0.
      rewrite Dbrb, Vbrb in Trci. fold (rev_source ops m) in Trci.
      pose proof (dagger_typed Tfi0) as Tfi.
      (* the composites *)
      destruct (identity_typed A2 (ic_values fb)) as (i_fb & Hifb & Tifb).
      destruct (identity_typed A2 (ic_values rb)) as (i_rb & Hirb & Tirb).
      rewrite <- Vfa in Tfwd. rewrite <- Vra in Trev.
      destruct (compose_unwrap_typed OK eqO2 eqO2_spec Tfwd Tfi) as (l0 & Hl0 & Tl0).
      destruct (tensor_typed Tl0 Tirb) as (lhs & Hlhs & Tlhs).
      destruct (compose_unwrap_typed OK eqO2 eqO2_spec Trci Trev) as (r0 & Hr0 & Tr0).
      destruct (tensor_typed Tifb Tr0) as (rhs & Hrhs & Trhs).
      rewrite <- app_assoc in Tlhs.
      destruct (compose_unwrap_typed OK eqO2 eqO2_spec Tlhs Trhs) as (c & Hc & Tc).
      destruct (@partial_dagger_typed O2 A2 c fa fb ra rb Tc) as (d & Hd & Td).
      destruct (compose_unwrap_typed OK eqO2 eqO2_spec (dagger_typed Tl1) Td) as (e & He & Te).
      destruct (compose_unwrap_typed OK eqO2 eqO2_spec Te Trhs1) as (h & Hh & Th).
      exists h. split; [|exact Th].
      unfold optic_map_operations.
      rewrite Hfwd. cbn [bind]. rewrite Hrev. cbn [bind].
      rewrite Hfa. cbn [bind]. rewrite Hfb. cbn [bind]. rewrite Hra. cbn [bind]. rewrite Hrb. cbn [bind].
      rewrite Hm. cbn [bind]. rewrite Hbfb. cbn [bind]. rewrite Hfi0. cbn [bind].
      rewrite Hbrb. cbn [bind]. rewrite Hrci. cbn [bind].
      (* debug_assert_eq!(fwd.target(), fwd_interleave.source()) *)
      rewrite (typed_target Tfwd). cbn [bind]. rewrite (typed_source Tfi). cbn [bind].
      rewrite (list_eqb_refl eqO2 eqO2_spec). cbn [assert bind].
      (* debug_assert_eq!(rev_cointerleave.target(), rev.source()) *)
      rewrite (typed_target Trci). cbn [bind]. rewrite (typed_source Trev). cbn [bind].
      rewrite (list_eqb_refl eqO2 eqO2_spec). cbn [assert bind].
      rewrite Hifb. cbn [bind]. rewrite Hirb. cbn [bind].
      rewrite Hl0. cbn [bind]. rewrite Hlhs. cbn [bind].
      rewrite Hr0. cbn [bind]. rewrite Hrhs. cbn [bind].
      rewrite Hc. cbn [bind]. rewrite Hd. cbn [bind].
      rewrite Hl1. cbn [bind]. rewrite Hrhs1. cbn [bind].
      rewrite He. cbn [bind]. exact Hh.
    Qed.

    (* ---------------- Optic::map_arrow ---------------- *)
    Theorem C14_type_values (f : ohg O1 A1) (sA sB : list O1) : wf_ohg f ->
      src_type (abs f) = map Some sA -> tgt_type (abs f) = map Some sB ->
      exists h, optic_map_arrow B eqO2 P f = Ok h /\ typed h (optic_values sA) (optic_values sB).
    Proof.
      intros Hf HsA HsB.
      destruct (to_operations_val Hf) as (va & vb & Hops & Ea & Eb).
      pose proof (map_Some_length _ _ _ Ea) as La.
      pose proof (map_Some_length _ _ _ Eb) as Lb.
      pose proof (wf_to_ops_pure va vb Hf La Lb) as Wops.
      destruct (C14_map_operations_typed_values Wops) as (fx & Hfx & Wfx & HSfx & HTfx).
      cbn [to_ops_pure ops_a ops_b ic_values] in HSfx, HTfx.
      destruct (C14_object (h_w (o_h f))) as (fw & Hfw & Wfw & Lfw & Dfw & Vfw).
      assert (Hty : fx_typed f fw fx).
      { split.
        - rewrite HSfx. symmetry. apply (expand_labels _ _ Wfw Dfw). exact Ea.
        - rewrite HTfx. symmetry. apply (expand_labels _ _ Wfw Dfw). exact Eb. }
      destruct (@C12_define_map_arrow B OK O1 A1 O2 A2 eqO2 eqO2_spec (optic_as_functor B eqO2 P) f fw fx Hf)
        as (h & Hh & Wh & HSh & HTh & _); try assumption.
      { intros ops Ho. rewrite Hops in Ho. injection Ho as <-. exact Hfx. }
      exists h. split; [exact Hh|]. split; [exact Wh|]. split.
      - rewrite HSh. apply (expand_labels _ _ Wfw Dfw). symmetry. exact HsA.
      - rewrite HTh. apply (expand_labels _ _ Wfw Dfw). symmetry. exact HsB.
    Qed.

    (* ---------------- the adapted optic of f : A -> B has type F A ● R B -> F B ● R A ---------------- *)
    Theorem C14_adapted_type_values (f : ohg O1 A1) (sA sB : list O1) : wf_ohg f ->
      src_type (abs f) = map Some sA -> tgt_type (abs f) = map Some sB ->
      exists h d, optic_map_arrow B eqO2 P f = Ok h /\ optic_adapt B eqO2 P h sA sB = Ok d /\
        typed h (optic_values sA) (optic_values sB) /\
        typed d (flat_map Fobj sA ++ flat_map Robj sB) (flat_map Fobj sB ++ flat_map Robj sA).
    Proof.
      intros Hf HsA HsB.
      destruct (@C14_type_values f sA sB Hf HsA HsB) as (h & Hh & Th).
      destruct (@C14_adapt_type_values h sA sB Th) as (d & Hd & Td).
      exists h, d. repeat (split; [assumption|]). exact Td.
    Qed.
  End Contract.

  (* ======================= the theorems, under the contract ======================= *)
  (* the contract of the optic P: its components behave as documented for SOME object maps *)
  Definition optic_contract : Prop := exists Fobj Robj, optic_contract_for Fobj Robj.

  (* map_operations: every step is defined, the result is well-formed and has type
     interleave(F a, R a) -> interleave(F b, R b) for the batch *)
  Theorem C14_map_operations_defined_typed (ops : operations O1 A1) : optic_contract -> wf_ops ops ->
    exists c oa ob, optic_map_operations B eqO2 P ops = Ok c /\ wf_ohg c /\
      optic_map_object P (ic_values (ops_a ops)) = Ok oa /\
      optic_map_object P (ic_values (ops_b ops)) = Ok ob /\
      src_type (abs c) = map Some (ic_values oa) /\ tgt_type (abs c) = map Some (ic_values ob).
  Proof.
    intros (Fobj & Robj & C) Wops.
    destruct (C14_map_operations_typed_values C Wops) as (c & Hc & Wc & HS & HT).
    destruct (C14_object C (ic_values (ops_a ops))) as (oa & Hoa & _ & _ & _ & Voa).
    destruct (C14_object C (ic_values (ops_b ops))) as (ob & Hob & _ & _ & _ & Vob).
    exists c, oa, ob. rewrite Voa, Vob. repeat (split; [assumption|]). exact HT.
  Qed.

  (* map_arrow: the optic image of f : A -> B has type interleave(F A, R A) -> interleave(F B, R B) *)
  Theorem C14_type (f : ohg O1 A1) (sA sB : list O1) : optic_contract -> wf_ohg f ->
    src_type (abs f) = map Some sA -> tgt_type (abs f) = map Some sB ->
    exists h oa ob, optic_map_arrow B eqO2 P f = Ok h /\ wf_ohg h /\
      optic_map_object P sA = Ok oa /\ optic_map_object P sB = Ok ob /\
      src_type (abs h) = map Some (ic_values oa) /\ tgt_type (abs h) = map Some (ic_values ob).
  Proof.
    intros (Fobj & Robj & C) Hf HsA HsB.
    destruct (@C14_type_values Fobj Robj C f sA sB Hf HsA HsB) as (h & Hh & Wh & HS & HT).
    destruct (C14_object C sA) as (oa & Hoa & _ & _ & _ & Voa).
    destruct (C14_object C sB) as (ob & Hob & _ & _ & _ & Vob).
    exists h, oa, ob. rewrite Voa, Vob. repeat (split; [assumption|]). exact HT.
  Qed.

  (* adapt: c : interleave(F A, R A) -> interleave(F B, R B) becomes F A ● R B -> F B ● R A *)
  Theorem C14_adapt_type (c : ohg O2 A2) (a b : list O1) (oa ob : ic (list O2)) : optic_contract ->
    wf_ohg c -> optic_map_object P a = Ok oa -> optic_map_object P b = Ok ob ->
    src_type (abs c) = map Some (ic_values oa) -> tgt_type (abs c) = map Some (ic_values ob) ->
    exists d fa fb ra rb,
      sf_map_object (op_fwd P) a = Ok fa /\ sf_map_object (op_fwd P) b = Ok fb /\
      sf_map_object (op_rev P) a = Ok ra /\ sf_map_object (op_rev P) b = Ok rb /\
      optic_adapt B eqO2 P c a b = Ok d /\ wf_ohg d /\
      src_type (abs d) = map Some (ic_values fa ++ ic_values rb) /\
      tgt_type (abs d) = map Some (ic_values fb ++ ic_values ra).
  Proof.
    intros (Fobj & Robj & C) Wc Hoa Hob HS HT.
    destruct (C14_object C a) as (oa' & Hoa' & _ & _ & _ & Voa).
    destruct (C14_object C b) as (ob' & Hob' & _ & _ & _ & Vob).
    assert (oa' = oa) by congruence. assert (ob' = ob) by congruence. subst oa' ob'.
    rewrite Voa in HS. rewrite Vob in HT.
    destruct (@C14_adapt_type_values Fobj Robj C c a b (conj Wc (conj HS HT))) as (d & Hd & Wd & HSd & HTd).
    destruct (objects C a) as (fa & ra & _ & Hfa & Hra & _ & _ & _ & _ & _ & _ & Vfa & Vra & _).
    destruct (objects C b) as (fb & rb & _ & Hfb & Hrb & _ & _ & _ & _ & _ & _ & Vfb & Vrb & _).
    exists d, fa, fb, ra, rb. rewrite Vfa, Vfb, Vra, Vrb. repeat (split; [assumption|]). exact HTd.
  Qed.

  (* the two together (as in loptic_map_adapted): the adapted optic image of f : A -> B has type
     F A ● R B -> F B ● R A *)
  Theorem C14_adapted_type (f : ohg O1 A1) (sA sB : list O1) : optic_contract -> wf_ohg f ->
    src_type (abs f) = map Some sA -> tgt_type (abs f) = map Some sB ->
    exists h d fa fb ra rb,
      optic_map_arrow B eqO2 P f = Ok h /\ optic_adapt B eqO2 P h sA sB = Ok d /\
      sf_map_object (op_fwd P) sA = Ok fa /\ sf_map_object (op_fwd P) sB = Ok fb /\
      sf_map_object (op_rev P) sA = Ok ra /\ sf_map_object (op_rev P) sB = Ok rb /\
      wf_ohg h /\ wf_ohg d /\
      src_type (abs d) = map Some (ic_values fa ++ ic_values rb) /\
      tgt_type (abs d) = map Some (ic_values fb ++ ic_values ra).
  Proof.
    intros HC Hf HsA HsB.
    destruct (@C14_type f sA sB HC Hf HsA HsB) as (h & oa & ob & Hh & Wh & Hoa & Hob & HS & HT).
    destruct (@C14_adapt_type h sA sB oa ob HC Wh Hoa Hob HS HT)
      as (d & fa & fb & ra & rb & Hfa & Hfb & Hra & Hrb & Hd & Wd & HSd & HTd).
    exists h, d, fa, fb, ra, rb. repeat (split; [assumption|]). exact HTd.
  Qed.
End C14b.

(* ======================= the contract is satisfiable: the free optic of given object maps ======================= *)
(* For ANY object maps F, R and any residual assignment M (one block of labels per operation label) the
   optic below satisfies the contract: its forward image of the operation x : a -> b is the single
   operation x : F a -> F b ● M x, its reverse image the single operation x : M x ● R b -> R a. *)
Section FreeOptic.
  Variables O1 A O2 : Type.
  Variables F R : O1 -> list O2.
  Variable M : A -> list O2.

  (* the segmented array with the given blocks *)
  Definition ic_of_blocks {T} (ls : list (list T)) : ic (list T) :=
    mkIC (mkFF (map (@length T) ls) (length (concat ls) + 1)) (concat ls).

  Lemma wf_ic_of_blocks {T} (ls : list (list T)) : wf_ics (ic_of_blocks ls).
  Proof. split; cbn [ic_of_blocks ic_sources ic_values table target]; rewrite list_sum_map_length; reflexivity. Qed.

  Lemma decode_ic_of_blocks {T} (ls : list (list T)) : decode_s (ic_of_blocks ls) = ls.
  Proof. unfold decode_s. cbn [ic_of_blocks ic_sources ic_values table]. apply SegThm.segs_of_concat. Qed.

  Lemma len_ic_of_blocks {T} (ls : list (list T)) : ic_len (ic_of_blocks ls) = length ls.
  Proof. unfold ic_len, ff_source. cbn [ic_of_blocks ic_sources table]. apply map_length. Qed.

  Definition free_residual (ops : operations O1 A) : ic (list O2) := ic_of_blocks (map M (ops_x ops)).

  Definition free_fwd_ops (ops : operations O1 A) : operations O2 A :=
    mkOps (ops_x ops)
          (ic_of_blocks (map (flat_map F) (decode_s (ops_a ops))))
          (ic_of_blocks (zip_app (map (flat_map F) (decode_s (ops_b ops))) (decode_s (free_residual ops)))).

  Definition free_rev_ops (ops : operations O1 A) : operations O2 A :=
    mkOps (ops_x ops)
          (ic_of_blocks (zip_app (decode_s (free_residual ops)) (map (flat_map R) (decode_s (ops_b ops)))))
          (ic_of_blocks (map (flat_map R) (decode_s (ops_a ops)))).

  Definition free_optic : optic O1 A O2 A :=
    mkOptic (mkSF (fun a => Ok (ic_of_blocks (map F a))) (fun ops => ohg_tensor_operations (free_fwd_ops ops)))
            (mkSF (fun a => Ok (ic_of_blocks (map R a))) (fun ops => ohg_tensor_operations (free_rev_ops ops)))
            (fun ops => Ok (free_residual ops)).

  (* a batch of operations as a diagram: typed by its concatenated source and target blocks *)
  Lemma tops_pure_typed (p : operations O2 A) : wf_ics (ops_a p) -> wf_ics (ops_b p) ->
    ic_len (ops_a p) = length (ops_x p) -> ic_len (ops_b p) = length (ops_x p) ->
    exists t, ohg_tensor_operations p = Ok t /\ typed t (ic_values (ops_a p)) (ic_values (ops_b p)).
  Proof.
    intros Wa Wb La Lb. exists (tops_pure p). split; [apply tensor_operations_val; assumption|].
    split; [apply wf_tops_pure; assumption|].
    unfold src_type, tgt_type, type_of, abs, tops_pure.
    cbn [p_nodes p_ins p_outs o_h o_s o_t h_w table]. split.
    - transitivity (map (nth_error (ic_values (ops_a p))) (seq 0 (length (ic_values (ops_a p))))).
      + apply map_ext_in. intros i Hi. apply in_seq in Hi. apply nth_error_app1. lia.
      + apply map_some_nth_error.
    - transitivity (map (nth_error (ic_values (ops_b p))) (seq 0 (length (ic_values (ops_b p))))).
      + rewrite (seq_shiftl (length (ic_values (ops_b p))) (length (ic_values (ops_a p)))).
        unfold shiftl. rewrite map_map. apply map_ext. intros i.
        rewrite nth_error_app2 by lia. f_equal. lia.
      + apply map_some_nth_error.
  Qed.

  Lemma concat_map_flat_map {X Y} (G : X -> list Y) (ls : list (list X)) :
    concat (map (flat_map G) ls) = flat_map G (concat ls).
  Proof.
    induction ls as [|l ls IH]; [reflexivity|]. cbn [map concat]. rewrite IH, flat_map_app. reflexivity.
  Qed.

  Lemma zip_app_length {X} (la lb : list (list X)) : length la = length lb ->
    length (zip_app la lb) = length la.
  Proof. intros H. unfold zip_app. rewrite map_length, combine_length. lia. Qed.

  Theorem free_optic_contract : optic_contract_for free_optic F R.
  Proof.
    split.
    - intros a. eexists. split; [reflexivity|]. split; [apply wf_ic_of_blocks|apply decode_ic_of_blocks].
    - intros a. eexists. split; [reflexivity|]. split; [apply wf_ic_of_blocks|apply decode_ic_of_blocks].
    - intros ops _. eexists. split; [reflexivity|]. split; [apply wf_ic_of_blocks|].
      unfold free_residual. rewrite len_ic_of_blocks. apply map_length.
    - intros ops m (Wa & Wb & La & Lb) Hm. cbn [free_optic op_residual] in Hm. injection Hm as <-.
      cbn [free_optic op_fwd sf_map_operations].
      destruct (@tops_pure_typed (free_fwd_ops ops)) as (t & Ht & Tt);
        cbn [free_fwd_ops ops_a ops_b ops_x]; try apply wf_ic_of_blocks.
      + rewrite len_ic_of_blocks, map_length, decode_s_length. exact La.
      + rewrite len_ic_of_blocks, zip_app_length; rewrite map_length, !decode_s_length;
          [exact Lb|]. unfold free_residual. rewrite len_ic_of_blocks, map_length. exact Lb.
      + exists t. split; [exact Ht|].
        cbn [free_fwd_ops ops_a ops_b ic_of_blocks ic_values] in Tt.
        rewrite concat_map_flat_map, (concat_decode_s Wa) in Tt. exact Tt.
    - intros ops m (Wa & Wb & La & Lb) Hm. cbn [free_optic op_residual] in Hm. injection Hm as <-.
      cbn [free_optic op_rev sf_map_operations].
      destruct (@tops_pure_typed (free_rev_ops ops)) as (t & Ht & Tt);
        cbn [free_rev_ops ops_a ops_b ops_x]; try apply wf_ic_of_blocks.
      + rewrite len_ic_of_blocks, zip_app_length; rewrite ?map_length, !decode_s_length;
          unfold free_residual; rewrite len_ic_of_blocks, map_length; [reflexivity|]. symmetry. exact Lb.
      + rewrite len_ic_of_blocks, map_length, decode_s_length. exact La.
      + exists t. split; [exact Ht|].
        cbn [free_rev_ops ops_a ops_b ic_of_blocks ic_values] in Tt.
        rewrite concat_map_flat_map, (concat_decode_s Wa) in Tt. exact Tt.
  Qed.

  Corollary free_optic_has_contract : optic_contract free_optic.
  Proof. exists F, R. exact free_optic_contract. Qed.
End FreeOptic.

(* ======================= examples (VecBackend, by computation) ======================= *)
From OHG Require Import Proofs.BackendInst.

(* F o = [o], R o = [o; o], one residual object 9 per operation *)
Definition ex14b_F (o : nat) : list nat := [o].
Definition ex14b_R (o : nat) : list nat := [o; o].
Definition ex14b_M (_ : nat) : list nat := [9].
Definition ex14b_P : optic nat nat nat nat := free_optic ex14b_F ex14b_R ex14b_M.

(* two operations 100 : [1;2] -> [4] and 101 : [3] -> [] *)
Definition ex14b_ops : operations nat nat :=
  mkOps [100; 101] (mkIC (mkFF [2; 1] 4) [1; 2; 3]) (mkIC (mkFF [1; 0] 2) [4]).

(* one operation 7 : [1;2] -> [3], as a diagram of type [1;2] -> [3] *)
Definition ex14b_f : ohg nat nat :=
  mkOHG (mkFF [0; 1] 3) (mkFF [2] 3)
        (mkHG (mkIC (mkFF [2] 3) (mkFF [0; 1] 3)) (mkIC (mkFF [1] 2) (mkFF [2] 3)) [1; 2; 3] [7]).

Example ex14b_contract : optic_contract ex14b_P.
Proof. apply free_optic_has_contract. Qed.

Example ex14b_wf_ops : wf_ops ex14b_ops.
Proof. repeat split. Qed.

Example ex14b_wf_f : wf_ohg ex14b_f.
Proof. repeat split; try reflexivity; repeat constructor. Qed.

(* the components answer as the contract says *)
Example ex14b_components :
  sf_map_object (op_fwd ex14b_P) [1; 2; 3] = Ok (mkIC (mkFF [1; 1; 1] 4) [1; 2; 3]) /\
  sf_map_object (op_rev ex14b_P) [1; 2; 3] = Ok (mkIC (mkFF [2; 2; 2] 7) [1; 1; 2; 2; 3; 3]) /\
  op_residual ex14b_P ex14b_ops = Ok (mkIC (mkFF [1; 1] 3) [9; 9]) /\
  (* fwd : F[1;2;3] -> (F[4] ++ [9]) ++ (F[] ++ [9]) *)
  (r <- sf_map_operations (op_fwd ex14b_P) ex14b_ops ;; s <- ohg_source r ;; t <- ohg_target r ;; Ok (s, t))
    = Ok ([1; 2; 3], [4; 9; 9]) /\
  (* rev : ([9] ++ R[4]) ++ ([9] ++ R[]) -> R[1;2;3] *)
  (r <- sf_map_operations (op_rev ex14b_P) ex14b_ops ;; s <- ohg_source r ;; t <- ohg_target r ;; Ok (s, t))
    = Ok ([9; 4; 4; 9], [1; 1; 2; 2; 3; 3]).
Proof. vm_compute. repeat split. Qed.

(* map_operations: defined, of type interleave(F a, R a) -> interleave(F b, R b) *)
Example C14_map_operations_ex :
  optic_map_object ex14b_P [1; 2; 3] = Ok (mkIC (mkFF [3; 3; 3] 10) [1; 1; 1; 2; 2; 2; 3; 3; 3]) /\
  optic_map_object ex14b_P [4] = Ok (mkIC (mkFF [3] 4) [4; 4; 4]) /\
  exists c, optic_map_operations VecBackend Nat.eqb ex14b_P ex14b_ops = Ok c /\
    h_x (o_h c) = [100; 101; 100; 101] /\
    ohg_source c = Ok [1; 1; 1; 2; 2; 2; 3; 3; 3] /\ ohg_target c = Ok [4; 4; 4].
Proof. split; [reflexivity|]. split; [reflexivity|]. eexists. split; [vm_compute; reflexivity|]. repeat split. Qed.

(* map_arrow and adapt on the diagram 7 : [1;2] -> [3] *)
Example C14_type_ex :
  exists h d, optic_map_arrow VecBackend Nat.eqb ex14b_P ex14b_f = Ok h /\
    ohg_source h = Ok [1; 1; 1; 2; 2; 2] /\ ohg_target h = Ok [3; 3; 3] /\
    optic_adapt VecBackend Nat.eqb ex14b_P h [1; 2] [3] = Ok d /\
    (* F[1;2] ++ R[3]  ->  F[3] ++ R[1;2] *)
    ohg_source d = Ok ([1; 2] ++ [3; 3]) /\ ohg_target d = Ok ([3] ++ [1; 1; 2; 2]).
Proof.
  eexists. eexists. split; [vm_compute; reflexivity|]. split; [reflexivity|]. split; [reflexivity|].
  split; [vm_compute; reflexivity|]. split; reflexivity.
Qed.

(* the theorems instantiated *)
Example C14_map_operations_defined_typed_ex :
  exists c oa ob, optic_map_operations VecBackend Nat.eqb ex14b_P ex14b_ops = Ok c /\ wf_ohg c /\
    optic_map_object ex14b_P [1; 2; 3] = Ok oa /\ optic_map_object ex14b_P [4] = Ok ob /\
    src_type (abs c) = map Some (ic_values oa) /\ tgt_type (abs c) = map Some (ic_values ob).
Proof.
  exact (C14_map_operations_defined_typed VecBackend_ok Nat.eqb Nat.eqb_eq ex14b_contract ex14b_wf_ops).
Qed.

Example C14_adapted_type_ex :
  exists h d fa fb ra rb,
    optic_map_arrow VecBackend Nat.eqb ex14b_P ex14b_f = Ok h /\
    optic_adapt VecBackend Nat.eqb ex14b_P h [1; 2] [3] = Ok d /\
    sf_map_object (op_fwd ex14b_P) [1; 2] = Ok fa /\ sf_map_object (op_fwd ex14b_P) [3] = Ok fb /\
    sf_map_object (op_rev ex14b_P) [1; 2] = Ok ra /\ sf_map_object (op_rev ex14b_P) [3] = Ok rb /\
    wf_ohg h /\ wf_ohg d /\
    src_type (abs d) = map Some (ic_values fa ++ ic_values rb) /\
    tgt_type (abs d) = map Some (ic_values fb ++ ic_values ra).
Proof.
  exact (C14_adapted_type VecBackend_ok Nat.eqb Nat.eqb_eq [1; 2] [3] ex14b_contract ex14b_wf_f eq_refl eq_refl).
Qed.

(* the contract is needed: a residual with the wrong number of blocks makes map_operations panic
   (interleave_blocks: "Can't interleave types of unequal lengths") *)
Definition ex14b_bad : optic nat nat nat nat :=
  mkOptic (op_fwd ex14b_P) (op_rev ex14b_P) (fun _ => Ok (mkIC (mkFF [1] 2) [9])).

Example C14_contract_needed :
  optic_map_operations VecBackend Nat.eqb ex14b_bad ex14b_ops = Panic.
Proof. vm_compute. reflexivity. Qed.

Print Assumptions C14_map_operations_defined_typed.
Print Assumptions C14_type.
Print Assumptions C14_adapt_type.
Print Assumptions C14_adapted_type.
Print Assumptions free_optic_contract.
Print Assumptions C14_adapted_type_ex.
