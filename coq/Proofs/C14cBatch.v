(* C14c, plain level: the optic image of a batch of operations is the disjoint union of the forward and
   the reverse batch in which the residual wires are identified.
   - block lists: de-interleaving ([unz1], [unz2]) and selection along an interleaving table;
   - the expected diagram [batch_pre] / [batch_pairs] / [expected_batch], [IsBatch];
   - the gluing step [glue_step]: (fwd' (x) id) ; (id (x) rev') is glued from fwd' + rev' along M;
   - monoidality of [IsBatch] on concatenated batches. *)
From OHG Require Import Spec.Plain Proofs.PrimsThm Proofs.CCThm Proofs.C01Lemmas Proofs.QuotThm
  Proofs.C03Plain Proofs.C12Plain Proofs.C14Thm Proofs.C14cPlain.

Set Implicit Arguments.
Arguments Nat.sub : simpl never.

(* ======================= block lists ======================= *)
Lemma lsum_cons k r : list_sum (k :: r) = k + list_sum r.
Proof. reflexivity. Qed.

(* l = (A_0 ++ B_0) ++ (A_1 ++ B_1) ++ ... with |A_i| = sa_i, |B_i| = sb_i:
   unz1 = A_0 ++ A_1 ++ ..., unz2 = B_0 ++ B_1 ++ ... *)
Fixpoint unz1 {X} (sa sb : list nat) (l : list X) : list X :=
  match sa, sb with
  | a :: sa', b :: sb' => firstn a l ++ unz1 sa' sb' (skipn (a + b) l)
  | _, _ => []
  end.

Fixpoint unz2 {X} (sa sb : list nat) (l : list X) : list X :=
  match sa, sb with
  | a :: sa', b :: sb' => firstn b (skipn a l) ++ unz2 sa' sb' (skipn (a + b) l)
  | _, _ => []
  end.

Lemma unz1_length {X} sa : forall sb (l : list X), length sa = length sb ->
  length l = list_sum sa + list_sum sb -> length (unz1 sa sb l) = list_sum sa.
Proof.
  induction sa as [|a sa IH]; intros [|b sb] l Hl Hs; cbn [length] in Hl; try discriminate; [reflexivity|].
  cbn [unz1] in *. rewrite !lsum_cons in *. rewrite app_length, firstn_length, IH; [lia|lia|rewrite skipn_length; lia].
Qed.

Lemma unz2_length {X} sa : forall sb (l : list X), length sa = length sb ->
  length l = list_sum sa + list_sum sb -> length (unz2 sa sb l) = list_sum sb.
Proof.
  induction sa as [|a sa IH]; intros [|b sb] l Hl Hs; cbn [length] in Hl; try discriminate; [reflexivity|].
  cbn [unz2] in *. rewrite !lsum_cons in *. rewrite app_length, firstn_length, skipn_length, IH;
    [lia|lia|rewrite skipn_length; lia].
Qed.

Lemma unz1_map {X Y} (f : X -> Y) sa : forall sb l, unz1 sa sb (map f l) = map f (unz1 sa sb l).
Proof.
  induction sa as [|a sa IH]; intros [|b sb] l; try reflexivity.
  cbn [unz1]. rewrite map_app, firstn_map, skipn_map, IH. reflexivity.
Qed.

Lemma unz2_map {X Y} (f : X -> Y) sa : forall sb l, unz2 sa sb (map f l) = map f (unz2 sa sb l).
Proof.
  induction sa as [|a sa IH]; intros [|b sb] l; try reflexivity.
  cbn [unz2]. rewrite map_app, !skipn_map, firstn_map, IH. reflexivity.
Qed.

Lemma unz1_Forall {X} (Q : X -> Prop) sa : forall sb l, Forall Q l -> Forall Q (unz1 sa sb l).
Proof.
  induction sa as [|a sa IH]; intros [|b sb] l H; cbn [unz1]; try constructor.
  apply Forall_app. split; [apply Forall_firstn; exact H|]. apply IH. apply Forall_skipn. exact H.
Qed.

Lemma unz2_Forall {X} (Q : X -> Prop) sa : forall sb l, Forall Q l -> Forall Q (unz2 sa sb l).
Proof.
  induction sa as [|a sa IH]; intros [|b sb] l H; cbn [unz2]; try constructor.
  apply Forall_app. split; [apply Forall_firstn; apply Forall_skipn; exact H|].
  apply IH. apply Forall_skipn. exact H.
Qed.

Lemma segs_cons_app {X} a sa (u v : list X) : length u = a -> segs (a :: sa) (u ++ v) = u :: segs sa v.
Proof.
  intros <-. cbn [segs]. rewrite firstn_app, Nat.sub_diag, firstn_all, skipn_app, Nat.sub_diag, skipn_all.
  cbn [firstn skipn app]. rewrite app_nil_r. reflexivity.
Qed.

(* re-interleaving the two halves gives the list back *)
Lemma rezip {X} sa : forall sb (l : list X), length sa = length sb ->
  length l = list_sum sa + list_sum sb ->
  concat (zip_app (segs sa (unz1 sa sb l)) (segs sb (unz2 sa sb l))) = l.
Proof.
  induction sa as [|a sa IH]; intros [|b sb] l Hl Hs; cbn [length] in Hl; try discriminate.
  - cbn in Hs. destruct l; [reflexivity|discriminate].
  - cbn [unz1 unz2] in *. rewrite !lsum_cons in *.
    rewrite !segs_cons_app by (rewrite firstn_length, ?skipn_length; lia).
    unfold zip_app in *. cbn [combine map concat fst snd].
    rewrite IH by (try lia; rewrite skipn_length; lia).
    rewrite <- SegThm.firstn_add, (Nat.add_comm a b), <- (Nat.add_comm a b). apply firstn_skipn.
Qed.

(* the two halves of an interleaving *)
Lemma unz1_zip {X} (la : list (list X)) : forall lb, length la = length lb ->
  unz1 (map (@length X) la) (map (@length X) lb) (concat (zip_app la lb)) = concat la.
Proof.
  unfold zip_app. induction la as [|x la IH]; intros [|y lb] H; cbn [length] in H; try discriminate; [reflexivity|].
  cbn [map combine concat fst snd unz1]. rewrite <- app_assoc.
  rewrite firstn_app, Nat.sub_diag, firstn_all. cbn [firstn]. rewrite app_nil_r. f_equal.
  rewrite app_assoc, <- app_length, skipn_app, Nat.sub_diag, skipn_all. cbn [skipn app].
  apply IH. lia.
Qed.

Lemma unz2_zip {X} (la : list (list X)) : forall lb, length la = length lb ->
  unz2 (map (@length X) la) (map (@length X) lb) (concat (zip_app la lb)) = concat lb.
Proof.
  unfold zip_app. induction la as [|x la IH]; intros [|y lb] H; cbn [length] in H; try discriminate; [reflexivity|].
  cbn [map combine concat fst snd unz2]. rewrite <- app_assoc.
  rewrite skipn_app, Nat.sub_diag, skipn_all. cbn [skipn app].
  rewrite firstn_app, Nat.sub_diag, firstn_all. cbn [firstn]. rewrite app_nil_r. f_equal.
  rewrite app_assoc, <- app_length, skipn_app, Nat.sub_diag, skipn_all. cbn [skipn app].
  apply IH. lia.
Qed.

Lemma unz1_app {X} sa1 : forall sb1 sa2 sb2 (l1 l2 : list X), length sa1 = length sb1 ->
  length l1 = list_sum sa1 + list_sum sb1 ->
  unz1 (sa1 ++ sa2) (sb1 ++ sb2) (l1 ++ l2) = unz1 sa1 sb1 l1 ++ unz1 sa2 sb2 l2.
Proof.
  induction sa1 as [|a sa1 IH]; intros [|b sb1] sa2 sb2 l1 l2 Hl Hs; cbn [length] in Hl; try discriminate.
  - cbn in Hs. destruct l1; [reflexivity|discriminate].
  - cbn [app unz1] in *. rewrite !lsum_cons in *. rewrite firstn_app, skipn_app.
    replace (a - length l1) with 0 by lia. replace (a + b - length l1) with 0 by lia.
    cbn [firstn skipn]. rewrite app_nil_r, <- app_assoc. f_equal.
    apply IH; [lia|rewrite skipn_length; lia].
Qed.

Lemma unz2_app {X} sa1 : forall sb1 sa2 sb2 (l1 l2 : list X), length sa1 = length sb1 ->
  length l1 = list_sum sa1 + list_sum sb1 ->
  unz2 (sa1 ++ sa2) (sb1 ++ sb2) (l1 ++ l2) = unz2 sa1 sb1 l1 ++ unz2 sa2 sb2 l2.
Proof.
  induction sa1 as [|a sa1 IH]; intros [|b sb1] sa2 sb2 l1 l2 Hl Hs; cbn [length] in Hl; try discriminate.
  - cbn in Hs. destruct l1; [reflexivity|discriminate].
  - cbn [app unz2] in *. rewrite !lsum_cons in *. rewrite !skipn_app, firstn_app, skipn_length.
    replace (a - length l1) with 0 by lia. replace (a + b - length l1) with 0 by lia.
    replace (b - (length l1 - a)) with 0 by lia.
    cbn [firstn skipn]. rewrite app_nil_r, <- app_assoc. f_equal.
    apply IH; [lia|rewrite skipn_length; lia].
Qed.

(* one block *)
Lemma unz1_one {X} a b (l : list X) : unz1 [a] [b] l = firstn a l.
Proof. cbn [unz1]. apply app_nil_r. Qed.
Lemma unz2_one {X} a b (l : list X) : unz2 [a] [b] l = firstn b (skipn a l).
Proof. cbn [unz2]. apply app_nil_r. Qed.

Lemma map_zip_app {X Y} (f : X -> Y) (la : list (list X)) : forall lb,
  map (map f) (zip_app la lb) = zip_app (map (map f) la) (map (map f) lb).
Proof.
  unfold zip_app. induction la as [|x la IH]; intros [|y lb]; try reflexivity.
  cbn [combine map fst snd]. rewrite map_app, IH. reflexivity.
Qed.

Lemma zip_app_app {X} (la1 : list (list X)) : forall lb1 la2 lb2, length la1 = length lb1 ->
  zip_app (la1 ++ la2) (lb1 ++ lb2) = zip_app la1 lb1 ++ zip_app la2 lb2.
Proof.
  unfold zip_app. intros lb1 la2 lb2 H. rewrite combine_app_eq by exact H. apply map_app.
Qed.

(* selecting along an interleaving table interleaves the blocks *)
Lemma sel_blocks (sa sb : list nat) (X Y : list nat) :
  map (fun i => nth i (X ++ Y) 0)
      (concat (zip_app (segs sa (seq 0 (length X))) (segs sb (seq (length X) (length Y)))))
  = concat (zip_app (segs sa X) (segs sb Y)).
Proof.
  rewrite concat_map, map_zip_app, <- !SegThm.segs_map.
  rewrite map_nth_app_l, map_nth_app_r by reflexivity. reflexivity.
Qed.

(* ======================= the gluing step ======================= *)
Section GlueStep.
  Variables O A : Type.
  Implicit Types h c : pohg O A.

  Section Core.
    Variables (Wf Wr wRB wFB : list O) (ef er : list (pedge A)).
    Variables (insf FBo Mo Mi RBi outsr : list nat).
    Let nf := length Wf.
    Let nr := length Wr.
    Let a := length wRB.
    Let b := length wFB.
    Hypothesis Hef : forall e, In e ef -> all_lt nf (pe_src e) /\ all_lt nf (pe_tgt e).
    Hypothesis Hinsf : all_lt nf insf.
    Hypothesis HFBo : all_lt nf FBo.
    Hypothesis HMo : all_lt nf Mo.
    Hypothesis HMi : all_lt nr Mi.
    Hypothesis HRBi : all_lt nr RBi.
    Hypothesis LFB : length FBo = b.
    Hypothesis LRB : length RBi = a.
    Hypothesis LM : length Mo = length Mi.

    Definition rc_s (i : nat) : nat := if i <? nf then i else i + (a + b).
    Definition rc_r (x : nat) : nat :=
      if x <? nf then x
      else if x <? nf + a then nf + nth (x - nf) RBi 0
      else if x <? nf + a + b then nth (x - (nf + a)) FBo 0
      else x - (a + b).

    Definition rc_D3 : pohg O A :=
      mkP (Wf ++ wRB ++ wFB ++ Wr) (ef ++ map (shift_edge (nf + a + b)) er)
          (insf ++ seq nf a) (seq (nf + a) b ++ shiftl (nf + a + b) outsr).
    Definition rc_P3 : list (nat * nat) :=
      combine FBo (seq (nf + a) b) ++ combine Mo (shiftl (nf + a + b) Mi) ++
      combine (seq nf a) (shiftl (nf + a + b) RBi).
    Definition rc_D : pohg O A :=
      mkP (Wf ++ Wr) (ef ++ map (shift_edge nf) er) (insf ++ shiftl nf RBi) (FBo ++ shiftl nf outsr).
    Definition rc_P : list (nat * nat) := combine Mo (shiftl nf Mi).

    Lemma rc_s_lo i : i < nf -> rc_s i = i.
    Proof. intros H. unfold rc_s. apply Nat.ltb_lt in H. rewrite H. reflexivity. Qed.
    Lemma rc_s_hi i : nf <= i -> rc_s i = i + (a + b).
    Proof. intros H. unfold rc_s. destruct (i <? nf) eqn:E; [apply Nat.ltb_lt in E; lia|reflexivity]. Qed.
    Lemma rc_r1 x : x < nf -> rc_r x = x.
    Proof. intros H. unfold rc_r. apply Nat.ltb_lt in H. rewrite H. reflexivity. Qed.
    Lemma rc_r2 k : k < a -> rc_r (nf + k) = nf + nth k RBi 0.
    Proof.
      intros H. unfold rc_r. destruct (nf + k <? nf) eqn:E1; [apply Nat.ltb_lt in E1; lia|].
      destruct (nf + k <? nf + a) eqn:E2; [|apply Nat.ltb_ge in E2; lia].
      replace (nf + k - nf) with k by lia. reflexivity.
    Qed.
    Lemma rc_r3 k : k < b -> rc_r (nf + a + k) = nth k FBo 0.
    Proof.
      intros H. unfold rc_r. destruct (nf + a + k <? nf) eqn:E1; [apply Nat.ltb_lt in E1; lia|].
      destruct (nf + a + k <? nf + a) eqn:E2; [apply Nat.ltb_lt in E2; lia|].
      destruct (nf + a + k <? nf + a + b) eqn:E3; [|apply Nat.ltb_ge in E3; lia].
      replace (nf + a + k - (nf + a)) with k by lia. reflexivity.
    Qed.
    Lemma rc_r4 x : nf + a + b <= x -> rc_r x = x - (a + b).
    Proof.
      intros H. unfold rc_r. destruct (x <? nf) eqn:E1; [apply Nat.ltb_lt in E1; lia|].
      destruct (x <? nf + a) eqn:E2; [apply Nat.ltb_lt in E2; lia|].
      destruct (x <? nf + a + b) eqn:E3; [apply Nat.ltb_lt in E3; lia|]. reflexivity.
    Qed.

    Lemma nth_lt_of n l k : all_lt n l -> k < length l -> nth k l 0 < n.
    Proof. intros H Hk. eapply all_lt_In; [exact H|]. apply nth_In. exact Hk. Qed.

    (* the three families of pairs of P3 *)
    Lemma rc_P3_in x y : In (x, y) rc_P3 ->
      (exists k, k < b /\ x = nth k FBo 0 /\ y = nf + a + k) \/
      (exists k, k < length Mo /\ x = nth k Mo 0 /\ y = nth k Mi 0 + (nf + a + b)) \/
      (exists k, k < a /\ x = nf + k /\ y = nth k RBi 0 + (nf + a + b)).
    Proof.
      unfold rc_P3. intros H. apply in_app_or in H. destruct H as [H|H]; [|apply in_app_or in H; destruct H as [H|H]].
      - left. apply in_combine_nth in H. destruct H as (k & H1 & H2 & -> & ->).
        rewrite seq_length in H2. exists k. rewrite seq_nth by exact H2. auto.
      - right; left. apply in_combine_nth in H. destruct H as (k & H1 & H2 & -> & ->).
        rewrite shiftl_length in H2. exists k. rewrite nth_shiftl by exact H2. auto.
      - right; right. apply in_combine_nth in H. destruct H as (k & H1 & H2 & -> & ->).
        rewrite seq_length in H1. rewrite shiftl_length in H2. exists k.
        rewrite seq_nth by exact H1. rewrite nth_shiftl by exact H2. auto.
    Qed.

    Lemma rc_P3_fb k : k < b -> In (nth k FBo 0, nf + a + k) rc_P3.
    Proof.
      intros H. unfold rc_P3. apply in_or_app. left.
      rewrite <- (seq_nth (nf + a) 0 H). apply nth_in_combine; [lia|rewrite seq_length; exact H].
    Qed.
    Lemma rc_P3_m k : k < length Mo -> In (nth k Mo 0, nth k Mi 0 + (nf + a + b)) rc_P3.
    Proof.
      intros H. unfold rc_P3. apply in_or_app. right. apply in_or_app. left.
      rewrite <- nth_shiftl by lia. apply nth_in_combine; [exact H|rewrite shiftl_length; lia].
    Qed.
    Lemma rc_P3_rb k : k < a -> In (nf + k, nth k RBi 0 + (nf + a + b)) rc_P3.
    Proof.
      intros H. unfold rc_P3. apply in_or_app. right. apply in_or_app. right.
      rewrite <- nth_shiftl by lia. rewrite <- (seq_nth nf 0 H) at 1.
      apply nth_in_combine; [rewrite seq_length; exact H|rewrite shiftl_length; lia].
    Qed.

    Theorem retract_core q3 h : IsQuot rc_D3 q3 h -> KerIs (nf + a + b + nr) q3 rc_P3 ->
      IsQuot rc_D (fun i => q3 (rc_s i)) h /\ KerIs (nf + nr) (fun i => q3 (rc_s i)) rc_P.
    Proof.
      intros Q3 K3.
      assert (L3 : length (p_nodes rc_D3) = nf + a + b + nr).
      { unfold rc_D3. cbn [p_nodes]. rewrite !app_length. fold nf a b nr. lia. }
      assert (LD : length (p_nodes rc_D) = nf + nr).
      { unfold rc_D. cbn [p_nodes]. rewrite app_length. reflexivity. }
      (* q3 identifies what P3 pairs *)
      assert (Kfb : forall k, k < b -> q3 (nf + a + k) = q3 (nth k FBo 0)).
      { intros k Hk. symmetry. apply K3; [pose proof (@nth_lt_of _ _ k HFBo); lia|lia|].
        apply conn_step. apply rc_P3_fb. exact Hk. }
      assert (Krb : forall k, k < a -> q3 (nf + k) = q3 (nth k RBi 0 + (nf + a + b))).
      { intros k Hk. apply K3; [lia|pose proof (@nth_lt_of _ _ k HRBi); lia|].
        apply conn_step. apply rc_P3_rb. exact Hk. }
      unfold KerIs. rewrite <- LD.
      apply (@quot_retract O A rc_D3 rc_D h q3 rc_P3 rc_P rc_s rc_r).
      - exact Q3.
      - rewrite L3. exact K3.
      - rewrite L3, LD. intros i Hi. destruct (lt_dec i nf) as [Lt|Lt].
        + rewrite rc_s_lo by exact Lt. lia.
        + rewrite rc_s_hi by lia. lia.
      - rewrite L3, LD. intros x Hx. destruct (lt_dec x nf) as [L1|L1]; [rewrite rc_r1 by exact L1; lia|].
        destruct (lt_dec x (nf + a)) as [L2|L2].
        { replace x with (nf + (x - nf)) by lia. rewrite rc_r2 by lia.
          pose proof (@nth_lt_of _ _ (x - nf) HRBi). lia. }
        destruct (lt_dec x (nf + a + b)) as [L3'|L3'].
        { replace x with (nf + a + (x - (nf + a))) by lia. rewrite rc_r3 by lia.
          pose proof (@nth_lt_of _ _ (x - (nf + a)) HFBo). lia. }
        rewrite rc_r4 by lia. lia.
      - rewrite LD. intros i Hi. destruct (lt_dec i nf) as [Lt|Lt].
        + rewrite rc_s_lo, rc_r1 by exact Lt. reflexivity.
        + rewrite rc_s_hi by lia. rewrite rc_r4 by lia. lia.
      - rewrite L3. intros x Hx. destruct (lt_dec x nf) as [L1|L1].
        { rewrite rc_r1, rc_s_lo by exact L1. apply conn_refl. }
        destruct (lt_dec x (nf + a)) as [L2|L2].
        { replace x with (nf + (x - nf)) by lia. rewrite rc_r2 by lia. rewrite rc_s_hi by lia.
          apply conn_step. replace (nf + nth (x - nf) RBi 0 + (a + b)) with (nth (x - nf) RBi 0 + (nf + a + b)) by lia.
          apply rc_P3_rb. lia. }
        destruct (lt_dec x (nf + a + b)) as [L3'|L3'].
        { replace x with (nf + a + (x - (nf + a))) by lia. rewrite rc_r3 by lia.
          rewrite rc_s_lo by (apply nth_lt_of; [exact HFBo|lia]).
          apply conn_sym. apply conn_step. apply rc_P3_fb. lia. }
        rewrite rc_r4 by lia. rewrite rc_s_hi by lia. replace (x - (a + b) + (a + b)) with x by lia.
        apply conn_refl.
      - intros x y Hin. apply rc_P3_in in Hin.
        destruct Hin as [(k & Hk & -> & ->)|[(k & Hk & -> & ->)|(k & Hk & -> & ->)]].
        + rewrite rc_r3 by exact Hk. rewrite rc_r1 by (apply nth_lt_of; [exact HFBo|lia]). apply conn_refl.
        + rewrite rc_r1 by (apply nth_lt_of; [exact HMo|lia]). rewrite rc_r4 by lia.
          apply conn_step. unfold rc_P.
          replace (nth k Mi 0 + (nf + a + b) - (a + b)) with (nth k Mi 0 + nf) by lia.
          rewrite <- nth_shiftl by lia. apply nth_in_combine; [exact Hk|rewrite shiftl_length; lia].
        + rewrite rc_r2 by exact Hk. rewrite rc_r4 by lia.
          replace (nth k RBi 0 + (nf + a + b) - (a + b)) with (nf + nth k RBi 0) by lia. apply conn_refl.
      - intros x y Hin. unfold rc_P in Hin. apply in_combine_nth in Hin.
        destruct Hin as (k & H1 & H2 & -> & ->). rewrite shiftl_length in H2.
        rewrite nth_shiftl by exact H2.
        rewrite rc_s_lo by (apply nth_lt_of; [exact HMo|lia]). rewrite rc_s_hi by lia.
        apply conn_step. replace (nth k Mi 0 + nf + (a + b)) with (nth k Mi 0 + (nf + a + b)) by lia.
        apply rc_P3_m. exact H1.
      - rewrite LD. intros i Hi. unfold rc_D3, rc_D. cbn [p_nodes].
        destruct (lt_dec i nf) as [Lt|Lt].
        + rewrite rc_s_lo by exact Lt. rewrite !nth_error_app1 by exact Lt. reflexivity.
        + rewrite rc_s_hi by lia. rewrite !nth_error_app2 by (fold nf a b; lia). fold nf a b.
          f_equal. lia.
      - unfold rc_D3, rc_D. cbn [p_edges]. rewrite !map_app, !map_map. f_equal.
        + apply map_ext_in. intros e He. destruct (Hef e He) as [H1 H2].
          apply map_edge_ext_lt with nf; auto. intros x Hx. rewrite rc_s_lo by exact Hx. reflexivity.
        + apply map_ext. intros e. unfold map_edge, shift_edge, shiftl. cbn [pe_lbl pe_src pe_tgt].
          rewrite !map_map. f_equal; apply map_ext; intros x; rewrite rc_s_hi by lia; f_equal; lia.
      - unfold rc_D3, rc_D. cbn [p_ins]. rewrite !map_app. f_equal.
        + apply map_ext_in. intros x Hx. rewrite rc_s_lo; [reflexivity|]. eapply all_lt_In; [exact Hinsf|exact Hx].
        + apply nth_ext with 0 0; [rewrite !map_length, seq_length, shiftl_length; lia|].
          intros k Hk. rewrite map_length, seq_length in Hk.
          rewrite !nth_map_gen by (rewrite ?seq_length, ?shiftl_length; lia).
          rewrite seq_nth by exact Hk. rewrite nth_shiftl by lia. rewrite rc_s_hi by lia.
          rewrite Krb by exact Hk. f_equal. lia.
      - unfold rc_D3, rc_D. cbn [p_outs]. rewrite !map_app. f_equal.
        + apply nth_ext with 0 0; [rewrite !map_length, seq_length; lia|].
          intros k Hk. rewrite map_length, seq_length in Hk.
          rewrite !nth_map_gen by (rewrite ?seq_length; lia).
          rewrite seq_nth by exact Hk. rewrite Kfb by exact Hk.
          rewrite rc_s_lo by (apply nth_lt_of; [exact HFBo|lia]). reflexivity.
        + unfold shiftl. rewrite !map_map. apply map_ext. intros x. rewrite rc_s_hi by lia. f_equal. lia.
    Qed.
  End Core.
End GlueStep.

Section Step.
  Variables O A : Type.
  Implicit Types h c : pohg O A.
  Variables gf gr : pohg O A.
  Variables FBo Mo Mi RBi : list nat.
  Variables wFB wRB : list O.
  Let nf := length (p_nodes gf).
  Let nr := length (p_nodes gr).
  Hypothesis Wgf : pwf gf.
  Hypothesis Wgr : pwf gr.
  Hypothesis HFBo : all_lt nf FBo.
  Hypothesis HMo : all_lt nf Mo.
  Hypothesis HMi : all_lt nr Mi.
  Hypothesis HRBi : all_lt nr RBi.
  Hypothesis LFB : length FBo = length wFB.
  Hypothesis LRB : length RBi = length wRB.
  Hypothesis LM : length Mo = length Mi.

  (* fwd with its outputs sorted as FB ++ M, rev with its inputs sorted as M ++ RB *)
  Definition gs_L0 : pohg O A := with_io gf (p_ins gf) (FBo ++ Mo).
  Definition gs_R0 : pohg O A := with_io gr (Mi ++ RBi) (p_outs gr).
  (* the disjoint union of the two hypergraphs with given interfaces *)
  Definition batch_union (I Ou : list nat) : pohg O A :=
    mkP (p_nodes gf ++ p_nodes gr) (p_edges gf ++ map (shift_edge nf) (p_edges gr)) I Ou.

  Lemma pwf_gs_L0 : pwf gs_L0.
  Proof. apply pwf_with_io; [exact Wgf|apply Wgf|apply all_lt_app; assumption]. Qed.
  Lemma pwf_gs_R0 : pwf gs_R0.
  Proof. apply pwf_with_io; [exact Wgr|apply all_lt_app; assumption|apply Wgr]. Qed.

  Lemma gs_D3 : pjoin (ptensor gs_L0 (pid A wRB)) (ptensor (pid A wFB) gs_R0)
    = rc_D3 (p_nodes gf) (p_nodes gr) wRB wFB (p_edges gf) (p_edges gr) (p_ins gf) (p_outs gr).
  Proof.
    unfold pjoin, ptensor, pid, pwire, gs_L0, gs_R0, with_io, rc_D3.
    cbn [p_nodes p_edges p_ins p_outs map app]. rewrite app_nil_r, !app_length. f_equal.
    - rewrite <- !app_assoc. reflexivity.
    - f_equal. rewrite map_map. apply map_ext. intros e. rewrite shift_edge_shift_edge. f_equal. lia.
    - f_equal. rewrite shiftl_seq. reflexivity.
    - rewrite shiftl_app, shiftl_seq, shiftl_shiftl. cbn [plus]. f_equal. f_equal. lia.
  Qed.

  Lemma gs_P3 : glue_pairs (ptensor gs_L0 (pid A wRB)) (ptensor (pid A wFB) gs_R0)
    = rc_P3 (p_nodes gf) wRB wFB FBo Mo Mi RBi.
  Proof.
    unfold glue_pairs, ptensor, pid, pwire, gs_L0, gs_R0, with_io, rc_P3.
    cbn [p_nodes p_ins p_outs]. rewrite app_length.
    rewrite !shiftl_app, !shiftl_seq, !shiftl_shiftl. cbn [plus]. rewrite <- !app_assoc.
    rewrite combine_app_eq by (rewrite seq_length; exact LFB).
    rewrite combine_app_eq by (rewrite shiftl_length; exact LM).
    f_equal. f_equal; [f_equal; f_equal; lia|f_equal; f_equal; lia].
  Qed.

  (* Step 3: the only genuine composition.  (fwd' (x) id_RB) ; (id_FB (x) rev') is the disjoint union of
     the two hypergraphs in which the k-th residual output of fwd is identified with the k-th residual
     input of rev, with interfaces FA ++ RB -> FB ++ RA *)
  Theorem glue_step lhs rhs c :
    Glued (ptensor gs_L0 (pid A wRB)) [] lhs -> Glued (ptensor (pid A wFB) gs_R0) [] rhs ->
    IsCompose lhs rhs c ->
    Glued (batch_union (p_ins gf ++ shiftl nf RBi) (FBo ++ shiftl nf (p_outs gr)))
          (combine Mo (shiftl nf Mi)) c.
  Proof.
    intros GL GR C.
    assert (W1 : pwf (ptensor gs_L0 (pid A wRB))) by (apply pwf_ptensor; [apply pwf_gs_L0|apply pwf_pid]).
    assert (W2 : pwf (ptensor (pid A wFB) gs_R0)) by (apply pwf_ptensor; [apply pwf_pid|apply pwf_gs_R0]).
    pose proof (@Glued_compose O A _ _ [] [] lhs rhs c W1 W2 (Forall_nil _) (Forall_nil _) GL GR C) as G.
    cbn [app shift_pairs pmap map] in G. rewrite gs_D3, gs_P3 in G.
    destruct G as (q3 & Q3 & K3).
    assert (L3 : length (p_nodes (rc_D3 (p_nodes gf) (p_nodes gr) wRB wFB (p_edges gf) (p_edges gr)
                                        (p_ins gf) (p_outs gr)))
                 = nf + length wRB + length wFB + nr).
    { unfold rc_D3. cbn [p_nodes]. rewrite !app_length. fold nf nr. lia. }
    rewrite L3 in K3.
    destruct (@retract_core O A (p_nodes gf) (p_nodes gr) wRB wFB (p_edges gf) (p_edges gr)
                (p_ins gf) FBo Mo Mi RBi (p_outs gr) (proj1 Wgf) (proj1 (proj2 Wgf))
                HFBo HMo HRBi LFB LRB LM q3 c Q3 K3) as [Q K].
    exists (fun i => q3 (rc_s (p_nodes gf) wRB wFB i)). split; [exact Q|].
    unfold batch_union. cbn [p_nodes]. rewrite app_length. exact K.
  Qed.
End Step.

(* ======================= the expected diagram ======================= *)
(* block data of a batch: per operation the sizes of F b_i, M_i, R b_i; per object of the source / target
   boundary the sizes of F o and R o *)
Record bdata := mkBD {
  bd_fb : list nat; bd_m : list nat; bd_rb : list nat;
  bd_Fa : list nat; bd_Ra : list nat; bd_Fb : list nat; bd_Rb : list nat }.

Section Batch.
  Variables O A : Type.
  Implicit Types gf gr h c : pohg O A.

  (* outputs of the forward batch: the F b parts and the residual parts; inputs of the reverse batch *)
  Definition b_FBo gf (d : bdata) : list nat := unz1 (bd_fb d) (bd_m d) (p_outs gf).
  Definition b_Mo gf (d : bdata) : list nat := unz2 (bd_fb d) (bd_m d) (p_outs gf).
  Definition b_Mi gr (d : bdata) : list nat := unz1 (bd_m d) (bd_rb d) (p_ins gr).
  Definition b_RBi gr (d : bdata) : list nat := unz2 (bd_m d) (bd_rb d) (p_ins gr).

  (* the disjoint union of fwd and rev; source: for every object o of the source boundary the F o inputs of
     fwd then the R o outputs of rev; target: for every object o of the target boundary the F o outputs of
     fwd then the R o inputs of rev *)
  Definition batch_pre gf gr (d : bdata) : pohg O A :=
    let nf := length (p_nodes gf) in
    batch_union gf gr
      (concat (zip_app (segs (bd_Fa d) (p_ins gf)) (segs (bd_Ra d) (shiftl nf (p_outs gr)))))
      (concat (zip_app (segs (bd_Fb d) (b_FBo gf d)) (segs (bd_Rb d) (shiftl nf (b_RBi gr d))))).

  (* the k-th residual output of fwd is the k-th residual input of rev *)
  Definition batch_pairs gf gr (d : bdata) : list (nat * nat) :=
    combine (b_Mo gf d) (shiftl (length (p_nodes gf)) (b_Mi gr d)).

  Definition IsBatch gf gr (d : bdata) h : Prop := Glued (batch_pre gf gr d) (batch_pairs gf gr d) h.

  Definition expected_batch gf gr (d : bdata) : pohg O A := pquot (batch_pre gf gr d) (batch_pairs gf gr d).

  Definition wf_bdata gf gr (d : bdata) : Prop :=
    length (bd_fb d) = length (bd_m d) /\ length (bd_m d) = length (bd_rb d) /\
    length (p_outs gf) = list_sum (bd_fb d) + list_sum (bd_m d) /\
    length (p_ins gr) = list_sum (bd_m d) + list_sum (bd_rb d) /\
    length (bd_Fa d) = length (bd_Ra d) /\
    list_sum (bd_Fa d) = length (p_ins gf) /\ list_sum (bd_Ra d) = length (p_outs gr) /\
    length (bd_Fb d) = length (bd_Rb d) /\
    list_sum (bd_Fb d) = list_sum (bd_fb d) /\ list_sum (bd_Rb d) = list_sum (bd_rb d).

  Lemma pwf_batch_union gf gr I Ou : pwf gf -> pwf gr ->
    all_lt (length (p_nodes gf) + length (p_nodes gr)) I ->
    all_lt (length (p_nodes gf) + length (p_nodes gr)) Ou -> pwf (batch_union gf gr I Ou).
  Proof.
    intros Wf Wr HI HO. destruct (pwf_pjoin Wf Wr) as (He & _ & _).
    unfold pwf, batch_union. unfold pjoin in He. cbn [p_nodes p_edges p_ins p_outs] in *.
    rewrite app_length in *. split; [exact He|]. split; assumption.
  Qed.

  Lemma all_lt_concat n (ls : list (list nat)) : (forall l, In l ls -> all_lt n l) -> all_lt n (concat ls).
  Proof.
    intros H. unfold all_lt. apply Forall_concat. apply Forall_forall. exact H.
  Qed.

  Lemma all_lt_interleave n sa sb (X Y : list nat) : all_lt n X -> all_lt n Y ->
    all_lt n (concat (zip_app (segs sa X) (segs sb Y))).
  Proof.
    intros HX HY. apply all_lt_concat. intros l Hl. unfold zip_app in Hl.
    apply in_map_iff in Hl. destruct Hl as ([u v] & <- & Hin). cbn [fst snd].
    pose proof (in_combine_l _ _ _ _ Hin) as Hu. pose proof (in_combine_r _ _ _ _ Hin) as Hv.
    apply all_lt_app; apply Forall_forall; intros x Hx.
    - eapply all_lt_In; [exact HX|]. exact (@segs_incl _ _ _ _ Hu x Hx).
    - eapply all_lt_In; [exact HY|]. exact (@segs_incl _ _ _ _ Hv x Hx).
  Qed.

  Lemma pwf_batch_pre gf gr d : pwf gf -> pwf gr -> pwf (batch_pre gf gr d).
  Proof.
    intros Wf Wr. pose proof Wf as (_ & Wfi & Wfo). pose proof Wr as (_ & Wri & Wro).
    apply pwf_batch_union; try assumption; apply all_lt_interleave.
    - eapply all_lt_mono; [|exact Wfi]. lia.
    - apply all_lt_shiftl. exact Wro.
    - eapply all_lt_mono; [|apply unz1_Forall; exact Wfo]. lia.
    - apply all_lt_shiftl. apply unz2_Forall. exact Wri.
  Qed.

  Lemma batch_pairs_lt gf gr d : pwf gf -> pwf gr ->
    pairs_lt (length (p_nodes (batch_pre gf gr d))) (batch_pairs gf gr d).
  Proof.
    intros (_ & _ & Wfo) (_ & Wri & _). unfold batch_pre, batch_union, batch_pairs. cbn [p_nodes].
    rewrite app_length. apply pairs_lt_combine.
    - eapply all_lt_mono; [|apply unz2_Forall; exact Wfo]. lia.
    - apply all_lt_shiftl. apply unz1_Forall. exact Wri.
  Qed.

  (* the specification determines the diagram up to a renumbering of nodes, and the explicit quotient
     satisfies it as soon as anything does *)
  Theorem IsBatch_unique gf gr d h h' : pwf gf -> pwf gr ->
    IsBatch gf gr d h -> IsBatch gf gr d h' -> NIso h h'.
  Proof. intros Wf Wr. apply Glued_unique. apply pwf_batch_pre; assumption. Qed.

  Theorem IsBatch_expected gf gr d h : pwf gf -> pwf gr -> IsBatch gf gr d h ->
    IsBatch gf gr d (expected_batch gf gr d) /\ NIso h (expected_batch gf gr d).
  Proof.
    intros Wf Wr G. pose proof (batch_pairs_lt d Wf Wr) as HP. split.
    - exact (Glued_pquot_of HP G).
    - exact (Glued_pquot_NIso (pwf_batch_pre d Wf Wr) HP G).
  Qed.
End Batch.

(* ======================= the whole pipeline on the plain level ======================= *)
(* the target leg of interleave_blocks: block i of the first family, then block i of the second *)
Definition itable (sa sb : list nat) (x y : nat) : list nat :=
  concat (zip_app (segs sa (seq 0 x)) (segs sb (seq x y))).

Section Pipeline.
  Variables O A : Type.

  (* Step 2: the plain partial dagger: same hypergraph, interfaces re-cut *)
  Definition ppd (nfa nfb : nat) (c : pohg O A) : pohg O A :=
    with_io c (firstn nfa (p_ins c) ++ skipn nfb (p_outs c)) (firstn nfb (p_outs c) ++ skipn nfa (p_ins c)).

  Lemma Glued_ppd D P (c : pohg O A) nfa nfb : Glued D P c -> Glued (ppd nfa nfb D) P (ppd nfa nfb c).
  Proof.
    intros G. unfold ppd.
    apply (@Glued_reio O A D P c (fun a b => firstn nfa a ++ skipn nfb b) (fun a b => firstn nfb b ++ skipn nfa a)).
    - intros q a b. rewrite map_app, firstn_map, skipn_map. reflexivity.
    - intros q a b. rewrite map_app, firstn_map, skipn_map. reflexivity.
    - exact G.
  Qed.

  Variables gf gr : pohg O A.
  Variable d : bdata.
  Hypothesis Wgf : pwf gf.
  Hypothesis Wgr : pwf gr.
  Hypothesis Wd : wf_bdata gf gr d.
  Let nf := length (p_nodes gf).
  Let nr := length (p_nodes gr).
  Let nfa := length (p_ins gf).
  Let nfb := list_sum (bd_fb d).

  Variables w1 w2 wa wb wFB wRB : list O.
  Variables t1 t2 ta tb : list nat.
  Hypothesis Ht1 : t1 = itable (bd_fb d) (bd_m d) (list_sum (bd_fb d)) (list_sum (bd_m d)).
  Hypothesis Ht2 : t2 = itable (bd_m d) (bd_rb d) (list_sum (bd_m d)) (list_sum (bd_rb d)).
  Hypothesis Hta : ta = itable (bd_Fa d) (bd_Ra d) (length (p_ins gf)) (length (p_outs gr)).
  Hypothesis Htb : tb = itable (bd_Fb d) (bd_Rb d) (list_sum (bd_fb d)) (list_sum (bd_rb d)).
  Hypothesis Pt1 : Permutation t1 (seq 0 (length w1)).
  Hypothesis Pt2 : Permutation t2 (seq 0 (length w2)).
  Hypothesis Pta : Permutation ta (seq 0 (length wa)).
  Hypothesis Ptb : Permutation tb (seq 0 (length wb)).
  Hypothesis Lw1 : length w1 = list_sum (bd_fb d) + list_sum (bd_m d).
  Hypothesis Lw2 : length w2 = list_sum (bd_m d) + list_sum (bd_rb d).
  Hypothesis Lwa : length wa = length (p_ins gf) + length (p_outs gr).
  Hypothesis Lwb : length wb = list_sum (bd_fb d) + list_sum (bd_rb d).
  Hypothesis LwFB : length wFB = list_sum (bd_fb d).
  Hypothesis LwRB : length wRB = list_sum (bd_rb d).

  Variables l0 r0 c e res : pohg O A.
  (* l0 = fwd ; dagger (interleave bfb m) *)
  Hypothesis C1 : IsCompose gf (pwire A w1 t1 (seq 0 (length w1))) l0.
  Hypothesis T1 : tgt_type gf = map (nth_error w1) t1.
  (* r0 = interleave m brb ; rev *)
  Hypothesis C2 : IsCompose (pwire A w2 (seq 0 (length w2)) t2) gr r0.
  Hypothesis T2 : src_type gr = map (nth_error w2) t2.
  (* c = (l0 (x) id) ; (id (x) r0) *)
  Hypothesis C3 : IsCompose (ptensor l0 (pid A wRB)) (ptensor (pid A wFB) r0) c.
  (* e = dagger (interleave fa ra) ; partial_dagger c *)
  Hypothesis C4 : IsCompose (pwire A wa ta (seq 0 (length wa))) (ppd nfa nfb c) e.
  Hypothesis T4 : src_type (ppd nfa nfb c) = map (nth_error wa) (seq 0 (length wa)).
  (* res = e ; interleave fb rb *)
  Hypothesis C5 : IsCompose e (pwire A wb (seq 0 (length wb)) tb) res.
  Hypothesis T5 : tgt_type e = map (nth_error wb) (seq 0 (length wb)).

  Theorem batch_pipeline : IsBatch gf gr d res.
  Proof.
    destruct Wd as (D1 & D2 & D3 & D4 & D5 & D6 & D7 & D8 & D9 & D10).
    pose proof Wgf as (_ & Wfi & Wfo). pose proof Wgr as (_ & Wri & Wro).
    set (FBo := b_FBo gf d). set (Mo := b_Mo gf d). set (Mi := b_Mi gr d). set (RBi := b_RBi gr d).
    assert (LFBo : length FBo = list_sum (bd_fb d)) by (apply unz1_length; assumption).
    assert (LMo : length Mo = list_sum (bd_m d)) by (apply unz2_length; assumption).
    assert (LMi : length Mi = list_sum (bd_m d)) by (apply unz1_length; assumption).
    assert (LRBi : length RBi = list_sum (bd_rb d)) by (apply unz2_length; assumption).
    assert (HFBo : all_lt nf FBo) by (apply unz1_Forall; exact Wfo).
    assert (HMo : all_lt nf Mo) by (apply unz2_Forall; exact Wfo).
    assert (HMi : all_lt nr Mi) by (apply unz1_Forall; exact Wri).
    assert (HRBi : all_lt nr RBi) by (apply unz2_Forall; exact Wri).
    destruct (@perm_seq_facts _ _ Pt1) as (_ & Lt1 & Cv1 & _).
    destruct (@perm_seq_facts _ _ Pt2) as (_ & Lt2 & Cv2 & _).
    destruct (@perm_seq_facts _ _ Pta) as (_ & Lta & Cva & _).
    destruct (@perm_seq_facts _ _ Ptb) as (_ & Ltb & Cvb & _).
    assert (Hseq : forall n, all_lt n (seq 0 n)) by (intros n; apply all_lt_seq; lia).
    (* 1. l0 is fwd with its outputs sorted as FB ++ M *)
    assert (G1 : Glued (gs_L0 gf FBo Mo) [] l0).
    { assert (HL : map (fun v => nth v (FBo ++ Mo) 0) t1 = p_outs gf).
      { rewrite Ht1. unfold itable. rewrite <- LFBo, <- LMo, sel_blocks. apply rezip; assumption. }
      pose proof (@Glued_wire_right O A gf [] gf w1 t1 (seq 0 (length w1)) (FBo ++ Mo) l0 Wgf
                    (Glued_id gf) Cv1 Lt1 (Hseq _) ltac:(rewrite app_length; lia) HL T1 C1) as G.
      rewrite map_nth_all' in G by (rewrite app_length; lia). exact G. }
    (* 2. r0 is rev with its inputs sorted as M ++ RB *)
    assert (G2 : Glued (gs_R0 gr Mi RBi) [] r0).
    { assert (HL : map (fun v => nth v (Mi ++ RBi) 0) t2 = p_ins gr).
      { rewrite Ht2. unfold itable. rewrite <- LMi, <- LRBi, sel_blocks. apply rezip; [congruence|assumption]. }
      pose proof (@Glued_wire_left O A gr [] gr w2 (seq 0 (length w2)) t2 (Mi ++ RBi) r0 Wgr
                    (Glued_id gr) Cv2 (Hseq _) Lt2 ltac:(rewrite app_length; lia) HL T2 C2) as G.
      rewrite map_nth_all' in G by (rewrite app_length; lia). exact G. }
    (* 3. the gluing along M *)
    assert (WL0 : pwf (gs_L0 gf FBo Mo)) by (apply pwf_gs_L0; assumption).
    pose proof (Glued_tensor WL0 (Forall_nil _) G1 (Glued_id (pid A wRB))) as GL.
    pose proof (Glued_tensor (pwf_pid A wFB) (Forall_nil _) (Glued_id (pid A wFB)) G2) as GR.
    cbn [app shift_pairs pmap map] in GL, GR.
    pose proof (@glue_step O A gf gr FBo Mo Mi RBi wFB wRB Wgf Wgr HFBo HMo HMi HRBi
                  ltac:(congruence) ltac:(congruence) ltac:(congruence) _ _ c GL GR C3) as G3.
    fold nf in G3.
    (* 4. partial dagger *)
    apply (Glued_ppd nfa nfb) in G3.
    assert (E4 : ppd nfa nfb (batch_union gf gr (p_ins gf ++ shiftl nf RBi) (FBo ++ shiftl nf (p_outs gr)))
                 = batch_union gf gr (p_ins gf ++ shiftl nf (p_outs gr)) (FBo ++ shiftl nf RBi)).
    { unfold ppd, batch_union, with_io. cbn [p_nodes p_edges p_ins p_outs]. unfold nfa, nfb.
      rewrite <- LFBo. rewrite !firstn_app, !skipn_app, !Nat.sub_diag, !firstn_all, !skipn_all.
      cbn [firstn skipn app]. rewrite !app_nil_r. reflexivity. }
    rewrite E4 in G3.
    (* 5. dagger (interleave fa ra) on the left *)
    assert (W4 : pwf (batch_union gf gr (p_ins gf ++ shiftl nf (p_outs gr)) (FBo ++ shiftl nf RBi))).
    { apply pwf_batch_union; try assumption; apply all_lt_app.
      - eapply all_lt_mono; [|exact Wfi]. lia.
      - apply all_lt_shiftl. exact Wro.
      - eapply all_lt_mono; [|exact HFBo]. fold nf. lia.
      - apply all_lt_shiftl. exact HRBi. }
    pose proof (@Glued_wire_left O A _ _ _ wa ta (seq 0 (length wa))
                  (p_ins gf ++ shiftl nf (p_outs gr)) e W4 G3 (@covers_seq _) Lta (Hseq _)
                  ltac:(rewrite app_length, shiftl_length; lia)
                  ltac:(cbn [batch_union p_ins]; apply map_nth_all'; rewrite app_length, shiftl_length; lia)
                  T4 C4) as G5.
    cbn [batch_union p_ins p_outs] in G5.
    assert (E5 : map (fun v => nth v (p_ins gf ++ shiftl nf (p_outs gr)) 0) ta
                 = concat (zip_app (segs (bd_Fa d) (p_ins gf)) (segs (bd_Ra d) (shiftl nf (p_outs gr))))).
    { rewrite Hta. unfold itable. rewrite <- (shiftl_length nf (p_outs gr)). apply sel_blocks. }
    rewrite E5 in G5.
    (* 6. interleave fb rb on the right *)
    match type of G5 with Glued ?D _ _ => assert (W5 : pwf D) end.
    { apply pwf_with_io; [exact W4| |apply W4]. cbn [batch_union p_nodes]. rewrite app_length.
      apply all_lt_interleave.
      - eapply all_lt_mono; [|exact Wfi]. lia.
      - apply all_lt_shiftl. exact Wro. }
    pose proof (@Glued_wire_right O A _ _ _ wb (seq 0 (length wb)) tb (FBo ++ shiftl nf RBi) res W5 G5
                  (@covers_seq _) (Hseq _) Ltb
                  ltac:(rewrite app_length, shiftl_length; lia)
                  ltac:(cbn [with_io p_outs]; apply map_nth_all'; rewrite app_length, shiftl_length; lia)
                  T5 C5) as G6.
    assert (E6 : map (fun v => nth v (FBo ++ shiftl nf RBi) 0) tb
                 = concat (zip_app (segs (bd_Fb d) FBo) (segs (bd_Rb d) (shiftl nf RBi)))).
    { rewrite Htb. unfold itable. rewrite <- LFBo, <- LRBi, <- (shiftl_length nf RBi). apply sel_blocks. }
    rewrite E6 in G6. exact G6.
  Qed.
End Pipeline.

(* ======================= monoidality: a concatenated batch is the tensor of the batches ======================= *)
Definition bdata_app (d1 d2 : bdata) : bdata :=
  mkBD (bd_fb d1 ++ bd_fb d2) (bd_m d1 ++ bd_m d2) (bd_rb d1 ++ bd_rb d2)
       (bd_Fa d1 ++ bd_Fa d2) (bd_Ra d1 ++ bd_Ra d2) (bd_Fb d1 ++ bd_Fb d2) (bd_Rb d1 ++ bd_Rb d2).

Lemma map_interleave (p : nat -> nat) sa sb (X Y : list nat) :
  map p (concat (zip_app (segs sa X) (segs sb Y))) = concat (zip_app (segs sa (map p X)) (segs sb (map p Y))).
Proof. rewrite concat_map, map_zip_app, <- !SegThm.segs_map. reflexivity. Qed.

Lemma shiftl_interleave n sa sb (X Y : list nat) :
  shiftl n (concat (zip_app (segs sa X) (segs sb Y))) = concat (zip_app (segs sa (shiftl n X)) (segs sb (shiftl n Y))).
Proof. unfold shiftl. apply map_interleave. Qed.

Lemma interleave_app sa1 sb1 sa2 sb2 (X1 Y1 X2 Y2 : list nat) :
  length sa1 = length sb1 -> length X1 = list_sum sa1 -> length Y1 = list_sum sb1 ->
  concat (zip_app (segs (sa1 ++ sa2) (X1 ++ X2)) (segs (sb1 ++ sb2) (Y1 ++ Y2)))
  = concat (zip_app (segs sa1 X1) (segs sb1 Y1)) ++ concat (zip_app (segs sa2 X2) (segs sb2 Y2)).
Proof.
  intros Hl HX HY. rewrite !C01Lemmas.segs_app by assumption.
  rewrite zip_app_app by (rewrite !C01Lemmas.segs_length; exact Hl). apply concat_app.
Qed.

Section Monoidal.
  Variables O A : Type.
  Variables gf1 gr1 gf2 gr2 : pohg O A.
  Variables d1 d2 : bdata.
  Hypothesis Wf1 : pwf gf1.
  Hypothesis Wr1 : pwf gr1.
  Hypothesis Wf2 : pwf gf2.
  Hypothesis Wr2 : pwf gr2.
  Hypothesis Wd1 : wf_bdata gf1 gr1 d1.
  Let nf1 := length (p_nodes gf1).
  Let nf2 := length (p_nodes gf2).
  Let nr1 := length (p_nodes gr1).
  Let nr2 := length (p_nodes gr2).
  Let pn := mid4 nf1 nf2 nr1.

  Lemma mo_M1 xs : all_lt nf1 xs -> map pn xs = xs.
  Proof. intros H. apply map_id_lt with nf1; auto. intros x Hx. apply mid4_1. exact Hx. Qed.
  Lemma mo_M2 xs : all_lt nf2 xs -> map pn (shiftl nf1 xs) = shiftl (nf1 + nr1) xs.
  Proof. intros H. apply map_on_shift with nf2; auto. intros x Hx. apply mid4_2. exact Hx. Qed.
  Lemma mo_M3 xs : all_lt nr1 xs -> map pn (shiftl (nf1 + nf2) xs) = shiftl nf1 xs.
  Proof. intros H. apply map_on_shift with nr1; auto. intros x Hx. apply mid4_3. exact Hx. Qed.
  Lemma mo_M4 xs : map pn (shiftl (nf1 + nf2 + nr1) xs) = shiftl (nf1 + nf2 + nr1) xs.
  Proof.
    apply map_on_shift with (S (list_max xs)).
    - intros x _. apply mid4_4.
    - apply Forall_forall. intros x Hx. apply in_le_list_max in Hx. lia.
  Qed.

  (* an interleaved interface of the tensored batches, re-indexed, is the juxtaposition of the interfaces *)
  Lemma iface_monoidal sa1 sb1 sa2 sb2 (X1 Y1 X2 Y2 : list nat) :
    length sa1 = length sb1 -> length X1 = list_sum sa1 -> length Y1 = list_sum sb1 ->
    all_lt nf1 X1 -> all_lt nf2 X2 -> all_lt nr1 Y1 ->
    map pn (concat (zip_app (segs (sa1 ++ sa2) (X1 ++ shiftl nf1 X2))
                            (segs (sb1 ++ sb2) (shiftl (nf1 + nf2) (Y1 ++ shiftl nr1 Y2)))))
    = concat (zip_app (segs sa1 X1) (segs sb1 (shiftl nf1 Y1))) ++
      shiftl (nf1 + nr1) (concat (zip_app (segs sa2 X2) (segs sb2 (shiftl nf2 Y2)))).
  Proof.
    intros Hl HX HY H1 H2 H3.
    rewrite shiftl_app, interleave_app by (rewrite ?shiftl_length; assumption).
    rewrite map_app, !map_interleave. f_equal.
    - rewrite mo_M1, mo_M3 by assumption. reflexivity.
    - rewrite shiftl_interleave.
      rewrite mo_M2 by assumption. rewrite !shiftl_shiftl.
      replace (nr1 + (nf1 + nf2)) with (nf1 + nf2 + nr1) by lia. rewrite mo_M4.
      f_equal. f_equal. f_equal. f_equal. lia.
  Qed.

  Theorem IsBatch_monoidal h1 h2 h :
    IsBatch gf1 gr1 d1 h1 -> IsBatch gf2 gr2 d2 h2 ->
    IsBatch (ptensor gf1 gf2) (ptensor gr1 gr2) (bdata_app d1 d2) h ->
    Iso h (ptensor h1 h2).
  Proof.
    intros (q1 & Q1 & K1) (q2 & Q2 & K2) (q & Q & K).
    destruct Wd1 as (D1 & D2 & D3 & D4 & D5 & D6 & D7 & D8 & D9 & D10).
    pose proof (pwf_batch_pre d1 Wf1 Wr1) as Wp1. pose proof (pwf_batch_pre d2 Wf2 Wr2) as Wp2.
    pose proof (pwf_ptensor Wf1 Wf2) as Wtf. pose proof (pwf_ptensor Wr1 Wr2) as Wtr.
    pose proof (pwf_batch_pre (bdata_app d1 d2) Wtf Wtr) as WD.
    pose proof (batch_pairs_lt d1 Wf1 Wr1) as HP1.
    pose proof (batch_pairs_lt (bdata_app d1 d2) Wtf Wtr) as HP12.
    pose proof (IsQuot_ptensor Wp1 Q1 Q2) as QR.
    set (QQ := qsum (length (p_nodes (batch_pre gf1 gr1 d1))) (length (p_nodes h1)) q1 q2) in *.
    assert (KR : KerIs (length (p_nodes (batch_pre gf1 gr1 d1)) + length (p_nodes (batch_pre gf2 gr2 d2))) QQ
                   (batch_pairs gf1 gr1 d1 ++
                    shift_pairs (length (p_nodes (batch_pre gf1 gr1 d1))) (batch_pairs gf2 gr2 d2))).
    { apply ker_sum; auto. apply Q1. }
    assert (En1 : length (p_nodes (batch_pre gf1 gr1 d1)) = nf1 + nr1) by (cbn; apply app_length).
    assert (En2 : length (p_nodes (batch_pre gf2 gr2 d2)) = nf2 + nr2) by (cbn; apply app_length).
    assert (EnD : length (p_nodes (batch_pre (ptensor gf1 gf2) (ptensor gr1 gr2) (bdata_app d1 d2)))
                  = nf1 + nf2 + nr1 + nr2).
    { cbn [batch_pre batch_union p_nodes ptensor]. rewrite !app_length. unfold nf1, nf2, nr1, nr2. lia. }
    assert (Hb : bij_on (length (p_nodes (batch_pre (ptensor gf1 gf2) (ptensor gr1 gr2) (bdata_app d1 d2)))) pn).
    { rewrite EnD. apply bij_on_mid4. }
    pose proof Wf1 as (Ef1 & If1 & Of1). pose proof Wf2 as (Ef2 & If2 & Of2).
    pose proof Wr1 as (Er1 & Ir1 & Or1). pose proof Wr2 as (Er2 & Ir2 & Or2).
    fold nf1 in If1, Of1. fold nf2 in If2, Of2. fold nr1 in Ir1, Or1. fold nr2 in Ir2, Or2.
    (* the four halves of the tensored batches *)
    assert (EFB : b_FBo (ptensor gf1 gf2) (bdata_app d1 d2) = b_FBo gf1 d1 ++ shiftl nf1 (b_FBo gf2 d2)).
    { unfold b_FBo. cbn [ptensor p_outs bdata_app bd_fb bd_m]. fold nf1.
      rewrite unz1_app by assumption. unfold shiftl. rewrite unz1_map. reflexivity. }
    assert (EMo : b_Mo (ptensor gf1 gf2) (bdata_app d1 d2) = b_Mo gf1 d1 ++ shiftl nf1 (b_Mo gf2 d2)).
    { unfold b_Mo. cbn [ptensor p_outs bdata_app bd_fb bd_m]. fold nf1.
      rewrite unz2_app by assumption. unfold shiftl. rewrite unz2_map. reflexivity. }
    assert (EMi : b_Mi (ptensor gr1 gr2) (bdata_app d1 d2) = b_Mi gr1 d1 ++ shiftl nr1 (b_Mi gr2 d2)).
    { unfold b_Mi. cbn [ptensor p_ins bdata_app bd_rb bd_m]. fold nr1.
      rewrite unz1_app by assumption. unfold shiftl. rewrite unz1_map. reflexivity. }
    assert (ERB : b_RBi (ptensor gr1 gr2) (bdata_app d1 d2) = b_RBi gr1 d1 ++ shiftl nr1 (b_RBi gr2 d2)).
    { unfold b_RBi. cbn [ptensor p_ins bdata_app bd_rb bd_m]. fold nr1.
      rewrite unz2_app by assumption. unfold shiftl. rewrite unz2_map. reflexivity. }
    assert (LFB1 : length (b_FBo gf1 d1) = list_sum (bd_fb d1)) by (apply unz1_length; assumption).
    assert (LMo1 : length (b_Mo gf1 d1) = list_sum (bd_m d1)) by (apply unz2_length; assumption).
    assert (LMi1 : length (b_Mi gr1 d1) = list_sum (bd_m d1)) by (apply unz1_length; assumption).
    assert (LRB1 : length (b_RBi gr1 d1) = list_sum (bd_rb d1)) by (apply unz2_length; assumption).
    apply (@quot_iso O A (batch_pre (ptensor gf1 gf2) (ptensor gr1 gr2) (bdata_app d1 d2))
             (ptensor (batch_pre gf1 gr1 d1) (batch_pre gf2 gr2 d2)) pn q QQ h (ptensor h1 h2) WD); auto.
    - rewrite EnD, ptensor_len, En1, En2. lia.
    - intros i _. unfold pn, nf1, nf2, nr1. apply mid4_labels.
    - cbn [batch_pre batch_union ptensor p_nodes p_edges]. rewrite !app_length. fold nf1 nf2 nr1 nr2.
      rewrite !map_app, !map_shift_edges.
      rewrite (map_edges_id pn Wf1) by (intros x Hx; apply mid4_1; exact Hx).
      rewrite (@map_edges_on_shift O A pn nf1 (nf1 + nr1) gf2 Wf2) by (intros x Hx; apply mid4_2; exact Hx).
      rewrite (@map_edges_on_shift O A pn (nf1 + nf2) nf1 gr1 Wr1) by (intros x Hx; apply mid4_3; exact Hx).
      replace (nr1 + (nf1 + nf2)) with (nf1 + nf2 + nr1) by lia.
      rewrite (@map_edges_on_shift O A pn (nf1 + nf2 + nr1) (nf1 + nf2 + nr1) gr2 Wr2)
        by (intros x Hx; apply mid4_4).
      replace (nf2 + (nf1 + nr1)) with (nf1 + nf2 + nr1) by lia.
      rewrite <- !app_assoc. apply Permutation_app_head.
      rewrite !app_assoc. apply Permutation_app_tail. apply Permutation_app_comm.
    - cbn [batch_pre batch_union ptensor p_nodes p_ins p_outs bdata_app bd_Fa bd_Ra]. rewrite !app_length.
      fold nf1 nf2 nr1 nr2. symmetry. apply iface_monoidal; auto; lia.
    - unfold batch_pre at 1 2 3. cbn [batch_union ptensor p_nodes p_outs]. rewrite EFB, ERB.
      cbn [bdata_app bd_Fb bd_Rb]. rewrite !app_length. fold nf1 nf2 nr1 nr2.
      symmetry. apply iface_monoidal; try lia.
      + apply unz1_Forall. exact Of1.
      + apply unz1_Forall. exact Of2.
      + apply unz2_Forall. exact Ir1.
    - intros i j Hi Hj. rewrite (K i j Hi Hj).
      rewrite (conn_pmap_bij Hb HP12 Hi Hj).
      assert (E : pmap pn (batch_pairs (ptensor gf1 gf2) (ptensor gr1 gr2) (bdata_app d1 d2)) =
                  batch_pairs gf1 gr1 d1 ++
                  shift_pairs (length (p_nodes (batch_pre gf1 gr1 d1))) (batch_pairs gf2 gr2 d2)).
      { unfold batch_pairs. rewrite EMo, EMi, En1. cbn [ptensor p_nodes]. rewrite app_length.
        fold nf1 nf2 nr1 nr2. rewrite <- combine_shift, <- combine_pmap.
        rewrite !shiftl_app, !shiftl_shiftl, !map_app.
        rewrite mo_M1 by (apply unz2_Forall; exact Of1).
        rewrite mo_M2 by (apply unz2_Forall; exact Of2).
        rewrite mo_M3 by (apply unz1_Forall; exact Ir1).
        replace (nr1 + (nf1 + nf2)) with (nf1 + nf2 + nr1) by lia. rewrite mo_M4.
        rewrite combine_app_eq by (rewrite shiftl_length; lia).
        f_equal. f_equal. f_equal. lia. }
      rewrite E. symmetry. apply KR.
      + destruct Hb as [Hr _]. specialize (Hr i Hi). rewrite EnD in Hr. rewrite En1, En2. fold pn. lia.
      + destruct Hb as [Hr _]. specialize (Hr j Hj). rewrite EnD in Hr. rewrite En1, En2. fold pn. lia.
  Qed.
End Monoidal.

(* ======================= the batch diagram depends only on the iso classes of fwd and rev ======================= *)
Section BatchIso.
  Variables O A : Type.
  Variables gf gf' gr gr' : pohg O A.
  Variable d : bdata.
  Variables pnf pnr : nat -> nat.
  Hypothesis Wf : pwf gf.
  Hypothesis Wr : pwf gr.
  Hypothesis If : IsoVia pnf gf gf'.
  Hypothesis Ir : IsoVia pnr gr gr'.
  Let nf := length (p_nodes gf).
  Let nr := length (p_nodes gr).
  Let pn := qsum nf nf pnf pnr.

  Lemma batch_pre_IsoVia : IsoVia pn (batch_pre gf gr d) (batch_pre gf' gr' d) /\
    pmap pn (batch_pairs gf gr d) = batch_pairs gf' gr' d.
  Proof.
    destruct If as (Hnf & Hbf & Hlf & Hpef & Hpif & Hpof).
    destruct Ir as (Hnr & Hbr & Hlr & Hper & Hpir & Hpor).
    pose proof Wf as (Ef & Wfi & Wfo). pose proof Wr as (Er & Wri & Wro).
    fold nf in Hnf, Hbf, Hlf, Wfi, Wfo. fold nr in Hnr, Hbr, Hlr, Wri, Wro.
    assert (ML : forall xs, all_lt nf xs -> map pn xs = map pnf xs) by (intros xs H; apply map_qsum_l; exact H).
    assert (MR : forall xs, map pn (shiftl nf xs) = shiftl nf (map pnr xs)) by (intros xs; apply map_qsum_r).
    assert (EFB : b_FBo gf' d = map pnf (b_FBo gf d)) by (unfold b_FBo; rewrite Hpof; apply unz1_map).
    assert (EMo : b_Mo gf' d = map pnf (b_Mo gf d)) by (unfold b_Mo; rewrite Hpof; apply unz2_map).
    assert (EMi : b_Mi gr' d = map pnr (b_Mi gr d)) by (unfold b_Mi; rewrite Hpir; apply unz1_map).
    assert (ERB : b_RBi gr' d = map pnr (b_RBi gr d)) by (unfold b_RBi; rewrite Hpir; apply unz2_map).
    split; [split; [|split; [|split; [|split; [|split]]]]|].
    - cbn [batch_pre batch_union p_nodes]. rewrite !app_length. fold nf nr. lia.
    - cbn [batch_pre batch_union p_nodes]. rewrite app_length. apply bij_on_qsum; assumption.
    - cbn [batch_pre batch_union p_nodes]. rewrite app_length. fold nf nr. intros i Hi.
      destruct (lt_dec i nf) as [Lt|Lt].
      + unfold pn. rewrite qsum_l by exact Lt. destruct Hbf as [Hrf _]. specialize (Hrf i Lt).
        rewrite !nth_error_app1 by (fold nf; lia). apply Hlf. exact Lt.
      + unfold pn. rewrite qsum_r by lia. rewrite !nth_error_app2 by (fold nf; lia). rewrite <- Hnf.
        replace (pnr (i - nf) + nf - nf) with (pnr (i - nf)) by lia. apply Hlr. lia.
    - cbn [batch_pre batch_union p_edges]. rewrite <- Hnf. fold nf.
      rewrite map_app. apply Permutation_app.
      + rewrite (map_edges_ext pn pnf Wf) by (intros x Hx; apply qsum_l; exact Hx). exact Hpef.
      + rewrite map_map. rewrite (map_ext _ _ (fun e => map_edge_qsum_r nf nf pnf pnr e)).
        rewrite <- map_map. apply Permutation_map. exact Hper.
    - cbn [batch_pre batch_union p_ins]. rewrite <- Hnf. fold nf.
      rewrite map_interleave, ML, MR, Hpif, Hpor by assumption. reflexivity.
    - unfold batch_pre at 1 2. cbn [batch_union p_outs]. rewrite <- Hnf. fold nf.
      rewrite map_interleave, ML, MR, EFB, ERB by (apply unz1_Forall; exact Wfo). reflexivity.
    - unfold batch_pairs. rewrite <- Hnf. fold nf. rewrite <- combine_pmap.
      rewrite ML, MR, EMo, EMi by (apply unz2_Forall; exact Wfo). reflexivity.
  Qed.
End BatchIso.

Section BatchTransport.
  Variables O A : Type.
  Implicit Types gf gr h : pohg O A.

  (* isomorphic forward / reverse images give isomorphic batch diagrams *)
  Theorem IsBatch_transport gf gf' gr gr' d h : pwf gf -> pwf gr -> Iso gf gf' -> Iso gr gr' ->
    IsBatch gf gr d h -> exists h', IsBatch gf' gr' d h' /\ Iso h h'.
  Proof.
    intros Wf Wr If Ir G.
    destruct (Iso_IsoVia If) as (pnf & Vf). destruct (Iso_IsoVia Ir) as (pnr & Vr).
    destruct (batch_pre_IsoVia d Wf Wr Vf Vr) as [V E].
    destruct (Glued_transport (pwf_batch_pre d Wf Wr) (batch_pairs_lt d Wf Wr) V G) as (h' & G' & I').
    exists h'. split; [|exact I']. unfold IsBatch. rewrite <- E. exact G'.
  Qed.

  Corollary IsBatch_iso gf gf' gr gr' d h h' : pwf gf -> pwf gr -> Iso gf gf' -> Iso gr gr' ->
    IsBatch gf gr d h -> IsBatch gf' gr' d h' -> Iso h h'.
  Proof.
    intros Wf Wr If Ir G G'.
    destruct (IsBatch_transport Wf Wr If Ir G) as (h'' & G'' & I'').
    apply Iso_trans with h''; [exact I''|]. apply NIso_Iso.
    exact (IsBatch_unique (Iso_pwf Wf If) (Iso_pwf Wr Ir) G'' G').
  Qed.

  (* Step 5: the batch diagram of a concatenated batch whose forward and reverse images are (up to
     isomorphism) the tensors of the images of the parts is the tensor of the batch diagrams *)
  Theorem IsBatch_monoidal_iso gf1 gr1 gf2 gr2 gf gr d1 d2 h1 h2 h :
    pwf gf1 -> pwf gr1 -> pwf gf2 -> pwf gr2 -> pwf gf -> pwf gr -> wf_bdata gf1 gr1 d1 ->
    Iso gf (ptensor gf1 gf2) -> Iso gr (ptensor gr1 gr2) ->
    IsBatch gf1 gr1 d1 h1 -> IsBatch gf2 gr2 d2 h2 -> IsBatch gf gr (bdata_app d1 d2) h ->
    Iso h (ptensor h1 h2).
  Proof.
    intros Wf1 Wr1 Wf2 Wr2 Wf Wr Wd1 If Ir G1 G2 G.
    destruct (IsBatch_transport Wf Wr If Ir G) as (h' & G' & I').
    apply Iso_trans with h'; [exact I'|].
    exact (IsBatch_monoidal Wf1 Wr1 Wf2 Wr2 Wd1 G1 G2 G').
  Qed.
End BatchTransport.

(* ======================= a single operation (the generator case) ======================= *)
Section Single.
  Variables O A : Type.
  Variables gf gr : pohg O A.
  Variables fb m rb : nat.
  Variables Fa Ra Fb Rb : list nat.
  Let d := mkBD [fb] [m] [rb] Fa Ra Fb Rb.
  Hypothesis Lo : length (p_outs gf) = fb + m.
  Hypothesis Li : length (p_ins gr) = m + rb.

  Lemma single_halves :
    b_FBo gf d = firstn fb (p_outs gf) /\ b_Mo gf d = skipn fb (p_outs gf) /\
    b_Mi gr d = firstn m (p_ins gr) /\ b_RBi gr d = skipn m (p_ins gr).
  Proof.
    unfold b_FBo, b_Mo, b_Mi, b_RBi. cbn [d bd_fb bd_m bd_rb]. rewrite !unz1_one, !unz2_one.
    rewrite (@firstn_all2 _ m (skipn fb (p_outs gf))) by (rewrite skipn_length; lia).
    rewrite (@firstn_all2 _ rb (skipn m (p_ins gr))) by (rewrite skipn_length; lia). auto.
  Qed.

  (* for one operation: fwd : F a -> F b ++ M, rev : M ++ R b -> R a; the batch diagram is fwd + rev with
     the M outputs of fwd identified with the M inputs of rev *)
  Theorem IsBatch_single h : IsBatch gf gr d h <->
    Glued (batch_union gf gr
             (concat (zip_app (segs Fa (p_ins gf)) (segs Ra (shiftl (length (p_nodes gf)) (p_outs gr)))))
             (concat (zip_app (segs Fb (firstn fb (p_outs gf)))
                              (segs Rb (shiftl (length (p_nodes gf)) (skipn m (p_ins gr)))))))
          (combine (skipn fb (p_outs gf)) (shiftl (length (p_nodes gf)) (firstn m (p_ins gr)))) h.
  Proof.
    destruct single_halves as (E1 & E2 & E3 & E4).
    unfold IsBatch, batch_pre, batch_pairs. rewrite E1, E2, E3, E4. reflexivity.
  Qed.
End Single.

(* ======================= examples ======================= *)
(* de-interleaving two blocks (2,1) and (0,2) *)
Example unz_ex : unz1 [2; 0] [1; 2] [10; 11; 12; 13; 14] = [10; 11] /\
                 unz2 [2; 0] [1; 2] [10; 11; 12; 13; 14] = [12; 13; 14] /\
                 itable [2; 0] [1; 2] 2 3 = [0; 1; 2; 3; 4] /\
                 itable [1; 1] [2; 2] 2 4 = [0; 2; 3; 1; 4; 5].
Proof. repeat split. Qed.

(* one operation x : [a] -> [b] with F o = [o], R o = [o], M = [9]:
   fwd = x : [a] -> [b; 9], rev = x' : [9; b] -> [a]; the expected diagram glues the two 9 wires *)
Definition exb_gf : pohg nat nat := mkP [1; 2; 9] [mkPE 7 [0] [1; 2]] [0] [1; 2].
Definition exb_gr : pohg nat nat := mkP [9; 2; 1] [mkPE 8 [0; 1] [2]] [0; 1] [2].
Definition exb_d : bdata := mkBD [1] [1] [1] [1] [1] [1] [1].

Example exb_pwf : pwf exb_gf /\ pwf exb_gr /\ wf_bdata exb_gf exb_gr exb_d.
Proof.
  split; [|split].
  - split; [|split; repeat constructor]. intros e [<-|[]]. split; repeat constructor.
  - split; [|split; repeat constructor]. intros e [<-|[]]. split; repeat constructor.
  - repeat split.
Qed.

Example expected_batch_ex :
  expected_batch exb_gf exb_gr exb_d
  = mkP [1; 2; 9; 2; 1] [mkPE 7 [0] [1; 2]; mkPE 8 [2; 3] [4]] [0; 4] [1; 3] /\
  IsBatch exb_gf exb_gr exb_d (expected_batch exb_gf exb_gr exb_d).
Proof.
  split; [vm_compute; reflexivity|].
  apply Glued_pquot.
  - repeat constructor.
  - intros a b [E|[]]. inversion E. reflexivity.
Qed.

Print Assumptions retract_core.
Print Assumptions glue_step.
Print Assumptions batch_pipeline.
Print Assumptions IsBatch_expected.
Print Assumptions IsBatch_monoidal.
Print Assumptions IsBatch_transport.
Print Assumptions IsBatch_iso.
Print Assumptions IsBatch_monoidal_iso.
Print Assumptions IsBatch_single.
Print Assumptions expected_batch_ex.
