(* C14c: structural characterisation of the optic image of an operation batch.
   optic_map_operations P ops is, up to isomorphism, the disjoint union of the hypergraphs of the forward
   batch fwd and of the reverse batch rev in which, operation by operation, the k-th residual output of
   fwd is identified with the k-th residual input of rev; its source lists, for every object o of the
   source boundary, the F o inputs of fwd then the R o outputs of rev, its target, for every object o of
   the target boundary, the F o (non-residual) outputs of fwd then the R o (non-residual) inputs of rev.
   Plain-level machinery: Proofs/C14cPlain.v (Glued, wirings, pquot), Proofs/C14cBatch.v (blocks,
   glue_step, batch_pipeline, expected_batch). *)
From OHG Require Import Spec.Plain Proofs.PrimsThm Proofs.SegThm Proofs.C08Thm
  Proofs.C01Lemmas Proofs.C01Thm Proofs.QuotThm Proofs.C03Plain Proofs.C12Lemmas Proofs.C12Thm
  Proofs.C14Thm Proofs.C14bThm Proofs.C14cPlain Proofs.C14cBatch.

Set Implicit Arguments.
Arguments Nat.sub : simpl never.

(* ======================= every kind of step, with its plain-level meaning ======================= *)
Section Steps.
  Variable B : Backend.
  Hypothesis OK : BackendOK B.
  Variables O2 A2 : Type.
  Variable eqO2 : O2 -> O2 -> bool.
  Hypothesis eqO2_spec : forall x y, eqO2 x y = true <-> x = y.

  Lemma compose_unwrap_glue (f g : ohg O2 A2) S M T : typed f S M -> typed g M T ->
    exists h, compose_unwrap B eqO2 f g = Ok h /\ typed h S T /\ IsCompose (abs f) (abs g) (abs h).
  Proof.
    intros (Wf & HSf & HTf) (Wg & HSg & HTg).
    assert (Hty : tgt_type (abs f) = src_type (abs g)) by congruence.
    destruct (C01_compose_is_gluing OK eqO2 eqO2_spec Wf Wg Hty) as (h & Hh & Wh & Hic).
    destruct (C01_types Wf Wg Hic) as [Hs Ht].
    exists h. split; [unfold compose_unwrap; rewrite Hh; reflexivity|].
    split; [|exact Hic]. split; [exact Wh|]. split; congruence.
  Qed.

  Lemma tensor_glue (f g : ohg O2 A2) S T S' T' : typed f S T -> typed g S' T' ->
    exists h, ohg_tensor f g = Ok h /\ typed h (S ++ S') (T ++ T') /\ abs h = ptensor (abs f) (abs g).
  Proof.
    intros Tf Tg. destruct (tensor_typed Tf Tg) as (h & Hh & Th).
    exists h. split; [exact Hh|]. split; [exact Th|].
    destruct Tf as (Wf & _). rewrite (ohg_tensor_val g Wf) in Hh. injection Hh as <-.
    apply abs_tensor_pure. exact Wf.
  Qed.

  Lemma identity_glue (w : list O2) : exists i, ohg_identity A2 w = Ok i /\ typed i w w /\ abs i = pid A2 w.
  Proof.
    destruct (identity_typed A2 w) as (i & Hi & Ti). exists i. split; [exact Hi|]. split; [exact Ti|].
    rewrite ohg_identity_val in Hi. injection Hi as <-. reflexivity.
  Qed.

  (* interleave_blocks gives a wiring: source leg the identity, target leg the block permutation *)
  Lemma interleave_glue (a b : ic (list O2)) : wf_ics a -> wf_ics b -> ic_len a = ic_len b ->
    let w := ic_values a ++ ic_values b in
    let t := itable (table (ic_sources a)) (table (ic_sources b)) (length (ic_values a)) (length (ic_values b)) in
    exists h, interleave_blocks A2 a b = Ok h /\
      typed h w (concat (zip_app (decode_s a) (decode_s b))) /\
      abs h = pwire A2 w (seq 0 (length w)) t /\ Permutation t (seq 0 (length w)).
  Proof.
    intros Wa Wb E w t.
    destruct (C14_interleave A2 Wa Wb E) as (h & Hh & Wh & Hoh & _ & _ & _ & Hos & _ & _ & _ & HP & Htab & HS & HT).
    exists h. split; [exact Hh|]. split; [split; [exact Wh|split; assumption]|].
    assert (Lw : length w = length (ic_values a) + length (ic_values b)) by apply app_length.
    split.
    - unfold abs. rewrite Hoh, Hos, Htab, <- Lw. reflexivity.
    - rewrite Htab in HP. rewrite Lw. exact HP.
  Qed.

  (* ... hence a wiring in the sense of C14cPlain.v, and so is its dagger *)
  Corollary interleave_is_wiring (a b : ic (list O2)) h : wf_ics a -> wf_ics b -> ic_len a = ic_len b ->
    interleave_blocks A2 a b = Ok h -> is_wiring (abs h) /\ is_wiring (abs (ohg_dagger h)).
  Proof.
    intros Wa Wb E Hh. destruct (interleave_glue Wa Wb E) as (h' & Hh' & _ & Ah & Ph).
    assert (h' = h) by congruence. subst h'.
    assert (W : is_wiring (abs h)).
    { rewrite Ah. unfold is_wiring, pwire. cbn [p_nodes p_edges p_ins p_outs].
      split; [reflexivity|]. split; [apply Permutation_refl|exact Ph]. }
    split; [exact W|]. change (abs (ohg_dagger h)) with (swap_io (abs h)). apply is_wiring_swap_io. exact W.
  Qed.

  Lemma partial_dagger_glue (c : ohg O2 A2) (fa fb ra rb : ic (list O2)) :
    typed c (ic_values fa ++ ic_values rb) (ic_values fb ++ ic_values ra) ->
    exists d, partial_dagger c fa fb ra rb = Ok d /\
      typed d (ic_values fa ++ ic_values ra) (ic_values fb ++ ic_values rb) /\
      abs d = ppd (length (ic_values fa)) (length (ic_values fb)) (abs c).
  Proof.
    intros Tc. destruct (@partial_dagger_typed O2 A2 c fa fb ra rb Tc) as (d & Hd & Td).
    exists d. split; [exact Hd|]. split; [exact Td|].
    destruct Tc as (W & HS & HT).
    assert (Hs : ff_source (o_s c) = length (ic_values fa) + length (ic_values rb)).
    { unfold ff_source. apply (f_equal (@length _)) in HS. unfold src_type, type_of in HS.
      cbn [abs p_ins] in HS. rewrite !map_length, app_length in HS. exact HS. }
    assert (Ht : ff_source (o_t c) = length (ic_values fb) + length (ic_values ra)).
    { unfold ff_source. apply (f_equal (@length _)) in HT. unfold tgt_type, type_of in HT.
      cbn [abs p_outs] in HT. rewrite !map_length, app_length in HT. exact HT. }
    destruct (C14_partial_dagger_type fa fb ra rb W Hs Ht) as (d' & Hd' & -> & _).
    assert (d = partial_dagger_value c (length (ic_values fa)) (length (ic_values fb))) by congruence.
    subst d. reflexivity.
  Qed.
End Steps.

(* ======================= the optic image of a batch ======================= *)
Section C14c.
  Variable B : Backend.
  Hypothesis OK : BackendOK B.
  Variables O1 A1 O2 A2 : Type.
  Variable eqO2 : O2 -> O2 -> bool.
  Hypothesis eqO2_spec : forall x y, eqO2 x y = true <-> x = y.
  Variable P : optic O1 A1 O2 A2.
  Variables Fobj Robj : O1 -> list O2.
  Hypothesis C : optic_contract_for P Fobj Robj.

  (* the block sizes of a batch: per operation |F b_i|, |M_i|, |R b_i|; per boundary object |F o|, |R o| *)
  Definition batch_data (ops : operations O1 A1) (m : ic (list O2)) : bdata :=
    mkBD (map (fun l => length (flat_map Fobj l)) (decode_s (ops_b ops)))
         (table (ic_sources m))
         (map (fun l => length (flat_map Robj l)) (decode_s (ops_b ops)))
         (map (fun o => length (Fobj o)) (ic_values (ops_a ops)))
         (map (fun o => length (Robj o)) (ic_values (ops_a ops)))
         (map (fun o => length (Fobj o)) (ic_values (ops_b ops)))
         (map (fun o => length (Robj o)) (ic_values (ops_b ops))).

  Lemma table_of_decode {X Y} (G : X -> list Y) (c : ic (list Y)) (l : list X) : wf_ics c ->
    decode_s c = map G l -> table (ic_sources c) = map (fun x => length (G x)) l.
  Proof. intros W D. rewrite <- (decode_s_lengths W), D, map_map. reflexivity. Qed.

  Lemma wf_sum {X} (c : ic (list X)) : wf_ics c -> list_sum (table (ic_sources c)) = length (ic_values c).
  Proof. intros [_ H]. exact H. Qed.

  Lemma typed_lengths (c : ohg O2 A2) S T : typed c S T ->
    length (p_ins (abs c)) = length S /\ length (p_outs (abs c)) = length T.
  Proof.
    intros (_ & HS & HT). apply (f_equal (@length _)) in HS, HT.
    unfold src_type, tgt_type, type_of in HS, HT. rewrite !map_length in HS, HT. split; assumption.
  Qed.

  Theorem C14_batch_structure_ex (ops : operations O1 A1) : wf_ops ops ->
    exists c fwd rev m,
      optic_map_operations B eqO2 P ops = Ok c /\
      sf_map_operations (op_fwd P) ops = Ok fwd /\ sf_map_operations (op_rev P) ops = Ok rev /\
      op_residual P ops = Ok m /\
      wf_ohg c /\ wf_ohg fwd /\ wf_ohg rev /\ wf_bdata (abs fwd) (abs rev) (batch_data ops m) /\
      IsBatch (abs fwd) (abs rev) (batch_data ops m) (abs c).
  Proof.
    intros Wops. pose proof Wops as (Wa & Wb & La & Lb).
    destruct (oc_residual C Wops) as (m & Hm & Wm & Lm).
    destruct (oc_fwd_operations C Wops Hm) as (fwd & Hfwd & Tfwd).
    destruct (oc_rev_operations C Wops Hm) as (rev & Hrev & Trev).
    destruct (objects C (ic_values (ops_a ops)))
      as (fa & ra & l1' & Hfa & Hra & Wfa & Wra & Lfa & Lra & Dfa & Dra & Vfa & Vra & Hl1' & _).
    destruct (objects C (ic_values (ops_b ops)))
      as (fb & rb & rhs1' & Hfb & Hrb & Wfb & Wrb & Lfb & Lrb & Dfb & Drb & Vfb & Vrb & Hrhs1' & _).
    destruct (flatmap_blocks Fobj ops Wb Wfb Dfb) as (bfb & Hbfb & Wbfb & Vbfb & Lbfb & Dbfb).
    destruct (flatmap_blocks Robj ops Wb Wrb Drb) as (brb & Hbrb & Wbrb & Vbrb & Lbrb & Dbrb).
    destruct (interleave_glue A2 Wbfb Wm ltac:(congruence)) as (fi0 & Hfi0 & Tfi0 & Afi0 & Pfi0).
    destruct (interleave_glue A2 Wm Wbrb ltac:(congruence)) as (rci & Hrci & Trci & Arci & Prci).
    destruct (interleave_glue A2 Wfa Wra ltac:(congruence)) as (l1 & Hl1 & Tl1 & Al1 & Pl1).
    destruct (interleave_glue A2 Wfb Wrb ltac:(congruence)) as (rhs1 & Hrhs1 & Trhs1 & Arhs1 & Prhs1).
    rewrite Dbfb, Vbfb in Tfi0. fold (fwd_target Fobj ops m) in Tfi0.
    rewrite Dbrb, Vbrb in Trci. fold (rev_source Robj ops m) in Trci.
    pose proof (dagger_typed Tfi0) as Tfi.
    destruct (identity_glue A2 (ic_values fb)) as (i_fb & Hifb & Tifb & Aifb).
    destruct (identity_glue A2 (ic_values rb)) as (i_rb & Hirb & Tirb & Airb).
    rewrite <- Vfa in Tfwd. rewrite <- Vra in Trev.
    destruct (compose_unwrap_glue OK eqO2 eqO2_spec Tfwd Tfi) as (l0 & Hl0 & Tl0 & Cl0).
    destruct (tensor_glue Tl0 Tirb) as (lhs & Hlhs & Tlhs & Alhs).
    destruct (compose_unwrap_glue OK eqO2 eqO2_spec Trci Trev) as (r0 & Hr0 & Tr0 & Cr0).
    destruct (tensor_glue Tifb Tr0) as (rhs & Hrhs & Trhs & Arhs).
    rewrite <- app_assoc in Tlhs.
    destruct (compose_unwrap_glue OK eqO2 eqO2_spec Tlhs Trhs) as (c & Hc & Tc & Cc).
    destruct (@partial_dagger_glue O2 A2 c fa fb ra rb Tc) as (d & Hd & Td & Ad).
    destruct (compose_unwrap_glue OK eqO2 eqO2_spec (dagger_typed Tl1) Td) as (e & He & Te & Ce).
    destruct (compose_unwrap_glue OK eqO2 eqO2_spec Te Trhs1) as (h & Hh & Th & Ch).
    exists h, fwd, rev, m.
    split.
    { unfold optic_map_operations.
      rewrite Hfwd. cbn [bind]. rewrite Hrev. cbn [bind].
      rewrite Hfa. cbn [bind]. rewrite Hfb. cbn [bind]. rewrite Hra. cbn [bind]. rewrite Hrb. cbn [bind].
      rewrite Hm. cbn [bind]. rewrite Hbfb. cbn [bind]. rewrite Hfi0. cbn [bind].
      rewrite Hbrb. cbn [bind]. rewrite Hrci. cbn [bind].
      rewrite (typed_target Tfwd). cbn [bind]. rewrite (typed_source Tfi). cbn [bind].
      rewrite (list_eqb_refl eqO2 eqO2_spec). cbn [assert bind].
      rewrite (typed_target Trci). cbn [bind]. rewrite (typed_source Trev). cbn [bind].
      rewrite (list_eqb_refl eqO2 eqO2_spec). cbn [assert bind].
      rewrite Hifb. cbn [bind]. rewrite Hirb. cbn [bind].
      rewrite Hl0. cbn [bind]. rewrite Hlhs. cbn [bind].
      rewrite Hr0. cbn [bind]. rewrite Hrhs. cbn [bind].
      rewrite Hc. cbn [bind]. rewrite Hd. cbn [bind].
      rewrite Hl1. cbn [bind]. rewrite Hrhs1. cbn [bind].
      rewrite He. cbn [bind]. exact Hh. }
    split; [exact Hfwd|]. split; [exact Hrev|]. split; [exact Hm|].
    split; [apply Th|]. split; [apply Tfwd|]. split; [apply Trev|].
    (* the block sizes *)
    set (bd := batch_data ops m).
    assert (Efb : table (ic_sources bfb) = bd_fb bd) by (apply (table_of_decode _ _ Wbfb Dbfb)).
    assert (Erb : table (ic_sources brb) = bd_rb bd) by (apply (table_of_decode _ _ Wbrb Dbrb)).
    assert (EFa : table (ic_sources fa) = bd_Fa bd) by (apply (table_of_decode _ _ Wfa Dfa)).
    assert (ERa : table (ic_sources ra) = bd_Ra bd) by (apply (table_of_decode _ _ Wra Dra)).
    assert (EFb : table (ic_sources fb) = bd_Fb bd) by (apply (table_of_decode _ _ Wfb Dfb)).
    assert (ERb : table (ic_sources rb) = bd_Rb bd) by (apply (table_of_decode _ _ Wrb Drb)).
    pose proof (wf_sum Wbfb) as Sbfb. pose proof (wf_sum Wbrb) as Sbrb. pose proof (wf_sum Wm) as Sm.
    pose proof (wf_sum Wfa) as Sfa. pose proof (wf_sum Wra) as Sra.
    pose proof (wf_sum Wfb) as Sfb. pose proof (wf_sum Wrb) as Srb.
    rewrite Efb in Sbfb. rewrite Erb in Sbrb. rewrite EFa in Sfa. rewrite ERa in Sra.
    rewrite EFb in Sfb. rewrite ERb in Srb. change (table (ic_sources m)) with (bd_m bd) in Sm.
    rewrite Vbfb in Sbfb. rewrite Vbrb in Sbrb.
    destruct (typed_lengths Tfwd) as [Lfi Lfo]. destruct (typed_lengths Trev) as [Lri Lro].
    destruct (typed_lengths Tfi0) as [Lfi0 Lfi0o]. destruct (typed_lengths Trci) as [Lrci Lrcio].
    rewrite app_length in Lfi0, Lrci.
    assert (Wd : wf_bdata (abs fwd) (abs rev) bd).
    { unfold wf_bdata. unfold ic_len, ff_source in Lbfb, Lbrb, Lm, Lb, Lfa, Lra, Lfb, Lrb.
      change (bd_m bd) with (table (ic_sources m)) in *.
      split; [rewrite <- Efb; lia|]. split; [rewrite <- Erb; lia|].
      split; [rewrite Lfo, <- Lfi0o; rewrite Afi0; cbn [pwire p_outs];
              rewrite (Permutation_length Pfi0), seq_length, app_length, Vbfb; lia|].
      split; [rewrite Lri, <- Lrcio; rewrite Arci; cbn [pwire p_outs];
              rewrite (Permutation_length Prci), seq_length, app_length, Vbrb; lia|].
      split; [rewrite <- EFa, <- ERa; lia|].
      split; [rewrite Lfi; exact Sfa|]. split; [rewrite Lro; exact Sra|].
      split; [rewrite <- EFb, <- ERb; lia|].
      split; lia. }
    split; [exact Wd|].
    pose proof (wf_abs_pwf (proj1 Tfwd)) as Wgf. pose proof (wf_abs_pwf (proj1 Trev)) as Wgr.
    apply (@batch_pipeline O2 A2 (abs fwd) (abs rev) bd Wgf Wgr Wd
             (ic_values bfb ++ ic_values m) (ic_values m ++ ic_values brb)
             (ic_values fa ++ ic_values ra) (ic_values fb ++ ic_values rb)
             (ic_values fb) (ic_values rb)
             (itable (table (ic_sources bfb)) (table (ic_sources m)) (length (ic_values bfb)) (length (ic_values m)))
             (itable (table (ic_sources m)) (table (ic_sources brb)) (length (ic_values m)) (length (ic_values brb)))
             (itable (table (ic_sources fa)) (table (ic_sources ra)) (length (ic_values fa)) (length (ic_values ra)))
             (itable (table (ic_sources fb)) (table (ic_sources rb)) (length (ic_values fb)) (length (ic_values rb))))
      with (l0 := abs l0) (r0 := abs r0) (c := abs c) (e := abs e).
    - rewrite Efb, Vbfb. change (table (ic_sources m)) with (bd_m bd). congruence.
    - rewrite Erb, Vbrb. change (table (ic_sources m)) with (bd_m bd). congruence.
    - rewrite EFa, ERa, Lfi, Lro. reflexivity.
    - rewrite EFb, ERb. congruence.
    - exact Pfi0.
    - exact Prci.
    - exact Pl1.
    - exact Prhs1.
    - rewrite app_length, Vbfb. lia.
    - rewrite app_length, Vbrb. lia.
    - rewrite app_length, Lfi, Lro. reflexivity.
    - rewrite app_length. lia.
    - lia.
    - lia.
    - change (abs (ohg_dagger fi0)) with (swap_io (abs fi0)) in Cl0. rewrite Afi0 in Cl0. exact Cl0.
    - destruct Tfwd as (_ & _ & HT). destruct Tfi0 as (_ & _ & HT0). rewrite HT, <- HT0, Afi0. reflexivity.
    - rewrite Arci in Cr0. exact Cr0.
    - destruct Trev as (_ & HS & _). destruct Trci as (_ & _ & HT0). rewrite HS, <- HT0, Arci. reflexivity.
    - rewrite Alhs, Arhs, Airb, Aifb in Cc. exact Cc.
    - change (abs (ohg_dagger l1)) with (swap_io (abs l1)) in Ce. rewrite Al1, Ad in Ce.
      rewrite Lfi. replace (list_sum (bd_fb bd)) with (length (ic_values fb)) by lia. exact Ce.
    - rewrite Lfi. replace (list_sum (bd_fb bd)) with (length (ic_values fb)) by lia. rewrite <- Ad.
      destruct Td as (_ & HS & _). destruct Tl1 as (_ & HS1 & _). rewrite HS, <- HS1, Al1. reflexivity.
    - rewrite Arhs1 in Ch. exact Ch.
    - destruct Te as (_ & _ & HT). destruct Trhs1 as (_ & HS1 & _). rewrite HT, <- HS1, Arhs1. reflexivity.
  Qed.

  (* Step 4, the main theorem: whatever optic_map_operations returns IS the batch diagram of the forward and
     reverse images: the specification [IsBatch] holds of it, and it is isomorphic to the explicit diagram
     [expected_batch] (the quotient of the disjoint union of fwd and rev along the residual pairs) *)
  Theorem C14_batch_structure (ops : operations O1 A1) (c fwd rev : ohg O2 A2) (m : ic (list O2)) :
    wf_ops ops -> optic_map_operations B eqO2 P ops = Ok c ->
    sf_map_operations (op_fwd P) ops = Ok fwd -> sf_map_operations (op_rev P) ops = Ok rev ->
    op_residual P ops = Ok m ->
    IsBatch (abs fwd) (abs rev) (batch_data ops m) (abs c) /\
    Iso (abs c) (expected_batch (abs fwd) (abs rev) (batch_data ops m)).
  Proof.
    intros Wops Hc Hfwd Hrev Hm.
    destruct (C14_batch_structure_ex Wops)
      as (c' & fwd' & rev' & m' & Hc' & Hfwd' & Hrev' & Hm' & _ & Wf & Wr & _ & HB).
    assert (c' = c) by congruence. assert (fwd' = fwd) by congruence.
    assert (rev' = rev) by congruence. assert (m' = m) by congruence. subst c' fwd' rev' m'.
    split; [exact HB|]. apply NIso_Iso.
    apply (IsBatch_expected (wf_abs_pwf Wf) (wf_abs_pwf Wr) HB).
  Qed.

  (* the image is determined up to isomorphism by the images of the two components: any diagram
     satisfying the specification is isomorphic to the result *)
  Corollary C14_batch_unique (ops : operations O1 A1) (c fwd rev : ohg O2 A2) (m : ic (list O2)) h :
    wf_ops ops -> optic_map_operations B eqO2 P ops = Ok c ->
    sf_map_operations (op_fwd P) ops = Ok fwd -> sf_map_operations (op_rev P) ops = Ok rev ->
    op_residual P ops = Ok m ->
    IsBatch (abs fwd) (abs rev) (batch_data ops m) h -> Iso (abs c) h.
  Proof.
    intros Wops Hc Hfwd Hrev Hm Hh.
    destruct (C14_batch_structure_ex Wops)
      as (c' & fwd' & rev' & m' & Hc' & Hfwd' & Hrev' & Hm' & _ & Wf & Wr & _ & HB).
    assert (c' = c) by congruence. assert (fwd' = fwd) by congruence.
    assert (rev' = rev) by congruence. assert (m' = m) by congruence. subst c' fwd' rev' m'.
    apply NIso_Iso. exact (IsBatch_unique (wf_abs_pwf Wf) (wf_abs_pwf Wr) HB Hh).
  Qed.
  (* everything known about the results of one run *)
  Lemma C14_batch_facts (ops : operations O1 A1) (c fwd rev : ohg O2 A2) (m : ic (list O2)) :
    wf_ops ops -> optic_map_operations B eqO2 P ops = Ok c ->
    sf_map_operations (op_fwd P) ops = Ok fwd -> sf_map_operations (op_rev P) ops = Ok rev ->
    op_residual P ops = Ok m ->
    wf_ohg c /\ wf_ohg fwd /\ wf_ohg rev /\ wf_bdata (abs fwd) (abs rev) (batch_data ops m) /\
    IsBatch (abs fwd) (abs rev) (batch_data ops m) (abs c).
  Proof.
    intros Wops Hc Hfwd Hrev Hm.
    destruct (C14_batch_structure_ex Wops)
      as (c' & fwd' & rev' & m' & Hc' & Hfwd' & Hrev' & Hm' & Wc & Wf & Wr & Wd & HB).
    assert (c' = c) by congruence. assert (fwd' = fwd) by congruence.
    assert (rev' = rev) by congruence. assert (m' = m) by congruence. subst c' fwd' rev' m'.
    repeat (split; [assumption|]). exact HB.
  Qed.

  (* ---------------- Step 5a: a single operation (the generator case) ---------------- *)
  Lemma single_block {T} (s : ic (list T)) : wf_ics s -> ic_len s = 1 ->
    table (ic_sources s) = [length (ic_values s)] /\ decode_s s = [ic_values s].
  Proof.
    intros [_ W2] L. unfold ic_len, ff_source in L. unfold decode_s.
    destruct (table (ic_sources s)) as [|k [|k' r]]; cbn [length] in L; try discriminate.
    assert (k = length (ic_values s)) by (cbn in W2; lia). subst k. split; [reflexivity|].
    cbn [segs]. rewrite firstn_all. reflexivity.
  Qed.

  (* for one operation x : a -> b the optic image is fwd + rev with the residual outputs of fwd (the last
     |M| outputs) identified one by one with the residual inputs of rev (its first |M| inputs) *)
  Corollary C14_generator_structure (ops : operations O1 A1) (c fwd rev : ohg O2 A2) (m : ic (list O2)) :
    wf_ops ops -> length (ops_x ops) = 1 -> optic_map_operations B eqO2 P ops = Ok c ->
    sf_map_operations (op_fwd P) ops = Ok fwd -> sf_map_operations (op_rev P) ops = Ok rev ->
    op_residual P ops = Ok m ->
    let nf := length (p_nodes (abs fwd)) in
    let a := ic_values (ops_a ops) in
    let b := ic_values (ops_b ops) in
    let nFb := length (flat_map Fobj b) in
    let nM := length (ic_values m) in
    Glued (batch_union (abs fwd) (abs rev)
             (concat (zip_app (segs (map (fun o => length (Fobj o)) a) (p_ins (abs fwd)))
                              (segs (map (fun o => length (Robj o)) a) (shiftl nf (p_outs (abs rev))))))
             (concat (zip_app (segs (map (fun o => length (Fobj o)) b) (firstn nFb (p_outs (abs fwd))))
                              (segs (map (fun o => length (Robj o)) b) (shiftl nf (skipn nM (p_ins (abs rev))))))))
          (combine (skipn nFb (p_outs (abs fwd))) (shiftl nf (firstn nM (p_ins (abs rev))))) (abs c).
  Proof.
    intros Wops L1 Hc Hfwd Hrev Hm nf a b nFb nM.
    destruct (C14_batch_facts Wops Hc Hfwd Hrev Hm) as (_ & _ & _ & Wd & HB).
    pose proof Wops as (_ & Wb & _ & Lb).
    destruct (oc_residual C Wops) as (m' & Hm' & Wm & Lm). assert (m' = m) by congruence. subst m'.
    destruct (single_block Wb ltac:(congruence)) as [_ Db].
    destruct (single_block Wm ltac:(congruence)) as [Tm _].
    assert (E : batch_data ops m =
                mkBD [nFb] [nM] [length (flat_map Robj b)]
                     (map (fun o => length (Fobj o)) a) (map (fun o => length (Robj o)) a)
                     (map (fun o => length (Fobj o)) b) (map (fun o => length (Robj o)) b)).
    { unfold batch_data. rewrite Db, Tm. reflexivity. }
    rewrite E in HB, Wd. destruct Wd as (_ & _ & Lo & Li & _).
    cbn [bd_fb bd_m bd_rb] in Lo, Li.
    assert (Lo' : length (p_outs (abs fwd)) = nFb + nM) by (simpl list_sum in Lo; lia).
    assert (Li' : length (p_ins (abs rev)) = nM + length (flat_map Robj b)) by (simpl list_sum in Li; lia).
    apply (proj1 (@IsBatch_single O2 A2 (abs fwd) (abs rev) nFb nM _ _ _ _ _ Lo' Li' (abs c))). exact HB.
  Qed.

  (* ---------------- Step 5b: concatenated batches ---------------- *)
  Definition ops_app (p q : operations O1 A1) : operations O1 A1 :=
    mkOps (ops_x p ++ ops_x q) (cop_s (ops_a p) (ops_a q)) (cop_s (ops_b p) (ops_b q)).

  Lemma wf_ops_app p q : wf_ops p -> wf_ops q -> wf_ops (ops_app p q).
  Proof.
    intros (Wa & Wb & La & Lb) (Wa' & Wb' & La' & Lb'). unfold wf_ops, ops_app. cbn [ops_a ops_b ops_x].
    rewrite !cop_s_len, app_length.
    split; [apply cop_s_wf; assumption|]. split; [apply cop_s_wf; assumption|]. split; lia.
  Qed.

  Lemma batch_data_app p q (m1 m2 m : ic (list O2)) : wf_ops p -> wf_ops q ->
    table (ic_sources m) = table (ic_sources m1) ++ table (ic_sources m2) ->
    batch_data (ops_app p q) m = bdata_app (batch_data p m1) (batch_data q m2).
  Proof.
    intros (Wa & Wb & _) (Wa' & Wb' & _) Hm. unfold batch_data, bdata_app, ops_app.
    cbn [ops_a ops_b bd_fb bd_m bd_rb bd_Fa bd_Ra bd_Fb bd_Rb].
    rewrite cop_s_decode by assumption. cbn [cop_s ic_values]. rewrite !map_app, Hm. reflexivity.
  Qed.

  (* if the forward and reverse images of the concatenated batch are the tensors of the images of the parts
     (up to isomorphism) and its residual blocks are those of the parts, the optic image of the concatenated
     batch is the tensor of the optic images: the optic is monoidal on batches *)
  Corollary C14_batch_monoidal (p q : operations O1 A1)
      (c1 fwd1 rev1 c2 fwd2 rev2 c fwd rev : ohg O2 A2) (m1 m2 m : ic (list O2)) :
    wf_ops p -> wf_ops q ->
    optic_map_operations B eqO2 P p = Ok c1 -> sf_map_operations (op_fwd P) p = Ok fwd1 ->
    sf_map_operations (op_rev P) p = Ok rev1 -> op_residual P p = Ok m1 ->
    optic_map_operations B eqO2 P q = Ok c2 -> sf_map_operations (op_fwd P) q = Ok fwd2 ->
    sf_map_operations (op_rev P) q = Ok rev2 -> op_residual P q = Ok m2 ->
    optic_map_operations B eqO2 P (ops_app p q) = Ok c -> sf_map_operations (op_fwd P) (ops_app p q) = Ok fwd ->
    sf_map_operations (op_rev P) (ops_app p q) = Ok rev -> op_residual P (ops_app p q) = Ok m ->
    table (ic_sources m) = table (ic_sources m1) ++ table (ic_sources m2) ->
    Iso (abs fwd) (ptensor (abs fwd1) (abs fwd2)) -> Iso (abs rev) (ptensor (abs rev1) (abs rev2)) ->
    Iso (abs c) (ptensor (abs c1) (abs c2)).
  Proof.
    intros Wp Wq Hc1 Hf1 Hr1 Hm1 Hc2 Hf2 Hr2 Hm2 Hc Hf Hr Hm Tm If Ir.
    destruct (C14_batch_facts Wp Hc1 Hf1 Hr1 Hm1) as (_ & Wf1 & Wr1 & Wd1 & HB1).
    destruct (C14_batch_facts Wq Hc2 Hf2 Hr2 Hm2) as (_ & Wf2 & Wr2 & _ & HB2).
    destruct (C14_batch_facts (wf_ops_app Wp Wq) Hc Hf Hr Hm) as (_ & Wf & Wr & _ & HB).
    rewrite (batch_data_app m1 m2 m Wp Wq Tm) in HB.
    exact (IsBatch_monoidal_iso (wf_abs_pwf Wf1) (wf_abs_pwf Wr1) (wf_abs_pwf Wf2) (wf_abs_pwf Wr2)
             (wf_abs_pwf Wf) (wf_abs_pwf Wr) Wd1 If Ir HB1 HB2 HB).
  Qed.
End C14c.

(* ======================= examples (VecBackend, by computation) ======================= *)
From OHG Require Import Proofs.BackendInst Run.SpecCheck Proofs.CheckersThm.

(* the optic of C14bThm.v (F o = [o], R o = [o; o], one residual object 9 per operation) on the batch
   100 : [1;2] -> [4], 101 : [3] -> [] *)
Definition ex14c_run : res (ohg nat nat * ohg nat nat * ohg nat nat * ic (list nat)) :=
  c <- optic_map_operations VecBackend Nat.eqb ex14b_P ex14b_ops ;;
  fwd <- sf_map_operations (op_fwd ex14b_P) ex14b_ops ;;
  rev <- sf_map_operations (op_rev ex14b_P) ex14b_ops ;;
  m <- op_residual ex14b_P ex14b_ops ;;
  Ok (c, fwd, rev, m).

Example ex14c_data :
  batch_data ex14b_F ex14b_R ex14b_ops (mkIC (mkFF [1; 1] 3) [9; 9])
  = mkBD [1; 0] [1; 1] [2; 0] [1; 1; 1] [2; 2; 2] [1] [2].
Proof. reflexivity. Qed.

(* the result computed by the model is isomorphic (checked by the executable iso checker) to the expected
   diagram built from the forward and the reverse image *)
Example C14_batch_structure_check :
  match ex14c_run with
  | Ok (c, fwd, rev, m) =>
      iso_nat (abs c) (expected_batch (abs fwd) (abs rev) (batch_data ex14b_F ex14b_R ex14b_ops m))
  | _ => false
  end = true.
Proof. vm_compute. reflexivity. Qed.

(* the expected diagram itself: fwd (nodes 0-5) and rev (nodes 6-13) with the residual wires 9 merged
   (nodes 4 and 5); source F a ++ R a object by object, target F b ++ R b *)
Example C14_expected_batch_value :
  exists fwd rev, sf_map_operations (op_fwd ex14b_P) ex14b_ops = Ok fwd /\
    sf_map_operations (op_rev ex14b_P) ex14b_ops = Ok rev /\
    expected_batch (abs fwd) (abs rev) (batch_data ex14b_F ex14b_R ex14b_ops (mkIC (mkFF [1; 1] 3) [9; 9]))
    = mkP [1; 2; 3; 4; 9; 9; 4; 4; 1; 1; 2; 2; 3; 3]
          [mkPE 100 [0; 1] [3; 4]; mkPE 101 [2] [5]; mkPE 100 [4; 6; 7] [8; 9; 10; 11]; mkPE 101 [5] [12; 13]]
          [0; 8; 9; 1; 10; 11; 2; 12; 13] [3; 6; 7].
Proof. eexists. eexists. split; [vm_compute; reflexivity|]. split; [vm_compute; reflexivity|]. vm_compute. reflexivity. Qed.

(* the theorem instantiated *)
Example C14_batch_structure_ex14b :
  exists c fwd rev m,
    optic_map_operations VecBackend Nat.eqb ex14b_P ex14b_ops = Ok c /\
    sf_map_operations (op_fwd ex14b_P) ex14b_ops = Ok fwd /\
    sf_map_operations (op_rev ex14b_P) ex14b_ops = Ok rev /\
    op_residual ex14b_P ex14b_ops = Ok m /\
    IsBatch (abs fwd) (abs rev) (batch_data ex14b_F ex14b_R ex14b_ops m) (abs c) /\
    Iso (abs c) (expected_batch (abs fwd) (abs rev) (batch_data ex14b_F ex14b_R ex14b_ops m)).
Proof.
  destruct (C14_batch_structure_ex VecBackend_ok Nat.eqb Nat.eqb_eq
              (free_optic_contract ex14b_F ex14b_R ex14b_M) ex14b_wf_ops)
    as (c & fwd & rev & m & Hc & Hf & Hr & Hm & _ & _ & _ & _ & _).
  exists c, fwd, rev, m. repeat (split; [assumption|]).
  exact (C14_batch_structure VecBackend_ok Nat.eqb Nat.eqb_eq
           (free_optic_contract ex14b_F ex14b_R ex14b_M) ex14b_wf_ops Hc Hf Hr Hm).
Qed.

(* the generator case on a one-operation batch: 100 : [1;2] -> [4] *)
Definition ex14c_p : operations nat nat := mkOps [100] (mkIC (mkFF [2] 3) [1; 2]) (mkIC (mkFF [1] 2) [4]).
Definition ex14c_q : operations nat nat := mkOps [101] (mkIC (mkFF [1] 2) [3]) (mkIC (mkFF [0] 1) []).

Example ex14c_wf_p : wf_ops ex14c_p. Proof. repeat split. Qed.
Example ex14c_wf_q : wf_ops ex14c_q. Proof. repeat split. Qed.
Example ex14c_app : ops_app ex14c_p ex14c_q = ex14b_ops. Proof. reflexivity. Qed.

Ltac run_to x :=
  match goal with |- ?lhs = Ok ?v => unfold x; vm_compute; reflexivity end.

Example C14_generator_structure_ex :
  exists c fwd rev,
    optic_map_operations VecBackend Nat.eqb ex14b_P ex14c_p = Ok c /\
    sf_map_operations (op_fwd ex14b_P) ex14c_p = Ok fwd /\ sf_map_operations (op_rev ex14b_P) ex14c_p = Ok rev /\
    (* fwd : [1;2] -> [4] ++ [9] on nodes 0-3, rev : [9] ++ [4;4] -> [1;1;2;2] on nodes 4-10;
       node 3 (the 9 output of fwd) is glued to node 4 (the 9 input of rev) *)
    Glued (batch_union (abs fwd) (abs rev) [0; 7; 8; 1; 9; 10] [2; 5; 6]) [(3, 4)] (abs c).
Proof.
  evar (c : ohg nat nat). evar (fwd : ohg nat nat). evar (rev : ohg nat nat).
  assert (Hc : optic_map_operations VecBackend Nat.eqb ex14b_P ex14c_p = Ok c) by run_to c.
  assert (Hf : sf_map_operations (op_fwd ex14b_P) ex14c_p = Ok fwd) by run_to fwd.
  assert (Hr : sf_map_operations (op_rev ex14b_P) ex14c_p = Ok rev) by run_to rev.
  exists c, fwd, rev. split; [exact Hc|]. split; [exact Hf|]. split; [exact Hr|].
  exact (C14_generator_structure VecBackend_ok Nat.eqb Nat.eqb_eq
           (free_optic_contract ex14b_F ex14b_R ex14b_M) ex14c_wf_p eq_refl Hc Hf Hr eq_refl).
Qed.

(* monoidality on the batch of C14bThm.v split into its two operations *)
Example C14_batch_monoidal_ex :
  exists c1 c2 c,
    optic_map_operations VecBackend Nat.eqb ex14b_P ex14c_p = Ok c1 /\
    optic_map_operations VecBackend Nat.eqb ex14b_P ex14c_q = Ok c2 /\
    optic_map_operations VecBackend Nat.eqb ex14b_P (ops_app ex14c_p ex14c_q) = Ok c /\
    Iso (abs c) (ptensor (abs c1) (abs c2)).
Proof.
  evar (c1 : ohg nat nat). evar (f1 : ohg nat nat). evar (r1 : ohg nat nat). evar (m1 : ic (list nat)).
  evar (c2 : ohg nat nat). evar (f2 : ohg nat nat). evar (r2 : ohg nat nat). evar (m2 : ic (list nat)).
  evar (c : ohg nat nat). evar (f : ohg nat nat). evar (r : ohg nat nat). evar (m : ic (list nat)).
  assert (Hc1 : optic_map_operations VecBackend Nat.eqb ex14b_P ex14c_p = Ok c1) by run_to c1.
  assert (Hf1 : sf_map_operations (op_fwd ex14b_P) ex14c_p = Ok f1) by run_to f1.
  assert (Hr1 : sf_map_operations (op_rev ex14b_P) ex14c_p = Ok r1) by run_to r1.
  assert (Hm1 : op_residual ex14b_P ex14c_p = Ok m1) by run_to m1.
  assert (Hc2 : optic_map_operations VecBackend Nat.eqb ex14b_P ex14c_q = Ok c2) by run_to c2.
  assert (Hf2 : sf_map_operations (op_fwd ex14b_P) ex14c_q = Ok f2) by run_to f2.
  assert (Hr2 : sf_map_operations (op_rev ex14b_P) ex14c_q = Ok r2) by run_to r2.
  assert (Hm2 : op_residual ex14b_P ex14c_q = Ok m2) by run_to m2.
  assert (Hc : optic_map_operations VecBackend Nat.eqb ex14b_P (ops_app ex14c_p ex14c_q) = Ok c) by run_to c.
  assert (Hf : sf_map_operations (op_fwd ex14b_P) (ops_app ex14c_p ex14c_q) = Ok f) by run_to f.
  assert (Hr : sf_map_operations (op_rev ex14b_P) (ops_app ex14c_p ex14c_q) = Ok r) by run_to r.
  assert (Hm : op_residual ex14b_P (ops_app ex14c_p ex14c_q) = Ok m) by run_to m.
  exists c1, c2, c. split; [exact Hc1|]. split; [exact Hc2|]. split; [exact Hc|].
  apply (C14_batch_monoidal VecBackend_ok Nat.eqb Nat.eqb_eq
           (free_optic_contract ex14b_F ex14b_R ex14b_M) ex14c_wf_p ex14c_wf_q
           Hc1 Hf1 Hr1 Hm1 Hc2 Hf2 Hr2 Hm2 Hc Hf Hr Hm).
  - reflexivity.
  - apply iso_nat_sound. vm_compute. reflexivity.
  - apply iso_nat_sound. vm_compute. reflexivity.
Qed.

Print Assumptions C14_batch_structure.
Print Assumptions C14_batch_unique.
Print Assumptions C14_batch_structure_ex14b.
Print Assumptions C14_batch_structure_check.
Print Assumptions C14_generator_structure.
Print Assumptions C14_batch_monoidal.
Print Assumptions C14_generator_structure_ex.
Print Assumptions C14_batch_monoidal_ex.
