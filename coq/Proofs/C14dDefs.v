(* C14d, definitions shared by C14dPlain.v / C14dPerm.v / C14dDyn.v / C14dGen.v / C14dPres.v:
   - the n-ary tensor [ptl] of plain diagrams, the plain form [PSubst] of the substitution instance of C12,
   - the generators [pgens] of a plain diagram / [gens] of an operation batch,
   - the canonical plain presentation [KD] / [KP] of the image of a diagram under a functor given by an
     object map [Fo] and per-generator images [img],
   - the point-wise contract [pw_contract] of an optic: its forward / reverse operation maps send a
     batch to (a diagram isomorphic to) the tensor of per-generator images. *)
From OHG Require Import Spec.Plain Proofs.PrimsThm Proofs.SegThm Proofs.C08Thm
  Proofs.C01Lemmas Proofs.C01Thm Proofs.QuotThm Proofs.C03Plain Proofs.C12Lemmas Proofs.C12Thm
  Proofs.C14Thm Proofs.C14bThm Proofs.C14cPlain Proofs.C14cBatch Proofs.C14cThm.

Set Implicit Arguments.
Arguments Nat.sub : simpl never.

(* the labels found at the node references l (C19bLemmas.sel) *)
Definition lsel {T} (w : list T) (l : list nat) : list T :=
  flat_map (fun i => match nth_error w i with Some x => [x] | None => [] end) l.

Section PlainDefs.
  Variables O A : Type.

  Definition pempty : pohg O A := mkP [] [] [] [].

  (* the tensor of a list of diagrams, in order *)
  Definition ptl (cs : list (pohg O A)) : pohg O A := fold_right (@ptensor O A) pempty cs.

  (* the substitution instance of C12 on plain data: the discrete diagram on W next to X; the interfaces
     I / Ou point into W; the k-th element of es is glued to the k-th input of X, of et to the k-th output *)
  Definition sub_D (W : list O) (X : pohg O A) (I Ou : list nat) : pohg O A :=
    mkP (W ++ p_nodes X) (map (shift_edge (length W)) (p_edges X)) I Ou.

  Definition sub_P (W : list O) (X : pohg O A) (es et : list nat) : list (nat * nat) :=
    combine es (shiftl (length W) (p_ins X)) ++ combine et (shiftl (length W) (p_outs X)).

  Definition PSubst (W : list O) (X : pohg O A) (I Ou es et : list nat) (h : pohg O A) : Prop :=
    Glued (sub_D W X I Ou) (sub_P W X es et) h.
End PlainDefs.

Arguments pempty {O A}.

(* a generator: a label with its source and target type *)
Notation gen O1 A1 := (A1 * (list O1 * list O1))%type.

Section Gens.
  Variables O1 A1 : Type.

  Definition gen_of (w : list O1) (e : pedge A1) : gen O1 A1 :=
    (pe_lbl e, (lsel w (pe_src e), lsel w (pe_tgt e))).

  (* the generators of a plain diagram, in the order of its hyperedges *)
  Definition pgens (g : pohg O1 A1) : list (gen O1 A1) := map (gen_of (p_nodes g)) (p_edges g).

  (* the generators of an operation batch *)
  Definition gens (ops : operations O1 A1) : list (gen O1 A1) :=
    combine (ops_x ops) (combine (decode_s (ops_a ops)) (decode_s (ops_b ops))).
End Gens.

(* the canonical presentation of the image of g: every node labelled o becomes the block Fo o, every
   hyperedge with generator y the diagram img y *)
Section Canon.
  Variables O1 A1 O2 A2 : Type.
  Variable Fo : O1 -> list O2.
  Variable img : gen O1 A1 -> pohg O2 A2.

  Definition kW (g : pohg O1 A1) : list O2 := flat_map Fo (p_nodes g).
  Definition ksizes (g : pohg O1 A1) : list nat := map (fun o => length (Fo o)) (p_nodes g).
  Definition kex (g : pohg O1 A1) (l : list nat) : list nat := inj_table (ksizes g) l.
  Definition kX (g : pohg O1 A1) : pohg O2 A2 := ptl (map img (pgens g)).

  Definition KD (g : pohg O1 A1) : pohg O2 A2 :=
    sub_D (kW g) (kX g) (kex g (p_ins g)) (kex g (p_outs g)).
  Definition KP (g : pohg O1 A1) : list (nat * nat) :=
    sub_P (kW g) (kX g) (kex g (concat (map (@pe_src A1) (p_edges g))))
                        (kex g (concat (map (@pe_tgt A1) (p_edges g)))).

  (* the image, as an explicit quotient *)
  Definition Kimg (g : pohg O1 A1) : pohg O2 A2 := pquot (KD g) (KP g).

  (* what is needed of the image of a generator: well-formed, with one input per element of the image of
     its source type and one output per element of the image of its target type *)
  Definition img_ok (y : gen O1 A1) : Prop :=
    pwf (img y) /\ length (p_ins (img y)) = length (flat_map Fo (fst (snd y))) /\
    length (p_outs (img y)) = length (flat_map Fo (snd (snd y))).
End Canon.

(* ======================= the point-wise contract of an optic ======================= *)
Section PW.
  Variables O1 A1 O2 A2 : Type.
  Variable P : optic O1 A1 O2 A2.
  Variables Fobj Robj : O1 -> list O2.
  (* the admissible generators (e.g. those with the arity of their label) *)
  Variable adm : gen O1 A1 -> Prop.
  (* the forward / reverse image and the residual of a generator *)
  Variables fimg rimg : gen O1 A1 -> pohg O2 A2.
  Variable Mres : gen O1 A1 -> list O2.

  Record pw_contract : Prop := {
    pw_fwd_object : forall a, exists fa,
      sf_map_object (op_fwd P) a = Ok fa /\ wf_ics fa /\ decode_s fa = map Fobj a;
    pw_rev_object : forall a, exists ra,
      sf_map_object (op_rev P) a = Ok ra /\ wf_ics ra /\ decode_s ra = map Robj a;
    pw_residual : forall ops, wf_ops ops -> Forall adm (gens ops) -> exists m,
      op_residual P ops = Ok m /\ wf_ics m /\ decode_s m = map Mres (gens ops);
    pw_fwd_ops : forall ops, wf_ops ops -> Forall adm (gens ops) -> exists fwd,
      sf_map_operations (op_fwd P) ops = Ok fwd /\ wf_ohg fwd /\
      Iso (abs fwd) (ptl (map fimg (gens ops)));
    pw_rev_ops : forall ops, wf_ops ops -> Forall adm (gens ops) -> exists rev,
      sf_map_operations (op_rev P) ops = Ok rev /\ wf_ohg rev /\
      Iso (abs rev) (ptl (map rimg (gens ops)));
    (* fimg y : F a -> F b ++ M y      rimg y : M y ++ R b -> R a *)
    pw_fimg : forall y, adm y -> pwf (fimg y) /\
      src_type (fimg y) = map Some (flat_map Fobj (fst (snd y))) /\
      tgt_type (fimg y) = map Some (flat_map Fobj (snd (snd y)) ++ Mres y);
    pw_rimg : forall y, adm y -> pwf (rimg y) /\
      src_type (rimg y) = map Some (Mres y ++ flat_map Robj (snd (snd y))) /\
      tgt_type (rimg y) = map Some (flat_map Robj (fst (snd y)))
  }.

  (* the block data of the one-operation batch y, and its optic image *)
  Definition gen_bd (y : gen O1 A1) : bdata :=
    mkBD [length (flat_map Fobj (snd (snd y)))] [length (Mres y)] [length (flat_map Robj (snd (snd y)))]
         (map (fun o => length (Fobj o)) (fst (snd y))) (map (fun o => length (Robj o)) (fst (snd y)))
         (map (fun o => length (Fobj o)) (snd (snd y))) (map (fun o => length (Robj o)) (snd (snd y))).

  Definition cimg (y : gen O1 A1) : pohg O2 A2 := expected_batch (fimg y) (rimg y) (gen_bd y).

  (* the object map of the optic on generating objects *)
  Definition Oobj (o : O1) : list O2 := Fobj o ++ Robj o.
End PW.
