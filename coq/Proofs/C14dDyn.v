(* C14d, the strict optic induced by a lax optic (src/lax/optic.rs: to_strict_optic) meets the point-wise
   contract [pw_contract] of C14dDefs.v:

   - its object maps are the flattened object maps of the lax optic,
   - its residual on a batch is the list of the residuals of the labels,
   - its forward / reverse operation maps send a well-formed batch of admissible generators to a
     well-formed strict diagram isomorphic to the tensor [ptl] of the (plain forms of the) images of
     the generators, in order,

   provided that the images of the admissible generators are well-formed lax diagrams WITHOUT pending
   unifications of the documented types  fwd x a b : F a -> F b ++ M x,  rev x a b : M x ++ R b -> R a.

   Contents
     1. the plain tensor is a strict monoid: ptensor_assoc, ptensor_pempty_l/_r, fold_left_ptensor
     2. semifinite indexed coproducts from a list of lists: ics_of, from_lists_ok, wf_ics_of, decode_ics_of
     3. batches of generator images without pending pairs: np_good, np_batch_from, labs_batch_from, labs_batch
     4. strictification without pending pairs is an isomorphism: to_strict_np
     5. the operation map / residual of the induced strict functor / optic on an arbitrary well-formed
        batch: dyn_ops_value, dyn_ops_pw, residual_value
     6. the theorem to_strict_optic_pw
     7. the polynomial optic: poly_loptic_ok, poly_pw; examples.                                     *)
From Coq Require Import List Arith Lia Bool.
From OHG Require Import Spec.Plain Proofs.PrimsThm Proofs.CCThm Proofs.SegThm Proofs.C08Thm
  Proofs.C01Lemmas Proofs.C01Thm Proofs.QuotThm Proofs.C03Plain Proofs.C09Thm Proofs.C10Lemmas
  Proofs.C10Strict Proofs.C10Thm Proofs.C19bLemmas Proofs.C14bThm Proofs.C14cPlain Proofs.C14dDefs.
From OHG Require Proofs.C14Thm Proofs.BackendInst Proofs.HarnessThm.
From OHG Require Import Run.Dispatch.
Import Coq.Init.Datatypes.   (* [length] is the one of lists, not of strings *)
Import ListNotations.
Close Scope string_scope.
Open Scope nat_scope.
Open Scope list_scope.
Open Scope bool_scope.

Set Implicit Arguments.
Arguments Nat.sub : simpl never.

(* ------------------------------------------------------------------------------------------ *)
(** * 1. the plain tensor is strictly associative with unit [pempty]                           *)
(* ------------------------------------------------------------------------------------------ *)
Section PTensorMonoid.
  Variables O A : Type.
  Implicit Types f g k : pohg O A.

  Lemma ptensor_assoc f g k : ptensor (ptensor f g) k = ptensor f (ptensor g k).
  Proof.
    unfold ptensor. cbn [p_nodes p_edges p_ins p_outs]. rewrite app_length. f_equal.
    - symmetry. apply app_assoc.
    - rewrite map_app, map_map, <- app_assoc. f_equal. f_equal. apply map_ext. intros e.
      rewrite shift_edge_shift_edge. f_equal. lia.
    - rewrite shiftl_app, shiftl_shiftl, <- app_assoc. f_equal. f_equal. f_equal. lia.
    - rewrite shiftl_app, shiftl_shiftl, <- app_assoc. f_equal. f_equal. f_equal. lia.
  Qed.

  Lemma ptensor_pempty_l f : ptensor pempty f = f.
  Proof.
    destruct f as [w es i o]. unfold ptensor, pempty. cbn [p_nodes p_edges p_ins p_outs List.app length].
    rewrite !shiftl_0. f_equal. rewrite <- (map_id es) at 2. apply map_ext. intros e. apply shift_edge_0.
  Qed.

  Lemma ptensor_pempty_r f : ptensor f pempty = f.
  Proof.
    destruct f as [w es i o]. unfold ptensor, pempty, shiftl. cbn [p_nodes p_edges p_ins p_outs map].
    rewrite !app_nil_r. reflexivity.
  Qed.

  Lemma fold_left_ptensor (cs : list (pohg O A)) : forall acc,
    fold_left (@ptensor O A) cs acc = ptensor acc (ptl cs).
  Proof.
    induction cs as [|c cs IH]; intros acc.
    - cbn [fold_left ptl fold_right]. symmetry. apply ptensor_pempty_r.
    - cbn [fold_left]. rewrite IH. unfold ptl. cbn [fold_right]. apply ptensor_assoc.
  Qed.

  Lemma fold_left_ptensor_pempty (cs : list (pohg O A)) : fold_left (@ptensor O A) cs pempty = ptl cs.
  Proof. rewrite fold_left_ptensor. apply ptensor_pempty_l. Qed.
End PTensorMonoid.

(* ------------------------------------------------------------------------------------------ *)
(** * 2. a semifinite indexed coproduct from a list of lists                                   *)
(* ------------------------------------------------------------------------------------------ *)
Section FromLists.
  Variable T : Type.

  Definition ics_of (ms : list (list T)) : ic (list T) :=
    mkIC (mkFF (map (@length T) ms) (length (concat ms) + 1)) (concat ms).

  Lemma from_lists_ok (ms : list (list T)) :
    (r <- ic_from_semifinite (semi_vops T) (map (@length T) ms) (concat ms) ;; unwrap r) = Ok (ics_of ms).
  Proof.
    assert (E : list_sum (map (@length T) ms) = vlen (semi_vops T) (concat ms)).
    { cbn [vlen semi_vops]. symmetry. apply length_concat. }
    rewrite (from_semifinite_ok (semi_vops T) _ _ E). reflexivity.
  Qed.

  Lemma wf_ics_of (ms : list (list T)) : wf_ics (ics_of ms).
  Proof.
    split; cbn [ics_of ic_sources ic_values table target]; rewrite length_concat; reflexivity.
  Qed.

  Lemma decode_ics_of (ms : list (list T)) : decode_s (ics_of ms) = ms.
  Proof. unfold decode_s, ics_of. cbn [ic_sources ic_values table]. apply segs_of_concat. Qed.
End FromLists.

(* the two ways of zipping three lists carry the same first components *)
Lemma map_fst3_combine {X Y Z W} (f : X -> W) (x : list X) : forall (a : list Y) (b : list Z),
  map (fun p : X * Y * Z => f (fst (fst p))) (combine (combine x a) b) =
  map (fun y : X * (Y * Z) => f (fst y)) (combine x (combine a b)).
Proof.
  induction x as [|x0 x IH]; intros [|a0 a] [|b0 b]; cbn [combine map fst]; try reflexivity.
  f_equal. apply IH.
Qed.

(* ------------------------------------------------------------------------------------------ *)
(** * 3. batches of generator images without pending pairs                                     *)
(* ------------------------------------------------------------------------------------------ *)
Section NoPending.
  Variables O A : Type.
  Implicit Types f g : lohg O A.

  (* well-formed, one label per adjacency entry, no pending unification *)
  Definition np_good g : Prop := lwf g /\ ladj_ok g /\ l_q (lo_h g) = ([], []).

  Lemma np_good_empty : np_good (@lohg_empty O A).
  Proof.
    destruct (lax_good_empty O A) as (W & L & _). split; [exact W|]. split; [exact L|reflexivity].
  Qed.

  Lemma np_good_tensor f g : np_good f -> np_good g -> np_good (lohg_tensor f g).
  Proof.
    intros (Wf & Lf & Qf) (Wg & Lg & Qg). split; [|split].
    - apply lwf_tensor; assumption.
    - apply ladj_ok_tensor; assumption.
    - unfold lohg_tensor, lhg_coproduct. cbn [lo_h l_q]. rewrite Qf, Qg. reflexivity.
  Qed.

  Lemma np_pending g : l_q (lo_h g) = ([], []) -> pending g = [].
  Proof. intros H. unfold pending. rewrite H. reflexivity. Qed.

  Lemma np_consistent g : l_q (lo_h g) = ([], []) -> labels_consistent g.
  Proof.
    intros H i j _ _ C. rewrite (np_pending g H) in C. apply conn_nil in C. subst j. reflexivity.
  Qed.

  Lemma labs_empty : labs (@lohg_empty O A) = pempty.
  Proof. reflexivity. Qed.
End NoPending.

Section Batch.
  Variables O1 A1 O2 A2 : Type.
  Variable F : lfunctor O1 A1 O2 A2.

  Notation img := (gen_img F).

  Lemma np_batch_from (l : list (gen O1 A1)) : forall acc,
    np_good acc -> Forall (fun y => np_good (img y)) l -> np_good (dyn_batch_from F acc l).
  Proof.
    induction l as [|y l IH]; intros acc Hacc Hl.
    - exact Hacc.
    - unfold dyn_batch_from. cbn [fold_left]. fold (dyn_batch_from F (lohg_tensor acc (img y)) l).
      inversion Hl as [|y' l' Hy Hl' E]; subst. apply IH; [|exact Hl'].
      apply np_good_tensor; assumption.
  Qed.

  Lemma np_batch (l : list (gen O1 A1)) :
    Forall (fun y => np_good (img y)) l -> np_good (dyn_batch F l).
  Proof. intros Hl. unfold dyn_batch. apply np_batch_from; [apply np_good_empty|exact Hl]. Qed.

  Lemma labs_batch_from (l : list (gen O1 A1)) : forall acc,
    np_good acc -> Forall (fun y => np_good (img y)) l ->
    labs (dyn_batch_from F acc l) = fold_left (@ptensor O2 A2) (map (fun y => labs (img y)) l) (labs acc).
  Proof.
    induction l as [|y l IH]; intros acc Hacc Hl.
    - reflexivity.
    - unfold dyn_batch_from. cbn [fold_left map]. fold (dyn_batch_from F (lohg_tensor acc (img y)) l).
      inversion Hl as [|y' l' Hy Hl' E]; subst.
      rewrite IH; [|apply np_good_tensor; assumption|exact Hl'].
      rewrite labs_tensor by apply Hacc. reflexivity.
  Qed.

  (* the plain form of the batch is the tensor of the plain forms of the images *)
  Lemma labs_batch (l : list (gen O1 A1)) : Forall (fun y => np_good (img y)) l ->
    labs (dyn_batch F l) = ptl (map (fun y => labs (img y)) l).
  Proof.
    intros Hl. unfold dyn_batch. rewrite labs_batch_from; [|apply np_good_empty|exact Hl].
    rewrite labs_empty. apply fold_left_ptensor_pempty.
  Qed.
End Batch.

(* ------------------------------------------------------------------------------------------ *)
(** * 4. strictification without pending pairs is an isomorphism                              *)
(* ------------------------------------------------------------------------------------------ *)
Section StrictNP.
  Variable B : Backend.
  Hypothesis OK : BackendOK B.
  Variables O A : Type.
  Variable eqO : O -> O -> bool.
  Hypothesis eqO_spec : forall x y, eqO x y = true <-> x = y.

  Lemma to_strict_np (g : lohg O A) : np_good g ->
    exists s, lohg_to_strict B eqO g = Ok s /\ wf_ohg s /\ NIso (abs s) (labs g) /\ Iso (abs s) (labs g).
  Proof.
    intros (W & L & Q).
    destruct (C10_to_strict_spec OK eqO eqO_spec W L (np_consistent g Q)) as (s & Hs & Ws & q & HQ & HK).
    exists s. split; [exact Hs|]. split; [exact Ws|].
    assert (G : Glued (labs g) [] (abs s)).
    { exists q. split; [exact HQ|]. intros i j Hi Hj. rewrite <- (np_pending g Q). apply HK; assumption. }
    pose proof (Glued_unique (lwf_pwf W) G (Glued_id (labs g))) as N.
    split; [exact N|]. apply NIso_Iso. exact N.
  Qed.
End StrictNP.

(* ------------------------------------------------------------------------------------------ *)
(** * 5. the induced strict functor on an arbitrary well-formed batch                          *)
(* ------------------------------------------------------------------------------------------ *)
Section DynOps.
  Variable B : Backend.
  Hypothesis OK : BackendOK B.
  Variables O1 A1 O2 A2 : Type.
  Variable eqO2 : O2 -> O2 -> bool.
  Hypothesis eqO2_spec : forall x y, eqO2 x y = true <-> x = y.
  Variable F : lfunctor O1 A1 O2 A2.

  (* the operation map strictifies the tensor of the images of the generators of the batch *)
  Lemma dyn_ops_value (ops : operations O1 A1) : wf_ops ops ->
    dyn_map_operations F B eqO2 ops = lohg_to_strict B eqO2 (dyn_batch F (gens ops)).
  Proof.
    intros (Wa & Wb & _ & _).
    destruct (C08_iter_s Wa) as (_ & _ & _ & _ & _ & _ & _ & _ & Ca & _).
    destruct (C08_iter_s Wb) as (_ & _ & _ & _ & _ & _ & _ & _ & Cb & _).
    unfold dyn_map_operations. rewrite Ca, Cb. cbn [bind].
    fold (gens ops). rewrite dyn_batch_model. reflexivity.
  Qed.

  (* ... hence, when the images have no pending pairs, returns a diagram isomorphic to the tensor of
     the plain forms of the images *)
  Lemma dyn_ops_pw (ops : operations O1 A1) : wf_ops ops ->
    Forall (fun y => np_good (gen_img F y)) (gens ops) ->
    exists c, sf_map_operations (dyn_functor F B eqO2) ops = Ok c /\ wf_ohg c /\
              Iso (abs c) (ptl (map (fun y => labs (gen_img F y)) (gens ops))).
  Proof.
    intros Wops Hl. cbn [dyn_functor sf_map_operations]. rewrite (dyn_ops_value Wops).
    destruct (to_strict_np OK eqO2 eqO2_spec (np_batch F Hl)) as (c & Hc & Wc & _ & I).
    exists c. split; [exact Hc|]. split; [exact Wc|]. rewrite <- (labs_batch F Hl). exact I.
  Qed.

  (* the object map *)
  Lemma dyn_object_pw (a : list O1) : exists fa,
    sf_map_object (dyn_functor F B eqO2) a = Ok fa /\ wf_ics fa /\ decode_s fa = map (lf_map_object F) a.
  Proof.
    exists (dyn_fw F a). cbn [dyn_functor sf_map_object].
    split; [apply dyn_map_object_val|]. split; [apply wf_dyn_fw|apply dyn_fw_decode].
  Qed.
End DynOps.

(* the iterator of a well-formed batch *)
Lemma ops_iter_value O A (ops : operations O A) : wf_ops ops ->
  ops_iter ops = Ok (combine (combine (ops_x ops) (decode_s (ops_a ops))) (decode_s (ops_b ops))).
Proof.
  intros (Wa & Wb & _ & _). destruct ops as [x a b]. cbn [ops_x ops_a ops_b] in *.
  apply C08_ops_iter; assumption.
Qed.

(* nothing is truncated in the generator list of a well-formed batch *)
Lemma gens_length O A (ops : operations O A) : wf_ops ops -> length (gens ops) = length (ops_x ops).
Proof.
  intros (Wa & Wb & La & Lb). unfold gens. rewrite !combine_length.
  unfold decode_s. rewrite !segs_length. unfold ic_len, ff_source in La, Lb. lia.
Qed.

(* ------------------------------------------------------------------------------------------ *)
(** * 6. the strict optic induced by a lax optic                                               *)
(* ------------------------------------------------------------------------------------------ *)
Section DynOptic.
  Variable B : Backend.
  Hypothesis OK : BackendOK B.
  Variables O1 A1 O2 A2 : Type.
  Variable eqO2 : O2 -> O2 -> bool.
  Hypothesis eqO2_spec : forall x y, eqO2 x y = true <-> x = y.
  Variable L : loptic O1 A1 O2 A2.
  Variable adm : gen O1 A1 -> Prop.

  Definition lax_img_ok (g : lohg O2 A2) (src tgt : list O2) : Prop :=
    lwf g /\ ladj_ok g /\ l_q (lo_h g) = ([], []) /\ lohg_source g = Ok src /\ lohg_target g = Ok tgt.

  (* the documented contract of the components of a lax optic, on admissible generators, images without
     pending unifications:  fwd x a b : F a -> F b ++ M x ,  rev x a b : M x ++ R b -> R a *)
  Definition loptic_ok : Prop := forall x a b, adm (x, (a, b)) ->
    lax_img_ok (lop_fwd_operation L x a b) (flat_map (lop_fwd_object L) a)
               (flat_map (lop_fwd_object L) b ++ lop_residual L x) /\
    lax_img_ok (lop_rev_operation L x a b) (lop_residual L x ++ flat_map (lop_rev_object L) b)
               (flat_map (lop_rev_object L) a).

  Definition dyn_fimg (y : gen O1 A1) : pohg O2 A2 := labs (lop_fwd_operation L (fst y) (fst (snd y)) (snd (snd y))).
  Definition dyn_rimg (y : gen O1 A1) : pohg O2 A2 := labs (lop_rev_operation L (fst y) (fst (snd y)) (snd (snd y))).
  Definition dyn_Mres (y : gen O1 A1) : list O2 := lop_residual L (fst y).

  (* the two lax functors of the optic *)
  Definition fwd_lf : lfunctor O1 A1 O2 A2 := mkLF (lop_fwd_object L) (lop_fwd_operation L).
  Definition rev_lf : lfunctor O1 A1 O2 A2 := mkLF (lop_rev_object L) (lop_rev_operation L).

  Lemma lax_img_np g s t : lax_img_ok g s t -> np_good g.
  Proof. intros (W & La & Q & _ & _). split; [exact W|]. split; [exact La|exact Q]. Qed.

  Lemma adm_fwd_np (l : list (gen O1 A1)) : loptic_ok -> Forall adm l ->
    Forall (fun y => np_good (gen_img fwd_lf y)) l.
  Proof.
    intros HL Hl. apply Forall_forall. intros [x [a b]] Hy.
    rewrite Forall_forall in Hl. destruct (HL x a b (Hl _ Hy)) as [Hf _].
    exact (lax_img_np Hf).
  Qed.

  Lemma adm_rev_np (l : list (gen O1 A1)) : loptic_ok -> Forall adm l ->
    Forall (fun y => np_good (gen_img rev_lf y)) l.
  Proof.
    intros HL Hl. apply Forall_forall. intros [x [a b]] Hy.
    rewrite Forall_forall in Hl. destruct (HL x a b (Hl _ Hy)) as [_ Hr].
    exact (lax_img_np Hr).
  Qed.

  (* the residual of a well-formed batch: the residuals of its labels, in order *)
  Lemma residual_value (ops : operations O1 A1) : wf_ops ops ->
    op_residual (to_strict_optic B eqO2 L) ops = Ok (ics_of (map dyn_Mres (gens ops))).
  Proof.
    intros Wops. unfold to_strict_optic. cbn [op_residual].
    rewrite (ops_iter_value Wops). cbn [bind].
    rewrite (map_fst3_combine (lop_residual L)). fold (gens ops).
    change (map (fun y : gen O1 A1 => lop_residual L (fst y)) (gens ops)) with (map dyn_Mres (gens ops)).
    apply from_lists_ok.
  Qed.

  Theorem to_strict_optic_pw : loptic_ok ->
    pw_contract (to_strict_optic B eqO2 L) (lop_fwd_object L) (lop_rev_object L) adm dyn_fimg dyn_rimg dyn_Mres.
  Proof.
    intros HL. constructor.
    - intros a. exact (dyn_object_pw B eqO2 fwd_lf a).
    - intros a. exact (dyn_object_pw B eqO2 rev_lf a).
    - intros ops Wops _. exists (ics_of (map dyn_Mres (gens ops))).
      split; [exact (residual_value Wops)|]. split; [apply wf_ics_of|apply decode_ics_of].
    - intros ops Wops Hadm.
      exact (dyn_ops_pw OK eqO2 eqO2_spec fwd_lf Wops (adm_fwd_np HL Hadm)).
    - intros ops Wops Hadm.
      exact (dyn_ops_pw OK eqO2 eqO2_spec rev_lf Wops (adm_rev_np HL Hadm)).
    - intros [x [a b]] Hy. destruct (HL x a b Hy) as [(W & _ & _ & S & T) _].
      unfold dyn_fimg, dyn_Mres. cbn [fst snd].
      split; [exact (lwf_pwf W)|]. split; [exact (lohg_source_type _ S)|exact (lohg_target_type _ T)].
    - intros [x [a b]] Hy. destruct (HL x a b Hy) as [_ (W & _ & _ & S & T)].
      unfold dyn_rimg, dyn_Mres. cbn [fst snd].
      split; [exact (lwf_pwf W)|]. split; [exact (lohg_source_type _ S)|exact (lohg_target_type _ T)].
  Qed.
End DynOptic.

(* ------------------------------------------------------------------------------------------ *)
(** * 7. the polynomial optic                                                                  *)
(* ------------------------------------------------------------------------------------------ *)
(* the polynomial optic: admissible = the generator has the arity of its label, over the one object 0 *)
Definition poly_adm (y : gen nat nat) : Prop :=
  fst (snd y) = HarnessThm.poly_src (fst y) /\ snd (snd y) = HarnessThm.poly_tgt (fst y).

Theorem poly_loptic_ok : loptic_ok poly_optic poly_adm.
Proof.
  intros x a b [Ha Hb]. cbn [fst snd] in Ha, Hb. subst a b.
  destruct (HarnessThm.poly_optic_contract x)
    as (((Wf & Lf & _ & Sf & Tf) & Nf) & ((Wr & Lr & _ & Sr & Tr) & Nr)).
  split.
  - split; [exact Wf|]. split; [exact Lf|]. split; [exact Nf|]. split; [exact Sf|exact Tf].
  - split; [exact Wr|]. split; [exact Lr|]. split; [exact Nr|]. split; [exact Sr|exact Tr].
Qed.

Theorem poly_pw : pw_contract C14Thm.poly_strict_optic (fun _ => [0]) (fun _ => [0]) poly_adm
                    (dyn_fimg poly_optic) (dyn_rimg poly_optic) (dyn_Mres poly_optic).
Proof.
  exact (@to_strict_optic_pw VecBackend BackendInst.VecBackend_ok nat nat nat nat Nat.eqb Nat.eqb_eq
           poly_optic poly_adm poly_loptic_ok).
Qed.

(* ------------------------------------------------------------------------------------------ *)
(** * examples                                                                                 *)
(* ------------------------------------------------------------------------------------------ *)
(* a batch of two operations: mul : 0 0 -> 0, neg : 0 -> 0 *)
Definition ex_dyn_ops : operations nat nat :=
  mkOps [1; 2] (mkIC (mkFF [2; 1] 4) [0; 0; 0]) (mkIC (mkFF [1; 1] 3) [0; 0]).

Example ex_dyn_wf : wf_ops ex_dyn_ops.
Proof. repeat split. Qed.

Example ex_dyn_gens : gens ex_dyn_ops = [(1, ([0; 0], [0])); (2, ([0], [0]))].
Proof. reflexivity. Qed.

Example ex_dyn_adm : Forall poly_adm (gens ex_dyn_ops).
Proof. rewrite ex_dyn_gens. repeat constructor. Qed.

(* the hypotheses of the main theorem are satisfiable: the polynomial optic with VecBackend *)
Example ex_dyn_hyps : BackendOK VecBackend /\ (forall x y, Nat.eqb x y = true <-> x = y) /\
  loptic_ok poly_optic poly_adm /\ wf_ops ex_dyn_ops /\ Forall poly_adm (gens ex_dyn_ops).
Proof.
  split; [exact BackendInst.VecBackend_ok|]. split; [exact Nat.eqb_eq|].
  split; [exact poly_loptic_ok|]. split; [exact ex_dyn_wf|exact ex_dyn_adm].
Qed.

(* what the components return on the batch *)
Example ex_dyn_residual :
  op_residual C14Thm.poly_strict_optic ex_dyn_ops = Ok (mkIC (mkFF [2; 0] 3) [0; 0]).
Proof. vm_compute. reflexivity. Qed.

Definition ex_dyn_fwd : ohg nat nat :=
  mkOHG (mkFF [0; 1; 7] 9) (mkFF [6; 3; 5; 8] 9)
    (mkHG (mkIC (mkFF [1; 1; 2; 1] 6) (mkFF [0; 1; 2; 4; 7] 9))
          (mkIC (mkFF [2; 2; 1; 1] 7) (mkFF [2; 3; 4; 5; 6; 8] 9))
          [0; 0; 0; 0; 0; 0; 0; 0; 0] [3; 3; 1; 2]).

Definition ex_dyn_rev : ohg nat nat :=
  mkOHG (mkFF [0; 1; 2; 7] 9) (mkFF [5; 6; 8] 9)
    (mkHG (mkIC (mkFF [1; 2; 2; 1] 7) (mkFF [2; 1; 3; 0; 4; 7] 9))
          (mkIC (mkFF [2; 1; 1; 1] 6) (mkFF [3; 4; 5; 6; 8] 9))
          [0; 0; 0; 0; 0; 0; 0; 0; 0] [3; 1; 1; 2]).

(* forward: (copy ● copy ; mul with the two copies kept as residual) ● neg *)
Example ex_dyn_fwd_value :
  sf_map_operations (op_fwd C14Thm.poly_strict_optic) ex_dyn_ops = Ok ex_dyn_fwd.
Proof. vm_compute. reflexivity. Qed.

Example ex_dyn_rev_value :
  sf_map_operations (op_rev C14Thm.poly_strict_optic) ex_dyn_ops = Ok ex_dyn_rev.
Proof. vm_compute. reflexivity. Qed.

(* with the canonical numbering of VecBackend the iso of the theorem is even an equality here *)
Example ex_dyn_fwd_tensor :
  abs ex_dyn_fwd = ptl (map (dyn_fimg poly_optic) (gens ex_dyn_ops)) /\
  abs ex_dyn_rev = ptl (map (dyn_rimg poly_optic) (gens ex_dyn_ops)).
Proof. split; vm_compute; reflexivity. Qed.

(* the theorem, used on the batch *)
Example ex_dyn_pw_fwd : exists fwd,
  sf_map_operations (op_fwd C14Thm.poly_strict_optic) ex_dyn_ops = Ok fwd /\ wf_ohg fwd /\
  Iso (abs fwd) (ptl (map (dyn_fimg poly_optic) (gens ex_dyn_ops))).
Proof. exact (pw_fwd_ops poly_pw ex_dyn_wf ex_dyn_adm). Qed.

(* the images of a generator that is not admissible need not have the documented type: the contract
   is only asked on [adm]; e.g. mul applied at arity 1 -> 1 is not admissible *)
Example ex_dyn_not_adm : ~ poly_adm (1, ([0], [0])).
Proof. intros [H _]. discriminate H. Qed.

Print Assumptions to_strict_optic_pw.
Print Assumptions poly_loptic_ok.
Print Assumptions poly_pw.
