(* C14d, general form, part 2: the optic image of a diagram under the point-wise contract.
   - generators of quotients / disjoint unions, of the operation batch of a strict diagram;
   - [pw_map_arrow]: optic_map_arrow is defined on admissible diagrams, is the substitution instance of
     the batch image, and is isomorphic to the canonical presentation (KD, KP) of C14dDefs.v;
   - the general theorems: the optic image respects isomorphism, preserves composition and tensor up
     to isomorphism. *)
From OHG Require Import Spec.Plain Proofs.PrimsThm Proofs.SegThm Proofs.C08Thm
  Proofs.C01Lemmas Proofs.C01Thm Proofs.QuotThm Proofs.C03Plain Proofs.C12Lemmas Proofs.C12Plain Proofs.C12Thm
  Proofs.C12Struct Proofs.C12Tensor Proofs.C12Compose
  Proofs.C14Thm Proofs.C14bThm Proofs.C14cPlain Proofs.C14cBatch Proofs.C14cThm
  Proofs.C14dDefs Proofs.C14dPlain Proofs.C14dGen Proofs.C14dPerm.

Set Implicit Arguments.
Arguments Nat.sub : simpl never.

(* ======================= generators ======================= *)
Lemma lsel_ext {T} (w w' : list T) (q : nat -> nat) l :
  (forall i, In i l -> nth_error w' (q i) = nth_error w i) -> lsel w' (map q l) = lsel w l.
Proof.
  intros H. unfold lsel. induction l as [|i l IH]; [reflexivity|].
  cbn [map flat_map]. rewrite (H i (or_introl eq_refl)). f_equal.
  apply IH. intros j Hj. apply H. right. exact Hj.
Qed.

Lemma lsel_spec {T} (w : list T) l s : map Some s = map (nth_error w) l -> lsel w l = s.
Proof.
  revert s; induction l as [|i l IH]; intros [|x s] H; cbn [map] in H; try discriminate.
  - reflexivity.
  - injection H as H1 H2. unfold lsel. cbn [flat_map]. rewrite <- H1. cbn [app].
    f_equal. apply IH. exact H2.
Qed.

Lemma segs_lsel {T} (w : list T) sizes refs vals : map Some vals = map (nth_error w) refs ->
  segs sizes vals = map (lsel w) (segs sizes refs).
Proof.
  revert refs vals. induction sizes as [|k sizes IH]; intros refs vals H; [reflexivity|].
  cbn [segs map]. f_equal.
  - symmetry. apply lsel_spec. rewrite <- !firstn_map. rewrite H. reflexivity.
  - apply IH. rewrite <- !skipn_map. rewrite H. reflexivity.
Qed.

Section PGens.
  Variables O1 A1 : Type.
  Implicit Types g D h : pohg O1 A1.

  Lemma gen_of_quot (w w' : list O1) (q : nat -> nat) (e : pedge A1) :
    all_lt (length w) (pe_src e) -> all_lt (length w) (pe_tgt e) ->
    (forall i, i < length w -> nth_error w' (q i) = nth_error w i) ->
    gen_of w' (map_edge q e) = gen_of w e.
  Proof.
    intros Hs Ht Hq. unfold gen_of, map_edge. cbn [pe_lbl pe_src pe_tgt].
    rewrite (lsel_ext w w' q (pe_src e)), (lsel_ext w w' q (pe_tgt e)); [reflexivity| |];
      intros i Hi; apply Hq; [exact (@all_lt_In _ _ _ Ht Hi)|exact (@all_lt_In _ _ _ Hs Hi)].
  Qed.

  (* a quotient has the generators of the diagram it is a quotient of *)
  Lemma pgens_quot D q h : pwf D -> IsQuot D q h -> pgens h = pgens D.
  Proof.
    intros (We & _ & _) (_ & _ & Hl & He & _ & _). unfold pgens. rewrite He, map_map.
    apply map_ext_in. intros e Hin. destruct (We e Hin) as [H1 H2].
    apply gen_of_quot; assumption.
  Qed.

  Lemma gen_of_app_l (w w2 : list O1) (e : pedge A1) :
    all_lt (length w) (pe_src e) -> all_lt (length w) (pe_tgt e) -> gen_of (w ++ w2) e = gen_of w e.
  Proof.
    intros Hs Ht. rewrite <- (map_edge_id e) at 1. apply gen_of_quot; try assumption.
    intros i Hi. apply nth_error_app1. exact Hi.
  Qed.

  Lemma gen_of_app_r (w w2 : list O1) (e : pedge A1) :
    gen_of (w ++ w2) (shift_edge (length w) e) = gen_of w2 e.
  Proof.
    unfold gen_of, shift_edge, shiftl. cbn [pe_lbl pe_src pe_tgt].
    rewrite (lsel_ext w2 (w ++ w2) (fun x => x + length w) (pe_src e)),
            (lsel_ext w2 (w ++ w2) (fun x => x + length w) (pe_tgt e)); [reflexivity| |];
      intros i _; rewrite nth_error_app2 by lia; f_equal; lia.
  Qed.

  Lemma pgens_ptensor f g : pwf f -> pgens (ptensor f g) = pgens f ++ pgens g.
  Proof.
    intros (We & _ & _). unfold pgens, ptensor. cbn [p_nodes p_edges]. rewrite map_app, map_map. f_equal.
    - apply map_ext_in. intros e Hin. destruct (We e Hin) as [H1 H2]. apply gen_of_app_l; assumption.
    - apply map_ext. intros e. apply gen_of_app_r.
  Qed.

  Lemma pgens_pjoin f g : pwf f -> pgens (pjoin f g) = pgens f ++ pgens g.
  Proof. intros W. exact (pgens_ptensor g W). Qed.

  Lemma pgens_compose f g h : pwf f -> pwf g -> IsCompose f g h -> pgens h = pgens f ++ pgens g.
  Proof.
    intros Wf Wg (q & Q & _). rewrite (pgens_quot (pwf_pjoin Wf Wg) Q). apply pgens_pjoin. exact Wf.
  Qed.
End PGens.

(* a well-formed segmented array is determined by its blocks *)
Lemma ic_ext {T} (c d : ic (list T)) : wf_ics c -> wf_ics d -> decode_s c = decode_s d -> c = d.
Proof.
  intros Wc Wd E.
  pose proof (decode_s_lengths Wc) as Lc. pose proof (decode_s_lengths Wd) as Ld.
  pose proof (concat_decode_s Wc) as Vc. pose proof (concat_decode_s Wd) as Vd.
  rewrite E in Lc, Vc. rewrite Ld in Lc. rewrite Vd in Vc.
  destruct Wc as [C1 C2]. destruct Wd as [D1 D2].
  destruct c as [[tc gc] vc]. destruct d as [[td gd] vd].
  cbn [ic_sources ic_values table target] in Lc, Vc, C1, D1.
  subst td vd. f_equal. f_equal. lia.
Qed.

(* ======================= the operation batch of a strict diagram ======================= *)
Section DiagramBatch.
  Variables O1 A1 : Type.

  Lemma zip3_map_src (x : list A1) : forall ss ts, length ss = length x -> length ts = length x ->
    map (@pe_src A1) (zip3 x ss ts) = ss.
  Proof.
    induction x as [|x0 x IH]; intros [|s ss] [|t ts] Hs Ht; cbn [length] in *; try discriminate; [reflexivity|].
    cbn [zip3 map pe_src]. rewrite IH by lia. reflexivity.
  Qed.

  Lemma zip3_map_tgt (x : list A1) : forall ss ts, length ss = length x -> length ts = length x ->
    map (@pe_tgt A1) (zip3 x ss ts) = ts.
  Proof.
    induction x as [|x0 x IH]; intros [|s ss] [|t ts] Hs Ht; cbn [length] in *; try discriminate; [reflexivity|].
    cbn [zip3 map pe_tgt]. rewrite IH by lia. reflexivity.
  Qed.

  Lemma zip3_gens (w : list O1) (x : list A1) : forall ss ts,
    map (gen_of w) (zip3 x ss ts) = combine x (combine (map (lsel w) ss) (map (lsel w) ts)).
  Proof.
    induction x as [|x0 x IH]; intros [|s ss] [|t ts]; try reflexivity.
    cbn [zip3 map combine]. rewrite IH. reflexivity.
  Qed.

  Variable s : ohg O1 A1.
  Hypothesis Ws : wf_ohg s.

  Lemma diagram_edge_sources : concat (map (@pe_src A1) (p_edges (abs s))) = edge_sources s.
  Proof.
    destruct Ws as ((((S1 & S2) & _) & ((T1 & T2) & _) & Hxs & Hxt & _) & _).
    unfold abs, abs_hg_edges. cbn [p_edges].
    rewrite zip3_map_src by (unfold decode_f; rewrite segs_length; assumption).
    unfold decode_f, edge_sources. apply SegThm.segs_concat. exact S2.
  Qed.

  Lemma diagram_edge_targets : concat (map (@pe_tgt A1) (p_edges (abs s))) = edge_targets s.
  Proof.
    destruct Ws as ((((S1 & S2) & _) & ((T1 & T2) & _) & Hxs & Hxt & _) & _).
    unfold abs, abs_hg_edges. cbn [p_edges].
    rewrite zip3_map_tgt by (unfold decode_f; rewrite segs_length; assumption).
    unfold decode_f, edge_targets. apply SegThm.segs_concat. exact T2.
  Qed.

  (* the batch of operations of s, with the generators of s *)
  Lemma diagram_ops : exists va vb,
    to_operations s = Ok (to_ops_pure s va vb) /\ wf_ops (to_ops_pure s va vb) /\
    gens (to_ops_pure s va vb) = pgens (abs s) /\
    map Some va = map (nth_error (h_w (o_h s))) (edge_sources s) /\
    map Some vb = map (nth_error (h_w (o_h s))) (edge_targets s).
  Proof.
    destruct (to_operations_val Ws) as (va & vb & Hops & Ea & Eb).
    pose proof (map_Some_length _ _ _ Ea) as La. pose proof (map_Some_length _ _ _ Eb) as Lb.
    exists va, vb. split; [exact Hops|]. split; [exact (wf_to_ops_pure va vb Ws La Lb)|].
    split; [|split; assumption].
    unfold gens, pgens, abs, abs_hg_edges. cbn [p_nodes p_edges to_ops_pure ops_x ops_a ops_b].
    rewrite zip3_gens. f_equal. f_equal.
    - unfold decode_s, decode_f. cbn [ic_sources ic_values]. apply segs_lsel. exact Ea.
    - unfold decode_s, decode_f. cbn [ic_sources ic_values]. apply segs_lsel. exact Eb.
  Qed.
End DiagramBatch.

(* ======================= the optic image of an admissible diagram ======================= *)
Section PWArrow.
  Variable B : Backend.
  Hypothesis OK : BackendOK B.
  Variables O1 A1 O2 A2 : Type.
  Variable eqO1 : O1 -> O1 -> bool.
  Hypothesis eqO1_spec : forall x y, eqO1 x y = true <-> x = y.
  Variable eqO2 : O2 -> O2 -> bool.
  Hypothesis eqO2_spec : forall x y, eqO2 x y = true <-> x = y.
  Variable P : optic O1 A1 O2 A2.
  Variables Fobj Robj : O1 -> list O2.
  Variable adm : gen O1 A1 -> Prop.
  Variables fimg rimg : gen O1 A1 -> pohg O2 A2.
  Variable Mres : gen O1 A1 -> list O2.
  Hypothesis PW : pw_contract P Fobj Robj adm fimg rimg Mres.

  Notation Oo := (Oobj Fobj Robj).
  Notation ci := (cimg Fobj Robj fimg rimg Mres).

  (* admissible diagrams: every hyperedge is an admissible generator *)
  Definition adm_diagram (s : ohg O1 A1) : Prop := wf_ohg s /\ Forall adm (pgens (abs s)).

  (* the substitution instance of C12 in the plain form of C14dDefs.v *)
  Lemma IsSubst_PSubst (s : ohg O1 A1) (fw : ic (list O2)) (fx : ohg O2 A2) h :
    IsSubst s fw fx h <->
    PSubst (ic_values fw) (abs fx) (expand fw (table (o_s s))) (expand fw (table (o_t s)))
           (expand fw (edge_sources s)) (expand fw (edge_targets s)) h.
  Proof.
    unfold IsSubst, PSubst, Glued, KerIs. rewrite sub_D_len. reflexivity.
  Qed.

  (* the functor data of an admissible diagram and the run of optic_map_arrow on them *)
  Theorem pw_map_arrow (s : ohg O1 A1) : adm_diagram s ->
    exists H fw fx,
      optic_map_arrow B eqO2 P s = Ok H /\ wf_ohg H /\
      optic_map_object P (h_w (o_h s)) = Ok fw /\ wf_ics fw /\ ic_len fw = length (h_w (o_h s)) /\
      decode_s fw = map Oo (h_w (o_h s)) /\ ic_values fw = kW Oo (abs s) /\
      (forall l, expand fw l = kex Oo (abs s) l) /\
      wf_ohg fx /\ fx_typed s fw fx /\
      spider_map_arrow B eqO2 s fw fx = Ok H /\ IsSubst s fw fx (abs H) /\
      Iso (abs fx) (kX ci (abs s)).
  Proof.
    intros (Ws & Had).
    destruct (diagram_ops Ws) as (va & vb & Hops & Wops & Eg & Ea & Eb).
    rewrite <- Eg in Had.
    destruct (batch_decomposition OK eqO2 eqO2_spec PW Wops Had) as (fx & Hfx & (Wfx & HSfx & HTfx) & Ifx).
    cbn [to_ops_pure ops_a ops_b ic_values] in HSfx, HTfx.
    destruct (pw_object PW (h_w (o_h s))) as (fw & Hfw & Wfw & Lfw & Dfw & Vfw).
    assert (Hty : fx_typed s fw fx).
    { split.
      - rewrite HSfx. symmetry. apply (expand_labels _ _ Wfw Dfw). exact Ea.
      - rewrite HTfx. symmetry. apply (expand_labels _ _ Wfw Dfw). exact Eb. }
    destruct (C12_substitution_gen OK eqO2 eqO2_spec Ws Wfw Lfw Wfx Hty) as (H & Hrun & WH & Hsub).
    exists H, fw, fx.
    split.
    { unfold optic_map_arrow, define_map_arrow. rewrite Hops. cbn [bind optic_as_functor sf_map_operations sf_map_object].
      rewrite Hfx. cbn [bind]. rewrite Hfw. cbn [bind]. exact Hrun. }
    split; [exact WH|]. split; [exact Hfw|]. split; [exact Wfw|]. split; [exact Lfw|].
    split; [exact Dfw|]. split; [exact Vfw|].
    split.
    { intros l. unfold expand, kex, ksizes. cbn [abs p_nodes].
      rewrite (table_of_decode Oo (h_w (o_h s)) Wfw Dfw). reflexivity. }
    split; [exact Wfx|]. split; [exact Hty|]. split; [exact Hrun|]. split; [exact Hsub|].
    rewrite Eg in Ifx. exact Ifx.
  Qed.

  (* ... hence the image is isomorphic to the canonical presentation *)
  Theorem pw_map_arrow_canonical (s : ohg O1 A1) : adm_diagram s ->
    exists H hK, optic_map_arrow B eqO2 P s = Ok H /\ wf_ohg H /\
      Glued (KD Oo ci (abs s)) (KP Oo ci (abs s)) hK /\ Iso (abs H) hK.
  Proof.
    intros HA. pose proof HA as (Ws & _).
    destruct (pw_map_arrow HA)
      as (H & fw & fx & HH & WH & _ & Wfw & _ & _ & Vfw & Eex & Wfx & _ & _ & Hsub & Ifx).
    apply IsSubst_PSubst in Hsub.
    destruct (PSubst_transport (wf_abs_pwf Wfx) Ifx (expand_lt _ Wfw) (expand_lt _ Wfw)
                (expand_lt _ Wfw) (expand_lt _ Wfw) Hsub) as (hK & GK & IK).
    exists H, hK. split; [exact HH|]. split; [exact WH|]. split; [|exact IK].
    unfold PSubst in GK. rewrite !Eex, Vfw in GK.
    rewrite <- (diagram_edge_sources Ws), <- (diagram_edge_targets Ws) in GK. exact GK.
  Qed.

  (* ---------- replacing the batch image by an isomorphic one ---------- *)
  Lemma fx_typed_iso (s : ohg O1 A1) fw (fx fx' : ohg O2 A2) : wf_ohg fx -> Iso (abs fx) (abs fx') ->
    fx_typed s fw fx -> fx_typed s fw fx'.
  Proof.
    intros W I [Hs Ht]. pose proof (wf_abs_pwf W) as Wp. split.
    - rewrite (Iso_src_type Wp I). exact Hs.
    - rewrite (Iso_tgt_type Wp I). exact Ht.
  Qed.

  Lemma subst_iso_data (h : ohg O1 A1) fw (fx' fx H h0 : ohg O2 A2) :
    wf_ohg h -> wf_ics fw -> ic_len fw = length (h_w (o_h h)) -> wf_ohg fx' -> wf_ohg fx ->
    fx_typed h fw fx' -> Iso (abs fx') (abs fx) -> IsSubst h fw fx' (abs H) ->
    spider_map_arrow B eqO2 h fw fx = Ok h0 -> Iso (abs H) (abs h0).
  Proof.
    intros Wh Wfw Lfw Wfx' Wfx Hty I Hsub Hrun.
    pose proof (fx_typed_iso Wfx' I Hty) as Hty2.
    destruct (C12_substitution_gen OK eqO2 eqO2_spec Wh Wfw Lfw Wfx Hty2) as (h0' & Hrun' & _ & Hsub').
    assert (h0' = h0) by congruence. subst h0'.
    apply IsSubst_PSubst in Hsub. apply IsSubst_PSubst in Hsub'.
    exact (PSubst_iso (wf_abs_pwf Wfx') I (expand_lt _ Wfw) (expand_lt _ Wfw) (expand_lt _ Wfw)
             (expand_lt _ Wfw) Hsub Hsub').
  Qed.

  Lemma kX_app (f g h : pohg O1 A1) : pgens h = pgens f ++ pgens g ->
    kX ci h = ptensor (kX ci f) (kX ci g).
  Proof. unfold kX. intros ->. rewrite map_app, ptl_app. reflexivity. Qed.

  (* the batch image of a diagram whose generators are those of f followed by those of g is the tensor
     of the batch images of f and g *)
  Lemma batch_iso_tensor (f g h : pohg O1 A1) (fxf fxg fxh : ohg O2 A2) :
    wf_ohg fxf -> wf_ohg fxg -> pgens h = pgens f ++ pgens g ->
    Iso (abs fxf) (kX ci f) -> Iso (abs fxg) (kX ci g) -> Iso (abs fxh) (kX ci h) ->
    Iso (abs fxh) (abs (tensor_pure fxf fxg)).
  Proof.
    intros Wf Wg E If Ig Ih. rewrite (abs_tensor_pure fxg Wf), (kX_app f g h E) in *.
    apply Iso_trans with (1 := Ih).
    pose proof (wf_abs_pwf Wf) as Pf. pose proof (wf_abs_pwf Wg) as Pg.
    apply Iso_ptensor.
    - exact (Iso_pwf Pf If).
    - exact (Iso_sym Pf If).
    - exact (Iso_sym Pg Ig).
  Qed.

  (* ======================= composition ======================= *)
  Theorem pw_preserves_composition (f g h : ohg O1 A1) : adm_diagram f -> adm_diagram g ->
    ohg_compose B eqO1 f g = Ok (Some h) ->
    adm_diagram h /\
    exists F G H FG, optic_map_arrow B eqO2 P f = Ok F /\ optic_map_arrow B eqO2 P g = Ok G /\
      optic_map_arrow B eqO2 P h = Ok H /\ ohg_compose B eqO2 F G = Ok (Some FG) /\ Iso (abs H) (abs FG).
  Proof.
    intros HAf HAg Hc. pose proof HAf as (Wf & Af). pose proof HAg as (Wg & Ag).
    assert (Hty : tgt_type (abs f) = src_type (abs g)).
    { destruct (ohg_target_ok Wf) as (tf & Htf & Htf').
      destruct (ohg_source_ok Wg) as (sg & Hsg & Hsg').
      destruct (list_eqb eqO1 tf sg) eqn:E.
      - apply (C01Lemmas.list_eqb_spec eqO1 eqO1_spec) in E. congruence.
      - exfalso. unfold ohg_compose in Hc. rewrite Htf, Hsg in Hc. cbn [bind] in Hc.
        rewrite E in Hc. discriminate. }
    destruct (C01_compose_is_gluing OK eqO1 eqO1_spec Wf Wg Hty) as (h' & Hh' & Wh & IC).
    assert (h' = h) by congruence. subst h'.
    pose proof (pgens_compose (wf_abs_pwf Wf) (wf_abs_pwf Wg) IC) as Epg.
    assert (HAh : adm_diagram h).
    { split; [exact Wh|]. rewrite Epg. apply Forall_app. split; assumption. }
    split; [exact HAh|].
    destruct (pw_map_arrow HAf)
      as (F & fwf & fxf & HF & _ & _ & Wfwf & _ & Dfwf & _ & _ & Wfxf & Tyf & RunF & _ & Ixf).
    destruct (pw_map_arrow HAg)
      as (G & fwg & fxg & HG & _ & _ & Wfwg & _ & Dfwg & _ & _ & Wfxg & Tyg & RunG & _ & Ixg).
    destruct (pw_map_arrow HAh)
      as (H & fw & fxh & HH & _ & _ & Wfw & Lfw & Dfw & _ & _ & Wfxh & Tyh & _ & Subh & Ixh).
    pose proof (batch_iso_tensor (abs f) (abs g) (abs h) Wfxf Wfxg Epg Ixf Ixg Ixh) as Ifx.
    destruct (C12_preserves_composition_holds_here OK eqO1 eqO1_spec eqO2 eqO2_spec Oo
                Wf Wg Wfwf Dfwf Wfxf Tyf Wfwg Dfwg Wfxg Tyg Hc Wfw Dfw (ohg_tensor_val fxg Wfxf) RunF RunG)
      as (h0 & c & R0 & Rc & I0).
    exists F, G, H, c. split; [exact HF|]. split; [exact HG|]. split; [exact HH|]. split; [exact Rc|].
    apply Iso_trans with (2 := I0).
    exact (subst_iso_data Wh Wfw Lfw Wfxh (wf_tensor_pure Wfxf Wfxg) Tyh Ifx Subh R0).
  Qed.

  (* ======================= tensor ======================= *)
  Theorem pw_preserves_tensor (f g h : ohg O1 A1) : adm_diagram f -> adm_diagram g ->
    ohg_tensor f g = Ok h ->
    adm_diagram h /\
    exists F G H FG, optic_map_arrow B eqO2 P f = Ok F /\ optic_map_arrow B eqO2 P g = Ok G /\
      optic_map_arrow B eqO2 P h = Ok H /\ ohg_tensor F G = Ok FG /\ Iso (abs H) (abs FG).
  Proof.
    intros HAf HAg Ht. pose proof HAf as (Wf & Af). pose proof HAg as (Wg & Ag).
    assert (Eh : h = tensor_pure f g) by (rewrite (ohg_tensor_val g Wf) in Ht; congruence).
    pose proof (wf_tensor_pure Wf Wg) as Wh. rewrite <- Eh in Wh.
    assert (Epg : pgens (abs h) = pgens (abs f) ++ pgens (abs g)).
    { rewrite Eh, (abs_tensor_pure g Wf). apply pgens_ptensor. exact (wf_abs_pwf Wf). }
    assert (HAh : adm_diagram h).
    { split; [exact Wh|]. rewrite Epg. apply Forall_app. split; assumption. }
    split; [exact HAh|].
    destruct (pw_map_arrow HAf)
      as (F & fwf & fxf & HF & _ & _ & Wfwf & Lfwf & Dfwf & _ & _ & Wfxf & Tyf & RunF & _ & Ixf).
    destruct (pw_map_arrow HAg)
      as (G & fwg & fxg & HG & _ & _ & Wfwg & Lfwg & Dfwg & _ & _ & Wfxg & Tyg & RunG & _ & Ixg).
    destruct (pw_map_arrow HAh)
      as (H & fw & fxh & HH & _ & _ & Wfw & Lfw & Dfw & _ & _ & Wfxh & Tyh & _ & Subh & Ixh).
    pose proof (batch_iso_tensor (abs f) (abs g) (abs h) Wfxf Wfxg Epg Ixf Ixg Ixh) as Ifx.
    assert (Efw : ic_coproduct (semi_vops O2) fwf fwg = Ok (Some fw)).
    { rewrite (coproduct_s_ok Wfwf Wfwg). f_equal. f_equal. apply ic_ext.
      - apply cop_s_wf; assumption.
      - exact Wfw.
      - rewrite (cop_s_decode Wfwf Wfwg), Dfwf, Dfwg, Dfw, Eh. cbn [tensor_pure o_h h_w].
        rewrite map_app. reflexivity. }
    destruct (C12_preserves_tensor_holds OK eqO2 eqO2_spec Wf Wg Wfwf Lfwf Wfxf Tyf Wfwg Lfwg Wfxg Tyg
                Ht Efw (ohg_tensor_val fxg Wfxf) RunF RunG) as (h0 & t & R0 & Rt & I0).
    exists F, G, H, t. split; [exact HF|]. split; [exact HG|]. split; [exact HH|]. split; [exact Rt|].
    apply Iso_trans with (2 := I0).
    exact (subst_iso_data Wh Wfw Lfw Wfxh (wf_tensor_pure Wfxf Wfxg) Tyh Ifx Subh R0).
  Qed.

  (* ======================= isomorphism ======================= *)
  Theorem pw_respects_iso (s s' : ohg O1 A1) : adm_diagram s -> wf_ohg s' -> Iso (abs s) (abs s') ->
    adm_diagram s' /\
    exists F F', optic_map_arrow B eqO2 P s = Ok F /\ optic_map_arrow B eqO2 P s' = Ok F' /\
      Iso (abs F) (abs F').
  Proof.
    intros HA Ws' I. pose proof HA as (Ws & Ad).
    assert (HA' : adm_diagram s').
    { split; [exact Ws'|]. eapply Permutation_Forall; [|exact Ad].
      apply Iso_pgens_perm; [exact (wf_abs_pwf Ws)|exact I]. }
    split; [exact HA'|].
    destruct (pw_map_arrow_canonical HA) as (F & hK & HF & WF & GK & IK).
    destruct (pw_map_arrow_canonical HA') as (F' & hK' & HF' & WF' & GK' & IK').
    assert (Hok : Forall (img_ok Oo ci) (pgens (abs s))).
    { eapply Forall_impl; [|exact Ad]. intros y Hy. exact (cimg_ok OK eqO2 eqO2_spec PW y Hy). }
    pose proof (K_iso (wf_abs_pwf Ws) I Hok GK GK') as IKK.
    exists F, F'. split; [exact HF|]. split; [exact HF'|].
    apply Iso_trans with (1 := IK). apply Iso_trans with (1 := IKK).
    exact (Iso_sym (wf_abs_pwf WF') IK').
  Qed.
End PWArrow.

(* ======================= the unrestricted form: every generator admissible ======================= *)
(* With [adm := fun _ => True] the point-wise contract speaks about all well-formed batches; it then
   implies the contract [optic_contract_for] of C14bThm.v, and the three theorems hold for all well-formed
   (composable) diagrams. *)
Section Unrestricted.
  Variable B : Backend.
  Hypothesis OK : BackendOK B.
  Variables O1 A1 O2 A2 : Type.
  Variable eqO1 : O1 -> O1 -> bool.
  Hypothesis eqO1_spec : forall x y, eqO1 x y = true <-> x = y.
  Variable eqO2 : O2 -> O2 -> bool.
  Hypothesis eqO2_spec : forall x y, eqO2 x y = true <-> x = y.
  Variable P : optic O1 A1 O2 A2.
  Variables Fobj Robj : O1 -> list O2.
  Variables fimg rimg : gen O1 A1 -> pohg O2 A2.
  Variable Mres : gen O1 A1 -> list O2.
  Hypothesis PW : pw_contract P Fobj Robj (fun _ => True) fimg rimg Mres.

  Lemma all_adm (l : list (gen O1 A1)) : Forall (fun _ => True) l.
  Proof. apply Forall_forall. intros; exact I. Qed.

  Theorem pw_optic_contract : optic_contract_for P Fobj Robj.
  Proof.
    split.
    - exact (pw_fwd_object PW).
    - exact (pw_rev_object PW).
    - intros ops W. destruct (pw_residual PW W (all_adm _)) as (m & Hm & Wm & Dm).
      exists m. split; [exact Hm|]. split; [exact Wm|].
      rewrite <- decode_s_length, Dm, map_length. apply gens_length. exact W.
    - intros ops m W Hm. destruct (pw_residual PW W (all_adm _)) as (m' & Hm' & Wm & Dm).
      assert (m' = m) by congruence. subst m'.
      destruct (pw_fwd_typed PW m W (all_adm _) Dm) as (fwd & Hf & Tf & _). exists fwd. split; assumption.
    - intros ops m W Hm. destruct (pw_residual PW W (all_adm _)) as (m' & Hm' & Wm & Dm).
      assert (m' = m) by congruence. subst m'.
      destruct (pw_rev_typed PW m W (all_adm _) Dm) as (rev & Hr & Tr & _). exists rev. split; assumption.
  Qed.

  Theorem C14_general_preserves_composition (f g h : ohg O1 A1) : wf_ohg f -> wf_ohg g ->
    ohg_compose B eqO1 f g = Ok (Some h) ->
    exists F G H FG, optic_map_arrow B eqO2 P f = Ok F /\ optic_map_arrow B eqO2 P g = Ok G /\
      optic_map_arrow B eqO2 P h = Ok H /\ ohg_compose B eqO2 F G = Ok (Some FG) /\ Iso (abs H) (abs FG).
  Proof.
    intros Wf Wg Hc.
    exact (proj2 (pw_preserves_composition OK eqO1 eqO1_spec eqO2 eqO2_spec PW
                    (conj Wf (all_adm _)) (conj Wg (all_adm _)) Hc)).
  Qed.

  Theorem C14_general_preserves_tensor (f g h : ohg O1 A1) : wf_ohg f -> wf_ohg g ->
    ohg_tensor f g = Ok h ->
    exists F G H FG, optic_map_arrow B eqO2 P f = Ok F /\ optic_map_arrow B eqO2 P g = Ok G /\
      optic_map_arrow B eqO2 P h = Ok H /\ ohg_tensor F G = Ok FG /\ Iso (abs H) (abs FG).
  Proof.
    intros Wf Wg Ht.
    exact (proj2 (pw_preserves_tensor OK eqO2 eqO2_spec PW (conj Wf (all_adm _)) (conj Wg (all_adm _)) Ht)).
  Qed.

  Theorem C14_general_respects_iso (s s' : ohg O1 A1) : wf_ohg s -> wf_ohg s' -> Iso (abs s) (abs s') ->
    exists F F', optic_map_arrow B eqO2 P s = Ok F /\ optic_map_arrow B eqO2 P s' = Ok F' /\
      Iso (abs F) (abs F').
  Proof.
    intros Ws Ws' I.
    exact (proj2 (pw_respects_iso OK eqO2 eqO2_spec PW (conj Ws (all_adm _)) Ws' I)).
  Qed.
End Unrestricted.

Print Assumptions pw_preserves_composition.
Print Assumptions pw_preserves_tensor.
Print Assumptions pw_respects_iso.
Print Assumptions pw_optic_contract.
Print Assumptions C14_general_preserves_composition.
Print Assumptions C14_general_preserves_tensor.
Print Assumptions C14_general_respects_iso.
