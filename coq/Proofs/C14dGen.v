(* C14d, general form, part 1: an optic meeting the point-wise contract [pw_contract] (C14dDefs.v).
   - typing of the forward / reverse batch images, the object map, the run of optic_map_operations on an
     admissible batch with its [IsBatch] characterisation (as C14_batch_structure_ex, under the contract
     restricted to admissible batches);
   - [batch_decomposition]: the optic image of an admissible batch is isomorphic to the n-ary tensor of
     the one-operation images [cimg]. *)
From OHG Require Import Spec.Plain Proofs.PrimsThm Proofs.SegThm Proofs.C08Thm
  Proofs.C01Lemmas Proofs.C01Thm Proofs.QuotThm Proofs.C03Plain Proofs.C12Lemmas Proofs.C12Thm
  Proofs.C14Thm Proofs.C14bThm Proofs.C14cPlain Proofs.C14cBatch Proofs.C14cThm
  Proofs.C14dDefs Proofs.C14dPlain.

Set Implicit Arguments.
Arguments Nat.sub : simpl never.

(* ======================= list facts ======================= *)
Lemma concat_map_map_Some {X Y} (G : X -> list Y) (l : list X) :
  concat (map (fun y => map Some (G y)) l) = map Some (concat (map G l)).
Proof.
  induction l as [|x l IH]; [reflexivity|]. cbn [map concat]. rewrite IH, map_app. reflexivity.
Qed.

Lemma flat_map_concat {X Y} (G : X -> list Y) (ls : list (list X)) :
  flat_map G (concat ls) = concat (map (flat_map G) ls).
Proof.
  induction ls as [|l ls IH]; [reflexivity|]. cbn [concat map]. rewrite flat_map_app, IH. reflexivity.
Qed.

Lemma map_fst_combine' {X Y} (a : list X) (b : list Y) : length a = length b -> map fst (combine a b) = a.
Proof.
  revert b; induction a as [|x a IH]; intros [|y b] H; cbn [length] in H; try discriminate; [reflexivity|].
  cbn [combine map fst]. rewrite IH by lia. reflexivity.
Qed.

Lemma map_snd_combine' {X Y} (a : list X) (b : list Y) : length a = length b -> map snd (combine a b) = b.
Proof.
  revert b; induction a as [|x a IH]; intros [|y b] H; cbn [length] in H; try discriminate; [reflexivity|].
  cbn [combine map snd]. rewrite IH by lia. reflexivity.
Qed.

Lemma interleave_length sa : forall sb (X Y : list nat), length sa = length sb ->
  length X = list_sum sa -> length Y = list_sum sb ->
  length (concat (zip_app (segs sa X) (segs sb Y))) = length X + length Y.
Proof.
  induction sa as [|a sa IH]; intros [|b sb] X Y Hl HX HY; cbn [length] in Hl; try discriminate.
  - cbn in *. lia.
  - rewrite !lsum_cons in *. cbn [segs]. unfold zip_app. cbn [combine map fst snd concat].
    fold (zip_app (segs sa (skipn a X)) (segs sb (skipn b Y))).
    rewrite !app_length, !firstn_length, IH; rewrite ?skipn_length; lia.
Qed.

Section Gens.
  Variables O1 A1 : Type.

  Lemma gens_length (ops : operations O1 A1) : wf_ops ops -> length (gens ops) = length (ops_x ops).
  Proof.
    intros (_ & _ & La & Lb). unfold gens. rewrite !combine_length, !decode_s_length. lia.
  Qed.

  Lemma gens_srcs (ops : operations O1 A1) : wf_ops ops ->
    map (fun y : gen O1 A1 => fst (snd y)) (gens ops) = decode_s (ops_a ops).
  Proof.
    intros (_ & _ & La & Lb). unfold gens.
    rewrite <- (map_map snd fst), map_snd_combine' by (rewrite combine_length, !decode_s_length; lia).
    apply map_fst_combine'. rewrite !decode_s_length. lia.
  Qed.

  Lemma gens_tgts (ops : operations O1 A1) : wf_ops ops ->
    map (fun y : gen O1 A1 => snd (snd y)) (gens ops) = decode_s (ops_b ops).
  Proof.
    intros (_ & _ & La & Lb). unfold gens.
    rewrite <- (map_map snd snd), map_snd_combine' by (rewrite combine_length, !decode_s_length; lia).
    apply map_snd_combine'. rewrite !decode_s_length. lia.
  Qed.

  Lemma gens_app (p q : operations O1 A1) : wf_ops p -> wf_ops q ->
    gens (ops_app p q) = gens p ++ gens q.
  Proof.
    intros (Wa & Wb & La & Lb) (Wa' & Wb' & La' & Lb'). unfold gens, ops_app. cbn [ops_x ops_a ops_b].
    rewrite !cop_s_decode by assumption.
    rewrite !QuotThm.combine_app_eq; try reflexivity; rewrite ?combine_length, !decode_s_length; lia.
  Qed.

  (* a batch with given generators *)
  Definition ops_of_gens (l : list (gen O1 A1)) : operations O1 A1 :=
    mkOps (map fst l) (ic_of_blocks (map (fun y => fst (snd y)) l)) (ic_of_blocks (map (fun y => snd (snd y)) l)).

  Lemma wf_ops_of_gens l : wf_ops (ops_of_gens l).
  Proof.
    unfold wf_ops, ops_of_gens. cbn [ops_x ops_a ops_b].
    split; [apply wf_ic_of_blocks|]. split; [apply wf_ic_of_blocks|].
    rewrite !len_ic_of_blocks, !map_length. split; reflexivity.
  Qed.

  Lemma gens_ops_of_gens l : gens (ops_of_gens l) = l.
  Proof.
    unfold gens, ops_of_gens. cbn [ops_x ops_a ops_b]. rewrite !decode_ic_of_blocks.
    induction l as [|[x [a b]] l IH]; [reflexivity|]. cbn [map combine fst snd]. rewrite IH. reflexivity.
  Qed.
End Gens.

(* ======================= the optic under the point-wise contract ======================= *)
Section PWGen.
  Variable B : Backend.
  Hypothesis OK : BackendOK B.
  Variables O1 A1 O2 A2 : Type.
  Variable eqO2 : O2 -> O2 -> bool.
  Hypothesis eqO2_spec : forall x y, eqO2 x y = true <-> x = y.
  Variable P : optic O1 A1 O2 A2.
  Variables Fobj Robj : O1 -> list O2.
  Variable adm : gen O1 A1 -> Prop.
  Variables fimg rimg : gen O1 A1 -> pohg O2 A2.
  Variable Mres : gen O1 A1 -> list O2.
  Hypothesis PW : pw_contract P Fobj Robj adm fimg rimg Mres.

  Notation Oo := (Oobj Fobj Robj).
  Notation ci := (cimg Fobj Robj fimg rimg Mres).
  Notation gbd := (gen_bd Fobj Robj Mres).

  (* ---------- objects (as C14bThm.objects / C14_object, from the two object fields only) ---------- *)
  Lemma pw_objects (a : list O1) : exists fa ra la,
    sf_map_object (op_fwd P) a = Ok fa /\ sf_map_object (op_rev P) a = Ok ra /\
    wf_ics fa /\ wf_ics ra /\ ic_len fa = length a /\ ic_len ra = length a /\
    decode_s fa = map Fobj a /\ decode_s ra = map Robj a /\
    ic_values fa = flat_map Fobj a /\ ic_values ra = flat_map Robj a /\
    interleave_blocks A2 fa ra = Ok la /\
    typed la (ic_values fa ++ ic_values ra) (optic_values Fobj Robj a).
  Proof.
    destruct (pw_fwd_object PW a) as (fa & Hfa & Wfa & Dfa).
    destruct (pw_rev_object PW a) as (ra & Hra & Wra & Dra).
    assert (Lfa : ic_len fa = length a) by (rewrite <- decode_s_length, Dfa, map_length; reflexivity).
    assert (Lra : ic_len ra = length a) by (rewrite <- decode_s_length, Dra, map_length; reflexivity).
    destruct (@interleave_typed O2 A2 fa ra Wfa Wra ltac:(congruence)) as (la & Hla & Tla).
    exists fa, ra, la. repeat (split; [assumption|]).
    split; [rewrite <- (concat_decode_s Wfa), Dfa, flat_map_concat_map; reflexivity|].
    split; [rewrite <- (concat_decode_s Wra), Dra, flat_map_concat_map; reflexivity|].
    split; [exact Hla|].
    rewrite Dfa, Dra, zip_app_map in Tla. unfold optic_values. rewrite flat_map_concat_map. exact Tla.
  Qed.

  Lemma pw_object (a : list O1) : exists oa,
    optic_map_object P a = Ok oa /\ wf_ics oa /\ ic_len oa = length a /\
    decode_s oa = map Oo a /\ ic_values oa = flat_map Oo a.
  Proof.
    destruct (pw_objects a) as (fa & ra & _ & Hfa & Hra & Wfa & Wra & Lfa & Lra & Dfa & Dra & _).
    destruct (C14_map_object P a Hfa Hra Wfa Wra Lfa Lra) as (oa & Hoa & _ & Woa & Loa & Doa).
    rewrite Dfa, Dra in Doa. fold (zip_app (map Fobj a) (map Robj a)) in Doa. rewrite zip_app_map in Doa.
    exists oa. split; [exact Hoa|]. split; [exact Woa|]. split; [exact Loa|]. split; [exact Doa|].
    rewrite <- (concat_decode_s Woa), Doa. rewrite flat_map_concat_map. reflexivity.
  Qed.

  (* ---------- the two component images of an admissible batch are typed ---------- *)
  Lemma adm_srcs (ops : operations O1 A1) : wf_ops ops ->
    concat (map (fun y : gen O1 A1 => fst (snd y)) (gens ops)) = ic_values (ops_a ops).
  Proof. intros W. rewrite (gens_srcs W). apply concat_decode_s. apply W. Qed.

  Lemma pw_fwd_typed (ops : operations O1 A1) m : wf_ops ops -> Forall adm (gens ops) ->
    decode_s m = map Mres (gens ops) ->
    exists fwd, sf_map_operations (op_fwd P) ops = Ok fwd /\
      typed fwd (flat_map Fobj (ic_values (ops_a ops))) (fwd_target Fobj ops m) /\
      Iso (abs fwd) (ptl (map fimg (gens ops))).
  Proof.
    intros W Had Dm. destruct (pw_fwd_ops PW W Had) as (fwd & Hf & Wf & If).
    exists fwd. split; [exact Hf|]. split; [|exact If].
    assert (WP : Forall (@pwf O2 A2) (map fimg (gens ops))).
    { apply Forall_map. eapply Forall_impl; [|exact Had]. intros y Hy. apply (pw_fimg PW y Hy). }
    pose proof (wf_abs_pwf Wf) as Wpf.
    split; [exact Wf|]. split.
    - rewrite <- (Iso_src_type Wpf If), (src_type_ptl WP), map_map.
      rewrite (map_ext_in _ (fun y => map Some (flat_map Fobj (fst (snd y))))).
      + rewrite concat_map_map_Some. f_equal. rewrite <- (adm_srcs W), flat_map_concat, map_map. reflexivity.
      + intros y Hy. rewrite Forall_forall in Had. apply (pw_fimg PW y (Had y Hy)).
    - rewrite <- (Iso_tgt_type Wpf If), (tgt_type_ptl WP), map_map.
      rewrite (map_ext_in _ (fun y => map Some (flat_map Fobj (snd (snd y)) ++ Mres y))).
      + rewrite concat_map_map_Some. f_equal. unfold fwd_target. rewrite Dm, <- (gens_tgts W).
        rewrite map_map, zip_app_map. reflexivity.
      + intros y Hy. rewrite Forall_forall in Had. apply (pw_fimg PW y (Had y Hy)).
  Qed.

  Lemma pw_rev_typed (ops : operations O1 A1) m : wf_ops ops -> Forall adm (gens ops) ->
    decode_s m = map Mres (gens ops) ->
    exists rev, sf_map_operations (op_rev P) ops = Ok rev /\
      typed rev (rev_source Robj ops m) (flat_map Robj (ic_values (ops_a ops))) /\
      Iso (abs rev) (ptl (map rimg (gens ops))).
  Proof.
    intros W Had Dm. destruct (pw_rev_ops PW W Had) as (rev & Hr & Wr & Ir).
    exists rev. split; [exact Hr|]. split; [|exact Ir].
    assert (WP : Forall (@pwf O2 A2) (map rimg (gens ops))).
    { apply Forall_map. eapply Forall_impl; [|exact Had]. intros y Hy. apply (pw_rimg PW y Hy). }
    pose proof (wf_abs_pwf Wr) as Wpr.
    split; [exact Wr|]. split.
    - rewrite <- (Iso_src_type Wpr Ir), (src_type_ptl WP), map_map.
      rewrite (map_ext_in _ (fun y => map Some (Mres y ++ flat_map Robj (snd (snd y))))).
      + rewrite concat_map_map_Some. f_equal. unfold rev_source. rewrite Dm, <- (gens_tgts W).
        rewrite map_map, zip_app_map. reflexivity.
      + intros y Hy. rewrite Forall_forall in Had. apply (pw_rimg PW y (Had y Hy)).
    - rewrite <- (Iso_tgt_type Wpr Ir), (tgt_type_ptl WP), map_map.
      rewrite (map_ext_in _ (fun y => map Some (flat_map Robj (fst (snd y))))).
      + rewrite concat_map_map_Some. f_equal. rewrite <- (adm_srcs W), flat_map_concat, map_map. reflexivity.
      + intros y Hy. rewrite Forall_forall in Had. apply (pw_rimg PW y (Had y Hy)).
  Qed.
  (* ---------- the run of optic_map_operations on an admissible batch (cf. C14_batch_structure_ex) ---------- *)
  Theorem pw_batch_structure (ops : operations O1 A1) : wf_ops ops -> Forall adm (gens ops) ->
    exists c fwd rev m,
      optic_map_operations B eqO2 P ops = Ok c /\
      sf_map_operations (op_fwd P) ops = Ok fwd /\ sf_map_operations (op_rev P) ops = Ok rev /\
      op_residual P ops = Ok m /\ decode_s m = map Mres (gens ops) /\
      typed c (optic_values Fobj Robj (ic_values (ops_a ops))) (optic_values Fobj Robj (ic_values (ops_b ops))) /\
      wf_ohg fwd /\ wf_ohg rev /\
      Iso (abs fwd) (ptl (map fimg (gens ops))) /\ Iso (abs rev) (ptl (map rimg (gens ops))) /\
      wf_bdata (abs fwd) (abs rev) (batch_data Fobj Robj ops m) /\
      IsBatch (abs fwd) (abs rev) (batch_data Fobj Robj ops m) (abs c).
  Proof.
    intros Wops Had. pose proof Wops as (Wa & Wb & La & Lb).
    destruct (pw_residual PW Wops Had) as (m & Hm & Wm & Dm).
    assert (Lm : ic_len m = length (ops_x ops)).
    { rewrite <- decode_s_length, Dm, map_length. apply gens_length. exact Wops. }
    destruct (pw_fwd_typed m Wops Had Dm) as (fwd & Hfwd & Tfwd & Ifwd).
    destruct (pw_rev_typed m Wops Had Dm) as (rev & Hrev & Trev & Irev).
    destruct (pw_objects (ic_values (ops_a ops)))
      as (fa & ra & l1' & Hfa & Hra & Wfa & Wra & Lfa & Lra & Dfa & Dra & Vfa & Vra & Hl1' & _).
    destruct (pw_objects (ic_values (ops_b ops)))
      as (fb & rb & rhs1' & Hfb & Hrb & Wfb & Wrb & Lfb & Lrb & Dfb & Drb & Vfb & Vrb & Hrhs1' & _).
    destruct (flatmap_blocks Fobj ops Wb Wfb Dfb) as (bfb & Hbfb & Wbfb & Vbfb & Lbfb & Dbfb).
    destruct (flatmap_blocks Robj ops Wb Wrb Drb) as (brb & Hbrb & Wbrb & Vbrb & Lbrb & Dbrb).
    destruct (interleave_glue A2 Wbfb Wm ltac:(congruence)) as (fi0 & Hfi0 & Tfi0 & Afi0 & Pfi0).
    destruct (interleave_glue A2 Wm Wbrb ltac:(congruence)) as (rci & Hrci & Trci & Arci & Prci).
    destruct (interleave_glue A2 Wfa Wra ltac:(congruence)) as (l1 & Hl1 & Tl1 & Al1 & Pl1).
    destruct (interleave_glue A2 Wfb Wrb ltac:(congruence)) as (rhs1 & Hrhs1 & Trhs1 & Arhs1 & Prhs1).
    rewrite Dbfb, Vbfb in Tfi0. fold (fwd_target Fobj ops m) in Tfi0.
    rewrite Dbrb, Vbrb in Trci. fold (rev_source Robj ops m) in Trci.
    pose proof (dagger_typed Tfi0) as Tfi.
    destruct (identity_glue A2 (ic_values fb)) as (i_fb & Hifb & Tifb & Aifb).
    destruct (identity_glue A2 (ic_values rb)) as (i_rb & Hirb & Tirb & Airb).
    rewrite <- Vfa in Tfwd. rewrite <- Vra in Trev.
    destruct (compose_unwrap_glue OK eqO2 eqO2_spec Tfwd Tfi) as (l0 & Hl0 & Tl0 & Cl0).
    destruct (tensor_glue Tl0 Tirb) as (lhs & Hlhs & Tlhs & Alhs).
    destruct (compose_unwrap_glue OK eqO2 eqO2_spec Trci Trev) as (r0 & Hr0 & Tr0 & Cr0).
    destruct (tensor_glue Tifb Tr0) as (rhs & Hrhs & Trhs & Arhs).
    rewrite <- app_assoc in Tlhs.
    destruct (compose_unwrap_glue OK eqO2 eqO2_spec Tlhs Trhs) as (c & Hc & Tc & Cc).
    destruct (@partial_dagger_glue O2 A2 c fa fb ra rb Tc) as (d & Hd & Td & Ad).
    destruct (compose_unwrap_glue OK eqO2 eqO2_spec (dagger_typed Tl1) Td) as (e & He & Te & Ce).
    destruct (compose_unwrap_glue OK eqO2 eqO2_spec Te Trhs1) as (h & Hh & Th & Ch).
    exists h, fwd, rev, m.
    split.
    { unfold optic_map_operations.
      rewrite Hfwd. cbn [bind]. rewrite Hrev. cbn [bind].
      rewrite Hfa. cbn [bind]. rewrite Hfb. cbn [bind]. rewrite Hra. cbn [bind]. rewrite Hrb. cbn [bind].
      rewrite Hm. cbn [bind]. rewrite Hbfb. cbn [bind]. rewrite Hfi0. cbn [bind].
      rewrite Hbrb. cbn [bind]. rewrite Hrci. cbn [bind].
      rewrite (typed_target Tfwd). cbn [bind]. rewrite (typed_source Tfi). cbn [bind].
      rewrite (list_eqb_refl eqO2 eqO2_spec). cbn [assert bind].
      rewrite (typed_target Trci). cbn [bind]. rewrite (typed_source Trev). cbn [bind].
      rewrite (list_eqb_refl eqO2 eqO2_spec). cbn [assert bind].
      rewrite Hifb. cbn [bind]. rewrite Hirb. cbn [bind].
      rewrite Hl0. cbn [bind]. rewrite Hlhs. cbn [bind].
      rewrite Hr0. cbn [bind]. rewrite Hrhs. cbn [bind].
      rewrite Hc. cbn [bind]. rewrite Hd. cbn [bind].
      rewrite Hl1. cbn [bind]. rewrite Hrhs1. cbn [bind].
      rewrite He. cbn [bind]. exact Hh. }
    split; [exact Hfwd|]. split; [exact Hrev|]. split; [exact Hm|]. split; [exact Dm|].
    split.
    { destruct Th as (Wh & HSh & HTh). split; [exact Wh|]. split.
      - rewrite HSh. unfold optic_values. rewrite Dfa, Dra, zip_app_map, flat_map_concat_map. reflexivity.
      - rewrite HTh. unfold optic_values. rewrite Dfb, Drb, zip_app_map, flat_map_concat_map. reflexivity. }
    split; [apply Tfwd|]. split; [apply Trev|]. split; [exact Ifwd|]. split; [exact Irev|].
    (* the block sizes *)
    set (bd := batch_data Fobj Robj ops m).
    assert (Efb : table (ic_sources bfb) = bd_fb bd) by (apply (table_of_decode _ _ Wbfb Dbfb)).
    assert (Erb : table (ic_sources brb) = bd_rb bd) by (apply (table_of_decode _ _ Wbrb Dbrb)).
    assert (EFa : table (ic_sources fa) = bd_Fa bd) by (apply (table_of_decode _ _ Wfa Dfa)).
    assert (ERa : table (ic_sources ra) = bd_Ra bd) by (apply (table_of_decode _ _ Wra Dra)).
    assert (EFb : table (ic_sources fb) = bd_Fb bd) by (apply (table_of_decode _ _ Wfb Dfb)).
    assert (ERb : table (ic_sources rb) = bd_Rb bd) by (apply (table_of_decode _ _ Wrb Drb)).
    pose proof (wf_sum Wbfb) as Sbfb. pose proof (wf_sum Wbrb) as Sbrb. pose proof (wf_sum Wm) as Sm.
    pose proof (wf_sum Wfa) as Sfa. pose proof (wf_sum Wra) as Sra.
    pose proof (wf_sum Wfb) as Sfb. pose proof (wf_sum Wrb) as Srb.
    rewrite Efb in Sbfb. rewrite Erb in Sbrb. rewrite EFa in Sfa. rewrite ERa in Sra.
    rewrite EFb in Sfb. rewrite ERb in Srb. change (table (ic_sources m)) with (bd_m bd) in Sm.
    rewrite Vbfb in Sbfb. rewrite Vbrb in Sbrb.
    destruct (typed_lengths Tfwd) as [Lfi Lfo]. destruct (typed_lengths Trev) as [Lri Lro].
    destruct (typed_lengths Tfi0) as [Lfi0 Lfi0o]. destruct (typed_lengths Trci) as [Lrci Lrcio].
    rewrite app_length in Lfi0, Lrci.
    assert (Wd : wf_bdata (abs fwd) (abs rev) bd).
    { unfold wf_bdata. unfold ic_len, ff_source in Lbfb, Lbrb, Lm, Lb, Lfa, Lra, Lfb, Lrb.
      change (bd_m bd) with (table (ic_sources m)) in *.
      split; [rewrite <- Efb; lia|]. split; [rewrite <- Erb; lia|].
      split; [rewrite Lfo, <- Lfi0o; rewrite Afi0; cbn [pwire p_outs];
              rewrite (Permutation_length Pfi0), seq_length, app_length, Vbfb; lia|].
      split; [rewrite Lri, <- Lrcio; rewrite Arci; cbn [pwire p_outs];
              rewrite (Permutation_length Prci), seq_length, app_length, Vbrb; lia|].
      split; [rewrite <- EFa, <- ERa; lia|].
      split; [rewrite Lfi; exact Sfa|]. split; [rewrite Lro; exact Sra|].
      split; [rewrite <- EFb, <- ERb; lia|].
      split; lia. }
    split; [exact Wd|].
    pose proof (wf_abs_pwf (proj1 Tfwd)) as Wgf. pose proof (wf_abs_pwf (proj1 Trev)) as Wgr.
    apply (@batch_pipeline O2 A2 (abs fwd) (abs rev) bd Wgf Wgr Wd
             (ic_values bfb ++ ic_values m) (ic_values m ++ ic_values brb)
             (ic_values fa ++ ic_values ra) (ic_values fb ++ ic_values rb)
             (ic_values fb) (ic_values rb)
             (itable (table (ic_sources bfb)) (table (ic_sources m)) (length (ic_values bfb)) (length (ic_values m)))
             (itable (table (ic_sources m)) (table (ic_sources brb)) (length (ic_values m)) (length (ic_values brb)))
             (itable (table (ic_sources fa)) (table (ic_sources ra)) (length (ic_values fa)) (length (ic_values ra)))
             (itable (table (ic_sources fb)) (table (ic_sources rb)) (length (ic_values fb)) (length (ic_values rb))))
      with (l0 := abs l0) (r0 := abs r0) (c := abs c) (e := abs e).
    - rewrite Efb, Vbfb. change (table (ic_sources m)) with (bd_m bd). congruence.
    - rewrite Erb, Vbrb. change (table (ic_sources m)) with (bd_m bd). congruence.
    - rewrite EFa, ERa, Lfi, Lro. reflexivity.
    - rewrite EFb, ERb. congruence.
    - exact Pfi0.
    - exact Prci.
    - exact Pl1.
    - exact Prhs1.
    - rewrite app_length, Vbfb. lia.
    - rewrite app_length, Vbrb. lia.
    - rewrite app_length, Lfi, Lro. reflexivity.
    - rewrite app_length. lia.
    - lia.
    - lia.
    - change (abs (ohg_dagger fi0)) with (swap_io (abs fi0)) in Cl0. rewrite Afi0 in Cl0. exact Cl0.
    - destruct Tfwd as (_ & _ & HT). destruct Tfi0 as (_ & _ & HT0). rewrite HT, <- HT0, Afi0. reflexivity.
    - rewrite Arci in Cr0. exact Cr0.
    - destruct Trev as (_ & HS & _). destruct Trci as (_ & _ & HT0). rewrite HS, <- HT0, Arci. reflexivity.
    - rewrite Alhs, Arhs, Airb, Aifb in Cc. exact Cc.
    - change (abs (ohg_dagger l1)) with (swap_io (abs l1)) in Ce. rewrite Al1, Ad in Ce.
      rewrite Lfi. replace (list_sum (bd_fb bd)) with (length (ic_values fb)) by lia. exact Ce.
    - rewrite Lfi. replace (list_sum (bd_fb bd)) with (length (ic_values fb)) by lia. rewrite <- Ad.
      destruct Td as (_ & HS & _). destruct Tl1 as (_ & HS1 & _). rewrite HS, <- HS1, Al1. reflexivity.
    - rewrite Arhs1 in Ch. exact Ch.
    - destruct Te as (_ & _ & HT). destruct Trhs1 as (_ & HS1 & _). rewrite HT, <- HS1, Arhs1. reflexivity.
  Qed.

  (* ---------- the block data of a batch are the concatenated block data of its generators ---------- *)
  Lemma concat_map_singleton {X Y} (g : X -> Y) (l : list X) : concat (map (fun y => [g y]) l) = map g l.
  Proof. induction l as [|x l IH]; [reflexivity|]. cbn [map concat app]. rewrite IH. reflexivity. Qed.

  Lemma adm_tgts (ops : operations O1 A1) : wf_ops ops ->
    concat (map (fun y : gen O1 A1 => snd (snd y)) (gens ops)) = ic_values (ops_b ops).
  Proof. intros W. rewrite (gens_tgts W). apply concat_decode_s. apply W. Qed.

  Lemma batch_data_concat (ops : operations O1 A1) m : wf_ops ops -> wf_ics m ->
    decode_s m = map Mres (gens ops) ->
    batch_data Fobj Robj ops m = bd_concat (map gbd (gens ops)).
  Proof.
    intros W Wm Dm. rewrite bd_concat_fields, !map_map. unfold batch_data, gen_bd.
    cbn [bd_fb bd_m bd_rb bd_Fa bd_Ra bd_Fb bd_Rb].
    rewrite <- (gens_tgts W), <- (adm_srcs W), <- (adm_tgts W), !map_map, !concat_map, !map_map.
    rewrite !concat_map_singleton.
    rewrite <- (decode_s_lengths Wm), Dm, map_map. reflexivity.
  Qed.

  Lemma length_flat_map {X Y} (G : X -> list Y) (a : list X) :
    length (flat_map G a) = list_sum (map (fun o => length (G o)) a).
  Proof.
    induction a as [|x a IH]; [reflexivity|]. cbn [flat_map map]. rewrite app_length, IH. reflexivity.
  Qed.

  Lemma length_flat_map_Oo (a : list O1) :
    length (flat_map Oo a) = length (flat_map Fobj a) + length (flat_map Robj a).
  Proof.
    induction a as [|x a IH]; [reflexivity|]. cbn [flat_map]. unfold Oobj at 1.
    rewrite !app_length, IH. lia.
  Qed.

  (* ---------- the items of an admissible generator ---------- *)
  Definition gitem (y : gen O1 A1) : pohg O2 A2 * pohg O2 A2 * bdata := (fimg y, rimg y, gbd y).

  Lemma gitem_ok (y : gen O1 A1) : adm y -> it_ok (gitem y).
  Proof.
    intros Hy. destruct (pw_fimg PW y Hy) as (Wf & Sf & Tf). destruct (pw_rimg PW y Hy) as (Wr & Sr & Tr).
    unfold it_ok, gitem, it_f, it_r, it_d. cbn [fst snd].
    split; [exact Wf|]. split; [exact Wr|].
    apply type_length in Sf, Tf, Sr, Tr. rewrite app_length in Tf, Sr.
    unfold wf_bdata, gen_bd. cbn [bd_fb bd_m bd_rb bd_Fa bd_Ra bd_Fb bd_Rb length].
    rewrite !map_length, <- !length_flat_map. cbn [list_sum fold_right].
    repeat split; lia.
  Qed.

  Lemma batch_exists (l : list (gen O1 A1)) : Forall adm l ->
    exists h, IsBatch (ptl (map fimg l)) (ptl (map rimg l)) (bd_concat (map gbd l)) h.
  Proof.
    intros Had.
    assert (Had' : Forall adm (gens (ops_of_gens l))) by (rewrite gens_ops_of_gens; exact Had).
    destruct (pw_batch_structure (wf_ops_of_gens l) Had')
      as (c & fwd & rev & m & _ & _ & _ & Hm & Dm & _ & Wf & Wr & If & Ir & _ & HB).
    destruct (pw_residual PW (wf_ops_of_gens l) Had') as (m' & Hm' & Wm & _).
    assert (m' = m) by congruence. subst m'.
    rewrite (batch_data_concat (wf_ops_of_gens l) Wm Dm) in HB. rewrite gens_ops_of_gens in HB, If, Ir.
    destruct (IsBatch_transport (wf_abs_pwf Wf) (wf_abs_pwf Wr) If Ir HB) as (h' & HB' & _).
    exists h'. exact HB'.
  Qed.

  Lemma gitem_exists (y : gen O1 A1) : adm y -> exists h, IsBatch (fimg y) (rimg y) (gbd y) h.
  Proof.
    intros Hy. destruct (@batch_exists [y] (Forall_cons _ Hy (Forall_nil _))) as (h & HB).
    exists h. cbn [map] in HB. unfold ptl in HB. cbn [fold_right] in HB.
    rewrite !ptensor_pempty_r in HB. unfold bd_concat in HB. cbn [fold_right] in HB.
    rewrite bdata_app_nil_r in HB. exact HB.
  Qed.

  (* the one-operation image is a batch diagram, well-formed, with the interfaces of the object images *)
  Lemma cimg_IsBatch (y : gen O1 A1) : adm y -> IsBatch (fimg y) (rimg y) (gbd y) (ci y).
  Proof.
    intros Hy. destruct (gitem_exists Hy) as (h & HB). destruct (gitem_ok Hy) as (Wf & Wr & _).
    exact (proj1 (IsBatch_expected Wf Wr HB)).
  Qed.

  Lemma cimg_ok (y : gen O1 A1) : adm y -> img_ok Oo ci y.
  Proof.
    intros Hy. pose proof (cimg_IsBatch Hy) as HB. destruct (gitem_ok Hy) as (Wf & Wr & Wd).
    unfold gitem, it_f, it_r, it_d in Wf, Wr, Wd. cbn [fst snd] in Wf, Wr, Wd.
    destruct (pw_fimg PW y Hy) as (_ & Sf & Tf). destruct (pw_rimg PW y Hy) as (_ & Sr & Tr).
    apply type_length in Sf, Tf, Sr, Tr. rewrite app_length in Tf, Sr.
    split; [exact (Glued_pwf (pwf_batch_pre (gbd y) Wf Wr) HB)|].
    destruct HB as (q & (_ & _ & _ & _ & Hi & Ho) & _).
    rewrite Hi, Ho, !map_length, !length_flat_map_Oo. unfold batch_pre. cbn [batch_union p_ins p_outs].
    split.
    - rewrite interleave_length; unfold gen_bd; cbn [bd_Fa bd_Ra]; rewrite ?map_length, ?shiftl_length,
        <- ?length_flat_map; lia.
    - rewrite interleave_length; unfold gen_bd; cbn [bd_Fb bd_Rb]; rewrite ?map_length, ?shiftl_length,
        <- ?length_flat_map.
      + unfold b_FBo, b_RBi. cbn [gen_bd bd_fb bd_m bd_rb].
        rewrite unz1_length, unz2_length; cbn [length list_sum fold_right]; lia.
      + reflexivity.
      + unfold b_FBo. cbn [gen_bd bd_fb bd_m]. rewrite unz1_length; cbn [length list_sum fold_right]; lia.
      + unfold b_RBi. cbn [gen_bd bd_m bd_rb]. rewrite unz2_length; cbn [length list_sum fold_right]; lia.
  Qed.

  (* ---------- the optic image of an admissible batch is the tensor of the one-operation images ---------- *)
  Theorem batch_decomposition (ops : operations O1 A1) : wf_ops ops -> Forall adm (gens ops) ->
    exists c, optic_map_operations B eqO2 P ops = Ok c /\
      typed c (optic_values Fobj Robj (ic_values (ops_a ops))) (optic_values Fobj Robj (ic_values (ops_b ops))) /\
      Iso (abs c) (ptl (map ci (gens ops))).
  Proof.
    intros W Had.
    destruct (pw_batch_structure W Had) as (c & fwd & rev & m & Hc & _ & _ & Hm & Dm & Tc & Wf & Wr & If & Ir & _ & HB).
    destruct (pw_residual PW W Had) as (m' & Hm' & Wm & _).
    assert (m' = m) by congruence. subst m'.
    exists c. split; [exact Hc|]. split; [exact Tc|].
    rewrite (batch_data_concat W Wm Dm) in HB.
    destruct (IsBatch_transport (wf_abs_pwf Wf) (wf_abs_pwf Wr) If Ir HB) as (h' & HB' & I').
    apply Iso_trans with (1 := I').
    assert (E1 : map fimg (gens ops) = map (@it_f O2 A2) (map gitem (gens ops))) by (rewrite map_map; reflexivity).
    assert (E2 : map rimg (gens ops) = map (@it_r O2 A2) (map gitem (gens ops))) by (rewrite map_map; reflexivity).
    assert (E3 : map gbd (gens ops) = map (@it_d O2 A2) (map gitem (gens ops))) by (rewrite map_map; reflexivity).
    assert (E4 : map ci (gens ops) = map (@it_img O2 A2) (map gitem (gens ops))) by (rewrite map_map; reflexivity).
    rewrite E4. apply IsBatch_nary.
    - apply Forall_map. eapply Forall_impl; [|exact Had]. intros y Hy. apply gitem_ok. exact Hy.
    - apply Forall_map. eapply Forall_impl; [|exact Had]. intros y Hy. apply gitem_exists. exact Hy.
    - intros j. rewrite skipn_map, !map_map.
      destruct (@batch_exists (skipn j (gens ops)) (Forall_skipn j Had)) as (h & Hh). exists h. exact Hh.
    - rewrite <- E1, <- E2, <- E3. exact HB'.
  Qed.
End PWGen.

Print Assumptions pw_batch_structure.
Print Assumptions batch_decomposition.
Print Assumptions cimg_ok.
