(* C14d: the canonical plain presentation KD / KP of the image of a diagram respects isomorphism.
   A node renumbering pn of g permutes the blocks Fo(label) of kW, a hyperedge bijection pe permutes the
   blocks img(generator) of kX; the induced block-wise renumbering PN is an isomorphism KD g -> KD g'
   carrying the gluing pairs KP g onto (a permutation of) KP g'.  Hence the glued diagrams are isomorphic
   (K_iso).  Groundwork in C14dPermLemmas.v. *)
From OHG Require Import Spec.Plain Proofs.PrimsThm Proofs.CCThm Proofs.SegThm Proofs.C08Thm
  Proofs.C01Lemmas Proofs.QuotThm Proofs.C03Plain Proofs.C12Lemmas Proofs.C12Blocks Proofs.C13Thm
  Proofs.C14cPlain Proofs.C14dDefs Proofs.C14dPermLemmas.
Require Import Permutation.

Set Implicit Arguments.
Arguments Nat.sub : simpl never.

Section KIsoProof.
  Variables O1 A1 O2 A2 : Type.
  Variable Fo : O1 -> list O2.
  Variable img : gen O1 A1 -> pohg O2 A2.
  Variables g g' : pohg O1 A1.
  Variables pn pe : nat -> nat.
  Hypothesis Wg : pwf g.
  Hypothesis Hn : length (p_nodes g) = length (p_nodes g').
  Hypothesis Hm : length (p_edges g) = length (p_edges g').
  Hypothesis Hbn : bij_on (length (p_nodes g)) pn.
  Hypothesis Hbe : bij_on (length (p_edges g)) pe.
  Hypothesis Hl : forall i, i < length (p_nodes g) -> nth_error (p_nodes g') (pn i) = nth_error (p_nodes g) i.
  Hypothesis He : forall e, e < length (p_edges g) ->
    nth_error (p_edges g') (pe e) = option_map (map_edge pn) (nth_error (p_edges g) e).
  Hypothesis Hi : p_ins g' = map pn (p_ins g).
  Hypothesis Ho : p_outs g' = map pn (p_outs g).

  (* ---------- generators ---------- *)
  Lemma gen_of_iso e : In e (p_edges g) -> gen_of (p_nodes g') (map_edge pn e) = gen_of (p_nodes g) e.
  Proof.
    intros Hin. destruct Wg as (We & _ & _). destruct (We e Hin) as [Hs Ht].
    unfold gen_of, map_edge. cbn [pe_lbl pe_src pe_tgt].
    rewrite (@lsel_map _ _ _ _ _ Hs Hl), (@lsel_map _ _ _ _ _ Ht Hl). reflexivity.
  Qed.

  Lemma edge_nth k : k < length (p_edges g) -> exists e, nth_error (p_edges g) k = Some e /\ In e (p_edges g) /\
    nth_error (p_edges g') (pe k) = Some (map_edge pn e).
  Proof.
    intros Hk. destruct (nth_error (p_edges g) k) as [e|] eqn:E.
    - exists e. split; [reflexivity|]. split; [eapply nth_error_In; exact E|].
      rewrite He by exact Hk. rewrite E. reflexivity.
    - apply nth_error_None in E. lia.
  Qed.

  Lemma pgens_nth k : k < length (p_edges g) -> nth_error (pgens g') (pe k) = nth_error (pgens g) k.
  Proof.
    intros Hk. destruct (edge_nth Hk) as (e & E & Hin & E'). unfold pgens.
    rewrite !nth_error_map, E, E'. cbn [option_map]. rewrite gen_of_iso by exact Hin. reflexivity.
  Qed.

  Lemma pgens_perm : Permutation (pgens g) (pgens g').
  Proof.
    unfold pgens. apply perm_of_bij with pe.
    - rewrite !map_length. exact Hm.
    - rewrite map_length. exact Hbe.
    - rewrite map_length. exact pgens_nth.
  Qed.

  (* ---------- the node part: the blocks Fo(label) ---------- *)
  Definition kbl (h : pohg O1 A1) : list (list O2) := map Fo (p_nodes h).

  Lemma kW_concat h : kW Fo h = concat (kbl h).
  Proof. unfold kW, kbl. apply flat_map_concat_map. Qed.

  Lemma ksizes_kbl h : ksizes Fo h = map (@length O2) (kbl h).
  Proof. unfold ksizes, kbl. rewrite map_map. reflexivity. Qed.

  Lemma kbl_length h : length (kbl h) = length (p_nodes h).
  Proof. apply map_length. Qed.

  Lemma kbl_nth v : v < length (kbl g) -> nth_error (kbl g') (pn v) = nth_error (kbl g) v.
  Proof. rewrite kbl_length. intros Hv. unfold kbl. rewrite !nth_error_map, Hl by exact Hv. reflexivity. Qed.

  Lemma kbl_len : length (kbl g) = length (kbl g').
  Proof. rewrite !kbl_length. exact Hn. Qed.

  Lemma kbl_bij : bij_on (length (kbl g)) pn.
  Proof. rewrite kbl_length. exact Hbn. Qed.

  Definition bN : nat -> nat := bmap (kbl g) (kbl g') pn.

  Lemma kW_len : length (kW Fo g) = length (kW Fo g').
  Proof. rewrite !kW_concat. exact (@bmap_len _ _ _ _ kbl_len kbl_bij kbl_nth). Qed.

  Lemma bN_bij : bij_on (length (kW Fo g)) bN.
  Proof. rewrite kW_concat. exact (@bmap_bij _ _ _ _ kbl_len kbl_bij kbl_nth). Qed.

  Lemma bN_nth i : i < length (kW Fo g) -> nth_error (kW Fo g') (bN i) = nth_error (kW Fo g) i.
  Proof. rewrite !kW_concat. exact (@bmap_nth _ _ _ _ kbl_nth i). Qed.

  Lemma bN_kex l : all_lt (length (p_nodes g)) l -> kex Fo g' (map pn l) = map bN (kex Fo g l).
  Proof.
    intros H. unfold kex. rewrite !ksizes_kbl. apply (@bmap_expand _ _ _ _ kbl_nth).
    rewrite kbl_length. exact H.
  Qed.

  Lemma kex_lt (h : pohg O1 A1) l : all_lt (length (kW Fo h)) (kex Fo h l).
  Proof.
    unfold kex. rewrite kW_concat, kp_concat_length, <- ksizes_kbl. apply C12Lemmas.inj_table_lt.
  Qed.

  (* ---------- the hyperedge part: the blocks img(generator) ---------- *)
  Definition kcs (h : pohg O1 A1) : list (pohg O2 A2) := map img (pgens h).

  Lemma kcs_length h : length (kcs h) = length (p_edges h).
  Proof. unfold kcs, pgens. rewrite !map_length. reflexivity. Qed.

  Lemma kcs_nth k : k < length (p_edges g) -> nth_error (kcs g') (pe k) = nth_error (kcs g) k.
  Proof. intros Hk. unfold kcs. rewrite !nth_error_map, pgens_nth by exact Hk. reflexivity. Qed.

  Lemma kcs_nth_d k : k < length (p_edges g) -> nth (pe k) (kcs g') pempty = nth k (kcs g) pempty.
  Proof.
    intros Hk. apply kp_nth_of_nth_error; [rewrite kcs_length; exact Hk|]. apply kcs_nth. exact Hk.
  Qed.

  Lemma pbl_length h : length (pblocks (kcs h)) = length (p_edges h).
  Proof. unfold pblocks. rewrite map_length. apply kcs_length. Qed.

  Lemma pbl_nth k : k < length (pblocks (kcs g)) ->
    nth_error (pblocks (kcs g')) (pe k) = nth_error (pblocks (kcs g)) k.
  Proof.
    rewrite pbl_length. intros Hk. unfold pblocks. rewrite !nth_error_map, kcs_nth by exact Hk. reflexivity.
  Qed.

  Lemma pbl_len : length (pblocks (kcs g)) = length (pblocks (kcs g')).
  Proof. rewrite !pbl_length. exact Hm. Qed.

  Lemma pbl_bij : bij_on (length (pblocks (kcs g))) pe.
  Proof. rewrite pbl_length. exact Hbe. Qed.

  Definition bX : nat -> nat := bmap (pblocks (kcs g)) (pblocks (kcs g')) pe.

  Lemma kX_nodes h : p_nodes (kX img h) = concat (pblocks (kcs h)).
  Proof. unfold kX. apply ptl_nodes. Qed.

  Lemma kX_len : length (p_nodes (kX img g)) = length (p_nodes (kX img g')).
  Proof. rewrite !kX_nodes. exact (@bmap_len _ _ _ _ pbl_len pbl_bij pbl_nth). Qed.

  Lemma bX_bij : bij_on (length (p_nodes (kX img g))) bX.
  Proof. rewrite kX_nodes. exact (@bmap_bij _ _ _ _ pbl_len pbl_bij pbl_nth). Qed.

  Lemma bX_nth i : i < length (p_nodes (kX img g)) ->
    nth_error (p_nodes (kX img g')) (bX i) = nth_error (p_nodes (kX img g)) i.
  Proof. rewrite !kX_nodes. exact (@bmap_nth _ _ _ _ pbl_nth i). Qed.

  Lemma bX_block k u : k < length (p_edges g) -> u < length (p_nodes (nth k (kcs g) pempty)) ->
    bX (u + poff (kcs g) k) = u + poff (kcs g') (pe k).
  Proof.
    intros Hk Hu. rewrite (Nat.add_comm u), (Nat.add_comm u). unfold poff.
    apply (@bmap_block _ _ _ _ pbl_nth).
    - rewrite pbl_length. exact Hk.
    - rewrite pblocks_nth. exact Hu.
  Qed.

  (* ---------- the renumbering of the presentation ---------- *)
  Hypothesis Hok : Forall (img_ok Fo img) (pgens g).

  Lemma kX_kcs h : kX img h = ptl (kcs h).
  Proof. reflexivity. Qed.

  Lemma kcs_pwf : Forall (@pwf O2 A2) (kcs g).
  Proof.
    unfold kcs. apply Forall_map. eapply Forall_impl; [|exact Hok]. intros y (H & _). exact H.
  Qed.

  Lemma kcs_pwf_nth k : pwf (nth k (kcs g) pempty).
  Proof. apply pwf_nth. exact kcs_pwf. Qed.

  Definition PN : nat -> nat := qsum (length (kW Fo g)) (length (kW Fo g)) bN bX.

  Lemma KD_len h : length (p_nodes (KD Fo img h)) = length (kW Fo h) + length (p_nodes (kX img h)).
  Proof. unfold KD, sub_D. cbn [p_nodes]. apply app_length. Qed.

  Lemma PN_bij : bij_on (length (p_nodes (KD Fo img g))) PN.
  Proof. rewrite KD_len. apply bij_on_qsum; [exact bN_bij|exact bX_bij]. Qed.

  Lemma kX_edges_perm : Permutation (map (map_edge bX) (p_edges (kX img g))) (p_edges (kX img g')).
  Proof.
    rewrite !kX_kcs, !ptl_edges, kp_map_flat_map, !kcs_length, <- Hm.
    apply kp_flat_map_reindex with pe; [exact Hbe|]. intros k Hk.
    rewrite kcs_nth_d by exact Hk. apply map_edges_on_shift; [apply kcs_pwf_nth|].
    intros x Hx. apply bX_block; assumption.
  Qed.

  Lemma KD_isovia : IsoVia PN (KD Fo img g) (KD Fo img g').
  Proof.
    split; [|split; [exact PN_bij|split; [|split; [|split]]]].
    - rewrite !KD_len, kW_len, kX_len. reflexivity.
    - rewrite KD_len. intros i Hlt. unfold KD, sub_D, PN. cbn [p_nodes].
      destruct (lt_dec i (length (kW Fo g))) as [H|H].
      + rewrite qsum_l by exact H. rewrite !nth_error_app1.
        * apply bN_nth. exact H.
        * exact H.
        * rewrite <- kW_len. apply bN_bij. exact H.
      + rewrite qsum_r by lia. rewrite (nth_error_app2 (kW Fo g')) by (rewrite <- kW_len; lia).
        rewrite (nth_error_app2 (kW Fo g)) by lia. rewrite <- kW_len.
        replace (bX (i - length (kW Fo g)) + length (kW Fo g) - length (kW Fo g))
          with (bX (i - length (kW Fo g))) by lia.
        apply bX_nth. lia.
    - unfold KD, sub_D, PN. cbn [p_edges]. rewrite map_map.
      rewrite (map_ext _ (fun e => shift_edge (length (kW Fo g)) (map_edge bX e)))
        by (intros e; apply map_edge_qsum_r).
      rewrite <- (map_map (map_edge bX) (shift_edge (length (kW Fo g)))). rewrite <- kW_len.
      apply Permutation_map. exact kX_edges_perm.
    - unfold KD, sub_D, PN. cbn [p_ins]. rewrite Hi, bN_kex by apply Wg. symmetry.
      apply map_qsum_l. apply kex_lt.
    - unfold KD, sub_D, PN. cbn [p_outs]. rewrite Ho, bN_kex by apply Wg. symmetry.
      apply map_qsum_l. apply kex_lt.
  Qed.

  (* ---------- the gluing pairs, one half (sources / inputs or targets / outputs) at a time ---------- *)
  Section Half.
    Variable sel : pedge A1 -> list nat.
    Variable io : pohg O2 A2 -> list nat.
    Hypothesis io_ptl : forall cs,
      io (ptl cs) = flat_map (fun k => shiftl (poff cs k) (io (nth k cs pempty))) (seq 0 (length cs)).
    Hypothesis sel_lt : forall e, In e (p_edges g) -> all_lt (length (p_nodes g)) (sel e).
    Hypothesis sel_map : forall e, sel (map_edge pn e) = map pn (sel e).
    Hypothesis io_lt : forall c, pwf c -> all_lt (length (p_nodes c)) (io c).
    Hypothesis io_len : forall e, In e (p_edges g) ->
      length (kex Fo g (sel e)) = length (io (img (gen_of (p_nodes g) e))).

    Definition sels (h : pohg O1 A1) : list (list nat) := map sel (p_edges h).

    Definition halfP (h : pohg O1 A1) : list (nat * nat) :=
      combine (kex Fo h (concat (sels h))) (shiftl (length (kW Fo h)) (io (kX img h))).

    Definition halfB (h : pohg O1 A1) (k : nat) : list (nat * nat) :=
      combine (kex Fo h (nth k (sels h) []))
              (shiftl (length (kW Fo h)) (shiftl (poff (kcs h) k) (io (nth k (kcs h) pempty)))).

    Lemma halfP_flat h :
      (forall k, k < length (p_edges h) ->
         length (kex Fo h (nth k (sels h) [])) = length (io (nth k (kcs h) pempty))) ->
      halfP h = flat_map (halfB h) (seq 0 (length (p_edges h))).
    Proof.
      intros Hlen. unfold halfP. rewrite kp_concat_seq. unfold kex at 1. rewrite kp_inj_table_flat_map.
      rewrite kX_kcs, io_ptl, kp_shiftl_flat_map. unfold sels at 2. rewrite map_length, kcs_length.
      rewrite kp_combine_flat_map; [reflexivity|]. intros k Hk. apply in_seq in Hk.
      rewrite !shiftl_length. apply Hlen. lia.
    Qed.

    Lemma blk_facts k : k < length (p_edges g) -> exists e, In e (p_edges g) /\
      nth k (sels g) [] = sel e /\ nth (pe k) (sels g') [] = map pn (sel e) /\
      nth k (kcs g) pempty = img (gen_of (p_nodes g) e).
    Proof.
      intros Hk. destruct (edge_nth Hk) as (e & E & Hin & E'). exists e. split; [exact Hin|].
      split; [|split].
      - apply nth_error_nth. unfold sels. rewrite nth_error_map, E. reflexivity.
      - apply nth_error_nth. unfold sels. rewrite nth_error_map, E'. cbn [option_map]. rewrite sel_map. reflexivity.
      - apply nth_error_nth. unfold kcs, pgens. rewrite !nth_error_map, E. reflexivity.
    Qed.

    Lemma half_len_g k : k < length (p_edges g) ->
      length (kex Fo g (nth k (sels g) [])) = length (io (nth k (kcs g) pempty)).
    Proof.
      intros Hk. destruct (blk_facts Hk) as (e & Hin & E1 & _ & E3). rewrite E1, E3. apply io_len. exact Hin.
    Qed.

    Lemma half_len_g' k' : k' < length (p_edges g') ->
      length (kex Fo g' (nth k' (sels g') [])) = length (io (nth k' (kcs g') pempty)).
    Proof.
      intros Hk'. rewrite <- Hm in Hk'. destruct (bij_on_surj Hbe Hk') as (k & Hk & <-).
      rewrite kcs_nth_d by exact Hk. rewrite <- half_len_g by exact Hk.
      destruct (blk_facts Hk) as (e & Hin & E1 & E2 & _). rewrite E1, E2.
      rewrite bN_kex by (apply sel_lt; exact Hin). apply map_length.
    Qed.

    Lemma halfB_map k : k < length (p_edges g) -> pmap PN (halfB g k) = halfB g' (pe k).
    Proof.
      intros Hk. unfold halfB. rewrite <- combine_pmap. f_equal.
      - unfold PN. rewrite map_qsum_l by apply kex_lt.
        destruct (blk_facts Hk) as (e & Hin & E1 & E2 & _). rewrite E1, E2.
        symmetry. apply bN_kex. apply sel_lt. exact Hin.
      - unfold PN. rewrite map_qsum_r, <- kW_len. f_equal. rewrite kcs_nth_d by exact Hk.
        apply map_on_shift with (N := length (p_nodes (nth k (kcs g) pempty))).
        + intros x Hx. apply bX_block; assumption.
        + apply io_lt. apply kcs_pwf_nth.
    Qed.

    Lemma half_perm : Permutation (pmap PN (halfP g)) (halfP g').
    Proof.
      rewrite (@halfP_flat g half_len_g), (@halfP_flat g' half_len_g'), kp_pmap_flat_map, <- Hm.
      apply kp_flat_map_reindex with pe; [exact Hbe|]. exact halfB_map.
    Qed.
  End Half.

  Lemma kex_length (h : pohg O1 A1) l : all_lt (length (p_nodes h)) l ->
    length (kex Fo h l) = length (flat_map Fo (lsel (p_nodes h) l)).
  Proof.
    unfold kex, inj_table, lsel, all_lt. induction l as [|i l IH]; intros H; [reflexivity|].
    inversion H as [|i' l' Hlt Hl']; subst. cbn [flat_map]. rewrite flat_map_app, !app_length, IH by exact Hl'.
    f_equal. rewrite seq_length. destruct (nth_error (p_nodes h) i) as [x|] eqn:E.
    - cbn [flat_map]. rewrite app_nil_r. apply nth_error_nth. unfold ksizes. rewrite nth_error_map, E. reflexivity.
    - apply nth_error_None in E. lia.
  Qed.

  Lemma Hok_In e : In e (p_edges g) -> img_ok Fo img (gen_of (p_nodes g) e).
  Proof.
    intros Hin. rewrite Forall_forall in Hok. apply Hok. unfold pgens. apply in_map. exact Hin.
  Qed.

  Lemma KP_perm : Permutation (pmap PN (KP Fo img g)) (KP Fo img g').
  Proof.
    unfold KP, sub_P. rewrite pmap_app. apply Permutation_app.
    - apply (@half_perm (@pe_src A1) (@p_ins O2 A2)).
      + apply ptl_ins.
      + intros e Hin. apply Wg. exact Hin.
      + reflexivity.
      + intros c Wc. apply Wc.
      + intros e Hin. destruct (Hok_In e Hin) as (_ & H & _). rewrite H. apply kex_length. apply Wg. exact Hin.
    - apply (@half_perm (@pe_tgt A1) (@p_outs O2 A2)).
      + apply ptl_outs.
      + intros e Hin. apply Wg. exact Hin.
      + reflexivity.
      + intros c Wc. apply Wc.
      + intros e Hin. destruct (Hok_In e Hin) as (_ & _ & H). rewrite H. apply kex_length. apply Wg. exact Hin.
  Qed.

  Lemma KD_pwf : pwf (KD Fo img g).
  Proof. apply pwf_sub_D; [|apply kex_lt|apply kex_lt]. rewrite kX_kcs. apply pwf_ptl. exact kcs_pwf. Qed.

  Lemma KP_lt : pairs_lt (length (p_nodes (KD Fo img g))) (KP Fo img g).
  Proof. apply pairs_lt_sub_P; [|apply kex_lt|apply kex_lt]. rewrite kX_kcs. apply pwf_ptl. exact kcs_pwf. Qed.
End KIsoProof.

(* ======================= the theorems ======================= *)
Section KIso.
  Variables O1 A1 O2 A2 : Type.
  Variable Fo : O1 -> list O2.
  Variable img : gen O1 A1 -> pohg O2 A2.

  (* isomorphic diagrams have the same generators up to order *)
  Lemma Iso_pgens_perm (g g' : pohg O1 A1) : pwf g -> Iso g g' -> Permutation (pgens g) (pgens g').
  Proof.
    intros W (Hn & Hm & pn & pe & Hbn & Hbe & Hl & He & Hi & Ho).
    exact (@pgens_perm _ _ g g' pn pe W Hn Hm Hbe Hl He).
  Qed.

  Lemma img_ok_iso (g g' : pohg O1 A1) : pwf g -> Iso g g' ->
    Forall (img_ok Fo img) (pgens g) -> Forall (img_ok Fo img) (pgens g').
  Proof. intros W HI Hok. exact (Permutation_Forall (Iso_pgens_perm W HI) Hok). Qed.

  (* the presentation of g' is the presentation of g renumbered: a gluing of the one yields a gluing of
     the other, with isomorphic results *)
  Theorem K_glued_transport (g g' : pohg O1 A1) (h : pohg O2 A2) :
    pwf g -> Iso g g' -> Forall (img_ok Fo img) (pgens g) ->
    Glued (KD Fo img g) (KP Fo img g) h ->
    exists h', Glued (KD Fo img g') (KP Fo img g') h' /\ Iso h h'.
  Proof.
    intros W (Hn & Hm & pn & pe & Hbn & Hbe & Hl & He & Hi & Ho) Hok G.
    pose proof (@KD_isovia _ _ _ _ Fo img g g' pn pe W Hn Hm Hbn Hbe Hl He Hi Ho Hok) as HV.
    pose proof (@KP_perm _ _ _ _ Fo img g g' pn pe W Hn Hm Hbn Hbe Hl He Hok) as HPerm.
    destruct (Glued_transport (@KD_pwf _ _ _ _ _ _ _ Hok) (@KP_lt _ _ _ _ _ _ _ Hok) HV G) as (h'' & G'' & I1).
    exists h''. split; [|exact I1].
    apply Glued_ext with (2 := G''). intros x y. apply conn_set_ext. intros p. split.
    - apply Permutation_in. exact HPerm.
    - apply Permutation_in. apply Permutation_sym. exact HPerm.
  Qed.

  (* the canonical presentation respects isomorphism: node renumbering pn permutes the blocks Fo(label) of
     kW, the hyperedge bijection pe permutes the blocks img(generator) of kX *)
  Theorem K_iso (g g' : pohg O1 A1) (h h' : pohg O2 A2) :
    pwf g -> Iso g g' -> Forall (img_ok Fo img) (pgens g) ->
    Glued (KD Fo img g) (KP Fo img g) h -> Glued (KD Fo img g') (KP Fo img g') h' -> Iso h h'.
  Proof.
    intros W HI Hok G G'. destruct (K_glued_transport W HI Hok G) as (h'' & G'' & I1).
    apply Iso_trans with h''; [exact I1|]. apply NIso_Iso.
    exact (Glued_unique (@KD_pwf _ _ _ _ _ _ _ (img_ok_iso W HI Hok)) G'' G').
  Qed.

  (* and the explicit quotients.  [Glued_pquot] needs, besides [pairs_lt], that glued nodes carry equal
     labels; this does not follow from [img_ok] (lengths only) and without it the statement is false
     (see Kimg_iso_needs_glued below), so the existence of some gluing of the presentation of g is
     assumed. *)
  Corollary Kimg_iso (g g' : pohg O1 A1) (h0 : pohg O2 A2) :
    pwf g -> Iso g g' -> Forall (img_ok Fo img) (pgens g) ->
    Glued (KD Fo img g) (KP Fo img g) h0 -> Iso (Kimg Fo img g) (Kimg Fo img g').
  Proof.
    intros W HI Hok G0. destruct (K_glued_transport W HI Hok G0) as (h0' & G0' & _).
    pose proof (img_ok_iso W HI Hok) as Hok'.
    apply (K_iso W HI Hok); unfold Kimg.
    - exact (Glued_pquot_of (@KP_lt _ _ _ _ _ _ _ Hok) G0).
    - exact (Glued_pquot_of (@KP_lt _ _ _ _ _ _ _ Hok') G0').
  Qed.

  (* the label compatibility of the gluing pairs *)
  Definition KP_compat (g : pohg O1 A1) : Prop :=
    forall a b, In (a, b) (KP Fo img g) ->
      nth_error (p_nodes (KD Fo img g)) a = nth_error (p_nodes (KD Fo img g)) b.

  Corollary Kimg_glued (g : pohg O1 A1) : Forall (img_ok Fo img) (pgens g) -> KP_compat g ->
    Glued (KD Fo img g) (KP Fo img g) (Kimg Fo img g).
  Proof. intros Hok Hc. apply Glued_pquot; [exact (@KP_lt _ _ _ _ _ _ _ Hok)|exact Hc]. Qed.

  Corollary Kimg_iso_compat (g g' : pohg O1 A1) :
    pwf g -> Iso g g' -> Forall (img_ok Fo img) (pgens g) -> KP_compat g ->
    Iso (Kimg Fo img g) (Kimg Fo img g').
  Proof. intros W HI Hok Hc. exact (Kimg_iso W HI Hok (Kimg_glued Hok Hc)). Qed.
End KIso.

(* ======================= examples ======================= *)
(* every object is doubled; the image of a generator is one hyperedge between the doubled types *)
Definition exFo (o : nat) : list nat := [o; o].
Definition eximg (y : gen nat nat) : pohg nat nat :=
  let a := flat_map exFo (fst (snd y)) in
  let b := flat_map exFo (snd (snd y)) in
  mkP (a ++ b) [mkPE (fst y) (seq 0 (length a)) (seq (length a) (length b))]
      (seq 0 (length a)) (seq (length a) (length b)).

(* 10 : [1] -> [2] followed by 11 : [2] -> [3]; in exg' the nodes are renumbered by 0 -> 2, 1 -> 0, 2 -> 1
   and the two hyperedges are exchanged *)
Definition exg : pohg nat nat := mkP [1; 2; 3] [mkPE 10 [0] [1]; mkPE 11 [1] [2]] [0] [2].
Definition exg' : pohg nat nat := mkP [2; 3; 1] [mkPE 11 [0] [1]; mkPE 10 [2] [0]] [2] [1].
Definition ex_pn (i : nat) : nat := match i with 0 => 2 | 1 => 0 | _ => 1 end.
Definition ex_pe (e : nat) : nat := match e with 0 => 1 | _ => 0 end.

Example exg_pwf : pwf exg.
Proof.
  split; [|split; repeat constructor]. intros e [<-|[<-|[]]]; split; repeat constructor.
Qed.

Example exg_iso : Iso exg exg'.
Proof.
  split; [reflexivity|]. split; [reflexivity|]. exists ex_pn, ex_pe. cbn [exg exg' p_nodes p_edges p_ins p_outs length].
  split; [|split; [|split; [|split; [|split; reflexivity]]]].
  - split.
    + intros i Hi. destruct i as [|[|[|i]]]; cbn [ex_pn]; lia.
    + intros i j Hi Hj. destruct i as [|[|[|i]]]; destruct j as [|[|[|j]]]; cbn [ex_pn]; lia.
  - split.
    + intros i Hi. destruct i as [|[|i]]; cbn [ex_pe]; lia.
    + intros i j Hi Hj. destruct i as [|[|i]]; destruct j as [|[|j]]; cbn [ex_pe]; lia.
  - intros i Hi. destruct i as [|[|[|i]]]; [reflexivity|reflexivity|reflexivity|lia].
  - intros e He. destruct e as [|[|e]]; [reflexivity|reflexivity|lia].
Qed.

Lemma eximg_ok y : img_ok exFo eximg y.
Proof.
  unfold img_ok, eximg. cbn [p_nodes p_edges p_ins p_outs]. split; [|split; apply seq_length].
  unfold pwf. cbn [p_nodes p_edges p_ins p_outs]. rewrite app_length. split; [|split].
  - intros e [<-|[]]. cbn [pe_src pe_tgt]. split; apply C03Plain.all_lt_seq; lia.
  - apply C03Plain.all_lt_seq. lia.
  - apply C03Plain.all_lt_seq. lia.
Qed.

Example exg_ok : Forall (img_ok exFo eximg) (pgens exg).
Proof. apply Forall_forall. intros y _. apply eximg_ok. Qed.

Example exg_compat : KP_compat exFo eximg exg.
Proof.
  intros a b H. vm_compute in H.
  repeat (destruct H as [H|H]; [inversion H; subst; reflexivity|]). destruct H.
Qed.

(* K_iso: all hypotheses are satisfiable; the two images are isomorphic *)
Example K_iso_ex : exists h h',
  Glued (KD exFo eximg exg) (KP exFo eximg exg) h /\ Glued (KD exFo eximg exg') (KP exFo eximg exg') h' /\ Iso h h'.
Proof.
  pose proof (Kimg_glued exg_ok exg_compat) as G.
  destruct (K_glued_transport exg_pwf exg_iso exg_ok G) as (h' & G' & _).
  exists (Kimg exFo eximg exg), h'. split; [exact G|]. split; [exact G'|].
  exact (K_iso exg_pwf exg_iso exg_ok G G').
Qed.

Example Kimg_iso_ex : Iso (Kimg exFo eximg exg) (Kimg exFo eximg exg').
Proof. exact (Kimg_iso_compat exg_pwf exg_iso exg_ok exg_compat). Qed.

Example Iso_pgens_perm_ex : Permutation (pgens exg) (pgens exg').
Proof. exact (Iso_pgens_perm exg_pwf exg_iso). Qed.

(* the corollary for the explicit quotients needs more than img_ok: here the image of the generator
   10 : [1] -> [2] is a single node that is both input and output, so the nodes labelled 1 and 2 are
   glued; the explicit quotient labels the class by its first member, which depends on the numbering *)
Definition cxFo (o : nat) : list nat := [o].
Definition cximg (y : gen nat nat) : pohg nat nat := mkP [0] [] [0] [0].
Definition cxg : pohg nat nat := mkP [1; 2] [mkPE 10 [0] [1]] [0] [1].
Definition cxg' : pohg nat nat := mkP [2; 1] [mkPE 10 [1] [0]] [1] [0].
Definition cx_pn (i : nat) : nat := match i with 0 => 1 | _ => 0 end.

Example Kimg_iso_needs_glued :
  pwf cxg /\ Iso cxg cxg' /\ Forall (img_ok cxFo cximg) (pgens cxg) /\
  ~ Iso (Kimg cxFo cximg cxg) (Kimg cxFo cximg cxg').
Proof.
  split; [|split; [|split]].
  - split; [|split; repeat constructor]. intros e [<-|[]]; split; repeat constructor.
  - split; [reflexivity|]. split; [reflexivity|]. exists cx_pn, (fun e => e).
    cbn [cxg cxg' p_nodes p_edges p_ins p_outs length].
    split; [|split; [apply bij_on_id|split; [|split; [|split; reflexivity]]]].
    + split.
      * intros i Hi. destruct i as [|[|i]]; cbn [cx_pn]; lia.
      * intros i j Hi Hj. destruct i as [|[|i]]; destruct j as [|[|j]]; cbn [cx_pn]; lia.
    + intros i Hi. destruct i as [|[|i]]; [reflexivity|reflexivity|lia].
    + intros e He. destruct e as [|e]; [reflexivity|lia].
  - unfold pgens. cbn [cxg p_edges p_nodes map]. constructor; [|constructor].
    split; [|split; reflexivity]. split; [intros e []|]. split; repeat constructor.
  - intros (_ & _ & pn & pe & [Hlt _] & _ & Hl & _).
    assert (E : p_nodes (Kimg cxFo cximg cxg) = [1]) by (vm_compute; reflexivity).
    assert (E' : p_nodes (Kimg cxFo cximg cxg') = [2]) by (vm_compute; reflexivity).
    rewrite E in Hlt, Hl. rewrite E' in Hl. cbn [length] in Hlt, Hl.
    specialize (Hlt 0 ltac:(lia)). specialize (Hl 0 ltac:(lia)).
    replace (pn 0) with 0 in Hl by lia. discriminate Hl.
Qed.

Print Assumptions Iso_pgens_perm.
Print Assumptions K_glued_transport.
Print Assumptions K_iso.
Print Assumptions Kimg_iso.
Print Assumptions Kimg_iso_compat.
Print Assumptions K_iso_ex.
Print Assumptions Kimg_iso_ex.
Print Assumptions Kimg_iso_needs_glued.
