(* C14d, groundwork for C14dPerm.v (the canonical presentation KD / KP respects isomorphism):
   - lists of blocks: reading a concatenation block-wise, re-indexing a [flat_map] over [seq 0 n]
     along a bijection, zipping two block-wise concatenations;
   - [bmap]: the block-wise renumbering induced by a bijection of block indices that maps equal
     blocks to equal blocks (an instance of C12Blocks.bqW) is a bijection preserving the elements;
   - flat formulas for the n-ary tensor [ptl]: nodes, hyperedges, inputs, outputs block by block;
   - well-formedness of the substitution presentation [sub_D] / [sub_P];
   - [lsel] under a label-preserving renumbering. *)
From OHG Require Import Spec.Plain Proofs.PrimsThm Proofs.CCThm Proofs.SegThm Proofs.C08Thm
  Proofs.C01Lemmas Proofs.QuotThm Proofs.C03Plain Proofs.C12Lemmas Proofs.C12Blocks
  Proofs.C14cPlain Proofs.C14dDefs.
Require Import Permutation.

Set Implicit Arguments.
Arguments Nat.sub : simpl never.

(* ======================= lists of blocks ======================= *)
Lemma kp_list_sum_cons x l : list_sum (x :: l) = x + list_sum l.
Proof. reflexivity. Qed.

Lemma kp_concat_length {T} (bl : list (list T)) : length (concat bl) = list_sum (map (@length T) bl).
Proof.
  induction bl as [|b bl IH]; [reflexivity|]. cbn [concat map]. rewrite kp_list_sum_cons, app_length, IH.
  reflexivity.
Qed.

Lemma kp_nth_error_concat {T} (bl : list (list T)) : forall v u, u < length (nth v bl []) ->
  nth_error (concat bl) (list_sum (firstn v (map (@length T) bl)) + u) = nth_error (nth v bl []) u.
Proof.
  induction bl as [|b bl IH]; intros v u Hu.
  - destruct v; cbn [nth length] in Hu; lia.
  - destruct v as [|v]; cbn [nth] in Hu |- *; cbn [map firstn concat].
    + change (list_sum []) with 0. rewrite Nat.add_0_l. apply nth_error_app1. exact Hu.
    + rewrite kp_list_sum_cons. rewrite nth_error_app2 by lia.
      replace (length b + list_sum (firstn v (map (@length T) bl)) + u - length b)
        with (list_sum (firstn v (map (@length T) bl)) + u) by lia.
      apply IH. exact Hu.
Qed.

Lemma kp_concat_seq {T} (bl : list (list T)) :
  concat bl = flat_map (fun k => nth k bl []) (seq 0 (length bl)).
Proof. rewrite flat_map_concat_map, C08Thm.map_nth_seq. reflexivity. Qed.

Lemma kp_flat_map_map {X Y Z} (f : X -> Y) (F : Y -> list Z) l :
  flat_map F (map f l) = flat_map (fun k => F (f k)) l.
Proof. rewrite !flat_map_concat_map, map_map. reflexivity. Qed.

Lemma kp_map_flat_map {X Y Z} (f : Y -> Z) (F : X -> list Y) l :
  map f (flat_map F l) = flat_map (fun k => map f (F k)) l.
Proof.
  induction l as [|x l IH]; [reflexivity|]. cbn [flat_map]. rewrite map_app, IH. reflexivity.
Qed.

Lemma kp_shiftl_flat_map {K} a (F : K -> list nat) l :
  shiftl a (flat_map F l) = flat_map (fun k => shiftl a (F k)) l.
Proof. apply kp_map_flat_map. Qed.

Lemma kp_pmap_flat_map {K} q (F : K -> list (nat * nat)) l :
  pmap q (flat_map F l) = flat_map (fun k => pmap q (F k)) l.
Proof. apply kp_map_flat_map. Qed.

Lemma kp_nth_error_seq a n i : i < n -> nth_error (seq a n) i = Some (a + i).
Proof.
  intros H. rewrite (nth_error_nth' (seq a n) 0) by (rewrite seq_length; exact H).
  rewrite seq_nth by exact H. reflexivity.
Qed.

Lemma kp_perm_map_seq n pe : bij_on n pe -> Permutation (map pe (seq 0 n)) (seq 0 n).
Proof.
  intros Hb. apply perm_of_bij with pe.
  - rewrite map_length. reflexivity.
  - rewrite map_length, seq_length. exact Hb.
  - rewrite map_length, seq_length. intros e He.
    rewrite nth_error_map, !kp_nth_error_seq; [reflexivity|exact He|apply Hb; exact He].
Qed.

(* re-indexing a block-wise concatenation along a bijection of the block indices *)
Lemma kp_flat_map_reindex {T} (F F' : nat -> list T) n pe : bij_on n pe ->
  (forall k, k < n -> F k = F' (pe k)) ->
  Permutation (flat_map F (seq 0 n)) (flat_map F' (seq 0 n)).
Proof.
  intros Hb HF. rewrite (flat_map_ext_in' F (fun k => F' (pe k))).
  - rewrite <- kp_flat_map_map. apply Permutation_flat_map. apply kp_perm_map_seq. exact Hb.
  - intros k Hk. apply in_seq in Hk. apply HF. lia.
Qed.

Lemma kp_combine_flat_map {X Y K} (A : K -> list X) (B : K -> list Y) l :
  (forall k, In k l -> length (A k) = length (B k)) ->
  combine (flat_map A l) (flat_map B l) = flat_map (fun k => combine (A k) (B k)) l.
Proof.
  induction l as [|k l IH]; intros H; [reflexivity|]. cbn [flat_map].
  rewrite combine_app_eq by (apply H; left; reflexivity). rewrite IH; [reflexivity|].
  intros k' Hk'. apply H. right. exact Hk'.
Qed.

Lemma kp_inj_table_flat_map {K} sizes (F : K -> list nat) l :
  inj_table sizes (flat_map F l) = flat_map (fun k => inj_table sizes (F k)) l.
Proof.
  induction l as [|k l IH]; [reflexivity|]. cbn [flat_map]. unfold inj_table in *.
  rewrite flat_map_app, IH. reflexivity.
Qed.

Lemma kp_nth_of_nth_error {T} (l l' : list T) i j d : j < length l ->
  nth_error l' i = nth_error l j -> nth i l' d = nth j l d.
Proof.
  intros Hj E. rewrite (nth_error_nth' l d Hj) in E. apply nth_error_nth. exact E.
Qed.

(* ======================= the block-wise renumbering ======================= *)
Section Blocks.
  Variable T : Type.
  Variables bl bl' : list (list T).
  Variable qf : nat -> nat.
  Hypothesis Hlen : length bl = length bl'.
  Hypothesis Hb : bij_on (length bl) qf.
  Hypothesis Hnth : forall v, v < length bl -> nth_error bl' (qf v) = nth_error bl v.

  Definition bmap : nat -> nat := bqW (map (@length T) bl) (map (@length T) bl') qf.

  Lemma bmap_blk v : v < length bl -> nth (qf v) bl' [] = nth v bl [].
  Proof. intros Hv. apply kp_nth_of_nth_error; [exact Hv|]. apply Hnth. exact Hv. Qed.

  Lemma bmap_q_lt v : v < length (map (@length T) bl) -> qf v < length (map (@length T) bl').
  Proof. rewrite !map_length. intros Hv. rewrite <- Hlen. apply Hb. exact Hv. Qed.

  Lemma bmap_q_sz v : v < length (map (@length T) bl) ->
    nth (qf v) (map (@length T) bl') 0 = nth v (map (@length T) bl) 0.
  Proof.
    rewrite map_length. intros Hv. change 0 with (length (@nil T)). rewrite !map_nth.
    rewrite bmap_blk by exact Hv. reflexivity.
  Qed.

  Lemma bmap_size v : nth v (map (@length T) bl) 0 = length (nth v bl []).
  Proof. change 0 with (length (@nil T)). apply map_nth. Qed.

  Lemma bmap_block v u : v < length bl -> u < length (nth v bl []) ->
    bmap (list_sum (firstn v (map (@length T) bl)) + u) =
    list_sum (firstn (qf v) (map (@length T) bl')) + u.
  Proof.
    intros Hv Hu. unfold bmap. apply (@bqW_block _ _ _ bmap_q_sz).
    - rewrite map_length. exact Hv.
    - rewrite bmap_size. exact Hu.
  Qed.

  Lemma bmap_expand l : all_lt (length bl) l ->
    inj_table (map (@length T) bl') (map qf l) = map bmap (inj_table (map (@length T) bl) l).
  Proof.
    intros Hl. unfold bmap. apply (@bqW_expand _ _ _ bmap_q_sz). rewrite map_length. exact Hl.
  Qed.

  Lemma bmap_len : length (concat bl) = length (concat bl').
  Proof.
    apply Permutation_length. rewrite <- (map_id bl), <- (map_id bl'), <- !flat_map_concat_map.
    apply Permutation_flat_map. apply perm_of_bij with qf; assumption.
  Qed.

  Lemma bmap_bij : bij_on (length (concat bl)) bmap.
  Proof.
    split.
    - intros i Hi. rewrite bmap_len. rewrite kp_concat_length in *.
      apply (@bqW_lt _ _ _ bmap_q_sz). exact Hi.
    - intros i j Hi Hj E. rewrite kp_concat_length in *.
      destruct (@bqW_inj _ _ _ bmap_q_sz _ _ Hi Hj E) as (v & v' & u & Hv & Hv' & Hu & Eq & -> & ->).
      rewrite map_length in Hv, Hv'. destruct Hb as [_ Hinj]. rewrite (Hinj v v' Hv Hv' Eq). reflexivity.
  Qed.

  Lemma bmap_nth i : i < length (concat bl) ->
    nth_error (concat bl') (bmap i) = nth_error (concat bl) i.
  Proof.
    intros Hi. rewrite kp_concat_length in Hi.
    destruct (block_decomp _ Hi) as (v & u & Hv & Hu & ->). rewrite map_length in Hv.
    rewrite bmap_size in Hu. rewrite bmap_block by assumption.
    rewrite !kp_nth_error_concat.
    - rewrite bmap_blk by exact Hv. reflexivity.
    - exact Hu.
    - rewrite bmap_blk by exact Hv. exact Hu.
  Qed.
End Blocks.

(* ======================= flat formulas for the n-ary tensor ======================= *)
Section PtlFlat.
  Variables O A : Type.
  Implicit Types c f g : pohg O A.
  Implicit Types cs : list (pohg O A).

  (* the node blocks of a list of diagrams, and the offset of the k-th block *)
  Definition pblocks cs : list (list O) := map (@p_nodes O A) cs.
  Definition poff cs (k : nat) : nat := list_sum (firstn k (map (@length O) (pblocks cs))).

  Lemma ptl_cons c cs : ptl (c :: cs) = ptensor c (ptl cs).
  Proof. reflexivity. Qed.

  Lemma ptl_nodes cs : p_nodes (ptl cs) = concat (pblocks cs).
  Proof.
    induction cs as [|c cs IH]; [reflexivity|]. rewrite ptl_cons. cbn [ptensor p_nodes pblocks map concat].
    rewrite IH. reflexivity.
  Qed.

  Lemma poff_0 cs : poff cs 0 = 0.
  Proof. reflexivity. Qed.

  Lemma poff_S c cs k : poff (c :: cs) (S k) = length (p_nodes c) + poff cs k.
  Proof. reflexivity. Qed.

  Lemma pblocks_nth cs k : nth k (pblocks cs) [] = p_nodes (nth k cs pempty).
  Proof. unfold pblocks. change (@nil O) with (p_nodes (@pempty O A)). apply map_nth. Qed.

  Lemma pwf_pempty : pwf (@pempty O A).
  Proof. split; [intros e []|]. split; constructor. Qed.

  Lemma pwf_ptl cs : Forall (@pwf O A) cs -> pwf (ptl cs).
  Proof.
    induction cs as [|c cs IH]; intros H; [exact pwf_pempty|].
    inversion H as [|c' cs' Hc Hcs]; subst. rewrite ptl_cons. apply pwf_ptensor; [exact Hc|]. apply IH. exact Hcs.
  Qed.

  Lemma pwf_nth cs k : Forall (@pwf O A) cs -> pwf (nth k cs pempty).
  Proof.
    intros H. destruct (lt_dec k (length cs)) as [Hk|Hk].
    - rewrite Forall_forall in H. apply H. apply nth_In. exact Hk.
    - rewrite nth_overflow by lia. exact pwf_pempty.
  Qed.

  (* any component that the tensor concatenates after shifting *)
  Section Proj.
    Variable T : Type.
    Variable proj : pohg O A -> list T.
    Variable sh : nat -> list T -> list T.
    Hypothesis sh_0 : forall l, sh 0 l = l.
    Hypothesis sh_sh : forall a b l, sh a (sh b l) = sh (b + a) l.
    Hypothesis sh_app : forall a l l', sh a (l ++ l') = sh a l ++ sh a l'.
    Hypothesis sh_nil : forall a, sh a [] = [].
    Hypothesis proj_empty : proj pempty = [].
    Hypothesis proj_tensor : forall f g, proj (ptensor f g) = proj f ++ sh (length (p_nodes f)) (proj g).

    Lemma sh_flat_map {K} a (F : K -> list T) l : sh a (flat_map F l) = flat_map (fun k => sh a (F k)) l.
    Proof.
      induction l as [|k l IH]; cbn [flat_map]; [apply sh_nil|]. rewrite sh_app, IH. reflexivity.
    Qed.

    Lemma ptl_proj cs :
      proj (ptl cs) = flat_map (fun k => sh (poff cs k) (proj (nth k cs pempty))) (seq 0 (length cs)).
    Proof.
      induction cs as [|c cs IH]; [exact proj_empty|].
      rewrite ptl_cons, proj_tensor, IH. cbn [length seq flat_map nth]. rewrite poff_0, sh_0. f_equal.
      rewrite <- seq_shift, kp_flat_map_map, sh_flat_map. apply flat_map_ext_in'. intros k _.
      rewrite sh_sh, poff_S. cbn [nth]. f_equal. lia.
    Qed.
  End Proj.

  Lemma ptl_edges cs :
    p_edges (ptl cs) =
    flat_map (fun k => map (shift_edge (poff cs k)) (p_edges (nth k cs pempty))) (seq 0 (length cs)).
  Proof.
    apply (ptl_proj (@p_edges O A) (fun a => map (shift_edge a))).
    - intros l. rewrite <- (map_id l) at 2. apply map_ext. intros e. apply shift_edge_0.
    - intros a b l. rewrite map_map. apply map_ext. intros e. apply shift_edge_shift_edge.
    - intros a l l'. apply map_app.
    - reflexivity.
    - reflexivity.
    - reflexivity.
  Qed.

  Lemma ptl_ins cs :
    p_ins (ptl cs) = flat_map (fun k => shiftl (poff cs k) (p_ins (nth k cs pempty))) (seq 0 (length cs)).
  Proof.
    apply (ptl_proj (@p_ins O A) shiftl).
    - apply shiftl_0.
    - apply shiftl_shiftl.
    - apply shiftl_app.
    - reflexivity.
    - reflexivity.
    - reflexivity.
  Qed.

  Lemma ptl_outs cs :
    p_outs (ptl cs) = flat_map (fun k => shiftl (poff cs k) (p_outs (nth k cs pempty))) (seq 0 (length cs)).
  Proof.
    apply (ptl_proj (@p_outs O A) shiftl).
    - apply shiftl_0.
    - apply shiftl_shiftl.
    - apply shiftl_app.
    - reflexivity.
    - reflexivity.
    - reflexivity.
  Qed.

  (* ---------- the substitution presentation is well formed ---------- *)
  Lemma pwf_sub_D (W : list O) (X : pohg O A) I Ou : pwf X -> all_lt (length W) I -> all_lt (length W) Ou ->
    pwf (sub_D W X I Ou).
  Proof.
    intros (He & _ & _) HI HO. unfold pwf, sub_D. cbn [p_nodes p_edges p_ins p_outs]. rewrite app_length.
    split; [|split].
    - intros e H. apply in_map_iff in H. destruct H as (e' & <- & He'). cbn [shift_edge pe_src pe_tgt].
      split; apply all_lt_shiftl; apply He; exact He'.
    - eapply all_lt_mono; [|exact HI]. lia.
    - eapply all_lt_mono; [|exact HO]. lia.
  Qed.

  Lemma pairs_lt_sub_P (W : list O) (X : pohg O A) I Ou es et : pwf X ->
    all_lt (length W) es -> all_lt (length W) et ->
    pairs_lt (length (p_nodes (sub_D W X I Ou))) (sub_P W X es et).
  Proof.
    intros (_ & Hi & Ho) Hes Het. unfold sub_D, sub_P. cbn [p_nodes]. rewrite app_length.
    apply pairs_lt_app; apply pairs_lt_combine.
    - eapply all_lt_mono; [|exact Hes]. lia.
    - apply all_lt_shiftl. exact Hi.
    - eapply all_lt_mono; [|exact Het]. lia.
    - apply all_lt_shiftl. exact Ho.
  Qed.
End PtlFlat.

(* ======================= labels under a renumbering ======================= *)
Lemma lsel_map {T} (w w' : list T) (pn : nat -> nat) l : all_lt (length w) l ->
  (forall i, i < length w -> nth_error w' (pn i) = nth_error w i) ->
  lsel w' (map pn l) = lsel w l.
Proof.
  intros Hl Hn. unfold lsel. rewrite kp_flat_map_map. apply flat_map_ext_in'. intros i Hi.
  rewrite Hn; [reflexivity|]. eapply all_lt_In; eauto.
Qed.

Lemma lsel_length {T} (w : list T) l : all_lt (length w) l -> length (lsel w l) = length l.
Proof.
  unfold lsel, all_lt. induction l as [|i l IH]; intros H; [reflexivity|].
  inversion H as [|i' l' Hi Hl]; subst. cbn [flat_map]. rewrite app_length, IH by exact Hl.
  destruct (nth_error w i) as [x|] eqn:E; [reflexivity|]. apply nth_error_None in E. lia.
Qed.
