(* C14d, plain level:
   - the n-ary tensor [ptl]: strict associativity / units of [ptensor], [ptl_app], well-formedness, types;
   - isomorphisms preserve types;
   - [PSubst_transport] / [PSubst_iso]: the substitution instance of C12 respects isomorphism of the
     operation-batch image X;
   - [IsBatch_nary]: the optic image of a batch whose forward / reverse images are n-ary tensors is the
     n-ary tensor of the one-operation optic images. *)
From OHG Require Import Spec.Plain Proofs.PrimsThm Proofs.CCThm Proofs.SegThm Proofs.C01Lemmas Proofs.C01Thm
  Proofs.QuotThm Proofs.C03Plain Proofs.C12Plain Proofs.C14Thm Proofs.C14cPlain Proofs.C14cBatch
  Proofs.C14dDefs.

Set Implicit Arguments.
Arguments Nat.sub : simpl never.

Section PlainD.
  Variables O A : Type.
  Implicit Types f g h k X : pohg O A.

  (* ---------- ptensor is strictly associative and unital ---------- *)
  Lemma ptensor_assoc f g k : ptensor (ptensor f g) k = ptensor f (ptensor g k).
  Proof.
    unfold ptensor. cbn [p_nodes p_edges p_ins p_outs]. rewrite app_length. f_equal.
    - symmetry. apply app_assoc.
    - rewrite map_app, map_map, <- app_assoc. f_equal. f_equal. apply map_ext. intros e.
      rewrite shift_edge_shift_edge. f_equal. lia.
    - rewrite shiftl_app, shiftl_shiftl, <- app_assoc. f_equal. f_equal. f_equal. lia.
    - rewrite shiftl_app, shiftl_shiftl, <- app_assoc. f_equal. f_equal. f_equal. lia.
  Qed.

  Lemma ptensor_pempty_l f : ptensor pempty f = f.
  Proof.
    unfold ptensor, pempty. cbn [p_nodes p_edges p_ins p_outs length app].
    rewrite !shiftl_0. rewrite (map_ext _ _ (@shift_edge_0 A)), map_id. apply pohg_eta.
  Qed.

  Lemma ptensor_pempty_r f : ptensor f pempty = f.
  Proof.
    unfold ptensor, pempty. cbn [p_nodes p_edges p_ins p_outs map shiftl]. rewrite !app_nil_r.
    apply pohg_eta.
  Qed.

  Lemma ptl_cons (c : pohg O A) cs : ptl (c :: cs) = ptensor c (ptl cs).
  Proof. reflexivity. Qed.

  Lemma ptl_app (a b : list (pohg O A)) : ptl (a ++ b) = ptensor (ptl a) (ptl b).
  Proof.
    induction a as [|c a IH]; cbn [app].
    - unfold ptl at 2. cbn [fold_right]. rewrite ptensor_pempty_l. reflexivity.
    - rewrite !ptl_cons, IH, ptensor_assoc. reflexivity.
  Qed.

  Lemma ptl_fold_left (cs : list (pohg O A)) : fold_left (@ptensor O A) cs pempty = ptl cs.
  Proof.
    assert (H : forall acc, fold_left (@ptensor O A) cs acc = ptensor acc (ptl cs)).
    { induction cs as [|c cs IH]; intros acc; cbn [fold_left].
      - unfold ptl. cbn [fold_right]. rewrite ptensor_pempty_r. reflexivity.
      - rewrite IH, ptl_cons, ptensor_assoc. reflexivity. }
    rewrite H. apply ptensor_pempty_l.
  Qed.

  Lemma pwf_pempty : pwf (@pempty O A).
  Proof. split; [intros e []|split; constructor]. Qed.

  Lemma pwf_ptl (cs : list (pohg O A)) : Forall (@pwf O A) cs -> pwf (ptl cs).
  Proof.
    induction 1 as [|c cs Hc _ IH]; [exact pwf_pempty|]. rewrite ptl_cons. apply pwf_ptensor; assumption.
  Qed.

  Lemma src_type_ptl (cs : list (pohg O A)) : Forall (@pwf O A) cs ->
    src_type (ptl cs) = concat (map (@src_type O A) cs).
  Proof.
    induction 1 as [|c cs Hc _ IH]; [reflexivity|].
    rewrite ptl_cons, src_type_ptensor by exact Hc. cbn [map concat]. rewrite IH. reflexivity.
  Qed.

  Lemma tgt_type_ptl (cs : list (pohg O A)) : Forall (@pwf O A) cs ->
    tgt_type (ptl cs) = concat (map (@tgt_type O A) cs).
  Proof.
    induction 1 as [|c cs Hc _ IH]; [reflexivity|].
    rewrite ptl_cons, tgt_type_ptensor by exact Hc. cbn [map concat]. rewrite IH. reflexivity.
  Qed.

  Lemma Iso_ptl (cs cs' : list (pohg O A)) : Forall2 (@Iso O A) cs cs' -> Forall (@pwf O A) cs ->
    Iso (ptl cs) (ptl cs').
  Proof.
    induction 1 as [|c c' cs cs' Hc _ IH]; intros HW.
    - apply Iso_refl.
    - inversion HW as [|c0 cs0 Wc Wcs]; subst. rewrite !ptl_cons.
      apply Iso_ptensor; [exact Wc|exact Hc|apply IH; exact Wcs].
  Qed.

  (* ---------- isomorphisms preserve types ---------- *)
  Lemma Iso_type_of g g' pn l : all_lt (length (p_nodes g)) l ->
    (forall i, i < length (p_nodes g) -> nth_error (p_nodes g') (pn i) = nth_error (p_nodes g) i) ->
    type_of g' (map pn l) = type_of g l.
  Proof.
    intros Hl Hn. unfold type_of. rewrite map_map. apply map_ext_in. intros a Ha.
    apply Hn. eapply all_lt_In; eauto.
  Qed.

  Lemma Iso_src_type g g' : pwf g -> Iso g g' -> src_type g' = src_type g.
  Proof.
    intros (_ & Wi & _) (_ & _ & pn & pe & _ & _ & Hl & _ & Hi & _). unfold src_type. rewrite Hi.
    apply Iso_type_of; assumption.
  Qed.

  Lemma Iso_tgt_type g g' : pwf g -> Iso g g' -> tgt_type g' = tgt_type g.
  Proof.
    intros (_ & _ & Wo) (_ & _ & pn & pe & _ & _ & Hl & _ & _ & Ho). unfold tgt_type. rewrite Ho.
    apply Iso_type_of; assumption.
  Qed.

  Lemma Iso_ins_length g g' : Iso g g' -> length (p_ins g') = length (p_ins g).
  Proof. intros (_ & _ & pn & pe & _ & _ & _ & _ & Hi & _). rewrite Hi. apply map_length. Qed.

  Lemma Iso_outs_length g g' : Iso g g' -> length (p_outs g') = length (p_outs g).
  Proof. intros (_ & _ & pn & pe & _ & _ & _ & _ & _ & Ho). rewrite Ho. apply map_length. Qed.

  (* ---------- the substitution instance on plain data ---------- *)
  Lemma sub_D_len (W : list O) X I Ou : length (p_nodes (sub_D W X I Ou)) = length W + length (p_nodes X).
  Proof. cbn [sub_D p_nodes]. apply app_length. Qed.

  Lemma pwf_sub_D (W : list O) X I Ou : pwf X -> all_lt (length W) I -> all_lt (length W) Ou ->
    pwf (sub_D W X I Ou).
  Proof.
    intros (He & _ & _) HI HO. unfold pwf. rewrite sub_D_len. cbn [sub_D p_edges p_ins p_outs].
    split; [|split].
    - intros e Hin. apply in_map_iff in Hin. destruct Hin as (e' & <- & Hin').
      cbn [shift_edge pe_src pe_tgt]. destruct (He e' Hin') as [H1 H2].
      split; apply all_lt_shiftl; assumption.
    - eapply all_lt_mono; [|exact HI]. lia.
    - eapply all_lt_mono; [|exact HO]. lia.
  Qed.

  Lemma sub_P_lt (W : list O) X es et : pwf X -> all_lt (length W) es -> all_lt (length W) et ->
    pairs_lt (length W + length (p_nodes X)) (sub_P W X es et).
  Proof.
    intros (_ & Wi & Wo) Hs Ht. unfold sub_P. apply pairs_lt_app; apply pairs_lt_combine.
    - eapply all_lt_mono; [|exact Hs]. lia.
    - apply all_lt_shiftl. exact Wi.
    - eapply all_lt_mono; [|exact Ht]. lia.
    - apply all_lt_shiftl. exact Wo.
  Qed.

  (* an isomorphism of X extends to the presentation, fixing W *)
  Lemma sub_D_IsoVia (W : list O) X X' pn I Ou : IsoVia pn X X' ->
    all_lt (length W) I -> all_lt (length W) Ou ->
    IsoVia (qsum (length W) (length W) (fun i => i) pn) (sub_D W X I Ou) (sub_D W X' I Ou).
  Proof.
    intros (Hn & Hb & Hl & Hpe & _ & _) HI HO. set (N := length W).
    unfold IsoVia. rewrite !sub_D_len. fold N. cbn [sub_D p_nodes p_edges p_ins p_outs].
    split; [lia|]. split; [apply bij_on_qsum; [apply bij_on_id|exact Hb]|].
    split; [|split; [|split]].
    - intros i Hi. destruct (lt_dec i N) as [L|L].
      + rewrite qsum_l by exact L. rewrite !nth_error_app1 by exact L. reflexivity.
      + rewrite qsum_r by lia. rewrite !nth_error_app2 by (fold N; lia). fold N.
        replace (pn (i - N) + N - N) with (pn (i - N)) by lia. apply Hl. lia.
    - rewrite map_map.
      rewrite (map_ext _ _ (fun e => map_edge_qsum_r N N (fun i => i) pn e)), <- map_map.
      apply Permutation_map. exact Hpe.
    - rewrite map_qsum_l by exact HI. rewrite map_id. reflexivity.
    - rewrite map_qsum_l by exact HO. rewrite map_id. reflexivity.
  Qed.

  Lemma sub_P_pmap (W : list O) X X' pn es et : IsoVia pn X X' ->
    all_lt (length W) es -> all_lt (length W) et ->
    pmap (qsum (length W) (length W) (fun i => i) pn) (sub_P W X es et) = sub_P W X' es et.
  Proof.
    intros (_ & _ & _ & _ & Hi & Ho) Hs Ht. unfold sub_P. rewrite pmap_app, <- !combine_pmap.
    rewrite map_qsum_l with (l := es) by exact Hs. rewrite map_qsum_l with (l := et) by exact Ht.
    rewrite !map_id, !map_qsum_r, Hi, Ho. reflexivity.
  Qed.

  (* Lemma A: the substitution instance respects isomorphism of the batch image *)
  Theorem PSubst_transport (W : list O) X X' I Ou es et h : pwf X -> Iso X X' ->
    all_lt (length W) I -> all_lt (length W) Ou -> all_lt (length W) es -> all_lt (length W) et ->
    PSubst W X I Ou es et h -> exists h', PSubst W X' I Ou es et h' /\ Iso h h'.
  Proof.
    intros WX HI HIn HOu Hs Ht G. destruct (Iso_IsoVia HI) as (pn & V).
    pose proof (pwf_sub_D W WX HIn HOu) as WD.
    pose proof (sub_P_lt W WX Hs Ht) as HP. rewrite <- sub_D_len with (I := I) (Ou := Ou) in HP.
    destruct (Glued_transport WD HP (sub_D_IsoVia W V HIn HOu) G) as (h' & G' & I').
    exists h'. split; [|exact I']. unfold PSubst. rewrite <- (sub_P_pmap W V Hs Ht). exact G'.
  Qed.

  Corollary PSubst_iso (W : list O) X X' I Ou es et h h' : pwf X -> Iso X X' ->
    all_lt (length W) I -> all_lt (length W) Ou -> all_lt (length W) es -> all_lt (length W) et ->
    PSubst W X I Ou es et h -> PSubst W X' I Ou es et h' -> Iso h h'.
  Proof.
    intros WX HI HIn HOu Hs Ht G G'.
    destruct (PSubst_transport WX HI HIn HOu Hs Ht G) as (h'' & G'' & I'').
    apply Iso_trans with h''; [exact I''|]. apply NIso_Iso.
    exact (Glued_unique (pwf_sub_D W (Iso_pwf WX HI) HIn HOu) G'' G').
  Qed.

  (* two presentations of the same diagram *)
  Lemma PSubst_unique (W : list O) X I Ou es et h h' : pwf X ->
    all_lt (length W) I -> all_lt (length W) Ou ->
    PSubst W X I Ou es et h -> PSubst W X I Ou es et h' -> NIso h h'.
  Proof. intros WX HIn HOu G G'. exact (Glued_unique (pwf_sub_D W WX HIn HOu) G G'). Qed.

  (* ---------- n-ary batches ---------- *)
  Definition bd_nil : bdata := mkBD [] [] [] [] [] [] [].
  Definition bd_concat (ds : list bdata) : bdata := fold_right bdata_app bd_nil ds.

  Lemma bd_concat_fields (ds : list bdata) :
    bd_concat ds = mkBD (concat (map bd_fb ds)) (concat (map bd_m ds)) (concat (map bd_rb ds))
                        (concat (map bd_Fa ds)) (concat (map bd_Ra ds)) (concat (map bd_Fb ds))
                        (concat (map bd_Rb ds)).
  Proof.
    induction ds as [|d ds IH]; [reflexivity|].
    change (bd_concat (d :: ds)) with (bdata_app d (bd_concat ds)). rewrite IH. reflexivity.
  Qed.

  Lemma IsBatch_empty h : IsBatch (@pempty O A) pempty bd_nil h -> Iso h pempty.
  Proof.
    intros G.
    assert (E1 : batch_pre (@pempty O A) pempty bd_nil = pempty) by reflexivity.
    assert (E2 : batch_pairs (@pempty O A) pempty bd_nil = []) by reflexivity.
    unfold IsBatch in G. rewrite E1, E2 in G.
    apply NIso_Iso. exact (Glued_unique pwf_pempty G (Glued_id pempty)).
  Qed.

  (* items: forward image, reverse image, block data of one operation *)
  Definition it_f (x : pohg O A * pohg O A * bdata) : pohg O A := fst (fst x).
  Definition it_r (x : pohg O A * pohg O A * bdata) : pohg O A := snd (fst x).
  Definition it_d (x : pohg O A * pohg O A * bdata) : bdata := snd x.
  Definition it_ok (x : pohg O A * pohg O A * bdata) : Prop :=
    pwf (it_f x) /\ pwf (it_r x) /\ wf_bdata (it_f x) (it_r x) (it_d x).
  Definition it_img (x : pohg O A * pohg O A * bdata) : pohg O A :=
    expected_batch (it_f x) (it_r x) (it_d x).

  Lemma bdata_app_nil_r d : bdata_app d bd_nil = d.
  Proof. destruct d. unfold bdata_app, bd_nil. cbn. rewrite !app_nil_r. reflexivity. Qed.

  (* the optic image of a batch whose two component images are the tensors of the component images of
     its operations is the tensor of the optic images of its operations (given that the batch diagrams
     of the operations and of the final segments of the batch exist) *)
  Theorem IsBatch_nary (l : list (pohg O A * pohg O A * bdata)) : Forall it_ok l ->
    Forall (fun x => exists h, IsBatch (it_f x) (it_r x) (it_d x) h) l ->
    (forall j : nat, exists h, IsBatch (ptl (map it_f (skipn j l))) (ptl (map it_r (skipn j l)))
                                 (bd_concat (map it_d (skipn j l))) h) ->
    forall h, IsBatch (ptl (map it_f l)) (ptl (map it_r l)) (bd_concat (map it_d l)) h ->
    Iso h (ptl (map it_img l)).
  Proof.
    induction 1 as [|x l (Wf & Wr & Wd) Hl IH]; intros HB Hex h G.
    - cbn [map] in *. apply IsBatch_empty. exact G.
    - inversion HB as [|x0 l0 (hx & Bx) Bl]; subst. cbn [map] in *. rewrite !ptl_cons in G.
      change (bd_concat (it_d x :: map it_d l)) with (bdata_app (it_d x) (bd_concat (map it_d l))) in G.
      assert (WF : pwf (ptl (map it_f l))).
      { apply pwf_ptl. apply Forall_map. eapply Forall_impl; [|exact Hl]. intros y Hy. apply Hy. }
      assert (WR : pwf (ptl (map it_r l))).
      { apply pwf_ptl. apply Forall_map. eapply Forall_impl; [|exact Hl]. intros y Hy. apply Hy. }
      destruct (Hex 1) as (h2 & G2). cbn [skipn] in G2.
      destruct (IsBatch_expected Wf Wr Bx) as [Bx' _]. fold (it_img x) in Bx'.
      pose proof (IsBatch_monoidal Wf Wr WF WR Wd Bx' G2 G) as I1.
      rewrite ptl_cons. apply Iso_trans with (1 := I1).
      apply Iso_ptensor.
      + exact (Glued_pwf (pwf_batch_pre (it_d x) Wf Wr) Bx').
      + apply Iso_refl.
      + apply (IH Bl); [|exact G2]. intros j. exact (Hex (S j)).
  Qed.
End PlainD.

Print Assumptions PSubst_iso.
Print Assumptions IsBatch_nary.
