(* C14 (functoriality clauses): the optic construction for the polynomial theory preserves composition
   and tensor up to isomorphism and respects isomorphism — clauses 3 and 4 of [C14Thm.C14_full].

   The general theorems are in C14dFunct.v (pw_preserves_composition / _tensor, pw_respects_iso, for any
   lawful back-end and any optic meeting the point-wise contract [pw_contract] of C14dDefs.v on its
   admissible generators; C14_general_* for the unrestricted contract); C14dDyn.v shows that the strict
   optic induced by a lax optic — in particular [poly_strict_optic] — meets that contract on the
   generators with the arity of their label ([poly_pw]).  Here:
     1. a circuit of the polynomial theory is an admissible diagram: poly_circuit_adm;
        poly_circuit_iso: poly_circuit is invariant under isomorphism
     2. C14_optic_preserves_composition, C14_optic_preserves_tensor, C14_full_clause34,
        C14_optic_respects_iso
     3. examples (mul ; neg, mul (x) neg, a renumbered squaring circuit) and Print Assumptions.     *)
From Coq Require Import List Arith Lia Bool Permutation.
From OHG Require Import Spec.Plain Proofs.PrimsThm Proofs.C01Lemmas Proofs.C01Thm Proofs.QuotThm
  Proofs.C14cPlain Proofs.C14dDefs Proofs.C14dFunct.
From OHG Require Proofs.C14Thm Proofs.BackendInst Proofs.HarnessThm Proofs.C14dDyn Proofs.CheckersThm
  Run.SpecCheck.
From OHG Require Import Run.Dispatch.
Import Coq.Init.Datatypes.   (* [length] is the one of lists, not of strings *)
Import ListNotations.
Close Scope string_scope.
Open Scope nat_scope.
Open Scope list_scope.
Open Scope bool_scope.

Set Implicit Arguments.
Arguments Nat.sub : simpl never.

Notation poly_circuit := C14Thm.poly_circuit.
Notation poly_strict_optic := C14Thm.poly_strict_optic.
Notation poly_adm := C14dDyn.poly_adm.

(* ------------------------------------------------------------------------------------------ *)
(** * 1. circuits of the polynomial theory are the admissible diagrams over the object 0        *)
(* ------------------------------------------------------------------------------------------ *)

(* the two arity tables agree (C14Thm.poly_arity is partial: the labels 5..9 are no generators) *)
Lemma poly_arity_agree (a n m : nat) : C14Thm.poly_arity a = Some (n, m) -> HarnessThm.poly_arity a = (n, m).
Proof.
  do 10 (destruct a as [|a]; [cbn; intros H; try discriminate H; injection H as <- <-; reflexivity|]).
  cbn. intros H. injection H as <- <-. reflexivity.
Qed.

Lemma poly_arity_agree_inv (a : nat) : (a < 5 \/ 10 <= a) ->
  C14Thm.poly_arity a = Some (HarnessThm.poly_arity a).
Proof.
  intros H. do 10 (destruct a as [|a]; [try reflexivity; lia|]). reflexivity.
Qed.

Lemma lsel_all0 (w : list nat) (l : list nat) : Forall (fun x => x = 0) w -> all_lt (length w) l ->
  lsel w l = repeat 0 (length l).
Proof.
  intros H0 Hl. unfold lsel. induction Hl as [|i l Hi _ IH]; [reflexivity|].
  cbn [flat_map length repeat]. destruct (nth_error w i) as [x|] eqn:E.
  - rewrite Forall_forall in H0. rewrite (H0 x (nth_error_In _ _ E)). cbn [app]. f_equal. exact IH.
  - apply nth_error_None in E. lia.
Qed.

Lemma lsel_length_le {T} (w : list T) l : length (lsel w l) <= length l.
Proof.
  unfold lsel. induction l as [|i l IH]; [cbn; lia|].
  cbn [flat_map length]. rewrite app_length. destruct (nth_error w i); cbn [length]; lia.
Qed.

Theorem poly_circuit_adm (s : ohg nat nat) : poly_circuit s -> adm_diagram poly_adm s.
Proof.
  intros (Ws & H0 & Har). split; [exact Ws|].
  pose proof (wf_abs_pwf Ws) as (We & _ & _). cbn [abs p_nodes] in We.
  unfold pgens. apply Forall_map. rewrite Forall_forall in Har. apply Forall_forall. intros e Hin.
  destruct (We e Hin) as [Hs Ht]. specialize (Har e Hin). cbn beta in Har.
  apply poly_arity_agree in Har.
  unfold poly_adm, gen_of. cbn [fst snd abs p_nodes].
  unfold HarnessThm.poly_src, HarnessThm.poly_tgt. rewrite Har. cbn [fst snd].
  split; apply lsel_all0; assumption.
Qed.

(* isomorphism keeps a diagram inside the theory *)
Theorem poly_circuit_iso (s s' : ohg nat nat) : poly_circuit s -> wf_ohg s' -> Iso (abs s) (abs s') ->
  poly_circuit s'.
Proof.
  intros (Ws & H0 & Har) Ws' I. split; [exact Ws'|].
  destruct (Iso_IsoVia I) as (pn & Hn & Hb & Hl & Hpe & _ & _). cbn [abs p_nodes] in Hn, Hb, Hl.
  split.
  - apply Forall_forall. intros x Hx. destruct (In_nth_error _ _ Hx) as (j & Ej).
    assert (Hj : j < length (h_w (o_h s))) by (rewrite Hn; apply nth_error_Some; congruence).
    destruct (bij_on_surj Hb Hj) as (i & Hi & <-). rewrite (Hl i Hi) in Ej.
    rewrite Forall_forall in H0. apply H0. exact (nth_error_In _ _ Ej).
  - eapply Permutation_Forall; [exact Hpe|]. apply Forall_map.
    eapply Forall_impl; [|exact Har]. intros e He. cbn beta in *.
    unfold map_edge. cbn [pe_lbl pe_src pe_tgt]. rewrite !map_length. exact He.
Qed.

(* ------------------------------------------------------------------------------------------ *)
(** * 2. the theorems                                                                          *)
(* ------------------------------------------------------------------------------------------ *)

Theorem C14_optic_preserves_composition :
  forall f g h, poly_circuit f -> poly_circuit g -> ohg_compose VecBackend Nat.eqb f g = Ok (Some h) ->
     exists F G H FG, optic_map_arrow VecBackend Nat.eqb poly_strict_optic f = Ok F /\
       optic_map_arrow VecBackend Nat.eqb poly_strict_optic g = Ok G /\
       optic_map_arrow VecBackend Nat.eqb poly_strict_optic h = Ok H /\
       ohg_compose VecBackend Nat.eqb F G = Ok (Some FG) /\ Iso (abs H) (abs FG).
Proof.
  intros f g h Hf Hg Hc.
  exact (proj2 (pw_preserves_composition BackendInst.VecBackend_ok Nat.eqb Nat.eqb_eq Nat.eqb Nat.eqb_eq
                  C14dDyn.poly_pw (poly_circuit_adm Hf) (poly_circuit_adm Hg) Hc)).
Qed.

Theorem C14_optic_preserves_tensor :
  forall f g h, poly_circuit f -> poly_circuit g -> ohg_tensor f g = Ok h ->
     exists F G H FG, optic_map_arrow VecBackend Nat.eqb poly_strict_optic f = Ok F /\
       optic_map_arrow VecBackend Nat.eqb poly_strict_optic g = Ok G /\
       optic_map_arrow VecBackend Nat.eqb poly_strict_optic h = Ok H /\
       ohg_tensor F G = Ok FG /\ Iso (abs H) (abs FG).
Proof.
  intros f g h Hf Hg Ht.
  exact (proj2 (pw_preserves_tensor BackendInst.VecBackend_ok Nat.eqb Nat.eqb_eq
                  C14dDyn.poly_pw (poly_circuit_adm Hf) (poly_circuit_adm Hg) Ht)).
Qed.

(* clauses 3 and 4 of C14Thm.C14_full, literally *)
Theorem C14_full_clause34 :
  (forall f g h, poly_circuit f -> poly_circuit g -> ohg_compose VecBackend Nat.eqb f g = Ok (Some h) ->
     exists F G H FG, optic_map_arrow VecBackend Nat.eqb poly_strict_optic f = Ok F /\
       optic_map_arrow VecBackend Nat.eqb poly_strict_optic g = Ok G /\
       optic_map_arrow VecBackend Nat.eqb poly_strict_optic h = Ok H /\
       ohg_compose VecBackend Nat.eqb F G = Ok (Some FG) /\ Iso (abs H) (abs FG)) /\
  (forall f g h, poly_circuit f -> poly_circuit g -> ohg_tensor f g = Ok h ->
     exists F G H FG, optic_map_arrow VecBackend Nat.eqb poly_strict_optic f = Ok F /\
       optic_map_arrow VecBackend Nat.eqb poly_strict_optic g = Ok G /\
       optic_map_arrow VecBackend Nat.eqb poly_strict_optic h = Ok H /\
       ohg_tensor F G = Ok FG /\ Iso (abs H) (abs FG)).
Proof. split; [exact C14_optic_preserves_composition|exact C14_optic_preserves_tensor]. Qed.

(* the two clauses are the last two conjuncts of C14_full *)
Lemma C14_full_of_clauses12 :
  (forall s n m f J, C14Thm.denotes s n m f J -> C14Thm.derivative_statement s n m f J) ->
  (forall s, poly_circuit s -> ohg_is_monogamous s = Ok true -> ohg_is_acyclic VecBackend s = Ok true ->
     exists n m f J, C14Thm.denotes s n m f J) ->
  C14Thm.C14_full.
Proof.
  intros H1 H2. unfold C14Thm.C14_full. split; [exact H1|]. split; [exact H2|]. exact C14_full_clause34.
Qed.

(* composites and tensors of circuits are circuits of the theory again *)
Theorem poly_circuit_compose (f g h : ohg nat nat) : poly_circuit f -> poly_circuit g ->
  ohg_compose VecBackend Nat.eqb f g = Ok (Some h) -> adm_diagram poly_adm h.
Proof.
  intros Hf Hg Hc.
  exact (proj1 (pw_preserves_composition BackendInst.VecBackend_ok Nat.eqb Nat.eqb_eq Nat.eqb Nat.eqb_eq
                  C14dDyn.poly_pw (poly_circuit_adm Hf) (poly_circuit_adm Hg) Hc)).
Qed.

(* the optic image respects isomorphism; [poly_circuit s'] is not needed as a hypothesis (it follows:
   poly_circuit_iso) *)
Theorem C14_optic_respects_iso :
  forall s s', poly_circuit s -> wf_ohg s' -> Iso (abs s) (abs s') ->
    exists F F', optic_map_arrow VecBackend Nat.eqb poly_strict_optic s = Ok F /\
                 optic_map_arrow VecBackend Nat.eqb poly_strict_optic s' = Ok F' /\ Iso (abs F) (abs F').
Proof.
  intros s s' Hs Ws' I.
  exact (proj2 (pw_respects_iso BackendInst.VecBackend_ok Nat.eqb Nat.eqb_eq
                  C14dDyn.poly_pw (poly_circuit_adm Hs) Ws' I)).
Qed.

(* ------------------------------------------------------------------------------------------ *)
(** * 3. examples                                                                              *)
(* ------------------------------------------------------------------------------------------ *)

Ltac poly_circuit_tac :=
  split; [repeat split; try reflexivity; repeat constructor|split; repeat constructor].

(* the generators mul : 2 -> 1 and neg : 1 -> 1 as one-operation diagrams *)
Definition ex_mul : ohg nat nat :=
  mkOHG (mkFF [0; 1] 3) (mkFF [2] 3)
        (mkHG (mkIC (mkFF [2] 3) (mkFF [0; 1] 3)) (mkIC (mkFF [1] 2) (mkFF [2] 3)) [0; 0; 0] [1]).
Definition ex_neg : ohg nat nat :=
  mkOHG (mkFF [0] 2) (mkFF [1] 2)
        (mkHG (mkIC (mkFF [1] 2) (mkFF [0] 2)) (mkIC (mkFF [1] 2) (mkFF [1] 2)) [0; 0] [2]).

Example ex_mul_singleton : ohg_singleton 1 [0; 0] [0] = Ok ex_mul.
Proof. vm_compute. reflexivity. Qed.
Example ex_neg_singleton : ohg_singleton 2 [0] [0] = Ok ex_neg.
Proof. vm_compute. reflexivity. Qed.

Example ex_mul_circuit : poly_circuit ex_mul.
Proof. poly_circuit_tac. Qed.
Example ex_neg_circuit : poly_circuit ex_neg.
Proof. poly_circuit_tac. Qed.

(* mul ; neg : (x, y) |-> -(x * y) *)
Definition ex_mul_neg : ohg nat nat :=
  match ohg_compose VecBackend Nat.eqb ex_mul ex_neg with Ok (Some h) => h | _ => ex_mul end.

Example ex_mul_neg_value :
  ohg_compose VecBackend Nat.eqb ex_mul ex_neg = Ok (Some ex_mul_neg) /\
  h_x (o_h ex_mul_neg) = [1; 2] /\ length (h_w (o_h ex_mul_neg)) = 4.
Proof. vm_compute. repeat split. Qed.

(* the hypotheses of the composition theorem hold of (mul, neg, mul ; neg); its conclusion *)
Example C14_optic_preserves_composition_ex :
  poly_circuit ex_mul /\ poly_circuit ex_neg /\
  ohg_compose VecBackend Nat.eqb ex_mul ex_neg = Ok (Some ex_mul_neg) /\
  exists F G H FG, optic_map_arrow VecBackend Nat.eqb poly_strict_optic ex_mul = Ok F /\
    optic_map_arrow VecBackend Nat.eqb poly_strict_optic ex_neg = Ok G /\
    optic_map_arrow VecBackend Nat.eqb poly_strict_optic ex_mul_neg = Ok H /\
    ohg_compose VecBackend Nat.eqb F G = Ok (Some FG) /\ Iso (abs H) (abs FG).
Proof.
  split; [exact ex_mul_circuit|]. split; [exact ex_neg_circuit|].
  assert (Hc : ohg_compose VecBackend Nat.eqb ex_mul ex_neg = Ok (Some ex_mul_neg)) by apply ex_mul_neg_value.
  split; [exact Hc|].
  exact (C14_optic_preserves_composition ex_mul_circuit ex_neg_circuit Hc).
Qed.

(* the same instance by computation: the executable isomorphism checker accepts the pair; the images have
   5 + 4 + 1 hyperedges (mul: copy, copy, mul | copy, mul, mul; neg: neg | neg) *)
Example C14_optic_preserves_composition_check :
  match optic_map_arrow VecBackend Nat.eqb poly_strict_optic ex_mul,
        optic_map_arrow VecBackend Nat.eqb poly_strict_optic ex_neg,
        optic_map_arrow VecBackend Nat.eqb poly_strict_optic ex_mul_neg with
  | Ok F, Ok G, Ok H =>
      match ohg_compose VecBackend Nat.eqb F G with
      | Ok (Some FG) => SpecCheck.iso_nat (abs H) (abs FG) && (length (h_x (o_h H)) =? 8)
      | _ => false
      end
  | _, _, _ => false
  end = true.
Proof. vm_compute. reflexivity. Qed.

(* mul (x) neg *)
Definition ex_mul_x_neg : ohg nat nat :=
  match ohg_tensor ex_mul ex_neg with Ok h => h | _ => ex_mul end.

Example ex_mul_x_neg_value :
  ohg_tensor ex_mul ex_neg = Ok ex_mul_x_neg /\ h_x (o_h ex_mul_x_neg) = [1; 2] /\
  length (h_w (o_h ex_mul_x_neg)) = 5.
Proof. vm_compute. repeat split. Qed.

Example C14_optic_preserves_tensor_ex :
  poly_circuit ex_mul /\ poly_circuit ex_neg /\ ohg_tensor ex_mul ex_neg = Ok ex_mul_x_neg /\
  exists F G H FG, optic_map_arrow VecBackend Nat.eqb poly_strict_optic ex_mul = Ok F /\
    optic_map_arrow VecBackend Nat.eqb poly_strict_optic ex_neg = Ok G /\
    optic_map_arrow VecBackend Nat.eqb poly_strict_optic ex_mul_x_neg = Ok H /\
    ohg_tensor F G = Ok FG /\ Iso (abs H) (abs FG).
Proof.
  split; [exact ex_mul_circuit|]. split; [exact ex_neg_circuit|].
  assert (Ht : ohg_tensor ex_mul ex_neg = Ok ex_mul_x_neg) by apply ex_mul_x_neg_value.
  split; [exact Ht|].
  exact (C14_optic_preserves_tensor ex_mul_circuit ex_neg_circuit Ht).
Qed.

Example C14_optic_preserves_tensor_check :
  match optic_map_arrow VecBackend Nat.eqb poly_strict_optic ex_mul,
        optic_map_arrow VecBackend Nat.eqb poly_strict_optic ex_neg,
        optic_map_arrow VecBackend Nat.eqb poly_strict_optic ex_mul_x_neg with
  | Ok F, Ok G, Ok H =>
      match ohg_tensor F G with
      | Ok FG => SpecCheck.iso_nat (abs H) (abs FG)
      | _ => false
      end
  | _, _, _ => false
  end = true.
Proof. vm_compute. reflexivity. Qed.

(* isomorphism: the squaring circuit copy ; mul of C14Thm.v (nodes 0 x, 1 2 the copies, 3 x*x; hyperedges
   copy, mul) and a copy with the nodes renumbered (x = 3, copies 0 2, result 1) and the hyperedges in the
   other order *)
Definition ex_square' : ohg nat nat :=
  mkOHG (mkFF [3] 4) (mkFF [1] 4)
    (mkHG (mkIC (mkFF [2; 1] 4) (mkFF [0; 2; 3] 4)) (mkIC (mkFF [1; 2] 4) (mkFF [1; 0; 2] 4))
          [0; 0; 0; 0] [1; 3]).

Example ex_square'_wf : wf_ohg ex_square'.
Proof. repeat split; try reflexivity; repeat constructor. Qed.

Example ex_square_iso : Iso (abs C14Thm.s_square) (abs ex_square').
Proof. apply CheckersThm.iso_nat_sound. vm_compute. reflexivity. Qed.

Example ex_square_circuit : poly_circuit C14Thm.s_square.
Proof. poly_circuit_tac. Qed.

Example C14_optic_respects_iso_ex :
  poly_circuit C14Thm.s_square /\ wf_ohg ex_square' /\ Iso (abs C14Thm.s_square) (abs ex_square') /\
  poly_circuit ex_square' /\
  exists F F', optic_map_arrow VecBackend Nat.eqb poly_strict_optic C14Thm.s_square = Ok F /\
    optic_map_arrow VecBackend Nat.eqb poly_strict_optic ex_square' = Ok F' /\ Iso (abs F) (abs F').
Proof.
  split; [exact ex_square_circuit|]. split; [exact ex_square'_wf|]. split; [exact ex_square_iso|].
  split; [exact (poly_circuit_iso ex_square_circuit ex_square'_wf ex_square_iso)|].
  exact (C14_optic_respects_iso ex_square_circuit ex_square'_wf ex_square_iso).
Qed.

Example C14_optic_respects_iso_check :
  match optic_map_arrow VecBackend Nat.eqb poly_strict_optic C14Thm.s_square,
        optic_map_arrow VecBackend Nat.eqb poly_strict_optic ex_square' with
  | Ok F, Ok F' => SpecCheck.iso_nat (abs F) (abs F') && negb (SpecCheck.iso_nat (abs F) (abs C14Thm.s_square))
  | _, _ => false
  end = true.
Proof. vm_compute. reflexivity. Qed.

(* outside the theory the optic need not be defined: mul with one input (label 1 : 1 -> 1) *)
Definition ex_bad_mul : ohg nat nat :=
  mkOHG (mkFF [0] 2) (mkFF [1] 2)
        (mkHG (mkIC (mkFF [1] 2) (mkFF [0] 2)) (mkIC (mkFF [1] 2) (mkFF [1] 2)) [0; 0] [1]).
Example ex_bad_mul_not_circuit :
  wf_ohg ex_bad_mul /\ ~ poly_circuit ex_bad_mul /\
  optic_map_arrow VecBackend Nat.eqb poly_strict_optic ex_bad_mul = Panic.
Proof.
  split; [repeat split; try reflexivity; repeat constructor|]. split.
  - intros (_ & _ & H). inversion H as [|e l He _]; subst. vm_compute in He. discriminate He.
  - vm_compute. reflexivity.
Qed.

(* the batch theorems of C14dGen.v on the batch (mul, neg): its optic image is the tensor of the optic
   images of mul and of neg; the canonical presentation of the image of mul ; neg *)
Example batch_decomposition_ex :
  C14bThm.wf_ops C14dDyn.ex_dyn_ops /\ Forall poly_adm (gens C14dDyn.ex_dyn_ops) /\
  exists c, optic_map_operations VecBackend Nat.eqb poly_strict_optic C14dDyn.ex_dyn_ops = Ok c /\
    C14bThm.typed c [0; 0; 0; 0; 0; 0] [0; 0; 0; 0] /\
    Iso (abs c) (ptl (map (cimg (fun _ => [0]) (fun _ => [0]) (C14dDyn.dyn_fimg poly_optic)
                                (C14dDyn.dyn_rimg poly_optic) (C14dDyn.dyn_Mres poly_optic))
                          (gens C14dDyn.ex_dyn_ops))).
Proof.
  split; [exact C14dDyn.ex_dyn_wf|]. split; [exact C14dDyn.ex_dyn_adm|].
  exact (C14dGen.batch_decomposition BackendInst.VecBackend_ok Nat.eqb Nat.eqb_eq C14dDyn.poly_pw
           C14dDyn.ex_dyn_wf C14dDyn.ex_dyn_adm).
Qed.

Example pw_map_arrow_canonical_ex :
  adm_diagram poly_adm ex_mul_neg /\
  exists H hK, optic_map_arrow VecBackend Nat.eqb poly_strict_optic ex_mul_neg = Ok H /\ wf_ohg H /\
    Glued (KD (Oobj (fun _ : nat => [0]) (fun _ => [0]))
              (cimg (fun _ => [0]) (fun _ => [0]) (C14dDyn.dyn_fimg poly_optic)
                    (C14dDyn.dyn_rimg poly_optic) (C14dDyn.dyn_Mres poly_optic)) (abs ex_mul_neg))
          (KP (Oobj (fun _ : nat => [0]) (fun _ => [0]))
              (cimg (fun _ => [0]) (fun _ => [0]) (C14dDyn.dyn_fimg poly_optic)
                    (C14dDyn.dyn_rimg poly_optic) (C14dDyn.dyn_Mres poly_optic)) (abs ex_mul_neg)) hK /\
    Iso (abs H) hK.
Proof.
  pose proof (poly_circuit_compose ex_mul_circuit ex_neg_circuit (proj1 ex_mul_neg_value)) as HA.
  split; [exact HA|].
  exact (pw_map_arrow_canonical BackendInst.VecBackend_ok Nat.eqb Nat.eqb_eq C14dDyn.poly_pw HA).
Qed.

Print Assumptions poly_circuit_adm.
Print Assumptions poly_circuit_iso.
Print Assumptions C14_optic_preserves_composition.
Print Assumptions C14_optic_preserves_tensor.
Print Assumptions C14_full_clause34.
Print Assumptions C14_optic_respects_iso.
Print Assumptions C14_optic_preserves_composition_ex.
Print Assumptions C14_optic_preserves_tensor_ex.
Print Assumptions C14_optic_respects_iso_ex.
