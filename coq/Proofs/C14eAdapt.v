(* C14e, part 3: from the invariant [OSem] of the optic image c to the value of [eval] on the adapted
   diagram.  [optic_adapt] composes c with the two interleaving wirings and re-cuts the interfaces
   ([partial_dagger]); up to a renumbering of the nodes the result is c with the interfaces
   F A ● R B -> F B ● R A ([adapt_iso]).  A consistent labelling of c with the right boundary values is a
   valuation of that diagram, the rank function makes it evaluable, and C16 (through [sem_intro], [E4_iso])
   gives the value of [eval]. *)
From OHG Require Import Spec.Plain Proofs.PrimsThm Proofs.SegThm Proofs.C01Lemmas Proofs.C01Thm Proofs.QuotThm
  Proofs.C16Lemmas Proofs.BackendInst Proofs.EvalPlain Proofs.EvalFunctor Proofs.C03Plain Proofs.C12Lemmas
  Proofs.C14Thm Proofs.C14bThm Proofs.C14cPlain Proofs.C14cBatch Proofs.C14cThm Proofs.C19bLemmas
  Proofs.HarnessThm Proofs.C14eSem Run.Dispatch.
From Coq Require Import List Arith Lia Bool Permutation ZArith.
Import ListNotations.
Open Scope list_scope. Open Scope nat_scope.

Set Implicit Arguments.
Arguments Nat.sub : simpl never.

(* HarnessThm has its own (lax) [typed] *)
Local Notation typed := (@C14bThm.typed nat nat).

(* ================================================================== *)
(** * 1. the object maps of the polynomial optic: one block [0] per wire *)
(* ================================================================== *)

Definition blk (n : nat) : ic (list nat) := mkIC (mkFF (repeat 1 n) (n + 1)) (repeat 0 n).

Lemma map_repeat_gen {X Y} (g : X -> Y) (x : X) n : map g (repeat x n) = repeat (g x) n.
Proof. induction n as [|n IH]; [reflexivity|]. cbn. rewrite IH. reflexivity. Qed.

Lemma concat_repeat_sing {X} (x : X) n : concat (repeat [x] n) = repeat x n.
Proof. induction n as [|n IH]; [reflexivity|]. cbn. rewrite IH. reflexivity. Qed.

Lemma blk_value n :
  mkIC (mkFF (map (@length nat) (map (fun _ : nat => [0]) (repeat 0 n)))
             (length (concat (map (fun _ : nat => [0]) (repeat 0 n))) + 1))
       (concat (map (fun _ : nat => [0]) (repeat 0 n))) = blk n.
Proof.
  rewrite !map_repeat_gen, concat_repeat_sing, repeat_length. reflexivity.
Qed.

Lemma poly_fwd_object n : sf_map_object (op_fwd poly_strict_optic) (repeat 0 n) = Ok (blk n).
Proof.
  unfold poly_strict_optic, to_strict_optic. cbn [op_fwd dyn_functor sf_map_object].
  rewrite dyn_map_object_val. unfold dyn_fw. cbn [lf_map_object poly_optic lop_fwd_object].
  rewrite blk_value. reflexivity.
Qed.

Lemma poly_rev_object n : sf_map_object (op_rev poly_strict_optic) (repeat 0 n) = Ok (blk n).
Proof.
  unfold poly_strict_optic, to_strict_optic. cbn [op_rev dyn_functor sf_map_object].
  rewrite dyn_map_object_val. unfold dyn_fw. cbn [lf_map_object poly_optic lop_rev_object].
  rewrite blk_value. reflexivity.
Qed.

Lemma wf_blk n : wf_ics (blk n).
Proof.
  split; cbn [blk ic_sources ic_values table target].
  - rewrite list_sum_repeat. lia.
  - rewrite list_sum_repeat, repeat_length. lia.
Qed.

Lemma blk_len n : ic_len (blk n) = n.
Proof. unfold ic_len, ff_source. cbn. apply repeat_length. Qed.

Lemma segs_ones {X} (l : list X) : segs (repeat 1 (length l)) l = map (fun x => [x]) l.
Proof. induction l as [|x l IH]; [reflexivity|]. cbn [length repeat segs firstn skipn map]. rewrite IH. reflexivity. Qed.

Lemma concat_zip_sing {X} (a : list X) : forall b,
  concat (zip_app (map (fun x => [x]) a) (map (fun x => [x]) b)) = interleave2 a b.
Proof.
  unfold zip_app, interleave2. induction a as [|x a IH]; intros [|y b]; try reflexivity.
  cbn [map combine concat flat_map fst snd List.app]. rewrite IH. reflexivity.
Qed.

Lemma interleave2_repeat {X} (x : X) n : interleave2 (repeat x n) (repeat x n) = repeat x (2 * n).
Proof.
  induction n as [|n IH]; [reflexivity|]. replace (2 * S n) with (S (S (2 * n))) by lia.
  unfold interleave2 in *. cbn [repeat combine flat_map fst snd List.app]. rewrite IH. reflexivity.
Qed.

Lemma blk_decode n : decode_s (blk n) = map (fun x => [x]) (repeat 0 n).
Proof.
  unfold decode_s. cbn [blk ic_sources ic_values table].
  rewrite <- (repeat_length 0 n) at 1. apply segs_ones.
Qed.

(* the interleaving permutation of n forward and n reverse wires *)
Definition itab (n : nat) : list nat := interleave2 (seq 0 n) (seq n n).

Lemma itable_ones n : itable (repeat 1 n) (repeat 1 n) n n = itab n.
Proof.
  unfold itable, itab. rewrite <- concat_zip_sing, <- !segs_ones, !seq_length. reflexivity.
Qed.

(* ================================================================== *)
(** * 2. list facts *)
(* ================================================================== *)

Lemma map_interleave2 {X Y} (g : X -> Y) (a : list X) : forall b,
  map g (interleave2 a b) = interleave2 (map g a) (map g b).
Proof.
  unfold interleave2. induction a as [|x a IH]; intros [|y b]; try reflexivity.
  cbn [map combine flat_map fst snd List.app]. rewrite IH. reflexivity.
Qed.

Lemma map_nth_app_l (a b : list nat) : map (fun v => nth v (a ++ b) 0) (seq 0 (length a)) = a.
Proof.
  apply nth_ext with 0 0; [rewrite map_length, seq_length; reflexivity|].
  intros i Hi. rewrite map_length, seq_length in Hi. rewrite nth_map_seq by exact Hi. cbn [Nat.add].
  apply app_nth1. exact Hi.
Qed.

Lemma map_nth_app_r (a b : list nat) : map (fun v => nth v (a ++ b) 0) (seq (length a) (length b)) = b.
Proof.
  apply nth_ext with 0 0; [rewrite map_length, seq_length; reflexivity|].
  intros i Hi. rewrite map_length, seq_length in Hi. rewrite nth_map_seq by exact Hi.
  rewrite app_nth2 by lia. f_equal. lia.
Qed.

Lemma map_nth_all (l : list nat) : map (fun v => nth v l 0) (seq 0 (length l)) = l.
Proof. apply map_seq_nth. Qed.

(* reading evens ++ odds along the interleaving table gives the list back *)
Lemma map_nth_itab (l : list nat) k : length l = 2 * k ->
  map (fun v => nth v (evens l ++ odds l) 0) (itab k) = l.
Proof.
  intros Hl. destruct (evens_odds_length l k Hl) as [Le Lo].
  unfold itab. rewrite map_interleave2.
  replace (seq 0 k) with (seq 0 (length (evens l))) by (rewrite Le; reflexivity).
  replace (seq k k) with (seq (length (evens l)) (length (odds l))) by (rewrite Le, Lo; reflexivity).
  rewrite map_nth_app_l, map_nth_app_r.
  apply (interleave2_evens_odds l k Hl).
Qed.

Lemma type_all0 (w : list nat) (l : list nat) : (forall i x, nth_error w i = Some x -> x = 0) ->
  all_lt (length w) l -> map (nth_error w) l = map Some (repeat 0 (length l)).
Proof.
  intros H0 Hl. induction l as [|a l IH]; [reflexivity|].
  inversion Hl as [|a' l' Ha Hl']; subst. cbn [map length repeat]. rewrite IH by exact Hl'. f_equal.
  destruct (nth_error w a) as [x|] eqn:E.
  - rewrite (H0 _ _ E). reflexivity.
  - apply nth_error_None in E. lia.
Qed.

(* ================================================================== *)
(** * 3. node renumberings commute with re-cutting the interfaces *)
(* ================================================================== *)

Lemma NIso_reio (g g' : pohg nat nat) (FI FO : list nat -> list nat -> list nat) :
  (forall (pn : nat -> nat) a b, FI (map pn a) (map pn b) = map pn (FI a b)) ->
  (forall (pn : nat -> nat) a b, FO (map pn a) (map pn b) = map pn (FO a b)) ->
  NIso g g' ->
  NIso (with_io g (FI (p_ins g) (p_outs g)) (FO (p_ins g) (p_outs g)))
       (with_io g' (FI (p_ins g') (p_outs g')) (FO (p_ins g') (p_outs g'))).
Proof.
  intros HFI HFO (Hn & pn & Hb & Hl & He & Hi & Ho). split; [exact Hn|]. exists pn.
  cbn [with_io p_nodes p_edges p_ins p_outs]. split; [exact Hb|]. split; [exact Hl|]. split; [exact He|].
  rewrite Hi, Ho, HFI, HFO. split; reflexivity.
Qed.

Lemma firstn_app_exact {X} (a b : list X) : firstn (length a) (a ++ b) = a.
Proof. rewrite firstn_app, Nat.sub_diag, firstn_all. cbn. apply app_nil_r. Qed.

Lemma skipn_app_exact {X} (a b : list X) : skipn (length a) (a ++ b) = b.
Proof. rewrite skipn_app, Nat.sub_diag, skipn_all. reflexivity. Qed.

(* ================================================================== *)
(** * 4. the adapted diagram *)
(* ================================================================== *)

Notation optic_adapt_poly c n m :=
  (optic_adapt VecBackend Nat.eqb poly_strict_optic c (repeat 0 n) (repeat 0 m)).

Section Adapt.
  Variables (c : ohg nat nat) (n m : nat) (f : list Z -> list Z) (J : list Z -> list (list Z)).
  Hypothesis Wc : wf_ohg c.
  Hypothesis S : OSem (abs c) n m f J.

  Local Notation C := (abs c).

  Lemma c_typed : typed c (repeat 0 (2 * n)) (repeat 0 (2 * m)).
  Proof.
    split; [exact Wc|]. unfold src_type, tgt_type, type_of. split.
    - rewrite (@type_all0 _ _ (os_lbl S) (pwf_ins (os_wf S))), (os_li S). reflexivity.
    - rewrite (@type_all0 _ _ (os_lbl S) (pwf_outs (os_wf S))), (os_lo S). reflexivity.
  Qed.

  (* the interleaving wiring of k wires *)
  Lemma interleave_k k : exists h, interleave_blocks nat (blk k) (blk k) = Ok h /\
    typed h (repeat 0 k ++ repeat 0 k) (repeat 0 (2 * k)) /\
    abs h = pwire nat (repeat 0 k ++ repeat 0 k) (seq 0 (2 * k)) (itab k) /\
    Permutation (itab k) (seq 0 (2 * k)).
  Proof.
    destruct (@interleave_glue nat nat (blk k) (blk k) (wf_blk k) (wf_blk k) eq_refl) as (h & Hh & Th & Ah & Ph).
    cbn [blk ic_values ic_sources table] in Th, Ah, Ph.
    rewrite app_length, repeat_length in Ah, Ph. rewrite itable_ones in Ah, Ph.
    replace (k + k) with (2 * k) in Ah, Ph by lia.
    fold (blk k) in Th. rewrite blk_decode, concat_zip_sing, interleave2_repeat in Th.
    exists h. repeat (split; [assumption|]). exact Ph.
  Qed.

  (* the adapted diagram: defined, well-formed, and c with re-cut interfaces up to node renumbering *)
  Theorem adapt_iso : exists d, optic_adapt_poly c n m = Ok d /\ wf_ohg d /\ NIso (adaptP C) (abs d).
  Proof.
    pose proof (os_wf S) as WC.
    destruct (interleave_k n) as (la & Hla & Tla & Ala & Pla).
    destruct (interleave_k m) as (lb & Hlb & Tlb & Alb & Plb).
    destruct (compose_unwrap_glue VecBackend_ok Nat.eqb Nat.eqb_eq Tla c_typed) as (d0 & Hd0 & Td0 & C0).
    destruct (compose_unwrap_glue VecBackend_ok Nat.eqb Nat.eqb_eq Td0 (dagger_typed Tlb)) as (d1 & Hd1 & Td1 & C1).
    assert (Td1' : typed d1 (ic_values (blk n) ++ ic_values (blk n)) (ic_values (blk m) ++ ic_values (blk m)))
      by exact Td1.
    destruct (@partial_dagger_glue nat nat d1 (blk n) (blk m) (blk m) (blk n) Td1') as (d & Hd & Td & Ad).
    exists d. split; [|split; [exact (proj1 Td)|]].
    - unfold optic_adapt. rewrite !poly_fwd_object, !poly_rev_object. cbn [bind].
      rewrite Hla. cbn [bind]. rewrite Hlb. cbn [bind]. rewrite Hd0. cbn [bind]. rewrite Hd1. cbn [bind].
      rewrite (typed_source Td1). cbn [bind].
      rewrite (coproduct_s_ok (wf_blk n) (wf_blk n)). cbn [bind unwrap cop_s ic_values blk].
      rewrite (list_eqb_refl Nat.eqb Nat.eqb_eq). cbn [assert bind].
      rewrite (typed_target Td1). cbn [bind].
      rewrite (coproduct_s_ok (wf_blk m) (wf_blk m)). cbn [bind unwrap cop_s ic_values blk].
      rewrite (list_eqb_refl Nat.eqb Nat.eqb_eq). cbn [assert bind].
      exact Hd.
    - (* left wiring *)
      destruct (@perm_seq_facts _ _ Pla) as (_ & Lla & Cla & _).
      destruct (@perm_seq_facts _ _ Plb) as (_ & Llb & Clb & _).
      assert (Lw : forall k, length (repeat 0 k ++ repeat 0 k) = 2 * k)
        by (intros k; rewrite app_length, repeat_length; lia).
      set (L0 := fi C ++ ri C).
      assert (C0' : IsCompose (abs la) C (with_io C (map (fun v => nth v L0 0) (seq 0 (2 * n))) (p_outs C))).
      { rewrite Ala. apply wire_left_gen.
        - exact WC.
        - rewrite Lw. exact Cla.
        - rewrite Lw. apply all_lt_seq0.
        - rewrite Lw. exact Lla.
        - unfold L0, fi, ri. apply map_nth_itab. exact (os_li S).
        - destruct c_typed as (_ & HS & _). destruct Tla as (_ & _ & HT).
          rewrite HS, <- HT, Ala. reflexivity. }
      assert (EL0 : map (fun v => nth v L0 0) (seq 0 (2 * n)) = L0).
      { transitivity (map (fun v => nth v L0 0) (seq 0 (length L0))); [|apply map_nth_all].
        f_equal. f_equal. unfold L0. rewrite app_length, (os_len_fi S), (os_len_ri S). lia. }
      rewrite EL0 in C0'.
      assert (N0 : NIso (abs d0) (with_io C L0 (p_outs C))).
      { apply (compose_unique_pwf (wf_abs_pwf (proj1 Tla)) WC C0 C0'). }
      (* right wiring *)
      set (D0 := abs d0) in *.
      assert (WD0 : pwf D0) by (apply wf_abs_pwf; exact (proj1 Td0)).
      assert (Lo0 : length (p_outs D0) = 2 * m).
      { pose proof N0 as (_ & pn & _ & _ & _ & _ & Ho). cbn [with_io p_outs] in Ho.
        apply (f_equal (@length _)) in Ho. rewrite map_length in Ho. rewrite <- Ho. exact (os_lo S). }
      set (L1 := evens (p_outs D0) ++ odds (p_outs D0)).
      assert (Adl : abs (ohg_dagger lb) = pwire nat (repeat 0 m ++ repeat 0 m) (itab m) (seq 0 (2 * m))).
      { change (abs (ohg_dagger lb)) with (swap_io (abs lb)). rewrite Alb. reflexivity. }
      assert (C1' : IsCompose D0 (abs (ohg_dagger lb))
                      (with_io D0 (p_ins D0) (map (fun v => nth v L1 0) (seq 0 (2 * m))))).
      { rewrite Adl. apply wire_right_gen.
        - exact WD0.
        - rewrite Lw. exact Clb.
        - unfold L1. apply map_nth_itab. exact Lo0.
        - destruct Td0 as (_ & _ & HT). destruct Tlb as (_ & _ & HT').
          fold D0 in HT. rewrite HT, <- HT', Alb. reflexivity. }
      assert (EL1 : map (fun v => nth v L1 0) (seq 0 (2 * m)) = L1).
      { transitivity (map (fun v => nth v L1 0) (seq 0 (length L1))); [|apply map_nth_all].
        f_equal. f_equal. unfold L1.
        destruct (evens_odds_length (p_outs D0) m Lo0) as [E1 E2]. rewrite app_length, E1, E2. lia. }
      rewrite EL1 in C1'.
      assert (N1 : NIso (abs d1) (with_io D0 (p_ins D0) L1)).
      { apply (compose_unique_pwf WD0 (wf_abs_pwf (proj1 (dagger_typed Tlb))) C1 C1'). }
      (* chaining *)
      pose proof (@NIso_reio D0 (with_io C L0 (p_outs C)) (fun a _ => a) (fun _ b => evens b ++ odds b)
                    (fun _ _ _ => eq_refl)
                    (fun pn _ b => eq_trans (f_equal2 (@List.app nat) (evens_map pn b) (odds_map pn b))
                                            (eq_sym (map_app pn (evens b) (odds b)))) N0) as N0'.
      cbn [with_io p_ins p_outs] in N0'. fold L1 in N0'.
      pose proof (NIso_trans N1 N0') as N2.
      pose proof (@NIso_reio (abs d1) _ (fun a b => firstn n a ++ skipn m b) (fun a b => firstn m b ++ skipn n a)
                    (fun pn a b => eq_trans (f_equal2 (@List.app nat) (firstn_map pn n a) (skipn_map pn m b))
                                            (eq_sym (map_app pn _ _)))
                    (fun pn a b => eq_trans (f_equal2 (@List.app nat) (firstn_map pn m b) (skipn_map pn n a))
                                            (eq_sym (map_app pn _ _))) N2) as N3.
      cbn [with_io p_ins p_outs p_nodes p_edges] in N3.
      cbn [blk ic_values] in Ad. rewrite !repeat_length in Ad. unfold ppd in Ad. rewrite <- Ad in N3.
      unfold L0 in N3. fold (fo C) (ro C) in N3.
      rewrite <- (os_len_fi S) in N3 at 1 2. rewrite <- (os_len_fo S) in N3 at 1 2.
      rewrite !firstn_app_exact, !skipn_app_exact in N3.
      apply NIso_sym; [apply wf_abs_pwf; exact (proj1 Td)|]. exact N3.
  Qed.

  (* ---------- the array-encoded diagram with the interfaces of adaptP ---------- *)
  Definition dA : ohg nat nat :=
    mkOHG (mkFF (fi C ++ ro C) (target (o_s c))) (mkFF (fo C ++ ri C) (target (o_t c))) (o_h c).

  Lemma abs_dA : abs dA = adaptP C.
  Proof. reflexivity. Qed.

  Lemma wf_dA : wf_ohg dA.
  Proof.
    pose proof (os_wf S) as WC. destruct Wc as (Wh & Ws & Wt & Es & Et).
    split; [exact Wh|]. cbn [dA o_s o_t o_h target]. unfold wf_ff. cbn [table target].
    assert (Hn : length (p_nodes C) = length (h_w (o_h c))) by reflexivity.
    split; [|split; [|split; assumption]].
    - rewrite Es, <- Hn. apply C01Lemmas.all_lt_app.
      apply all_lt_evens. exact (pwf_ins WC). apply all_lt_odds. exact (pwf_outs WC).
    - rewrite Et, <- Hn. apply C01Lemmas.all_lt_app.
      apply all_lt_evens. exact (pwf_outs WC). apply all_lt_odds. exact (pwf_ins WC).
  Qed.

  Lemma evaluable_dA : evaluable interp dA.
  Proof.
    apply (evaluable_bridge interp wf_dA). rewrite abs_dA. split; [|split].
    - destruct (os_rk S) as (lev & K & L & _ & _ & R1 & _). exists lev. exact R1.
    - unfold p_sw. cbn [adaptP p_ins]. change (p_tgts (adaptP C)) with (p_tgts C).
      rewrite <- app_assoc. exact (proj1 (os_cover S)).
    - exact (os_ar S).
  Qed.

  Theorem OSem_adapt : exists d, optic_adapt_poly c n m = Ok d /\ wf_ohg d /\
    forall x dy, length x = n -> length dy = m ->
      eval VecBackend 0%Z apply_sig d (map wrap x ++ map wrap dy)
      = Ok (Some (map wrap (f x ++ tmulv n (J x) dy))).
  Proof.
    destruct adapt_iso as (d & Hd & Wd & HN). exists d. split; [exact Hd|]. split; [exact Wd|].
    intros x dy Hx Hdy.
    destruct (os_sem S x dy Hx Hdy) as (mem & Vc & V1 & V2 & V3 & V4).
    assert (HI : Iso (abs dA) (abs d)) by (rewrite abs_dA; apply NIso_Iso; exact HN).
    destruct (E4_iso VecBackend_ok 0%Z apply_sig_spec evaluable_dA Wd HI) as (_ & Eq & _).
    rewrite <- Eq.
    assert (V : pval 0%Z interp (abs dA) (map wrap x ++ map wrap dy) mem).
    { rewrite abs_dA. split; [|split].
      - cbn [adaptP p_ins]. intros i Hi. rewrite <- V1, <- V2, <- map_app.
        rewrite (nth_indep _ 0%Z (mem 0)) by (rewrite map_length; exact Hi). symmetry. apply map_nth.
      - exact Vc.
      - cbn [adaptP p_nodes p_ins p_edges]. intros v Hv Hni Hnt. exfalso.
        destruct (os_wr_cases S Hv) as [Hin|[Hin|Hin]].
        + apply Hni. apply in_or_app. auto.
        + apply Hni. apply in_or_app. auto.
        + apply In_p_tgts in Hin. destruct Hin as (e & He & Hve). exact (Hnt e He Hve). }
    pose proof (sem_intro VecBackend_ok apply_sig_spec evaluable_dA V) as Sm.
    unfold sem in Sm. rewrite Sm. cbn [dA o_t table]. rewrite !map_app, V3, V4. reflexivity.
  Qed.
End Adapt.

Print Assumptions OSem_adapt.
