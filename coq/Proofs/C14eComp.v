(* C14e, part 2: the invariant [OSem] of an optic image is closed under sequential composition
   (gluing along [IsCompose]); semantically this is the chain rule.

   The labelling of the composite H of F : n -> m and G : m -> p at (x, dz) is glued from the labelling
   of G at (f x, dz) and the labelling of F at (x, J_g(f x)^T dz): they agree on the shared boundary
   (forward wires carry wrap (f x), reverse wires wrap (J_g(f x)^T dz)).  Ranks: the forward operations
   of F, then all operations of G, then the reverse operations of F. *)
From OHG Require Import Spec.Plain Proofs.PrimsThm Proofs.C01Lemmas Proofs.QuotThm Proofs.C16Lemmas
  Proofs.EvalPlain Proofs.EvalFunctor Proofs.C14cPlain Proofs.C14Thm Proofs.C14eSem Run.Dispatch.
From Coq Require Import List Arith Lia Bool Permutation ZArith.
Import ListNotations.
Open Scope list_scope. Open Scope nat_scope.

Set Implicit Arguments.
Arguments Nat.sub : simpl never.

Section Compose.
  Variables (F G H : pg) (q : nat -> nat) (n m p : nat).
  Variables (f g : list Z -> list Z) (J1 J2 : list Z -> list (list Z)).
  Hypothesis SF : OSem F n m f J1.
  Hypothesis SG : OSem G m p g J2.
  Hypothesis DF : FJdims n m f J1.
  Hypothesis DG : FJdims m p g J2.

  Local Notation nF := (length (p_nodes F)).
  Local Notation nG := (length (p_nodes G)).

  Hypothesis HQ : IsQuot (pjoin F G) q H.
  Hypothesis HK : forall i j, i < nF + nG -> j < nF + nG ->
    (q i = q j <-> conn (glue_pairs F G) i j).

  Let WF : pwf F := os_wf SF.
  Let WG : pwf G := os_wf SG.
  Let NG : NoDup (p_ins G) := os_ni SG.
  Let NF : NoDup (p_outs F) := os_no SF.

  Lemma HL : length (p_outs F) = length (p_ins G).
  Proof. rewrite (os_lo SF), (os_li SG). reflexivity. Qed.

  (* ---------- what q identifies ---------- *)
  Lemma qFF a b : a < nF -> b < nF -> q a = q b -> a = b.
  Proof. exact (@qinj_FF _ _ F G q WF HK HL NG a b). Qed.

  Lemma qGG a b : a < nG -> b < nG -> q (a + nF) = q (b + nF) -> a = b.
  Proof. exact (@qinj_GG' _ _ F G q WF HK HL NG a b NF). Qed.

  Lemma qFG a b : a < nF -> b < nG -> q a = q (b + nF) ->
    exists k, k < 2 * m /\ a = nth k (p_outs F) 0 /\ b = nth k (p_ins G) 0.
  Proof.
    intros Ha Hb E. apply (@q_rep _ _ F G q WF HK HL NG) in E; try lia.
    rewrite rep_l in E by exact Ha.
    destruct (in_dec Nat.eq_dec b (p_ins G)) as [Hin|Hnin].
    - apply In_nth_0 in Hin. destruct Hin as (k & Hk & <-).
      rewrite (@rep_r_in _ _ F G HL NG k Hk) in E. exists k. rewrite (os_li SG) in Hk. auto.
    - rewrite (@rep_r_notin _ _ F G HL b Hnin) in E. lia.
  Qed.

  Lemma cross a b : a < nF -> b < nG -> q a = q (b + nF) ->
    (exists i, i < m /\ a = nth i (fo F) 0 /\ b = nth i (fi G) 0) \/
    (exists i, i < m /\ a = nth i (ro F) 0 /\ b = nth i (ri G) 0).
  Proof.
    intros Ha Hb E. destruct (qFG Ha Hb E) as (k & Hk & -> & ->).
    destruct (Nat.even k) eqn:Ev.
    - left. apply Nat.even_spec in Ev. destruct Ev as (i & ->). exists i.
      unfold fo, fi. rewrite !nth_evens. split; [lia|]. split; reflexivity.
    - right. assert (O : Nat.odd k = true) by (rewrite <- Nat.negb_even, Ev; reflexivity).
      apply Nat.odd_spec in O. destruct O as (i & ->). exists i.
      unfold ro, ri. rewrite !nth_odds. split; [lia|]. split; reflexivity.
  Qed.

  Lemma glue_f i : i < m -> q (nth i (fi G) 0 + nF) = q (nth i (fo F) 0).
  Proof.
    intros Hi. unfold fi, fo. rewrite !nth_evens.
    apply (@q_glue _ _ F G q WF WG HK HL). rewrite (os_lo SF). lia.
  Qed.

  Lemma glue_r i : i < m -> q (nth i (ri G) 0 + nF) = q (nth i (ro F) 0).
  Proof.
    intros Hi. unfold ri, ro. rewrite !nth_odds.
    apply (@q_glue _ _ F G q WF WG HK HL). rewrite (os_lo SF). lia.
  Qed.

  Lemma in_foF i : i < m -> In (nth i (fo F) 0) (fo F).
  Proof. intros Hi. apply nth_In. rewrite (os_len_fo SF). exact Hi. Qed.
  Lemma in_roF i : i < m -> In (nth i (ro F) 0) (ro F).
  Proof. intros Hi. apply nth_In. rewrite (os_len_ro SF). exact Hi. Qed.
  Lemma in_fiG i : i < m -> In (nth i (fi G) 0) (fi G).
  Proof. intros Hi. apply nth_In. rewrite (os_len_fi SG). exact Hi. Qed.
  Lemma in_riG i : i < m -> In (nth i (ri G) 0) (ri G).
  Proof. intros Hi. apply nth_In. rewrite (os_len_ri SG). exact Hi. Qed.

  (* ---------- bounds ---------- *)
  Lemma lt_ins (X : pg) v : pwf X -> In v (p_ins X) -> v < length (p_nodes X).
  Proof. intros W. apply all_lt_in. apply (pwf_ins W). Qed.
  Lemma lt_outs (X : pg) v : pwf X -> In v (p_outs X) -> v < length (p_nodes X).
  Proof. intros W. apply all_lt_in. apply (pwf_outs W). Qed.
  Arguments lt_ins [X v] _ _.
  Arguments lt_outs [X v] _ _.
  Lemma lt_fi (X : pg) v : pwf X -> In v (fi X) -> v < length (p_nodes X).
  Proof. intros W Hv. apply (lt_ins W). apply In_evens. exact Hv. Qed.
  Lemma lt_ri (X : pg) v : pwf X -> In v (ri X) -> v < length (p_nodes X).
  Proof. intros W Hv. apply (lt_ins W). apply In_odds. exact Hv. Qed.
  Lemma lt_fo (X : pg) v : pwf X -> In v (fo X) -> v < length (p_nodes X).
  Proof. intros W Hv. apply (lt_outs W). apply In_evens. exact Hv. Qed.
  Lemma lt_ro (X : pg) v : pwf X -> In v (ro X) -> v < length (p_nodes X).
  Proof. intros W Hv. apply (lt_outs W). apply In_odds. exact Hv. Qed.
  Lemma lt_src (X : pg) e v : pwf X -> In e (p_edges X) -> In v (pe_src e) -> v < length (p_nodes X).
  Proof. intros W He. apply all_lt_in. apply (pwf_src e W He). Qed.
  Lemma lt_tgt (X : pg) e v : pwf X -> In e (p_edges X) -> In v (pe_tgt e) -> v < length (p_nodes X).
  Proof. intros W He. apply all_lt_in. apply (pwf_tgt e W He). Qed.

  Arguments lt_fi [X v] _ _.
  Arguments lt_ri [X v] _ _.
  Arguments lt_fo [X v] _ _.
  Arguments lt_ro [X v] _ _.
  Arguments lt_src [X e v] _ _ _.
  Arguments lt_tgt [X e v] _ _ _.

  (* ---------- the interfaces of the composite ---------- *)
  Lemma fi_H : fi H = map q (fi F).
  Proof. unfold fi. rewrite (Q_ins HQ). apply evens_map. Qed.
  Lemma ri_H : ri H = map q (ri F).
  Proof. unfold ri. rewrite (Q_ins HQ). apply odds_map. Qed.
  Lemma fo_H : fo H = map q (shiftl nF (fo G)).
  Proof. unfold fo. rewrite (Q_outs HQ). unfold shiftl. rewrite !evens_map. reflexivity. Qed.
  Lemma ro_H : ro H = map q (shiftl nF (ro G)).
  Proof. unfold ro. rewrite (Q_outs HQ). unfold shiftl. rewrite !odds_map. reflexivity. Qed.

  Lemma In_fo_H v : In v (fo H) <-> exists c, In c (fo G) /\ v = q (c + nF).
  Proof.
    rewrite fo_H, in_map_iff. split.
    - intros (a & <- & Ha). apply In_shiftl in Ha. exists (a - nF). split; [tauto|]. f_equal. lia.
    - intros (c & Hc & ->). exists (c + nF). split; [reflexivity|]. apply In_shiftl. split; [lia|].
      replace (c + nF - nF) with c by lia. exact Hc.
  Qed.

  Lemma In_ro_H v : In v (ro H) <-> exists c, In c (ro G) /\ v = q (c + nF).
  Proof.
    rewrite ro_H, in_map_iff. split.
    - intros (a & <- & Ha). apply In_shiftl in Ha. exists (a - nF). split; [tauto|]. f_equal. lia.
    - intros (c & Hc & ->). exists (c + nF). split; [reflexivity|]. apply In_shiftl. split; [lia|].
      replace (c + nF - nF) with c by lia. exact Hc.
  Qed.

  Lemma wf_H : pwf H.
  Proof. apply (quot_pwf (pwf_pjoin WF WG) HQ). Qed.

  (* ---------- every node of the composite is written exactly once ---------- *)
  Definition wrJ : list nat := (fi F ++ p_tgts F) ++ shiftl nF (ro G ++ p_tgts G).

  Lemma wr_H_perm : Permutation (wr H) (map q wrJ).
  Proof.
    unfold wr, wrJ. rewrite fi_H, ro_H, (p_tgts_H HQ), <- !map_app. apply Permutation_map.
    rewrite shiftl_app, <- !app_assoc. apply Permutation_app_head.
    rewrite !app_assoc. apply Permutation_app_tail. apply Permutation_app_comm.
  Qed.

  Lemma wrJ_cases a : In a wrJ ->
    (a < nF /\ (In a (fi F) \/ In a (p_tgts F))) \/
    (exists b, a = b + nF /\ b < nG /\ (In b (ro G) \/ In b (p_tgts G))).
  Proof.
    unfold wrJ. intros Ha. apply in_app_or in Ha. destruct Ha as [Ha|Ha].
    - left. apply in_app_or in Ha. split; [|exact Ha]. destruct Ha as [Ha|Ha].
      + apply (lt_fi WF Ha).
      + apply (p_tgts_lt _ WF Ha).
    - right. apply In_shiftl in Ha. destruct Ha as (Hge & Ha). exists (a - nF). split; [lia|].
      apply in_app_or in Ha. split; [|exact Ha]. destruct Ha as [Ha|Ha].
      + apply (lt_ro WG Ha).
      + apply (p_tgts_lt _ WG Ha).
  Qed.

  Lemma NoDup_sub3 (a b c : list nat) : NoDup (a ++ b ++ c) -> NoDup (a ++ c) /\ NoDup (b ++ c).
  Proof.
    intros Hnd. apply NoDup_app_iff in Hnd. destruct Hnd as (Na & Nbc & D).
    split; [|exact Nbc]. apply NoDup_app_iff in Nbc. destruct Nbc as (Nb & Nc & D').
    apply NoDup_app_iff. split; [exact Na|]. split; [exact Nc|].
    intros x Hx Hc. apply (D x Hx). apply in_or_app. auto.
  Qed.

  Lemma cover_H : cover (length (p_nodes H)) (wr H).
  Proof.
    apply (cover_perm (Permutation_sym wr_H_perm)).
    destruct (os_cover SF) as (NdF & _). destruct (os_cover SG) as (NdG & _). unfold wr in NdF, NdG.
    split.
    - apply C01Lemmas.NoDup_map_inj_on.
      + intros a b Ha Hb E. apply wrJ_cases in Ha. apply wrJ_cases in Hb.
        destruct Ha as [(La & Ha)|(a' & -> & La & Ha)]; destruct Hb as [(Lb & Hb)|(b' & -> & Lb & Hb)].
        * apply qFF; assumption.
        * exfalso. destruct (cross La Lb E) as [(i & Hi & -> & ->)|(i & Hi & -> & ->)].
          -- destruct Hb as [Hb|Hb]; [exact (os_fi_ro SG _ (in_fiG Hi) Hb)|exact (os_fi_tgt SG _ (in_fiG Hi) Hb)].
          -- destruct Ha as [Ha|Ha]; [exact (os_fi_ro SF _ Ha (in_roF Hi))|exact (os_ro_tgt SF _ (in_roF Hi) Ha)].
        * exfalso. symmetry in E. destruct (cross Lb La E) as [(i & Hi & -> & ->)|(i & Hi & -> & ->)].
          -- destruct Ha as [Ha|Ha]; [exact (os_fi_ro SG _ (in_fiG Hi) Ha)|exact (os_fi_tgt SG _ (in_fiG Hi) Ha)].
          -- destruct Hb as [Hb|Hb]; [exact (os_fi_ro SF _ Hb (in_roF Hi))|exact (os_ro_tgt SF _ (in_roF Hi) Hb)].
        * f_equal. apply qGG; assumption.
      + unfold wrJ. apply NoDup_app_iff. split; [|split].
        * apply (NoDup_sub3 _ _ _ NdF).
        * apply NoDup_shiftl. apply (NoDup_sub3 _ _ _ NdG).
        * intros v Hv Hs. apply In_shiftl in Hs.
          assert (v < nF).
          { apply in_app_or in Hv. destruct Hv as [Hv|Hv]; [apply (lt_fi WF Hv)|apply (p_tgts_lt _ WF Hv)]. }
          lia.
    - intros v. split.
      + intros Hv. apply in_map_iff in Hv. destruct Hv as (a & <- & Ha). apply (Q_lt HQ).
        apply wrJ_cases in Ha. destruct Ha as [(La & _)|(b & -> & Lb & _)]; lia.
      + intros Hv.
        assert (InF : forall a, In a (fi F) \/ In a (p_tgts F) -> In (q a) (map q wrJ)).
        { intros a Ha. apply in_map. unfold wrJ. apply in_or_app. left. apply in_or_app. exact Ha. }
        assert (InG : forall b, In b (ro G) \/ In b (p_tgts G) -> In (q (b + nF)) (map q wrJ)).
        { intros b Hb. apply in_map. unfold wrJ. apply in_or_app. right. apply In_shiftl. split; [lia|].
          replace (b + nF - nF) with b by lia. apply in_or_app. exact Hb. }
        destruct (Q_surj HQ Hv) as (i & HiN & <-).
        destruct (Nat.lt_ge_cases i nF) as [Hlt|Hge].
        * destruct (os_wr_cases SF Hlt) as [Hi|[Hi|Hi]]; [apply InF; auto| |apply InF; auto].
          apply In_nth_0 in Hi. destruct Hi as (j & Hj & <-). rewrite (os_len_ro SF) in Hj.
          rewrite <- (glue_r Hj).
          assert (Lb : nth j (ri G) 0 < nG) by (apply (lt_ri WG), in_riG, Hj).
          destruct (os_wr_cases SG Lb) as [Hb|[Hb|Hb]]; [|apply InG; auto|apply InG; auto].
          exfalso. exact (os_fi_ri SG _ Hb (in_riG Hj)).
        * replace i with ((i - nF) + nF) by lia.
          assert (Lb : i - nF < nG) by lia.
          destruct (os_wr_cases SG Lb) as [Hb|[Hb|Hb]]; [|apply InG; auto|apply InG; auto].
          apply In_nth_0 in Hb. destruct Hb as (j & Hj & <-). rewrite (os_len_fi SG) in Hj.
          rewrite (glue_f Hj).
          assert (La : nth j (fo F) 0 < nF) by (apply (lt_fo WF), in_foF, Hj).
          destruct (os_wr_cases SF La) as [Ha|[Ha|Ha]]; [apply InF; auto| |apply InF; auto].
          exfalso. exact (os_fo_ro SF _ (in_foF Hj) Ha).
  Qed.

  (* ---------- ranks ---------- *)
  Lemma edge_H_split x ex : nth_error (p_edges H) x = Some ex ->
    (x < length (p_edges F) /\ exists e1, nth_error (p_edges F) x = Some e1 /\ ex = map_edge q e1) \/
    (length (p_edges F) <= x /\ exists e2, nth_error (p_edges G) (x - length (p_edges F)) = Some e2 /\
       ex = map_edge q (shift_edge nF e2)).
  Proof.
    intros Hx. rewrite (Q_edges HQ), nth_error_map in Hx.
    destruct (nth_error (sum_edges F G) x) as [e0|] eqn:E0; cbn [option_map] in Hx; [|discriminate].
    inversion Hx; subst ex. unfold sum_edges in E0. apply nth_error_app_shift in E0.
    destruct E0 as [(Hlt & E)|(Hge & e2 & E & ->)]; [left|right]; eauto.
  Qed.

  Lemma in_map_q v l : In v (map q l) -> exists a, In a l /\ v = q a.
  Proof. intros Hv. apply in_map_iff in Hv. destruct Hv as (a & <- & Ha). eauto. Qed.

  Lemma in_map_q_sh v l : In v (map q (shiftl nF l)) -> exists b, In b l /\ v = q (b + nF).
  Proof.
    intros Hv. apply in_map_iff in Hv. destruct Hv as (a & <- & Ha). apply In_shiftl in Ha.
    exists (a - nF). split; [tauto|]. f_equal. lia.
  Qed.

  Lemma ranked_H : ranked2 H.
  Proof.
    destruct (os_rk SF) as (levF & KF & LF & HKF & F0 & F1 & F2 & F3).
    destruct (os_rk SG) as (levG & KG & LG & HKG & G0 & G1 & G2 & G3).
    exists (lev2 levF levG KF LG (length (p_edges F))), (KF + KG), (LF + LG). split; [lia|].
    split; [|split; [|split]].
    - intros x ex Hx. destruct (edge_H_split _ Hx) as [(Hlt & e1 & Ex & ->)|(Hge & e2 & Ex & ->)].
      + apply lev2_F_bound; [exact Hlt|eapply F0; eauto|exact HKF].
      + rewrite lev2_G by exact Hge. pose proof (G0 _ _ Ex). lia.
    - intros x y ex ey v Hx Hy Ht Hs.
      destruct (edge_H_split _ Hx) as [(Hltx & e1 & Ex & ->)|(Hgex & e1 & Ex & ->)];
        destruct (edge_H_split _ Hy) as [(Hlty & e2 & Ey & ->)|(Hgey & e2 & Ey & ->)];
        cbn [map_edge shift_edge pe_src pe_tgt] in Ht, Hs.
      + apply in_map_q in Ht. destruct Ht as (a & Ha & ->). apply in_map_q in Hs. destruct Hs as (b & Hb & E).
        pose proof (lt_tgt WF (nth_error_In _ _ Ex) Ha) as La.
        pose proof (lt_src WF (nth_error_In _ _ Ey) Hb) as Lb.
        assert (a = b) by (apply qFF; assumption). subst b.
        apply lev2_F_mono; try assumption. exact (F1 _ _ _ _ _ Ex Ey Ha Hb).
      + apply in_map_q in Ht. destruct Ht as (a & Ha & ->). apply in_map_q_sh in Hs. destruct Hs as (b & Hb & E).
        pose proof (lt_tgt WF (nth_error_In _ _ Ex) Ha) as La.
        pose proof (lt_src WG (nth_error_In _ _ Ey) Hb) as Lb.
        rewrite (lev2_G levF levG KF LG Hgey).
        destruct (cross La Lb E) as [(i & Hi & -> & ->)|(i & Hi & -> & ->)].
        * pose proof (F2 _ _ _ Ex Ha (in_foF Hi)) as A. rewrite lev2_F_lo by assumption. lia.
        * exfalso. exact (os_ro_tgt SF _ (in_roF Hi) (os_tgt_edge _ _ _ Ex Ha)).
      + apply in_map_q_sh in Ht. destruct Ht as (a & Ha & ->). apply in_map_q in Hs. destruct Hs as (b & Hb & E).
        pose proof (lt_tgt WG (nth_error_In _ _ Ex) Ha) as La.
        pose proof (lt_src WF (nth_error_In _ _ Ey) Hb) as Lb.
        rewrite (lev2_G levF levG KF LG Hgex). symmetry in E.
        destruct (cross Lb La E) as [(i & Hi & -> & ->)|(i & Hi & -> & ->)].
        * exfalso. exact (os_fi_tgt SG _ (in_fiG Hi) (os_tgt_edge _ _ _ Ex Ha)).
        * pose proof (F3 _ _ _ Ey Hb (in_roF Hi)) as A. rewrite lev2_F_hi by assumption.
          pose proof (G0 _ _ Ex). lia.
      + apply in_map_q_sh in Ht. destruct Ht as (a & Ha & ->). apply in_map_q_sh in Hs. destruct Hs as (b & Hb & E).
        pose proof (lt_tgt WG (nth_error_In _ _ Ex) Ha) as La.
        pose proof (lt_src WG (nth_error_In _ _ Ey) Hb) as Lb.
        assert (a = b) by (apply qGG; assumption). subst b.
        rewrite !lev2_G by assumption. pose proof (G1 _ _ _ _ _ Ex Ey Ha Hb). lia.
    - intros x ex v Hx Ht Hv. apply In_fo_H in Hv. destruct Hv as (c & Hc & ->).
      pose proof (lt_fo WG Hc) as Lc.
      destruct (edge_H_split _ Hx) as [(Hlt & e1 & Ex & ->)|(Hge & e2 & Ex & ->)];
        cbn [map_edge shift_edge pe_tgt] in Ht.
      + apply in_map_q in Ht. destruct Ht as (a & Ha & E). symmetry in E.
        pose proof (lt_tgt WF (nth_error_In _ _ Ex) Ha) as La.
        destruct (cross La Lc E) as [(i & Hi & -> & ->)|(i & Hi & -> & ->)].
        * pose proof (F2 _ _ _ Ex Ha (in_foF Hi)) as A. rewrite lev2_F_lo by assumption. lia.
        * exfalso. exact (os_ro_tgt SF _ (in_roF Hi) (os_tgt_edge _ _ _ Ex Ha)).
      + apply in_map_q_sh in Ht. destruct Ht as (a & Ha & E).
        pose proof (lt_tgt WG (nth_error_In _ _ Ex) Ha) as La.
        assert (c = a) by (apply qGG; assumption). subst a.
        pose proof (G2 _ _ _ Ex Ha Hc). rewrite lev2_G by exact Hge. lia.
    - intros x ex v Hx Hs Hv. apply In_ro_H in Hv. destruct Hv as (c & Hc & ->).
      pose proof (lt_ro WG Hc) as Lc.
      destruct (edge_H_split _ Hx) as [(Hlt & e1 & Ex & ->)|(Hge & e2 & Ex & ->)];
        cbn [map_edge shift_edge pe_src] in Hs.
      + apply in_map_q in Hs. destruct Hs as (b & Hb & E). symmetry in E.
        pose proof (lt_src WF (nth_error_In _ _ Ex) Hb) as Lb.
        destruct (cross Lb Lc E) as [(i & Hi & -> & ->)|(i & Hi & -> & ->)].
        * exfalso. exact (os_fi_ro SG _ (in_fiG Hi) Hc).
        * pose proof (F3 _ _ _ Ex Hb (in_roF Hi)) as A. rewrite lev2_F_hi by assumption. lia.
      + apply in_map_q_sh in Hs. destruct Hs as (b & Hb & E).
        pose proof (lt_src WG (nth_error_In _ _ Ex) Hb) as Lb.
        assert (c = b) by (apply qGG; assumption). subst b.
        pose proof (G3 _ _ _ Ex Hb Hc). rewrite lev2_G by exact Hge. lia.
  Qed.

  (* ---------- gluing two labellings that agree on the shared boundary ---------- *)
  Section Glue.
    Variables (mF mG : nat -> Z).
    Hypothesis CF : cval F mF.
    Hypothesis CG : cval G mG.
    Hypothesis Agree : forall k, k < length (p_outs F) -> mF (nth k (p_outs F) 0) = mG (nth k (p_ins G) 0).

    Definition memJ2 : nat -> Z := msum nF mF mG.

    Lemma memJ2_conn i j : conn (glue_pairs F G) i j -> memJ2 i = memJ2 j.
    Proof.
      apply (@conn_glue_impl (glue_pairs F G) (fun a b => memJ2 a = memJ2 b)); try congruence.
      intros a b Hin. apply (@glue_pair_char _ _ F G HL a b) in Hin. destruct Hin as (k & Hk & -> & ->).
      unfold memJ2. rewrite msum_l by (apply (lt_outs WF), nth_In, Hk). rewrite msum_r.
      apply Agree. exact Hk.
    Qed.

    Definition mH2 : nat -> Z := mquot 0%Z (nF + nG) q memJ2.

    Lemma mH2_q i : i < nF + nG -> mH2 (q i) = memJ2 i.
    Proof. apply mquot_spec. intros a b Ha Hb E. apply memJ2_conn. apply HK; auto. Qed.

    Lemma map_mH2_F l : all_lt nF l -> map mH2 (map q l) = map mF l.
    Proof.
      intros Hl. rewrite map_map. apply map_ext_in. intros v Hv.
      pose proof (all_lt_in v Hl Hv). rewrite mH2_q by lia. unfold memJ2. apply msum_l. assumption.
    Qed.

    Lemma map_mH2_G l : all_lt nG l -> map mH2 (map q (shiftl nF l)) = map mG l.
    Proof.
      intros Hl. unfold shiftl. rewrite !map_map. apply map_ext_in. intros v Hv.
      pose proof (all_lt_in v Hl Hv). rewrite mH2_q by lia. unfold memJ2. apply msum_r.
    Qed.

    Lemma cval_H : cval H mH2.
    Proof.
      intros e He. apply (In_edges_H HQ) in He. destruct He as [(e1 & He1 & ->)|(e2 & He2 & ->)].
      - cbn [map_edge pe_lbl pe_src pe_tgt]. rewrite !map_mH2_F. apply CF. exact He1.
        apply (pwf_src e1 WF He1). apply (pwf_tgt e1 WF He1).
      - cbn [map_edge shift_edge pe_lbl pe_src pe_tgt]. rewrite !map_mH2_G. apply CG. exact He2.
        apply (pwf_src e2 WG He2). apply (pwf_tgt e2 WG He2).
    Qed.
  End Glue.

  (* ---------- the theorem ---------- *)
  Theorem OSem_compose : OSem H n p (seq_f f g) (seq_J n f J1 J2).
  Proof.
    constructor.
    - exact wf_H.
    - intros i w Hw. assert (Hi : i < length (p_nodes H)) by (apply nth_error_Some; congruence).
      destruct (Q_surj HQ Hi) as (j & Hj & <-).
      destruct HQ as (_ & _ & Hlab & _). rewrite Hlab in Hw
        by (cbn [pjoin p_nodes]; rewrite app_length; exact Hj).
      cbn [pjoin p_nodes] in Hw.
      destruct (Nat.lt_ge_cases j nF) as [Hlt|Hge].
      + rewrite nth_error_app1 in Hw by exact Hlt. exact (os_lbl SF _ Hw).
      + rewrite nth_error_app2 in Hw by exact Hge. exact (os_lbl SG _ Hw).
    - rewrite (Q_ins HQ), map_length. exact (os_li SF).
    - rewrite (Q_outs HQ), map_length, shiftl_length. exact (os_lo SG).
    - rewrite (Q_ins HQ). apply C01Lemmas.NoDup_map_inj_on; [|exact (os_ni SF)].
      intros a b Ha Hb. apply qFF; apply (lt_ins WF); assumption.
    - rewrite (Q_outs HQ). apply C01Lemmas.NoDup_map_inj_on; [|apply NoDup_shiftl; exact (os_no SG)].
      intros a b Ha Hb E. apply In_shiftl in Ha. apply In_shiftl in Hb.
      destruct Ha as (Ga & Ha). destruct Hb as (Gb & Hb).
      assert (a - nF = b - nF); [|lia].
      apply qGG; try (apply (lt_outs WG); assumption).
      replace (a - nF + nF) with a by lia. replace (b - nF + nF) with b by lia. exact E.
    - exact cover_H.
    - apply (arity_compose HQ (os_ar SF) (os_ar SG)).
    - exact ranked_H.
    - intros x dz Hx Hdz. unfold seq_f, seq_J.
      destruct (DF x Hx) as (Lfx & LJ1 & RJ1).
      destruct (DG (f x) Lfx) as (Lgy & LJ2 & RJ2).
      set (dy := tmulv m (J2 (f x)) dz).
      assert (Ldy : length dy = m) by (apply tmulv_length; exact RJ2).
      destruct (os_sem SG (f x) dz Lfx Hdz) as (mG & CG & B1 & B2 & B3 & B4).
      destruct (os_sem SF x dy Hx Ldy) as (mF & CF & A1 & A2 & A3 & A4).
      assert (Agree : forall k, k < length (p_outs F) -> mF (nth k (p_outs F) 0) = mG (nth k (p_ins G) 0)).
      { intros k Hk. rewrite (os_lo SF) in Hk.
        assert (Hk' : k < length (p_outs F)) by (rewrite (os_lo SF); exact Hk).
        destruct (nth_parity (p_outs F) m (os_lo SF) Hk') as [(i & Hi & E1 & ->)|(i & Hi & E1 & ->)].
        - rewrite E1. fold (fo F). change (nth (2 * i) (p_ins G) 0) with (nth (2 * i) (p_ins G) 0).
          rewrite <- (nth_evens 0 (p_ins G) i). fold (fi G).
          rewrite <- (map_nth mF), <- (map_nth mG), A3, B1.
          rewrite (nth_indep _ (mF 0) (mG 0)) by (rewrite map_length; lia). reflexivity.
        - rewrite E1. fold (ro F). rewrite <- (nth_odds 0 (p_ins G) i). fold (ri G).
          rewrite <- (map_nth mF), <- (map_nth mG), A2, B4. fold dy.
          rewrite (nth_indep _ (mF 0) (mG 0)) by (rewrite map_length; lia). reflexivity. }
      exists (mH2 mF mG). split; [exact (cval_H CF CG Agree)|].
      split; [|split; [|split]].
      + rewrite fi_H, (map_mH2_F _ _ Agree) by (apply all_lt_evens; exact (pwf_ins WF)). exact A1.
      + rewrite ro_H, (map_mH2_G _ _ Agree) by (apply all_lt_odds; exact (pwf_outs WG)). exact B2.
      + rewrite fo_H, (map_mH2_G _ _ Agree) by (apply all_lt_evens; exact (pwf_outs WG)). exact B3.
      + rewrite ri_H, (map_mH2_F _ _ Agree) by (apply all_lt_odds; exact (pwf_ins WF)). rewrite A4.
        f_equal. unfold dy. rewrite tmulv_mmul; [rewrite LJ1; reflexivity|exact RJ1|rewrite LJ1; exact RJ2].
  Qed.
End Compose.

Print Assumptions OSem_compose.
