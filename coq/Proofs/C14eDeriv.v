(* C14e: the reverse-derivative statement for EVERY denotable circuit (clause 1 of [C14_full]).

   FINDING.  Clause 1 of [C14_full] is false as stated: [eval] does not reduce its inputs modulo 2^64, so
   on a circuit with a pass-through wire (the identity already) and an input outside [0, 2^64) the adapted
   optic returns the input itself, not its residue ([C14_derivative_unwrapped_refuted], [C14_full_false]).
   The inputs of the Rust evaluator are u64 values; with that precondition the statement holds:

     C14_derivative_all_wrapped : clause3 -> clause4 -> respects_iso -> forall s n m f J, denotes s n m f J ->
         exists d, poly_adapted_strict s = Ok d /\ wf_ohg d /\ forall x dy of lengths n, m,
           eval d (map wrap x ++ map wrap dy) = Ok (Some (map wrap (f x ++ J(x)^T dy)))    (ALL integers)
     C14_derivative_all         : the same with the original conclusion [eval d (x ++ dy) = ...] under
                                  [Forall in64 x], [Forall in64 dy]   ([derivative_statement_u64])
     C14_derivative_all_closed / _wrapped_closed : without hypotheses (clauses 3, 4 and respects_iso are
                                  C14dPres.C14_optic_preserves_composition / _tensor / C14_optic_respects_iso)
     C14_derivative_every_circuit : every monogamous acyclic circuit of the theory has a denotation, and
                                  its adapted optic computes value and reverse derivative of it
     C14_full_u64               : C14_full with clause 1 in the u64 form

   Files: C14eSem.v (invariant, iso, tensor, discrete), C14eComp.v (composition = chain rule),
   C14eAdapt.v (invariant => value of eval on the adapted diagram), C14eGen.v (generators, identities,
   symmetries), C14eInd.v (induction over [denotes]). *)
From OHG Require Import Spec.Plain Proofs.PrimsThm Proofs.C01Lemmas Proofs.C01Thm Proofs.QuotThm
  Proofs.BackendInst Proofs.C14Thm Proofs.C14dDefs Proofs.C14dFunct Proofs.C14dDyn Proofs.C14dPres
  Proofs.C14fNormal Proofs.C14eSem Proofs.C14eInd Run.Dispatch.
From Coq Require Import List Arith Lia Bool Permutation ZArith.
Import ListNotations.
Open Scope list_scope. Open Scope nat_scope.

Set Implicit Arguments.
Arguments Nat.sub : simpl never.

(* ================================================================== *)
(** * 1. the optic image of a circuit of the theory is well-formed *)
(* ================================================================== *)

Theorem poly_image_wf : image_wf.
Proof.
  intros s H Ps EH.
  destruct (pw_map_arrow VecBackend_ok Nat.eqb Nat.eqb_eq C14dDyn.poly_pw (poly_circuit_adm Ps))
    as (H' & fw & fx & EH' & WH & _).
  assert (H' = H) by congruence. subst H'. exact WH.
Qed.

(* ================================================================== *)
(** * 2. the theorems *)
(* ================================================================== *)

(* all integer inputs, reduced modulo 2^64 on entry *)
Theorem C14_derivative_all_wrapped :
  clause3 -> clause4 -> respects_iso ->
  forall s n m f J, denotes s n m f J -> derivative_statement_wrapped s n m f J.
Proof. intros H3 H4 HR s n m f J D. exact (C14_derivative_all_wrapped_wf poly_image_wf H3 H4 HR D). Qed.

(* the statement of the task with the precondition of the Rust evaluator (u64 inputs) *)
Theorem C14_derivative_all :
  clause3 -> clause4 -> respects_iso ->
  forall s n m f J, denotes s n m f J -> derivative_statement_u64 s n m f J.
Proof. intros H3 H4 HR s n m f J D. exact (C14_derivative_all_wf poly_image_wf H3 H4 HR D). Qed.

(* the three hypotheses are theorems (C14dPres.v) *)
Lemma clause3_holds : clause3.
Proof. exact C14_optic_preserves_composition. Qed.
Lemma clause4_holds : clause4.
Proof. exact C14_optic_preserves_tensor. Qed.
Lemma respects_iso_holds : respects_iso.
Proof. exact C14_optic_respects_iso. Qed.

Theorem C14_derivative_all_wrapped_closed :
  forall s n m f J, denotes s n m f J -> derivative_statement_wrapped s n m f J.
Proof. exact (C14_derivative_all_wrapped clause3_holds clause4_holds respects_iso_holds). Qed.

Theorem C14_derivative_all_closed :
  forall s n m f J, denotes s n m f J -> derivative_statement_u64 s n m f J.
Proof. exact (C14_derivative_all clause3_holds clause4_holds respects_iso_holds). Qed.

(* every monogamous acyclic circuit of the theory, whatever its wiring and edge order *)
Corollary C14_derivative_every_circuit :
  forall s, poly_circuit s -> ohg_is_monogamous s = Ok true -> ohg_is_acyclic VecBackend s = Ok true ->
    exists n m f J, denotes s n m f J /\ derivative_statement_u64 s n m f J /\
                    derivative_statement_wrapped s n m f J.
Proof.
  intros s Ps Hm Ha. destruct (C14_every_circuit_denotable Ps Hm Ha) as (n & m & f & J & D).
  exists n, m, f, J. split; [exact D|]. split.
  - exact (C14_derivative_all_closed D).
  - exact (C14_derivative_all_wrapped_closed D).
Qed.

(* C14_full with its first clause in the u64 form: all four clauses hold *)
Definition C14_full_u64 : Prop :=
  (forall s n m f J, denotes s n m f J -> derivative_statement_u64 s n m f J) /\
  (forall s, poly_circuit s -> ohg_is_monogamous s = Ok true -> ohg_is_acyclic VecBackend s = Ok true ->
     exists n m f J, denotes s n m f J) /\
  clause3 /\ clause4.

Theorem C14_full_u64_holds : C14_full_u64.
Proof.
  split; [exact C14_derivative_all_closed|]. split; [exact C14_every_circuit_denotable|].
  split; [exact clause3_holds|exact clause4_holds].
Qed.

(* ================================================================== *)
(** * 3. the unwrapped statement is false *)
(* ================================================================== *)

Definition s_id1 : ohg nat nat :=
  mkOHG (mkFF [0] 1) (mkFF [0] 1) (mkHG (mkIC (mkFF [] 1) (mkFF [] 1)) (mkIC (mkFF [] 1) (mkFF [] 1)) [0] []).

(* the identity wire on the input -1: the adapted optic returns (-1, dy), not (2^64 - 1, dy) *)
Example C14_derivative_unwrapped_refuted :
  denotes s_id1 1 1 (fun x => x) (fun _ => idmat 1) /\
  (exists d, poly_adapted_strict s_id1 = Ok d /\
     eval VecBackend 0%Z apply_sig d ([(-1)%Z] ++ [5%Z]) = Ok (Some [(-1)%Z; 5%Z])) /\
  map wrap ([(-1)%Z] ++ tmulv 1 (idmat 1) [5%Z]) = [(two64 - 1)%Z; 5%Z] /\
  ~ derivative_statement s_id1 1 1 (fun x => x) (fun _ => idmat 1).
Proof.
  split; [apply (@den_id 1); vm_compute; reflexivity|].
  split; [eexists; split; [vm_compute; reflexivity|vm_compute; reflexivity]|].
  split; [vm_compute; reflexivity|].
  intros (d & Hd & _ & Hev).
  vm_compute in Hd. inversion Hd; subst d.
  specialize (Hev [(-1)%Z] [5%Z] eq_refl eq_refl). vm_compute in Hev. discriminate Hev.
Qed.

Theorem C14_derivative_all_stmt_false : clause3 -> clause4 -> respects_iso -> ~ C14_derivative_all_stmt.
Proof.
  intros H3 H4 HR Hall. destruct C14_derivative_unwrapped_refuted as (D & _ & _ & Hn).
  exact (Hn (Hall H3 H4 HR _ _ _ _ _ D)).
Qed.

(* ... outright, the three hypotheses being theorems *)
Corollary C14_derivative_all_stmt_refuted : ~ C14_derivative_all_stmt.
Proof. exact (C14_derivative_all_stmt_false clause3_holds clause4_holds respects_iso_holds). Qed.

Theorem C14_full_false : ~ C14_full.
Proof.
  intros (H1 & _). destruct C14_derivative_unwrapped_refuted as (D & _ & _ & Hn). exact (Hn (H1 _ _ _ _ _ D)).
Qed.

(* ================================================================== *)
(** * 4. examples: the squaring circuit copy ; mul *)
(* ================================================================== *)

Example C14_derivative_square : clause3 -> clause4 -> respects_iso ->
  derivative_statement_u64 s_square 1 1 (seq_f (gen_sem 3) (gen_sem 1))
                           (seq_J 1 (gen_sem 3) (gen_jac 3) (gen_jac 1)) /\
  (* x = 3, dy = 1: the value 9 and the gradient 6 *)
  map wrap (seq_f (gen_sem 3) (gen_sem 1) [3%Z]
            ++ tmulv 1 (seq_J 1 (gen_sem 3) (gen_jac 3) (gen_jac 1) [3%Z]) [1%Z]) = [9%Z; 6%Z].
Proof.
  intros H3 H4 HR. split; [|vm_compute; reflexivity].
  apply (C14_derivative_all H3 H4 HR). exact (proj1 C14_full_ex).
Qed.

(* the same without hypotheses, and through [C14_derivative_every_circuit] (s_square is a monogamous
   acyclic circuit of the theory) *)
Example C14_derivative_square_closed :
  derivative_statement_u64 s_square 1 1 (seq_f (gen_sem 3) (gen_sem 1))
                           (seq_J 1 (gen_sem 3) (gen_jac 3) (gen_jac 1)) /\
  exists n m f J, denotes s_square n m f J /\ derivative_statement_u64 s_square n m f J /\
                  derivative_statement_wrapped s_square n m f J.
Proof.
  destruct C14_full_ex as (D & Pc & Hm & Ha & _). split.
  - exact (C14_derivative_all_closed D).
  - exact (C14_derivative_every_circuit Pc Hm Ha).
Qed.



Print Assumptions poly_image_wf.
Print Assumptions C14_derivative_all_wrapped.
Print Assumptions C14_derivative_all.
Print Assumptions C14_derivative_all_closed.
Print Assumptions C14_derivative_all_wrapped_closed.
Print Assumptions C14_derivative_every_circuit.
Print Assumptions C14_full_u64_holds.
Print Assumptions C14_derivative_unwrapped_refuted.
Print Assumptions C14_derivative_all_stmt_false.
Print Assumptions C14_derivative_all_stmt_refuted.
Print Assumptions C14_full_false.
Print Assumptions C14_derivative_square.
Print Assumptions C14_derivative_square_closed.
