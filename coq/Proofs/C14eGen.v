(* C14e, part 4: the base cases.  The optic images of the six generators are concrete diagrams; their
   invariant [OSem] is established by computation (symbolic in the input values, and in the constant for
   the generators 10 + c).  Identities and symmetries have edge-free optic images (C12_discrete). *)
From OHG Require Import Spec.Plain Proofs.PrimsThm Proofs.SegThm Proofs.C01Lemmas Proofs.C01Thm Proofs.QuotThm
  Proofs.C16Lemmas Proofs.BackendInst Proofs.EvalPlain Proofs.EvalFunctor Proofs.C03Plain Proofs.C12Lemmas
  Proofs.C12Plain Proofs.C12Thm Proofs.C12Struct
  Proofs.C14Thm Proofs.C14bThm Proofs.C14cPlain Proofs.C19bLemmas
  Proofs.C14eSem Proofs.C14eAdapt Run.Dispatch.
From Coq Require Import List Arith Lia Bool Permutation ZArith.
Import ListNotations.
Open Scope list_scope. Open Scope nat_scope.

Set Implicit Arguments.
Arguments Nat.sub : simpl never.

From Coq Require Import Setoid Morphisms.
(* the congruence instances of C14Thm are local to that file *)
#[local] Existing Instance eq64_equiv.
#[local] Existing Instance eq64_add.
#[local] Existing Instance eq64_mul.
#[local] Existing Instance eq64_opp.
#[local] Existing Instance eq64_wrap.

(* ================================================================== *)
(** * 1. the six generator images *)
(* ================================================================== *)

Definition P_add : pg := mkP [0;0;0;0;0;0] [mkPE 0 [0;2] [4]; mkPE 3 [5] [1;3]] [0;1;2;3] [4;5].
Definition P_mul : pg :=
  mkP [0;0;0;0;0;0;0;0;0;0;0;0]
      [mkPE 3 [0] [6;7]; mkPE 3 [2] [8;9]; mkPE 1 [6;8] [4]; mkPE 3 [5] [10;11]; mkPE 1 [9;10] [1];
       mkPE 1 [7;11] [3]] [0;1;2;3] [4;5].
Definition P_neg : pg := mkP [0;0;0;0] [mkPE 2 [0] [2]; mkPE 2 [3] [1]] [0;1] [2;3].
Definition P_copy : pg := mkP [0;0;0;0;0;0] [mkPE 3 [0] [2;4]; mkPE 0 [3;5] [1]] [0;1] [2;3;4;5].
Definition P_discard : pg := mkP [0;0] [mkPE 4 [0] []; mkPE 10 [] [1]] [0;1] [].
Definition P_const (k : nat) : pg := mkP [0;0] [mkPE (10 + k) [] [0]; mkPE 4 [1] []] [] [0;1].

(* a functional memory, filled hyperedge by hyperedge in list order *)
Definition upd (mem : nat -> Z) (v : nat) (z : Z) : nat -> Z := fun u => if u =? v then z else mem u.
Fixpoint updl (mem : nat -> Z) (vs : list nat) (zs : list Z) : nat -> Z :=
  match vs, zs with
  | v :: vs', z :: zs' => updl (upd mem v z) vs' zs'
  | _, _ => mem
  end.
Definition run_edges (es : list (pedge nat)) (mem : nat -> Z) : nat -> Z :=
  fold_left (fun mem e => updl mem (pe_tgt e) (interp (pe_lbl e) (map mem (pe_src e)))) es mem.
Definition gen_mem (g : pg) (x dy : list Z) : nat -> Z :=
  run_edges (p_edges g) (updl (fun _ => 0%Z) (fi g ++ ro g) (map wrap x ++ map wrap dy)).

Ltac in_cases H := cbn in H; repeat (destruct H as [H|H]); try contradiction; try subst.

Ltac edge_cases_rec x H :=
  match type of H with
  | nth_error (_ :: _) x = Some _ =>
      destruct x as [|x]; [cbn in H; inversion H; subst; clear H|cbn [nth_error] in H; edge_cases_rec x H]
  | nth_error [] x = Some _ => exfalso; destruct x; discriminate H
  end.
Ltac edge_cases x H := cbn in H; edge_cases_rec x H.

Ltac nd_tac := repeat (constructor; [cbn; intuition lia|]); constructor.

(* the structural part of OSem for a concrete diagram, ranks = positions, threshold K, bound L *)
Ltac osem_struct K L :=
  constructor;
  [ (* pwf *)
    split; [intros e He; in_cases He; split; apply Forall_forall; cbn; intros v Hv; intuition lia
           |split; apply Forall_forall; cbn; intros v Hv; intuition lia]
  | intros i w Hw; apply nth_error_In in Hw; in_cases Hw; reflexivity
  | reflexivity | reflexivity
  | nd_tac | nd_tac
  | split; [unfold wr, fi, ro, p_tgts; cbn; nd_tac|intros v; unfold wr, fi, ro, p_tgts; cbn; lia]
  | intros e vals He Hl; in_cases He; reflexivity
  | exists (fun x => x), K, L; split; [lia|]; split; [|split; [|split]];
    [ intros x ex Hx; edge_cases x Hx; lia
    | intros x y ex ey v Hx Hy Ht Hs; edge_cases x Hx; edge_cases y Hy; cbn in Ht, Hs; intuition lia
    | intros x ex v Hx Ht Hv; edge_cases x Hx; unfold fo in Hv; cbn in Ht, Hv; intuition lia
    | intros x ex v Hx Hs Hv; edge_cases x Hx; unfold ro in Hv; cbn in Hs, Hv; intuition lia ]
  | ].

Ltac sem_tac g :=
  exists (gen_mem g _ _);
  split; [intros e He; in_cases He; cbv -[wrap Z.add Z.mul Z.opp Z.of_nat]; reflexivity|];
  repeat split; cbv -[wrap Z.add Z.mul Z.opp Z.of_nat]; wrap_solve.

Lemma OSem_add : OSem P_add 2 1 (gen_sem 0) (gen_jac 0).
Proof.
  osem_struct 1 2.
  intros x dy Hx Hdy.
  destruct x as [|x1 [|x2 [|x3 x]]]; try discriminate Hx. destruct dy as [|d1 [|d2 dy]]; try discriminate Hdy.
  exists (gen_mem P_add [x1; x2] [d1]).
  split; [intros e He; in_cases He; cbv -[wrap Z.add Z.mul Z.opp Z.of_nat]; reflexivity|].
  repeat split; cbv -[wrap Z.add Z.mul Z.opp Z.of_nat]; wrap_solve.
Qed.

Ltac sem_concrete g x dy :=
  exists (gen_mem g x dy);
  split; [intros e He; in_cases He; cbv -[wrap Z.add Z.mul Z.opp Z.of_nat]; reflexivity|];
  repeat split; cbv -[wrap Z.add Z.mul Z.opp Z.of_nat]; wrap_solve.

Lemma OSem_mul : OSem P_mul 2 1 (gen_sem 1) (gen_jac 1).
Proof.
  osem_struct 3 6.
  intros x dy Hx Hdy.
  destruct x as [|x1 [|x2 [|x3 x]]]; try discriminate Hx. destruct dy as [|d1 [|d2 dy]]; try discriminate Hdy.
  sem_concrete P_mul [x1; x2] [d1].
Qed.

Lemma OSem_neg : OSem P_neg 1 1 (gen_sem 2) (gen_jac 2).
Proof.
  osem_struct 1 2.
  intros x dy Hx Hdy.
  destruct x as [|x1 [|x2 x]]; try discriminate Hx. destruct dy as [|d1 [|d2 dy]]; try discriminate Hdy.
  sem_concrete P_neg [x1] [d1].
Qed.

Lemma OSem_copy : OSem P_copy 1 2 (gen_sem 3) (gen_jac 3).
Proof.
  osem_struct 1 2.
  intros x dy Hx Hdy.
  destruct x as [|x1 [|x2 x]]; try discriminate Hx. destruct dy as [|d1 [|d2 [|d3 dy]]]; try discriminate Hdy.
  sem_concrete P_copy [x1] [d1; d2].
Qed.

Lemma OSem_discard : OSem P_discard 1 0 (gen_sem 4) (gen_jac 4).
Proof.
  osem_struct 1 2.
  intros x dy Hx Hdy.
  destruct x as [|x1 [|x2 x]]; try discriminate Hx. destruct dy as [|d1 dy]; try discriminate Hdy.
  sem_concrete P_discard [x1] (@nil Z).
Qed.

Lemma OSem_const k : OSem (P_const k) 0 1 (gen_sem (10 + k)) (gen_jac (10 + k)).
Proof.
  osem_struct 1 2.
  intros x dy Hx Hdy.
  destruct x as [|x1 x]; try discriminate Hx. destruct dy as [|d1 [|d2 dy]]; try discriminate Hdy.
  sem_concrete (P_const k) (@nil Z) [d1].
Qed.

Notation optic_image s := (optic_map_arrow VecBackend Nat.eqb poly_strict_optic s).

Ltac gen_image_case Ha Hs P HP :=
  cbn in Ha; inversion Ha; subst; vm_compute in Hs; inversion Hs; subst;
  eexists; split; [vm_compute; reflexivity|];
  split; [repeat split; try reflexivity; repeat constructor|];
  match goal with |- OSem ?G _ _ _ _ => replace G with P by (vm_compute; reflexivity) end;
  exact HP.

Theorem gen_image g n m s :
  poly_arity g = Some (n, m) -> ohg_singleton g (repeat 0 n) (repeat 0 m) = Ok s ->
  exists c, optic_image s = Ok c /\ wf_ohg c /\ OSem (abs c) n m (gen_sem g) (gen_jac g).
Proof.
  intros Ha Hs.
  destruct g as [|g]; [gen_image_case Ha Hs P_add OSem_add|].
  destruct g as [|g]; [gen_image_case Ha Hs P_mul OSem_mul|].
  destruct g as [|g]; [gen_image_case Ha Hs P_neg OSem_neg|].
  destruct g as [|g]; [gen_image_case Ha Hs P_copy OSem_copy|].
  destruct g as [|g]; [gen_image_case Ha Hs P_discard OSem_discard|].
  do 5 (destruct g as [|g]; [discriminate Ha|]).
  gen_image_case Ha Hs (P_const g) (OSem_const g).
Qed.

(* ================================================================== *)
(** * 2. linear algebra of identity matrices *)
(* ================================================================== *)

Definition unit_row (k i : nat) : list Z := map (fun j => if i =? j then 1%Z else 0%Z) (seq 0 k).

Lemma idmat_rows k : idmat k = map (unit_row k) (seq 0 k).
Proof. reflexivity. Qed.

Lemma idmat_length k : length (idmat k) = k.
Proof. unfold idmat. rewrite map_length, seq_length. reflexivity. Qed.

Lemma idmat_rows_len k : rows_len k (idmat k).
Proof.
  unfold rows_len, idmat. apply Forall_map. apply Forall_forall. intros i _.
  rewrite map_length, seq_length. reflexivity.
Qed.

Lemma map_zero_seq (g : nat -> Z) a k : (forall j, a <= j < a + k -> g j = 0%Z) -> map g (seq a k) = vzero k.
Proof.
  revert a. induction k as [|k IH]; intros a H; [reflexivity|].
  cbn [seq map vzero repeat]. f_equal; [apply H; lia|]. apply IH. intros j Hj. apply H. lia.
Qed.

Lemma seq_add_map a n m : seq (a + n) m = map (fun i => i + n) (seq a m).
Proof.
  revert a. induction m as [|m IH]; intros a; [reflexivity|].
  cbn [seq map]. f_equal. apply (IH (S a)).
Qed.

Lemma idmat_app n m : idmat (n + m) = blockdiag n m (idmat n) (idmat m).
Proof.
  unfold blockdiag. rewrite !idmat_rows, seq_app, map_app, !map_map. cbn [Nat.add]. f_equal.
  - apply map_ext_in. intros i Hi. apply in_seq in Hi. unfold unit_row. rewrite seq_app, map_app. f_equal.
    cbn [Nat.add]. apply map_zero_seq. intros j Hj.
    destruct (i =? j) eqn:E; [apply Nat.eqb_eq in E; lia|reflexivity].
  - replace (seq n m) with (seq (0 + n) m) by reflexivity. rewrite seq_add_map, map_map. apply map_ext_in. intros i Hi. apply in_seq in Hi.
    unfold unit_row. rewrite seq_app, map_app. f_equal.
    + apply map_zero_seq. intros j Hj. destruct (i + n =? j) eqn:E; [apply Nat.eqb_eq in E; lia|reflexivity].
    + replace (seq (0 + n) m) with (seq (0 + n) m) by reflexivity. rewrite seq_add_map, map_map. apply map_ext. intros j.
      destruct (i =? j) eqn:E1; destruct (i + n =? j + n) eqn:E2; try reflexivity;
        (apply Nat.eqb_eq in E1 || apply Nat.eqb_neq in E1); (apply Nat.eqb_eq in E2 || apply Nat.eqb_neq in E2); lia.
Qed.

Lemma vplus_zero_l' n v : length v = n -> vplus (vzero n) v = v.
Proof. intros <-. apply vplus_zero_l. Qed.

Lemma vplus_zero_r' n v : length v = n -> vplus v (vzero n) = v.
Proof. intros <-. apply vplus_zero_r. Qed.

Lemma tmulv_idmat k : forall dy, length dy = k -> tmulv k (idmat k) dy = dy.
Proof.
  induction k as [|k IH]; intros dy Hl.
  - destruct dy; [reflexivity|discriminate].
  - destruct dy as [|d dy]; [discriminate|]. cbn [length] in Hl.
    change (S k) with (1 + k). rewrite idmat_app. unfold blockdiag.
    change (idmat 1) with [[1%Z]]. cbn [map List.app tmulv].
    rewrite (tmulv_right 1 (idmat_rows_len k)), IH by lia.
    cbn [vzero repeat List.app vscale map vplus combine fst snd]. fold (vzero k). f_equal; [ring|].
    change (map (Z.mul d) (vzero k)) with (vscale d (vzero k)). rewrite vscale_zero.
    change (map (fun p : Z * Z => (fst p + snd p)%Z) (combine (vzero k) dy)) with (vplus (vzero k) dy).
    apply vplus_zero_l'. lia.
Qed.

Lemma twist_J_app n m : twist_J n m = map (fun r => vzero n ++ r) (idmat m) ++ map (fun r => r ++ vzero m) (idmat n).
Proof.
  unfold twist_J. rewrite idmat_app. unfold blockdiag.
  assert (L : length (map (fun r : list Z => r ++ vzero m) (idmat n)) = n) by (rewrite map_length; apply idmat_length).
  rewrite <- L at 1 3. rewrite skipn_app_exact, firstn_app_exact. reflexivity.
Qed.

Lemma tmulv_twist n m dy : length dy = m + n ->
  tmulv (n + m) (twist_J n m) dy = skipn m dy ++ firstn m dy.
Proof.
  intros Hl. rewrite twist_J_app. rewrite <- (firstn_skipn m dy) at 1.
  assert (L1 : length (firstn m dy) = m) by (rewrite firstn_length; lia).
  assert (L2 : length (skipn m dy) = n) by (rewrite skipn_length; lia).
  pose proof (rows_len_blockdiag (idmat_rows_len n) (idmat_rows_len m)) as HB.
  unfold blockdiag, rows_len in HB. apply Forall_app in HB. destruct HB as [HB1 HB2].
  rewrite tmulv_app; [|exact HB2|exact HB1|rewrite map_length, idmat_length; exact L1].
  rewrite (tmulv_right n (idmat_rows_len m)), (tmulv_left m (idmat_rows_len n)), !tmulv_idmat by assumption.
  rewrite vplus_app by (rewrite vzero_length; lia).
  rewrite vplus_zero_l', vplus_zero_r' by assumption. reflexivity.
Qed.

(* ================================================================== *)
(** * 3. the optic image of a diagram without hyperedges *)
(* ================================================================== *)

Definition ops0 : operations nat nat := mkOps [] (mkIC (mkFF [] 1) []) (mkIC (mkFF [] 1) []).
Definition fx0 : ohg nat nat :=
  mkOHG (mkFF [] 0) (mkFF [] 0) (mkHG (mkIC (mkFF [] 1) (mkFF [] 0)) (mkIC (mkFF [] 1) (mkFF [] 0)) [] []).

Lemma ops0_image : optic_map_operations VecBackend Nat.eqb poly_strict_optic ops0 = Ok fx0.
Proof. vm_compute. reflexivity. Qed.

Lemma wf_fx0 : wf_ohg fx0.
Proof. repeat split; try reflexivity; repeat constructor. Qed.

Lemma list_sum_firstn_twos N : forall i, i <= N -> list_sum (firstn i (repeat 2 N)) = 2 * i.
Proof.
  induction N as [|N IH]; intros i Hi.
  - assert (i = 0) by lia. subst. reflexivity.
  - destruct i as [|i]; [reflexivity|]. cbn [repeat firstn].
    change (list_sum (2 :: firstn i (repeat 2 N))) with (2 + list_sum (firstn i (repeat 2 N))).
    rewrite IH by lia. lia.
Qed.

Lemma fm_ext_in {X Y} (f g : X -> list Y) : forall l : list X,
  (forall x, In x l -> f x = g x) -> flat_map f l = flat_map g l.
Proof.
  induction l as [|a l IH]; intros H; cbn [flat_map]; [reflexivity|].
  rewrite (H a) by (left; reflexivity). rewrite IH; [reflexivity|].
  intros x Hx. apply H. right. exact Hx.
Qed.

Lemma inj_table_twos N l : all_lt N l -> SegThm.inj_table (repeat 2 N) l = dbl l.
Proof.
  intros Hl. unfold SegThm.inj_table, dbl. apply fm_ext_in.
  intros i Hi. pose proof (all_lt_in i Hl Hi) as Lt.
  rewrite list_sum_firstn_twos by lia. rewrite nth_repeat_lt by exact Lt. cbn [seq].
  f_equal. f_equal. lia.
Qed.

Lemma zip_add_ones N : map (fun p => fst p + snd p) (combine (repeat 1 N) (repeat 1 N)) = repeat 2 N.
Proof. induction N as [|N IH]; [reflexivity|]. cbn. f_equal. exact IH. Qed.

Theorem discrete_image (s : ohg nat nat) N : wf_ohg s -> h_x (o_h s) = [] -> h_w (o_h s) = repeat 0 N ->
  exists c, optic_image s = Ok c /\ wf_ohg c /\
    NIso (abs c) (mkP (repeat 0 (2 * N)) [] (dbl (table (o_s s))) (dbl (table (o_t s)))).
Proof.
  intros Ws Hx Hw.
  assert (Hops : to_operations s = Ok ops0).
  { destruct (to_operations_val Ws) as (va & vb & Ho & Ea & Eb).
    destruct (no_edges Ws Hx) as [Es Et]. unfold edge_sources, edge_targets in Es, Et.
    rewrite Es in Ea. rewrite Et in Eb. cbn [map] in Ea, Eb.
    destruct va; [|discriminate]. destruct vb; [|discriminate].
    rewrite Ho. f_equal. unfold to_ops_pure, ops0. rewrite Hx.
    destruct Ws as ((((S1 & _) & _) & ((T1 & _) & _) & Ls & Lt & _) & _).
    rewrite Hx in Ls, Lt. unfold ic_len, ff_source in Ls, Lt. cbn [length] in Ls, Lt.
    apply length_zero_iff_nil in Ls. apply length_zero_iff_nil in Lt.
    destruct (ic_sources (h_s (o_h s))) as [tb tg]. destruct (ic_sources (h_t (o_h s))) as [tb' tg'].
    cbn [table target] in *. subst tb tb'. cbn in S1, T1. subst tg tg'. reflexivity. }
  destruct (C14_map_object poly_strict_optic (repeat 0 N) (poly_fwd_object N) (poly_rev_object N)
              (wf_blk N) (wf_blk N) (blk_len N) (blk_len N)) as (fw & Hfw & Efw & Wfw & Lfw & Dfw).
  assert (Vfw : ic_values fw = repeat 0 (2 * N)).
  { rewrite Efw. cbn [optic_object ic_values]. rewrite blk_decode, concat_zip_sing. apply interleave2_repeat. }
  assert (Tfw : table (ic_sources fw) = repeat 2 N).
  { rewrite Efw. cbn [optic_object ic_sources table blk]. apply zip_add_ones. }
  assert (Hlen : ic_len fw = length (h_w (o_h s))) by (rewrite Hw, repeat_length; exact Lfw).
  destruct (@C12_discrete VecBackend VecBackend_ok nat nat nat nat Nat.eqb Nat.eqb_eq s fw fx0
              Ws Wfw Hlen wf_fx0 Hx eq_refl eq_refl) as (h & Hh & Wh & HN).
  exists h. split; [|split; [exact Wh|]].
  - unfold optic_map_arrow, define_map_arrow. rewrite Hops. cbn [bind].
    cbn [optic_as_functor sf_map_operations sf_map_object]. rewrite ops0_image. cbn [bind].
    rewrite Hw, Hfw. cbn [bind]. exact Hh.
  - rewrite Vfw in HN. unfold expand in HN. rewrite Tfw in HN.
    destruct Ws as (_ & Ss & St & Es & Et). unfold wf_ff in Ss, St. rewrite Es, Hw, repeat_length in Ss.
    rewrite Et, Hw, repeat_length in St.
    rewrite !inj_table_twos in HN by assumption. exact HN.
Qed.

Lemma OSem_of_discrete (c : ohg nat nat) N ls lt f J : wf_ohg c ->
  NIso (abs c) (mkP (repeat 0 (2 * N)) [] (dbl ls) (dbl lt)) ->
  OSem (mkP (repeat 0 (2 * N)) [] (dbl ls) (dbl lt)) N N f J -> OSem (abs c) N N f J.
Proof.
  intros Wc HN S. apply (@OSem_pull _ (abs c) N N f J (wf_abs_pwf Wc) (NIso_Iso HN) S).
Qed.

(* ---------- identities ---------- *)
Theorem id_image n s : ohg_identity nat (repeat 0 n) = Ok s ->
  exists c, optic_image s = Ok c /\ wf_ohg c /\ OSem (abs c) n n (fun x => x) (fun _ => idmat n).
Proof.
  intros Hs. rewrite ohg_identity_val in Hs. injection Hs as <-. rewrite repeat_length.
  set (s := spider_pure nat (seq 0 n) (seq 0 n) (repeat 0 n)).
  assert (Ws : wf_ohg s) by (apply wf_spider_pure; rewrite repeat_length; apply all_lt_seq0).
  destruct (@discrete_image s n Ws eq_refl eq_refl) as (c & Hc & Wc & HN).
  exists c. split; [exact Hc|]. split; [exact Wc|].
  cbn [s spider_pure o_s o_t table] in HN.
  apply (@OSem_of_discrete c n _ _ _ _ Wc HN). apply OSem_discrete; try apply Permutation_refl.
  - intros x Hx. exists x. rewrite <- Hx. split; apply map_seq_nth.
  - intros x dy Hx Hdy. exists dy. rewrite tmulv_idmat by exact Hdy. rewrite <- Hdy. split; apply map_seq_nth.
Qed.

(* ---------- symmetries ---------- *)
Lemma map_nth_app_lZ {X} (d : X) (a b : list X) : map (fun v => nth v (a ++ b) d) (seq 0 (length a)) = a.
Proof.
  apply nth_ext with d d; [rewrite map_length, seq_length; reflexivity|].
  intros i Hi. rewrite map_length, seq_length in Hi. rewrite nth_map_seq by exact Hi. cbn [Nat.add].
  apply app_nth1. exact Hi.
Qed.

Lemma map_nth_app_rZ {X} (d : X) (a b : list X) :
  map (fun v => nth v (a ++ b) d) (seq (length a) (length b)) = b.
Proof.
  apply nth_ext with d d; [rewrite map_length, seq_length; reflexivity|].
  intros i Hi. rewrite map_length, seq_length in Hi. rewrite nth_map_seq by exact Hi.
  rewrite app_nth2 by lia. f_equal. lia.
Qed.

Theorem twist_image n m s : ohg_twist nat (repeat 0 n) (repeat 0 m) = Ok s ->
  exists c, optic_image s = Ok c /\ wf_ohg c /\
    OSem (abs c) (n + m) (m + n) (twist_f n) (fun _ => twist_J n m).
Proof.
  intros Hs. rewrite ohg_twist_val in Hs. injection Hs as <-.
  set (s := C12Struct.twist_pure nat (repeat 0 n) (repeat 0 m)).
  assert (Ws : wf_ohg s) by apply C12Struct.wf_twist_pure.
  assert (Hw : h_w (o_h s) = repeat 0 (n + m)).
  { cbn [s C12Struct.twist_pure o_h hg_discrete h_w]. rewrite <- repeat_app. f_equal. lia. }
  destruct (@discrete_image s (n + m) Ws eq_refl Hw) as (c & Hc & Wc & HN).
  exists c. split; [exact Hc|]. split; [exact Wc|].
  cbn [s C12Struct.twist_pure o_s o_t table] in HN. rewrite !repeat_length in HN.
  replace (m + n) with (n + m) by lia.
  apply (@OSem_of_discrete c (n + m) _ _ _ _ Wc HN). apply OSem_discrete.
  - rewrite (Nat.add_comm n m), seq_app. cbn [Nat.add]. apply Permutation_app_comm.
  - apply Permutation_refl.
  - intros x Hx. exists (skipn n x ++ firstn n x).
    assert (L1 : length (skipn n x) = m) by (rewrite skipn_length; lia).
    assert (L2 : length (firstn n x) = n) by (rewrite firstn_length; lia).
    split.
    + rewrite map_app.
      replace (seq m n) with (seq (length (skipn n x)) (length (firstn n x))) by (rewrite L1, L2; reflexivity).
      rewrite map_nth_app_rZ.
      replace (seq 0 m) with (seq 0 (length (skipn n x))) by (rewrite L1; reflexivity).
      rewrite map_nth_app_lZ. apply firstn_skipn.
    + unfold twist_f. replace (n + m) with (length (skipn n x ++ firstn n x)) by (rewrite app_length; lia).
      apply map_seq_nth.
  - intros x dy Hx Hdy. exists dy. split.
    + rewrite <- Hdy. apply map_seq_nth.
    + rewrite tmulv_twist by lia.
      assert (L1 : length (firstn m dy) = m) by (rewrite firstn_length; lia).
      assert (L2 : length (skipn m dy) = n) by (rewrite skipn_length; lia).
      assert (E : map (fun i => nth i dy 0%Z) (seq m n ++ seq 0 m)
                  = map (fun i => nth i (firstn m dy ++ skipn m dy) 0%Z) (seq m n ++ seq 0 m))
        by (rewrite firstn_skipn; reflexivity).
      rewrite E, map_app.
      replace (seq m n) with (seq (length (firstn m dy)) (length (skipn m dy))) by (rewrite L1, L2; reflexivity).
      rewrite map_nth_app_rZ.
      replace (seq 0 m) with (seq 0 (length (firstn m dy))) by (rewrite L1; reflexivity).
      rewrite map_nth_app_lZ. reflexivity.
Qed.

Print Assumptions gen_image.
Print Assumptions id_image.
Print Assumptions twist_image.
