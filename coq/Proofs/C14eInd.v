(* C14e, part 5: the induction over [denotes].  The statements (clause3, clause4, respects_iso, image_wf,
   derivative_statement_wrapped / _u64), the dimensions of the denoted function ([denotes_dims]), the fact
   that a denotable circuit is a circuit of the theory of the stated arities ([denotes_circ]), and

     denotes_OSem : image_wf -> clause3 -> clause4 -> respects_iso -> denotes s n m f J ->
                    exists c, optic image of s = Ok c /\ wf_ohg c /\ OSem (abs c) n m f J

   with its consequences C14_derivative_all_wrapped_wf / C14_derivative_all_wf (through OSem_adapt).
   [image_wf] — the optic image of a circuit of the theory is well-formed — is not a consequence of the
   three clauses (they speak about the plain model, which does not see the array encoding); it is
   discharged in C14eDeriv.v.  Route: the invariant [OSem] of the un-adapted optic image (C14eSem.v) holds
   at the generators, identities and symmetries (C14eGen.v), is closed under composition (C14eComp.v: the
   chain rule), tensor and isomorphism (C14eSem.v). *)
From OHG Require Import Spec.Plain Proofs.PrimsThm Proofs.C01Lemmas Proofs.C01Thm Proofs.QuotThm
  Proofs.C16Lemmas Proofs.BackendInst Proofs.C02Thm Proofs.EvalPlain Proofs.EvalFunctor Proofs.C12Lemmas
  Proofs.C12Struct Proofs.C14Thm Proofs.C14bThm Proofs.C14cPlain
  Proofs.C14eSem Proofs.C14eComp Proofs.C14eAdapt Proofs.C14eGen Run.Dispatch.
From Coq Require Import List Arith Lia Bool Permutation ZArith.
Import ListNotations.
Open Scope list_scope. Open Scope nat_scope.

Set Implicit Arguments.
Arguments Nat.sub : simpl never.

Local Notation typed := (@C14bThm.typed nat nat).

(* ================================================================== *)
(** * 1. the hypotheses *)
(* ================================================================== *)

(* literally the third and fourth conjuncts of C14_full *)
Definition clause3 : Prop :=
  forall f g h, poly_circuit f -> poly_circuit g -> ohg_compose VecBackend Nat.eqb f g = Ok (Some h) ->
    exists F G H FG, optic_map_arrow VecBackend Nat.eqb poly_strict_optic f = Ok F /\
      optic_map_arrow VecBackend Nat.eqb poly_strict_optic g = Ok G /\
      optic_map_arrow VecBackend Nat.eqb poly_strict_optic h = Ok H /\
      ohg_compose VecBackend Nat.eqb F G = Ok (Some FG) /\ Iso (abs H) (abs FG).

Definition clause4 : Prop :=
  forall f g h, poly_circuit f -> poly_circuit g -> ohg_tensor f g = Ok h ->
    exists F G H FG, optic_map_arrow VecBackend Nat.eqb poly_strict_optic f = Ok F /\
      optic_map_arrow VecBackend Nat.eqb poly_strict_optic g = Ok G /\
      optic_map_arrow VecBackend Nat.eqb poly_strict_optic h = Ok H /\
      ohg_tensor F G = Ok FG /\ Iso (abs H) (abs FG).

Definition respects_iso : Prop :=
  forall s s', poly_circuit s -> wf_ohg s' -> Iso (abs s) (abs s') ->
    exists F F', optic_map_arrow VecBackend Nat.eqb poly_strict_optic s = Ok F /\
                 optic_map_arrow VecBackend Nat.eqb poly_strict_optic s' = Ok F' /\ Iso (abs F) (abs F').

Lemma C14_full_clauses : C14_full -> clause3 /\ clause4.
Proof. intros (_ & _ & H3 & H4). exact (conj H3 H4). Qed.

(* the optic image of a circuit of the theory is well-formed (clauses 3, 4 and respects_iso speak about
   the plain model only, which does not see the array encoding) *)
Definition image_wf : Prop :=
  forall s H, poly_circuit s -> optic_map_arrow VecBackend Nat.eqb poly_strict_optic s = Ok H -> wf_ohg H.

(* ================================================================== *)
(** * 2. the statements *)
(* ================================================================== *)

(* the statement of the task, kept as a Prop: it is FALSE (section 6) *)
Definition C14_derivative_all_stmt : Prop :=
  clause3 -> clause4 -> respects_iso ->
  forall s n m f J, denotes s n m f J -> derivative_statement s n m f J.

(* inputs reduced modulo 2^64: for all integer vectors *)
Definition derivative_statement_wrapped (s : ohg nat nat) (n m : nat) (f : list Z -> list Z)
    (J : list Z -> list (list Z)) : Prop :=
  exists d, poly_adapted_strict s = Ok d /\ wf_ohg d /\
    forall x dy, List.length x = n -> List.length dy = m ->
      eval VecBackend 0%Z apply_sig d (map wrap x ++ map wrap dy)
      = Ok (Some (map wrap (f x ++ tmulv n (J x) dy))).

(* [derivative_statement] with the precondition of the Rust evaluator: the inputs are u64 values *)
Definition derivative_statement_u64 (s : ohg nat nat) (n m : nat) (f : list Z -> list Z)
    (J : list Z -> list (list Z)) : Prop :=
  exists d, poly_adapted_strict s = Ok d /\ wf_ohg d /\
    forall x dy, List.length x = n -> List.length dy = m -> Forall in64 x -> Forall in64 dy ->
      eval VecBackend 0%Z apply_sig d (x ++ dy) = Ok (Some (map wrap (f x ++ tmulv n (J x) dy))).

Lemma map_wrap_in64 x : Forall in64 x -> map wrap x = x.
Proof.
  induction 1 as [|z x Hz _ IH]; [reflexivity|]. cbn [map]. rewrite IH, (wrap_small Hz). reflexivity.
Qed.

Lemma wrapped_u64 s n m f J : derivative_statement_wrapped s n m f J -> derivative_statement_u64 s n m f J.
Proof.
  intros (d & Hd & Wd & Hev). exists d. split; [exact Hd|]. split; [exact Wd|].
  intros x dy Hx Hdy Fx Fdy. rewrite <- (Hev x dy Hx Hdy), (map_wrap_in64 Fx), (map_wrap_in64 Fdy). reflexivity.
Qed.

(* ================================================================== *)
(** * 3. dimensions of the denoted function and its Jacobian *)
(* ================================================================== *)

Lemma gen_dims g n m : poly_arity g = Some (n, m) -> FJdims n m (gen_sem g) (gen_jac g).
Proof.
  intros Ha x Hx.
  destruct g as [|g]; [cbn in Ha; injection Ha as <- <-;
    destruct x as [|x1 [|x2 [|x3 x]]]; try discriminate Hx; repeat split; repeat constructor|].
  destruct g as [|g]; [cbn in Ha; injection Ha as <- <-;
    destruct x as [|x1 [|x2 [|x3 x]]]; try discriminate Hx; repeat split; repeat constructor|].
  destruct g as [|g]; [cbn in Ha; injection Ha as <- <-;
    destruct x as [|x1 [|x2 x]]; try discriminate Hx; repeat split; repeat constructor|].
  destruct g as [|g]; [cbn in Ha; injection Ha as <- <-;
    destruct x as [|x1 [|x2 x]]; try discriminate Hx; repeat split; repeat constructor|].
  destruct g as [|g]; [cbn in Ha; injection Ha as <- <-;
    destruct x as [|x1 [|x2 x]]; try discriminate Hx; repeat split; repeat constructor|].
  do 5 (destruct g as [|g]; [discriminate Ha|]).
  cbn in Ha; injection Ha as <- <-. destruct x as [|x1 x]; try discriminate Hx. repeat split; repeat constructor.
Qed.

Theorem denotes_dims s n m f J : denotes s n m f J -> FJdims n m f J.
Proof.
  induction 1 as [g n m s Ha Hs | n s Hs | n m s Hs
                 | s1 s2 s n m p f g J1 J2 D1 IH1 D2 IH2 Hc
                 | s1 s2 s n1 m1 n2 m2 f1 f2 J1 J2 D1 IH1 D2 IH2 Ht
                 | s s' n m f J D IH W HI].
  - apply gen_dims. exact Ha.
  - intros x Hx. split; [exact Hx|]. split; [apply idmat_length|apply idmat_rows_len].
  - intros x Hx. unfold twist_f, twist_J. split; [|split].
    + rewrite app_length, skipn_length, firstn_length. lia.
    + rewrite app_length, skipn_length, firstn_length, idmat_length. lia.
    + apply Forall_app. split; [apply Forall_skipn|apply Forall_firstn]; apply idmat_rows_len.
  - intros x Hx. destruct (IH1 x Hx) as (L1 & L2 & R1). destruct (IH2 (f x) L1) as (L3 & L4 & R2).
    unfold seq_f, seq_J. split; [exact L3|]. split; [unfold mmul; rewrite map_length; exact L4|].
    apply rows_len_mmul. exact R1.
  - intros x Hx.
    assert (Hx1 : length (firstn n1 x) = n1) by (rewrite firstn_length; lia).
    assert (Hx2 : length (skipn n1 x) = n2) by (rewrite skipn_length; lia).
    destruct (IH1 _ Hx1) as (L1 & L2 & R1). destruct (IH2 _ Hx2) as (L3 & L4 & R2).
    unfold par_f, par_J. split; [rewrite app_length; lia|].
    split; [unfold blockdiag; rewrite app_length, !map_length; lia|].
    apply rows_len_blockdiag; assumption.
  - exact IH.
Qed.

(* ================================================================== *)
(** * 4. a denotable circuit is a circuit of the theory, of the stated arities *)
(* ================================================================== *)

Definition circ (s : ohg nat nat) (n m : nat) : Prop :=
  poly_circuit s /\ length (table (o_s s)) = n /\ length (table (o_t s)) = m.

Lemma pc_intro (s : ohg nat nat) : wf_ohg s ->
  (forall i w, nth_error (p_nodes (abs s)) i = Some w -> w = 0) ->
  (forall e, In e (p_edges (abs s)) -> poly_arity (pe_lbl e) = Some (length (pe_src e), length (pe_tgt e))) ->
  poly_circuit s.
Proof.
  intros W Hl He. split; [exact W|]. split.
  - apply Forall_forall. intros w Hw. apply In_nth_error in Hw. destruct Hw as (i & Hi). exact (Hl i w Hi).
  - apply Forall_forall. exact He.
Qed.

Lemma pc_lbl (s : ohg nat nat) : poly_circuit s -> forall i w, nth_error (p_nodes (abs s)) i = Some w -> w = 0.
Proof.
  intros (_ & Hl & _) i w Hw. rewrite Forall_forall in Hl. apply Hl. eapply nth_error_In. exact Hw.
Qed.

Lemma pc_edge (s : ohg nat nat) : poly_circuit s -> forall e, In e (p_edges (abs s)) ->
  poly_arity (pe_lbl e) = Some (length (pe_src e), length (pe_tgt e)).
Proof. intros (_ & _ & He). rewrite Forall_forall in He. exact He. Qed.

Lemma circ_typed s n m : circ s n m -> typed s (repeat 0 n) (repeat 0 m).
Proof.
  intros (P & Ls & Lt). pose proof (proj1 P) as W. pose proof (wf_abs_pwf W) as PW.
  split; [exact W|]. unfold src_type, tgt_type, type_of. split.
  - rewrite (@type_all0 _ _ (pc_lbl P) (pwf_ins PW)). cbn [abs p_ins]. rewrite Ls. reflexivity.
  - rewrite (@type_all0 _ _ (pc_lbl P) (pwf_outs PW)). cbn [abs p_outs]. rewrite Lt. reflexivity.
Qed.

Lemma circ_compose s1 s2 s n m p : circ s1 n m -> circ s2 m p ->
  ohg_compose VecBackend Nat.eqb s1 s2 = Ok (Some s) -> circ s n p.
Proof.
  intros C1 C2 Hc. pose proof (circ_typed C1) as (W1 & _ & T1). pose proof (circ_typed C2) as (W2 & S2 & _).
  destruct C1 as (P1 & L1 & _). destruct C2 as (P2 & _ & L2).
  destruct (C01_compose_is_gluing VecBackend_ok Nat.eqb Nat.eqb_eq W1 W2 (eq_trans T1 (eq_sym S2)))
    as (h & Hh & Wh & (q & HQ & HK)).
  assert (h = s) by congruence. subst h.
  split; [|split].
  - apply pc_intro; [exact Wh| |].
    + intros i w Hw. assert (Hi : i < length (p_nodes (abs s))) by (apply nth_error_Some; congruence).
      destruct (Q_surj HQ Hi) as (j & Hj & <-).
      pose proof HQ as (_ & _ & Hlab & _). rewrite Hlab in Hw
        by (cbn [pjoin p_nodes]; rewrite app_length; exact Hj).
      cbn [pjoin p_nodes] in Hw.
      destruct (Nat.lt_ge_cases j (length (p_nodes (abs s1)))) as [Hlt|Hge].
      * rewrite nth_error_app1 in Hw by exact Hlt. exact (pc_lbl P1 _ Hw).
      * rewrite nth_error_app2 in Hw by exact Hge. exact (pc_lbl P2 _ Hw).
    + intros e He. apply (In_edges_H HQ) in He. destruct He as [(e1 & He1 & ->)|(e2 & He2 & ->)].
      * cbn [map_edge pe_lbl pe_src pe_tgt]. rewrite !map_length. exact (pc_edge P1 _ He1).
      * cbn [map_edge shift_edge pe_lbl pe_src pe_tgt]. rewrite !map_length, !shiftl_length.
        exact (pc_edge P2 _ He2).
  - change (table (o_s s)) with (p_ins (abs s)). rewrite (Q_ins HQ), map_length. exact L1.
  - change (table (o_t s)) with (p_outs (abs s)). rewrite (Q_outs HQ), map_length, shiftl_length. exact L2.
Qed.

Lemma circ_tensor s1 s2 s n1 m1 n2 m2 : circ s1 n1 m1 -> circ s2 n2 m2 ->
  ohg_tensor s1 s2 = Ok s -> circ s (n1 + n2) (m1 + m2).
Proof.
  intros (P1 & L1 & L1') (P2 & L2 & L2') Ht.
  destruct (C02_tensor_is_juxtaposition (proj1 P1) (proj1 P2)) as (h & Hh & Wh & Ah).
  assert (h = s) by congruence. subst h.
  split; [|split].
  - apply pc_intro; [exact Wh| |]; rewrite Ah.
    + intros i w Hw. cbn [ptensor p_nodes] in Hw.
      destruct (Nat.lt_ge_cases i (length (p_nodes (abs s1)))) as [Hlt|Hge].
      * rewrite nth_error_app1 in Hw by exact Hlt. exact (pc_lbl P1 _ Hw).
      * rewrite nth_error_app2 in Hw by exact Hge. exact (pc_lbl P2 _ Hw).
    + intros e He. change (p_edges (ptensor (abs s1) (abs s2))) with (sum_edges (abs s1) (abs s2)) in He.
      apply In_sum_edges in He. destruct He as [He|(e2 & He & ->)].
      * exact (pc_edge P1 _ He).
      * cbn [shift_edge pe_lbl pe_src pe_tgt]. rewrite !shiftl_length. exact (pc_edge P2 _ He).
  - change (table (o_s s)) with (p_ins (abs s)). rewrite Ah. cbn [ptensor p_ins].
    rewrite app_length, shiftl_length. cbn [abs p_ins]. lia.
  - change (table (o_t s)) with (p_outs (abs s)). rewrite Ah. cbn [ptensor p_outs].
    rewrite app_length, shiftl_length. cbn [abs p_outs]. lia.
Qed.

Lemma circ_iso s s' n m : circ s n m -> wf_ohg s' -> Iso (abs s) (abs s') -> circ s' n m.
Proof.
  intros (P & L1 & L2) W' HI.
  pose proof (Iso_sym (wf_abs_pwf (proj1 P)) HI) as (Hn & Hm & pn & pe & Bn & Be & Hl & He & Hi & Ho).
  split; [|split].
  - apply pc_intro; [exact W'| |].
    + intros i w Hw. assert (Hlt : i < length (p_nodes (abs s'))) by (apply nth_error_Some; congruence).
      rewrite <- (Hl i Hlt) in Hw. exact (pc_lbl P _ Hw).
    + intros e Hin. apply In_nth_error in Hin. destruct Hin as (x & Hx).
      assert (Hlt : x < length (p_edges (abs s'))) by (apply nth_error_Some; congruence).
      pose proof (He x Hlt) as E. rewrite Hx in E. cbn [option_map] in E.
      apply nth_error_In in E. pose proof (pc_edge P _ E) as A.
      cbn [map_edge pe_lbl pe_src pe_tgt] in A. rewrite !map_length in A. exact A.
  - change (table (o_s s)) with (p_ins (abs s)) in L1. rewrite Hi, map_length in L1. exact L1.
  - change (table (o_t s)) with (p_outs (abs s)) in L2. rewrite Ho, map_length in L2. exact L2.
Qed.

Ltac gen_circ_case Ha Hs :=
  cbn in Ha; inversion Ha; subst; vm_compute in Hs; inversion Hs; subst;
  split; [split; [repeat split; try reflexivity; repeat constructor|split; repeat constructor]
         |split; reflexivity].

Lemma gen_circ g n m s : poly_arity g = Some (n, m) ->
  ohg_singleton g (repeat 0 n) (repeat 0 m) = Ok s -> circ s n m.
Proof.
  intros Ha Hs.
  destruct g as [|g]; [gen_circ_case Ha Hs|].
  destruct g as [|g]; [gen_circ_case Ha Hs|].
  destruct g as [|g]; [gen_circ_case Ha Hs|].
  destruct g as [|g]; [gen_circ_case Ha Hs|].
  destruct g as [|g]; [gen_circ_case Ha Hs|].
  do 5 (destruct g as [|g]; [discriminate Ha|]).
  gen_circ_case Ha Hs.
Qed.

Lemma discrete_circ (s : ohg nat nat) N : wf_ohg s -> h_x (o_h s) = [] -> h_w (o_h s) = repeat 0 N ->
  poly_circuit s.
Proof.
  intros W Hx Hw. apply pc_intro; [exact W| |].
  - intros i w Hi. cbn [abs p_nodes] in Hi. rewrite Hw in Hi. apply nth_error_In in Hi.
    apply repeat_spec in Hi. exact Hi.
  - intros e He. cbn [abs p_edges] in He. unfold abs_hg_edges in He. rewrite Hx in He. destruct He.
Qed.

Theorem denotes_circ s n m f J : denotes s n m f J -> circ s n m.
Proof.
  induction 1 as [g n m s Ha Hs | n s Hs | n m s Hs
                 | s1 s2 s n m p f g J1 J2 D1 IH1 D2 IH2 Hc
                 | s1 s2 s n1 m1 n2 m2 f1 f2 J1 J2 D1 IH1 D2 IH2 Ht
                 | s s' n m f J D IH W HI].
  - eapply gen_circ; eassumption.
  - rewrite ohg_identity_val in Hs. injection Hs as <-. rewrite repeat_length. split; [|split].
    + apply (@discrete_circ _ n); [|reflexivity|reflexivity].
      apply wf_spider_pure; rewrite repeat_length; apply all_lt_seq0.
    + cbn. apply seq_length.
    + cbn. apply seq_length.
  - rewrite ohg_twist_val in Hs. injection Hs as <-. split; [|split].
    + apply (@discrete_circ _ (m + n)); [apply C12Struct.wf_twist_pure|reflexivity|].
      cbn [C12Struct.twist_pure o_h hg_discrete h_w]. symmetry. apply repeat_app.
    + cbn [C12Struct.twist_pure o_s table]. rewrite app_length, !seq_length, !repeat_length. lia.
    + cbn [C12Struct.twist_pure o_t table]. rewrite seq_length, !repeat_length. lia.
  - exact (circ_compose IH1 IH2 Hc).
  - exact (circ_tensor IH1 IH2 Ht).
  - exact (circ_iso IH W HI).
Qed.

Corollary denotes_poly_circuit s n m f J : denotes s n m f J -> poly_circuit s.
Proof. intros D. exact (proj1 (denotes_circ D)). Qed.

(* ================================================================== *)
(** * 5. the invariant holds for the optic image of every denotable circuit *)
(* ================================================================== *)

Section Main.
  Hypothesis IW : image_wf.
  Hypothesis H3 : clause3.
  Hypothesis H4 : clause4.
  Hypothesis HR : respects_iso.

  Theorem denotes_OSem s n m f J : denotes s n m f J ->
    exists c, optic_image s = Ok c /\ wf_ohg c /\ OSem (abs c) n m f J.
  Proof.
    induction 1 as [g n m s Ha Hs | n s Hs | n m s Hs
                   | s1 s2 s n m p f g J1 J2 D1 IH1 D2 IH2 Hc
                   | s1 s2 s n1 m1 n2 m2 f1 f2 J1 J2 D1 IH1 D2 IH2 Ht
                   | s s' n m f J D IH W HI].
    - eapply gen_image; eassumption.
    - eapply id_image; eassumption.
    - eapply twist_image; eassumption.
    - destruct IH1 as (c1 & E1 & W1 & S1). destruct IH2 as (c2 & E2 & W2 & S2).
      pose proof (denotes_circ D1) as C1. pose proof (denotes_circ D2) as C2.
      destruct (H3 (proj1 C1) (proj1 C2) Hc) as (F & G & H & FG & EF & EG & EH & Hfg & HI).
      assert (F = c1) by congruence. assert (G = c2) by congruence. subst F G.
      pose proof (IW (proj1 (circ_compose C1 C2 Hc)) EH) as WH.
      exists H. split; [exact EH|]. split; [exact WH|].
      (* the composite of the images *)
      pose proof (c_typed W1 S1) as (_ & _ & T1). pose proof (c_typed W2 S2) as (_ & T2 & _).
      destruct (C01_compose_is_gluing VecBackend_ok Nat.eqb Nat.eqb_eq W1 W2 (eq_trans T1 (eq_sym T2)))
        as (h & Hh & Wh & (q & HQ & HK)).
      assert (h = FG) by congruence. subst h.
      pose proof (OSem_compose S1 S2 (denotes_dims D1) (denotes_dims D2) HQ HK) as SFG.
      apply (@OSem_pull (abs FG) (abs H)); [apply wf_abs_pwf; exact WH|exact HI|exact SFG].
    - destruct IH1 as (c1 & E1 & W1 & S1). destruct IH2 as (c2 & E2 & W2 & S2).
      pose proof (denotes_circ D1) as C1. pose proof (denotes_circ D2) as C2.
      destruct (H4 (proj1 C1) (proj1 C2) Ht) as (F & G & H & FG & EF & EG & EH & Hfg & HI).
      assert (F = c1) by congruence. assert (G = c2) by congruence. subst F G.
      pose proof (IW (proj1 (circ_tensor C1 C2 Ht)) EH) as WH.
      exists H. split; [exact EH|]. split; [exact WH|].
      destruct (C02_tensor_is_juxtaposition W1 W2) as (h & Hh & Wh & Ah).
      assert (h = FG) by congruence. subst h.
      pose proof (OSem_tensor S1 S2 (denotes_dims D1) (denotes_dims D2)) as SFG. rewrite <- Ah in SFG.
      apply (@OSem_pull (abs FG) (abs H)); [apply wf_abs_pwf; exact WH|exact HI|exact SFG].
    - destruct IH as (c & E & Wc & S).
      pose proof (denotes_circ D) as C.
      destruct (HR (proj1 C) W HI) as (F & F' & EF & EF' & HIF).
      assert (F = c) by congruence. subst F.
      pose proof (IW (proj1 (circ_iso C W HI)) EF') as WF'.
      exists F'. split; [exact EF'|]. split; [exact WF'|].
      apply (OSem_iso (wf_abs_pwf WF') HIF S).
  Qed.

  (* for ALL integer inputs, reduced modulo 2^64 on entry *)
  Theorem C14_derivative_all_wrapped_wf s n m f J :
    denotes s n m f J -> derivative_statement_wrapped s n m f J.
  Proof.
    intros D. destruct (denotes_OSem D) as (c & Ec & Wc & S).
    pose proof (circ_typed (denotes_circ D)) as Ts.
    destruct (OSem_adapt Wc S) as (d & Hd & Wd & Hev).
    exists d. split; [|split; [exact Wd|exact Hev]].
    unfold poly_adapted_strict. rewrite Ec. cbn [bind].
    rewrite (typed_source Ts), (typed_target Ts). cbn [bind]. exact Hd.
  Qed.

  Theorem C14_derivative_all_wf s n m f J :
    denotes s n m f J -> derivative_statement_u64 s n m f J.
  Proof. intros D. apply wrapped_u64. apply C14_derivative_all_wrapped_wf. exact D. Qed.
End Main.

Print Assumptions denotes_dims.
Print Assumptions denotes_circ.
Print Assumptions denotes_OSem.
Print Assumptions C14_derivative_all_wrapped_wf.
Print Assumptions C14_derivative_all_wf.
