(* C14e, part 1: the relational semantics of an (un-adapted) optic image on the plain model.

   The optic image c of a circuit s : n -> m of the polynomial theory has the boundary
     x1 x1' x2 x2' ...  ->  y1 y1' y2 y2' ...
   (forward wire, reverse wire, alternately).  [OSem g n m f J] packages what is carried through the
   induction over [denotes]:
     - g is well-formed, one object, both interface legs injective, of widths 2n and 2m;
     - every node is written exactly once, by a forward source wire, a reverse target wire or a
       hyperedge target ([os_cover]); the interpreter respects the co-arities;
     - a rank function on the hyperedges with a threshold K separating forward from reverse
       operations ([ranked2]);
     - for all integer vectors x, dy there is a consistent labelling ([cval]) of the nodes carrying
       wrap x on the forward sources, wrap dy on the reverse targets, wrap (f x) on the forward targets
       and wrap (J(x)^T dy) on the reverse sources.
   This file: list facts (evens/odds), the definition, closure under isomorphism (OSem_iso), tensor
   (OSem_tensor) and the discrete diagrams (OSem_discrete).  Composition is in C14eComp.v. *)
From OHG Require Import Spec.Plain Proofs.PrimsThm Proofs.C01Lemmas Proofs.QuotThm Proofs.C16Lemmas
  Proofs.EvalPlain Proofs.EvalFunctor Proofs.C14cPlain Proofs.C14Thm Run.Dispatch.
From Coq Require Import List Arith Lia Bool Permutation ZArith.
Import ListNotations.
Open Scope list_scope. Open Scope nat_scope.

Set Implicit Arguments.
Arguments Nat.sub : simpl never.

(* ================================================================== *)
(** * 1. every second entry of a list *)
(* ================================================================== *)

Fixpoint evens {X} (l : list X) : list X :=
  match l with
  | [] => []
  | x :: r => x :: match r with [] => [] | _ :: r' => evens r' end
  end.
Definition odds {X} (l : list X) : list X := match l with [] => [] | _ :: r => evens r end.

Lemma list_ind2 {X} (P : list X -> Prop) :
  P [] -> (forall x, P [x]) -> (forall x y l, P l -> P (x :: y :: l)) -> forall l, P l.
Proof.
  intros H0 H1 H2. fix IH 1. intros [|x [|y l]]; [exact H0|apply H1|apply H2, IH].
Qed.

Lemma evens_cons2 {X} (x y : X) l : evens (x :: y :: l) = x :: evens l.
Proof. reflexivity. Qed.

Lemma odds_cons2 {X} (x y : X) l : odds (x :: y :: l) = y :: odds l.
Proof. destruct l; reflexivity. Qed.

Lemma evens_map {X Y} (g : X -> Y) l : evens (map g l) = map g (evens l).
Proof.
  induction l as [| x | x y l IH] using list_ind2; try reflexivity.
  cbn [map]. rewrite !evens_cons2. cbn [map]. rewrite IH. reflexivity.
Qed.

Lemma odds_map {X Y} (g : X -> Y) l : odds (map g l) = map g (odds l).
Proof. destruct l as [|x l]; [reflexivity|]. cbn [map odds]. apply evens_map. Qed.

Lemma evens_odds_length {X} (l : list X) k : length l = 2 * k ->
  length (evens l) = k /\ length (odds l) = k.
Proof.
  revert k. induction l as [| x | x y l IH] using list_ind2; intros k H; cbn [length] in H.
  - split; cbn; lia.
  - lia.
  - destruct k as [|k]; [lia|]. destruct (IH k ltac:(lia)) as [E O].
    rewrite evens_cons2, odds_cons2. cbn [length]. lia.
Qed.

Lemma nth_evens {X} (d : X) l : forall i, nth i (evens l) d = nth (2 * i) l d.
Proof.
  induction l as [| x | x y l IH] using list_ind2; intros i.
  - destruct i; reflexivity.
  - destruct i as [|i]; [reflexivity|].
    replace (2 * S i) with (S (S (2 * i))) by lia. cbn [evens nth]. destruct i; reflexivity.
  - rewrite evens_cons2. destruct i as [|i]; [reflexivity|].
    replace (2 * S i) with (S (S (2 * i))) by lia. cbn [nth]. apply IH.
Qed.

Lemma nth_odds {X} (d : X) l : forall i, nth i (odds l) d = nth (2 * i + 1) l d.
Proof.
  intros i. destruct l as [|x l]; cbn [odds].
  - destruct i; destruct (2 * _ + 1); reflexivity.
  - rewrite nth_evens. replace (2 * i + 1) with (S (2 * i)) by lia. reflexivity.
Qed.

Lemma perm_evens_odds {X} (l : list X) : Permutation l (evens l ++ odds l).
Proof.
  induction l as [| x | x y l IH] using list_ind2.
  - constructor.
  - cbn. apply Permutation_refl.
  - rewrite evens_cons2, odds_cons2. cbn [List.app]. constructor.
    apply Permutation_cons_app. exact IH.
Qed.

Lemma In_evens {X} (v : X) l : In v (evens l) -> In v l.
Proof. intros H. apply (Permutation_in _ (Permutation_sym (perm_evens_odds l))). apply in_or_app. auto. Qed.

Lemma In_odds {X} (v : X) l : In v (odds l) -> In v l.
Proof. intros H. apply (Permutation_in _ (Permutation_sym (perm_evens_odds l))). apply in_or_app. auto. Qed.

Lemma In_evens_odds {X} (v : X) l : In v l -> In v (evens l) \/ In v (odds l).
Proof. intros H. apply in_app_or. apply (Permutation_in _ (perm_evens_odds l)). exact H. Qed.

Lemma NoDup_evens_odds {X} (l : list X) : NoDup l -> NoDup (evens l ++ odds l).
Proof. apply Permutation_NoDup. apply perm_evens_odds. Qed.

Lemma evens_app {X} (a b : list X) k : length a = 2 * k -> evens (a ++ b) = evens a ++ evens b.
Proof.
  revert k. induction a as [| x | x y a IH] using list_ind2; intros k H; cbn [length] in H.
  - reflexivity.
  - lia.
  - destruct k as [|k]; [lia|]. cbn [List.app]. rewrite !evens_cons2. cbn [List.app].
    rewrite (IH k) by lia. reflexivity.
Qed.

Lemma odds_app {X} (a b : list X) k : length a = 2 * k -> odds (a ++ b) = odds a ++ odds b.
Proof.
  revert k. induction a as [| x | x y a IH] using list_ind2; intros k H; cbn [length] in H.
  - reflexivity.
  - lia.
  - destruct k as [|k]; [lia|]. cbn [List.app]. rewrite !odds_cons2. cbn [List.app].
    rewrite (IH k) by lia. reflexivity.
Qed.

(* position k of a list of even length is position k/2 of its even or of its odd part *)
Lemma nth_parity (l : list nat) k m : length l = 2 * m -> k < length l ->
  (exists i, i < m /\ nth k l 0 = nth i (evens l) 0 /\ k = 2 * i) \/
  (exists i, i < m /\ nth k l 0 = nth i (odds l) 0 /\ k = 2 * i + 1).
Proof.
  intros Hl Hk. destruct (Nat.even k) eqn:E.
  - left. apply Nat.even_spec in E. destruct E as (i & ->). exists i. rewrite nth_evens.
    split; [lia|]. split; reflexivity.
  - right. assert (O : Nat.odd k = true) by (rewrite <- Nat.negb_even, E; reflexivity).
    apply Nat.odd_spec in O. destruct O as (i & ->). exists i. rewrite nth_odds.
    split; [lia|]. split; reflexivity.
Qed.

Lemma interleave2_evens_odds {X} (l : list X) k : length l = 2 * k -> interleave2 (evens l) (odds l) = l.
Proof.
  revert k. induction l as [| x | x y l IH] using list_ind2; intros k H; cbn [length] in H.
  - reflexivity.
  - lia.
  - destruct k as [|k]; [lia|]. rewrite evens_cons2, odds_cons2. unfold interleave2.
    cbn [combine flat_map fst snd List.app]. f_equal. f_equal. apply (IH k). lia.
Qed.

Lemma evens_interleave2 {X} (a : list X) : forall b, length a = length b -> evens (interleave2 a b) = a.
Proof.
  induction a as [|x a IH]; intros [|y b] H; cbn [length] in H; try discriminate; [reflexivity|].
  unfold interleave2. cbn [combine flat_map fst snd List.app]. rewrite evens_cons2. f_equal.
  apply IH. lia.
Qed.

Lemma odds_interleave2 {X} (a : list X) : forall b, length a = length b -> odds (interleave2 a b) = b.
Proof.
  induction a as [|x a IH]; intros [|y b] H; cbn [length] in H; try discriminate; [reflexivity|].
  unfold interleave2. cbn [combine flat_map fst snd List.app]. rewrite odds_cons2. f_equal.
  apply IH. lia.
Qed.

Lemma all_lt_evens n l : all_lt n l -> all_lt n (evens l).
Proof. unfold all_lt. rewrite !Forall_forall. intros H v Hv. apply H. apply In_evens. exact Hv. Qed.

Lemma all_lt_odds n l : all_lt n l -> all_lt n (odds l).
Proof. unfold all_lt. rewrite !Forall_forall. intros H v Hv. apply H. apply In_odds. exact Hv. Qed.

(* ================================================================== *)
(** * 2. the invariant *)
(* ================================================================== *)

Notation pg := (pohg nat nat).

(* forward / reverse wires of the two interfaces *)
Definition fi (g : pg) : list nat := evens (p_ins g).
Definition ri (g : pg) : list nat := odds (p_ins g).
Definition fo (g : pg) : list nat := evens (p_outs g).
Definition ro (g : pg) : list nat := odds (p_outs g).

(* the adapted diagram on the plain model: F A ● R B -> F B ● R A *)
Definition adaptP (g : pg) : pg := mkP (p_nodes g) (p_edges g) (fi g ++ ro g) (fo g ++ ri g).

(* a consistent labelling: every hyperedge computes its targets from its sources *)
Definition cval (g : pg) (mem : nat -> Z) : Prop :=
  forall e, In e (p_edges g) -> map mem (pe_tgt e) = interp (pe_lbl e) (map mem (pe_src e)).

(* the writers of the adapted diagram *)
Definition wr (g : pg) : list nat := fi g ++ ro g ++ p_tgts g.

(* a rank function on the hyperedges, all ranks below L, with a threshold K: whoever writes a forward
   target wire lies below K, whoever reads a reverse target wire at or above K *)
Definition ranked2 (g : pg) : Prop :=
  exists (lev : nat -> nat) (K L : nat), K <= L /\
    (forall x ex, nth_error (p_edges g) x = Some ex -> lev x < L) /\
    (forall x y ex ey v, nth_error (p_edges g) x = Some ex -> nth_error (p_edges g) y = Some ey ->
       In v (pe_tgt ex) -> In v (pe_src ey) -> lev x < lev y) /\
    (forall x ex v, nth_error (p_edges g) x = Some ex -> In v (pe_tgt ex) -> In v (fo g) -> lev x < K) /\
    (forall x ex v, nth_error (p_edges g) x = Some ex -> In v (pe_src ex) -> In v (ro g) -> K <= lev x).

Record OSem (g : pg) (n m : nat) (f : list Z -> list Z) (J : list Z -> list (list Z)) : Prop := {
  os_wf : pwf g;
  os_lbl : forall i w, nth_error (p_nodes g) i = Some w -> w = 0;
  os_li : length (p_ins g) = 2 * n;
  os_lo : length (p_outs g) = 2 * m;
  os_ni : NoDup (p_ins g);
  os_no : NoDup (p_outs g);
  os_cover : cover (length (p_nodes g)) (wr g);
  os_ar : p_arity interp g;
  os_rk : ranked2 g;
  os_sem : forall x dy, length x = n -> length dy = m ->
    exists mem, cval g mem /\ map mem (fi g) = map wrap x /\ map mem (ro g) = map wrap dy /\
      map mem (fo g) = map wrap (f x) /\ map mem (ri g) = map wrap (tmulv n (J x) dy)
}.

(* the dimensions of a function with its Jacobian *)
Definition FJdims (n m : nat) (f : list Z -> list Z) (J : list Z -> list (list Z)) : Prop :=
  forall x, length x = n -> length (f x) = m /\ length (J x) = m /\ rows_len n (J x).

(* ---------- consequences ---------- *)
Section Facts.
  Variables (g : pg) (n m : nat) (f : list Z -> list Z) (J : list Z -> list (list Z)).
  Hypothesis S : OSem g n m f J.

  Lemma os_len_fi : length (fi g) = n.
  Proof. apply (evens_odds_length (p_ins g)). apply (os_li S). Qed.
  Lemma os_len_ri : length (ri g) = n.
  Proof. apply (evens_odds_length (p_ins g)). apply (os_li S). Qed.
  Lemma os_len_fo : length (fo g) = m.
  Proof. apply (evens_odds_length (p_outs g)). apply (os_lo S). Qed.
  Lemma os_len_ro : length (ro g) = m.
  Proof. apply (evens_odds_length (p_outs g)). apply (os_lo S). Qed.

  Lemma os_fi_ro v : In v (fi g) -> In v (ro g) -> False.
  Proof.
    intros H1 H2. destruct (os_cover S) as (Hnd & _). unfold wr in Hnd.
    apply NoDup_app_iff in Hnd. destruct Hnd as (_ & _ & Hd). apply (Hd v H1).
    apply in_or_app. auto.
  Qed.

  Lemma os_fi_tgt v : In v (fi g) -> In v (p_tgts g) -> False.
  Proof.
    intros H1 H2. destruct (os_cover S) as (Hnd & _). unfold wr in Hnd.
    apply NoDup_app_iff in Hnd. destruct Hnd as (_ & _ & Hd). apply (Hd v H1).
    apply in_or_app. auto.
  Qed.

  Lemma os_ro_tgt v : In v (ro g) -> In v (p_tgts g) -> False.
  Proof.
    intros H1 H2. destruct (os_cover S) as (Hnd & _). unfold wr in Hnd.
    apply NoDup_app_iff in Hnd. destruct Hnd as (_ & Hnd & _).
    apply NoDup_app_iff in Hnd. destruct Hnd as (_ & _ & Hd). exact (Hd v H1 H2).
  Qed.

  Lemma os_fi_ri v : In v (fi g) -> In v (ri g) -> False.
  Proof.
    intros H1 H2. pose proof (NoDup_evens_odds (os_ni S)) as Hnd.
    apply NoDup_app_iff in Hnd. destruct Hnd as (_ & _ & Hd). exact (Hd v H1 H2).
  Qed.

  Lemma os_fo_ro v : In v (fo g) -> In v (ro g) -> False.
  Proof.
    intros H1 H2. pose proof (NoDup_evens_odds (os_no S)) as Hnd.
    apply NoDup_app_iff in Hnd. destruct Hnd as (_ & _ & Hd). exact (Hd v H1 H2).
  Qed.

  Lemma os_nd_fi : NoDup (fi g).
  Proof. destruct (os_cover S) as (Hnd & _). unfold wr in Hnd. apply NoDup_app_iff in Hnd. tauto. Qed.

  Lemma os_nd_ro : NoDup (ro g).
  Proof.
    destruct (os_cover S) as (Hnd & _). unfold wr in Hnd. apply NoDup_app_iff in Hnd.
    destruct Hnd as (_ & Hnd & _). apply NoDup_app_iff in Hnd. tauto.
  Qed.

  Lemma os_tgt_edge x ex v : nth_error (p_edges g) x = Some ex -> In v (pe_tgt ex) -> In v (p_tgts g).
  Proof. intros Hx Hv. apply In_p_tgts. exists ex. split; [eapply nth_error_In; eauto|exact Hv]. Qed.

  Lemma os_wr_cases v : v < length (p_nodes g) -> In v (fi g) \/ In v (ro g) \/ In v (p_tgts g).
  Proof.
    intros Hv. destruct (os_cover S) as (_ & Hc). apply Hc in Hv. unfold wr in Hv.
    apply in_app_or in Hv. destruct Hv as [Hv|Hv]; [auto|].
    apply in_app_or in Hv. tauto.
  Qed.
End Facts.

(* ================================================================== *)
(** * 3. closure under isomorphism *)
(* ================================================================== *)

Lemma tgts_flat (g : pg) : p_tgts g = flat_map (@pe_tgt nat) (p_edges g).
Proof. unfold p_tgts. symmetry. apply flat_map_concat_map. Qed.

Lemma flat_map_tgt_map_edge (pn : nat -> nat) (E : list (pedge nat)) :
  flat_map (@pe_tgt nat) (map (map_edge pn) E) = map pn (flat_map (@pe_tgt nat) E).
Proof.
  induction E as [|e E IH]; [reflexivity|]. cbn [map flat_map map_edge pe_tgt]. rewrite map_app, IH. reflexivity.
Qed.

(* pulling the invariant back along an isomorphism g' -> g *)
Lemma OSem_pull (g g' : pg) n m f J : pwf g' -> Iso g' g -> OSem g n m f J -> OSem g' n m f J.
Proof.
  intros W' (Hn & Hm & pn & pe & Bn & Be & Hl & He & Hi & Ho) S.
  pose proof W' as (We' & Wi' & Wo').
  assert (Hedge : forall x ex, nth_error (p_edges g') x = Some ex ->
            nth_error (p_edges g) (pe x) = Some (map_edge pn ex)).
  { intros x ex Hx. rewrite He by (apply nth_error_Some; congruence). rewrite Hx. reflexivity. }
  assert (Hin : forall e, In e (p_edges g') -> In (map_edge pn e) (p_edges g)).
  { intros e Hin. apply In_nth_error in Hin. destruct Hin as (x & Hx).
    eapply nth_error_In. apply Hedge. exact Hx. }
  assert (HP : Permutation (map (map_edge pn) (p_edges g')) (p_edges g)).
  { apply perm_of_bij with pe; rewrite ?map_length; auto.
    intros e Hlt. rewrite He by exact Hlt. symmetry. apply nth_error_map. }
  assert (Efi : fi g = map pn (fi g')) by (unfold fi; rewrite Hi; apply evens_map).
  assert (Eri : ri g = map pn (ri g')) by (unfold ri; rewrite Hi; apply odds_map).
  assert (Efo : fo g = map pn (fo g')) by (unfold fo; rewrite Ho; apply evens_map).
  assert (Ero : ro g = map pn (ro g')) by (unfold ro; rewrite Ho; apply odds_map).
  assert (HPw : Permutation (map pn (wr g')) (wr g)).
  { unfold wr. rewrite !map_app, <- Efi, <- Ero. apply Permutation_app_head. apply Permutation_app_head.
    rewrite !tgts_flat, <- flat_map_tgt_map_edge. apply Permutation_flat_map. exact HP. }
  assert (Lw : forall v, In v (wr g') -> v < length (p_nodes g')).
  { intros v Hv. unfold wr in Hv. apply in_app_or in Hv. destruct Hv as [Hv|Hv].
    - eapply all_lt_in; [exact Wi'|]. apply In_evens. exact Hv.
    - apply in_app_or in Hv. destruct Hv as [Hv|Hv].
      + eapply all_lt_in; [exact Wo'|]. apply In_odds. exact Hv.
      + apply p_tgts_lt; assumption. }
  destruct (os_cover S) as (Cnd & Cin).
  constructor.
  - exact W'.
  - intros i w Hw. assert (Hlt : i < length (p_nodes g')) by (apply nth_error_Some; congruence).
    rewrite <- (Hl i Hlt) in Hw. exact (os_lbl S _ Hw).
  - rewrite <- (os_li S), Hi, map_length. reflexivity.
  - rewrite <- (os_lo S), Ho, map_length. reflexivity.
  - pose proof (os_ni S) as H. rewrite Hi in H. exact (NoDup_map_inv _ _ H).
  - pose proof (os_no S) as H. rewrite Ho in H. exact (NoDup_map_inv _ _ H).
  - split.
    + apply (NoDup_map_inv pn). apply (Permutation_NoDup (Permutation_sym HPw)). exact Cnd.
    + intros v. split; [apply Lw|]. intros Hv.
      assert (Hpv : In (pn v) (wr g)) by (apply Cin; rewrite <- Hn; apply Bn; exact Hv).
      apply (Permutation_in _ (Permutation_sym HPw)) in Hpv. apply in_map_iff in Hpv.
      destruct Hpv as (u & Eu & Hu). assert (u = v) by (apply Bn; auto). subst u. exact Hu.
  - intros e vals Hin' Hlen. pose proof (os_ar S (map_edge pn e) vals (Hin e Hin')) as H.
    cbn [map_edge pe_lbl pe_src pe_tgt] in H. rewrite !map_length in H. auto.
  - destruct (os_rk S) as (lev & K & L & HKL & R0 & R1 & R2 & R3).
    exists (fun x => lev (pe x)), K, L. split; [exact HKL|]. split; [|split; [|split]].
    + intros x ex Hx. eapply R0. apply Hedge. exact Hx.
    + intros x y ex ey v Hx Hy Ht Hs.
      apply (R1 (pe x) (pe y) _ _ (pn v) (Hedge _ _ Hx) (Hedge _ _ Hy)); cbn [map_edge pe_src pe_tgt];
        apply in_map; assumption.
    + intros x ex v Hx Ht Hv. apply (R2 (pe x) _ (pn v) (Hedge _ _ Hx)).
      * cbn [map_edge pe_tgt]. apply in_map. exact Ht.
      * rewrite Efo. apply in_map. exact Hv.
    + intros x ex v Hx Hs Hv. apply (R3 (pe x) _ (pn v) (Hedge _ _ Hx)).
      * cbn [map_edge pe_src]. apply in_map. exact Hs.
      * rewrite Ero. apply in_map. exact Hv.
  - intros x dy Hx Hdy. destruct (os_sem S x dy Hx Hdy) as (mem & Vc & V1 & V2 & V3 & V4).
    exists (fun v => mem (pn v)). split; [|split; [|split; [|split]]].
    + intros e Hin'. pose proof (Vc _ (Hin e Hin')) as H.
      cbn [map_edge pe_lbl pe_src pe_tgt] in H. rewrite !map_map in H. exact H.
    + rewrite <- V1, Efi, map_map. reflexivity.
    + rewrite <- V2, Ero, map_map. reflexivity.
    + rewrite <- V3, Efo, map_map. reflexivity.
    + rewrite <- V4, Eri, map_map. reflexivity.
Qed.

Theorem OSem_iso (g g' : pg) n m f J : pwf g' -> Iso g g' -> OSem g n m f J -> OSem g' n m f J.
Proof.
  intros W' HI S. apply (@OSem_pull g g'); [exact W'| |exact S]. apply Iso_sym; [exact (os_wf S)|exact HI].
Qed.

(* ================================================================== *)
(** * 4. the rank function of a sum: forward F, then all of G, then reverse F *)
(* ================================================================== *)

Definition lev2 (levF levG : nat -> nat) (KF LG eF : nat) (x : nat) : nat :=
  if x <? eF then (if levF x <? KF then levF x else levF x + LG) else KF + levG (x - eF).

Lemma lev2_F_lo levF levG KF LG eF x : x < eF -> levF x < KF -> lev2 levF levG KF LG eF x = levF x.
Proof. intros H1 H2. unfold lev2. apply Nat.ltb_lt in H1, H2. rewrite H1, H2. reflexivity. Qed.

Lemma lev2_F_hi levF levG KF LG eF x : x < eF -> KF <= levF x -> lev2 levF levG KF LG eF x = levF x + LG.
Proof. intros H1 H2. unfold lev2. apply Nat.ltb_lt in H1. apply Nat.ltb_ge in H2. rewrite H1, H2. reflexivity. Qed.

Lemma lev2_G levF levG KF LG eF x : eF <= x -> lev2 levF levG KF LG eF x = KF + levG (x - eF).
Proof. intros H1. unfold lev2. apply Nat.ltb_ge in H1. rewrite H1. reflexivity. Qed.

Lemma lev2_F_mono levF levG KF LG eF x y : x < eF -> y < eF -> levF x < levF y ->
  lev2 levF levG KF LG eF x < lev2 levF levG KF LG eF y.
Proof.
  intros Hx Hy H. destruct (Nat.lt_ge_cases (levF x) KF) as [A|A]; destruct (Nat.lt_ge_cases (levF y) KF) as [C|C];
    rewrite ?(lev2_F_lo levF levG LG Hx A), ?(lev2_F_hi levF levG LG Hx A),
            ?(lev2_F_lo levF levG LG Hy C), ?(lev2_F_hi levF levG LG Hy C); lia.
Qed.

Lemma lev2_F_bound levF levG KF LG eF LF x : x < eF -> levF x < LF -> KF <= LF ->
  lev2 levF levG KF LG eF x < LF + LG.
Proof.
  intros Hx H HK. destruct (Nat.lt_ge_cases (levF x) KF) as [A|A];
    rewrite ?(lev2_F_lo levF levG LG Hx A), ?(lev2_F_hi levF levG LG Hx A); lia.
Qed.

(* ================================================================== *)
(** * 5. closure under tensor *)
(* ================================================================== *)

Lemma perm_interleave3 (a1 a2 b1 b2 c1 c2 : list nat) :
  Permutation ((a1 ++ a2) ++ (b1 ++ b2) ++ (c1 ++ c2)) ((a1 ++ b1 ++ c1) ++ (a2 ++ b2 ++ c2)).
Proof.
  eapply Permutation_trans.
  - apply Permutation_app_head. apply perm_interleave.
  - apply perm_interleave.
Qed.

Section Tensor.
  Variables (F G : pg) (n1 m1 n2 m2 : nat).
  Variables (f1 f2 : list Z -> list Z) (J1 J2 : list Z -> list (list Z)).
  Hypothesis SF : OSem F n1 m1 f1 J1.
  Hypothesis SG : OSem G n2 m2 f2 J2.
  Hypothesis DF : FJdims n1 m1 f1 J1.
  Hypothesis DG : FJdims n2 m2 f2 J2.

  Local Notation nF := (length (p_nodes F)).
  Local Notation TT := (ptensor F G).

  Lemma fi_T : fi TT = fi F ++ shiftl nF (fi G).
  Proof.
    unfold fi. cbn [ptensor p_ins]. rewrite (evens_app _ _ _ (os_li SF)). unfold shiftl.
    rewrite evens_map. reflexivity.
  Qed.
  Lemma ri_T : ri TT = ri F ++ shiftl nF (ri G).
  Proof.
    unfold ri. cbn [ptensor p_ins]. rewrite (odds_app _ _ _ (os_li SF)). unfold shiftl.
    rewrite odds_map. reflexivity.
  Qed.
  Lemma fo_T : fo TT = fo F ++ shiftl nF (fo G).
  Proof.
    unfold fo. cbn [ptensor p_outs]. rewrite (evens_app _ _ _ (os_lo SF)). unfold shiftl.
    rewrite evens_map. reflexivity.
  Qed.
  Lemma ro_T : ro TT = ro F ++ shiftl nF (ro G).
  Proof.
    unfold ro. cbn [ptensor p_outs]. rewrite (odds_app _ _ _ (os_lo SF)). unfold shiftl.
    rewrite odds_map. reflexivity.
  Qed.

  Lemma lt_fi_F v : In v (fi F) -> v < nF.
  Proof. intros H. eapply all_lt_in; [exact (pwf_ins (os_wf SF))|]. apply In_evens. exact H. Qed.
  Lemma lt_ri_F v : In v (ri F) -> v < nF.
  Proof. intros H. eapply all_lt_in; [exact (pwf_ins (os_wf SF))|]. apply In_odds. exact H. Qed.
  Lemma lt_fo_F v : In v (fo F) -> v < nF.
  Proof. intros H. eapply all_lt_in; [exact (pwf_outs (os_wf SF))|]. apply In_evens. exact H. Qed.
  Lemma lt_ro_F v : In v (ro F) -> v < nF.
  Proof. intros H. eapply all_lt_in; [exact (pwf_outs (os_wf SF))|]. apply In_odds. exact H. Qed.

  Lemma wf_T : pwf TT.
  Proof.
    pose proof (os_wf SF) as (E1 & I1 & O1). pose proof (os_wf SG) as (E2 & I2 & O2).
    unfold pwf. cbn [ptensor p_nodes p_edges p_ins p_outs]. rewrite app_length.
    split; [|split].
    - intros e He. apply in_app_or in He. destruct He as [He|He].
      + destruct (E1 e He) as (A & C). split; eapply C01Lemmas.all_lt_mono; try eassumption; lia.
      + apply in_map_iff in He. destruct He as (e2 & <- & He2). destruct (E2 e2 He2) as (A & C).
        cbn [shift_edge pe_src pe_tgt]. split; apply C01Lemmas.all_lt_shiftl; assumption.
    - apply C01Lemmas.all_lt_app. eapply C01Lemmas.all_lt_mono; [|exact I1]; lia.
      apply C01Lemmas.all_lt_shiftl. exact I2.
    - apply C01Lemmas.all_lt_app. eapply C01Lemmas.all_lt_mono; [|exact O1]; lia.
      apply C01Lemmas.all_lt_shiftl. exact O2.
  Qed.

  Lemma NoDup_sum (a b : list nat) : all_lt nF a -> NoDup a -> NoDup b -> NoDup (a ++ shiftl nF b).
  Proof.
    intros La Na Nb. apply NoDup_app_iff. split; [exact Na|]. split; [apply NoDup_shiftl; exact Nb|].
    intros v Hv Hs. apply In_shiftl in Hs. pose proof (all_lt_in v La Hv). lia.
  Qed.

  Theorem OSem_tensor : OSem TT (n1 + n2) (m1 + m2) (par_f n1 f1 f2) (par_J n1 n2 J1 J2).
  Proof.
    pose proof (os_wf SF) as WF. pose proof (os_wf SG) as WG.
    constructor.
    - exact wf_T.
    - intros i w Hw. cbn [ptensor p_nodes] in Hw.
      destruct (Nat.lt_ge_cases i nF) as [Hlt|Hge].
      + rewrite nth_error_app1 in Hw by exact Hlt. exact (os_lbl SF _ Hw).
      + rewrite nth_error_app2 in Hw by exact Hge. exact (os_lbl SG _ Hw).
    - cbn [ptensor p_ins]. rewrite app_length, shiftl_length, (os_li SF), (os_li SG). lia.
    - cbn [ptensor p_outs]. rewrite app_length, shiftl_length, (os_lo SF), (os_lo SG). lia.
    - cbn [ptensor p_ins]. apply NoDup_sum; [exact (pwf_ins WF)|exact (os_ni SF)|exact (os_ni SG)].
    - cbn [ptensor p_outs]. apply NoDup_sum; [exact (pwf_outs WF)|exact (os_no SF)|exact (os_no SG)].
    - unfold wr. rewrite fi_T, ro_T, (@p_tgts_sum nat nat F G TT eq_refl).
      cbn [ptensor p_nodes]. rewrite app_length.
      apply (@cover_perm _ (wr F ++ shiftl nF (wr G))).
      + unfold wr. rewrite !shiftl_app. apply Permutation_sym. apply perm_interleave3.
      + apply cover_sum; [exact (os_cover SF)|exact (os_cover SG)].
    - apply (@arity_sum nat nat Z interp F G TT eq_refl); [exact (os_ar SF)|exact (os_ar SG)].
    - destruct (os_rk SF) as (levF & KF & LF & HKF & F0 & F1 & F2 & F3).
      destruct (os_rk SG) as (levG & KG & LG & HKG & G0 & G1 & G2 & G3).
      set (eF := length (p_edges F)).
      exists (lev2 levF levG KF LG eF), (KF + KG), (LF + LG). split; [lia|].
      assert (Hsplit : forall x ex, nth_error (p_edges TT) x = Some ex ->
                (x < eF /\ nth_error (p_edges F) x = Some ex) \/
                (eF <= x /\ exists e2, nth_error (p_edges G) (x - eF) = Some e2 /\ ex = shift_edge nF e2)).
      { intros x ex Hx. cbn [ptensor p_edges] in Hx. apply nth_error_app_shift in Hx. exact Hx. }
      split; [|split; [|split]].
      + intros x ex Hx. destruct (Hsplit _ _ Hx) as [(Hlt & Ex)|(Hge & e2 & Ex & ->)].
        * apply lev2_F_bound; [exact Hlt|eapply F0; eauto|exact HKF].
        * rewrite lev2_G by exact Hge. pose proof (G0 _ _ Ex). lia.
      + intros x y ex ey v Hx Hy Ht Hs.
        destruct (Hsplit _ _ Hx) as [(Hltx & Ex)|(Hgex & e1 & Ex & ->)];
          destruct (Hsplit _ _ Hy) as [(Hlty & Ey)|(Hgey & e2 & Ey & ->)].
        * apply lev2_F_mono; try assumption. eapply F1; eauto.
        * exfalso. cbn [shift_edge pe_src] in Hs. apply In_shiftl in Hs.
          pose proof (all_lt_in v (pwf_tgt ex WF (nth_error_In _ _ Ex)) Ht). lia.
        * exfalso. cbn [shift_edge pe_tgt] in Ht. apply In_shiftl in Ht.
          pose proof (all_lt_in v (pwf_src ey WF (nth_error_In _ _ Ey)) Hs). lia.
        * rewrite !lev2_G by assumption. cbn [shift_edge pe_src pe_tgt] in Ht, Hs.
          apply In_shiftl in Ht. apply In_shiftl in Hs.
          assert (levG (x - eF) < levG (y - eF)) by (exact (G1 _ _ _ _ _ Ex Ey (proj2 Ht) (proj2 Hs))). lia.
      + intros x ex v Hx Ht Hv. rewrite fo_T in Hv.
        destruct (Hsplit _ _ Hx) as [(Hlt & Ex)|(Hge & e2 & Ex & ->)].
        * pose proof (all_lt_in v (pwf_tgt ex WF (nth_error_In _ _ Ex)) Ht) as Lv.
          apply in_app_or in Hv. destruct Hv as [Hv|Hv]; [|apply In_shiftl in Hv; lia].
          pose proof (F2 _ _ _ Ex Ht Hv) as A. rewrite lev2_F_lo by assumption. lia.
        * cbn [shift_edge pe_tgt] in Ht. apply In_shiftl in Ht. destruct Ht as (Hge' & Ht).
          apply in_app_or in Hv. destruct Hv as [Hv|Hv]; [apply lt_fo_F in Hv; lia|].
          apply In_shiftl in Hv. pose proof (G2 _ _ _ Ex Ht (proj2 Hv)) as A.
          rewrite lev2_G by exact Hge. lia.
      + intros x ex v Hx Hs Hv. rewrite ro_T in Hv.
        destruct (Hsplit _ _ Hx) as [(Hlt & Ex)|(Hge & e2 & Ex & ->)].
        * pose proof (all_lt_in v (pwf_src ex WF (nth_error_In _ _ Ex)) Hs) as Lv.
          apply in_app_or in Hv. destruct Hv as [Hv|Hv]; [|apply In_shiftl in Hv; lia].
          pose proof (F3 _ _ _ Ex Hs Hv) as A. rewrite lev2_F_hi by assumption. lia.
        * cbn [shift_edge pe_src] in Hs. apply In_shiftl in Hs. destruct Hs as (Hge' & Hs).
          apply in_app_or in Hv. destruct Hv as [Hv|Hv]; [apply lt_ro_F in Hv; lia|].
          apply In_shiftl in Hv. pose proof (G3 _ _ _ Ex Hs (proj2 Hv)) as A.
          rewrite lev2_G by exact Hge. lia.
    - intros x dy Hx Hdy.
      set (x1 := firstn n1 x). set (x2 := skipn n1 x).
      set (dy1 := firstn m1 dy). set (dy2 := skipn m1 dy).
      assert (Lx1 : length x1 = n1) by (unfold x1; rewrite firstn_length; lia).
      assert (Lx2 : length x2 = n2) by (unfold x2; rewrite skipn_length; lia).
      assert (Ly1 : length dy1 = m1) by (unfold dy1; rewrite firstn_length; lia).
      assert (Ly2 : length dy2 = m2) by (unfold dy2; rewrite skipn_length; lia).
      destruct (os_sem SF x1 dy1 Lx1 Ly1) as (mF & CF & A1 & A2 & A3 & A4).
      destruct (os_sem SG x2 dy2 Lx2 Ly2) as (mG & CG & B1 & B2 & B3 & B4).
      destruct (DF x1 Lx1) as (_ & LJ1 & RJ1). destruct (DG x2 Lx2) as (_ & LJ2 & RJ2).
      exists (msum nF mF mG).
      assert (Hmap : forall a b, all_lt nF a ->
                map (msum nF mF mG) (a ++ shiftl nF b) = map mF a ++ map mG b).
      { intros a b La. rewrite map_app, map_msum_l by exact La. rewrite map_msum_r. reflexivity. }
      split; [|split; [|split; [|split]]].
      + intros e He. change (p_edges TT) with (sum_edges F G) in He. apply In_sum_edges in He.
        destruct He as [He|(e2 & He & ->)].
        * rewrite !map_msum_l; [apply CF; exact He|apply (pwf_src e WF He)|apply (pwf_tgt e WF He)].
        * cbn [shift_edge pe_lbl pe_src pe_tgt]. rewrite !map_msum_r. apply CG. exact He.
      + rewrite fi_T, Hmap by (apply all_lt_evens; exact (pwf_ins WF)).
        rewrite A1, B1, <- map_app. unfold x1, x2. rewrite firstn_skipn. reflexivity.
      + rewrite ro_T, Hmap by (apply all_lt_odds; exact (pwf_outs WF)).
        rewrite A2, B2, <- map_app. unfold dy1, dy2. rewrite firstn_skipn. reflexivity.
      + rewrite fo_T, Hmap by (apply all_lt_evens; exact (pwf_outs WF)).
        rewrite A3, B3, <- map_app. reflexivity.
      + rewrite ri_T, Hmap by (apply all_lt_odds; exact (pwf_ins WF)).
        rewrite A4, B4, <- map_app. unfold par_J. fold x1 x2.
        assert (Edy : dy = dy1 ++ dy2) by (unfold dy1, dy2; symmetry; apply firstn_skipn).
        rewrite Edy.
        rewrite tmulv_blockdiag; [reflexivity|exact RJ1|exact RJ2|lia].
  Qed.
End Tensor.

(* ================================================================== *)
(** * 6. diagrams without hyperedges: identities and symmetries *)
(* ================================================================== *)

(* every wire i of a one-object boundary becomes the pair of nodes 2i (forward), 2i+1 (reverse) *)
Definition dbl (l : list nat) : list nat := flat_map (fun i => [2 * i; 2 * i + 1]) l.

Lemma evens_dbl l : evens (dbl l) = map (fun i => 2 * i) l.
Proof. induction l as [|i l IH]; [reflexivity|]. cbn [dbl flat_map List.app map]. rewrite evens_cons2. f_equal. exact IH. Qed.

Lemma odds_dbl l : odds (dbl l) = map (fun i => 2 * i + 1) l.
Proof. induction l as [|i l IH]; [reflexivity|]. cbn [dbl flat_map List.app map]. rewrite odds_cons2. f_equal. exact IH. Qed.

Lemma dbl_length l : length (dbl l) = 2 * length l.
Proof. induction l as [|i l IH]; [reflexivity|]. cbn [dbl flat_map List.app length]. fold (dbl l). lia. Qed.

Lemma In_dbl v l : In v (dbl l) <-> exists i, In i l /\ (v = 2 * i \/ v = 2 * i + 1).
Proof.
  unfold dbl. rewrite in_flat_map. split.
  - intros (i & Hi & [E|[E|[]]]); exists i; split; auto.
  - intros (i & Hi & [E|E]); exists i; split; auto; cbn; auto.
Qed.

Lemma NoDup_dbl l : NoDup l -> NoDup (dbl l).
Proof.
  induction l as [|i l IH]; intros H; [constructor|].
  inversion H as [|i' l' Hni Hnd]; subst. cbn [dbl flat_map List.app]. fold (dbl l).
  constructor; [|constructor; [|apply IH; exact Hnd]].
  - intros [E|Hin]; [lia|]. apply In_dbl in Hin. destruct Hin as (j & Hj & [E|E]); [|lia].
    assert (j = i) by lia. subst j. contradiction.
  - intros Hin. apply In_dbl in Hin. destruct Hin as (j & Hj & [E|E]); [lia|].
    assert (j = i) by lia. subst j. contradiction.
Qed.

Definition wire_val (xv dv : list Z) (v : nat) : Z :=
  if Nat.even v then wrap (nth (Nat.div2 v) xv 0%Z) else wrap (nth (Nat.div2 v) dv 0%Z).

Lemma wire_val_even xv dv i : wire_val xv dv (2 * i) = wrap (nth i xv 0%Z).
Proof.
  unfold wire_val. rewrite Nat.even_mul. cbn [Nat.even orb]. rewrite Nat.div2_double. reflexivity.
Qed.

Lemma wire_val_odd xv dv i : wire_val xv dv (2 * i + 1) = wrap (nth i dv 0%Z).
Proof.
  unfold wire_val. replace (2 * i + 1) with (S (2 * i)) by lia.
  rewrite Nat.even_succ, <- Nat.negb_even, Nat.even_mul. cbn [Nat.even orb negb].
  rewrite Nat.div2_succ_double. reflexivity.
Qed.

Theorem OSem_discrete N ls lt f J :
  Permutation ls (seq 0 N) -> Permutation lt (seq 0 N) ->
  (forall x, length x = N -> exists xv,
     map (fun i => nth i xv 0%Z) ls = x /\ map (fun i => nth i xv 0%Z) lt = f x) ->
  (forall x dy, length x = N -> length dy = N -> exists dv,
     map (fun i => nth i dv 0%Z) lt = dy /\ map (fun i => nth i dv 0%Z) ls = tmulv N (J x) dy) ->
  OSem (mkP (repeat 0 (2 * N)) [] (dbl ls) (dbl lt)) N N f J.
Proof.
  intros Ps Pt Hf HJ.
  destruct (@perm_seq_facts _ _ Ps) as (Ns & Ls & _ & Lens).
  destruct (@perm_seq_facts _ _ Pt) as (Nt & Lt & _ & Lent).
  assert (Hlt : forall l, all_lt N l -> all_lt (length (repeat 0 (2 * N))) (dbl l)).
  { intros l Hl. rewrite repeat_length. apply Forall_forall. intros v Hv. apply In_dbl in Hv.
    destruct Hv as (i & Hi & E). pose proof (all_lt_in i Hl Hi). lia. }
  constructor; cbn [p_nodes p_edges p_ins p_outs].
  - split; [intros e []|]. cbn [p_nodes p_ins p_outs]. split; apply Hlt; assumption.
  - intros i w Hw. apply nth_error_In in Hw. apply repeat_spec in Hw. exact Hw.
  - rewrite dbl_length. lia.
  - rewrite dbl_length. lia.
  - apply NoDup_dbl. exact Ns.
  - apply NoDup_dbl. exact Nt.
  - unfold wr, fi, ro, p_tgts. cbn [p_ins p_outs p_edges map concat]. rewrite app_nil_r, repeat_length.
    rewrite evens_dbl, odds_dbl. split.
    + apply NoDup_app_iff. split; [|split].
      * apply C01Lemmas.NoDup_map_inj_on; [|exact Ns]. intros a b _ _ E. lia.
      * apply C01Lemmas.NoDup_map_inj_on; [|exact Nt]. intros a b _ _ E. lia.
      * intros v H1 H2. apply in_map_iff in H1. apply in_map_iff in H2.
        destruct H1 as (a & <- & _). destruct H2 as (b & E & _). lia.
    + intros v. rewrite in_app_iff, !in_map_iff. split.
      * intros [(a & <- & Ha)|(a & <- & Ha)].
        -- pose proof (all_lt_in a Ls Ha). lia.
        -- pose proof (all_lt_in a Lt Ha). lia.
      * intros Hv. destruct (Nat.even v) eqn:E.
        -- apply Nat.even_spec in E. destruct E as (i & ->). left. exists i. split; [reflexivity|].
           apply (Permutation_in _ (Permutation_sym Ps)). apply in_seq. lia.
        -- assert (O : Nat.odd v = true) by (rewrite <- Nat.negb_even, E; reflexivity).
           apply Nat.odd_spec in O. destruct O as (i & ->). right. exists i. split; [reflexivity|].
           apply (Permutation_in _ (Permutation_sym Pt)). apply in_seq. lia.
  - intros e vals [].
  - exists (fun _ => 0), 0, 0. split; [lia|].
    split; [|split; [|split]]; intros x; destruct x; discriminate.
  - intros x dy Hx Hdy. destruct (Hf x Hx) as (xv & X1 & X2). destruct (HJ x dy Hx Hdy) as (dv & D1 & D2).
    exists (wire_val xv dv). unfold fi, ri, fo, ro. cbn [p_ins p_outs].
    rewrite !evens_dbl, !odds_dbl, !map_map.
    split; [intros e []|]. split; [|split; [|split]].
    + rewrite <- X1, map_map. apply map_ext. intros i. apply wire_val_even.
    + rewrite <- D1, map_map. apply map_ext. intros i. apply wire_val_odd.
    + rewrite <- X2, map_map. apply map_ext. intros i. apply wire_val_even.
    + rewrite <- D2, map_map. apply map_ext. intros i. apply wire_val_odd.
Qed.

Print Assumptions OSem_iso.
Print Assumptions OSem_tensor.
Print Assumptions OSem_discrete.
