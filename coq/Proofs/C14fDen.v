(* C14f, part 1: the class [D] of plain diagrams that are (up to isomorphism) the abstraction of a
   denotable circuit of the polynomial theory, and its closure properties.

     D g := exists s n m f J, denotes s n m f J /\ Iso (abs s) g

   den_facts       a denotable circuit is well-formed, all its nodes carry the object 0, and its
                   interfaces have the announced lengths
   IsCompose_iso   gluing is compatible with isomorphism in both arguments
   D_gen, D_id, D_twist, D_par (juxtaposition), D_seq (any gluing), D_iso *)
From Coq Require Import List Arith Lia Bool ZArith Permutation.
From OHG Require Import Spec.Plain Spec.GraphSpec Proofs.PrimsThm Proofs.CCThm Proofs.C01Lemmas
  Proofs.C01Thm Proofs.QuotThm Proofs.C03Plain Proofs.C03Thm Proofs.C02Thm Proofs.C04Thm Proofs.C05Thm
  Proofs.BackendInst Proofs.Assemble Proofs.EvalPlain Proofs.EvalFunctor Proofs.EvalMono
  Proofs.C14cPlain.
From OHG Require Import Proofs.C14Thm.
Import ListNotations.

Set Implicit Arguments.
Arguments Nat.sub : simpl never.

(* ================================================================== *)
(** * 1. diagrams all of whose nodes carry the object 0 *)
(* ================================================================== *)

Definition zero_nodes (g : pohg nat nat) : Prop := Forall (fun w => w = 0) (p_nodes g).

Lemma zero_nth_error g i : zero_nodes g -> i < length (p_nodes g) -> nth_error (p_nodes g) i = Some 0.
Proof.
  intros Hz Hi. destruct (nth_error (p_nodes g) i) as [x|] eqn:E.
  - apply nth_error_In in E. unfold zero_nodes in Hz. rewrite Forall_forall in Hz.
    rewrite (Hz x E). reflexivity.
  - apply nth_error_None in E. lia.
Qed.

Lemma zero_of_nth_error g :
  (forall i, i < length (p_nodes g) -> nth_error (p_nodes g) i = Some 0) -> zero_nodes g.
Proof.
  intros H. apply Forall_forall. intros x Hx. apply In_nth_error in Hx. destruct Hx as (i & Hi).
  assert (Hlt : i < length (p_nodes g)) by (apply nth_error_Some; congruence).
  rewrite (H i Hlt) in Hi. congruence.
Qed.

Lemma zero_repeat g : zero_nodes g -> p_nodes g = repeat 0 (length (p_nodes g)).
Proof.
  unfold zero_nodes. induction (p_nodes g) as [|x l IH]; intros H; [reflexivity|].
  inversion H as [|x' l' Hx Hl]; subst. cbn [length repeat]. f_equal. apply IH. exact Hl.
Qed.

Lemma Forall_zero_repeat n : Forall (fun w => w = 0) (repeat 0 n).
Proof. apply Forall_forall. intros x Hx. apply repeat_spec in Hx. exact Hx. Qed.

Lemma zero_type g l : zero_nodes g -> all_lt (length (p_nodes g)) l ->
  type_of g l = repeat (Some 0) (length l).
Proof.
  intros Hz Hl. unfold type_of. induction l as [|x l IH]; [reflexivity|].
  inversion Hl as [|x' l' Hx Hl']; subst. cbn [map length repeat]. f_equal.
  - apply zero_nth_error; assumption.
  - apply IH. exact Hl'.
Qed.

Lemma zero_types_match f g : pwf f -> pwf g -> zero_nodes f -> zero_nodes g ->
  length (p_outs f) = length (p_ins g) -> tgt_type f = src_type g.
Proof.
  intros (_ & _ & Wo) (_ & Wi & _) Zf Zg Hl. unfold tgt_type, src_type.
  rewrite (zero_type Zf Wo), (zero_type Zg Wi), Hl. reflexivity.
Qed.

Lemma zero_iso g g' : Iso g g' -> zero_nodes g -> zero_nodes g'.
Proof.
  intros (Hn & _ & pn & pe & Hb & _ & Hl & _) Hz. apply zero_of_nth_error. intros j Hj.
  rewrite <- Hn in Hj. destruct (bij_on_surj Hb Hj) as (i & Hi & <-).
  rewrite Hl by exact Hi. apply zero_nth_error; assumption.
Qed.

Lemma zero_quot D q h : IsQuot D q h -> zero_nodes D -> zero_nodes h.
Proof.
  intros (_ & Hs & Hl & _) Hz. apply zero_of_nth_error. intros j Hj.
  destruct (Hs j Hj) as (i & Hi & <-). rewrite Hl by exact Hi. apply zero_nth_error; assumption.
Qed.

Lemma zero_app f g : zero_nodes f -> zero_nodes g -> Forall (fun w => w = 0) (p_nodes f ++ p_nodes g).
Proof. intros Hf Hg. apply Forall_app. split; assumption. Qed.

Lemma zero_compose f g h : IsCompose f g h -> zero_nodes f -> zero_nodes g -> zero_nodes h.
Proof. intros (q & Q & _) Zf Zg. apply (zero_quot Q). apply zero_app; assumption. Qed.

Lemma zero_ptensor f g : zero_nodes f -> zero_nodes g -> zero_nodes (ptensor f g).
Proof. apply zero_app. Qed.

(* ================================================================== *)
(** * 2. what [denotes] says about the shape of the circuit *)
(* ================================================================== *)

Lemma singleton_value (x : nat) (a b : list nat) s : ohg_singleton x a b = Ok s ->
  wf_ohg s /\ abs s = pgen (a ++ b) x (length a) (length b).
Proof.
  intros H. unfold ohg_singleton in H.
  rewrite ohg_tensor_operations_ok in H by apply wf_ics_singleton. inversion H; subst s. split.
  - apply tensor_ops_pure_wf; try apply wf_ics_singleton; reflexivity.
  - apply abs_singleton.
Qed.

Lemma compose_value (s1 s2 s : ohg nat nat) : wf_ohg s1 -> wf_ohg s2 ->
  ohg_compose VecBackend Nat.eqb s1 s2 = Ok (Some s) ->
  wf_ohg s /\ IsCompose (abs s1) (abs s2) (abs s) /\ tgt_type (abs s1) = src_type (abs s2).
Proof.
  intros W1 W2 Hc.
  destruct (compose_cases Nat.eqb nat_eqb_spec VecBackend_ok W1 W2) as [(_ & Hn)|(Ety & _)].
  { rewrite Hn in Hc. discriminate. }
  destruct (C01_compose_is_gluing VecBackend_ok Nat.eqb nat_eqb_spec W1 W2 Ety) as (h & Hc' & Wh & Hi).
  rewrite Hc in Hc'. inversion Hc'; subst h. auto.
Qed.

Lemma tensor_value (s1 s2 s : ohg nat nat) : wf_ohg s1 -> wf_ohg s2 -> ohg_tensor s1 s2 = Ok s ->
  wf_ohg s /\ abs s = ptensor (abs s1) (abs s2).
Proof.
  intros W1 W2 Ht. destruct (C02_tensor_is_juxtaposition W1 W2) as (t & Ht' & Wt & E).
  rewrite Ht in Ht'. inversion Ht'; subst t. auto.
Qed.

Lemma type_length (g g' : pohg nat nat) : tgt_type g = src_type g' -> length (p_outs g) = length (p_ins g').
Proof.
  intros H. apply (f_equal (@length _)) in H. unfold tgt_type, src_type, type_of in H.
  rewrite !map_length in H. exact H.
Qed.

Theorem den_facts s n m f J : denotes s n m f J ->
  wf_ohg s /\ zero_nodes (abs s) /\ length (p_ins (abs s)) = n /\ length (p_outs (abs s)) = m.
Proof.
  induction 1 as [g n m s Ha Hs|n s Hs|n m s Hs
                 |s1 s2 s n m p f g J1 J2 H1 IH1 H2 IH2 Hc
                 |s1 s2 s n1 m1 n2 m2 f1 f2 J1 J2 H1 IH1 H2 IH2 Ht
                 |s s' n m f J H IH Ws' Hi].
  - destruct (singleton_value _ _ _ Hs) as (W & E). split; [exact W|]. rewrite E.
    unfold zero_nodes, pgen. cbn [p_nodes p_ins p_outs]. rewrite !seq_length, !repeat_length.
    split; [|auto]. rewrite <- repeat_app. apply Forall_zero_repeat.
  - rewrite ohg_identity_ok in Hs. inversion Hs; subst s. split; [apply wf_id_pure|].
    rewrite abs_id_pure. unfold zero_nodes, pid, pwire. cbn [p_nodes p_ins p_outs].
    rewrite !seq_length, !repeat_length. split; [apply Forall_zero_repeat|auto].
  - rewrite ohg_twist_ok in Hs. inversion Hs; subst s. split; [apply wf_twist_pure|].
    rewrite abs_twist_pure. unfold zero_nodes, ptwist, pwire. cbn [p_nodes p_ins p_outs].
    rewrite app_length, !seq_length, !repeat_length. split; [|split; lia].
    rewrite <- repeat_app. apply Forall_zero_repeat.
  - destruct IH1 as (W1 & Z1 & I1 & O1). destruct IH2 as (W2 & Z2 & I2 & O2).
    destruct (compose_value W1 W2 Hc) as (W & C & _). split; [exact W|].
    split; [exact (zero_compose C Z1 Z2)|].
    destruct C as (q & (_ & _ & _ & _ & Ei & Eo) & _). rewrite Ei, Eo.
    cbn [pjoin p_ins p_outs]. unfold shiftl. rewrite !map_length. auto.
  - destruct IH1 as (W1 & Z1 & I1 & O1). destruct IH2 as (W2 & Z2 & I2 & O2).
    destruct (tensor_value W1 W2 Ht) as (W & E). split; [exact W|]. rewrite E.
    split; [apply zero_ptensor; assumption|].
    cbn [ptensor p_ins p_outs]. unfold shiftl. rewrite !app_length, !map_length. lia.
  - destruct IH as (W & Z & I & O). split; [exact Ws'|]. split; [exact (zero_iso Hi Z)|].
    destruct Hi as (_ & _ & pn & pe & _ & _ & _ & _ & Ei & Eo). rewrite Ei, Eo, !map_length. auto.
Qed.

(* ================================================================== *)
(** * 3. gluing is compatible with isomorphism *)
(* ================================================================== *)

Section ComposeIso.
  Variables O A : Type.
  Implicit Types f g h : pohg O A.

  Lemma map_shift_edge_perm n (pn : nat -> nat) (E E' : list (pedge A)) :
    Permutation (map (map_edge pn) E) E' ->
    Permutation (map (shift_edge n) (map (map_edge pn) E)) (map (shift_edge n) E').
  Proof. apply Permutation_map. Qed.

  Theorem IsCompose_iso f f' g g' h h' : pwf f -> pwf g -> Iso f f' -> Iso g g' ->
    IsCompose f g h -> IsCompose f' g' h' -> Iso h h'.
  Proof.
    intros Wf Wg If Ig (q & Q & K) (q' & Q' & K').
    destruct (Iso_IsoVia If) as (pf & Hnf & Hbf & Hlf & Hpf & Hif & Hof).
    destruct (Iso_IsoVia Ig) as (pg & Hng & Hbg & Hlg & Hpg & Hig & Hog).
    pose proof Wf as (Wfe & Wfi & Wfo). pose proof Wg as (Wge & Wgi & Wgo).
    set (nf := length (p_nodes f)) in *. set (ng := length (p_nodes g)) in *.
    set (pn := qsum nf (length (p_nodes f')) pf pg).
    assert (Hb : bij_on (nf + ng) pn).
    { unfold pn. rewrite <- Hnf. apply bij_on_qsum; assumption. }
    assert (Hpl : forall x, x < nf -> pn x = pf x).
    { intros x Hx. unfold pn. apply qsum_l. exact Hx. }
    assert (HP : pairs_lt (nf + ng) (glue_pairs f g)) by (apply glue_pairs_lt; assumption).
    assert (EP : pmap pn (glue_pairs f g) = glue_pairs f' g').
    { unfold glue_pairs. rewrite <- combine_pmap. f_equal.
      - unfold pn. rewrite map_qsum_l by exact Wfo. symmetry. exact Hof.
      - unfold pn. fold nf. rewrite map_qsum_r. rewrite <- Hig. reflexivity. }
    apply (@quot_iso O A (pjoin f g) (pjoin f' g') pn q q' h h').
    - apply pwf_pjoin; assumption.
    - rewrite !pjoin_len. fold nf ng. lia.
    - rewrite pjoin_len. exact Hb.
    - rewrite pjoin_len. fold nf ng. intros i Hi. cbn [pjoin p_nodes].
      destruct (lt_dec i nf) as [L|L].
      + rewrite Hpl by exact L. destruct Hbf as [Hr _]. specialize (Hr i L).
        rewrite !nth_error_app1 by (fold nf; lia). apply Hlf. exact L.
      + unfold pn. rewrite qsum_r by lia. rewrite !nth_error_app2 by (fold nf; lia).
        replace (pg (i - nf) + length (p_nodes f') - length (p_nodes f')) with (pg (i - nf)) by lia.
        fold nf. apply Hlg. lia.
    - cbn [pjoin p_edges]. rewrite map_app. apply Permutation_app.
      + rewrite (map_ext_in _ (map_edge pf)); [exact Hpf|].
        intros e He. destruct (Wfe e He) as [Hs Ht].
        apply map_edge_ext_lt with nf; auto.
      + rewrite map_map. fold nf.
        rewrite (map_ext _ (fun e => shift_edge (length (p_nodes f')) (map_edge pg e))).
        * rewrite <- map_map. apply Permutation_map. exact Hpg.
        * intros e. unfold pn. apply map_edge_qsum_r.
    - cbn [pjoin p_ins]. rewrite Hif. symmetry. apply map_ext_lt with nf; auto.
    - cbn [pjoin p_outs]. fold nf. unfold pn. rewrite map_qsum_r. rewrite Hog. reflexivity.
    - exact Q.
    - exact Q'.
    - rewrite pjoin_len. fold nf ng. intros i j Hi Hj. rewrite (K i j Hi Hj).
      rewrite (conn_pmap_bij Hb HP Hi Hj), EP.
      destruct Hb as [Hr _]. symmetry. apply K'; rewrite <- Hnf, <- Hng; apply Hr; assumption.
  Qed.
End ComposeIso.

(* ================================================================== *)
(** * 4. the class D and its closure properties *)
(* ================================================================== *)

Definition D (g : pohg nat nat) : Prop :=
  exists s n m f J, denotes s n m f J /\ Iso (abs s) g.

Lemma D_pwf g : D g -> pwf g.
Proof.
  intros (s & n & m & f & J & Hd & Hi). destruct (den_facts Hd) as (W & _).
  exact (Iso_pwf (wf_abs_pwf W) Hi).
Qed.

Lemma D_zero g : D g -> zero_nodes g.
Proof.
  intros (s & n & m & f & J & Hd & Hi). destruct (den_facts Hd) as (_ & Z & _).
  exact (zero_iso Hi Z).
Qed.

Lemma D_of_denotes s n m f J : denotes s n m f J -> D (abs s).
Proof. intros H. exists s, n, m, f, J. split; [exact H|apply Iso_refl]. Qed.

Theorem D_iso g g' : D g -> Iso g g' -> D g'.
Proof.
  intros (s & n & m & f & J & Hd & Hi) H. exists s, n, m, f, J. split; [exact Hd|].
  exact (Iso_trans Hi H).
Qed.

Theorem D_gen x n m : poly_arity x = Some (n, m) -> D (pgen (repeat 0 (n + m)) x n m).
Proof.
  intros Ha.
  assert (Hs : exists s, ohg_singleton x (repeat 0 n) (repeat 0 m) = Ok s).
  { unfold ohg_singleton. rewrite ohg_tensor_operations_ok by apply wf_ics_singleton. eauto. }
  destruct Hs as (s & Hs). pose proof (den_gen x Ha Hs) as Hd.
  destruct (singleton_value _ _ _ Hs) as (_ & E).
  rewrite <- repeat_app, !repeat_length in E. rewrite <- E. exact (D_of_denotes Hd).
Qed.

Theorem D_id n : D (pid nat (repeat 0 n)).
Proof.
  pose proof (@den_id n _ (ohg_identity_ok nat (repeat 0 n))) as Hd.
  rewrite <- abs_id_pure. exact (D_of_denotes Hd).
Qed.

Theorem D_twist n m : D (ptwist nat (repeat 0 n) (repeat 0 m)).
Proof.
  pose proof (@den_twist n m _ (ohg_twist_ok nat (repeat 0 n) (repeat 0 m))) as Hd.
  rewrite <- abs_twist_pure. exact (D_of_denotes Hd).
Qed.

Theorem D_par g1 g2 : D g1 -> D g2 -> D (ptensor g1 g2).
Proof.
  intros (s1 & n1 & m1 & f1 & J1 & Hd1 & Hi1) (s2 & n2 & m2 & f2 & J2 & Hd2 & Hi2).
  destruct (den_facts Hd1) as (W1 & _). destruct (den_facts Hd2) as (W2 & _).
  destruct (C02_tensor_is_juxtaposition W1 W2) as (t & Ht & Wt & E).
  exists t, (n1 + n2), (m1 + m2), (par_f n1 f1 f2), (par_J n1 n2 J1 J2). split.
  - exact (den_par Hd1 Hd2 Ht).
  - rewrite E. apply Iso_ptensor; [apply wf_abs_pwf; exact W1|exact Hi1|exact Hi2].
Qed.

Theorem D_seq g1 g2 h : D g1 -> D g2 -> length (p_outs g1) = length (p_ins g2) ->
  IsCompose g1 g2 h -> D h.
Proof.
  intros (s1 & n1 & m1 & f1 & J1 & Hd1 & Hi1) (s2 & n2 & m2 & f2 & J2 & Hd2 & Hi2) Hl C.
  destruct (den_facts Hd1) as (W1 & Z1 & I1 & O1). destruct (den_facts Hd2) as (W2 & Z2 & I2 & O2).
  pose proof (wf_abs_pwf W1) as P1. pose proof (wf_abs_pwf W2) as P2.
  assert (Hm : m1 = n2).
  { destruct Hi1 as (_ & _ & pn & pe & _ & _ & _ & _ & _ & Eo).
    destruct Hi2 as (_ & _ & pn' & pe' & _ & _ & _ & _ & Ei & _).
    rewrite Eo, Ei, !map_length in Hl. lia. }
  rewrite <- Hm in Hd2.
  assert (Ety : tgt_type (abs s1) = src_type (abs s2)).
  { apply zero_types_match; auto. lia. }
  destruct (C01_compose_is_gluing VecBackend_ok Nat.eqb nat_eqb_spec W1 W2 Ety) as (s & Hc & Ws & C').
  exists s, n1, m2, (seq_f f1 f2), (seq_J n1 f1 J1 J2). split.
  - exact (den_seq Hd1 Hd2 Hc).
  - exact (IsCompose_iso P1 P2 Hi1 Hi2 C' C).
Qed.

Print Assumptions den_facts.
Print Assumptions IsCompose_iso.
Print Assumptions D_seq.
Print Assumptions D_par.
Print Assumptions D_gen.
