(* C14f, part 4: the normal-form theorem.  Every monogamous acyclic circuit of the polynomial theory
   is denotable (clause 2 of [C14_full]).

   plain_normal_form    every well-formed monogamous ranked plain diagram over the object 0 whose
                        hyperedges have the arity of their label is in D  (induction on the number
                        of hyperedges: a hyperedge of minimal level reads input wires only; peel it)
   node_acyclic_ops     acyclicity of the node graph (what [ohg_is_acyclic] decides) implies
                        acyclicity of the operation dependency relation
   C14_every_circuit_denotable, C14_full_clause2 *)
From Coq Require Import List Arith Lia Bool ZArith Permutation Relations.
From OHG Require Import Spec.Plain Spec.GraphSpec Proofs.PrimsThm Proofs.CCThm Proofs.C01Lemmas
  Proofs.C01Thm Proofs.QuotThm Proofs.C03Plain Proofs.C03Thm Proofs.BackendInst Proofs.C16Lemmas
  Proofs.C17Thm Proofs.C15Thm Proofs.EvalPlain Proofs.EvalFunctor Proofs.EvalMono Proofs.C14cPlain.
From OHG Require Import Proofs.C14Thm Proofs.C14fDen Proofs.C14fPerm Proofs.C14fPeel.
Import ListNotations.

Set Implicit Arguments.
Arguments Nat.sub : simpl never.

(* ================================================================== *)
(** * 1. covers *)
(* ================================================================== *)

Lemma cover_perm_seq n L : cover n L -> Permutation L (seq 0 n).
Proof.
  intros (Hnd & Hin). apply NoDup_Permutation; [exact Hnd|apply seq_NoDup|].
  intros v. rewrite Hin, in_seq. lia.
Qed.

Lemma cover_split n (Sr M : list nat) : cover n (Sr ++ M) ->
  NoDup Sr /\ NoDup M /\ forall v, In v M <-> v < n /\ ~ In v Sr.
Proof.
  intros (Hnd & Hin). apply NoDup_app_iff in Hnd. destruct Hnd as (N1 & N2 & Hd).
  split; [exact N1|]. split; [exact N2|]. intros v. split.
  - intros Hv. split; [apply Hin; apply in_or_app; auto|]. intros Hs. exact (Hd v Hs Hv).
  - intros (Hv & Hn). apply Hin in Hv. apply in_app_or in Hv. tauto.
Qed.

Lemma NoDup_map_in {X Y} (f : X -> Y) (l : list X) :
  (forall u v, In u l -> In v l -> f u = f v -> u = v) -> NoDup l -> NoDup (map f l).
Proof.
  induction l as [|u l IH]; intros Hinj Hnd; [constructor|].
  inversion Hnd as [|u' l' Hn Hnd']; subst. cbn [map]. constructor.
  - intros Hin. apply in_map_iff in Hin. destruct Hin as (v & E & Hv).
    assert (v = u) by (apply Hinj; [right; exact Hv|left; reflexivity|exact E]). subst v. auto.
  - apply IH; [|exact Hnd']. intros a b Ha Hb. apply Hinj; right; assumption.
Qed.

Lemma cover_restrict (M L : list nat) : NoDup M -> NoDup L -> (forall v, In v M <-> In v L) ->
  cover (length L) (map (fun v => idx v L) M).
Proof.
  intros NM NL HML. split.
  - apply NoDup_map_in; [|exact NM]. intros u v Hu Hv. apply idx_inj; apply HML; assumption.
  - intros j. split.
    + intros Hj. apply in_map_iff in Hj. destruct Hj as (v & <- & Hv). apply idx_lt. apply HML. exact Hv.
    + intros Hj. apply in_map_iff. exists (nth j L 0). split; [apply idx_nth; assumption|].
      apply HML. apply nth_In. exact Hj.
Qed.

Definition nin (Sr : list nat) (v : nat) : bool := if in_dec Nat.eq_dec v Sr then false else true.

Lemma nin_true Sr v : nin Sr v = true <-> ~ In v Sr.
Proof. unfold nin. destruct (in_dec Nat.eq_dec v Sr); split; intros; try tauto; discriminate. Qed.

Lemma perm_split_filter (I Sr : list nat) : NoDup I -> NoDup Sr -> (forall v, In v Sr -> In v I) ->
  Permutation I (Sr ++ filter (nin Sr) I).
Proof.
  intros NI NS Hsub. apply NoDup_Permutation; [exact NI| |].
  - apply NoDup_app_iff. split; [exact NS|]. split; [apply NoDup_filter; exact NI|].
    intros v Hv Hf. apply filter_In in Hf. destruct Hf as (_ & Hf). apply nin_true in Hf. auto.
  - intros v. rewrite in_app_iff, filter_In, nin_true. split.
    + intros Hv. destruct (in_dec Nat.eq_dec v Sr); auto.
    + intros [Hv|[Hv _]]; auto.
Qed.

(* ================================================================== *)
(** * 2. a hyperedge of minimal level *)
(* ================================================================== *)

Lemma min_index (lev : nat -> nat) n : 0 < n -> exists i, i < n /\ forall j, j < n -> lev i <= lev j.
Proof.
  induction n as [|n IH]; intros Hn; [lia|]. destruct n as [|n].
  - exists 0. split; [lia|]. intros j Hj. replace j with 0 by lia. lia.
  - destruct IH as (i & Hi & Hmin); [lia|].
    destruct (le_lt_dec (lev i) (lev (S n))) as [Hle|Hlt].
    + exists i. split; [lia|]. intros j Hj. destruct (Nat.eq_dec j (S n)) as [->|Hne]; [exact Hle|].
      apply Hmin. lia.
    + exists (S n). split; [lia|]. intros j Hj. destruct (Nat.eq_dec j (S n)) as [->|Hne]; [lia|].
      assert (lev i <= lev j) by (apply Hmin; lia). lia.
Qed.

Lemma min_edge (g : pohg nat nat) : p_ranked g -> 0 < length (p_edges g) ->
  exists i e, nth_error (p_edges g) i = Some e /\
    forall ey v, In ey (p_edges g) -> In v (pe_tgt ey) -> ~ In v (pe_src e).
Proof.
  intros (lev & Hlev) Hpos. destruct (min_index lev Hpos) as (i & Hi & Hmin).
  destruct (nth_error (p_edges g) i) as [e|] eqn:Ee. 2:{ apply nth_error_None in Ee. lia. }
  exists i, e. split; [exact Ee|]. intros ey v Hey Ht Hs.
  apply In_nth_error in Hey. destruct Hey as (y & Hy).
  assert (Hylt : y < length (p_edges g)) by (apply nth_error_Some; congruence).
  pose proof (Hlev y i ey e v Hy Ee Ht Hs) as H1. pose proof (Hmin y Hylt) as H2. lia.
Qed.

(* ================================================================== *)
(** * 3. the remainder of the diagram is again ranked *)
(* ================================================================== *)

Lemma nth_error_skip {X} (E1 E2 : list X) (e e' : X) z : nth_error (E1 ++ E2) z = Some e' ->
  nth_error (E1 ++ e :: E2) (if z <? length E1 then z else S z) = Some e'.
Proof.
  intros H. destruct (Nat.ltb_spec z (length E1)) as [Hlt|Hge].
  - rewrite nth_error_app1 in H by exact Hlt. rewrite nth_error_app1 by exact Hlt. exact H.
  - rewrite nth_error_app2 in H by exact Hge. rewrite nth_error_app2 by lia.
    replace (S z - length E1) with (S (z - length E1)) by lia. exact H.
Qed.

Lemma ranked_restrict w (E1 E2 : list (pedge nat)) e I Ou I' Ou' L :
  p_ranked (mkP w (E1 ++ e :: E2) I Ou) ->
  (forall e' v, In e' (E1 ++ E2) -> In v (pe_src e') \/ In v (pe_tgt e') -> In v L) ->
  p_ranked (restrict L (mkP w (E1 ++ E2) I' Ou')).
Proof.
  intros (lev & Hlev) HL. exists (fun z => lev (if z <? length E1 then z else S z)).
  cbn [restrict p_edges] in *. intros z1 z2 ex ey v Hx Hy Ht Hs.
  rewrite nth_error_map in Hx, Hy.
  destruct (nth_error (E1 ++ E2) z1) as [ex0|] eqn:Ex; cbn [option_map] in Hx; [|discriminate].
  destruct (nth_error (E1 ++ E2) z2) as [ey0|] eqn:Ey; cbn [option_map] in Hy; [|discriminate].
  inversion Hx; subst ex. inversion Hy; subst ey. cbn [map_edge pe_src pe_tgt] in Ht, Hs.
  apply in_map_iff in Ht. destruct Ht as (t & Et & Ht).
  apply in_map_iff in Hs. destruct Hs as (s & Es & Hs).
  assert (t = s).
  { apply idx_inj with L.
    - apply (HL ex0 t); [apply nth_error_In with z1; exact Ex|auto].
    - apply (HL ey0 s); [apply nth_error_In with z2; exact Ey|auto].
    - congruence. }
  subst s.
  apply (Hlev _ _ ex0 ey0 t); [apply nth_error_skip; exact Ex|apply nth_error_skip; exact Ey|exact Ht|exact Hs].
Qed.

(* ================================================================== *)
(** * 4. the normal form on the plain model *)
(* ================================================================== *)

Definition parity (g : pohg nat nat) : Prop :=
  Forall (fun e => poly_arity (pe_lbl e) = Some (length (pe_src e), length (pe_tgt e))) (p_edges g).

Lemma concat_map_mid {X Y} (f : X -> list Y) (E1 E2 : list X) e :
  concat (map f (E1 ++ e :: E2)) = concat (map f E1) ++ f e ++ concat (map f E2).
Proof. rewrite map_app, concat_app. reflexivity. Qed.

Lemma concat_map_app {X Y} (f : X -> list Y) (E1 E2 : list X) :
  concat (map f (E1 ++ E2)) = concat (map f E1) ++ concat (map f E2).
Proof. rewrite map_app, concat_app. reflexivity. Qed.

Lemma In_concat_map {X Y} (f : X -> list Y) (E : list X) e v : In e E -> In v (f e) -> In v (concat (map f E)).
Proof. intros He Hv. apply in_concat. exists (f e). split; [apply in_map; exact He|exact Hv]. Qed.

Lemma perm_tgts (I Sr R T t1 t2 : list nat) : Permutation I (Sr ++ R) ->
  Permutation (I ++ t1 ++ T ++ t2) (Sr ++ ((T ++ R) ++ t1 ++ t2)).
Proof.
  intros HP. rewrite HP. rewrite <- !app_assoc. apply Permutation_app_head.
  rewrite (app_assoc R t1). rewrite (Permutation_app_swap_app (R ++ t1) T t2).
  rewrite <- !app_assoc. apply Permutation_refl.
Qed.

Lemma perm_srcs (Sr s1 s2 Ou : list nat) :
  Permutation ((s1 ++ Sr ++ s2) ++ Ou) (Sr ++ ((s1 ++ s2) ++ Ou)).
Proof. rewrite <- !app_assoc. apply Permutation_app_swap_app. Qed.

Lemma step (w : list nat) (E1 E2 : list (pedge nat)) (x : nat) (Sr T I Ou : list nat) :
  let g := mkP w (E1 ++ mkPE x Sr T :: E2) I Ou in
  (forall g', length (p_edges g') = length (E1 ++ E2) -> pwf g' -> zero_nodes g' -> parity g' ->
      p_mono g' -> p_ranked g' -> D g') ->
  pwf g -> zero_nodes g -> parity g -> p_mono g -> p_ranked g ->
  (forall ey v, In ey (p_edges g) -> In v (pe_tgt ey) -> ~ In v Sr) ->
  D g.
Proof.
  intros g IH Wg Zg Pg Mg Rg Hmin.
  set (N := length w). set (e := mkPE x Sr T) in *.
  set (t1 := concat (map (@pe_tgt nat) E1)). set (t2 := concat (map (@pe_tgt nat) E2)).
  set (s1 := concat (map (@pe_src nat) E1)). set (s2 := concat (map (@pe_src nat) E2)).
  destruct Mg as (M1 & M2). unfold p_tgts, p_srcs in M1, M2. cbn [g p_nodes p_edges p_ins p_outs] in M1, M2.
  rewrite concat_map_mid in M1, M2. cbn [e pe_src pe_tgt] in M1, M2. fold t1 t2 in M1. fold s1 s2 N in M1, M2.
  destruct Wg as (We & Wi & Wo). cbn [g p_nodes p_edges p_ins p_outs] in We, Wi, Wo. fold N in We, Wi, Wo.
  assert (HeIn : In e (E1 ++ e :: E2)) by (apply in_or_app; right; left; reflexivity).
  assert (HS : all_lt N Sr) by (apply (We e HeIn)).
  (* the sources of e are input wires *)
  assert (HSI : forall v, In v Sr -> In v I).
  { intros v Hv. assert (Hlt : v < N) by (eapply all_lt_In; [exact HS|exact Hv]).
    apply (proj2 M1) in Hlt. apply in_app_or in Hlt. destruct Hlt as [H|H]; [exact H|]. exfalso.
    assert (Hin : In v (concat (map (@pe_tgt nat) (E1 ++ e :: E2)))).
    { rewrite concat_map_mid. exact H. }
    apply in_concat in Hin. destruct Hin as (l & Hl & Hvl). apply in_map_iff in Hl.
    destruct Hl as (ey & <- & Hey). exact (Hmin ey v Hey Hvl Hv). }
  assert (NI : NoDup I). { destruct M1 as (Hnd & _). apply NoDup_app_iff in Hnd. tauto. }
  assert (NS : NoDup Sr).
  { destruct M2 as (Hnd & _). apply NoDup_app_iff in Hnd. destruct Hnd as (Hnd & _).
    apply NoDup_app_iff in Hnd. destruct Hnd as (_ & Hnd & _). apply NoDup_app_iff in Hnd. tauto. }
  set (R := filter (nin Sr) I). set (L := filter (nin Sr) (seq 0 N)).
  assert (PI : Permutation I (Sr ++ R)) by (apply perm_split_filter; assumption).
  pose proof (cover_perm (@perm_tgts I Sr R T t1 t2 PI) M1) as M1'.
  pose proof (cover_perm (perm_srcs Sr s1 s2 Ou) M2) as M2'.
  destruct (cover_split _ _ M1') as (_ & NM1 & HM1). destruct (cover_split _ _ M2') as (_ & NM2 & HM2).
  assert (NL : NoDup L) by (apply NoDup_filter; apply seq_NoDup).
  assert (HL : forall v, In v L <-> v < N /\ ~ In v Sr).
  { intros v. unfold L. rewrite filter_In, nin_true, in_seq. split; intros (H1 & H2); split; auto; lia. }
  assert (HML1 : forall v, In v ((T ++ R) ++ t1 ++ t2) <-> In v L).
  { intros v. rewrite HM1, HL. tauto. }
  assert (HML2 : forall v, In v ((s1 ++ s2) ++ Ou) <-> In v L).
  { intros v. rewrite HM2, HL. tauto. }
  assert (HTL : forall v, In v T -> In v L).
  { intros v Hv. apply HML1. rewrite !in_app_iff. auto. }
  assert (HRL : forall v, In v R -> In v L).
  { intros v Hv. apply HML1. rewrite !in_app_iff. auto. }
  assert (HOL : forall v, In v Ou -> In v L).
  { intros v Hv. apply HML2. rewrite !in_app_iff. auto. }
  assert (HEL : forall e' v, In e' (E1 ++ E2) -> In v (pe_src e') \/ In v (pe_tgt e') -> In v L).
  { intros e' v He' [Hv|Hv].
    - apply HML2. apply in_or_app. left. unfold s1, s2. rewrite <- concat_map_app.
      apply In_concat_map with e'; assumption.
    - apply HML1. apply in_or_app. right. unfold t1, t2. rewrite <- concat_map_app.
      apply In_concat_map with e'; assumption. }
  assert (HTRL : forall v, In v (T ++ R) -> In v L).
  { intros v Hv. apply in_app_or in Hv. destruct Hv; auto. }
  (* the remainder *)
  set (g' := restrict L (mkP w (E1 ++ E2) (T ++ R) Ou)).
  assert (Dg' : D g').
  { apply IH.
    - cbn [g' restrict p_edges]. apply map_length.
    - apply restrict_pwf; cbn [p_edges p_ins p_outs]; assumption.
    - apply restrict_zero.
    - unfold parity in *. cbn [g g' restrict p_edges] in *. rewrite Forall_forall in *.
      intros e' He'. apply in_map_iff in He'. destruct He' as (e0 & <- & He0).
      cbn [map_edge pe_lbl pe_src pe_tgt]. rewrite !map_length. apply Pg.
      apply in_app_or in He0. apply in_or_app. destruct He0; [left|right; right]; assumption.
    - split; unfold p_tgts, p_srcs; cbn [g' restrict p_nodes p_edges p_ins p_outs]; rewrite repeat_length.
      + rewrite tgts_map_edge, <- map_app, concat_map_app. fold t1 t2.
        apply cover_restrict; assumption.
      + rewrite srcs_map_edge, <- map_app, concat_map_app. fold s1 s2.
        apply cover_restrict; assumption.
    - apply (@ranked_restrict w E1 E2 e I Ou); assumption. }
  (* gluing e back, re-indexing the inputs, reordering the hyperedges *)
  assert (Ha : poly_arity x = Some (length Sr, length T)).
  { unfold parity in Pg. rewrite Forall_forall in Pg. exact (Pg e HeIn). }
  pose proof (@D_peel w x Sr T R Ou (E1 ++ E2) L Zg HS NS NL HL HTL HRL HOL HEL Ha Dg') as D0.
  assert (D1 : D (with_io (g0 w x Sr T R Ou (E1 ++ E2)) I Ou)).
  { apply (@D_reindex (g0 w x Sr T R Ou (E1 ++ E2)) I D0); cbn [g0 p_ins].
    - exact (Permutation_NoDup PI NI).
    - exact PI. }
  apply (D_iso D1). apply Iso_of_perm with (fun i => i); cbn [with_io g0 g p_nodes p_edges p_ins p_outs].
  - reflexivity.
  - apply bij_on_id.
  - reflexivity.
  - rewrite (map_ext _ _ (fun e0 => map_edge_id e0)), map_id. fold e. apply Permutation_middle.
  - symmetry. apply map_id.
  - symmetry. apply map_id.
Qed.

Theorem plain_normal_form : forall k (g : pohg nat nat), length (p_edges g) = k ->
  pwf g -> zero_nodes g -> parity g -> p_mono g -> p_ranked g -> D g.
Proof.
  induction k as [|k IH]; intros g Hk Wg Zg Pg Mg Rg.
  - apply length_zero_iff_nil in Hk. destruct Mg as (M1 & M2). unfold p_tgts, p_srcs in M1, M2.
    rewrite Hk in M1, M2. cbn [map concat app] in M1, M2. rewrite app_nil_r in M1.
    apply D_wiring; [exact Zg|exact Hk|apply cover_perm_seq; exact M1|apply cover_perm_seq; exact M2].
  - destruct (@min_edge g Rg) as (i & e & Hi & Hmin); [lia|].
    apply nth_error_split in Hi. destruct Hi as (E1 & E2 & HE & _).
    destruct g as [w Eall I Ou]. cbn [p_edges] in *. subst Eall. destruct e as [x Sr T].
    apply step; try assumption.
    intros g' Hl. apply IH. rewrite Hl. rewrite app_length in *. cbn [length] in Hk. lia.
Qed.

(* ================================================================== *)
(** * 5. node-level acyclicity implies operation-level acyclicity *)
(* ================================================================== *)

Section Acyclic.
  Variables O A : Type.
  Variable f : ohg O A.
  Hypothesis Wf : wf_ohg f.

  Lemma dep_chain x y : clos_trans_1n nat (depR f) x y ->
    forall u v, In u (op_src (o_h f) x) -> In v (op_tgt (o_h f) y) -> clos_trans nat (nodeR (o_h f)) u v.
  Proof.
    induction 1 as [x y (Hx & Hy & m & Hmt & Hms)|x z y (Hx & Hz & m & Hmt & Hms) Hzy IH]; intros u v Hu Hv.
    - apply t_trans with m; apply t_step.
      + split; [exact (@op_src_lt _ _ _ _ _ (proj1 Wf) Hu)|]. split; [exact (@op_tgt_lt _ _ _ _ _ (proj1 Wf) Hmt)|].
        exists x. auto.
      + split; [exact (@op_tgt_lt _ _ _ _ _ (proj1 Wf) Hmt)|]. split; [exact (@op_tgt_lt _ _ _ _ _ (proj1 Wf) Hv)|].
        exists y. auto.
    - apply t_trans with m.
      + apply t_step. split; [exact (@op_src_lt _ _ _ _ _ (proj1 Wf) Hu)|].
        split; [exact (@op_tgt_lt _ _ _ _ _ (proj1 Wf) Hmt)|]. exists x. auto.
      + apply IH; assumption.
  Qed.

  Theorem node_acyclic_ops :
    (forall v, v < length (h_w (o_h f)) -> ~ clos_trans nat (nodeR (o_h f)) v v) -> acyclic_ops f.
  Proof.
    intros Hno x Hx Hc. apply clos_trans_t1n in Hc.
    inversion Hc as [y (_ & _ & m & Hmt & Hms)|z y (_ & Hz & m & Hmt & Hms) Hzy]; subst.
    - apply (Hno m (@op_tgt_lt _ _ _ _ _ (proj1 Wf) Hmt)). apply t_step.
      split; [exact (@op_tgt_lt _ _ _ _ _ (proj1 Wf) Hmt)|]. split; [exact (@op_tgt_lt _ _ _ _ _ (proj1 Wf) Hmt)|].
      exists x. auto.
    - apply (Hno m (@op_tgt_lt _ _ _ _ _ (proj1 Wf) Hmt)). exact (dep_chain Hzy _ _ Hms Hmt).
  Qed.
End Acyclic.

(* ================================================================== *)
(** * 6. the theorem *)
(* ================================================================== *)

Theorem C14_every_circuit_denotable :
  forall s, poly_circuit s -> ohg_is_monogamous s = Ok true -> ohg_is_acyclic VecBackend s = Ok true ->
     exists n m f J, denotes s n m f J.
Proof.
  intros s (Ws & Zs & Ps) Hm Ha.
  assert (Mono : p_mono (abs s)).
  { apply (mono_bridge Ws). destruct (C17_monogamous Ws) as (bm & Hbm & Hiff).
    rewrite Hm in Hbm. inversion Hbm; subst bm. apply Hiff. reflexivity. }
  assert (Rank : p_ranked (abs s)).
  { apply (ranked_bridge Ws). apply (node_acyclic_ops Ws).
    destruct (C17_acyclic_ohg VecBackend_ok Ws) as (ba & Hba & Hiff).
    rewrite Ha in Hba. inversion Hba; subst ba. apply Hiff. reflexivity. }
  destruct (@plain_normal_form _ (abs s) eq_refl (wf_abs_pwf Ws) Zs Ps Mono Rank)
    as (s0 & n & m & f & J & Hd & Hi).
  exists n, m, f, J. exact (den_iso Hd Ws Hi).
Qed.

Theorem C14_full_clause2 :
  forall s, poly_circuit s -> ohg_is_monogamous s = Ok true -> ohg_is_acyclic VecBackend s = Ok true ->
     exists n m f J, denotes s n m f J.
Proof. exact C14_every_circuit_denotable. Qed.

(* the statement is literally the second conjunct of [C14_full]: with it, C14_full reduces to its
   three other clauses *)
Lemma C14_full_reduces :
  (forall s n m f J, denotes s n m f J -> derivative_statement s n m f J) ->
  (forall f g h, poly_circuit f -> poly_circuit g -> ohg_compose VecBackend Nat.eqb f g = Ok (Some h) ->
     exists F G H FG, optic_map_arrow VecBackend Nat.eqb poly_strict_optic f = Ok F /\
       optic_map_arrow VecBackend Nat.eqb poly_strict_optic g = Ok G /\
       optic_map_arrow VecBackend Nat.eqb poly_strict_optic h = Ok H /\
       ohg_compose VecBackend Nat.eqb F G = Ok (Some FG) /\ Iso (abs H) (abs FG)) ->
  (forall f g h, poly_circuit f -> poly_circuit g -> ohg_tensor f g = Ok h ->
     exists F G H FG, optic_map_arrow VecBackend Nat.eqb poly_strict_optic f = Ok F /\
       optic_map_arrow VecBackend Nat.eqb poly_strict_optic g = Ok G /\
       optic_map_arrow VecBackend Nat.eqb poly_strict_optic h = Ok H /\
       ohg_tensor F G = Ok FG /\ Iso (abs H) (abs FG)) ->
  C14_full.
Proof.
  intros H1 H3 H4. split; [exact H1|]. split; [exact C14_full_clause2|]. split; [exact H3|exact H4].
Qed.

(* the interface lengths are those of the circuit *)
Corollary C14_every_circuit_denotable_typed :
  forall s, poly_circuit s -> ohg_is_monogamous s = Ok true -> ohg_is_acyclic VecBackend s = Ok true ->
     exists f J, denotes s (length (table (o_s s))) (length (table (o_t s))) f J.
Proof.
  intros s Hp Hm Ha. destruct (C14_every_circuit_denotable Hp Hm Ha) as (n & m & f & J & Hd).
  destruct (den_facts Hd) as (_ & _ & Hn & Hm'). cbn [abs p_ins p_outs] in Hn, Hm'.
  exists f, J. rewrite Hn, Hm'. exact Hd.
Qed.

(* ================================================================== *)
(** * 7. example: seven hyperedges, scrambled node numbering and hyperedge order *)
(* ================================================================== *)
(* (z, x, y) |-> - ((x + y) * y) + 2, where z is discarded and 2 is the constant generator 12.
   nodes: x = 7, y = 2, z = 9, the two copies of y = 4 and 0, x + y = 8, the product = 1, its
   negation = 5, the constant = 3, the result = 6.
   hyperedges, in this order:  mul [8;0] -> [1], discard [9] -> [], add [5;3] -> [6],
   copy [2] -> [4;0], const 12 [] -> [3], neg [1] -> [5], add [7;4] -> [8]. *)
Definition ex_scrambled : ohg nat nat :=
  mkOHG (mkFF [9; 7; 2] 10) (mkFF [6] 10)
    (mkHG (mkIC (mkFF [2; 1; 2; 1; 0; 1; 2] 10) (mkFF [8; 0; 9; 5; 3; 2; 1; 7; 4] 10))
          (mkIC (mkFF [1; 0; 1; 2; 1; 1; 1] 8) (mkFF [1; 6; 4; 0; 3; 5; 8] 10))
          [0; 0; 0; 0; 0; 0; 0; 0; 0; 0] [1; 4; 0; 3; 12; 2; 0]).

Example C14_every_circuit_denotable_ex :
  poly_circuit ex_scrambled /\
  ohg_is_monogamous ex_scrambled = Ok true /\ ohg_is_acyclic VecBackend ex_scrambled = Ok true /\
  length (p_edges (abs ex_scrambled)) = 7 /\
  exists f J, denotes ex_scrambled 3 1 f J.
Proof.
  assert (Hp : poly_circuit ex_scrambled).
  { split; [repeat split; try reflexivity; repeat constructor|]. split; repeat constructor. }
  assert (Hm : ohg_is_monogamous ex_scrambled = Ok true) by (vm_compute; reflexivity).
  assert (Ha : ohg_is_acyclic VecBackend ex_scrambled = Ok true) by (vm_compute; reflexivity).
  split; [exact Hp|]. split; [exact Hm|]. split; [exact Ha|]. split; [reflexivity|].
  exact (C14_every_circuit_denotable_typed Hp Hm Ha).
Qed.

(* the acyclicity hypothesis is needed: neg [0] -> [0] on one node without interface is a monogamous
   circuit of the theory, and the check rejects it *)
Example C14_cyclic_rejected :
  let s := mkOHG (mkFF [] 1) (mkFF [] 1)
             (mkHG (mkIC (mkFF [1] 2) (mkFF [0] 1)) (mkIC (mkFF [1] 2) (mkFF [0] 1)) [0] [2]) in
  poly_circuit s /\ ohg_is_monogamous s = Ok true /\ ohg_is_acyclic VecBackend s = Ok false.
Proof.
  split; [|split; vm_compute; reflexivity].
  split; [repeat split; try reflexivity; repeat constructor|]. split; repeat constructor.
Qed.

Print Assumptions plain_normal_form.
Print Assumptions node_acyclic_ops.
Print Assumptions C14_every_circuit_denotable.
Print Assumptions C14_full_clause2.
Print Assumptions C14_every_circuit_denotable_typed.
Print Assumptions C14_every_circuit_denotable_ex.
