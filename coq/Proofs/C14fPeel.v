(* C14f, part 3: peeling a first hyperedge off a diagram.

   g0 = (w; e :: E; S ++ R; Ou) with e = x : S -> T, where no other reference goes to a node of S.
   Then g0 is a gluing of   Fx = gen(x) (x) id_|R|   and   rest = g0 without e and without the nodes
   of S, with inputs T ++ R  (renumbered along a list L of the remaining nodes).

     restrict L g      g renumbered by position in L (nodes outside L are dropped)
     peel_compose      IsCompose Fx (restrict L (w; E; T ++ R; Ou)) g0
     D_peel            D rest -> poly_arity x = Some (|S|, |T|) -> D g0 *)
From Coq Require Import List Arith Lia Bool ZArith Permutation.
From OHG Require Import Spec.Plain Proofs.PrimsThm Proofs.CCThm Proofs.C01Lemmas
  Proofs.C01Thm Proofs.QuotThm Proofs.C03Plain Proofs.C03Thm Proofs.EvalPlain Proofs.EvalFunctor
  Proofs.C14cPlain.
From OHG Require Import Proofs.C14Thm Proofs.C14fDen Proofs.C14fPerm.
Import ListNotations.

Set Implicit Arguments.
Arguments Nat.sub : simpl never.

(* ================================================================== *)
(** * 1. list facts *)
(* ================================================================== *)

Lemma map_nth_seq_app (A B C : list nat) :
  map (fun i => nth i (A ++ B ++ C) 0) (seq (length A) (length B)) = B.
Proof.
  apply nth_ext with 0 0; [rewrite map_length, seq_length; reflexivity|].
  intros j Hj. rewrite map_length, seq_length in Hj.
  rewrite nth_map_gen by (rewrite seq_length; exact Hj). rewrite seq_nth by exact Hj.
  rewrite app_nth2_plus. apply app_nth1. exact Hj.
Qed.

Lemma idx_inj L u v : In u L -> In v L -> idx u L = idx v L -> u = v.
Proof. intros Hu Hv E. rewrite <- (nth_idx _ _ Hu), <- (nth_idx _ _ Hv), E. reflexivity. Qed.

(* ================================================================== *)
(** * 2. renumbering a diagram along a list of its nodes *)
(* ================================================================== *)

Definition restrict (L : list nat) (g : pohg nat nat) : pohg nat nat :=
  mkP (repeat 0 (length L)) (map (map_edge (fun v => idx v L)) (p_edges g))
      (map (fun v => idx v L) (p_ins g)) (map (fun v => idx v L) (p_outs g)).

Lemma all_lt_map_idx L l : (forall v, In v l -> In v L) -> all_lt (length L) (map (fun v => idx v L) l).
Proof.
  intros H. apply Forall_forall. intros j Hj. apply in_map_iff in Hj. destruct Hj as (v & <- & Hv).
  apply idx_lt. apply H. exact Hv.
Qed.

Lemma restrict_pwf L g :
  (forall e v, In e (p_edges g) -> In v (pe_src e) \/ In v (pe_tgt e) -> In v L) ->
  (forall v, In v (p_ins g) -> In v L) -> (forall v, In v (p_outs g) -> In v L) ->
  pwf (restrict L g).
Proof.
  intros He Hi Ho. unfold pwf, restrict. cbn [p_nodes p_edges p_ins p_outs]. rewrite repeat_length.
  split; [|split].
  - intros e' Hin. apply in_map_iff in Hin. destruct Hin as (e & <- & Hin).
    cbn [map_edge pe_src pe_tgt]. split; apply all_lt_map_idx; intros v Hv; apply (He e v Hin); auto.
  - apply all_lt_map_idx. exact Hi.
  - apply all_lt_map_idx. exact Ho.
Qed.

Lemma restrict_zero L g : zero_nodes (restrict L g).
Proof. apply Forall_zero_repeat. Qed.

(* ================================================================== *)
(** * 3. the gluing *)
(* ================================================================== *)

Section Peel.
  Variables (w : list nat) (x : nat) (S T R Ou : list nat) (E : list (pedge nat)) (L : list nat).
  Local Notation N := (length w).
  Local Notation a := (length S).
  Local Notation b := (length T).
  Local Notation r := (length R).

  Hypothesis Zw : Forall (fun u => u = 0) w.
  Hypothesis HS : all_lt N S.
  Hypothesis NS : NoDup S.
  Hypothesis NL : NoDup L.
  Hypothesis HL : forall v, In v L <-> v < N /\ ~ In v S.
  Hypothesis HTL : forall v, In v T -> In v L.
  Hypothesis HRL : forall v, In v R -> In v L.
  Hypothesis HOL : forall v, In v Ou -> In v L.
  Hypothesis HEL : forall e v, In e E -> In v (pe_src e) \/ In v (pe_tgt e) -> In v L.

  Definition g0 : pohg nat nat := mkP w (mkPE x S T :: E) (S ++ R) Ou.
  Definition rest : pohg nat nat := restrict L (mkP w E (T ++ R) Ou).
  Definition Fx : pohg nat nat :=
    mkP (repeat 0 (a + b + r)) [mkPE x (seq 0 a) (seq a b)] (seq 0 a ++ seq (a + b) r) (seq a (b + r)).

  Lemma Fx_eq : Fx = ptensor (pgen (repeat 0 (a + b)) x a b) (pid nat (repeat 0 r)).
  Proof.
    unfold Fx, ptensor, pgen, pid, pwire. cbn [p_nodes p_edges p_ins p_outs map app].
    rewrite !repeat_length, <- repeat_app, !shiftl_seq, seq_app. reflexivity.
  Qed.

  Let X := S ++ (T ++ R) ++ L.
  Let q (i : nat) : nat := nth i X 0.
  Let idL (v : nat) : nat := idx v L.

  Lemma X_len : length X = a + b + r + length L.
  Proof. unfold X. rewrite !app_length. lia. Qed.

  Lemma X_lt v : In v X -> v < N.
  Proof.
    unfold X. rewrite !in_app_iff. intros [H|[[H|H]|H]].
    - eapply all_lt_In; [exact HS|exact H].
    - apply HL. apply HTL. exact H.
    - apply HL. apply HRL. exact H.
    - apply HL. exact H.
  Qed.

  Lemma q_lo i : i < a -> q i = nth i S 0.
  Proof. intros H. unfold q, X. apply app_nth1. exact H. Qed.

  Lemma q_mid k : k < b + r -> q (a + k) = nth k (T ++ R) 0.
  Proof.
    intros H. unfold q, X. rewrite app_nth2_plus. apply app_nth1. rewrite app_length. exact H.
  Qed.

  Lemma q_hi j : q (j + (a + b + r)) = nth j L 0.
  Proof.
    unfold q, X. rewrite app_assoc.
    replace (j + (a + b + r)) with (length (S ++ T ++ R) + j) by (rewrite !app_length; lia).
    apply app_nth2_plus.
  Qed.

  Lemma map_q_S : map q (seq 0 a) = S.
  Proof. unfold q, X. exact (map_nth_seq_app [] S ((T ++ R) ++ L)). Qed.

  Lemma map_q_T : map q (seq a b) = T.
  Proof. unfold q, X. rewrite <- app_assoc. exact (map_nth_seq_app S T (R ++ L)). Qed.

  Lemma map_q_R : map q (seq (a + b) r) = R.
  Proof.
    unfold q, X. rewrite <- app_assoc, app_assoc, <- app_length.
    exact (map_nth_seq_app (S ++ T) R L).
  Qed.

  Lemma map_q_L l : (forall v, In v l -> In v L) ->
    map q (shiftl (a + b + r) (map idL l)) = l.
  Proof.
    intros H. unfold shiftl. rewrite !map_map. rewrite <- (map_id l) at 2. apply map_ext_in.
    intros v Hv. rewrite q_hi. apply nth_idx. apply H. exact Hv.
  Qed.

  Lemma map_edge_q_L e : In e E ->
    map_edge q (shift_edge (a + b + r) (map_edge idL e)) = e.
  Proof.
    intros He. destruct e as [l s t]. unfold map_edge, shift_edge. cbn [pe_lbl pe_src pe_tgt].
    f_equal; apply map_q_L; intros v Hv; apply (HEL _ v He); cbn [pe_src pe_tgt]; auto.
  Qed.

  Lemma nodes_join : length (p_nodes (pjoin Fx rest)) = a + b + r + length L.
  Proof. cbn [pjoin Fx rest restrict p_nodes]. rewrite app_length, !repeat_length. reflexivity. Qed.

  Lemma zero_join : zero_nodes (pjoin Fx rest).
  Proof.
    unfold zero_nodes. cbn [pjoin Fx rest restrict p_nodes]. apply Forall_app.
    split; apply Forall_zero_repeat.
  Qed.

  Lemma peel_quot : IsQuot (pjoin Fx rest) q g0.
  Proof.
    unfold IsQuot. rewrite nodes_join. split; [|split; [|split; [|split; [|split]]]].
    - intros i Hi. cbn [g0 p_nodes]. apply X_lt. unfold q. apply nth_In. rewrite X_len. exact Hi.
    - cbn [g0 p_nodes]. intros j Hj.
      assert (Hin : In j X).
      { unfold X. rewrite !in_app_iff. destruct (in_dec Nat.eq_dec j S) as [H|H]; [auto|].
        right. right. apply HL. auto. }
      destruct (In_nth _ _ 0 Hin) as (i & Hi & Ei). exists i. rewrite X_len in Hi. auto.
    - intros i Hi. rewrite (zero_nth_error zero_join) by (rewrite nodes_join; exact Hi).
      apply (@zero_nth_error g0 (q i) Zw). cbn [g0 p_nodes]. apply X_lt. unfold q. apply nth_In.
      rewrite X_len. exact Hi.
    - cbn [pjoin Fx rest restrict g0 p_nodes p_edges map app]. rewrite repeat_length.
      unfold map_edge at 1. cbn [pe_lbl pe_src pe_tgt]. rewrite map_q_S, map_q_T. f_equal.
      rewrite map_map, map_map. rewrite <- (map_id E) at 1. apply map_ext_in.
      intros e He. symmetry. apply map_edge_q_L. exact He.
    - cbn [pjoin Fx g0 p_ins]. rewrite map_app, map_q_S, map_q_R. reflexivity.
    - cbn [pjoin Fx rest restrict g0 p_nodes p_outs]. rewrite repeat_length. symmetry.
      apply map_q_L. exact HOL.
  Qed.

  Lemma glue_pairs_peel i j : In (i, j) (glue_pairs Fx rest) <->
    exists k, k < b + r /\ i = a + k /\ j = idL (nth k (T ++ R) 0) + (a + b + r).
  Proof.
    unfold glue_pairs. cbn [Fx rest restrict p_outs p_ins p_nodes]. rewrite repeat_length.
    rewrite In_combine_nth by (rewrite seq_length, shiftl_length, map_length, app_length; reflexivity).
    rewrite seq_length. split; intros (k & Hk & E1 & E2); exists k; (split; [exact Hk|]).
    - rewrite seq_nth in E1 by exact Hk.
      rewrite nth_shiftl in E2 by (rewrite map_length, app_length; exact Hk).
      rewrite nth_map_gen in E2 by (rewrite app_length; exact Hk). auto.
    - rewrite seq_nth by exact Hk.
      rewrite nth_shiftl by (rewrite map_length, app_length; exact Hk).
      rewrite nth_map_gen by (rewrite app_length; exact Hk). auto.
  Qed.

  Lemma TR_L k : k < b + r -> In (nth k (T ++ R) 0) L.
  Proof.
    intros Hk. assert (H : In (nth k (T ++ R) 0) (T ++ R)) by (apply nth_In; rewrite app_length; exact Hk).
    apply in_app_or in H. destruct H as [H|H]; [apply HTL|apply HRL]; exact H.
  Qed.

  Definition rep (v : nat) : nat :=
    if in_dec Nat.eq_dec v S then idx v S else idL v + (a + b + r).

  Lemma peel_ker : KerIs (a + b + r + length L) q (glue_pairs Fx rest).
  Proof.
    apply ker_by_rep with rep.
    - intros i j Hin. apply glue_pairs_peel in Hin. destruct Hin as (k & Hk & -> & ->).
      rewrite q_mid by exact Hk. rewrite q_hi. symmetry. apply nth_idx. apply TR_L. exact Hk.
    - intros i Hi. destruct (lt_dec i a) as [H1|H1]; [|destruct (lt_dec i (a + b + r)) as [H2|H2]].
      + rewrite q_lo by exact H1. unfold rep.
        destruct (in_dec Nat.eq_dec (nth i S 0) S) as [Hin|Hn].
        * rewrite idx_nth by assumption. apply conn_refl.
        * exfalso. apply Hn. apply nth_In. exact H1.
      + replace i with (a + (i - a)) by lia. assert (Hk : i - a < b + r) by lia.
        rewrite q_mid by exact Hk. pose proof (TR_L Hk) as HinL. unfold rep.
        destruct (in_dec Nat.eq_dec (nth (i - a) (T ++ R) 0) S) as [Hin|Hn].
        * exfalso. apply HL in HinL. tauto.
        * apply conn_step. apply glue_pairs_peel. exists (i - a). auto.
      + replace i with ((i - (a + b + r)) + (a + b + r)) at 2 by lia. rewrite q_hi.
        assert (Hj : i - (a + b + r) < length L) by lia.
        assert (HinL : In (nth (i - (a + b + r)) L 0) L) by (apply nth_In; exact Hj).
        unfold rep. destruct (in_dec Nat.eq_dec (nth (i - (a + b + r)) L 0) S) as [Hin|Hn].
        * exfalso. apply HL in HinL. tauto.
        * unfold idL. rewrite idx_nth by assumption.
          replace (i - (a + b + r) + (a + b + r)) with i by lia. apply conn_refl.
  Qed.

  Theorem peel_compose : IsCompose Fx rest g0.
  Proof.
    apply IsCompose_ker. exists q. split; [exact peel_quot|]. rewrite nodes_join. exact peel_ker.
  Qed.

  Theorem D_peel : poly_arity x = Some (a, b) -> D rest -> D g0.
  Proof.
    intros Ha Hd. apply (@D_seq Fx rest g0).
    - rewrite Fx_eq. apply D_par; [apply D_gen; exact Ha|apply D_id].
    - exact Hd.
    - cbn [Fx rest restrict p_outs p_ins]. rewrite seq_length, map_length, app_length. reflexivity.
    - exact peel_compose.
  Qed.
End Peel.

Print Assumptions peel_compose.
Print Assumptions D_peel.
