(* C14f, part 2: every permutation wiring is denotable.

     W n sigma := the edge-free diagram on n nodes with inputs sigma and outputs 0..n-1

   perm_D         a stdlib [Permutation l l'] is realised by a position list pi with D (W _ pi):
                  skip = id_1 (x) -, swap = twist(1,1) (x) id, trans = sequential composition
   D_W            D (W n sigma) for every permutation sigma of 0..n-1
   D_wiring       every monogamous edge-free diagram is in D           (base case of the normal form)
   D_reindex      the inputs of a diagram in D can be permuted at will *)
From Coq Require Import List Arith Lia Bool ZArith Permutation.
From OHG Require Import Spec.Plain Proofs.PrimsThm Proofs.CCThm Proofs.C01Lemmas
  Proofs.C01Thm Proofs.QuotThm Proofs.C03Plain Proofs.C03Thm Proofs.EvalPlain Proofs.EvalFunctor
  Proofs.C14cPlain.
From OHG Require Import Proofs.C14Thm Proofs.C14fDen.
Import ListNotations.

Set Implicit Arguments.
Arguments Nat.sub : simpl never.

(* ================================================================== *)
(** * 1. positions in duplicate-free lists *)
(* ================================================================== *)

Fixpoint idx (v : nat) (l : list nat) : nat :=
  match l with
  | [] => 0
  | x :: r => if x =? v then 0 else S (idx v r)
  end.

Lemma idx_lt v l : In v l -> idx v l < length l.
Proof.
  induction l as [|x l IH]; intros H; [destruct H|]. cbn [idx length].
  destruct (x =? v) eqn:E; [lia|]. apply Nat.eqb_neq in E.
  destruct H as [H|H]; [congruence|]. specialize (IH H). lia.
Qed.

Lemma nth_idx v l : In v l -> nth (idx v l) l 0 = v.
Proof.
  induction l as [|x l IH]; intros H; [destruct H|]. cbn [idx].
  destruct (x =? v) eqn:E.
  - apply Nat.eqb_eq in E. exact E.
  - apply Nat.eqb_neq in E. destruct H as [H|H]; [congruence|]. cbn [nth]. apply IH. exact H.
Qed.

Lemma idx_nth l : NoDup l -> forall j, j < length l -> idx (nth j l 0) l = j.
Proof.
  induction l as [|x l IH]; intros Hnd j Hj; cbn [length] in Hj; [lia|].
  inversion Hnd as [|x' l' Hnin Hnd']; subst. destruct j as [|j]; cbn [nth idx].
  - rewrite Nat.eqb_refl. reflexivity.
  - destruct (x =? nth j l 0) eqn:E.
    + apply Nat.eqb_eq in E. exfalso. apply Hnin. rewrite E. apply nth_In. lia.
    + f_equal. apply IH; [exact Hnd'|lia].
Qed.

Lemma map_idx_self l : NoDup l -> map (fun v => idx v l) l = seq 0 (length l).
Proof.
  intros Hnd. apply nth_ext with 0 0; [rewrite map_length, seq_length; reflexivity|].
  intros j Hj. rewrite map_length in Hj. rewrite nth_map_gen by exact Hj.
  rewrite seq_nth by exact Hj. apply idx_nth; assumption.
Qed.

Lemma map_nth_idx l l' : (forall v, In v l' -> In v l) -> map (fun j => nth j l 0) (map (fun v => idx v l) l') = l'.
Proof.
  intros H. rewrite map_map. rewrite <- (map_id l') at 2. apply map_ext_in. intros v Hv.
  apply nth_idx. apply H. exact Hv.
Qed.

Lemma map_nth_all_eq (M : list nat) n : n = length M -> map (fun i => nth i M 0) (seq 0 n) = M.
Proof. intros ->. apply map_nth_all. Qed.

Lemma all_lt_nth n l i : all_lt n l -> i < length l -> nth i l 0 < n.
Proof. intros H Hi. eapply all_lt_In; [exact H|]. apply nth_In. exact Hi. Qed.

Lemma perm_seq_all_lt n l : Permutation l (seq 0 n) -> all_lt n l.
Proof. intros H. apply (@perm_seq_facts _ _ H). Qed.

Lemma perm_seq_length n l : Permutation l (seq 0 n) -> length l = n.
Proof. intros H. apply (@perm_seq_facts _ _ H). Qed.

Lemma perm_seq_NoDup n l : Permutation l (seq 0 n) -> NoDup l.
Proof. intros H. apply (@perm_seq_facts _ _ H). Qed.

(* ================================================================== *)
(** * 2. the wirings W n sigma, their composites and juxtapositions *)
(* ================================================================== *)

Definition W (n : nat) (sigma : list nat) : pohg nat nat := pwire nat (repeat 0 n) sigma (seq 0 n).

Lemma W_pwf n sigma : all_lt n sigma -> pwf (W n sigma).
Proof.
  intros H. apply pwf_pwire_lt; rewrite repeat_length; [exact H|]. apply all_lt_seq. lia.
Qed.

Lemma W_zero n sigma : zero_nodes (W n sigma).
Proof. apply Forall_zero_repeat. Qed.

Lemma map_nth_error_repeat n l : all_lt n l -> map (nth_error (repeat 0 n)) l = repeat (Some 0) (length l).
Proof.
  intros H. induction l as [|x l IH]; [reflexivity|].
  inversion H as [|x' l' Hx Hl]; subst. cbn [map length repeat]. f_equal.
  - rewrite (nth_error_nth' _ 0) by (rewrite repeat_length; exact Hx).
    rewrite nth_repeat. reflexivity.
  - apply IH. exact Hl.
Qed.

(* composing on the left with W n rho re-indexes the inputs *)
Lemma W_left n rho f : pwf f -> zero_nodes f -> all_lt n rho -> length (p_ins f) = n ->
  IsCompose (W n rho) f (with_io f (map (fun v => nth v (p_ins f) 0) rho) (p_outs f)).
Proof.
  intros Wf Zf Hr Hl. unfold W.
  apply wire_left_gen; rewrite ?repeat_length.
  - exact Wf.
  - apply covers_seq.
  - exact Hr.
  - apply all_lt_seq. lia.
  - apply map_nth_all_eq. symmetry. exact Hl.
  - unfold src_type. rewrite (zero_type Zf (proj1 (proj2 Wf))).
    rewrite map_nth_error_repeat by (apply all_lt_seq; lia). rewrite seq_length, Hl. reflexivity.
Qed.

Lemma W_compose n rho tau : all_lt n rho -> all_lt n tau -> length tau = n ->
  IsCompose (W n rho) (W n tau) (W n (map (fun v => nth v tau 0) rho)).
Proof.
  intros Hr Ht Hl.
  exact (@W_left n rho (W n tau) (W_pwf Ht) (W_zero n tau) Hr Hl).
Qed.

Lemma W_tensor n m sigma tau : ptensor (W n sigma) (W m tau) = W (n + m) (sigma ++ shiftl n tau).
Proof.
  unfold W, ptensor, pwire. cbn [p_nodes p_edges p_ins p_outs map app].
  rewrite repeat_length, <- repeat_app, shiftl_seq, seq_app. reflexivity.
Qed.

Lemma W_id n : W n (seq 0 n) = pid nat (repeat 0 n).
Proof. unfold W, pid. rewrite repeat_length. reflexivity. Qed.

Lemma W_twist11 : W 2 [1; 0] = ptwist nat (repeat 0 1) (repeat 0 1).
Proof. reflexivity. Qed.

(* ================================================================== *)
(** * 3. every permutation is a composite of juxtaposed twists *)
(* ================================================================== *)

Lemma map_nth_shift1 (x : nat) l pi :
  map (fun j => nth j (x :: l) 0) (shiftl 1 pi) = map (fun j => nth j l 0) pi.
Proof.
  unfold shiftl. rewrite map_map. apply map_ext. intros j. rewrite Nat.add_1_r. reflexivity.
Qed.

Lemma map_nth_shift2 (x y : nat) l :
  map (fun j => nth j (x :: y :: l) 0) (seq 2 (length l)) = l.
Proof.
  transitivity (map (fun i => nth i l 0) (seq 0 (length l))); [|apply map_nth_all].
  change (seq 2 (length l)) with (seq (0 + 2) (length l)).
  rewrite <- (shiftl_seq 2 0 (length l)). unfold shiftl.
  rewrite map_map. apply map_ext. intros j. rewrite Nat.add_comm. reflexivity.
Qed.

Theorem perm_D (l l' : list nat) : Permutation l l' ->
  exists pi, Permutation pi (seq 0 (length l)) /\ l' = map (fun j => nth j l 0) pi /\
             D (W (length l) pi).
Proof.
  induction 1 as [|x l l' HP IH|x y l|l l' l'' HP1 IH1 HP2 IH2].
  - exists []. split; [constructor|]. split; [reflexivity|]. exact (D_id 0).
  - destruct IH as (pi & Hp & E & Hd). exists (0 :: shiftl 1 pi). cbn [length]. split; [|split].
    + cbn [seq]. apply perm_skip. change 1 with (0 + 1) at 2. rewrite <- (shiftl_seq 1 0).
      apply Permutation_map. exact Hp.
    + cbn [map]. rewrite map_nth_shift1, <- E. reflexivity.
    + change (0 :: shiftl 1 pi) with ([0] ++ shiftl 1 pi). change (S (length l)) with (1 + length l).
      rewrite <- W_tensor. apply D_par; [exact (D_id 1)|exact Hd].
  - exists (1 :: 0 :: seq 2 (length l)). cbn [length]. split; [|split].
    + cbn [seq]. apply perm_swap.
    + cbn [map]. rewrite map_nth_shift2. reflexivity.
    + change (1 :: 0 :: seq 2 (length l)) with ([1; 0] ++ seq 2 (length l)).
      change (seq 2 (length l)) with (seq (0 + 2) (length l)).
      rewrite <- (shiftl_seq 2 0 (length l)).
      change (S (S (length l))) with (2 + length l). rewrite <- W_tensor.
      apply D_par; [rewrite W_twist11; apply D_twist|rewrite W_id; apply D_id].
  - destruct IH1 as (p1 & Hp1 & E1 & Hd1). destruct IH2 as (p2 & Hp2 & E2 & Hd2).
    assert (Hl : length l' = length l) by (symmetry; apply Permutation_length; exact HP1).
    rewrite Hl in Hp2, Hd2. set (n := length l) in *.
    pose proof (@perm_seq_all_lt _ _ Hp1) as L1. pose proof (@perm_seq_all_lt _ _ Hp2) as L2.
    pose proof (@perm_seq_length _ _ Hp1) as N1.
    exists (map (fun v => nth v p1 0) p2). split; [|split].
    + apply Permutation_trans with (map (fun v => nth v p1 0) (seq 0 n)).
      * apply Permutation_map. exact Hp2.
      * rewrite map_nth_all_eq by (symmetry; exact N1). exact Hp1.
    + rewrite E2, E1, map_map. apply map_ext_in. intros j Hj.
      apply nth_map_gen. rewrite N1. eapply all_lt_In; [exact L2|exact Hj].
    + apply (@D_seq (W n p2) (W n p1)); [exact Hd2|exact Hd1| |apply W_compose; assumption].
      cbn [W pwire p_outs p_ins]. rewrite seq_length. symmetry. exact N1.
Qed.

Theorem D_W n sigma : Permutation sigma (seq 0 n) -> D (W n sigma).
Proof.
  intros Hp. destruct (perm_D (Permutation_sym Hp)) as (pi & Hpi & E & Hd).
  rewrite seq_length in Hpi, Hd.
  assert (E' : sigma = pi).
  { rewrite E. rewrite <- (map_id pi) at 2. apply map_ext_in. intros j Hj.
    apply seq_nth. eapply all_lt_In; [exact (@perm_seq_all_lt _ _ Hpi)|exact Hj]. }
  rewrite E'. exact Hd.
Qed.

(* ================================================================== *)
(** * 4. consequences: edge-free monogamous diagrams, re-indexing of inputs *)
(* ================================================================== *)

Theorem D_wiring (g : pohg nat nat) : zero_nodes g -> p_edges g = [] ->
  Permutation (p_ins g) (seq 0 (length (p_nodes g))) ->
  Permutation (p_outs g) (seq 0 (length (p_nodes g))) -> D g.
Proof.
  destruct g as [w E I Ou]. cbn [p_nodes p_edges p_ins p_outs]. intros Z -> HI HO.
  set (n := length w) in *.
  pose proof (@perm_seq_NoDup _ _ HO) as NO. pose proof (@perm_seq_length _ _ HO) as LO.
  pose proof (@perm_seq_all_lt _ _ HO) as AO.
  assert (InO : forall v, v < n -> In v Ou).
  { intros v Hv. apply (Permutation_in _ (Permutation_sym HO)). apply in_seq. lia. }
  assert (InI : forall v, In v I -> In v Ou).
  { intros v Hv. apply InO. eapply all_lt_In; [exact (@perm_seq_all_lt _ _ HI)|exact Hv]. }
  apply D_iso with (W n (map (fun v => idx v Ou) I)).
  - apply D_W. apply Permutation_trans with (map (fun v => idx v Ou) Ou).
    + apply Permutation_map. apply Permutation_trans with (seq 0 n); [exact HI|].
      apply Permutation_sym. exact HO.
    + rewrite map_idx_self by exact NO. rewrite LO. apply Permutation_refl.
  - apply Iso_of_perm with (fun j => nth j Ou 0); cbn [W pwire p_nodes p_edges p_ins p_outs].
    + rewrite repeat_length. reflexivity.
    + rewrite repeat_length. split.
      * intros i Hi. apply all_lt_nth; [exact AO|lia].
      * intros i j Hi Hj E. apply (proj1 (NoDup_nth Ou 0) NO); lia.
    + rewrite repeat_length. intros i Hi.
      rewrite (nth_error_nth' (repeat 0 n) 0) by (rewrite repeat_length; exact Hi).
      rewrite nth_repeat.
      apply (@zero_nth_error (mkP w (@nil (pedge nat)) I Ou)); [exact Z|].
      cbn [p_nodes]. apply all_lt_nth; [exact AO|lia].
    + constructor.
    + symmetry. apply map_nth_idx. exact InI.
    + symmetry. apply map_nth_all_eq. symmetry. exact LO.
Qed.

Theorem D_reindex_pos f sigma : D f -> Permutation sigma (seq 0 (length (p_ins f))) ->
  D (with_io f (map (fun j => nth j (p_ins f) 0) sigma) (p_outs f)).
Proof.
  intros Hd Hp. set (n := length (p_ins f)) in *.
  apply (@D_seq (W n sigma) f).
  - apply D_W. exact Hp.
  - exact Hd.
  - cbn [W pwire p_outs]. apply seq_length.
  - apply W_left; [exact (D_pwf Hd)|exact (D_zero Hd)|exact (@perm_seq_all_lt _ _ Hp)|reflexivity].
Qed.

Theorem D_reindex f I' : D f -> NoDup (p_ins f) -> Permutation I' (p_ins f) ->
  D (with_io f I' (p_outs f)).
Proof.
  intros Hd Hnd Hp.
  assert (E : I' = map (fun j => nth j (p_ins f) 0) (map (fun v => idx v (p_ins f)) I')).
  { symmetry. apply map_nth_idx. intros v Hv. exact (Permutation_in _ Hp Hv). }
  rewrite E. apply D_reindex_pos; [exact Hd|].
  rewrite <- (map_idx_self Hnd). apply Permutation_map. exact Hp.
Qed.

(* a permutation with a scrambled numbering: three wires, inputs [2;0;1], outputs [1;2;0] *)
Example D_wiring_ex : D (mkP [0; 0; 0] [] [2; 0; 1] [1; 2; 0]).
Proof.
  apply D_wiring; cbn [p_nodes p_edges p_ins p_outs length seq].
  - repeat constructor.
  - reflexivity.
  - apply (Permutation_cons_app [0; 1] [] 2). apply Permutation_refl.
  - apply (Permutation_cons_app [0] [2] 1). apply perm_swap.
Qed.

Print Assumptions perm_D.
Print Assumptions D_W.
Print Assumptions D_wiring.
Print Assumptions D_reindex.
