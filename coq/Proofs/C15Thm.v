(* C15: layering of the operations of an open hypergraph ([layer], [layered_operations],
   Model/Graph.v, model of src/strict/layer.rs), and C17: acyclicity ([hg_is_acyclic],
   src/strict/hypergraph/acyclic.rs), for every back-end satisfying [BackendOK].

   Section 1: one more invariant of [kahn]: an unvisited vertex keeps the order entry 0.
   Section 2: closures of pointwise-equivalent relations; levels and chains over a relation.
   Section 3: [converse_iter].
   Section 4: the C15 theorems.
   Section 5: C17_acyclic.
   Section 6: examples. *)
From OHG Require Import Spec.Plain Spec.GraphSpec Proofs.PrimsThm Proofs.SegThm Proofs.C08Thm
  Proofs.BackendInst Proofs.KahnThm Proofs.AdjThm.
From Coq Require Import Relation_Operators Operators_Properties Permutation.

Set Implicit Arguments.

Arguments Nat.sub : simpl never.

(* ================================================================== *)
(** * Section 1: unvisited vertices keep the initial order entry *)
(* ================================================================== *)

Section KahnExtra.
  Variable B : Backend.
  Hypothesis OK : BackendOK B.

  Local Ltac step H :=
    match type of H with
    | bind ?m _ = Ok _ =>
        let x := fresh "x" in
        destruct m as [x| |]; cbn [bind] in H; [|discriminate H|discriminate H]
    end.

  (* what one round of the loop does to the [order] and [unvisited] arrays *)
  Lemma kahn_body_shape adj st st' : kahn_body B adj st = Ok st' ->
    scatter_assign_constant (k_unvisited st) (k_frontier st) 0 = Ok (k_unvisited st') /\
    scatter_assign_constant (k_order st) (k_frontier st) (k_depth st) = Ok (k_order st').
  Proof.
    unfold kahn_body. intros H.
    destruct (scatter_assign_constant (k_unvisited st) (k_frontier st) 0) as [unv| |];
      cbn [bind] in H; try discriminate H.
    destruct (scatter_assign_constant (k_order st) (k_frontier st) (k_depth st)) as [ord| |];
      cbn [bind] in H; try discriminate H.
    step H. step H.
    match type of H with (let '(_, _) := ?p in _) = _ => destruct p as [rix rcount] end.
    repeat step H.
    inversion H; subst st'. cbn [k_unvisited k_order]. auto.
  Qed.

  Definition Unv0 (adj : icf) (st : kstate) : Prop :=
    forall v, v < ic_len adj -> nth v (k_unvisited st) 0 = 1 -> nth v (k_order st) 0 = 0.

  Section Fixed.
    Variable adj : icf.
    Hypothesis Hwf : wf_icf adj.
    Hypothesis Htg : target (ic_values adj) = ic_len adj.

    Lemma kahn_body_unv0 k st st' :
      Inv adj k st -> Unv0 adj st -> kahn_body B adj st = Ok st' -> Unv0 adj st'.
    Proof.
      intros HI HU Hb. destruct (kahn_body_shape _ _ Hb) as (E1 & E2).
      assert (HF : Forall (fun i => i < ic_len adj) (k_frontier st)).
      { apply Forall_forall. intros v Hv. apply (inv_fr HI) in Hv. eapply lvl_lt; eauto. }
      rewrite scatter_assign_constant_ok in E1 by (rewrite (inv_len_unv HI); exact HF).
      rewrite scatter_assign_constant_ok in E2 by (rewrite (inv_len_ord HI); exact HF).
      inversion E1 as [E1']. inversion E2 as [E2']. clear E1 E2.
      intros v Hv H1. rewrite <- E1' in H1. rewrite <- E2'.
      rewrite nth_sac_pure in H1 by (rewrite (inv_len_unv HI); exact HF).
      rewrite nth_sac_pure by (rewrite (inv_len_ord HI); exact HF).
      destruct (existsb (Nat.eqb v) (k_frontier st)). discriminate. apply HU; auto.
    Qed.

    Lemma kahn_loop_unv0 : forall c k st st',
      Inv adj k st -> Unv0 adj st -> kahn_loop B adj c st = Ok st' -> Unv0 adj st'.
    Proof.
      induction c as [|c IH]; intros k st st' HI HU Hl; cbn [kahn_loop] in Hl.
      - inversion Hl; subst; auto.
      - destruct (k_frontier st) as [|x fr] eqn:E.
        + inversion Hl; subst; auto.
        + destruct (kahn_body_ok (BackendOK_sparse OK) Hwf Htg HI) as (st1 & Hb & HI1).
          rewrite Hb in Hl. cbn [bind] in Hl.
          apply (IH (S k) st1 st' HI1); auto. exact (kahn_body_unv0 HI HU Hb).
    Qed.

    (* an unvisited vertex still carries the initial order entry 0 *)
    Lemma kahn_unvisited_zero order unv : kahn B adj = Ok (order, unv) ->
      forall v, v < ic_len adj -> nth v unv 0 = 1 -> nth v order 0 = 0.
    Proof.
      unfold kahn. rewrite indegree_ok by auto. cbn [bind table].
      pose proof (@inv_init adj Htg) as HI0. cbv zeta in HI0.
      match goal with |- bind ?m _ = _ -> _ => destruct m as [st| |] eqn:El end; cbn [bind]; try discriminate.
      intros H. inversion H; subst order unv.
      apply (kahn_loop_unv0 _ HI0) in El; auto.
      intros v Hv _. cbn [k_order]. unfold fill. apply nth_repeat_lt. exact Hv.
    Qed.

    (* hence every order entry is below the number of vertices *)
    Lemma kahn_order_lt order unv : kahn B adj = Ok (order, unv) -> all_lt (ic_len adj) order.
    Proof.
      intros Hk. destruct (kahn_correct OK Hwf Htg) as (order' & unv' & Hk' & Hlo & _ & Hbool & Hvis & Hord).
      rewrite Hk in Hk'. inversion Hk'; subst order' unv'. clear Hk'.
      apply Forall_forall. intros d Hd. apply (In_nth _ _ 0) in Hd. destruct Hd as (v & Hv & <-).
      rewrite Hlo in Hv. destruct (Hbool v Hv) as [E|E].
      - apply Hvis in E; auto. destruct E as (d & Hl). rewrite (Hord v d Hv Hl).
        eapply lvl_bound; eauto.
      - rewrite (kahn_unvisited_zero Hk Hv E). lia.
    Qed.
  End Fixed.
End KahnExtra.

(* ================================================================== *)
(** * Section 2: relations, levels, chains *)
(* ================================================================== *)

Lemma clos_trans_incl (R S : nat -> nat -> Prop) : (forall u v, R u v -> S u v) ->
  forall u v, clos_trans nat R u v -> clos_trans nat S u v.
Proof.
  intros H u v Hc. induction Hc as [u v Huv|u w v _ IH1 _ IH2].
  - apply t_step. auto.
  - eapply t_trans; eauto.
Qed.

Lemma clos_rt_incl (R S : nat -> nat -> Prop) : (forall u v, R u v -> S u v) ->
  forall u v, clos_refl_trans nat R u v -> clos_refl_trans nat S u v.
Proof.
  intros H u v Hc. induction Hc as [u v Huv|u|u w v _ IH1 _ IH2].
  - apply rt_step. auto.
  - apply rt_refl.
  - eapply rt_trans; eauto.
Qed.

Section RelLevels.
  Variable n : nat.
  Variable E : nat -> nat -> Prop.   (* E u v: v depends directly on u *)

  (* RLvl v d: every E-ancestor of v (below n) has a level and d is the length of the longest
     E-chain ending in v -- the relation [KahnThm.Lvl] with an arbitrary edge relation *)
  Inductive RLvl : nat -> nat -> Prop :=
  | rlvl_intro v d : v < n ->
      (forall u, u < n -> E u v -> exists d', d' < d /\ RLvl u d') ->
      (d = 0 \/ exists u, u < n /\ E u v /\ RLvl u (d - 1)) ->
      RLvl v d.

  Lemma rlvl_lt v d : RLvl v d -> v < n.
  Proof. intros H. inversion H; auto. Qed.

  Lemma rlvl_pred u v d : RLvl v d -> u < n -> E u v -> exists d', d' < d /\ RLvl u d'.
  Proof. intros H. inversion H; subst; auto. Qed.

  Lemma rlvl_top v d : RLvl v d -> d = 0 \/ exists u, u < n /\ E u v /\ RLvl u (d - 1).
  Proof. intros H. inversion H; subst; auto. Qed.

  (* transport to/from the level relation of KahnThm *)
  Lemma RLvl_Lvl sc : (forall u v, u < n -> v < n -> (E u v <-> edge sc u v)) ->
    forall d v, RLvl v d <-> Lvl n sc v d.
  Proof.
    intros Hiff. induction d as [d IH] using lt_wf_ind. intros v. split.
    - intros H. pose proof (rlvl_lt H) as Hv. constructor; auto.
      + intros u Hu He. apply Hiff in He; auto.
        destruct (rlvl_pred H Hu He) as (d' & Hd' & Hl). exists d'. split; auto. apply IH; auto.
      + destruct (Nat.eq_dec d 0) as [->|Hd]. left; auto. right.
        destruct (rlvl_top H) as [->|(u & Hu & He & Hl)]. congruence.
        exists u. split; auto. split. apply Hiff; auto. apply IH; auto. lia.
    - intros H. pose proof (lvl_lt H) as Hv. constructor; auto.
      + intros u Hu He. apply Hiff in He; auto.
        destruct (lvl_pred H Hu He) as (d' & Hd' & Hl). exists d'. split; auto. apply IH; auto.
      + destruct (Nat.eq_dec d 0) as [->|Hd]. left; auto. right.
        destruct (lvl_top H) as [->|(u & Hu & He & Hl)]. congruence.
        exists u. split; auto. split. apply Hiff; auto. apply IH; auto. lia.
  Qed.

  (* chains  x_0 E x_1 E ... E x_k = y  of vertices below n, all satisfying P *)
  Inductive dchain (P : nat -> Prop) : nat -> nat -> Prop :=
  | dc0 y : y < n -> P y -> dchain P 0 y
  | dcS k x y : dchain P k x -> y < n -> E x y -> P y -> dchain P (S k) y.

  Lemma dchain_lt P k y : dchain P k y -> y < n.
  Proof. intros H. inversion H; auto. Qed.

  Lemma dchain_impl (P Q : nat -> Prop) : (forall x, x < n -> P x -> Q x) ->
    forall k y, dchain P k y -> dchain Q k y.
  Proof.
    intros HPQ k y H. induction H as [y Hy Hp|k x y _ IH Hy He Hp].
    - apply dc0; auto.
    - eapply dcS; eauto.
  Qed.

  (* a vertex of level d ends a chain of d+1 vertices, each of which has a level *)
  Lemma rlvl_chain : forall d y, RLvl y d -> dchain (fun x => exists e, RLvl x e) d y.
  Proof.
    induction d as [|d IH]; intros y H.
    - apply dc0. eapply rlvl_lt; eauto. eauto.
    - destruct (rlvl_top H) as [E0|(u & Hu & He & Hl)]. discriminate.
      replace (S d - 1) with d in Hl by lia.
      eapply dcS. apply IH; eauto. eapply rlvl_lt; eauto. exact He. eauto.
  Qed.

  (* and no chain ending in it is longer *)
  Lemma rlvl_chain_max P : forall k y, dchain P k y -> forall d, RLvl y d -> k <= d.
  Proof.
    intros k y H. induction H as [y Hy Hp|k x y Hc IH Hy He Hp]; intros d Hl. lia.
    destruct (rlvl_pred Hl (dchain_lt Hc) He) as (d' & Hd' & Hl'). specialize (IH d' Hl'). lia.
  Qed.
End RelLevels.

(* ================================================================== *)
(** * Section 3: converse_iter *)
(* ================================================================== *)

Lemma count_occ_concat (x : nat) : forall ls : list (list nat),
  count_occ Nat.eq_dec (concat ls) x = list_sum (map (fun l => count_occ Nat.eq_dec l x) ls).
Proof.
  induction ls as [|l ls IH]; cbn [concat map]. reflexivity.
  rewrite count_occ_app, IH. reflexivity.
Qed.

Section ConverseIter.
  Variable B : Backend.
  Hypothesis OK : BackendOK B.

  (* [converse_iter g] returns [target g] groups; group q lists exactly the x with g(x) = q, once *)
  Theorem converse_iter_ok g : wf_ff g ->
    exists groups, converse_iter B g = Ok groups /\ length groups = target g /\
      (forall q x, q < target g -> x < ff_source g ->
         count_occ Nat.eq_dec (nth q groups []) x = if ff_app g x =? q then 1 else 0) /\
      (forall q x, In x (nth q groups []) -> x < ff_source g).
  Proof.
    intros Wg.
    destruct (C08_elements_f Wg) as (e & He & We & Hde).
    pose proof (C08_elements_ok ff_vops g) as He'. rewrite He in He'. inversion He' as [Ee]. clear He'.
    assert (Hle : ic_len e = ff_source g).
    { rewrite Ee. unfold ic_len, ff_source. cbn [ic_sources table vlen ff_vops]. apply repeat_length. }
    assert (Hte : target (ic_values e) = target g) by (rewrite Ee; reflexivity).
    destruct (converse_ok OK We) as (c & Hc & Wc & Hlc & Htc & Hcnt & Hclt).
    destruct (C08_iter_f Wc) as (_ & _ & _ & _ & _ & _ & _ & _ & Hcol).
    exists (decode_f c). split; [|split; [|split]].
    - unfold converse_iter. rewrite He. cbn [bind]. rewrite Hc. cbn [bind]. rewrite Hcol. cbn [bind].
      rewrite map_map. cbn [table]. rewrite map_id. reflexivity.
    - unfold decode_f. rewrite SegThm.segs_length. change (length (table (ic_sources c))) with (ic_len c). lia.
    - intros q x Hq Hx. rewrite Hcnt by lia. rewrite Hde.
      assert (En : nth x (map (fun y => [y]) (table g)) [] = [ff_app g x]).
      { rewrite (nth_indep _ [] [0]) by (rewrite map_length; exact Hx).
        rewrite (map_nth (fun y => [y]) (table g) 0). reflexivity. }
      rewrite En. cbn [count_occ].
      destruct (Nat.eq_dec (ff_app g x) q) as [E|E].
      + apply Nat.eqb_eq in E. rewrite E. reflexivity.
      + apply Nat.eqb_neq in E. rewrite E. reflexivity.
    - intros q x Hin. rewrite <- Hle. eapply Hclt; eauto.
  Qed.
End ConverseIter.

(* ================================================================== *)
(** * Section 4: the layering theorems *)
(* ================================================================== *)

Section C15.
  Variable B : Backend.
  Hypothesis OK : BackendOK B.
  Variables O A : Type.
  Implicit Types (h : hg O A) (f : ohg O A).

  (* the dependency relation restricted to the operations of h *)
  Definition opR h (x y : nat) : Prop := x < length (h_x h) /\ y < length (h_x h) /\ dep h x y.

  (* the level of an operation w.r.t. [dep]: the inductive shape of [KahnThm.Lvl] with [dep h] as edge relation *)
  Definition DLvl h : nat -> nat -> Prop := RLvl (length (h_x h)) (dep h).

  (* chains x_0 dep x_1 dep ... dep x_k = y of operations satisfying P *)
  Definition depchain h (P : nat -> Prop) : nat -> nat -> Prop := dchain (length (h_x h)) (dep h) P.

  (* what [layer] computes: kahn on the operation adjacency, wrapped as a finite function *)
  Lemma layer_inv f order unv : wf_ohg f -> layer B f = Ok (order, unv) ->
    let m := length (h_x (o_h f)) in
    exists adj, operation_adjacency B (o_h f) = Ok adj /\ wf_icf adj /\ ic_len adj = m /\
      target (ic_values adj) = m /\
      (forall x y, x < m -> y < m -> (In y (succs adj x) <-> dep (o_h f) x y)) /\
      kahn B adj = Ok (table order, unv) /\ target order = m.
  Proof.
    intros (Wh & _) Hl m.
    destruct (adj_ops_ok OK Wh) as (adj & Ha & Wa & Hla & Hta & Hiff).
    exists adj. split; [exact Ha|split; [exact Wa|split; [exact Hla|split; [exact Hta|split; [exact Hiff|]]]]].
    unfold layer in Hl. rewrite Ha in Hl. cbn [bind] in Hl.
    destruct (kahn B adj) as [[ordering completed]| |]; cbn [bind] in Hl; try discriminate Hl.
    destruct (ff_new ordering (length (h_x (o_h f)))) as [o|] eqn:En; cbn [unwrap bind] in Hl; try discriminate Hl.
    inversion Hl; subst o completed. apply ff_new_some in En. subst order. cbn [table target]. auto.
  Qed.

  Lemma dlvl_lvl f adj : let m := length (h_x (o_h f)) in
    ic_len adj = m ->
    (forall x y, x < m -> y < m -> (In y (succs adj x) <-> dep (o_h f) x y)) ->
    forall d v, DLvl (o_h f) v d <-> Lvl (ic_len adj) (succs adj) v d.
  Proof.
    intros m Hl Hiff d v. unfold DLvl. rewrite Hl. apply RLvl_Lvl.
    intros x y Hx Hy. unfold edge. symmetry. apply Hiff; auto.
  Qed.

  (* ---------- C15_returns ---------- *)
  Theorem C15_returns f : wf_ohg f ->
    let m := length (h_x (o_h f)) in
    exists order unv, layer B f = Ok (order, unv) /\
      ff_source order = m /\ target order = m /\ length unv = m /\ wf_ff order /\
      (forall x, x < m -> nth x unv 0 = 0 \/ nth x unv 0 = 1) /\
      (forall x, x < m -> nth x unv 0 = 1 -> ff_app order x = 0) /\
      exists groups, layered_operations B f = Ok (groups, unv) /\ length groups = m.
  Proof.
    intros W m. destruct W as (Wh & W').
    destruct (adj_ops_ok OK Wh) as (adj & Ha & Wa & Hla & Hta & Hiff).
    assert (Htg : target (ic_values adj) = ic_len adj) by lia.
    destruct (kahn_correct OK Wa Htg) as (order & unv & Hk & Hlo & Hlu & Hbool & Hvis & Hord).
    pose proof (kahn_order_lt OK Wa Htg Hk) as Hlt. rewrite Hla in Hlt.
    assert (Hlay : layer B f = Ok (mkFF order m, unv)).
    { unfold layer. rewrite Ha. cbn [bind]. rewrite Hk. cbn [bind]. fold m.
      rewrite ff_new_ok by exact Hlt. reflexivity. }
    assert (Wo : wf_ff (mkFF order m)) by exact Hlt.
    exists (mkFF order m), unv.
    split; [exact Hlay|split; [unfold ff_source; cbn [table]; lia|split; [reflexivity|split; [lia|split; [exact Wo|split; [|split]]]]]].
    - intros x Hx. apply Hbool. lia.
    - intros x Hx H1. unfold ff_app. cbn [table].
      apply (kahn_unvisited_zero OK Wa Htg Hk); auto. lia.
    - destruct (converse_iter_ok OK Wo) as (groups & Hg & Hlg & _).
      exists groups. split; [|exact Hlg].
      unfold layered_operations. rewrite Hlay. cbn [bind]. rewrite Hg. reflexivity.
  Qed.

  (* ---------- C15_layer_sound ---------- *)
  Theorem C15_layer_sound f order unv x y : wf_ohg f -> layer B f = Ok (order, unv) ->
    x < length (h_x (o_h f)) -> y < length (h_x (o_h f)) -> dep (o_h f) x y ->
    nth y unv 0 = 0 ->
    nth x unv 0 = 0 /\ ff_app order x < ff_app order y.
  Proof.
    intros W Hl Hx Hy Hd Hz.
    destruct (layer_inv W Hl) as (adj & _ & Wa & Hla & Hta & Hiff & Hk & _).
    assert (Htg : target (ic_values adj) = ic_len adj) by lia.
    apply (@kahn_sound B OK adj (table order) unv x y Wa Htg Hk); try lia; auto.
    unfold edge. apply Hiff; auto.
  Qed.

  (* ---------- C15_unvisited_iff_cycle ---------- *)
  Theorem C15_unvisited_iff_cycle f order unv y : wf_ohg f -> layer B f = Ok (order, unv) ->
    y < length (h_x (o_h f)) ->
    (nth y unv 0 = 1 <->
     exists x, x < length (h_x (o_h f)) /\
       clos_trans nat (opR (o_h f)) x x /\ clos_refl_trans nat (opR (o_h f)) x y).
  Proof.
    intros W Hl Hy.
    destruct (layer_inv W Hl) as (adj & _ & Wa & Hla & Hta & Hiff & Hk & _).
    assert (Htg : target (ic_values adj) = ic_len adj) by lia.
    assert (H1 : forall u v, edgeR (ic_len adj) (succs adj) u v -> opR (o_h f) u v).
    { intros u v (Hu & Hv & He). rewrite Hla in Hu, Hv. split; auto. split; auto. apply Hiff; auto. }
    assert (H2 : forall u v, opR (o_h f) u v -> edgeR (ic_len adj) (succs adj) u v).
    { intros u v (Hu & Hv & He). rewrite <- Hla in Hu, Hv. split; auto. split; auto.
      unfold edge. apply Hiff; auto; lia. }
    rewrite (@kahn_cycle B OK adj (table order) unv y Wa Htg Hk) by lia. rewrite Hla in *.
    split; intros (x & Hx & Hc & Hp); exists x; (split; [exact Hx|split]).
    - eapply clos_trans_incl; eauto.
    - eapply clos_rt_incl; eauto.
    - eapply clos_trans_incl; eauto.
    - eapply clos_rt_incl; eauto.
  Qed.

  (* ---------- C15_layer_minimal ---------- *)
  Lemma layer_levels f order unv : wf_ohg f -> layer B f = Ok (order, unv) ->
    let m := length (h_x (o_h f)) in
    (forall y, y < m -> (nth y unv 0 = 0 <-> exists d, DLvl (o_h f) y d)) /\
    (forall y d, y < m -> DLvl (o_h f) y d -> ff_app order y = d).
  Proof.
    intros W Hl m.
    destruct (layer_inv W Hl) as (adj & _ & Wa & Hla & Hta & Hiff & Hk & _).
    assert (Htg : target (ic_values adj) = ic_len adj) by lia.
    destruct (kahn_correct OK Wa Htg) as (order' & unv' & Hk' & _ & _ & _ & Hvis & Hord).
    rewrite Hk in Hk'. inversion Hk' as [[Eo Eu]]. subst unv'. clear Hk'.
    pose proof (dlvl_lvl f adj Hla Hiff) as HD.
    split.
    - intros y Hy. rewrite Hvis by lia. split; intros (d & Hd); exists d; apply HD; exact Hd.
    - intros y d Hy Hd. unfold ff_app. rewrite Eo. apply Hord. lia. apply HD. exact Hd.
  Qed.

  (* for a visited operation y the layer is its level; it is the length of a longest dependency
     chain ending in y, that chain consists of visited operations, and everything y depends on
     (transitively) is visited *)
  Theorem C15_layer_minimal f order unv y : wf_ohg f -> layer B f = Ok (order, unv) ->
    y < length (h_x (o_h f)) -> nth y unv 0 = 0 ->
    let vis := fun x => nth x unv 0 = 0 in
    DLvl (o_h f) y (ff_app order y) /\
    (forall d, ff_app order y = d <-> DLvl (o_h f) y d) /\
    depchain (o_h f) vis (ff_app order y) y /\
    (forall P k, depchain (o_h f) P k y -> k <= ff_app order y) /\
    (forall x, clos_refl_trans nat (opR (o_h f)) x y -> vis x).
  Proof.
    intros W Hl Hy Hz vis.
    destruct (layer_levels W Hl) as (Hvis & Hord).
    assert (HL : DLvl (o_h f) y (ff_app order y)).
    { apply Hvis in Hz; auto. destruct Hz as (d & Hd). rewrite (Hord y d Hy Hd). exact Hd. }
    split; [exact HL|split; [|split; [|split]]].
    - intros d. split. intros <-. exact HL. intros Hd. apply Hord; auto.
    - unfold depchain. apply dchain_impl with (P := fun x => exists e, DLvl (o_h f) x e).
      + intros x Hx Hex. apply Hvis; auto.
      + apply rlvl_chain. exact HL.
    - intros P k Hc. eapply rlvl_chain_max; eauto.
    - intros x Hp. unfold vis.
      assert (G : forall a b, clos_refl_trans nat (opR (o_h f)) a b -> nth b unv 0 = 0 -> nth a unv 0 = 0).
      { intros a b Hab. induction Hab as [a b (Ha & Hb & Hd)|a|a w b _ IH1 _ IH2]; auto.
        intros Hbz. apply (C15_layer_sound W Hl Ha Hb Hd Hbz). }
      apply (G x y Hp Hz).
  Qed.

  (* the layers in use are an initial segment 0..max: below the layer of a visited operation every
     layer is inhabited by a visited operation *)
  Theorem C15_layers_contiguous f order unv y e : wf_ohg f -> layer B f = Ok (order, unv) ->
    y < length (h_x (o_h f)) -> nth y unv 0 = 0 -> e <= ff_app order y ->
    exists x, x < length (h_x (o_h f)) /\ nth x unv 0 = 0 /\ ff_app order x = e.
  Proof.
    intros W Hl Hy Hz He.
    destruct (layer_inv W Hl) as (adj & _ & Wa & Hla & Hta & Hiff & Hk & _).
    destruct (layer_levels W Hl) as (Hvis & Hord).
    destruct (C15_layer_minimal W Hl Hy Hz) as (HL & _).
    apply (dlvl_lvl f adj Hla Hiff) in HL.
    destruct (lvl_down HL He) as (x & Hx).
    pose proof (lvl_lt Hx) as Hxm. rewrite Hla in Hxm.
    apply (dlvl_lvl f adj Hla Hiff) in Hx.
    exists x. split; [exact Hxm|split]. apply Hvis; eauto. apply Hord; auto.
  Qed.

  (* every layer is below the number of operations *)
  Theorem C15_layer_bound f order unv x : wf_ohg f -> layer B f = Ok (order, unv) ->
    x < length (h_x (o_h f)) -> ff_app order x < length (h_x (o_h f)).
  Proof.
    intros W Hl Hx. destruct (C15_returns W) as (order' & unv' & Hl' & Hs & Ht & _ & Wo & _).
    rewrite Hl in Hl'. inversion Hl'; subst order' unv'.
    unfold wf_ff, all_lt in Wo. rewrite Forall_forall in Wo. rewrite <- Ht. apply Wo.
    unfold ff_app. apply nth_In. unfold ff_source in Hs. lia.
  Qed.

  (* ---------- C15_grouped ---------- *)
  Theorem C15_grouped f groups unv : wf_ohg f -> layered_operations B f = Ok (groups, unv) ->
    let m := length (h_x (o_h f)) in
    exists order, layer B f = Ok (order, unv) /\
      length groups = m /\
      (forall x, x < m ->
         count_occ Nat.eq_dec (nth (ff_app order x) groups []) x = 1 /\
         (forall l, l <> ff_app order x -> ~ In x (nth l groups [])) /\
         count_occ Nat.eq_dec (concat groups) x = 1) /\
      (forall l x, In x (nth l groups []) -> x < m) /\
      Permutation (concat groups) (seq 0 m).
  Proof.
    intros W Hlo m.
    destruct (C15_returns W) as (order & unv' & Hl & Hs & Ht & _ & Wo & _ & _ & _). fold m in Hs, Ht.
    destruct (converse_iter_ok OK Wo) as (groups' & Hg & Hlg & Hcnt & Hglt).
    unfold layered_operations in Hlo. rewrite Hl in Hlo. cbn [bind] in Hlo. rewrite Hg in Hlo.
    cbn [bind] in Hlo. inversion Hlo; subst groups' unv'. clear Hlo.
    rewrite Ht in Hlg, Hcnt. rewrite Hs in Hcnt, Hglt.
    assert (Hob : forall x, x < m -> ff_app order x < m).
    { intros x Hx. apply (C15_layer_bound W Hl Hx). }
    assert (Hnot : forall x l, x < m -> l <> ff_app order x -> ~ In x (nth l groups [])).
    { intros x l Hx Hne. destruct (Nat.lt_ge_cases l m) as [Hlm|Hlm].
      - apply (count_occ_not_In Nat.eq_dec). rewrite Hcnt by auto.
        destruct (ff_app order x =? l) eqn:E; auto. apply Nat.eqb_eq in E. congruence.
      - rewrite nth_overflow by lia. intros []. }
    assert (Hone : forall x, x < m -> count_occ Nat.eq_dec (nth (ff_app order x) groups []) x = 1).
    { intros x Hx. rewrite Hcnt by auto. rewrite Nat.eqb_refl. reflexivity. }
    assert (Hcc : forall x, x < m -> count_occ Nat.eq_dec (concat groups) x = 1).
    { intros x Hx. rewrite count_occ_concat.
      rewrite <- (map_nth_seq groups []) at 1. rewrite map_map, Hlg.
      rewrite (list_sum_extract (fun q => count_occ Nat.eq_dec (nth q groups []) x) (Hob x Hx)).
      rewrite (Hone x Hx).
      assert (Hz : list_sum (map (fun u => if u =? ff_app order x then 0
                     else count_occ Nat.eq_dec (nth u groups []) x) (seq 0 m)) = 0).
      { apply list_sum_map_zero. intros u Hu. destruct (u =? ff_app order x) eqn:E; auto.
        apply Nat.eqb_neq in E. apply count_occ_not_In. apply Hnot; auto. }
      rewrite Hz. reflexivity. }
    assert (Hin : forall x, In x (concat groups) -> x < m).
    { intros x Hx. apply in_concat in Hx. destruct Hx as (l & Hl' & Hx).
      apply (In_nth _ _ []) in Hl'. destruct Hl' as (q & _ & <-). eapply Hglt; eauto. }
    exists order. split; [exact Hl|split; [exact Hlg|split; [|split]]].
    - intros x Hx. split; [apply Hone; auto|split; [intros l Hne; apply Hnot; auto|apply Hcc; auto]].
    - exact Hglt.
    - apply NoDup_Permutation.
      + apply (NoDup_count_occ Nat.eq_dec). intros x.
        destruct (Nat.lt_ge_cases x m) as [Hx|Hx]. rewrite Hcc; auto.
        rewrite (proj1 (count_occ_not_In Nat.eq_dec _ x)). lia. intros Hi. apply Hin in Hi. lia.
      + apply seq_NoDup.
      + intros x. rewrite in_seq. split. intros Hi. apply Hin in Hi. lia.
        intros (_ & Hx). apply (count_occ_In Nat.eq_dec). rewrite Hcc by exact Hx. lia.
  Qed.
End C15.

(* ================================================================== *)
(** * Section 5: acyclicity (property C17) *)
(* ================================================================== *)

Lemma list_sum_zero_nth (l : list nat) :
  list_sum l = 0 <-> forall v, v < length l -> nth v l 0 = 0.
Proof.
  rewrite <- (map_id l) at 1. rewrite (list_sum_map_zero (fun x : nat => x) l). split.
  - intros H v Hv. apply H. apply nth_In. exact Hv.
  - intros H x Hx. apply (In_nth _ _ 0) in Hx. destruct Hx as (v & Hv & <-). auto.
Qed.

Section C17.
  Variable B : Backend.
  Hypothesis OK : BackendOK B.
  Variables O A : Type.

  (* the node-level edge relation restricted to the nodes of h *)
  Definition nodeR (h : hg O A) (u v : nat) : Prop :=
    u < length (h_w h) /\ v < length (h_w h) /\ nedge h u v.

  Theorem C17_acyclic (h : hg O A) : wf_hg h ->
    exists b, hg_is_acyclic B h = Ok b /\
      (b = true <-> forall v, v < length (h_w h) -> ~ clos_trans nat (nodeR h) v v).
  Proof.
    intros W. unfold hg_is_acyclic. destruct (length (h_w h) =? 0) eqn:E0.
    - apply Nat.eqb_eq in E0. exists true. split; auto. split; auto. intros _ v Hv. lia.
    - destruct (node_adjacency_ok OK W) as (adj & Ha & Wa & Hla & Hta & Hiff).
      assert (Htg : target (ic_values adj) = ic_len adj) by lia.
      destruct (kahn_correct OK Wa Htg) as (order & unv & Hk & _ & Hlu & Hbool & _ & _).
      rewrite Ha. cbn [bind]. rewrite Hk. cbn [bind]. rewrite asum_ok. cbn [bind].
      exists (list_sum unv =? 0). split; auto.
      assert (H1 : forall u v, edgeR (ic_len adj) (succs adj) u v -> nodeR h u v).
      { intros u v (Hu & Hv & He). rewrite Hla in Hu, Hv. split; auto. split; auto. apply Hiff; auto. }
      assert (H2 : forall u v, nodeR h u v -> edgeR (ic_len adj) (succs adj) u v).
      { intros u v (Hu & Hv & He). rewrite <- Hla in Hu, Hv. split; auto. split; auto.
        unfold edge. apply Hiff; auto; lia. }
      rewrite Nat.eqb_eq, list_sum_zero_nth, Hlu, Hla. split.
      + intros Hall v Hv Hc.
        assert (Hone : nth v unv 0 = 1).
        { apply (@kahn_cycle B OK adj order unv v Wa Htg Hk). lia.
          exists v. split. lia. split. eapply clos_trans_incl; eauto. apply rt_refl. }
        rewrite (Hall v Hv) in Hone. discriminate.
      + intros Hno v Hv. destruct (Hbool v) as [Ez|Eo]; auto. lia.
        exfalso. apply (@kahn_cycle B OK adj order unv v Wa Htg Hk) in Eo; try lia.
        destruct Eo as (u & Hu & Hc & _). apply (Hno u). lia.
        eapply clos_trans_incl; eauto.
  Qed.

  Corollary C17_acyclic_ohg (f : ohg O A) : wf_ohg f ->
    exists b, ohg_is_acyclic B f = Ok b /\
      (b = true <-> forall v, v < length (h_w (o_h f)) -> ~ clos_trans nat (nodeR (o_h f)) v v).
  Proof. intros (W & _). unfold ohg_is_acyclic. apply C17_acyclic. exact W. Qed.
End C17.

(* ================================================================== *)
(** * Section 6: examples *)
(* ================================================================== *)

(* [ex_f] (AdjThm.v): op0 zero-arity; op1 depends on op0 with multiplicity 3; op2 depends on itself;
   op3 <-> op4 a cycle with tail op5; op6 zero-arity without outputs; op7 depends on op1. *)
Example ex_layer_vec :
  layer VecBackend ex_f = Ok (mkFF [0; 1; 0; 0; 0; 0; 0; 2] 8, [0; 0; 1; 1; 1; 1; 0; 0]).
Proof. vm_compute. reflexivity. Qed.

Example ex_layer_adv :
  layer AdvBackend ex_f = Ok (mkFF [0; 1; 0; 0; 0; 0; 0; 2] 8, [0; 0; 1; 1; 1; 1; 0; 0]).
Proof. vm_compute. reflexivity. Qed.

(* group 0 also lists the unvisited operations 2,3,4,5 (their order entry is 0); the order inside a
   group depends on the back-end; there are as many groups as operations *)
Example ex_layered_vec :
  layered_operations VecBackend ex_f
  = Ok ([[0; 2; 3; 4; 5; 6]; [1]; [7]; []; []; []; []; []], [0; 0; 1; 1; 1; 1; 0; 0]).
Proof. vm_compute. reflexivity. Qed.

Example ex_layered_adv :
  layered_operations AdvBackend ex_f
  = Ok ([[6; 5; 4; 3; 2; 0]; [1]; [7]; []; []; []; []; []], [0; 0; 1; 1; 1; 1; 0; 0]).
Proof. vm_compute. reflexivity. Qed.

Example ex_acyclic_vec : hg_is_acyclic VecBackend ex_h = Ok false.
Proof. vm_compute. reflexivity. Qed.

Example ex_acyclic_adv : ohg_is_acyclic AdvBackend ex_f = Ok false.
Proof. vm_compute. reflexivity. Qed.

(* an acyclic diagram: op0 : [] -> [0;1;2], op1 : [0;1;2] -> [3], op2 : [] -> [] *)
Definition ex_h2 : hg nat nat :=
  mkHG (mkIC (mkFF [0;3;0] 4) (mkFF [0;1;2] 4)) (mkIC (mkFF [3;1;0] 5) (mkFF [0;1;2;3] 4))
       [0;0;0;0] [10;11;12].

Example ex_h2_wf : wf_hg ex_h2.
Proof. repeat split; try reflexivity; unfold wf_ff, all_lt; cbn; repeat constructor. Qed.

Example ex_acyclic2_vec : hg_is_acyclic VecBackend ex_h2 = Ok true.
Proof. vm_compute. reflexivity. Qed.

Example ex_acyclic2_adv : hg_is_acyclic AdvBackend ex_h2 = Ok true.
Proof. vm_compute. reflexivity. Qed.

(* the empty hypergraph: the early return *)
Example ex_acyclic_empty : hg_is_acyclic AdvBackend (@hg_empty nat nat) = Ok true.
Proof. reflexivity. Qed.

(* the theorems instantiated *)
Example ex_sound_adv :   (* op7 depends on op1 *)
  nth 1 [0; 0; 1; 1; 1; 1; 0; 0] 0 = 0 /\
  ff_app (mkFF [0; 1; 0; 0; 0; 0; 0; 2] 8) 1 < ff_app (mkFF [0; 1; 0; 0; 0; 0; 0; 2] 8) 7.
Proof.
  apply (@C15_layer_sound AdvBackend AdvBackend_ok nat nat ex_f _ _ 1 7 ex_f_wf ex_layer_adv).
  - cbn. lia.
  - cbn. lia.
  - exists 3. split; vm_compute; auto.
  - reflexivity.
Qed.

Example ex_cycle_tail :   (* op5 is downstream of the cycle op3 -> op4 -> op3 *)
  clos_trans nat (opR ex_h) 3 3 /\ clos_refl_trans nat (opR ex_h) 3 5.
Proof.
  destruct ex_dep_cycle_tail as (D34 & D43 & D45).
  assert (R34 : opR ex_h 3 4) by (split; [cbn; lia|split; [cbn; lia|exact D34]]).
  assert (R43 : opR ex_h 4 3) by (split; [cbn; lia|split; [cbn; lia|exact D43]]).
  assert (R45 : opR ex_h 4 5) by (split; [cbn; lia|split; [cbn; lia|exact D45]]).
  split.
  - eapply t_trans; apply t_step; eauto.
  - eapply rt_trans; apply rt_step; eauto.
Qed.

Example ex_unvisited_iff_cycle_vec :
  nth 5 [0; 0; 1; 1; 1; 1; 0; 0] 0 = 1 <->
  exists x, x < 8 /\ clos_trans nat (opR ex_h) x x /\ clos_refl_trans nat (opR ex_h) x 5.
Proof.
  apply (@C15_unvisited_iff_cycle VecBackend VecBackend_ok nat nat ex_f _ _ 5 ex_f_wf ex_layer_vec).
  cbn. lia.
Qed.

Example ex_self_dependent_unvisited :   (* op2 depends on itself: a cycle of length 1 *)
  clos_trans nat (opR ex_h) 2 2.
Proof. apply t_step. split; [cbn; lia|split; [cbn; lia|exact ex_dep_self]]. Qed.

Example ex_minimal_vec :   (* op7 is in layer 2 = the length of the chain op0, op1, op7 *)
  DLvl ex_h 7 2 /\ depchain ex_h (fun x => nth x [0; 0; 1; 1; 1; 1; 0; 0] 0 = 0) 2 7.
Proof.
  destruct (@C15_layer_minimal VecBackend VecBackend_ok nat nat ex_f _ _ 7 ex_f_wf ex_layer_vec)
    as (H1 & _ & H3 & _).
  - cbn. lia.
  - reflexivity.
  - split. exact H1. exact H3.
Qed.

Example ex_grouped_adv :
  forall x, x < 8 ->
    count_occ Nat.eq_dec (nth (ff_app (mkFF [0; 1; 0; 0; 0; 0; 0; 2] 8) x)
                              [[6; 5; 4; 3; 2; 0]; [1]; [7]; []; []; []; []; []] []) x = 1.
Proof.
  destruct (@C15_grouped AdvBackend AdvBackend_ok nat nat ex_f _ _ ex_f_wf ex_layered_adv)
    as (order & Hl & _ & Hg & _).
  rewrite ex_layer_adv in Hl. inversion Hl; subst order.
  intros x Hx. apply Hg. exact Hx.
Qed.

Example ex_C17_vec :   (* [ex_h] has a node-level cycle, [ex_h2] has none *)
  (~ forall v, v < 10 -> ~ clos_trans nat (nodeR ex_h) v v) /\
  (forall v, v < 4 -> ~ clos_trans nat (nodeR ex_h2) v v).
Proof.
  split.
  - destruct (C17_acyclic VecBackend_ok ex_h_wf) as (b & Hb & Hiff).
    rewrite ex_acyclic_vec in Hb. inversion Hb; subst b.
    intros Hall. apply Hiff in Hall. discriminate.
  - destruct (C17_acyclic VecBackend_ok ex_h2_wf) as (b & Hb & Hiff).
    rewrite ex_acyclic2_vec in Hb. inversion Hb; subst b.
    apply Hiff. reflexivity.
Qed.

Print Assumptions kahn_unvisited_zero.
Print Assumptions converse_iter_ok.
Print Assumptions C15_returns.
Print Assumptions C15_layer_sound.
Print Assumptions C15_unvisited_iff_cycle.
Print Assumptions C15_layer_minimal.
Print Assumptions C15_layers_contiguous.
Print Assumptions C15_layer_bound.
Print Assumptions C15_grouped.
Print Assumptions C17_acyclic.
Print Assumptions C17_acyclic_ohg.
Print Assumptions ex_C17_vec.
