(* C16, last clause: the result of evaluation does not depend on how nodes and hyperedges are
   numbered (invariance under Iso of the plain models). Transport of valuations along a
   renumbering + uniqueness (C16Thm). *)
From OHG Require Import Spec.Plain Spec.GraphSpec Proofs.PrimsThm Proofs.SegThm Proofs.C07aThm
  Proofs.C08Thm Proofs.BackendInst Proofs.KahnThm Proofs.C16Lemmas Proofs.C16Thm.

Set Implicit Arguments.

Arguments Nat.sub : simpl never.

Definition C16_numbering_independent_full : Prop :=
  forall B, BackendOK B -> adj_spec_ops B -> conv_layers_spec B ->
  forall O A T (default : T) (interp : A -> list T -> list T) apply, apply_spec interp apply ->
  forall (f f' : ohg O A) inp, wf_ohg f -> wf_ohg f' -> Iso (abs f) (abs f') ->
    acyclic_ops f -> single_writer f -> arity_ok interp f ->
    length inp = length (table (o_s f)) ->
    eval B default apply f inp = eval B default apply f' inp.

(* ---------- list facts ---------- *)
Lemma NoDup_map_inj_on {X Y} (g : X -> Y) : forall l, NoDup l ->
  (forall x y, In x l -> In y l -> g x = g y -> x = y) -> NoDup (map g l).
Proof.
  induction l as [|x l IH]; intros Hnd Hinj. constructor.
  inversion Hnd as [|x' l' Hni Hnd']; subst. cbn [map]. constructor.
  - intros Hin. apply in_map_iff in Hin. destruct Hin as (y & Hy & Hyl).
    assert (y = x) by (apply Hinj; auto; [right; auto|left; auto]). subst y. contradiction.
  - apply IH; auto. intros a b Ha Hb. apply Hinj; right; auto.
Qed.

Lemma In_concat_nth {X} (D : list (list X)) x : In x (concat D) -> exists i, i < length D /\ In x (nth i D []).
Proof.
  induction D as [|l D IH]; intros H. contradiction.
  cbn [concat] in H. apply in_app_or in H. destruct H as [H|H].
  - exists 0. split. cbn; lia. exact H.
  - destruct (IH H) as (i & Hi & Hx). exists (S i). split. cbn; lia. exact Hx.
Qed.

Lemma NoDup_concat_intro {X} (D : list (list X)) :
  (forall i, NoDup (nth i D [])) ->
  (forall i j x, i < length D -> j < length D -> In x (nth i D []) -> In x (nth j D []) -> i = j) ->
  NoDup (concat D).
Proof.
  induction D as [|l D IH]; intros H1 H2. constructor.
  cbn [concat]. apply NoDup_app_iff. split. apply (H1 0). split.
  - apply IH. intros i. apply (H1 (S i)).
    intros i j x Hi Hj Hxi Hxj. assert (S i = S j). { apply (H2 (S i) (S j) x); cbn; auto; lia. } lia.
  - intros x Hx Hc. apply In_concat_nth in Hc. destruct Hc as (j & Hj & Hxj).
    assert (0 = S j). { apply (H2 0 (S j) x); cbn; auto; lia. } discriminate.
Qed.

(* an injective self-map of [0,n) is onto, and has a computable inverse *)
Definition inv_on (n : nat) (p : nat -> nat) (j : nat) : nat :=
  match find (fun i => p i =? j) (seq 0 n) with Some i => i | None => 0 end.

Lemma inv_on_left n p i : bij_on n p -> i < n -> inv_on n p (p i) = i.
Proof.
  intros (_ & Hinj) Hi. unfold inv_on.
  destruct (find (fun i0 => p i0 =? p i) (seq 0 n)) as [i0|] eqn:E.
  - apply find_some in E. destruct E as (Hin & He). apply in_seq in Hin. apply Nat.eqb_eq in He.
    apply Hinj; auto. lia.
  - exfalso. assert (X : (p i =? p i) = false). { apply (find_none _ _ E i). apply in_seq. lia. }
    rewrite Nat.eqb_refl in X. discriminate.
Qed.

Lemma bij_onto n p j : bij_on n p -> j < n -> exists i, i < n /\ p i = j.
Proof.
  intros (Hran & Hinj) Hj.
  assert (Hnd : NoDup (map p (seq 0 n))).
  { apply NoDup_map_inj_on. apply seq_NoDup. intros x y Hx Hy. apply in_seq in Hx. apply in_seq in Hy.
    apply Hinj; lia. }
  assert (Hincl : incl (map p (seq 0 n)) (seq 0 n)).
  { intros y Hy. apply in_map_iff in Hy. destruct Hy as (x & <- & Hx). apply in_seq in Hx. apply in_seq.
    assert (p x < n) by (apply Hran; lia). lia. }
  assert (Hrev : incl (seq 0 n) (map p (seq 0 n))).
  { apply NoDup_length_incl; auto. rewrite map_length. lia. }
  assert (Hin : In j (map p (seq 0 n))) by (apply Hrev; apply in_seq; lia).
  apply in_map_iff in Hin. destruct Hin as (i & <- & Hi). apply in_seq in Hi. exists i. split; auto. lia.
Qed.

(* ---------- the plain model of a well-formed diagram, edge by edge ---------- *)
Lemma zip3_nth_error {A} : forall (xs : list A) ss ts e, length ss = length xs -> length ts = length xs ->
  nth_error (zip3 xs ss ts) e = option_map (fun a => mkPE a (nth e ss []) (nth e ts [])) (nth_error xs e).
Proof.
  induction xs as [|x xs IH]; intros [|s ss] [|t ts] e Hs Ht; cbn [length] in Hs, Ht; try discriminate.
  - destruct e; reflexivity.
  - destruct e as [|e]. reflexivity. cbn [zip3 nth_error nth]. apply IH; lia.
Qed.

Lemma zip3_length {A} : forall (xs : list A) ss ts, length ss = length xs -> length ts = length xs ->
  length (zip3 xs ss ts) = length xs.
Proof.
  induction xs as [|x xs IH]; intros [|s ss] [|t ts] Hs Ht; cbn [length] in Hs, Ht; try discriminate.
  - reflexivity.
  - cbn [zip3 length]. f_equal. apply IH; lia.
Qed.

Section Edges.
  Variables O A : Type.
  Variable f : ohg O A.
  Hypothesis Wf : wf_ohg f.

  Lemma decode_s_length : length (decode_f (h_s (o_h f))) = length (h_x (o_h f)).
  Proof. destruct Wf as ((_ & _ & E & _) & _). unfold decode_f. rewrite SegThm.segs_length. exact E. Qed.

  Lemma abs_edges_length : length (p_edges (abs f)) = length (h_x (o_h f)).
  Proof.
    cbn [abs p_edges]. unfold abs_hg_edges. apply zip3_length. apply decode_s_length.
    apply decode_t_length. exact (proj1 Wf).
  Qed.

  Lemma abs_edge e :
    nth_error (p_edges (abs f)) e
    = option_map (fun a => mkPE a (op_src (o_h f) e) (op_tgt (o_h f) e)) (nth_error (h_x (o_h f)) e).
  Proof.
    cbn [abs p_edges]. unfold abs_hg_edges. apply zip3_nth_error. apply decode_s_length.
    apply decode_t_length. exact (proj1 Wf).
  Qed.
End Edges.

(* ---------- what an isomorphism says about the arrays ---------- *)
Section Transport.
  Variables O A T : Type.
  Variable default : T.
  Variable interp : A -> list T -> list T.
  Variables f f' : ohg O A.
  Hypothesis Wf : wf_ohg f.
  Hypothesis Wf' : wf_ohg f'.
  Variables pn pe : nat -> nat.

  Local Notation n := (length (h_w (o_h f))).
  Local Notation m := (length (h_x (o_h f))).
  Local Notation rd := (rd default).

  Hypothesis En : length (h_w (o_h f')) = n.
  Hypothesis Em : length (h_x (o_h f')) = m.
  Hypothesis Bn : bij_on n pn.
  Hypothesis Be : bij_on m pe.
  Hypothesis Hedge : forall e a, nth_error (h_x (o_h f)) e = Some a ->
    nth_error (h_x (o_h f')) (pe e) = Some a /\
    op_src (o_h f') (pe e) = map pn (op_src (o_h f) e) /\
    op_tgt (o_h f') (pe e) = map pn (op_tgt (o_h f) e).
  Hypothesis Hins : table (o_s f') = map pn (table (o_s f)).
  Hypothesis Houts : table (o_t f') = map pn (table (o_t f)).

  Lemma label_ex e : e < m -> exists a, nth_error (h_x (o_h f)) e = Some a.
  Proof.
    intros He. destruct (nth_error (h_x (o_h f)) e) as [a|] eqn:E. eauto.
    apply nth_error_None in E. lia.
  Qed.

  (* every hyperedge of f' is the image of one of f *)
  Lemma edge_onto e' : e' < m -> exists e a, e < m /\ pe e = e' /\ nth_error (h_x (o_h f)) e = Some a.
  Proof.
    intros He'. destruct (bij_onto Be He') as (e & He & E). destruct (label_ex He) as (a & Ha). eauto.
  Qed.

  Lemma pn_inj_lt u v : u < n -> v < n -> pn u = pn v -> u = v.
  Proof. destruct Bn as (_ & H). apply H. Qed.

  Lemma ins_lt v : In v (table (o_s f)) -> v < n.
  Proof.
    destruct Wf as (_ & Ws & _ & Es & _). unfold wf_ff, all_lt in Ws. rewrite Forall_forall in Ws.
    intros H. rewrite <- Es. auto.
  Qed.

  Lemma tgt_lt e v : In v (op_tgt (o_h f) e) -> v < n.
  Proof. apply op_tgt_lt. exact (proj1 Wf). Qed.

  Lemma src_lt e v : In v (op_src (o_h f) e) -> v < n.
  Proof. apply op_src_lt. exact (proj1 Wf). Qed.

  (* dependencies are preserved and reflected *)
  Lemma dep_reflect x y : x < m -> y < m -> dep (o_h f') (pe x) (pe y) -> dep (o_h f) x y.
  Proof.
    intros Hx Hy (v' & Ht & Hs).
    destruct (label_ex Hx) as (a & Ha). destruct (label_ex Hy) as (b & Hb).
    destruct (Hedge _ Ha) as (_ & _ & Et). destruct (Hedge _ Hb) as (_ & Es & _).
    rewrite Et in Ht. rewrite Es in Hs. apply in_map_iff in Ht. apply in_map_iff in Hs.
    destruct Ht as (v1 & E1 & H1). destruct Hs as (v2 & E2 & H2).
    assert (v1 = v2). { apply pn_inj_lt. eapply tgt_lt; eauto. eapply src_lt; eauto. congruence. }
    subst v2. exists v1. auto.
  Qed.

  Lemma acyclic_transport : acyclic_ops f -> acyclic_ops f'.
  Proof.
    intros Hac. destruct (acyclic_rank Hac) as (lev & Hlev).
    apply rank_acyclic with (lev := fun e' => lev (inv_on m pe e')).
    intros x' y' (Hx' & Hy' & Hd). rewrite Em in Hx', Hy'.
    destruct (edge_onto Hx') as (x & a & Hx & <- & _). destruct (edge_onto Hy') as (y & b & Hy & <- & _).
    rewrite !inv_on_left by auto. apply Hlev. split; auto. split; auto. apply dep_reflect; auto.
  Qed.

  Lemma single_writer_transport : single_writer f -> single_writer f'.
  Proof.
    intros SW. unfold single_writer. apply NoDup_app_iff. split; [|split].
    - rewrite Hins. apply NoDup_map_inj_on. apply (sw_ins SW).
      intros u v Hu Hv. apply pn_inj_lt; apply ins_lt; auto.
    - apply NoDup_concat_intro.
      + intros e'. change (nth e' (decode_f (h_t (o_h f'))) []) with (op_tgt (o_h f') e').
        destruct (Nat.lt_ge_cases e' m) as [He'|He'].
        * destruct (edge_onto He') as (e & a & He & <- & Ha). destruct (Hedge _ Ha) as (_ & _ & ->).
          apply NoDup_map_inj_on. apply (sw_tgt_nodup SW).
          intros u v Hu Hv. apply pn_inj_lt; eapply tgt_lt; eauto.
        * unfold op_tgt. rewrite nth_overflow. constructor.
          rewrite (decode_t_length (proj1 Wf')). lia.
      + rewrite (decode_t_length (proj1 Wf')), Em. intros i j v' Hi Hj Hvi Hvj.
        change (nth i (decode_f (h_t (o_h f'))) []) with (op_tgt (o_h f') i) in Hvi.
        change (nth j (decode_f (h_t (o_h f'))) []) with (op_tgt (o_h f') j) in Hvj.
        destruct (edge_onto Hi) as (e1 & a1 & He1 & <- & Ha1). destruct (edge_onto Hj) as (e2 & a2 & He2 & <- & Ha2).
        destruct (Hedge _ Ha1) as (_ & _ & E1). destruct (Hedge _ Ha2) as (_ & _ & E2).
        rewrite E1 in Hvi. rewrite E2 in Hvj. apply in_map_iff in Hvi. apply in_map_iff in Hvj.
        destruct Hvi as (v1 & Ev1 & H1). destruct Hvj as (v2 & Ev2 & H2).
        assert (v1 = v2). { apply pn_inj_lt. eapply tgt_lt; eauto. eapply tgt_lt; eauto. congruence. }
        subst v2. f_equal. eapply (sw_tgt_inj SW); eauto.
    - intros v' Hi Ht. apply In_concat_nth in Ht. destruct Ht as (e' & He' & Hv').
      rewrite (decode_t_length (proj1 Wf')), Em in He'.
      change (nth e' (decode_f (h_t (o_h f'))) []) with (op_tgt (o_h f') e') in Hv'.
      destruct (edge_onto He') as (e & a & He & <- & Ha). destruct (Hedge _ Ha) as (_ & _ & E).
      rewrite E in Hv'. rewrite Hins in Hi. apply in_map_iff in Hv'. apply in_map_iff in Hi.
      destruct Hv' as (v1 & Ev1 & H1). destruct Hi as (v2 & Ev2 & H2).
      assert (v1 = v2). { apply pn_inj_lt. eapply tgt_lt; eauto. apply ins_lt; auto. congruence. }
      subst v2. apply (sw_tgt_ins SW _ _ H1). exact H2.
  Qed.

  Lemma arity_transport : arity_ok interp f -> arity_ok interp f'.
  Proof.
    intros Har e' a' vals E Hl.
    assert (He' : e' < m). { rewrite <- Em. apply nth_error_Some. congruence. }
    destruct (edge_onto He') as (e & a & He & <- & Ha). destruct (Hedge _ Ha) as (El & Es & Et).
    assert (a' = a) by congruence. subst a'.
    rewrite Et, map_length. apply (Har e a vals Ha). rewrite Hl, Es, map_length. reflexivity.
  Qed.

  (* the transported memory *)
  Definition mem_transport (mem : list T) : list T :=
    map (fun j => rd mem (inv_on n pn j)) (seq 0 n).

  Lemma mem_transport_length mem : length (mem_transport mem) = n.
  Proof. unfold mem_transport. rewrite map_length, seq_length. reflexivity. Qed.

  Lemma rd_transport mem v : v < n -> rd (mem_transport mem) (pn v) = rd mem v.
  Proof.
    intros Hv. unfold rd at 1, mem_transport.
    rewrite nth_map_seq by (destruct Bn as (H & _); auto). cbn [Nat.add].
    rewrite inv_on_left by auto. reflexivity.
  Qed.

  Lemma map_rd_transport mem l : (forall v, In v l -> v < n) ->
    map (rd (mem_transport mem)) (map pn l) = map (rd mem) l.
  Proof.
    intros H. rewrite map_map. apply map_ext_in. intros v Hv. apply rd_transport. auto.
  Qed.

  Lemma valuation_transport inp mem : Valuation default interp f inp mem ->
    Valuation default interp f' inp (mem_transport mem).
  Proof.
    intros (V1 & V2 & V3). split; [|split].
    - rewrite Hins, map_length. intros i Hi.
      rewrite (nth_indep (map pn (table (o_s f))) 0 (pn 0)) by (rewrite map_length; exact Hi).
      rewrite map_nth. rewrite rd_transport. auto. apply ins_lt. apply nth_In. exact Hi.
    - intros e' a' E.
      assert (He' : e' < m). { rewrite <- Em. apply nth_error_Some. congruence. }
      destruct (edge_onto He') as (e & a & He & <- & Ha). destruct (Hedge _ Ha) as (El & Es & Et).
      assert (a' = a) by congruence. subst a'.
      rewrite Et, Es, !map_rd_transport. auto.
      intros v. apply src_lt. intros v. apply tgt_lt.
    - rewrite En, Em. intros v' Hv' Hi Hno.
      destruct (bij_onto Bn Hv') as (v & Hv & <-). rewrite rd_transport by exact Hv.
      apply V3; auto.
      + intros Hin. apply Hi. rewrite Hins. apply in_map. exact Hin.
      + intros e He Hin. destruct (label_ex He) as (a & Ha). destruct (Hedge _ Ha) as (_ & _ & Et).
        apply (Hno (pe e)). destruct Be as (H & _). auto. rewrite Et. apply in_map. exact Hin.
  Qed.

  Lemma outputs_transport mem :
    map (fun v => nth v (mem_transport mem) default) (table (o_t f'))
    = map (fun v => nth v mem default) (table (o_t f)).
  Proof.
    rewrite Houts. apply (map_rd_transport mem).
    destruct Wf as (_ & _ & Wt & _ & Et). unfold wf_ff, all_lt in Wt. rewrite Forall_forall in Wt.
    intros v Hv. rewrite <- Et. auto.
  Qed.
End Transport.

(* the hypotheses of Section Transport follow from Iso *)
Lemma iso_facts O A (f f' : ohg O A) : wf_ohg f -> wf_ohg f' -> Iso (abs f) (abs f') ->
  exists pn pe,
    length (h_w (o_h f')) = length (h_w (o_h f)) /\ length (h_x (o_h f')) = length (h_x (o_h f)) /\
    bij_on (length (h_w (o_h f))) pn /\ bij_on (length (h_x (o_h f))) pe /\
    (forall e a, nth_error (h_x (o_h f)) e = Some a ->
       nth_error (h_x (o_h f')) (pe e) = Some a /\
       op_src (o_h f') (pe e) = map pn (op_src (o_h f) e) /\
       op_tgt (o_h f') (pe e) = map pn (op_tgt (o_h f) e)) /\
    table (o_s f') = map pn (table (o_s f)) /\ table (o_t f') = map pn (table (o_t f)).
Proof.
  intros Wf Wf' (Hn & Hm & pn & pe & Bn & Be & _ & Hed & Hi & Ho).
  rewrite (abs_edges_length Wf) in Hm, Be, Hed. rewrite (abs_edges_length Wf') in Hm.
  cbn [abs p_nodes p_ins p_outs] in Hn, Bn, Hi, Ho.
  exists pn, pe. split; auto. split; auto. split; auto. split; auto. split; auto.
  intros e a Ha. assert (He : e < length (h_x (o_h f))) by (apply nth_error_Some; congruence).
  specialize (Hed e He). rewrite (abs_edge Wf), (abs_edge Wf'), Ha in Hed. cbn [option_map map_edge pe_lbl pe_src pe_tgt] in Hed.
  destruct (nth_error (h_x (o_h f')) (pe e)) as [a'|]; cbn [option_map] in Hed. 2: discriminate.
  inversion Hed; subst. auto.
Qed.

Theorem C16_numbering_independent : C16_numbering_independent_full.
Proof.
  intros B OK ADJ CONV O A T default interp apply AP f f' inp Wf Wf' HI Hac SW Har Hinp.
  destruct (iso_facts Wf Wf' HI) as (pn & pe & En & Em & Bn & Be & Hedge & Hins & Houts).
  destruct (C16_computes OK ADJ CONV default AP inp Wf Hac SW Har Hinp) as (out & mem & E & V & L & ->).
  rewrite E. symmetry.
  rewrite <- (outputs_transport default f' Wf Bn Houts mem).
  apply (C16_outputs_of_any_valuation OK ADJ CONV AP Wf').
  - exact (acyclic_transport Wf En Em Bn Be Hedge Hac).
  - exact (single_writer_transport Wf Wf' En Em Bn Be Hedge Hins SW).
  - exact (arity_transport f' pn En Em Be Hedge Har).
  - rewrite Hins, map_length. exact Hinp.
  - exact (valuation_transport f' Wf En Em Bn Be Hedge Hins V).
  - rewrite En. apply mem_transport_length.
Qed.

(* ---------- example: ex_f (C16Thm) with nodes and hyperedges renumbered ---------- *)
From Coq Require Import ZArith.

Definition ex_pn (i : nat) : nat := nth i [4; 0; 7; 1; 5; 2; 8; 3; 6] i.
Definition ex_pe (e : nat) : nat := nth e [2; 4; 0; 3; 1] e.

(* 0: Mul [1;5] -> [2]   1: Neg [5] -> [8]   2: Add [2;8] -> [3]   3: Add [7;0] -> [5]
   4: Dup [4] -> [7;1];  inputs [4;0], outputs [3;5;6] *)
Definition ex_f' : ohg unit exop :=
  mkOHG (mkFF [4; 0] 9) (mkFF [3; 5; 6] 9)
    (mkHG (mkIC (mkFF [2; 1; 2; 2; 1] 9) (mkFF [1; 5; 5; 2; 8; 7; 0; 4] 9))
          (mkIC (mkFF [1; 1; 1; 1; 2] 7) (mkFF [2; 8; 3; 5; 7; 1] 9))
          (repeat tt 9) [Mul; Neg; Add; Add; Dup]).

Example ex_f'_wf : wf_ohg ex_f'.
Proof.
  unfold wf_ohg, wf_hg, wf_icf, wf_ic, wf_ff, all_lt. cbn.
  repeat split; try reflexivity; repeat constructor.
Qed.

Example ex_iso : Iso (abs ex_f) (abs ex_f').
Proof.
  split. reflexivity. split. reflexivity. exists ex_pn, ex_pe.
  split; [|split; [|split; [|split; [|split]]]].
  - split.
    + intros i Hi. cbn in Hi. do 9 (destruct i as [|i]; [cbn; lia|]). lia.
    + intros i j Hi Hj. cbn in Hi, Hj.
      do 9 (destruct i as [|i]; [do 9 (destruct j as [|j]; [cbn; lia|]); lia|]). lia.
  - split.
    + intros i Hi. cbn in Hi. do 5 (destruct i as [|i]; [cbn; lia|]). lia.
    + intros i j Hi Hj. cbn in Hi, Hj.
      do 5 (destruct i as [|i]; [do 5 (destruct j as [|j]; [cbn; lia|]); lia|]). lia.
  - intros i Hi. cbn in Hi. do 9 (destruct i as [|i]; [reflexivity|]). lia.
  - intros e He. cbn in He. do 5 (destruct e as [|e]; [reflexivity|]). lia.
  - reflexivity.
  - reflexivity.
Qed.

Example ex_f'_eval :
  eval VecBackend 0%Z (batch_apply ex_interp) ex_f' [3%Z; 4%Z] = Ok (Some [14%Z; 7%Z; 0%Z]) /\
  eval VecBackend 0%Z (batch_apply ex_interp) ex_f [3%Z; 4%Z]
  = eval VecBackend 0%Z (batch_apply ex_interp) ex_f' [3%Z; 4%Z].
Proof. vm_compute. split; reflexivity. Qed.
