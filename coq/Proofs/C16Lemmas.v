(* C16, pure part: memories, valuations, batched interpretation of a diagram.
   Nothing in this file mentions a back-end except [acyclic_rank], which runs the verified
   Kahn layering (KahnThm, VecBackend) on a hand-built adjacency array to obtain a rank function
   from acyclicity. *)
From OHG Require Import Spec.Plain Spec.GraphSpec Proofs.PrimsThm Proofs.SegThm Proofs.C07aThm
  Proofs.C08Thm Proofs.BackendInst Proofs.KahnThm.
From Coq Require Import Relation_Operators Operators_Properties.

Set Implicit Arguments.

Arguments Nat.sub : simpl never.

(* ================================================================== *)
(** * 1. list facts *)
(* ================================================================== *)

Lemma NoDup_app_iff {X} (a b : list X) :
  NoDup (a ++ b) <-> NoDup a /\ NoDup b /\ (forall x, In x a -> ~ In x b).
Proof.
  induction a as [|y a IH]; cbn [app].
  - split. intros H. split. constructor. split; auto. intros (_ & H & _). exact H.
  - split.
    + intros H. inversion H as [|y' l' Hni Hnd]; subst. apply IH in Hnd. destruct Hnd as (Ha & Hb & Hd).
      split; [|split; auto].
      * constructor; auto. intros Hin. apply Hni. apply in_or_app. auto.
      * intros x [<-|Hx]. intros Hin. apply Hni. apply in_or_app. auto. apply Hd; auto.
    + intros (Ha & Hb & Hd). inversion Ha as [|y' l' Hni Hnd]; subst. constructor.
      * intros Hin. apply in_app_or in Hin. destruct Hin as [Hin|Hin]. auto. apply (Hd y); auto. left; auto.
      * apply IH. split; auto. split; auto. intros x Hx. apply Hd. right; auto.
Qed.

Lemma NoDup_concat_nth {X} (D : list (list X)) : NoDup (concat D) ->
  forall i, NoDup (nth i D []).
Proof.
  induction D as [|l D IH]; intros H i.
  - destruct i; constructor.
  - cbn [concat] in H. apply NoDup_app_iff in H. destruct H as (Hl & HD & _).
    destruct i as [|i]; cbn [nth]; auto.
Qed.

Lemma In_nth_concat {X} (D : list (list X)) x : forall i, In x (nth i D []) -> In x (concat D).
Proof.
  induction D as [|l D IH]; intros [|i] H; cbn [nth concat] in *; try contradiction.
  - apply in_or_app; auto.
  - apply in_or_app; right; eauto.
Qed.

Lemma NoDup_concat_inj {X} (D : list (list X)) : NoDup (concat D) ->
  forall i j x, In x (nth i D []) -> In x (nth j D []) -> i = j.
Proof.
  induction D as [|l D IH]; intros H i j x Hi Hj.
  - destruct i; contradiction.
  - cbn [concat] in H. apply NoDup_app_iff in H. destruct H as (Hl & HD & Hd).
    destruct i as [|i], j as [|j]; cbn [nth] in *; auto.
    + exfalso. apply (Hd x Hi). eapply In_nth_concat; eauto.
    + exfalso. apply (Hd x Hj). eapply In_nth_concat; eauto.
    + f_equal. eapply IH; eauto.
Qed.

Lemma app_eq_len {X} (a : list X) : forall b c d, length a = length c -> a ++ b = c ++ d -> a = c /\ b = d.
Proof.
  induction a as [|x a IH]; intros b [|y c] d Hl H; cbn [length app] in *; try discriminate; auto.
  inversion H; subst. destruct (IH b c d) as (-> & ->); auto.
Qed.

Lemma map_eq_In {X Y} (g g' : X -> Y) l x : map g l = map g' l -> In x l -> g x = g' x.
Proof.
  induction l as [|y l IH]; intros H Hin. contradiction.
  cbn [map] in H. inversion H. destruct Hin as [<-|Hin]; auto.
Qed.

Lemma nth_error_eq_nth {X} (l l' : list X) j d : nth_error l j = nth_error l' j -> nth j l d = nth j l' d.
Proof. intros H. rewrite <- !nth_default_eq. unfold nth_default. rewrite H. reflexivity. Qed.

Lemma firstn_snoc_nth {X} (l : list X) d : forall k, k < length l -> firstn (S k) l = firstn k l ++ [nth k l d].
Proof.
  induction l as [|x l IH]; intros [|k] H; cbn [length] in H; try lia.
  - reflexivity.
  - cbn [firstn nth app]. f_equal. apply IH. lia.
Qed.

(* ================================================================== *)
(** * 2. memories: read, write *)
(* ================================================================== *)

Section Memory.
  Variable T : Type.
  Variable default : T.

  Definition rd (mem : list T) (v : nat) : T := nth v mem default.

  (* for (i, x) in ix.zip(vs) { mem[i] = x } *)
  Definition write (mem : list T) (ix : list nat) (vs : list T) : list T := sa_pure mem (combine ix vs).

  Lemma write_length mem ix vs : length (write mem ix vs) = length mem.
  Proof. apply sa_pure_length. Qed.

  Lemma write_nil_l mem vs : write mem [] vs = mem.
  Proof. reflexivity. Qed.

  Lemma write_cons mem i ix v vs : write mem (i :: ix) (v :: vs) = write (set_nth mem i v) ix vs.
  Proof. reflexivity. Qed.

  Lemma rd_write_unhit mem ix vs j : ~ In j ix -> rd (write mem ix vs) j = rd mem j.
  Proof.
    intros H. unfold rd, write. apply nth_error_eq_nth. apply sa_pure_unhit.
    intros Hin. apply H. eapply map_fst_combine_in; eauto.
  Qed.

  Lemma write_hit : forall ix vs mem, NoDup ix -> length ix = length vs -> all_lt (length mem) ix ->
    map (rd (write mem ix vs)) ix = vs.
  Proof.
    induction ix as [|i ix IH]; intros [|v vs] mem Hnd Hl Hb; cbn [length] in Hl; try discriminate.
    - reflexivity.
    - inversion Hnd as [|i' l' Hni Hnd']; subst. inversion Hb as [|i' l' Hi Hb']; subst.
      rewrite write_cons. cbn [map]. f_equal.
      + rewrite rd_write_unhit by exact Hni. unfold rd. rewrite nth_set_nth by exact Hi.
        rewrite Nat.eqb_refl. reflexivity.
      + apply IH; auto. unfold all_lt. rewrite set_nth_length. exact Hb'.
  Qed.

  Lemma map_concat_pieces (g : nat -> T) (tg : nat -> list nat) (out : nat -> list T) : forall ks,
    (forall k, In k ks -> length (out k) = length (tg k)) ->
    map g (concat (map tg ks)) = concat (map out ks) ->
    forall k, In k ks -> map g (tg k) = out k.
  Proof.
    induction ks as [|x ks IH]; intros Hlen H k Hk. contradiction.
    cbn [map concat] in H. rewrite map_app in H.
    apply app_eq_len in H. 2:{ rewrite map_length. symmetry. apply Hlen. left; auto. }
    destruct H as (H1 & H2). destruct Hk as [<-|Hk]; auto.
    apply IH; auto. intros k' Hk'. apply Hlen. right; auto.
  Qed.

  Lemma concat_map_length_eq (tg : nat -> list nat) (out : nat -> list T) : forall ks,
    (forall k, In k ks -> length (out k) = length (tg k)) ->
    length (concat (map tg ks)) = length (concat (map out ks)).
  Proof.
    induction ks as [|x ks IH]; intros Hlen. reflexivity.
    cbn [map concat]. rewrite !app_length, IH, Hlen; auto. left; auto.
    intros k Hk. apply Hlen. right; auto.
  Qed.

  (* a batch of writes with pairwise distinct positions: every segment receives its values *)
  Lemma write_batch (tg : nat -> list nat) (out : nat -> list T) ks mem :
    NoDup (concat (map tg ks)) -> (forall k, In k ks -> length (out k) = length (tg k)) ->
    all_lt (length mem) (concat (map tg ks)) ->
    forall k, In k ks ->
      map (rd (write mem (concat (map tg ks)) (concat (map out ks)))) (tg k) = out k.
  Proof.
    intros Hnd Hlen Hb. apply map_concat_pieces; auto.
    apply write_hit; auto. apply concat_map_length_eq; auto.
  Qed.

  Lemma map_rd_ext mem mem' l : (forall v, In v l -> rd mem v = rd mem' v) -> map (rd mem) l = map (rd mem') l.
  Proof. intros H. apply map_ext_in. exact H. Qed.
End Memory.

(* ================================================================== *)
(** * 3. two more facts about [kahn]: unvisited vertices keep order 0; dependency form *)
(* ================================================================== *)

Section KahnMore.
  Variable B : Backend.
  Hypothesis OK : BackendOK B.
  Variable adj : icf.
  Hypothesis Hwf : wf_icf adj.
  Hypothesis Htg : target (ic_values adj) = ic_len adj.

  Definition Inv2 (st : kstate) : Prop :=
    forall v, nth v (k_unvisited st) 0 <> 0 -> nth v (k_order st) 0 = 0.

  Lemma kahn_body_parts st st' : kahn_body B adj st = Ok st' ->
    exists unv ord,
      scatter_assign_constant (k_unvisited st) (k_frontier st) 0 = Ok unv /\
      scatter_assign_constant (k_order st) (k_frontier st) (k_depth st) = Ok ord /\
      k_order st' = ord /\ k_unvisited st' = unv.
  Proof.
    unfold kahn_body. intros H.
    apply bind_ok in H. destruct H as (unv & Hu & H).
    apply bind_ok in H. destruct H as (ord & Ho & H).
    exists unv, ord. split; auto. split; auto.
    apply bind_ok in H. destruct H as (fr & _ & H).
    apply bind_ok in H. destruct H as ([rix rcount] & _ & H).
    apply bind_ok in H. destruct H as (ind & _ & H).
    apply bind_ok in H. destruct H as (rr & _ & H).
    apply bind_ok in H. destruct H as (gi & _ & H).
    apply bind_ok in H. destruct H as (zr & _ & H).
    apply bind_ok in H. destruct H as (fr1 & _ & H).
    apply bind_ok in H. destruct H as (fr1r & _ & H).
    apply bind_ok in H. destruct H as (p & _ & H).
    apply bind_ok in H. destruct H as (fr2 & _ & H).
    inversion H; subst st'. split; reflexivity.
  Qed.

  Lemma kahn_body_inv2 k st st' : Inv adj k st -> Inv2 st -> kahn_body B adj st = Ok st' -> Inv2 st'.
  Proof.
    intros HI H2 Hb. destruct (kahn_body_parts _ Hb) as (unv & ord & Hu & Ho & Eo & Eu).
    assert (HF : Forall (fun i => i < ic_len adj) (k_frontier st)).
    { apply Forall_forall. intros v Hv. apply (inv_fr HI) in Hv. eapply lvl_lt; eauto. }
    rewrite scatter_assign_constant_ok in Hu by (rewrite (inv_len_unv HI); exact HF).
    rewrite scatter_assign_constant_ok in Ho by (rewrite (inv_len_ord HI); exact HF).
    injection Hu as Hu. injection Ho as Ho.
    intros v. rewrite Eo, Eu, <- Hu, <- Ho. rewrite !nth_sac_pure.
    2: rewrite (inv_len_ord HI); exact HF. 2: rewrite (inv_len_unv HI); exact HF.
    destruct (existsb (Nat.eqb v) (k_frontier st)). congruence. apply H2.
  Qed.

  Lemma kahn_loop_inv2 : forall c k st st', Inv adj k st -> Inv2 st ->
    kahn_loop B adj c st = Ok st' -> Inv2 st'.
  Proof.
    induction c as [|c IH]; intros k st st' HI H2 Hl.
    - cbn [kahn_loop] in Hl. inversion Hl; subst; auto.
    - cbn [kahn_loop] in Hl. destruct (k_frontier st) as [|x fr] eqn:E.
      + inversion Hl; subst; auto.
      + destruct (kahn_body_ok (BackendOK_sparse OK) Hwf Htg HI) as (st1 & Hb & HI1).
        rewrite Hb in Hl. cbn [bind] in Hl.
        apply (IH (S k) st1 st' HI1); auto. exact (kahn_body_inv2 HI H2 Hb).
  Qed.

  Lemma kahn_unvisited_order order unv v :
    kahn B adj = Ok (order, unv) -> nth v unv 0 <> 0 -> nth v order 0 = 0.
  Proof.
    unfold kahn. rewrite indegree_ok by auto. cbn [bind table]. intros H.
    apply bind_ok in H. destruct H as (st & Hl & H). inversion H; subst order unv.
    eapply kahn_loop_inv2 in Hl.
    - apply Hl.
    - apply (inv_init adj Htg).
    - intros w _. cbn [k_order]. unfold fill.
      destruct (Nat.lt_ge_cases w (ic_len adj)) as [Hlt|Hge].
      apply nth_repeat_lt; auto. apply nth_overflow. rewrite repeat_length. exact Hge.
  Qed.

  (* ---- the adjacency read as a dependency relation D ---- *)
  Variable D : nat -> nat -> Prop.
  Hypothesis HD : forall x y, x < ic_len adj -> y < ic_len adj -> (In y (succs adj x) <-> D x y).

  Definition DR (x y : nat) : Prop := x < ic_len adj /\ y < ic_len adj /\ D x y.

  Lemma edgeR_DR x y : edgeR (ic_len adj) (succs adj) x y <-> DR x y.
  Proof.
    unfold edgeR, DR, edge. split; intros (H1 & H2 & H3); split; auto; split; auto; apply (HD H1 H2); auto.
  Qed.

  Lemma ct_edgeR_DR x y : clos_trans nat (edgeR (ic_len adj) (succs adj)) x y <-> clos_trans nat DR x y.
  Proof.
    split; induction 1 as [x y H|x w y _ IH1 _ IH2].
    - apply t_step. apply edgeR_DR; auto.
    - eapply t_trans; eauto.
    - apply t_step. apply edgeR_DR; auto.
    - eapply t_trans; eauto.
  Qed.

  Variables order unv : list nat.
  Hypothesis Hk : kahn B adj = Ok (order, unv).

  Lemma kd_facts :
    length order = ic_len adj /\ length unv = ic_len adj /\
    (forall v, v < ic_len adj -> nth v unv 0 = 0 \/ nth v unv 0 = 1) /\
    (forall v, v < ic_len adj -> nth v order 0 < ic_len adj).
  Proof.
    destruct (kahn_correct OK Hwf Htg) as (order' & unv' & Hk' & Hlo & Hlu & Hbool & Hvis & Hord).
    rewrite Hk in Hk'. inversion Hk'; subst order' unv'. clear Hk'.
    split; auto. split; auto. split; auto.
    intros v Hv. destruct (Hbool v Hv) as [E|E].
    - apply Hvis in E; auto. destruct E as (d & Hl). rewrite (Hord v d Hv Hl). eapply lvl_bound; eauto.
    - rewrite (kahn_unvisited_order v Hk). lia. lia.
  Qed.

  (* no cycle <-> everything visited *)
  Lemma kd_acyclic_iff :
    (forall x, x < ic_len adj -> ~ clos_trans nat DR x x) <-> (forall v, v < ic_len adj -> nth v unv 0 = 0).
  Proof.
    destruct kd_facts as (_ & _ & Hbool & _). split.
    - intros Hac v Hv. destruct (Hbool v Hv) as [E|E]; auto. exfalso.
      apply (kahn_cycle OK Hwf Htg Hk Hv) in E. destruct E as (u & Hu & Hc & _).
      apply (Hac u Hu). apply ct_edgeR_DR. exact Hc.
    - intros Hall x Hx Hc.
      assert (E : nth x unv 0 = 1).
      { apply (kahn_cycle OK Hwf Htg Hk Hx). exists x. split; auto. split.
        apply ct_edgeR_DR; auto. apply rt_refl. }
      rewrite (Hall x Hx) in E. discriminate.
  Qed.

  Lemma kd_order x y : (forall v, v < ic_len adj -> nth v unv 0 = 0) -> DR x y ->
    nth x order 0 < nth y order 0.
  Proof.
    intros Hall (Hx & Hy & Hd).
    apply (kahn_sound OK Hwf Htg Hk Hx Hy). unfold edge. apply HD; auto. apply Hall; auto.
  Qed.
End KahnMore.

(* ================================================================== *)
(** * 4. diagrams: single writer, acyclicity, rank from acyclicity *)
(* ================================================================== *)

Section Graphs.
  Variables O A : Type.

  (* every node is written at most once: by one input position or by one hyperedge target position *)
  Definition single_writer (f : ohg O A) : Prop :=
    NoDup (table (o_s f) ++ concat (decode_f (h_t (o_h f)))).

  (* the dependency relation restricted to the operations of f *)
  Definition depR (f : ohg O A) (x y : nat) : Prop :=
    x < length (h_x (o_h f)) /\ y < length (h_x (o_h f)) /\ dep (o_h f) x y.

  Definition acyclic_ops (f : ohg O A) : Prop :=
    forall x, x < length (h_x (o_h f)) -> ~ clos_trans nat (depR f) x x.

  Lemma op_tgt_lt (h : hg O A) e v : wf_hg h -> In v (op_tgt h e) -> v < length (h_w h).
  Proof.
    intros (_ & Wt & _ & _ & _ & Et) H. rewrite <- Et. exact (@succs_lt (h_t h) e v Wt H).
  Qed.

  Lemma op_src_lt (h : hg O A) e v : wf_hg h -> In v (op_src h e) -> v < length (h_w h).
  Proof.
    intros (Ws & _ & _ & _ & Es & _) H. rewrite <- Es. exact (@succs_lt (h_s h) e v Ws H).
  Qed.

  Lemma decode_t_length (h : hg O A) : wf_hg h -> length (decode_f (h_t h)) = length (h_x h).
  Proof. intros (_ & _ & _ & E & _). unfold decode_f. rewrite SegThm.segs_length. exact E. Qed.

  (* ---- consequences of single_writer ---- *)
  Section SW.
    Variable f : ohg O A.
    Hypothesis SW : single_writer f.

    Lemma sw_ins : NoDup (table (o_s f)).
    Proof. apply NoDup_app_iff in SW. tauto. Qed.

    Lemma sw_tgt_nodup e : NoDup (op_tgt (o_h f) e).
    Proof. apply NoDup_app_iff in SW. destruct SW as (_ & H & _). apply NoDup_concat_nth. exact H. Qed.

    Lemma sw_tgt_inj e e' v : In v (op_tgt (o_h f) e) -> In v (op_tgt (o_h f) e') -> e = e'.
    Proof. apply NoDup_app_iff in SW. destruct SW as (_ & H & _). apply NoDup_concat_inj. exact H. Qed.

    Lemma sw_tgt_ins e v : In v (op_tgt (o_h f) e) -> ~ In v (table (o_s f)).
    Proof.
      apply NoDup_app_iff in SW. destruct SW as (_ & _ & H). intros Hv Hi.
      apply (H v Hi). eapply In_nth_concat. exact Hv.
    Qed.

    Lemma sw_batch_nodup : forall ks, NoDup ks -> NoDup (concat (map (op_tgt (o_h f)) ks)).
    Proof.
      induction ks as [|k ks IH]; intros Hnd. constructor.
      inversion Hnd as [|k' l' Hni Hnd']; subst. cbn [map concat]. apply NoDup_app_iff.
      split. apply sw_tgt_nodup. split. auto.
      intros v Hv Hin. apply in_concat in Hin. destruct Hin as (l & Hl & Hvl).
      apply in_map_iff in Hl. destruct Hl as (k' & <- & Hk').
      assert (k = k') by (eapply sw_tgt_inj; eauto). subst k'. contradiction.
    Qed.
  End SW.

  (* ---- decidable dependency and a hand-built adjacency array ---- *)
  Definition depb (h : hg O A) (x y : nat) : bool :=
    existsb (fun v => existsb (Nat.eqb v) (op_src h y)) (op_tgt h x).

  Lemma depb_spec h x y : depb h x y = true <-> dep h x y.
  Proof.
    unfold depb, dep. rewrite existsb_exists. split; intros (v & H1 & H2); exists v; split; auto;
      apply existsb_eqb_In; auto.
  Qed.

  Definition psuccs (h : hg O A) (x : nat) : list nat := List.filter (depb h x) (seq 0 (length (h_x h))).

  Definition padj (h : hg O A) : icf :=
    let ls := map (psuccs h) (seq 0 (length (h_x h))) in
    mkIC (mkFF (map (@length nat) ls) (length (concat ls) + 1)) (mkFF (concat ls) (length (h_x h))).

  Lemma padj_wf h : wf_icf (padj h).
  Proof.
    unfold padj. split; [split|]; cbn [ic_sources ic_values table target ff_source].
    - rewrite list_sum_map_length. reflexivity.
    - apply list_sum_map_length.
    - unfold wf_ff, all_lt. cbn [table target]. apply Forall_forall. intros y Hy.
      apply in_concat in Hy. destruct Hy as (l & Hl & Hy). apply in_map_iff in Hl.
      destruct Hl as (x & <- & _). unfold psuccs in Hy. apply filter_In in Hy. destruct Hy as (Hy & _).
      apply in_seq in Hy. lia.
  Qed.

  Lemma padj_len h : ic_len (padj h) = length (h_x h).
  Proof. unfold padj, ic_len, ff_source. cbn [ic_sources table]. rewrite !map_length, seq_length. reflexivity. Qed.

  Lemma padj_tg h : target (ic_values (padj h)) = ic_len (padj h).
  Proof. rewrite padj_len. reflexivity. Qed.

  Lemma padj_succs h x : x < length (h_x h) -> succs (padj h) x = psuccs h x.
  Proof.
    intros Hx. unfold succs, decode_f, padj. cbn [ic_sources ic_values table].
    rewrite segs_of_concat. rewrite nth_map_seq by exact Hx. reflexivity.
  Qed.

  Lemma padj_dep h x y : x < ic_len (padj h) -> y < ic_len (padj h) ->
    (In y (succs (padj h) x) <-> dep h x y).
  Proof.
    rewrite padj_len. intros Hx Hy. rewrite padj_succs by exact Hx. unfold psuccs.
    rewrite filter_In, in_seq, depb_spec. split. tauto. intros H. split; auto. lia.
  Qed.

  (* an acyclic dependency relation has a rank function *)
  Theorem acyclic_rank (f : ohg O A) : acyclic_ops f ->
    exists lev : nat -> nat, forall x y, depR f x y -> lev x < lev y.
  Proof.
    intros Hac. set (h := o_h f).
    destruct (kahn_correct VecBackend_ok (padj_wf h) (padj_tg h)) as (order & unv & Hk & _).
    exists (fun x => nth x order 0). intros x y Hd.
    assert (Hall : forall v, v < ic_len (padj h) -> nth v unv 0 = 0).
    { apply (kd_acyclic_iff VecBackend_ok (padj_wf h) (padj_tg h) (dep h) (@padj_dep h) Hk).
      intros z Hz Hc. rewrite padj_len in Hz. apply (Hac z Hz).
      assert (G : forall a b, clos_trans nat (DR (padj h) (dep h)) a b -> clos_trans nat (depR f) a b).
      { induction 1 as [a b H|a w b _ IH1 _ IH2].
        - apply t_step. unfold DR in H. rewrite padj_len in H. exact H.
        - eapply t_trans; eauto. }
      apply G. exact Hc. }
    apply (kd_order VecBackend_ok (padj_wf h) (padj_tg h) (@padj_dep h) Hk Hall).
    unfold DR. rewrite padj_len. exact Hd.
  Qed.

  (* conversely a rank function excludes cycles *)
  Lemma rank_acyclic (f : ohg O A) (lev : nat -> nat) :
    (forall x y, depR f x y -> lev x < lev y) -> acyclic_ops f.
  Proof.
    intros H x _ Hc.
    assert (Hlt : forall a b, clos_trans nat (depR f) a b -> lev a < lev b).
    { induction 1 as [a b Hab|a w b _ IH1 _ IH2]. auto. lia. }
    specialize (Hlt x x Hc). lia.
  Qed.
End Graphs.

(* ================================================================== *)
(** * 5. valuations and their uniqueness *)
(* ================================================================== *)

Section Interp.
  Variables O A T : Type.
  Variable default : T.
  Variable interp : A -> list T -> list T.

  Local Notation rd := (rd default).

  (* the output values of hyperedge e computed from the memory *)
  Definition out_of (f : ohg O A) (mem : list T) (e : nat) : list T :=
    match nth_error (h_x (o_h f)) e with
    | Some a => interp a (map (rd mem) (op_src (o_h f) e))
    | None => []
    end.

  (* the interpreter returns as many values as the hyperedge has targets *)
  Definition arity_ok (f : ohg O A) : Prop :=
    forall e a vals, nth_error (h_x (o_h f)) e = Some a ->
      length vals = length (op_src (o_h f) e) -> length (interp a vals) = length (op_tgt (o_h f) e).

  Definition Valuation (f : ohg O A) (inp mem : list T) : Prop :=
    (forall i, i < length (table (o_s f)) -> rd mem (nth i (table (o_s f)) 0) = nth i inp default) /\
    (forall e a, nth_error (h_x (o_h f)) e = Some a ->
       map (rd mem) (op_tgt (o_h f) e) = interp a (map (rd mem) (op_src (o_h f) e))) /\
    (forall v, v < length (h_w (o_h f)) -> ~ In v (table (o_s f)) ->
       (forall e, e < length (h_x (o_h f)) -> ~ In v (op_tgt (o_h f) e)) -> rd mem v = default).

  Lemma out_of_arity f mem e : arity_ok f -> e < length (h_x (o_h f)) ->
    length (out_of f mem e) = length (op_tgt (o_h f) e).
  Proof.
    intros Har He. unfold out_of. destruct (nth_error (h_x (o_h f)) e) as [a|] eqn:E.
    - apply (Har e a); auto. apply map_length.
    - apply nth_error_None in E. lia.
  Qed.

  Lemma out_of_ext f mem mem' e :
    (forall v, In v (op_src (o_h f) e) -> rd mem v = rd mem' v) -> out_of f mem e = out_of f mem' e.
  Proof.
    intros H. unfold out_of. destruct (nth_error (h_x (o_h f)) e); auto.
    f_equal. apply map_ext_in. exact H.
  Qed.

  Lemma Valuation_out_of f inp mem : Valuation f inp mem ->
    forall e, e < length (h_x (o_h f)) -> map (rd mem) (op_tgt (o_h f) e) = out_of f mem e.
  Proof.
    intros (_ & H & _) e He. unfold out_of.
    destruct (nth_error (h_x (o_h f)) e) as [a|] eqn:E. auto.
    apply nth_error_None in E. lia.
  Qed.

  (* decidable case analysis on how a node is written *)
  Lemma writer_cases (f : ohg O A) v :
    In v (table (o_s f)) \/
    (~ In v (table (o_s f)) /\ exists e, e < length (h_x (o_h f)) /\ In v (op_tgt (o_h f) e)) \/
    (~ In v (table (o_s f)) /\ forall e, e < length (h_x (o_h f)) -> ~ In v (op_tgt (o_h f) e)).
  Proof.
    destruct (in_dec Nat.eq_dec v (table (o_s f))) as [Hi|Hi]. auto. right.
    destruct (existsb (fun e => existsb (Nat.eqb v) (op_tgt (o_h f) e)) (seq 0 (length (h_x (o_h f))))) eqn:E.
    - left. split; auto. apply existsb_exists in E. destruct E as (e & He & Hv).
      apply in_seq in He. apply existsb_eqb_In in Hv. exists e. split; auto. lia.
    - right. split; auto. intros e He Hv.
      assert (X : existsb (fun e => existsb (Nat.eqb v) (op_tgt (o_h f) e)) (seq 0 (length (h_x (o_h f)))) = true).
      { apply existsb_exists. exists e. split. apply in_seq. lia. apply existsb_eqb_In. exact Hv. }
      congruence.
  Qed.

  (* two valuations agree everywhere: induction on the rank of the writer *)
  Lemma valuation_agree (f : ohg O A) inp mem mem' : wf_ohg f -> acyclic_ops f ->
    Valuation f inp mem -> Valuation f inp mem' ->
    forall v, v < length (h_w (o_h f)) -> rd mem v = rd mem' v.
  Proof.
    intros Wf Hac V V'. destruct (acyclic_rank Hac) as (lev & Hlev).
    assert (Hwh : wf_hg (o_h f)) by (destruct Wf; auto).
    assert (Hedge : forall k e, lev e < k -> e < length (h_x (o_h f)) ->
              map (rd mem) (op_tgt (o_h f) e) = map (rd mem') (op_tgt (o_h f) e)).
    { induction k as [|k IH]; intros e Hk He. lia.
      rewrite (Valuation_out_of V He), (Valuation_out_of V' He). apply out_of_ext.
      intros v Hv. destruct (writer_cases f v) as [Hi|[(Hi & e' & He' & Hv')|(Hi & Hno)]].
      - apply In_nth with (d := 0) in Hi. destruct Hi as (i & Hi & <-).
        destruct V as (V1 & _). destruct V' as (V1' & _). rewrite V1, V1'; auto.
      - apply (map_eq_In (rd mem) (rd mem') (op_tgt (o_h f) e') v); auto.
        apply IH; auto. assert (lev e' < lev e). { apply Hlev. split; auto. split; auto. exists v; auto. }
        lia.
      - destruct V as (_ & _ & V3). destruct V' as (_ & _ & V3').
        assert (Hvn : v < length (h_w (o_h f))) by (eapply op_src_lt; eauto).
        rewrite V3, V3'; auto. }
    intros v Hvn. destruct (writer_cases f v) as [Hi|[(Hi & e & He & Hv)|(Hi & Hno)]].
    - apply In_nth with (d := 0) in Hi. destruct Hi as (i & Hi & <-).
      destruct V as (V1 & _). destruct V' as (V1' & _). rewrite V1, V1'; auto.
    - apply (map_eq_In (rd mem) (rd mem') (op_tgt (o_h f) e) v); auto.
      apply (Hedge (S (lev e))); auto.
    - destruct V as (_ & _ & V3). destruct V' as (_ & _ & V3'). rewrite V3, V3'; auto.
  Qed.

  Theorem valuation_unique (f : ohg O A) inp mem mem' : wf_ohg f -> acyclic_ops f ->
    Valuation f inp mem -> Valuation f inp mem' ->
    length mem = length (h_w (o_h f)) -> length mem' = length (h_w (o_h f)) -> mem = mem'.
  Proof.
    intros Wf Hac V V' L1 L2. apply nth_ext with (d := default) (d' := default). lia.
    intros v Hv. apply (valuation_agree Wf Hac V V'). lia.
  Qed.
End Interp.

(* ================================================================== *)
(** * 6. interpretation in batches: any dependency-respecting schedule yields the valuation *)
(* ================================================================== *)

Lemma map_nth_eq {X Y} (g : X -> Y) l l' i d e : map g l = l' -> i < length l -> g (nth i l d) = nth i l' e.
Proof.
  intros <- Hi. rewrite (nth_indep (map g l) e (g d)) by (rewrite map_length; exact Hi).
  symmetry. apply map_nth.
Qed.

Section Batches.
  Variables O A T : Type.
  Variable default : T.
  Variable interp : A -> list T -> list T.
  Variable f : ohg O A.
  Variable inp : list T.

  Local Notation rd := (rd default).
  Local Notation m := (length (h_x (o_h f))).
  Local Notation n := (length (h_w (o_h f))).
  Local Notation ins := (table (o_s f)).
  Local Notation src := (op_src (o_h f)).
  Local Notation tgt := (op_tgt (o_h f)).
  Local Notation outv := (out_of default interp f).

  (* one batch: all outputs are computed from the memory before the batch, then written *)
  Definition step_pure (mem : list T) (ks : list nat) : list T :=
    write mem (concat (map tgt ks)) (concat (map (outv mem) ks)).

  (* the memory with the inputs written *)
  Definition init_mem : list T := write (repeat default n) ins inp.

  Definition run (bs : list (list nat)) (mem : list T) : list T := fold_left step_pure bs mem.

  (* one hyperedge at a time *)
  Definition seq_step (mem : list T) (e : nat) : list T := write mem (tgt e) (outv mem e).
  Definition seq_interp (sigma : list nat) (mem : list T) : list T := fold_left seq_step sigma mem.

  Definition respects (sigma : list nat) : Prop :=
    forall i j, i < length sigma -> j < length sigma ->
      dep (o_h f) (nth i sigma 0) (nth j sigma 0) -> i < j.

  Lemma step_pure_length mem ks : length (step_pure mem ks) = length mem.
  Proof. apply write_length. Qed.

  Lemma seq_step_batch mem e : seq_step mem e = step_pure mem [e].
  Proof. unfold seq_step, step_pure. cbn [map concat]. rewrite !app_nil_r. reflexivity. Qed.

  Lemma seq_interp_run : forall sigma mem, seq_interp sigma mem = run (map (fun e => [e]) sigma) mem.
  Proof.
    induction sigma as [|e sigma IH]; intros mem. reflexivity.
    unfold seq_interp, run in *. cbn [map fold_left]. rewrite seq_step_batch. apply IH.
  Qed.

  Hypothesis Wf : wf_ohg f.
  Hypothesis SW : single_writer f.
  Hypothesis Har : arity_ok interp f.
  Hypothesis Hinp : length inp = length ins.

  (* the invariant: P = set of hyperedges already interpreted *)
  Definition PInv (P : nat -> Prop) (mem : list T) : Prop :=
    length mem = n /\
    (forall i, i < length ins -> rd mem (nth i ins 0) = nth i inp default) /\
    (forall e, e < m -> P e -> map (rd mem) (tgt e) = outv mem e) /\
    (forall v, v < n -> ~ In v ins -> (forall e, e < m -> In v (tgt e) -> ~ P e) -> rd mem v = default).

  Lemma PInv_ext (P Q : nat -> Prop) mem : (forall e, e < m -> (P e <-> Q e)) -> PInv P mem -> PInv Q mem.
  Proof.
    intros E (H1 & H2 & H3 & H4). split; auto. split; auto. split.
    - intros e He Hq. apply H3; auto. apply E; auto.
    - intros v Hv Hi Hw. apply H4; auto. intros e He Hin Hp. apply (Hw e He Hin). apply E; auto.
  Qed.

  Lemma PInv_init : PInv (fun _ => False) init_mem.
  Proof.
    destruct Wf as (Wh & Ws & _ & Es & _).
    unfold init_mem. split; [|split; [|split]].
    - rewrite write_length. apply repeat_length.
    - intros i Hi. apply map_nth_eq; auto. apply write_hit; auto.
      + apply (sw_ins SW).
      + rewrite repeat_length. unfold wf_ff in Ws. rewrite Es in Ws. exact Ws.
    - intros e _ [].
    - intros v Hv Hi _. rewrite rd_write_unhit by exact Hi. unfold rd. apply nth_repeat_lt. exact Hv.
  Qed.

  Lemma PInv_step (P : nat -> Prop) mem ks : PInv P mem -> NoDup ks ->
    (forall x, In x ks -> x < m /\ ~ P x) ->
    (forall x y, In x ks -> y < m -> P y \/ In y ks -> ~ dep (o_h f) x y) ->
    PInv (fun e => P e \/ In e ks) (step_pure mem ks).
  Proof.
    intros (H1 & H2 & H3 & H4) Hnd Hks Hdep.
    assert (Wh : wf_hg (o_h f)) by (destruct Wf; auto).
    set (W := concat (map tgt ks)).
    assert (HW : forall v, In v W -> exists k, In k ks /\ In v (tgt k)).
    { intros v Hv. apply in_concat in Hv. destruct Hv as (l & Hl & Hv). apply in_map_iff in Hl.
      destruct Hl as (k & <- & Hk). eauto. }
    assert (Hun : forall v, ~ In v W -> rd (step_pure mem ks) v = rd mem v).
    { intros v Hv. unfold step_pure. apply rd_write_unhit. exact Hv. }
    assert (Hsrc : forall y, y < m -> P y \/ In y ks -> outv (step_pure mem ks) y = outv mem y).
    { intros y Hy Hpy. apply out_of_ext. intros v Hv. apply Hun. intros Hin.
      destruct (HW v Hin) as (k & Hk & Hvk). apply (Hdep k y Hk Hy Hpy). exists v. auto. }
    split; [|split; [|split]].
    - rewrite step_pure_length. exact H1.
    - intros i Hi. rewrite Hun. auto. intros Hin. destruct (HW _ Hin) as (k & Hk & Hvk).
      apply (sw_tgt_ins SW _ _ Hvk). apply nth_In. exact Hi.
    - intros e He Hpe. rewrite Hsrc by auto.
      destruct (in_dec Nat.eq_dec e ks) as [Hin|Hnin].
      + unfold step_pure. apply write_batch; auto.
        * apply (sw_batch_nodup SW). exact Hnd.
        * intros k Hk. apply out_of_arity; auto. apply Hks; auto.
        * apply Forall_forall. intros v Hv. destruct (HW v Hv) as (k & _ & Hvk). rewrite H1.
          eapply op_tgt_lt; eauto.
      + destruct Hpe as [Hpe|Hpe]. 2: contradiction.
        rewrite <- H3 by auto. apply map_ext_in. intros v Hv. apply Hun. intros Hin.
        destruct (HW v Hin) as (k & Hk & Hvk).
        assert (e = k) by (eapply (sw_tgt_inj SW); eauto). subst k. contradiction.
    - intros v Hv Hi Hw. rewrite Hun.
      + apply H4; auto. intros e He Hin Hp. apply (Hw e He Hin). left; exact Hp.
      + intros Hin. destruct (HW v Hin) as (k & Hk & Hvk).
        apply (Hw k). apply Hks; auto. exact Hvk. right; exact Hk.
  Qed.

  Section Run.
    Variable bs : list (list nat).
    Hypothesis B1 : forall i, NoDup (nth i bs []).
    Hypothesis B2 : forall i j e, In e (nth i bs []) -> In e (nth j bs []) -> i = j.
    Hypothesis B3 : forall e, e < m <-> exists i, In e (nth i bs []).
    Hypothesis B4 : forall i j x y, In x (nth i bs []) -> In y (nth j bs []) -> dep (o_h f) x y -> i < j.

    Lemma run_inv : forall l, l <= length bs ->
      PInv (fun e => exists j, j < l /\ In e (nth j bs [])) (run (firstn l bs) init_mem).
    Proof.
      induction l as [|l IH]; intros Hl.
      - cbn [firstn run fold_left]. eapply PInv_ext. 2: apply PInv_init.
        intros e _. split. intros []. intros (j & Hj & _). lia.
      - rewrite (firstn_snoc_nth bs []) by lia. unfold run. rewrite fold_left_app. cbn [fold_left].
        fold (run (firstn l bs) init_mem).
        eapply PInv_ext. 2: apply PInv_step. 2: apply IH; lia.
        + intros e _. split.
          * intros [(j & Hj & He)|He]. exists j. split; auto. exists l. split; auto.
          * intros (j & Hj & He). destruct (Nat.eq_dec j l) as [->|Hne]. right; auto.
            left. exists j. split; auto. lia.
        + apply B1.
        + intros x Hx. split. apply B3. eauto.
          intros (j & Hj & Hxj). assert (j = l) by (eapply B2; eauto). lia.
        + intros x y Hx Hy [(j & Hj & Hyj)|Hyl] Hd.
          * pose proof (@B4 l j x y Hx Hyj Hd). lia.
          * pose proof (@B4 l l x y Hx Hyl Hd). lia.
    Qed.

    Theorem run_valuation : Valuation default interp f inp (run bs init_mem) /\ length (run bs init_mem) = n.
    Proof.
      pose proof (run_inv (le_n (length bs))) as H. rewrite firstn_all in H.
      destruct H as (H1 & H2 & H3 & H4). split; auto. split; [|split].
      - exact H2.
      - intros e a E. assert (He : e < m) by (apply nth_error_Some; congruence).
        assert (X : map (rd (run bs init_mem)) (tgt e) = outv (run bs init_mem) e).
        { apply H3; auto. apply B3 in He. destruct He as (i & Hi). exists i. split; auto.
          destruct (Nat.lt_ge_cases i (length bs)) as [|Hge]; auto.
          rewrite nth_overflow in Hi by exact Hge. destruct Hi. }
        unfold out_of in X. rewrite E in X. exact X.
      - intros v Hv Hi Hno. apply H4; auto. intros e He Hin. exfalso. exact (Hno e He Hin).
    Qed.
  End Run.

  (* ---- one hyperedge at a time, in any order that respects the dependencies ---- *)
  Lemma nth_map_single : forall (sigma : list nat) i, i < length sigma ->
    nth i (map (fun x => [x]) sigma) [] = [nth i sigma 0].
  Proof.
    induction sigma as [|x sigma IH]; intros [|i] H; cbn [length] in H; try lia.
    - reflexivity.
    - cbn [map nth]. apply IH. lia.
  Qed.

  Lemma nth_singletons (sigma : list nat) i e :
    In e (nth i (map (fun x => [x]) sigma) []) <-> i < length sigma /\ nth i sigma 0 = e.
  Proof.
    destruct (Nat.lt_ge_cases i (length sigma)) as [Hlt|Hge].
    - rewrite nth_map_single by exact Hlt. cbn [In]. split. intros [H|[]]. auto. intros (_ & H). auto.
    - rewrite nth_overflow by (rewrite map_length; exact Hge). split. intros []. intros (H & _). lia.
  Qed.

  Theorem any_order_valuation sigma : Permutation sigma (seq 0 m) -> respects sigma ->
    Valuation default interp f inp (seq_interp sigma init_mem) /\ length (seq_interp sigma init_mem) = n.
  Proof.
    intros Hp Hr. rewrite seq_interp_run.
    assert (Hnd : NoDup sigma).
    { eapply Permutation_NoDup. apply Permutation_sym. exact Hp. apply seq_NoDup. }
    apply run_valuation.
    - intros i. destruct (Nat.lt_ge_cases i (length sigma)) as [Hlt|Hge].
      + rewrite nth_map_single by exact Hlt. constructor. intros []. constructor.
      + rewrite nth_overflow by (rewrite map_length; exact Hge). constructor.
    - intros i j e Hi Hj. apply nth_singletons in Hi. apply nth_singletons in Hj.
      destruct Hi as (Hi & Ei). destruct Hj as (Hj & Ej).
      apply (proj1 (NoDup_nth sigma 0) Hnd); auto. congruence.
    - intros e. split.
      + intros He. assert (Hin : In e sigma).
        { eapply Permutation_in. apply Permutation_sym. exact Hp. apply in_seq. lia. }
        apply In_nth with (d := 0) in Hin. destruct Hin as (i & Hi & Ei).
        exists i. apply nth_singletons. auto.
      + intros (i & Hi). apply nth_singletons in Hi. destruct Hi as (Hi & <-).
        assert (Hin : In (nth i sigma 0) (seq 0 m)).
        { eapply Permutation_in. exact Hp. apply nth_In. exact Hi. }
        apply in_seq in Hin. lia.
    - intros i j x y Hx Hy Hd. apply nth_singletons in Hx. apply nth_singletons in Hy.
      destruct Hx as (Hi & <-). destruct Hy as (Hj & <-). apply Hr; auto.
  Qed.
End Batches.
