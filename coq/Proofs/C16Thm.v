(* C16: evaluation of an acyclic single-writer diagram computes the unique valuation; it refuses
   exactly the diagrams whose operation dependency has a cycle; the result depends neither on the
   back-end nor on the schedule.
   The two facts proved elsewhere are explicit premises: [adj_spec_ops B] (Spec/GraphSpec.v) and
   [conv_layers_spec B] (below). *)
From OHG Require Import Spec.Plain Spec.GraphSpec Proofs.PrimsThm Proofs.SegThm Proofs.C07aThm
  Proofs.C08Thm Proofs.BackendInst Proofs.KahnThm Proofs.C16Lemmas.
From Coq Require Import Relation_Operators Operators_Properties.

Set Implicit Arguments.

Arguments Nat.sub : simpl never.

(* specification of layer_function_to_layers (converse of a singleton-segment array + collect):
   layer l lists exactly the operations x with ord(x) = l, in some order *)
Definition conv_layers_spec (B : Backend) : Prop :=
  forall ord : ff, wf_ff ord ->
  exists layers, layer_function_to_layers B ord = Ok layers /\
    length layers = target ord /\
    forall l, l < target ord ->
      target (nth l layers (mkFF [] 0)) = ff_source ord /\
      Permutation (table (nth l layers (mkFF [] 0)))
                  (List.filter (fun x => nth x (table ord) 0 =? l) (seq 0 (ff_source ord))).

(* the contract of the user-supplied batch interpreter: it interprets each operation of the batch
   on its own segment *)
Definition apply_spec {A T} (interp : A -> list T -> list T)
    (apply : list A -> ic (list T) -> res (ic (list T))) : Prop :=
  forall ls c, wf_ics c -> ic_len c = length ls ->
  exists c', apply ls c = Ok c' /\ wf_ics c' /\
    decode_s c' = map (fun p => interp (fst p) (snd p)) (combine ls (decode_s c)).

(* ---------- small facts ---------- *)
Lemma gather_F2 {X} (xs : list X) : forall idx, Forall (fun i => i < length xs) idx ->
  exists r, gather xs idx = Ok r /\ Forall2 (fun i x => nth_error xs i = Some x) idx r.
Proof.
  induction idx as [|i idx IH]; intros H.
  - exists []. split. reflexivity. constructor.
  - inversion H as [|i' l' Hi Hrest]; subst. destruct (IH Hrest) as (r & Hr & HF).
    destruct (nth_error xs i) as [x|] eqn:E.
    + exists (x :: r). split. 2: constructor; auto.
      unfold gather in *. cbn [mapM]. unfold get at 1. rewrite E. cbn [unwrap bind]. rewrite Hr. reflexivity.
    + apply nth_error_None in E. lia.
Qed.

Lemma F2_length {X Y} (R : X -> Y -> Prop) l l' : Forall2 R l l' -> length l = length l'.
Proof. induction 1; cbn [length]; auto. Qed.

Lemma clos_trans_ext (R R' : nat -> nat -> Prop) : (forall a b, R a b <-> R' a b) ->
  forall x y, clos_trans nat R x y <-> clos_trans nat R' x y.
Proof.
  intros E x y. split; induction 1 as [a b H|a w b _ IH1 _ IH2].
  - apply t_step. apply E; auto.
  - eapply t_trans; eauto.
  - apply t_step. apply E; auto.
  - eapply t_trans; eauto.
Qed.

Lemma amax_zero_iff xs : (match amax xs with Some mx => mx | None => 0 end = 0) <-> (forall v, nth v xs 0 = 0).
Proof.
  destruct (amax xs) as [mx|] eqn:E.
  - apply amax_spec in E. destruct E as (Hin & Hall). rewrite Forall_forall in Hall. split.
    + intros -> v. destruct (Nat.lt_ge_cases v (length xs)) as [Hlt|Hge].
      * assert (nth v xs 0 <= 0) by (apply Hall; apply nth_In; auto). lia.
      * apply nth_overflow; auto.
    + intros H. apply In_nth with (d := 0) in Hin. destruct Hin as (i & _ & <-). apply H.
  - apply amax_none in E. subst xs. split; auto. intros _ [|v]; reflexivity.
Qed.

(* ================================================================== *)
(** * 1. the pure view of eval_step / eval_order (well-formedness only) *)
(* ================================================================== *)

Section EvalPure.
  Variables O A T : Type.
  Variable default : T.
  Variable interp : A -> list T -> list T.
  Variable apply : list A -> ic (list T) -> res (ic (list T)).
  Hypothesis AP : apply_spec interp apply.
  Variable f : ohg O A.
  Hypothesis Wf : wf_ohg f.

  Local Notation rd := (rd default).
  Local Notation m := (length (h_x (o_h f))).
  Local Notation n := (length (h_w (o_h f))).

  Lemma outs_pure mem : forall ks labels,
    Forall2 (fun k a => nth_error (h_x (o_h f)) k = Some a) ks labels ->
    map (fun p => interp (fst p) (snd p))
        (combine labels (map (map (fun i => nth i mem default)) (map (op_src (o_h f)) ks)))
    = map (out_of default interp f mem) ks.
  Proof.
    induction 1 as [|k a ks labels Hk _ IH]. reflexivity.
    cbn [map combine fst snd]. rewrite IH. f_equal. unfold out_of. rewrite Hk. reflexivity.
  Qed.

  Lemma eval_step_ok mem lf : length mem = n -> target lf = m -> all_lt m (table lf) ->
    eval_step apply f mem lf = Ok (step_pure default interp f mem (table lf)).
  Proof.
    intros Hmem Htg Hlt.
    pose proof (proj1 Wf) as Wh. destruct (proj1 Wf) as (Ws & Wt & Ls & Lt & Es & Et).
    assert (Wlf : wf_ff lf) by (unfold wf_ff; rewrite Htg; exact Hlt).
    unfold eval_step.
    (* labels *)
    unfold ff_compose_semi. rewrite Htg, Nat.eqb_refl, get_range_full. cbn [bind].
    destruct (gather_F2 (h_x (o_h f)) Hlt) as (labels & Hg & HF2). rewrite Hg. cbn [bind unwrap].
    (* source indexes *)
    destruct (@C08_map_indexes_f (h_s (o_h f)) lf Ws Wlf) as (rs & Hrs & Wrs & Drs & Trs & _ & _).
    { rewrite Htg. symmetry. exact Ls. }
    rewrite Hrs. cbn [bind unwrap].
    (* values read from memory *)
    destruct (@C08_map_semifinite T rs mem default Wrs) as (iv & Hiv & Siv & Wiv & Div).
    { rewrite Trs, Es. symmetry. exact Hmem. }
    rewrite Hiv. cbn [bind unwrap].
    (* the user interpreter *)
    destruct (AP labels Wiv) as (outs & Hap & Wouts & Douts).
    { unfold ic_len, ff_source. rewrite Siv.
      rewrite <- (SegThm.segs_length (table (ic_sources rs)) (table (ic_values rs))).
      change (segs (table (ic_sources rs)) (table (ic_values rs))) with (decode_f rs).
      rewrite Drs, map_length. apply (F2_length HF2). }
    rewrite Hap. cbn [bind].
    (* target indexes *)
    destruct (@C08_map_indexes_f (h_t (o_h f)) lf Wt Wlf) as (rt & Hrt & Wrt & Drt & Trt & _ & Crt).
    { rewrite Htg. symmetry. exact Lt. }
    rewrite Hrt. cbn [bind unwrap].
    assert (EW : table (ic_values rt) = concat (map (op_tgt (o_h f)) (table lf))).
    { rewrite Crt, Drt. reflexivity. }
    assert (EV : ic_values outs = concat (map (out_of default interp f mem) (table lf))).
    { destruct Wouts as (_ & W2).
      rewrite <- (SegThm.segs_concat (table (ic_sources outs)) (ic_values outs) W2).
      change (segs (table (ic_sources outs)) (ic_values outs)) with (decode_s outs).
      rewrite Douts, Div, Drs. f_equal.
      change (fun i => nth i (decode_f (h_s (o_h f))) []) with (op_src (o_h f)).
      apply outs_pure. exact HF2. }
    rewrite scatter_assign_eq.
    - unfold step_pure, write. rewrite EW, EV. reflexivity.
    - apply in_bounds_combine. rewrite EW. apply Forall_forall. intros v Hv.
      apply in_concat in Hv. destruct Hv as (l & Hl & Hv). apply in_map_iff in Hl.
      destruct Hl as (k & <- & _). rewrite Hmem. eapply op_tgt_lt; eauto.
  Qed.

  Lemma run_length : forall bs mem, length (run default interp f bs mem) = length mem.
  Proof.
    induction bs as [|ks bs IH]; intros mem. reflexivity.
    unfold run in *. cbn [fold_left]. rewrite IH. apply step_pure_length.
  Qed.

  Definition layer_ok (lf : ff) : Prop := target lf = m /\ all_lt m (table lf).

  Lemma foldM_eval_step : forall layers mem, Forall layer_ok layers -> length mem = n ->
    foldM (eval_step apply f) layers mem = Ok (run default interp f (map table layers) mem).
  Proof.
    induction layers as [|lf layers IH]; intros mem HF Hmem. reflexivity.
    inversion HF as [|lf' l' (H1 & H2) Hrest]; subst.
    cbn [foldM map]. rewrite eval_step_ok by auto. cbn [bind].
    rewrite IH; auto. rewrite step_pure_length. exact Hmem.
  Qed.

  Lemma eval_order_ok inp layers : Forall layer_ok layers ->
    let memF := run default interp f (map table layers) (init_mem default f inp) in
    eval_order default apply f inp layers = Ok (memF, map (rd memF) (table (o_t f))).
  Proof.
    intros HF memF. destruct Wf as (Wh & Wsf & Wtf & Es & Et).
    unfold eval_order. rewrite scatter_assign_eq.
    2:{ apply in_bounds_combine. unfold fill. rewrite repeat_length. unfold wf_ff in Wsf.
        rewrite Es in Wsf. exact Wsf. }
    cbn [bind]. fold (write (fill default n) (table (o_s f)) inp). unfold fill.
    fold (init_mem default f inp).
    assert (L0 : length (init_mem default f inp) = n).
    { unfold init_mem. rewrite write_length. apply repeat_length. }
    rewrite foldM_eval_step by auto. cbn [bind]. fold memF.
    rewrite get_range_full. cbn [bind].
    rewrite (gather_ok _ default).
    2:{ unfold memF. rewrite run_length, L0. unfold wf_ff in Wtf. rewrite Et in Wtf. exact Wtf. }
    reflexivity.
  Qed.
End EvalPure.

(* ================================================================== *)
(** * 2. layering and the value of [eval] *)
(* ================================================================== *)

Section Main.
  Variable B : Backend.
  Hypothesis OK : BackendOK B.
  Hypothesis ADJ : adj_spec_ops B.
  Hypothesis CONV : conv_layers_spec B.
  Variables O A T : Type.
  Variable default : T.
  Variable interp : A -> list T -> list T.
  Variable apply : list A -> ic (list T) -> res (ic (list T)).
  Hypothesis AP : apply_spec interp apply.

  Local Notation rd := (rd default).

  (* everything the evaluator needs to know about [layer] *)
  Lemma layer_facts (f : ohg O A) : wf_ohg f ->
    let m := length (h_x (o_h f)) in
    exists order unv,
      layer B f = Ok (mkFF order m, unv) /\
      length order = m /\ length unv = m /\
      (forall v, v < m -> nth v order 0 < m) /\
      (forall v, v < m -> nth v unv 0 = 0 \/ nth v unv 0 = 1) /\
      (acyclic_ops f <-> forall v, v < m -> nth v unv 0 = 0) /\
      ((forall v, v < m -> nth v unv 0 = 0) ->
       forall x y, depR f x y -> nth x order 0 < nth y order 0).
  Proof.
    intros Wf m. pose proof (proj1 Wf) as Wh.
    destruct (ADJ Wh) as (adj & Hadj & Wadj & Hlen & Htga & HD). fold m in Hlen, Htga, HD.
    assert (Htg : target (ic_values adj) = ic_len adj) by congruence.
    assert (HD' : forall x y, x < ic_len adj -> y < ic_len adj ->
              (In y (KahnThm.succs adj x) <-> dep (o_h f) x y)).
    { intros x y. rewrite Hlen. apply HD. }
    destruct (kahn_correct OK Wadj Htg) as (order & unv & Hk & _).
    destruct (kd_facts OK Wadj Htg Hk) as (Hlo & Hlu & Hbool & Hord).
    rewrite Hlen in Hlo, Hlu, Hbool, Hord.
    assert (HDR : forall a b, DR adj (dep (o_h f)) a b <-> depR f a b).
    { intros a b. unfold DR, depR. rewrite Hlen. reflexivity. }
    exists order, unv. split; [|split; [|split; [|split; [|split; [|split]]]]]; auto.
    - unfold layer. rewrite Hadj. cbn [bind]. rewrite Hk. cbn [bind]. fold m.
      rewrite KahnThm.ff_new_ok. reflexivity.
      apply Forall_forall. intros d Hd. apply In_nth with (d := 0) in Hd.
      destruct Hd as (v & Hv & <-). apply Hord. lia.
    - pose proof (kd_acyclic_iff OK Wadj Htg (dep (o_h f)) HD' Hk) as E. rewrite Hlen in E.
      rewrite <- E. unfold acyclic_ops. fold m. split.
      + intros H x Hx Hc. apply (H x Hx). apply (clos_trans_ext _ _ HDR). exact Hc.
      + intros H x Hx Hc. apply (H x Hx). apply (clos_trans_ext _ _ HDR). exact Hc.
    - intros Hall x y Hd. apply (kd_order OK Wadj Htg HD' Hk).
      + rewrite Hlen. exact Hall.
      + apply HDR. exact Hd.
  Qed.

  Lemma nth_map_table (layers : list ff) i : nth i (map table layers) [] = table (nth i layers (mkFF [] 0)).
  Proof. exact (map_nth table layers (mkFF [] 0) i). Qed.

  (* the value of eval on every well-formed diagram: it never panics *)
  Lemma eval_unfold (f : ohg O A) inp : wf_ohg f ->
    let m := length (h_x (o_h f)) in
    exists order unv layers,
      length order = m /\ length unv = m /\
      (forall v, v < m -> nth v order 0 < m) /\
      (acyclic_ops f <-> forall v, v < m -> nth v unv 0 = 0) /\
      ((forall v, v < m -> nth v unv 0 = 0) ->
       forall x y, depR f x y -> nth x order 0 < nth y order 0) /\
      (forall i e, In e (nth i (map table layers) []) <-> i < m /\ e < m /\ nth e order 0 = i) /\
      (forall i, NoDup (nth i (map table layers) [])) /\
      let memF := run default interp f (map table layers) (init_mem default f inp) in
      eval B default apply f inp =
        if (match amax unv with Some mx => mx | None => 0 end) =? 0
        then Ok (Some (map (rd memF) (table (o_t f)))) else Ok None.
  Proof.
    intros Wf m.
    destruct (layer_facts Wf) as (order & unv & Hlayer & Hlo & Hlu & Hord & _ & Hac & Hlev). fold m in Hlayer, Hlo, Hlu, Hord, Hac, Hlev.
    assert (Word : wf_ff (mkFF order m)).
    { unfold wf_ff. cbn [table target]. apply Forall_forall. intros d Hd. apply In_nth with (d := 0) in Hd.
      destruct Hd as (v & Hv & <-). apply Hord. lia. }
    destruct (CONV Word) as (layers & Hconv & Hll & Hlay). unfold ff_source in Hlay. cbn [target table] in Hll, Hlay.
    rewrite Hlo in Hlay.
    assert (Hin : forall i e, In e (nth i (map table layers) []) <-> i < m /\ e < m /\ nth e order 0 = i).
    { intros i e. rewrite nth_map_table. destruct (Nat.lt_ge_cases i m) as [Hi|Hi].
      - destruct (Hlay i Hi) as (_ & Hp). split.
        + intros H. apply (Permutation_in _ Hp) in H. apply filter_In in H. destruct H as (H1 & H2).
          apply in_seq in H1. apply Nat.eqb_eq in H2. split; auto. split; auto. lia.
        + intros (_ & He & Hl). apply (Permutation_in _ (Permutation_sym Hp)).
          apply filter_In. split. apply in_seq. lia. apply Nat.eqb_eq. exact Hl.
      - rewrite nth_overflow by lia. cbn [table]. split. intros []. intros (H & _). lia. }
    exists order, unv, layers. split; auto. split; auto. split; auto. split; auto. split; auto.
    split; auto. split.
    - intros i. rewrite nth_map_table. destruct (Nat.lt_ge_cases i m) as [Hi|Hi].
      + destruct (Hlay i Hi) as (_ & Hp). apply (Permutation_NoDup (Permutation_sym Hp)).
        apply NoDup_filter. apply seq_NoDup.
      + rewrite nth_overflow by lia. constructor.
    - intros memF. unfold eval. rewrite Hlayer. cbn [bind]. rewrite Hconv. cbn [bind].
      destruct ((match amax unv with Some mx => mx | None => 0 end) =? 0); auto.
      rewrite (eval_order_ok default AP Wf).
      + reflexivity.
      + apply Forall_forall. intros lf Hlf. apply In_nth with (d := mkFF [] 0) in Hlf.
        destruct Hlf as (i & Hi & <-). rewrite Hll in Hi. destruct (Hlay i Hi) as (Ht & Hp).
        split. exact Ht. apply Forall_forall. intros e He.
        assert (X : In e (nth i (map table layers) [])) by (rewrite nth_map_table; exact He).
        apply Hin in X. tauto.
  Qed.

  (* ================================================================== *)
  (** * 3. the theorems *)
  (* ================================================================== *)

  (* eval never panics on a well-formed diagram *)
  Theorem C16_total (f : ohg O A) inp : wf_ohg f ->
    eval B default apply f inp = Ok None \/ exists out, eval B default apply f inp = Ok (Some out).
  Proof.
    intros Wf. destruct (eval_unfold inp Wf) as (order & unv & layers & _ & _ & _ & _ & _ & _ & _ & E).
    cbv zeta in E. rewrite E. destruct (_ =? 0); eauto.
  Qed.

  (* no result iff the dependency relation has a cycle (single writer or not, any input array) *)
  Theorem C16_refuses_iff_cyclic_any_input (f : ohg O A) inp : wf_ohg f ->
    (eval B default apply f inp = Ok None <-> ~ acyclic_ops f).
  Proof.
    intros Wf. destruct (eval_unfold inp Wf) as (order & unv & layers & _ & Hlu & _ & Hac & _ & _ & _ & E).
    cbv zeta in E. rewrite E. clear E.
    destruct ((match amax unv with Some mx => mx | None => 0 end) =? 0) eqn:Et.
    - apply Nat.eqb_eq in Et. split. discriminate. intros Hn. exfalso. apply Hn. apply Hac.
      intros v _. apply amax_zero_iff. exact Et.
    - apply Nat.eqb_neq in Et. split; auto. intros _ Ha. apply Et. apply amax_zero_iff.
      intros v. destruct (Nat.lt_ge_cases v (length (h_x (o_h f)))) as [Hv|Hv].
      + apply Hac; auto.
      + apply nth_overflow. lia.
  Qed.

  Theorem C16_refuses_iff_cyclic (f : ohg O A) inp : wf_ohg f ->
    length inp = length (table (o_s f)) ->
    (eval B default apply f inp = Ok None <-> ~ acyclic_ops f).
  Proof. intros Wf _. apply C16_refuses_iff_cyclic_any_input. exact Wf. Qed.

  (* on acyclic diagrams there is always a result — no further hypothesis is needed *)
  Theorem C16_acyclic_result (f : ohg O A) inp : wf_ohg f -> acyclic_ops f ->
    exists out, eval B default apply f inp = Ok (Some out).
  Proof.
    intros Wf Hac. destruct (C16_total inp Wf) as [E|E]; auto.
    exfalso. destruct (eval_unfold inp Wf) as (order & unv & layers & _ & Hlu & _ & Hac' & _ & _ & _ & E').
    cbv zeta in E'. rewrite E' in E.
    destruct ((match amax unv with Some mx => mx | None => 0 end) =? 0) eqn:Et. discriminate.
    apply Nat.eqb_neq in Et. apply Et. apply amax_zero_iff. intros v.
    destruct (Nat.lt_ge_cases v (length (h_x (o_h f)))) as [Hv|Hv].
    - apply Hac'; auto.
    - apply nth_overflow. lia.
  Qed.

  Theorem C16_result_iff_acyclic (f : ohg O A) inp : wf_ohg f ->
    ((exists out, eval B default apply f inp = Ok (Some out)) <-> acyclic_ops f).
  Proof.
    intros Wf. split. 2: apply C16_acyclic_result; auto.
    intros (out & E).
    destruct (eval_unfold inp Wf) as (order & unv & layers & _ & Hlu & _ & Hac' & _ & _ & _ & E').
    cbv zeta in E'. rewrite E' in E.
    destruct ((match amax unv with Some mx => mx | None => 0 end) =? 0) eqn:Et. 2: discriminate.
    apply Nat.eqb_eq in Et. apply Hac'. intros v _. apply amax_zero_iff. exact Et.
  Qed.

  (* the result is the valuation, read at the output interface *)
  Theorem C16_computes (f : ohg O A) inp : wf_ohg f -> acyclic_ops f -> single_writer f ->
    arity_ok interp f -> length inp = length (table (o_s f)) ->
    exists out mem, eval B default apply f inp = Ok (Some out) /\
      Valuation default interp f inp mem /\ length mem = length (h_w (o_h f)) /\
      out = map (fun v => nth v mem default) (table (o_t f)).
  Proof.
    intros Wf Hac SW Har Hinp.
    destruct (eval_unfold inp Wf) as (order & unv & layers & Hlo & Hlu & Hord & Hac' & Hlev & Hin & Hnd & E).
    cbv zeta in E.
    assert (Hall : forall v, v < length (h_x (o_h f)) -> nth v unv 0 = 0) by (apply Hac'; exact Hac).
    assert (Et : (match amax unv with Some mx => mx | None => 0 end) =? 0 = true).
    { apply Nat.eqb_eq. apply amax_zero_iff. intros v.
      destruct (Nat.lt_ge_cases v (length (h_x (o_h f)))) as [Hv|Hv]. auto. apply nth_overflow. lia. }
    rewrite Et in E.
    destruct (@run_valuation O A T default interp f inp Wf SW Har Hinp (map table layers)) as (V & L).
    - exact Hnd.
    - intros i j e Hi Hj. apply Hin in Hi. apply Hin in Hj. destruct Hi as (_ & _ & <-). tauto.
    - intros e. split.
      + intros He. exists (nth e order 0). apply Hin. auto.
      + intros (i & Hi). apply Hin in Hi. tauto.
    - intros i j x y Hx Hy Hd. apply Hin in Hx. apply Hin in Hy.
      destruct Hx as (_ & Hx & <-). destruct Hy as (_ & Hy & <-).
      apply (Hlev Hall). split; auto.
    - eexists. eexists. split. exact E. split. exact V. split. exact L. reflexivity.
  Qed.

  (* a valuation is unique, so the outputs of eval are the outputs of ANY valuation *)
  Corollary C16_outputs_of_any_valuation (f : ohg O A) inp mem : wf_ohg f -> acyclic_ops f ->
    single_writer f -> arity_ok interp f -> length inp = length (table (o_s f)) ->
    Valuation default interp f inp mem -> length mem = length (h_w (o_h f)) ->
    eval B default apply f inp = Ok (Some (map (fun v => nth v mem default) (table (o_t f)))).
  Proof.
    intros Wf Hac SW Har Hinp V L.
    destruct (C16_computes inp Wf Hac SW Har Hinp) as (out & mem' & E & V' & L' & ->).
    rewrite (valuation_unique Wf Hac V V' L L'). exact E.
  Qed.

  (* any dependency-respecting sequential schedule gives the same outputs as eval *)
  Theorem C16_any_order (f : ohg O A) inp sigma : wf_ohg f -> single_writer f -> arity_ok interp f ->
    length inp = length (table (o_s f)) ->
    Permutation sigma (seq 0 (length (h_x (o_h f)))) -> respects f sigma ->
    let mem := seq_interp default interp f sigma (init_mem default f inp) in
    Valuation default interp f inp mem /\ length mem = length (h_w (o_h f)) /\
    eval B default apply f inp = Ok (Some (map (fun v => nth v mem default) (table (o_t f)))).
  Proof.
    intros Wf SW Har Hinp Hp Hr mem.
    destruct (@any_order_valuation _ _ _ default interp f inp Wf SW Har Hinp sigma Hp Hr) as (V & L). fold mem in V, L.
    split; auto. split; auto.
    apply C16_outputs_of_any_valuation; auto.
    (* a respected permutation is a rank function, hence no cycle *)
    assert (Hnd : NoDup sigma).
    { eapply Permutation_NoDup. apply Permutation_sym. exact Hp. apply seq_NoDup. }
    assert (Hpos : forall x, x < length (h_x (o_h f)) -> exists i, i < length sigma /\ nth i sigma 0 = x).
    { intros x Hx. apply In_nth. eapply Permutation_in. apply Permutation_sym. exact Hp. apply in_seq. lia. }
    intros x Hx Hc.
    assert (G : forall a b, clos_trans nat (depR f) a b ->
              forall i j, i < length sigma -> j < length sigma -> nth i sigma 0 = a -> nth j sigma 0 = b -> i < j).
    { induction 1 as [a b (Ha & Hb & Hd)|a w b _ IH1 Hwb IH2]; intros i j Hi Hj Ei Ej.
      - apply Hr; auto. rewrite Ei, Ej. exact Hd.
      - assert (Hw : w < length (h_x (o_h f))).
        { clear - Hwb. induction Hwb as [? ? (H & _)|]; auto. }
        destruct (Hpos w Hw) as (k & Hk & Ek).
        pose proof (IH1 i k Hi Hk Ei Ek). pose proof (IH2 k j Hk Hj Ek Ej). lia. }
    destruct (Hpos x Hx) as (i & Hi & Ei). pose proof (G x x Hc i i Hi Hi Ei Ei). lia.
  Qed.
End Main.

(* ================================================================== *)
(** * 4. uniqueness, independence of the back-end *)
(* ================================================================== *)

Theorem C16_valuation_unique O A T (default : T) (interp : A -> list T -> list T)
    (f : ohg O A) (inp mem mem' : list T) :
  acyclic_ops f -> single_writer f -> wf_ohg f ->
  Valuation default interp f inp mem -> Valuation default interp f inp mem' ->
  length mem = length (h_w (o_h f)) -> length mem' = length (h_w (o_h f)) -> mem = mem'.
Proof. intros Hac _ Wf V V' L L'. exact (valuation_unique Wf Hac V V' L L'). Qed.

Theorem C16_backend_independent (B1 B2 : Backend) :
  BackendOK B1 -> adj_spec_ops B1 -> conv_layers_spec B1 ->
  BackendOK B2 -> adj_spec_ops B2 -> conv_layers_spec B2 ->
  forall O A T (default : T) (interp : A -> list T -> list T) apply, apply_spec interp apply ->
  forall (f : ohg O A) inp, wf_ohg f -> single_writer f -> arity_ok interp f ->
    length inp = length (table (o_s f)) ->
    eval B1 default apply f inp = eval B2 default apply f inp.
Proof.
  intros OK1 ADJ1 CONV1 OK2 ADJ2 CONV2 O A T default interp apply AP f inp Wf SW Har Hinp.
  destruct (C16_total OK1 ADJ1 CONV1 default AP inp Wf) as [E|(out & E)].
  - rewrite E. symmetry.
    apply (C16_refuses_iff_cyclic OK2 ADJ2 CONV2 default AP inp Wf Hinp).
    apply (C16_refuses_iff_cyclic OK1 ADJ1 CONV1 default AP inp Wf Hinp). exact E.
  - assert (Hac : acyclic_ops f).
    { apply (C16_result_iff_acyclic OK1 ADJ1 CONV1 default AP inp Wf). eauto. }
    destruct (C16_computes OK1 ADJ1 CONV1 default AP inp Wf Hac SW Har Hinp) as (o1 & m1 & E1 & V1 & L1 & ->).
    rewrite E1. symmetry.
    apply (C16_outputs_of_any_valuation OK2 ADJ2 CONV2 AP Wf Hac SW Har Hinp V1 L1).
Qed.

(* equal refusal needs neither the single-writer hypothesis nor the arity hypothesis *)
Theorem C16_backend_independent_refusal (B1 B2 : Backend) :
  BackendOK B1 -> adj_spec_ops B1 -> conv_layers_spec B1 ->
  BackendOK B2 -> adj_spec_ops B2 -> conv_layers_spec B2 ->
  forall O A T (default : T) (interp : A -> list T -> list T) apply, apply_spec interp apply ->
  forall (f : ohg O A) inp, wf_ohg f ->
    (eval B1 default apply f inp = Ok None <-> eval B2 default apply f inp = Ok None).
Proof.
  intros OK1 ADJ1 CONV1 OK2 ADJ2 CONV2 O A T default interp apply AP f inp Wf.
  rewrite (C16_refuses_iff_cyclic_any_input OK1 ADJ1 CONV1 default AP inp Wf).
  rewrite (C16_refuses_iff_cyclic_any_input OK2 ADJ2 CONV2 default AP inp Wf). reflexivity.
Qed.

(* ================================================================== *)
(** * 5. examples *)
(* ================================================================== *)

(* a batch interpreter built from a per-operation interpreter satisfies [apply_spec] *)
Definition batch_apply {A T} (interp : A -> list T -> list T) (ls : list A) (c : ic (list T))
    : res (ic (list T)) :=
  let outs := map (fun p => interp (fst p) (snd p)) (combine ls (decode_s c)) in
  Ok (mkIC (mkFF (map (@length T) outs) (length (concat outs) + 1)) (concat outs)).

Lemma batch_apply_spec {A T} (interp : A -> list T -> list T) : apply_spec interp (batch_apply interp).
Proof.
  intros ls c _ _. eexists. split. reflexivity. split.
  - split; cbn [ic_sources ic_values table target].
    + rewrite list_sum_map_length. reflexivity.
    + apply list_sum_map_length.
  - unfold decode_s. cbn [ic_sources ic_values table]. apply segs_of_concat.
Qed.

From Coq Require Import ZArith.

Inductive exop := Add | Mul | Neg | Dup.

Definition ex_interp (a : exop) (vs : list Z) : list Z :=
  match a, vs with
  | Add, [x; y] => [(x + y)%Z]
  | Mul, [x; y] => [(x * y)%Z]
  | Neg, [x] => [(- x)%Z]
  | Dup, [x] => [x; x]
  | _, _ => []
  end.

(* inputs x = node 0, y = node 1; hyperedges (deliberately not numbered topologically)
     0: Add [5;6] -> [7]      1: Dup [0] -> [2;3]     2: Mul [3;4] -> [5]
     3: Add [2;1] -> [4]      4: Neg [4] -> [6]
   node 4 is shared (read by 2 and 4, and an output), the inputs of hyperedge 2 come from
   depths 0 and 1, node 8 is never written; outputs [7; 4; 8]. *)
Definition ex_f : ohg unit exop :=
  mkOHG (mkFF [0; 1] 9) (mkFF [7; 4; 8] 9)
    (mkHG (mkIC (mkFF [2; 1; 2; 2; 1] 9) (mkFF [5; 6; 0; 3; 4; 2; 1; 4] 9))
          (mkIC (mkFF [1; 2; 1; 1; 1] 7) (mkFF [7; 2; 3; 5; 4; 6] 9))
          (repeat tt 9) [Add; Dup; Mul; Add; Neg]).

Example ex_eval_vec :
  eval VecBackend 0%Z (batch_apply ex_interp) ex_f [3%Z; 4%Z] = Ok (Some [14%Z; 7%Z; 0%Z]).
Proof. vm_compute. reflexivity. Qed.

Example ex_eval_adv :
  eval AdvBackend 0%Z (batch_apply ex_interp) ex_f [3%Z; 4%Z] = Ok (Some [14%Z; 7%Z; 0%Z]).
Proof. vm_compute. reflexivity. Qed.

Example ex_layers :
  layer VecBackend ex_f = Ok (mkFF [3; 0; 2; 1; 2] 5, [0; 0; 0; 0; 0]) /\
  layer_function_to_layers VecBackend (mkFF [3; 0; 2; 1; 2] 5)
    = Ok [mkFF [1] 5; mkFF [3] 5; mkFF [2; 4] 5; mkFF [0] 5; mkFF [] 5] /\
  layer_function_to_layers AdvBackend (mkFF [3; 0; 2; 1; 2] 5)
    = Ok [mkFF [1] 5; mkFF [3] 5; mkFF [4; 2] 5; mkFF [0] 5; mkFF [] 5].
Proof. vm_compute. repeat split. Qed.

(* one hyperedge at a time, in a dependency-respecting order: same memory, same outputs *)
Example ex_seq :
  seq_interp 0%Z ex_interp ex_f [1; 3; 4; 2; 0] (init_mem 0%Z ex_f [3%Z; 4%Z])
  = [3; 4; 3; 3; 7; 21; -7; 14; 0]%Z.
Proof. vm_compute. reflexivity. Qed.

Example ex_wf : wf_ohg ex_f.
Proof.
  unfold wf_ohg, wf_hg, wf_icf, wf_ic, wf_ff, all_lt. cbn.
  repeat split; try reflexivity; repeat constructor.
Qed.

Example ex_acyclic : acyclic_ops ex_f.
Proof.
  apply rank_acyclic with (lev := fun x => nth x [3; 0; 2; 1; 2] 0).
  intros x y (Hx & Hy & Hd). cbn in Hx, Hy. apply depb_spec in Hd.
  destruct x as [|[|[|[|[|x]]]]]; try lia; destruct y as [|[|[|[|[|y]]]]]; try lia;
    vm_compute in Hd; try discriminate; cbn; lia.
Qed.

Example ex_single_writer : single_writer ex_f.
Proof.
  unfold single_writer. vm_compute.
  repeat (constructor; [cbn; intuition discriminate|]). constructor.
Qed.

Example ex_arity : arity_ok ex_interp ex_f.
Proof.
  intros e a vals E Hl.
  destruct e as [|[|[|[|[|e]]]]]; cbn in E; try (destruct e; discriminate);
    inversion E; subst a; vm_compute in Hl;
    destruct vals as [|v1 [|v2 [|v3 vals]]]; try discriminate; reflexivity.
Qed.

Example ex_respects : Permutation [1; 3; 4; 2; 0] (seq 0 (length (h_x (o_h ex_f)))) /\ respects ex_f [1; 3; 4; 2; 0].
Proof.
  split.
  - apply NoDup_Permutation.
    + repeat (constructor; [cbn; intuition discriminate|]). constructor.
    + apply seq_NoDup.
    + intros x. cbn. tauto.
  - intros i j Hi Hj Hd. cbn in Hi, Hj. apply depb_spec in Hd.
    destruct i as [|[|[|[|[|i]]]]]; try lia; destruct j as [|[|[|[|[|j]]]]]; try lia;
      vm_compute in Hd; try discriminate; lia.
Qed.

(* hence (any_order_valuation, no back-end involved) the memory of [ex_seq] is THE valuation *)
Example ex_valuation :
  Valuation 0%Z ex_interp ex_f [3%Z; 4%Z] [3; 4; 3; 3; 7; 21; -7; 14; 0]%Z.
Proof.
  rewrite <- ex_seq.
  apply (@any_order_valuation _ _ _ 0%Z ex_interp ex_f [3%Z; 4%Z] ex_wf ex_single_writer ex_arity
           eq_refl [1; 3; 4; 2; 0] (proj1 ex_respects) (proj2 ex_respects)).
Qed.

(* a cycle: 0: Add [0;2] -> [1], 1: Neg [1] -> [2] *)
Definition ex_cyc : ohg unit exop :=
  mkOHG (mkFF [0] 3) (mkFF [2] 3)
    (mkHG (mkIC (mkFF [2; 1] 4) (mkFF [0; 2; 1] 3))
          (mkIC (mkFF [1; 1] 3) (mkFF [1; 2] 3))
          (repeat tt 3) [Add; Neg]).

Example ex_cyc_refused :
  eval VecBackend 0%Z (batch_apply ex_interp) ex_cyc [3%Z] = Ok None /\
  eval AdvBackend 0%Z (batch_apply ex_interp) ex_cyc [3%Z] = Ok None.
Proof. vm_compute. split; reflexivity. Qed.

Example ex_cyc_wf_cyclic : wf_ohg ex_cyc /\ single_writer ex_cyc /\ ~ acyclic_ops ex_cyc.
Proof.
  split; [|split].
  - unfold wf_ohg, wf_hg, wf_icf, wf_ic, wf_ff, all_lt. cbn.
    repeat split; try reflexivity; repeat constructor.
  - unfold single_writer. vm_compute. repeat (constructor; [cbn; intuition discriminate|]). constructor.
  - intros H. apply (H 0). cbn; lia.
    apply t_trans with (y := 1); apply t_step; (split; [cbn; lia|split; [cbn; lia|]]);
      apply depb_spec; reflexivity.
Qed.

(* without the single-writer hypothesis the result depends on the back-end:
   two hyperedges of the same layer write node 1 *)
Definition ex_race : ohg unit exop :=
  mkOHG (mkFF [0] 2) (mkFF [1] 2)
    (mkHG (mkIC (mkFF [1; 1] 3) (mkFF [0; 0] 2))
          (mkIC (mkFF [1; 1] 3) (mkFF [1; 1] 2))
          (repeat tt 2) [Neg; Dup]).

Example ex_race_backend_dependent :
  eval VecBackend 0%Z (batch_apply (fun a vs => match a, vs with Neg, [x] => [(- x)%Z] | _, [x] => [x] | _, _ => [] end))
       ex_race [3%Z] = Ok (Some [3%Z]) /\
  eval AdvBackend 0%Z (batch_apply (fun a vs => match a, vs with Neg, [x] => [(- x)%Z] | _, [x] => [x] | _, _ => [] end))
       ex_race [3%Z] = Ok (Some [(-3)%Z]).
Proof. vm_compute. split; reflexivity. Qed.
