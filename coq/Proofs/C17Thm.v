(* C17: the degree queries and the monogamy test decide their definitions, totally.
   Rust: src/strict/hypergraph/object.rs (in_degree, out_degree),
         src/strict/open_hypergraph/arrow.rs (is_monogamous). *)
From OHG Require Import Spec.Plain Proofs.PrimsThm.

Set Implicit Arguments.

(* ---------- list facts ---------- *)

Lemma c17_list_eqb_nat (a b : list nat) : list_eqb Nat.eqb a b = true <-> a = b.
Proof.
  revert b; induction a as [|x a IH]; intros [|y b]; simpl; split; intros H;
    try discriminate; try reflexivity.
  - apply andb_true_iff in H. destruct H as [H1 H2].
    apply Nat.eqb_eq in H1. apply IH in H2. congruence.
  - inversion H; subst. rewrite Nat.eqb_refl. simpl. apply IH. reflexivity.
Qed.

Lemma fold_max_le (l : list nat) : forall a b,
  fold_left Nat.max l a <= b <-> a <= b /\ Forall (fun c => c <= b) l.
Proof.
  induction l as [|x l IH]; intros a b; simpl.
  - split. intros H; split; auto. intros [H _]; exact H.
  - rewrite IH. split.
    + intros [H1 H2]. split. lia. constructor; auto. lia.
    + intros [H1 H2]. inversion H2; subst. split; auto. lia.
Qed.

(* the test `max().map(|m| m > 1).unwrap_or(false)` *)
Definition exceeds_one (l : list nat) : bool :=
  match amax l with Some m => 1 <? m | None => false end.

Lemma exceeds_one_false (l : list nat) :
  exceeds_one l = false <-> Forall (fun c => c <= 1) l.
Proof.
  unfold exceeds_one, amax. destruct l as [|x l].
  - split; auto.
  - rewrite Nat.ltb_ge. rewrite fold_max_le. split.
    + intros [H1 H2]. constructor; auto.
    + intros H. inversion H; subst. split; auto.
Qed.

Lemma bincount_pure_le1 (xs : list nat) n : Forall (fun i => i < n) xs ->
  (Forall (fun c => c <= 1) (bincount_pure xs n) <-> NoDup xs).
Proof.
  intros Hr. rewrite (NoDup_count_occ Nat.eq_dec). unfold bincount_pure.
  rewrite Forall_map, Forall_forall. split.
  - intros H v. destruct (lt_dec v n) as [Hv|Hv].
    + apply H. apply in_seq. lia.
    + assert (Hn : ~ In v xs).
      { intros Hin. rewrite Forall_forall in Hr. apply Hr in Hin. lia. }
      apply (count_occ_not_In Nat.eq_dec) in Hn. lia.
  - intros H v _. apply H.
Qed.

Lemma combine_map_same {X Y Z} (f : X -> Y) (g : X -> Z) (l : list X) :
  combine (map f l) (map g l) = map (fun x => (f x, g x)) l.
Proof. induction l as [|x l IH]; simpl; congruence. Qed.

Lemma repeat_map_seq {X} (a : X) n : forall s, repeat a n = map (fun _ => a) (seq s n).
Proof. induction n as [|n IH]; intros s; simpl; auto. f_equal. apply IH. Qed.

Lemma map_eq_iff {X Y} (f g : X -> Y) (l : list X) :
  map f l = map g l <-> forall x, In x l -> f x = g x.
Proof.
  split. 2: apply map_ext_in.
  induction l as [|a l IH]; simpl; intros H x Hx. contradiction.
  inversion H. destruct Hx as [<-|Hx]; auto.
Qed.

Lemma add_counts_ones (d c : list nat) n :
  map (fun p => fst p + snd p) (combine (bincount_pure d n) (bincount_pure c n)) = fill 1 n <->
  forall v, v < n -> count_occ Nat.eq_dec d v + count_occ Nat.eq_dec c v = 1.
Proof.
  unfold bincount_pure, fill. rewrite combine_map_same, map_map.
  rewrite (repeat_map_seq 1 n 0). rewrite map_eq_iff. simpl. split.
  - intros H v Hv. apply H. apply in_seq. lia.
  - intros H v Hv. apply in_seq in Hv. apply H. lia.
Qed.

(* ---------- decoding: concatenating the segments gives back the value table ---------- *)
Lemma concat_segs {T} (sizes : list nat) : forall (vals : list T),
  concat (segs sizes vals) = firstn (list_sum sizes) vals.
Proof.
  induction sizes as [|k rest IH]; intros vals; simpl. reflexivity.
  rewrite IH. clear IH. revert vals. induction k as [|k IHk]; intros vals; simpl.
  - reflexivity.
  - destruct vals as [|a vals]; simpl.
    + rewrite firstn_nil. reflexivity.
    + f_equal. apply IHk.
Qed.

Lemma concat_segs_wf {T} (sizes : list nat) (vals : list T) :
  list_sum sizes = length vals -> concat (segs sizes vals) = vals.
Proof. intros H. rewrite concat_segs, H. apply firstn_all. Qed.

Section C17.
  Variables O A : Type.

  (* occurrences of v as a target / as a source over all hyperedges, with multiplicity *)
  Definition indeg (h : hg O A) (v : nat) : nat :=
    count_occ Nat.eq_dec (table (ic_values (h_t h))) v.
  Definition outdeg (h : hg O A) (v : nat) : nat :=
    count_occ Nat.eq_dec (table (ic_values (h_s h))) v.

  Lemma wf_hg_t_range (h : hg O A) : wf_hg h ->
    Forall (fun i => i < length (h_w h)) (table (ic_values (h_t h))).
  Proof.
    intros (_ & (_ & Ht) & _ & _ & _ & Htt). unfold wf_ff, all_lt in Ht.
    rewrite Htt in Ht. exact Ht.
  Qed.

  Lemma wf_hg_s_range (h : hg O A) : wf_hg h ->
    Forall (fun i => i < length (h_w h)) (table (ic_values (h_s h))).
  Proof.
    intros ((_ & Hs) & _ & _ & _ & Hst & _). unfold wf_ff, all_lt in Hs.
    rewrite Hst in Hs. exact Hs.
  Qed.

  Lemma degree_query_ok (tb : list nat) (n v : nat) : Forall (fun i => i < n) tb -> v < n ->
    (_ <- assert (v <? n) ;; counts <- bincount tb n ;; get counts v)
    = Ok (count_occ Nat.eq_dec tb v).
  Proof.
    intros Hr Hv. apply Nat.ltb_lt in Hv. rewrite Hv. cbn [assert bind].
    apply Nat.ltb_lt in Hv. rewrite bincount_ok by exact Hr. cbn [bind].
    rewrite (get_ok _ 0) by (rewrite bincount_pure_length; exact Hv).
    rewrite nth_bincount_pure by exact Hv. reflexivity.
  Qed.

  Lemma degree_query_panic (tb : list nat) (n v : nat) : n <= v ->
    (_ <- assert (v <? n) ;; counts <- bincount tb n ;; get counts v) = Panic.
  Proof.
    intros Hv. apply Nat.ltb_ge in Hv. rewrite Hv. reflexivity.
  Qed.

  Theorem C17_degrees (h : hg O A) (v : nat) : wf_hg h ->
    (v < length (h_w h) ->
       hg_in_degree h v = Ok (indeg h v) /\ hg_out_degree h v = Ok (outdeg h v)) /\
    (length (h_w h) <= v -> hg_in_degree h v = Panic /\ hg_out_degree h v = Panic).
  Proof.
    intros Hwf. unfold hg_in_degree, hg_out_degree, indeg, outdeg. split; intros Hv.
    - split; apply degree_query_ok; auto using wf_hg_t_range, wf_hg_s_range.
    - split; apply degree_query_panic; exact Hv.
  Qed.

  (* the same numbers, read off the decoded per-hyperedge target / source lists *)
  Theorem C17_degrees_decoded (h : hg O A) (v : nat) : wf_hg h ->
    indeg h v = count_occ Nat.eq_dec (concat (decode_f (h_t h))) v /\
    outdeg h v = count_occ Nat.eq_dec (concat (decode_f (h_s h))) v.
  Proof.
    intros (((_ & Hs) & _) & ((_ & Ht) & _) & _). unfold indeg, outdeg, decode_f.
    unfold ff_source in Hs, Ht.
    rewrite (concat_segs_wf _ _ Ht), (concat_segs_wf _ _ Hs). split; reflexivity.
  Qed.

  (* ---------- monogamy ---------- *)
  Definition monogamous_spec (f : ohg O A) : Prop :=
    NoDup (table (o_s f)) /\ NoDup (table (o_t f)) /\
    forall v, v < length (h_w (o_h f)) ->
      ((indeg (o_h f) v = 1 /\ ~ In v (table (o_s f))) \/
       (indeg (o_h f) v = 0 /\ In v (table (o_s f)))) /\
      ((outdeg (o_h f) v = 1 /\ ~ In v (table (o_t f))) \/
       (outdeg (o_h f) v = 0 /\ In v (table (o_t f)))).

  (* degree + interface multiplicity = 1, for a duplicate-free interface *)
  Lemma count_sum_one (dg : nat) (l : list nat) (v : nat) : NoDup l ->
    (dg + count_occ Nat.eq_dec l v = 1 <-> (dg = 1 /\ ~ In v l) \/ (dg = 0 /\ In v l)).
  Proof.
    intros Hnd. rewrite (NoDup_count_occ Nat.eq_dec) in Hnd. specialize (Hnd v).
    rewrite (count_occ_not_In Nat.eq_dec), (count_occ_In Nat.eq_dec). lia.
  Qed.

  Theorem C17_monogamous (f : ohg O A) : wf_ohg f ->
    exists b, ohg_is_monogamous f = Ok b /\ (b = true <-> monogamous_spec f).
  Proof.
    intros (Hh & Hs & Ht & Hst & Htt).
    unfold wf_ff, all_lt in Hs, Ht. rewrite Hst in Hs. rewrite Htt in Ht.
    pose proof (wf_hg_t_range Hh) as Hdt. pose proof (wf_hg_s_range Hh) as Hds.
    unfold ohg_is_monogamous, monogamous_spec, indeg, outdeg.
    set (n := length (h_w (o_h f))) in *.
    rewrite (bincount_ok Hs). cbn [bind].
    fold (exceeds_one (bincount_pure (table (o_s f)) n)).
    destruct (exceeds_one (bincount_pure (table (o_s f)) n)) eqn:E1.
    { exists false. split; [reflexivity|]. split; [discriminate|].
      intros (Hnd & _). apply (bincount_pure_le1 Hs) in Hnd.
      apply exceeds_one_false in Hnd. congruence. }
    apply exceeds_one_false in E1. apply (bincount_pure_le1 Hs) in E1.
    rewrite (bincount_ok Ht). cbn [bind].
    fold (exceeds_one (bincount_pure (table (o_t f)) n)).
    destruct (exceeds_one (bincount_pure (table (o_t f)) n)) eqn:E2.
    { exists false. split; [reflexivity|]. split; [discriminate|].
      intros (_ & Hnd & _). apply (bincount_pure_le1 Ht) in Hnd.
      apply exceeds_one_false in Hnd. congruence. }
    apply exceeds_one_false in E2. apply (bincount_pure_le1 Ht) in E2.
    rewrite (bincount_ok Hdt). cbn [bind]. rewrite (bincount_ok Hds). cbn [bind].
    rewrite aadd_ok by (rewrite !bincount_pure_length; reflexivity). cbn [bind].
    rewrite aadd_ok by (rewrite !bincount_pure_length; reflexivity). cbn [bind].
    eexists. split; [reflexivity|].
    rewrite andb_true_iff, !c17_list_eqb_nat, !add_counts_ones. split.
    - intros [Ha Hb]. split; [exact E1|]. split; [exact E2|]. intros v Hv. split.
      + apply count_sum_one; auto.
      + apply count_sum_one; auto.
    - intros (_ & _ & H). split; intros v Hv; destruct (H v Hv) as [Ha Hb].
      + apply count_sum_one; auto.
      + apply count_sum_one; auto.
  Qed.

  (* never Panic (and never out of fuel): no subtraction is involved and every bincount index is
     in range.  The model's arithmetic is the checked (debug) arithmetic, so [Ok] means no
     overflow/underflow trap in a debug build, and a release build computes the same values. *)
  Theorem C17_total (f : ohg O A) : wf_ohg f -> exists b, ohg_is_monogamous f = Ok b.
  Proof.
    intros H. destruct (C17_monogamous H) as (b & Hb & _). exists b. exact Hb.
  Qed.
End C17.

(* ---------- examples ---------- *)
Module C17Examples.
  (* three nodes, one hyperedge 0 -> 1; node 2 is isolated *)
  Definition ex_h : hg nat nat :=
    mkHG (mkIC (mkFF [1] 2) (mkFF [0] 3)) (mkIC (mkFF [1] 2) (mkFF [1] 3)) [10; 11; 12] [7].
  (* the isolated node sits on both interfaces: monogamous *)
  Definition ex_mono : ohg nat nat := mkOHG (mkFF [0; 2] 3) (mkFF [1; 2] 3) ex_h.
  (* the isolated node (degree 0) is off the interface: not monogamous *)
  Definition ex_off : ohg nat nat := mkOHG (mkFF [0] 3) (mkFF [1] 3) ex_h.
  (* a node twice on the source interface: early exit *)
  Definition ex_dup : ohg nat nat := mkOHG (mkFF [0; 2; 2] 3) (mkFF [1; 2] 3) ex_h.
  (* two parallel hyperedges 0 -> 1: degree 2 *)
  Definition ex_h2 : hg nat nat :=
    mkHG (mkIC (mkFF [1; 1] 3) (mkFF [0; 0] 2)) (mkIC (mkFF [1; 1] 3) (mkFF [1; 1] 2)) [10; 11] [7; 8].
  Definition ex_deg2 : ohg nat nat := mkOHG (mkFF [0] 2) (mkFF [1] 2) ex_h2.

  Ltac wf_tac := unfold wf_ohg, wf_hg, wf_icf, wf_ic, wf_ff, all_lt; simpl;
                 repeat split; repeat constructor; lia.

  Example ex_h_wf : wf_hg ex_h. Proof. wf_tac. Qed.
  Example ex_mono_wf : wf_ohg ex_mono. Proof. wf_tac. Qed.
  Example ex_off_wf : wf_ohg ex_off. Proof. wf_tac. Qed.
  Example ex_dup_wf : wf_ohg ex_dup. Proof. wf_tac. Qed.
  Example ex_deg2_wf : wf_ohg ex_deg2. Proof. wf_tac. Qed.

  Example ex_degrees :
    map (hg_in_degree ex_h) [0; 1; 2; 3] = [Ok 0; Ok 1; Ok 0; Panic] /\
    map (hg_out_degree ex_h) [0; 1; 2; 3] = [Ok 1; Ok 0; Ok 0; Panic] /\
    hg_in_degree ex_h2 1 = Ok 2.
  Proof. vm_compute. auto. Qed.

  Example ex_mono_true : ohg_is_monogamous ex_mono = Ok true. Proof. vm_compute. reflexivity. Qed.
  Example ex_off_false : ohg_is_monogamous ex_off = Ok false. Proof. vm_compute. reflexivity. Qed.
  Example ex_dup_false : ohg_is_monogamous ex_dup = Ok false. Proof. vm_compute. reflexivity. Qed.
  Example ex_deg2_false : ohg_is_monogamous ex_deg2 = Ok false. Proof. vm_compute. reflexivity. Qed.

  (* the theorem applied: the specification holds / fails accordingly *)
  Example ex_mono_spec : monogamous_spec ex_mono.
  Proof.
    destruct (C17_monogamous ex_mono_wf) as (b & Hb & Hiff).
    rewrite ex_mono_true in Hb. inversion Hb; subst. apply Hiff. reflexivity.
  Qed.
  Example ex_off_spec : ~ monogamous_spec ex_off.
  Proof.
    destruct (C17_monogamous ex_off_wf) as (b & Hb & Hiff).
    rewrite ex_off_false in Hb. inversion Hb; subst. intros H. apply Hiff in H. discriminate.
  Qed.
End C17Examples.

Print Assumptions C17_degrees.
Print Assumptions C17_degrees_decoded.
Print Assumptions C17_monogamous.
Print Assumptions C17_total.
