(* Helper lemmas for C18: pure views of ff_compose, segmented_arange, ff_injections,
   icf_map_values and ic_map_indexes, and the algebra of [segs]. *)
From OHG Require Import Spec.Plain Proofs.PrimsThm Proofs.C17Thm.

Set Implicit Arguments.

(* application of a finite function to an index *)
Definition ff_app (f : ff) (i : nat) : nat := nth i (table f) 0.

(* ---------- generic list facts ---------- *)
Lemma list_eqb_spec {T} (eqb : T -> T -> bool) :
  (forall a b, eqb a b = true <-> a = b) ->
  forall l r, list_eqb eqb l r = true <-> l = r.
Proof.
  intros He. induction l as [|x l IH]; intros [|y r]; simpl; split; intros H;
    try discriminate; try reflexivity.
  - apply andb_true_iff in H. destruct H as [H1 H2].
    apply He in H1. apply IH in H2. congruence.
  - inversion H; subst. apply andb_true_iff. split. apply He; reflexivity. apply IH; reflexivity.
Qed.

Lemma mapM_app {X Y} (f : X -> res Y) l1 : forall l2 r1 r2,
  mapM f l1 = Ok r1 -> mapM f l2 = Ok r2 -> mapM f (l1 ++ l2) = Ok (r1 ++ r2).
Proof.
  induction l1 as [|x l1 IH]; intros l2 r1 r2 H1 H2; simpl in *.
  - inversion H1; subst. exact H2.
  - destruct (f x) as [y| |]; simpl in *; try discriminate.
    destruct (mapM f l1) as [ys| |] eqn:E; simpl in *; try discriminate.
    inversion H1; subst. rewrite (IH l2 ys r2 eq_refl H2). reflexivity.
Qed.

Lemma combine_app' {X Y} (a1 : list X) : forall (b1 : list Y) a2 b2,
  length a1 = length b1 -> combine (a1 ++ a2) (b1 ++ b2) = combine a1 b1 ++ combine a2 b2.
Proof.
  induction a1 as [|x a1 IH]; intros [|y b1] a2 b2 H; simpl in *; try discriminate.
  - reflexivity.
  - f_equal. apply IH. lia.
Qed.

Lemma skipn_skipn' {T} (a : nat) : forall b (l : list T), skipn a (skipn b l) = skipn (b + a) l.
Proof.
  intros b; induction b as [|b IH]; intros l; simpl. reflexivity.
  destruct l as [|x l]. apply skipn_nil. apply IH.
Qed.

Lemma nth_map_lt {X Y} (F : X -> Y) (l : list X) i d d' :
  i < length l -> nth i (map F l) d = F (nth i l d').
Proof.
  intros H. rewrite nth_indep with (d' := F d') by (rewrite map_length; exact H).
  apply map_nth.
Qed.

Lemma length_concat {T} (L : list (list T)) : length (concat L) = list_sum (map (@length T) L).
Proof. induction L as [|x L IH]; simpl; auto. rewrite app_length, IH. reflexivity. Qed.

Lemma in_le_list_sum (l : list nat) x : In x l -> x <= list_sum l.
Proof.
  induction l as [|y l IH]; simpl; intros H. contradiction.
  destruct H as [->|H]. lia. apply IH in H. lia.
Qed.

Lemma prefix_sum_le (l : list nat) : forall e,
  list_sum (firstn e l) + nth e l 0 <= list_sum l.
Proof.
  induction l as [|y l IH]; intros [|e]; simpl; try lia.
  specialize (IH e). lia.
Qed.

Lemma skipn_cons_nth {T} (l : list T) d : forall i, i < length l ->
  skipn i l = nth i l d :: skipn (S i) l.
Proof.
  induction l as [|x l IH]; intros [|i] H; simpl in *; try lia. reflexivity.
  apply IH. lia.
Qed.

Lemma map_nth_seq {T} (vals : list T) d k : forall off, off + k <= length vals ->
  map (fun j => nth j vals d) (seq off k) = firstn k (skipn off vals).
Proof.
  induction k as [|k IH]; intros off H; simpl. reflexivity.
  rewrite (skipn_cons_nth vals d) by lia. simpl. f_equal. apply IH. lia.
Qed.

(* ---------- segs ---------- *)
Lemma segs_length {T} (sizes : list nat) : forall (vals : list T),
  length (segs sizes vals) = length sizes.
Proof. induction sizes as [|k rest IH]; intros vals; simpl; auto. Qed.

Lemma segs_map {X Y} (f : X -> Y) (sizes : list nat) : forall (vals : list X),
  map (map f) (segs sizes vals) = segs sizes (map f vals).
Proof.
  induction sizes as [|k rest IH]; intros vals; simpl. reflexivity.
  rewrite firstn_map, skipn_map, IH. reflexivity.
Qed.

Lemma segs_concat {T} (L : list (list T)) : segs (map (@length T) L) (concat L) = L.
Proof.
  induction L as [|x L IH]; simpl. reflexivity.
  rewrite firstn_app, Nat.sub_diag, firstn_all. simpl. rewrite app_nil_r.
  rewrite skipn_app, Nat.sub_diag, skipn_all. simpl. rewrite IH. reflexivity.
Qed.

Lemma nth_segs {T} (sizes : list nat) : forall e (vals : list T), e < length sizes ->
  nth e (segs sizes vals) [] =
  firstn (nth e sizes 0) (skipn (list_sum (firstn e sizes)) vals).
Proof.
  induction sizes as [|k rest IH]; intros [|e] vals H; simpl in *; try lia.
  - reflexivity.
  - rewrite IH by lia. rewrite skipn_skipn'. reflexivity.
Qed.

Lemma length_nth_segs {T} (sizes : list nat) (vals : list T) e :
  list_sum sizes <= length vals -> e < length sizes ->
  length (nth e (segs sizes vals) []) = nth e sizes 0.
Proof.
  intros Hs He. rewrite nth_segs by exact He.
  pose proof (prefix_sum_le sizes e) as Hp.
  rewrite firstn_length, skipn_length. lia.
Qed.

Lemma map_length_segs {T} (sizes : list nat) (vals : list T) :
  list_sum sizes <= length vals -> map (@length T) (segs sizes vals) = sizes.
Proof.
  intros H. apply nth_ext with (d := 0) (d' := 0).
  - rewrite map_length, segs_length. reflexivity.
  - intros e He. rewrite map_length, segs_length in He.
    rewrite (nth_map_lt (@length T) (segs sizes vals) 0 []) by (rewrite segs_length; exact He).
    apply length_nth_segs; auto.
Qed.

(* ---------- ff_new / ff_compose / ff_compose_semi ---------- *)
Lemma ff_new_ok (t : list nat) (n : nat) : Forall (fun i => i < n) t -> ff_new t n = Some (mkFF t n).
Proof.
  intros H. unfold ff_new, amax. destruct t as [|x t]. reflexivity.
  inversion H as [|? ? Hx Ht]; subst.
  assert (Hm : fold_left Nat.max t x <= n - 1).
  { apply fold_max_le. split. lia. eapply Forall_impl. 2: exact Ht. simpl. intros a Ha. lia. }
  destruct (n <=? fold_left Nat.max t x) eqn:E; [|reflexivity].
  apply Nat.leb_le in E. lia.
Qed.

Lemma ff_compose_ok (f g : ff) : target f = ff_source g -> wf_ff f ->
  ff_compose f g = Ok (Some (mkFF (map (fun i => nth i (table g) 0) (table f)) (target g))).
Proof.
  intros Ht Hf. unfold ff_compose. apply Nat.eqb_eq in Ht. rewrite Ht. apply Nat.eqb_eq in Ht.
  rewrite get_range_full. cbn [bind].
  rewrite (gather_ok (table g) 0).
  2:{ unfold wf_ff, all_lt in Hf. rewrite Ht in Hf. exact Hf. }
  reflexivity.
Qed.

Lemma ff_compose_none (f g : ff) : target f <> ff_source g -> ff_compose f g = Ok None.
Proof. intros H. unfold ff_compose. apply Nat.eqb_neq in H. rewrite H. reflexivity. Qed.

(* gather without a default element *)
Lemma gather_some {T} (xs : list T) idx : Forall (fun i => i < length xs) idx ->
  exists r, gather xs idx = Ok r /\ map Some r = map (nth_error xs) idx.
Proof.
  induction idx as [|i idx IH]; intros H.
  - exists []. split; reflexivity.
  - inversion H as [|? ? Hi Hr]; subst. destruct (IH Hr) as (r & Hg & Hm).
    destruct (nth_error xs i) as [y|] eqn:E.
    2:{ apply nth_error_None in E. lia. }
    exists (y :: r). split.
    + unfold gather in *. simpl. unfold get at 1. rewrite E. simpl. rewrite Hg. reflexivity.
    + simpl. rewrite E, Hm. reflexivity.
Qed.

Lemma ff_compose_semi_ok {T} (f : ff) (u : list T) : target f = length u -> wf_ff f ->
  exists r, ff_compose_semi f u = Ok (Some r) /\ map Some r = map (nth_error u) (table f).
Proof.
  intros Ht Hf. unfold ff_compose_semi. apply Nat.eqb_eq in Ht. rewrite Ht. apply Nat.eqb_eq in Ht.
  rewrite get_range_full. cbn [bind].
  unfold wf_ff, all_lt in Hf. rewrite Ht in Hf.
  destruct (gather_some u Hf) as (r & Hg & Hm). exists r. rewrite Hg. split; auto.
Qed.

Lemma ff_compose_semi_none {T} (f : ff) (u : list T) : target f <> length u ->
  ff_compose_semi f u = Ok None.
Proof. intros H. unfold ff_compose_semi. apply Nat.eqb_neq in H. rewrite H. reflexivity. Qed.

(* l is "u reindexed along tb", stated without default elements *)
Lemma labels_iff {T} (l u : list T) : forall (tb : list nat),
  map Some l = map (nth_error u) tb <->
  length tb = length l /\ forall i, i < length l -> nth_error u (nth i tb 0) = nth_error l i.
Proof.
  induction l as [|a l IH]; intros [|j tb]; simpl.
  - split; auto. intros _. split; auto. intros i Hi. lia.
  - split. discriminate. intros [H _]. discriminate.
  - split. discriminate. intros [H _]. discriminate.
  - split.
    + intros H. inversion H as [[H1 H2]]. apply IH in H2. destruct H2 as [Hl Hn].
      split. lia. intros [|i] Hi; simpl. auto. apply Hn. lia.
    + intros [Hl Hn]. f_equal.
      * symmetry. apply (Hn 0). lia.
      * apply IH. split. lia. intros i Hi. apply (Hn (S i)). lia.
Qed.

Lemma map_Some_inj {T} (l r : list T) : map Some l = map Some r <-> l = r.
Proof.
  split. 2: intros ->; reflexivity.
  revert r; induction l as [|a l IH]; intros [|b r] H; simpl in *; try discriminate. reflexivity.
  inversion H. f_equal. apply IH. assumption.
Qed.

(* ---------- segmented_arange ---------- *)
Definition rep_pair (p : nat * nat) : list nat := repeat (snd p) (fst p).

Lemma sub_chk_S n : sub_chk (S n) 1 = Ok n.
Proof. unfold sub_chk. simpl. rewrite Nat.sub_0_r. reflexivity. Qed.

Lemma flat_rep_length (K : list nat) : forall V, length K = length V ->
  length (flat_map rep_pair (combine K V)) = list_sum K.
Proof.
  induction K as [|k K IH]; intros [|v V] H; simpl in *; try discriminate. reflexivity.
  rewrite app_length. unfold rep_pair at 1. simpl. rewrite repeat_length, IH by lia. reflexivity.
Qed.

Lemma length_concat_seq (K : list nat) : length (concat (map (seq 0) K)) = list_sum K.
Proof. induction K as [|k K IH]; simpl; auto. rewrite app_length, seq_length, IH. reflexivity. Qed.

Lemma sub_repeat k : forall a j,
  mapM (fun p => sub_chk (fst p) (snd p)) (combine (seq (a + j) k) (repeat a k)) = Ok (seq j k).
Proof.
  induction k as [|k IH]; intros a j; simpl. reflexivity.
  unfold sub_chk at 1. replace (a <=? a + j) with true by (symmetry; apply Nat.leb_le; lia).
  cbn [bind]. replace (S (a + j)) with (a + S j) by lia. rewrite IH. cbn [bind].
  replace (a + j - a) with j by lia. reflexivity.
Qed.

Lemma seg_arange_core (sizes : list nat) : forall a,
  mapM (fun p => sub_chk (fst p) (snd p))
       (combine (seq a (list_sum sizes))
                (flat_map rep_pair (combine sizes (firstn (length sizes) (cumsum_from a sizes)))))
  = Ok (concat (map (seq 0) sizes)).
Proof.
  induction sizes as [|k rest IH]; intros a. reflexivity.
  cbn [list_sum fold_right length cumsum_from firstn combine flat_map map concat].
  change (fold_right Nat.add 0 rest) with (list_sum rest).
  rewrite seq_app. unfold rep_pair at 1. cbn [fst snd].
  rewrite combine_app' by (rewrite seq_length, repeat_length; reflexivity).
  apply mapM_app.
  - pose proof (sub_repeat k a 0) as H. rewrite Nat.add_0_r in H. exact H.
  - apply IH.
Qed.

Lemma segmented_arange_ok (sizes : list nat) :
  segmented_arange sizes = Ok (concat (map (seq 0) sizes)).
Proof.
  unfold segmented_arange. rewrite cumulative_sum_length, sub_chk_S. cbn [bind].
  rewrite (get_ok _ 0) by (rewrite cumulative_sum_length; lia). cbn [bind].
  rewrite nth_cumulative_sum by lia. rewrite firstn_all.
  unfold get_range, to_range.
  rewrite slice_ok; [| lia | rewrite cumulative_sum_length; lia]. cbn [bind].
  rewrite Nat.sub_0_r. cbn [skipn].
  assert (Hl : length sizes = length (firstn (length sizes) (cumulative_sum sizes))).
  { rewrite firstn_length, cumulative_sum_length. lia. }
  rewrite arepeat_ok by exact Hl. cbn [bind].
  rewrite arange_ok by lia. cbn [bind]. rewrite Nat.sub_0_r.
  unfold asub. fold rep_pair.
  rewrite seq_length, (flat_rep_length _ _ Hl), Nat.eqb_refl. cbn [assert bind].
  apply seg_arange_core.
Qed.

(* ---------- ff_injections ---------- *)
(* the injection table: for each (size, offset) the run offset, offset+1, ... *)
Definition inj_table (K V : list nat) : list nat :=
  concat (map (fun p => seq (snd p) (fst p)) (combine K V)).

Lemma add_seq_repeat k : forall v j,
  map (fun p => fst p + snd p) (combine (seq j k) (repeat v k)) = seq (j + v) k.
Proof.
  induction k as [|k IH]; intros v j; simpl. reflexivity.
  f_equal. apply (IH v (S j)).
Qed.

Lemma add_arange_repeat (K : list nat) : forall V, length K = length V ->
  map (fun p => fst p + snd p)
      (combine (concat (map (seq 0) K)) (flat_map rep_pair (combine K V))) = inj_table K V.
Proof.
  induction K as [|k K IH]; intros [|v V] H; simpl in *; try discriminate. reflexivity.
  unfold rep_pair at 1. cbn [fst snd].
  rewrite combine_app' by (rewrite seq_length, repeat_length; reflexivity).
  rewrite map_app, add_seq_repeat. unfold inj_table. simpl. f_equal.
  apply IH. lia.
Qed.

Lemma ff_injections_ok (s a : ff) : wf_ff a -> target a = ff_source s ->
  ff_injections s a =
  Ok (Some (mkFF (inj_table (map (fun e => nth e (table s) 0) (table a))
                            (map (fun e => list_sum (firstn e (table s))) (table a)))
                 (list_sum (table s)))).
Proof.
  intros Ha Ht. unfold ff_injections.
  rewrite (@ff_compose_ok a s Ht Ha). cbn [bind table].
  rewrite segmented_arange_ok. cbn [bind].
  rewrite get_range_full. cbn [bind].
  unfold wf_ff, all_lt in Ha. rewrite Ht in Ha. unfold ff_source in Ha.
  rewrite (gather_ok (cumulative_sum (table s)) 0).
  2:{ eapply Forall_impl. 2: exact Ha. simpl. intros e He. rewrite cumulative_sum_length. lia. }
  cbn [bind]. rewrite get_range_full. cbn [bind].
  assert (Hv : map (fun i => nth i (cumulative_sum (table s)) 0) (table a)
               = map (fun e => list_sum (firstn e (table s))) (table a)).
  { apply map_ext_in. intros e He. rewrite Forall_forall in Ha. apply Ha in He.
    apply nth_cumulative_sum. lia. }
  rewrite Hv. clear Hv.
  set (K := map (fun e => nth e (table s) 0) (table a)).
  set (V := map (fun e => list_sum (firstn e (table s))) (table a)).
  assert (Hl : length K = length V) by (unfold K, V; rewrite !map_length; reflexivity).
  rewrite arepeat_ok by exact Hl. cbn [bind]. fold rep_pair.
  rewrite aadd_ok by (rewrite length_concat_seq, (flat_rep_length _ _ Hl); reflexivity).
  cbn [bind]. rewrite (add_arange_repeat _ _ Hl).
  rewrite cumulative_sum_length, sub_chk_S. cbn [bind].
  rewrite (get_ok _ 0) by (rewrite cumulative_sum_length; lia). cbn [bind].
  rewrite nth_cumulative_sum by lia. rewrite firstn_all. reflexivity.
Qed.

(* ---------- pure view of icf_map_values: decode commutes with map (map (ff_app w)) ---------- *)
Definition map_values_pure (c : icf) (w : ff) : icf :=
  mkIC (ic_sources c) (mkFF (map (ff_app w) (table (ic_values c))) (target w)).

Lemma icf_map_values_ok (c : icf) (w : ff) :
  wf_ff (ic_values c) -> target (ic_values c) = ff_source w ->
  icf_map_values c w = Ok (Some (map_values_pure c w)).
Proof.
  intros Hv Ht. unfold icf_map_values. rewrite (@ff_compose_ok (ic_values c) w Ht Hv).
  reflexivity.
Qed.

Lemma icf_map_values_none (c : icf) (w : ff) :
  target (ic_values c) <> ff_source w -> icf_map_values c w = Ok None.
Proof. intros H. unfold icf_map_values. rewrite ff_compose_none by exact H. reflexivity. Qed.

Lemma decode_map_values (c : icf) (w : ff) :
  decode_f (map_values_pure c w) = map (map (ff_app w)) (decode_f c).
Proof. unfold decode_f, map_values_pure. simpl. symmetry. apply segs_map. Qed.

(* ---------- pure view of ic_map_indexes: decode is reindexed along x ---------- *)
Definition map_indexes_sizes (c : icf) (x : ff) : list nat :=
  map (fun e => nth e (table (ic_sources c)) 0) (table x).
Definition map_indexes_segs (c : icf) (x : ff) : list (list nat) :=
  map (fun e => nth e (decode_f c) []) (table x).
Definition map_indexes_pure (c : icf) (x : ff) : icf :=
  mkIC (mkFF (map_indexes_sizes c x) (list_sum (map_indexes_sizes c x) + 1))
       (mkFF (concat (map_indexes_segs c x)) (target (ic_values c))).

Lemma wf_icf_sum (c : icf) : wf_icf c ->
  list_sum (table (ic_sources c)) = length (table (ic_values c)).
Proof. intros ((_ & H) & _). exact H. Qed.

Lemma map_indexes_segs_lengths (c : icf) (x : ff) : wf_icf c -> wf_ff x -> target x = ic_len c ->
  map (@length nat) (map_indexes_segs c x) = map_indexes_sizes c x.
Proof.
  intros Hc Hx Ht. unfold map_indexes_segs, map_indexes_sizes. rewrite map_map.
  apply map_ext_in. intros e He.
  unfold wf_ff, all_lt in Hx. rewrite Forall_forall in Hx. apply Hx in He.
  unfold decode_f. apply length_nth_segs.
  - rewrite (wf_icf_sum Hc). lia.
  - unfold ic_len, ff_source in Ht. lia.
Qed.

Lemma decode_map_indexes (c : icf) (x : ff) : wf_icf c -> wf_ff x -> target x = ic_len c ->
  decode_f (map_indexes_pure c x) = map_indexes_segs c x.
Proof.
  intros Hc Hx Ht. unfold decode_f at 1, map_indexes_pure. simpl.
  rewrite <- (map_indexes_segs_lengths Hc Hx Ht). apply segs_concat.
Qed.

Lemma ic_indexed_values_ok (c : icf) (x : ff) : wf_icf c -> wf_ff x -> target x = ic_len c ->
  ic_indexed_values ff_vops c x =
  Ok (Some (mkFF (concat (map_indexes_segs c x)) (target (ic_values c)))).
Proof.
  intros Hc Hx Ht. unfold ic_indexed_values.
  rewrite (@ff_injections_ok (ic_sources c) x Hx Ht). cbn [vpre ff_vops].
  pose proof (wf_icf_sum Hc) as Hsum.
  set (sizes := table (ic_sources c)) in *. set (vals := table (ic_values c)) in *.
  assert (Hr : Forall (fun e => e < length sizes) (table x)).
  { unfold wf_ff, all_lt in Hx. rewrite Ht in Hx. exact Hx. }
  rewrite Forall_forall in Hr.
  assert (Hinj : inj_table (map (fun e => nth e sizes 0) (table x))
                           (map (fun e => list_sum (firstn e sizes)) (table x))
                 = concat (map (fun e => seq (list_sum (firstn e sizes)) (nth e sizes 0)) (table x))).
  { unfold inj_table. rewrite combine_map_same, map_map. reflexivity. }
  rewrite Hinj. clear Hinj. cbn [bind].
  rewrite ff_compose_ok.
  - cbn [table target]. do 2 f_equal. f_equal.
    rewrite concat_map, map_map. f_equal. unfold map_indexes_segs.
    apply map_ext_in. intros e He. apply Hr in He.
    unfold decode_f. fold sizes vals. rewrite nth_segs by exact He.
    apply map_nth_seq. pose proof (prefix_sum_le sizes e). lia.
  - cbn [target]. unfold ff_source. fold vals. exact Hsum.
  - unfold wf_ff, all_lt. cbn [target table]. apply Forall_concat.
    rewrite Forall_map, Forall_forall. intros e He. apply Hr in He.
    rewrite Forall_forall. intros j Hj. apply in_seq in Hj.
    pose proof (prefix_sum_le sizes e). lia.
Qed.

Lemma ic_map_indexes_ok (c : icf) (x : ff) : wf_icf c -> wf_ff x -> target x = ic_len c ->
  ic_map_indexes ff_vops c x = Ok (Some (map_indexes_pure c x)).
Proof.
  intros Hc Hx Ht. unfold ic_map_indexes.
  rewrite (@ff_compose_ok x (ic_sources c) Ht Hx). cbn [bind table].
  rewrite (ic_indexed_values_ok Hc Hx Ht). cbn [bind].
  fold (map_indexes_sizes c x).
  assert (Hlen : length (concat (map_indexes_segs c x)) = list_sum (map_indexes_sizes c x)).
  { rewrite length_concat, (map_indexes_segs_lengths Hc Hx Ht). reflexivity. }
  unfold ic_from_semifinite. cbn [vlen ff_vops]. unfold ff_source at 1. cbn [table].
  rewrite Hlen. rewrite ff_new_ok.
  2:{ rewrite Forall_forall. intros k Hk. apply in_le_list_sum in Hk. lia. }
  unfold ic_validate. cbn [ic_sources ic_values table target vlen ff_vops].
  rewrite asum_ok. cbn [bind]. rewrite Nat.eqb_refl. cbn [negb].
  unfold ff_source. cbn [table]. rewrite Hlen, Nat.eqb_refl. reflexivity.
Qed.

Lemma ic_map_indexes_none (c : icf) (x : ff) : target x <> ic_len c ->
  ic_map_indexes ff_vops c x = Ok None.
Proof.
  intros H. unfold ic_map_indexes. rewrite ff_compose_none by exact H. reflexivity.
Qed.

(* ---------- the incidence comparison ---------- *)
Lemma ff_eqb_spec (f g : ff) : ff_eqb f g = true <-> table f = table g /\ target f = target g.
Proof.
  unfold ff_eqb. rewrite andb_true_iff, c17_list_eqb_nat, Nat.eqb_eq. reflexivity.
Qed.

Lemma incidence_iff (cg ch : icf) (w x : ff) :
  wf_icf cg -> wf_icf ch -> wf_ff x -> target x = ic_len ch -> ff_source x = ic_len cg ->
  target w = target (ic_values ch) ->
  (icf_eqb (map_values_pure cg w) (map_indexes_pure ch x) = true <->
   forall e, e < ic_len cg ->
     nth (ff_app x e) (decode_f ch) [] = map (ff_app w) (nth e (decode_f cg) [])).
Proof.
  intros Hg Hh Hx Htx Hsx Htw.
  pose proof (wf_icf_sum Hg) as Hsum.
  pose proof (map_indexes_segs_lengths Hh Hx Htx) as HL.
  pose proof (decode_map_indexes Hh Hx Htx) as HD.
  unfold icf_eqb. rewrite andb_true_iff, !ff_eqb_spec.
  unfold map_values_pure at 1 2 3 4. cbn [ic_sources ic_values table target].
  unfold map_indexes_pure at 1 2 3 4. cbn [ic_sources ic_values table target].
  unfold ic_len, ff_source in *. split.
  - intros ((Hsz & _) & (Hv & _)) e He.
    assert (E : map (map (ff_app w)) (decode_f cg) = map_indexes_segs ch x).
    { rewrite <- decode_map_values, <- HD. unfold decode_f, map_values_pure, map_indexes_pure.
      cbn [ic_sources ic_values table]. rewrite Hsz, Hv. reflexivity. }
    assert (E2 : nth e (map (map (ff_app w)) (decode_f cg)) [] = nth e (map_indexes_segs ch x) [])
      by (rewrite E; reflexivity).
    change (@nil nat) with (map (ff_app w) []) in E2 at 1. rewrite map_nth in E2.
    unfold map_indexes_segs in E2.
    rewrite (nth_map_lt (fun e0 => nth e0 (decode_f ch) []) (table x) [] 0) in E2 by lia.
    symmetry. exact E2.
  - intros H.
    assert (E : map_indexes_segs ch x = map (map (ff_app w)) (decode_f cg)).
    { apply nth_ext with (d := []) (d' := []).
      - unfold map_indexes_segs, decode_f. rewrite !map_length, segs_length. lia.
      - intros e He. unfold map_indexes_segs in He. rewrite map_length in He.
        unfold map_indexes_segs.
        rewrite (nth_map_lt (fun e0 => nth e0 (decode_f ch) []) (table x) [] 0) by exact He.
        change (@nil nat) with (map (ff_app w) []) at 2. rewrite map_nth.
        apply H. lia. }
    assert (Hsz : table (ic_sources cg) = map_indexes_sizes ch x).
    { rewrite <- HL, E, map_map.
      rewrite (map_ext (fun l => length (map (ff_app w) l)) (@length nat))
        by (intros l; apply map_length).
      unfold decode_f. symmetry. apply map_length_segs. lia. }
    split; split.
    + exact Hsz.
    + destruct Hg as ((Hgt & _) & _). rewrite Hgt, Hsz. reflexivity.
    + rewrite E, <- concat_map. unfold decode_f. rewrite concat_segs_wf by exact Hsum. reflexivity.
    + exact Htw.
Qed.
