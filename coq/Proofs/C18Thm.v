(* C18: hypergraph-morphism validation and the monomorphism test are exact.
   Rust: src/strict/hypergraph/arrow.rs (validate, is_monomorphism). *)
From OHG Require Import Spec.Plain Proofs.PrimsThm Proofs.C17Thm Proofs.C18Lemmas.

Set Implicit Arguments.

(* ---------- injectivity test ---------- *)
Lemma at_most_one_true (l : list nat) :
  match amax l with Some m => m <=? 1 | None => true end = true <-> Forall (fun c => c <= 1) l.
Proof.
  unfold amax. destruct l as [|x l].
  - split; auto.
  - rewrite Nat.leb_le, fold_max_le. split.
    + intros [H1 H2]. constructor; auto.
    + intros H. inversion H; subst. split; auto.
Qed.

Lemma ff_is_injective_ok (f : ff) : wf_ff f ->
  exists b, ff_is_injective f = Ok b /\ (b = true <-> NoDup (table f)).
Proof.
  intros Hf. unfold ff_is_injective, ff_source.
  destruct (length (table f) =? 0) eqn:E.
  - apply Nat.eqb_eq in E. exists true. split; [reflexivity|].
    destruct (table f); simpl in E; try lia. split; auto. intros _. constructor.
  - unfold wf_ff, all_lt in Hf. rewrite (bincount_ok Hf). cbn [bind].
    eexists. split; [reflexivity|].
    rewrite at_most_one_true. apply bincount_pure_le1. exact Hf.
Qed.

Section C18.
  Variables O A : Type.
  Variable eqO : O -> O -> bool.
  Variable eqA : A -> A -> bool.
  Hypothesis eqO_spec : forall a b, eqO a b = true <-> a = b.
  Hypothesis eqA_spec : forall a b, eqA a b = true <-> a = b.

  Theorem C18_mono (m : hg_arrow O A) : wf_ff (ar_w m) -> wf_ff (ar_x m) ->
    exists b, arrow_is_monomorphism m = Ok b /\
              (b = true <-> NoDup (table (ar_w m)) /\ NoDup (table (ar_x m))).
  Proof.
    intros Hw Hx. unfold arrow_is_monomorphism.
    destruct (ff_is_injective_ok Hw) as (bw & Ew & Hbw).
    destruct (ff_is_injective_ok Hx) as (bx & Ex & Hbx).
    rewrite Ew. cbn [bind]. destruct bw.
    - exists bx. split; [exact Ex|]. rewrite Hbx. split.
      + intros H. split; auto. apply Hbw. reflexivity.
      + intros [_ H]. exact H.
    - exists false. split; [reflexivity|]. split; [discriminate|].
      intros [H _]. apply Hbw in H. discriminate.
  Qed.

  (* ---------- the six conditions checked by validate, in the order of the code ---------- *)
  Section Conditions.
    Variables g h : hg O A.
    Variables w x : ff.

    (* `&self.w >> &h.w` is defined: the codomain of w is the node set of h *)
    Definition PWt : Prop := target w = length (h_w h).
    (* g.w == w >> h.w : w is defined on the nodes of g and preserves node labels *)
    Definition PW : Prop :=
      length (table w) = length (h_w g) /\
      forall i, i < length (h_w g) -> nth_error (h_w h) (ff_app w i) = nth_error (h_w g) i.
    Definition PXt : Prop := target x = length (h_x h).
    Definition PX : Prop :=
      length (table x) = length (h_x g) /\
      forall e, e < length (h_x g) -> nth_error (h_x h) (ff_app x e) = nth_error (h_x g) e.
    (* the ordered source list of every hyperedge is sent elementwise *)
    Definition PS : Prop :=
      forall e, e < length (h_x g) ->
        nth (ff_app x e) (decode_f (h_s h)) [] = map (ff_app w) (nth e (decode_f (h_s g)) []).
    Definition PT : Prop :=
      forall e, e < length (h_x g) ->
        nth (ff_app x e) (decode_f (h_t h)) [] = map (ff_app w) (nth e (decode_f (h_t g)) []).

    (* e names the FIRST failing condition in the order W-type, W, X-type, X, S, T *)
    Definition first_failure (e : invalid_arrow) : Prop :=
      match e with
      | TypeMismatchW => ~ PWt
      | NotNaturalW => PWt /\ ~ PW
      | TypeMismatchX => PWt /\ PW /\ ~ PXt
      | NotNaturalX => PWt /\ PW /\ PXt /\ ~ PX
      | NotNaturalS => PWt /\ PW /\ PXt /\ PX /\ ~ PS
      | NotNaturalT => PWt /\ PW /\ PXt /\ PX /\ PS /\ ~ PT
      end.

    Definition all_conditions : Prop := PWt /\ PW /\ PXt /\ PX /\ PS /\ PT.

    Hypothesis Hg : wf_hg g.
    Hypothesis Hh : wf_hg h.
    Hypothesis Hw : wf_ff w.
    Hypothesis Hx : wf_ff x.

    Let m := mkArrow g h w x.

    (* one incidence check (sources or targets): given the earlier checks it always reaches the
       comparison, and the comparison decides the elementwise condition *)
    Lemma incidence_stage (cg ch : icf) :
      wf_icf cg -> wf_icf ch ->
      ic_len cg = length (h_x g) -> ic_len ch = length (h_x h) ->
      target (ic_values cg) = length (h_w g) -> target (ic_values ch) = length (h_w h) ->
      PWt -> PW -> PXt -> PX ->
      exists l r, icf_map_values cg w = Ok (Some l) /\
                  ic_map_indexes ff_vops ch x = Ok (Some r) /\
                  (icf_eqb l r = true <->
                   forall e, e < length (h_x g) ->
                     nth (ff_app x e) (decode_f ch) [] = map (ff_app w) (nth e (decode_f cg) [])).
    Proof.
      intros Hcg Hch Hlg Hlh Htg Hth Hwt [Hwl _] Hxt [Hxl _].
      unfold PWt, PXt in *.
      exists (map_values_pure cg w), (map_indexes_pure ch x). split; [|split].
      - apply icf_map_values_ok. apply Hcg. unfold ff_source. lia.
      - apply ic_map_indexes_ok; auto. lia.
      - rewrite <- Hlg. apply incidence_iff; auto.
        + lia.
        + unfold ff_source. lia.
        + lia.
    Qed.

    Lemma validate_cases :
      (~ PWt /\ arrow_validate eqO eqA m = Ok (inr TypeMismatchW)) \/
      (PWt /\ ~ PW /\ arrow_validate eqO eqA m = Ok (inr NotNaturalW)) \/
      (PWt /\ PW /\ ~ PXt /\ arrow_validate eqO eqA m = Ok (inr TypeMismatchX)) \/
      (PWt /\ PW /\ PXt /\ ~ PX /\ arrow_validate eqO eqA m = Ok (inr NotNaturalX)) \/
      (PWt /\ PW /\ PXt /\ PX /\ ~ PS /\ arrow_validate eqO eqA m = Ok (inr NotNaturalS)) \/
      (PWt /\ PW /\ PXt /\ PX /\ PS /\ ~ PT /\ arrow_validate eqO eqA m = Ok (inr NotNaturalT)) \/
      (all_conditions /\ arrow_validate eqO eqA m = Ok (inl m)).
    Proof.
      unfold arrow_validate. cbn [ar_source ar_target ar_w ar_x m].
      (* W type *)
      destruct (Nat.eq_dec (target w) (length (h_w h))) as [Ewt|Ewt].
      2:{ left. split; [exact Ewt|]. rewrite ff_compose_semi_none by exact Ewt. reflexivity. }
      right. destruct (ff_compose_semi_ok (h_w h) Ewt Hw) as (cw & Hcw & Hmw).
      rewrite Hcw. cbn [bind].
      (* W naturality *)
      assert (HPW : list_eqb eqO (h_w g) cw = true <-> PW).
      { rewrite (list_eqb_spec eqO eqO_spec), <- map_Some_inj, Hmw. apply labels_iff. }
      destruct (list_eqb eqO (h_w g) cw) eqn:EW; cbn [negb].
      2:{ left. split; [exact Ewt|]. split; [|reflexivity].
          intros HP. apply HPW in HP. discriminate. }
      right. assert (HW : PW) by (apply HPW; reflexivity). clear HPW.
      (* X type *)
      destruct (Nat.eq_dec (target x) (length (h_x h))) as [Ext|Ext].
      2:{ left. split; [exact Ewt|]. split; [exact HW|]. split; [exact Ext|].
          rewrite ff_compose_semi_none by exact Ext. reflexivity. }
      right. destruct (ff_compose_semi_ok (h_x h) Ext Hx) as (cx & Hcx & Hmx).
      rewrite Hcx. cbn [bind].
      (* X naturality *)
      assert (HPX : list_eqb eqA (h_x g) cx = true <-> PX).
      { rewrite (list_eqb_spec eqA eqA_spec), <- map_Some_inj, Hmx. apply labels_iff. }
      destruct (list_eqb eqA (h_x g) cx) eqn:EX; cbn [negb].
      2:{ left. split; [exact Ewt|]. split; [exact HW|]. split; [exact Ext|]. split; [|reflexivity].
          intros HP. apply HPX in HP. discriminate. }
      right. assert (HX : PX) by (apply HPX; reflexivity). clear HPX.
      destruct Hg as (Hgs & Hgt & Hgls & Hglt & Hgts & Hgtt).
      destruct Hh as (Hhs & Hht & Hhls & Hhlt & Hhts & Hhtt).
      (* S *)
      destruct (incidence_stage Hgs Hhs Hgls Hhls Hgts Hhts Ewt HW Ext HX)
        as (sl & sr & Esl & Esr & HPS).
      rewrite Esl. cbn [bind]. rewrite Esr. cbn [bind].
      destruct (icf_eqb sl sr) eqn:ES; cbn [negb].
      2:{ left. split; [exact Ewt|]. split; [exact HW|]. split; [exact Ext|]. split; [exact HX|].
          split; [|reflexivity]. intros HP. apply HPS in HP. discriminate. }
      right. assert (HS : PS) by (unfold PS; apply HPS; reflexivity). clear HPS.
      (* T *)
      destruct (incidence_stage Hgt Hht Hglt Hhlt Hgtt Hhtt Ewt HW Ext HX)
        as (tl & tr & Etl & Etr & HPT).
      rewrite Etl. cbn [bind]. rewrite Etr. cbn [bind].
      destruct (icf_eqb tl tr) eqn:ET; cbn [negb].
      2:{ left. split; [exact Ewt|]. split; [exact HW|]. split; [exact Ext|]. split; [exact HX|].
          split; [exact HS|]. split; [|reflexivity]. intros HP. apply HPT in HP. discriminate. }
      right. assert (HT : PT) by (unfold PT; apply HPT; reflexivity). clear HPT.
      split; [|reflexivity]. exact (conj Ewt (conj HW (conj Ext (conj HX (conj HS HT))))).
    Qed.

    (* never a panic, never out of fuel *)
    Theorem C18_total : exists r, arrow_validate eqO eqA m = Ok r.
    Proof.
      destruct validate_cases as [H|[H|[H|[H|[H|[H|H]]]]]]; eexists; apply H.
    Qed.

    Theorem C18_validate_iff :
      arrow_validate eqO eqA m = Ok (inl m) <->
      length (table w) = length (h_w g) /\ target w = length (h_w h) /\
      (forall i, i < length (h_w g) -> nth_error (h_w h) (ff_app w i) = nth_error (h_w g) i) /\
      target x = length (h_x h) /\ length (table x) = length (h_x g) /\
      (forall e, e < length (h_x g) -> nth_error (h_x h) (ff_app x e) = nth_error (h_x g) e) /\
      (forall e, e < length (h_x g) ->
         nth (ff_app x e) (decode_f (h_s h)) [] = map (ff_app w) (nth e (decode_f (h_s g)) [])) /\
      (forall e, e < length (h_x g) ->
         nth (ff_app x e) (decode_f (h_t h)) [] = map (ff_app w) (nth e (decode_f (h_t g)) [])).
    Proof.
      fold PS PT. split.
      - intros HV.
        destruct validate_cases as [H|[H|[H|[H|[H|[H|H]]]]]].
        + destruct H as (_ & H). rewrite H in HV. discriminate.
        + destruct H as (_ & _ & H). rewrite H in HV. discriminate.
        + destruct H as (_ & _ & _ & H). rewrite H in HV. discriminate.
        + destruct H as (_ & _ & _ & _ & H). rewrite H in HV. discriminate.
        + destruct H as (_ & _ & _ & _ & _ & H). rewrite H in HV. discriminate.
        + destruct H as (_ & _ & _ & _ & _ & _ & H). rewrite H in HV. discriminate.
        + destruct H as ((H1 & (H2 & H3) & H4 & (H5 & H6) & H7 & H8) & _).
          exact (conj H2 (conj H1 (conj H3 (conj H4 (conj H5 (conj H6 (conj H7 H8))))))).
      - intros (H2 & H1 & H3 & H4 & H5 & H6 & H7 & H8).
        assert (HW : PW) by (split; assumption). assert (HX : PX) by (split; assumption).
        destruct validate_cases as [H|[H|[H|[H|[H|[H|H]]]]]].
        + destruct H as (N & _). contradiction.
        + destruct H as (_ & N & _). contradiction.
        + destruct H as (_ & _ & N & _). contradiction.
        + destruct H as (_ & _ & _ & N & _). contradiction.
        + destruct H as (_ & _ & _ & _ & N & _). contradiction.
        + destruct H as (_ & _ & _ & _ & _ & N & _). contradiction.
        + apply H.
    Qed.

    (* an error is returned exactly when the named condition is the first one that fails *)
    Theorem C18_error_exact (e : invalid_arrow) :
      arrow_validate eqO eqA m = Ok (inr e) <-> first_failure e.
    Proof.
      split.
      - intros HV.
        destruct validate_cases as [H|[H|[H|[H|[H|[H|H]]]]]].
        + destruct H as (N & H). rewrite H in HV. inversion HV; subst. exact N.
        + destruct H as (P1 & N & H). rewrite H in HV. inversion HV; subst. simpl. tauto.
        + destruct H as (P1 & P2 & N & H). rewrite H in HV. inversion HV; subst. simpl. tauto.
        + destruct H as (P1 & P2 & P3 & N & H). rewrite H in HV. inversion HV; subst. simpl. tauto.
        + destruct H as (P1 & P2 & P3 & P4 & N & H). rewrite H in HV. inversion HV; subst.
          simpl. tauto.
        + destruct H as (P1 & P2 & P3 & P4 & P5 & N & H). rewrite H in HV. inversion HV; subst.
          simpl. tauto.
        + destruct H as (_ & H). rewrite H in HV. discriminate.
      - intros HF.
        destruct validate_cases as [H|[H|[H|[H|[H|[H|H]]]]]].
        + destruct H as (N & H). rewrite H. destruct e; simpl in HF; try tauto.
        + destruct H as (P1 & N & H). rewrite H. destruct e; simpl in HF; try tauto.
        + destruct H as (P1 & P2 & N & H). rewrite H. destruct e; simpl in HF; try tauto.
        + destruct H as (P1 & P2 & P3 & N & H). rewrite H. destruct e; simpl in HF; try tauto.
        + destruct H as (P1 & P2 & P3 & P4 & N & H). rewrite H.
          destruct e; simpl in HF; try tauto.
        + destruct H as (P1 & P2 & P3 & P4 & P5 & N & H). rewrite H.
          destruct e; simpl in HF; try tauto.
        + destruct H as ((P1 & P2 & P3 & P4 & P5 & P6) & H).
          destruct e; simpl in HF; tauto.
    Qed.

    Theorem C18_error_truthful (e : invalid_arrow) :
      arrow_validate eqO eqA m = Ok (inr e) -> first_failure e.
    Proof. apply C18_error_exact. Qed.
  End Conditions.

  (* ---------- the same equivalence without assuming w and x in range: a table entry out of
     range makes `gather` panic, and the label conditions already force the ranges ---------- *)
  Lemma ff_compose_semi_inv {T} (f : ff) (u : list T) r :
    ff_compose_semi f u = Ok (Some r) -> target f = length u /\ wf_ff f.
  Proof.
    unfold ff_compose_semi. destruct (target f =? length u) eqn:E; [|discriminate].
    apply Nat.eqb_eq in E. rewrite get_range_full. cbn [bind].
    destruct (gather u (table f)) as [t| |] eqn:G; cbn [bind]; try discriminate.
    intros _. split; [exact E|]. apply gather_ok_inv in G. destruct G as [G _].
    unfold wf_ff, all_lt. rewrite E. exact G.
  Qed.

  Lemma labels_in_range {T} (l u : list T) (f : ff) :
    target f = length u -> length (table f) = length l ->
    (forall i, i < length l -> nth_error u (ff_app f i) = nth_error l i) -> wf_ff f.
  Proof.
    intros Ht Hl Hn. unfold wf_ff, all_lt. apply Forall_nth. intros i d Hi.
    rewrite nth_indep with (d' := 0) by exact Hi.
    assert (Hs : nth_error u (ff_app f i) <> None).
    { rewrite Hn by lia. apply nth_error_Some. lia. }
    apply nth_error_Some in Hs. unfold ff_app in Hs. lia.
  Qed.

  Theorem C18_validate_iff_strong (g h : hg O A) (w x : ff) : wf_hg g -> wf_hg h ->
    (arrow_validate eqO eqA (mkArrow g h w x) = Ok (inl (mkArrow g h w x)) <->
     all_conditions g h w x).
  Proof.
    intros Hg Hh.
    assert (Hiff : wf_ff w -> wf_ff x ->
              (arrow_validate eqO eqA (mkArrow g h w x) = Ok (inl (mkArrow g h w x)) <->
               all_conditions g h w x)).
    { intros Hw Hx. rewrite (C18_validate_iff Hg Hh Hw Hx).
      unfold all_conditions, PWt, PW, PXt, PX, PS, PT. tauto. }
    split.
    - intros HV. apply Hiff; auto.
      + unfold arrow_validate in HV. cbn [ar_source ar_target ar_w ar_x] in HV.
        destruct (ff_compose_semi w (h_w h)) as [[cw|]| |] eqn:E1; cbn [bind] in HV;
          try discriminate.
        apply ff_compose_semi_inv in E1. apply E1.
      + unfold arrow_validate in HV. cbn [ar_source ar_target ar_w ar_x] in HV.
        destruct (ff_compose_semi w (h_w h)) as [[cw|]| |] eqn:E1; cbn [bind] in HV;
          try discriminate.
        destruct (list_eqb eqO (h_w g) cw); cbn [negb] in HV; try discriminate.
        destruct (ff_compose_semi x (h_x h)) as [[cx|]| |] eqn:E2; cbn [bind] in HV;
          try discriminate.
        apply ff_compose_semi_inv in E2. apply E2.
    - intros HC. apply Hiff; auto.
      + destruct HC as (H1 & (H2 & H3) & _). exact (@labels_in_range _ _ _ _ H1 H2 H3).
      + destruct HC as (_ & _ & H1 & (H2 & H3) & _). exact (@labels_in_range _ _ _ _ H1 H2 H3).
  Qed.
End C18.

Print Assumptions C18_mono.
Print Assumptions C18_total.
Print Assumptions C18_validate_iff.
Print Assumptions C18_validate_iff_strong.
Print Assumptions C18_error_exact.
Print Assumptions C18_error_truthful.

(* ---------- examples ---------- *)
Module C18Examples.
  (* h: nodes 10 11 10 12; hyperedge 7 : [0] -> [1]; hyperedge 8 : [1;2] -> [3] *)
  Definition ex_h : hg nat nat :=
    mkHG (mkIC (mkFF [1; 2] 4) (mkFF [0; 1; 2] 4)) (mkIC (mkFF [1; 1] 3) (mkFF [1; 3] 4))
         [10; 11; 10; 12] [7; 8].
  (* g: nodes 11 10 12; hyperedge 8 : [0;1] -> [2] *)
  Definition ex_g : hg nat nat :=
    mkHG (mkIC (mkFF [2] 3) (mkFF [0; 1] 3)) (mkIC (mkFF [1] 2) (mkFF [2] 3)) [11; 10; 12] [8].
  (* g with another target list: hyperedge 8 : [0;1] -> [1] *)
  Definition ex_g' : hg nat nat :=
    mkHG (mkIC (mkFF [2] 3) (mkFF [0; 1] 3)) (mkIC (mkFF [1] 2) (mkFF [1] 3)) [11; 10; 12] [8].
  (* two nodes labelled 10, no hyperedge *)
  Definition ex_d : hg nat nat := hg_discrete nat [10; 10].

  Definition ex_w := mkFF [1; 2; 3] 4.
  Definition ex_x := mkFF [1] 2.
  Definition ex_m := mkArrow ex_g ex_h ex_w ex_x.

  Ltac wf_tac := unfold wf_hg, wf_icf, wf_ic, wf_ff, all_lt; simpl;
                 repeat split; repeat constructor; lia.

  Example ex_h_wf : wf_hg ex_h. Proof. wf_tac. Qed.
  Example ex_g_wf : wf_hg ex_g. Proof. wf_tac. Qed.
  Example ex_g'_wf : wf_hg ex_g'. Proof. wf_tac. Qed.
  Example ex_d_wf : wf_hg ex_d. Proof. wf_tac. Qed.
  Example ex_w_wf : wf_ff ex_w. Proof. wf_tac. Qed.
  Example ex_x_wf : wf_ff ex_x. Proof. wf_tac. Qed.

  Notation validate := (arrow_validate Nat.eqb Nat.eqb).

  Example ex_valid : validate ex_m = Ok (inl ex_m). Proof. vm_compute. reflexivity. Qed.
  Example ex_valid_mono : arrow_is_monomorphism ex_m = Ok true. Proof. vm_compute. reflexivity. Qed.

  (* the theorem applied: all six conditions hold for ex_m *)
  Example ex_valid_conditions : all_conditions ex_g ex_h ex_w ex_x.
  Proof.
    apply (@C18_validate_iff_strong nat nat Nat.eqb Nat.eqb Nat.eqb_eq Nat.eqb_eq ex_g ex_h ex_w ex_x ex_g_wf ex_h_wf).
    exact ex_valid.
  Qed.

  (* each error, on in-range maps *)
  Example ex_type_w : validate (mkArrow ex_g ex_h (mkFF [1; 2; 3] 5) ex_x) = Ok (inr TypeMismatchW).
  Proof. vm_compute. reflexivity. Qed.
  Example ex_nat_w : validate (mkArrow ex_g ex_h (mkFF [0; 2; 3] 4) ex_x) = Ok (inr NotNaturalW).
  Proof. vm_compute. reflexivity. Qed.
  Example ex_type_x : validate (mkArrow ex_g ex_h ex_w (mkFF [1] 3)) = Ok (inr TypeMismatchX).
  Proof. vm_compute. reflexivity. Qed.
  Example ex_nat_x : validate (mkArrow ex_g ex_h ex_w (mkFF [0] 2)) = Ok (inr NotNaturalX).
  Proof. vm_compute. reflexivity. Qed.
  (* labels preserved (nodes 0 and 2 of h are both labelled 10) but the ordered sources are not *)
  Example ex_nat_s : validate (mkArrow ex_g ex_h (mkFF [1; 0; 3] 4) ex_x) = Ok (inr NotNaturalS).
  Proof. vm_compute. reflexivity. Qed.
  Example ex_nat_t : validate (mkArrow ex_g' ex_h ex_w ex_x) = Ok (inr NotNaturalT).
  Proof. vm_compute. reflexivity. Qed.
  (* W and X both wrong: the first one in the order of the code is reported *)
  Example ex_first : validate (mkArrow ex_g ex_h (mkFF [0; 2; 3] 4) (mkFF [0] 2)) = Ok (inr NotNaturalW).
  Proof. vm_compute. reflexivity. Qed.

  (* the theorem applied to an error: sources are really not preserved, everything before is *)
  Example ex_nat_s_spec : ~ PS ex_g ex_h (mkFF [1; 0; 3] 4) ex_x /\ PX ex_g ex_h ex_x.
  Proof.
    assert (Hw : wf_ff (mkFF [1; 0; 3] 4)) by wf_tac.
    pose proof (@C18_error_truthful nat nat Nat.eqb Nat.eqb Nat.eqb_eq Nat.eqb_eq ex_g ex_h _ ex_x ex_g_wf ex_h_wf Hw ex_x_wf _ ex_nat_s) as H.
    simpl in H. tauto.
  Qed.

  (* degenerate cases: the empty hypergraph maps into anything; a non-injective valid morphism *)
  Example ex_empty : validate (mkArrow hg_empty ex_h (mkFF [] 4) (mkFF [] 2))
                     = Ok (inl (mkArrow hg_empty ex_h (mkFF [] 4) (mkFF [] 2))).
  Proof. vm_compute. reflexivity. Qed.
  Example ex_fold : validate (mkArrow ex_d ex_h (mkFF [0; 0] 4) (mkFF [] 2))
                    = Ok (inl (mkArrow ex_d ex_h (mkFF [0; 0] 4) (mkFF [] 2))) /\
                    arrow_is_monomorphism (mkArrow ex_d ex_h (mkFF [0; 0] 4) (mkFF [] 2)) = Ok false.
  Proof. vm_compute. auto. Qed.

  (* outside wf_ff the code panics (index out of bounds in gather), as does is_monomorphism *)
  Example ex_panic : validate (mkArrow ex_g ex_h (mkFF [1; 2; 9] 4) ex_x) = Panic /\
                     arrow_is_monomorphism (mkArrow ex_g ex_h (mkFF [1; 2; 9] 4) ex_x) = Panic.
  Proof. vm_compute. auto. Qed.
End C18Examples.
