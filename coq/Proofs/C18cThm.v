(* C18 (convexity): the convex-subgraph test [arrow_is_convex_subgraph B m] (Model/Arrow.v, model of
   src/strict/hypergraph/arrow.rs `is_convex_subgraph`) is exact, for every back-end satisfying
   the contract [BackendOK] and the node-adjacency specification [adj_spec_nodes].

   Section 1: generic list facts, pure views of filter_unvisited / successors.
   Section 2: the relations Ein / Eout / Eall, paths, [Convex], the two-layer formulation R0 / R1.
   Section 3: the three adjacency arrays.
   Section 4: loop invariant, preservation by [convex_step], termination, exit.
   Section 5: [C18_convex_nonmono], [C18_convex]; examples. *)
From OHG Require Import Spec.Plain Proofs.PrimsThm Proofs.C17Thm Proofs.C18Lemmas Proofs.C18Thm
  Proofs.KahnThm Proofs.BackendInst.
From OHG Require Import Spec.GraphSpec.

Set Implicit Arguments.

Arguments Nat.sub : simpl never.

(* ================================================================== *)
(** * Section 1: generic facts and pure views *)
(* ================================================================== *)

Lemma fold_max_ge1 l : forall a,
  1 <= fold_left Nat.max l a <-> 1 <= a \/ exists y, In y l /\ 1 <= y.
Proof.
  induction l as [|y l IH]; intros a; cbn [fold_left].
  - split; [intros H; left; exact H|]. intros [H|(y & [] & _)]. exact H.
  - rewrite IH. split.
    + intros [H|(z & Hz & Hz1)].
      * destruct (Nat.max_spec a y) as [[_ E]|[_ E]]; rewrite E in H.
        -- right. exists y. split; [left; reflexivity|exact H].
        -- left. exact H.
      * right. exists z. split; [right; exact Hz|exact Hz1].
    + intros [H|(z & [<-|Hz] & Hz1)].
      * left. lia.
      * left. lia.
      * right. exists z. split; assumption.
Qed.

(* the final test `max().map_or(false, |m| m >= 1)` *)
Lemma amax_ge1 l :
  match amax l with Some mx => 1 <=? mx | None => false end = true <-> exists y, In y l /\ 1 <= y.
Proof.
  unfold amax. destruct l as [|a l].
  - split; [discriminate|]. intros (y & [] & _).
  - rewrite Nat.leb_le, fold_max_ge1. split.
    + intros [H|(y & Hy & Hy1)].
      * exists a. split; [left; reflexivity|exact H].
      * exists y. split; [right; exact Hy|exact Hy1].
    + intros (y & [<-|Hy] & Hy1).
      * left. exact Hy1.
      * right. exists y. split; assumption.
Qed.

Lemma filter_length_le {T} (f g : T -> bool) : forall l,
  (forall y, In y l -> f y = true -> g y = true) ->
  length (List.filter f l) <= length (List.filter g l).
Proof.
  induction l as [|y l IH]; intros H; cbn [List.filter]. lia.
  assert (IH' : length (List.filter f l) <= length (List.filter g l)).
  { apply IH. intros z Hz. apply H. right. exact Hz. }
  destruct (f y) eqn:Ef.
  - rewrite (H y (or_introl eq_refl) Ef). cbn [length]. lia.
  - destruct (g y); cbn [length]; lia.
Qed.

Lemma filter_length_lt {T} (f g : T -> bool) : forall l z,
  (forall y, In y l -> f y = true -> g y = true) ->
  In z l -> f z = false -> g z = true ->
  length (List.filter f l) < length (List.filter g l).
Proof.
  induction l as [|y l IH]; intros z H Hz Hf Hg; cbn [List.filter]. destruct Hz.
  assert (Hle : length (List.filter f l) <= length (List.filter g l)).
  { apply filter_length_le. intros t Ht. apply H. right. exact Ht. }
  destruct Hz as [->|Hz].
  - rewrite Hf, Hg. cbn [length]. lia.
  - assert (Hlt : length (List.filter f l) < length (List.filter g l)).
    { apply (IH z); auto. intros t Ht. apply H. right. exact Ht. }
    destruct (f y) eqn:Ef.
    + rewrite (H y (or_introl eq_refl) Ef). cbn [length]. lia.
    + destruct (g y); cbn [length]; lia.
Qed.

Lemma filter_length_bound {T} (f : T -> bool) l : length (List.filter f l) <= length l.
Proof.
  induction l as [|y l IH]; cbn [List.filter length]. lia.
  destruct (f y); cbn [length]; lia.
Qed.

Lemma filter_nil_false {T} (f : T -> bool) l z : List.filter f l = [] -> In z l -> f z = false.
Proof.
  intros E Hz. destruct (f z) eqn:Ef; [|reflexivity].
  assert (Hin : In z (List.filter f l)) by (apply filter_In; split; assumption).
  rewrite E in Hin. destruct Hin.
Qed.

Lemma nth_fill_lt {T} (a d : T) m i : i < m -> nth i (fill a m) d = a.
Proof.
  intros H. unfold fill. rewrite nth_indep with (d' := a) by (rewrite repeat_length; exact H).
  apply nth_repeat.
Qed.

Lemma nth_fill0 m i : nth i (fill 0 m) 0 = 0.
Proof. unfold fill. apply nth_repeat. Qed.

Definition both_nil {T} (a b : list T) : bool :=
  match a, b with [], [] => true | _, _ => false end.

Lemma match_both_nil {T R} (a b : list T) (r1 r2 : R) :
  match a, b with [], [] => r1 | _, _ => r2 end = if both_nil a b then r1 else r2.
Proof. destruct a, b; reflexivity. Qed.

Lemma both_nil_true {T} (a b : list T) : both_nil a b = true <-> a = [] /\ b = [].
Proof.
  destruct a, b; cbn [both_nil]; split; intros H; try discriminate; auto;
    destruct H as [H1 H2]; discriminate.
Qed.

Lemma both_nil_false {T} (a b : list T) : both_nil a b = false -> (exists y, In y a) \/ (exists y, In y b).
Proof.
  destruct a as [|y a]; [destruct b as [|z b]|]; cbn [both_nil]; intros H; try discriminate.
  - right. exists z. left. reflexivity.
  - left. exists y. left. reflexivity.
Qed.

(* marking with scatter_assign_constant ... 1 *)
Lemma marked_sac xs ixs v : Forall (fun i => i < length xs) ixs ->
  (nth v (sac_pure xs ixs 1) 0 <> 0 <-> In v ixs \/ nth v xs 0 <> 0).
Proof.
  intros H. rewrite nth_sac_pure by exact H.
  destruct (existsb (Nat.eqb v) ixs) eqn:E.
  - apply existsb_eqb_In in E. split; [intros _; left; exact E|intros _; discriminate].
  - apply existsb_eqb_notIn in E. split; [intros H1; right; exact H1|].
    intros [H1|H1]; [contradiction|exact H1].
Qed.

(* "not yet visited" *)
Definition unv (vis : list nat) (c : nat) : bool := nth c vis 0 =? 0.

Lemma unv_false vis c : unv vis c = false <-> nth c vis 0 <> 0.
Proof. unfold unv. apply Nat.eqb_neq. Qed.

Lemma unv_true vis c : unv vis c = true <-> nth c vis 0 = 0.
Proof. unfold unv. apply Nat.eqb_eq. Qed.

(* filter_unvisited: the sublist of the candidates that are not marked *)
Lemma filter_unvisited_ok vis cands : all_lt (length vis) cands ->
  filter_unvisited vis cands = Ok (List.filter (unv vis) cands).
Proof.
  intros H. destruct cands as [|c cs]. reflexivity.
  unfold filter_unvisited. rewrite get_range_full. cbn [bind].
  rewrite (gather_ok vis 0) by exact H. cbn [bind].
  rewrite get_range_full. cbn [bind].
  rewrite (gather_ok (c :: cs) 0).
  2:{ pose proof (azero_lt (map (fun i => nth i vis 0) (c :: cs))) as Hz.
      rewrite map_length in Hz. exact Hz. }
  rewrite (gather_azero (fun i => nth i vis 0)). reflexivity.
Qed.

Lemma sparse_nil B : BackendOK B -> fst (b_sparse_bincount B []) = [].
Proof.
  intros OK. destruct (bk_sparse B OK []) as (_ & H & _).
  destruct (fst (b_sparse_bincount B [])) as [|y u]. reflexivity.
  destruct (proj1 (H y) (or_introl eq_refl)).
Qed.

Lemma sparse_In B xs v : BackendOK B -> (In v (fst (b_sparse_bincount B xs)) <-> In v xs).
Proof. intros OK. destruct (bk_sparse B OK xs) as (_ & H & _). apply H. Qed.

(* the `merged.is_empty()` branch is the same function as the other branch *)
Lemma next1_ok B vis merged : BackendOK B -> all_lt (length vis) merged ->
  match merged with
  | [] => Ok []
  | y :: l => filter_unvisited vis (fst (b_sparse_bincount B (y :: l)))
  end = Ok (List.filter (unv vis) (fst (b_sparse_bincount B merged))).
Proof.
  intros OK H. destruct merged as [|y l] eqn:E.
  - rewrite (sparse_nil OK). reflexivity.
  - apply filter_unvisited_ok. apply Forall_forall. intros v Hv.
    pose proof (proj1 (@sparse_In B (y :: l) v OK) Hv) as Hv'.
    unfold all_lt in H. rewrite Forall_forall in H. auto.
Qed.

(* successors: exactly the nodes reached by one adjacency step from the frontier *)
Lemma successors_ok B adj fr n : BackendOK B ->
  wf_icf adj -> ic_len adj = n -> target (ic_values adj) = n -> all_lt n fr ->
  exists ks, successors B adj fr = Ok ks /\ all_lt n ks /\
    forall v, In v ks <-> exists u, In u fr /\ In v (succs adj u).
Proof.
  intros OK Hwf Hlen Htg Hfr. destruct fr as [|a fr'].
  - exists []. split; [reflexivity|]. split; [constructor|].
    intros v. split; [intros []|intros (u & [] & _)].
  - remember (a :: fr') as fr eqn:Efr.
    assert (E0 : successors B adj fr =
      (f <- unwrap (ff_new fr (ic_len adj)) ;;
       '(g, _) <- sparse_relative_indegree B adj f ;; Ok (table g))).
    { rewrite Efr. reflexivity. }
    rewrite E0. clear E0 Efr.
    rewrite C18Lemmas.ff_new_ok by (rewrite Hlen; exact Hfr). cbn [unwrap bind].
    assert (Hf : wf_ff (mkFF fr (ic_len adj))).
    { unfold wf_ff. cbn [table target]. rewrite Hlen. exact Hfr. }
    assert (Htg' : target (ic_values adj) = ic_len adj) by lia.
    destruct (@KahnThm.sparse_relative_indegree_ok B adj (mkFF fr (ic_len adj))
                (BackendOK_sparse OK) Hwf Htg' Hf eq_refl) as (keys & E & _ & Hin).
    rewrite E. cbn [bind table]. exists keys. split; [reflexivity|].
    cbn [table] in Hin.
    assert (Hks : forall v, In v keys <-> exists u, In u fr /\ In v (succs adj u)).
    { intros v. rewrite Hin, in_flat_map. reflexivity. }
    split; [|exact Hks].
    apply Forall_forall. intros v Hv. apply Hks in Hv. destruct Hv as (u & _ & Hu).
    rewrite <- Htg. exact (@KahnThm.succs_lt adj u v Hwf Hu).
Qed.

(* ================================================================== *)
(** * Section 2: edge relations, paths, convexity, two-layer reachability *)
(* ================================================================== *)

Section Relations.
  Variables O A : Type.
  Variable h : hg O A.     (* the target hypergraph *)
  Variables w x : ff.      (* node map and hyperedge map of the inclusion *)

  (* hyperedge e is in the image *)
  Definition inside (e : nat) : Prop := In e (table x).
  (* node v is in the image ("selected") *)
  Definition sel (v : nat) : Prop := In v (table w).

  (* u -> v through hyperedge e of h *)
  Definition hstep (u e v : nat) : Prop :=
    e < length (h_x h) /\ In u (op_src h e) /\ In v (op_tgt h e).

  Definition Ein (u v : nat) : Prop := exists e, inside e /\ hstep u e v.
  Definition Eout (u v : nat) : Prop := exists e, ~ inside e /\ hstep u e v.
  Definition Eall (u v : nat) : Prop := nedge h u v.

  Lemma Eall_iff u v : Eall u v <-> exists e, hstep u e v.
  Proof. unfold Eall, nedge, hstep. reflexivity. Qed.

  Lemma Ein_all u v : Ein u v -> Eall u v.
  Proof. intros (e & _ & H). apply Eall_iff. exists e. exact H. Qed.

  Lemma Eout_all u v : Eout u v -> Eall u v.
  Proof. intros (e & _ & H). apply Eall_iff. exists e. exact H. Qed.

  (* a directed path a = v_0 -e_1-> v_1 ... -e_r-> v_r = b, as the list of (e_i, v_i) *)
  Fixpoint is_path (a : nat) (p : list (nat * nat)) (b : nat) : Prop :=
    match p with
    | [] => a = b
    | (e, v) :: p' => hstep a e v /\ is_path v p' b
    end.

  (* some hyperedge of the path is outside the image *)
  Definition leaves (p : list (nat * nat)) : Prop := exists e v, In (e, v) p /\ ~ inside e.

  (* no directed path between two nodes of the image passes through a hyperedge outside the image *)
  Definition Convex : Prop :=
    ~ exists a b p, sel a /\ sel b /\ is_path a p b /\ leaves p.

  (* layer 0: reachable from a selected node through inside hyperedges only *)
  Inductive R0 : nat -> Prop :=
  | R0_sel a : sel a -> R0 a
  | R0_step u v : R0 u -> Ein u v -> R0 v.

  (* layer 1: reachable from a selected node by a path that has used an outside hyperedge *)
  Inductive R1 : nat -> Prop :=
  | R1_out u v : R0 u -> Eout u v -> R1 v
  | R1_step u v : R1 u -> Eall u v -> R1 v.

  Lemma is_path_snoc p : forall a u e v,
    is_path a p u -> hstep u e v -> is_path a (p ++ [(e, v)]) v.
  Proof.
    induction p as [|[e0 v0] p IH]; intros a u e v Hp Hs; cbn [is_path app] in *.
    - subst. split; [exact Hs|reflexivity].
    - destruct Hp as [H1 H2]. split; [exact H1|]. apply (IH v0 u); assumption.
  Qed.

  Lemma R0_path u : R0 u -> exists a p, sel a /\ is_path a p u.
  Proof.
    induction 1 as [a Ha|u v Hu (a & p & Ha & Hp) (e & _ & Hs)].
    - exists a, []. split; [exact Ha|reflexivity].
    - exists a, (p ++ [(e, v)]). split; [exact Ha|]. apply (is_path_snoc p a Hp Hs).
  Qed.

  Lemma R1_path v : R1 v -> exists a p, sel a /\ is_path a p v /\ leaves p.
  Proof.
    induction 1 as [u v Hu (e & He & Hs)|u v Hu (a & p & Ha & Hp & (e0 & v0 & Hin & Hout)) Hs].
    - destruct (R0_path Hu) as (a & p & Ha & Hp).
      exists a, (p ++ [(e, v)]). split; [exact Ha|]. split.
      + apply (is_path_snoc p a Hp Hs).
      + exists e, v. split; [|exact He]. apply in_or_app. right. left. reflexivity.
    - apply Eall_iff in Hs. destruct Hs as (e & Hs).
      exists a, (p ++ [(e, v)]). split; [exact Ha|]. split.
      + apply (is_path_snoc p a Hp Hs).
      + exists e0, v0. split; [|exact Hout]. apply in_or_app. left. exact Hin.
  Qed.

  Lemma R1_along p : forall a b, R1 a -> is_path a p b -> R1 b.
  Proof.
    induction p as [|[e v] p IH]; intros a b Ha Hp; cbn [is_path] in Hp.
    - subst. exact Ha.
    - destruct Hp as [Hs Hp]. apply (IH v b); [|exact Hp].
      apply (R1_step Ha). apply Eall_iff. exists e. exact Hs.
  Qed.

  Lemma R0_along_leaves p : forall a b, R0 a -> is_path a p b -> leaves p -> R1 b.
  Proof.
    induction p as [|[e v] p IH]; intros a b Ha Hp Hl; cbn [is_path] in Hp.
    - destruct Hl as (e & v & [] & _).
    - destruct Hp as [Hs Hp].
      destruct (in_dec Nat.eq_dec e (table x)) as [Hi|Hi].
      + apply (IH v b); [|exact Hp|].
        * apply (R0_step Ha). exists e. split; [exact Hi|exact Hs].
        * destruct Hl as (e' & v' & [E|Hin] & Hout).
          -- inversion E; subst. contradiction.
          -- exists e', v'. split; assumption.
      + apply (@R1_along p v b); [|exact Hp].
        apply (R1_out Ha). exists e. split; [exact Hi|exact Hs].
  Qed.

  (* the two formulations of convexity agree *)
  Theorem Convex_two_layer : Convex <-> forall b, sel b -> ~ R1 b.
  Proof.
    unfold Convex. split.
    - intros H b Hb Hr. apply H. destruct (R1_path Hr) as (a & p & Ha & Hp & Hl).
      exists a, b, p. auto.
    - intros H (a & b & p & Ha & Hb & Hp & Hl). apply (H b Hb).
      apply (@R0_along_leaves p a b); auto. apply R0_sel. exact Ha.
  Qed.
End Relations.

(* ================================================================== *)
(** * Section 3: the three adjacency arrays *)
(* ================================================================== *)

Lemma decode_seg_lt c e : wf_icf c -> all_lt (target (ic_values c)) (nth e (decode_f c) []).
Proof.
  intros (_ & Hv). unfold decode_f.
  pose proof (segs_Forall (table (ic_sources c)) Hv) as HF.
  destruct (Nat.lt_ge_cases e (length (segs (table (ic_sources c)) (table (ic_values c))))) as [He|He].
  - rewrite Forall_forall in HF. apply HF. apply nth_In. exact He.
  - rewrite nth_overflow by exact He. constructor.
Qed.

Lemma wf_map_indexes_pure c y : wf_icf c -> wf_ff y -> target y = ic_len c ->
  wf_icf (map_indexes_pure c y).
Proof.
  intros Hc Hy Ht. unfold wf_icf, wf_ic, map_indexes_pure. cbn [ic_sources ic_values table target].
  split; [split|].
  - reflexivity.
  - unfold ff_source. cbn [table].
    rewrite length_concat, (map_indexes_segs_lengths Hc Hy Ht). reflexivity.
  - unfold wf_ff, all_lt. cbn [table target]. apply Forall_concat.
    unfold map_indexes_segs. apply Forall_forall. intros l Hl.
    apply in_map_iff in Hl. destruct Hl as (e & <- & _). apply (decode_seg_lt e Hc).
Qed.

Section Adjacency.
  Variables O A : Type.
  Variable B : Backend.
  Hypothesis ADJN : adj_spec_nodes B.
  Variable h : hg O A.
  Hypothesis Hh : wf_hg h.

  Notation n := (length (h_w h)).
  Notation k := (length (h_x h)).

  Lemma op_src_lt e u : In u (op_src h e) -> u < n.
  Proof.
    destruct Hh as (Hs & _ & _ & _ & Hts & _). unfold op_src. intros H.
    pose proof (decode_seg_lt e Hs) as HF. unfold all_lt in HF. rewrite Forall_forall in HF.
    rewrite <- Hts. apply HF. exact H.
  Qed.

  Lemma op_tgt_lt e v : In v (op_tgt h e) -> v < n.
  Proof.
    destruct Hh as (_ & Ht & _ & _ & _ & Htt). unfold op_tgt. intros H.
    pose proof (decode_seg_lt e Ht) as HF. unfold all_lt in HF. rewrite Forall_forall in HF.
    rewrite <- Htt. apply HF. exact H.
  Qed.

  Lemma hstep_lt u e v : hstep h u e v -> u < n /\ v < n.
  Proof. intros (_ & H1 & H2). split; [exact (op_src_lt _ _ H1)|exact (op_tgt_lt _ _ H2)]. Qed.

  (* adj is the adjacency array of the relation E on the nodes of h *)
  Definition adj_ok (adj : icf) (E : nat -> nat -> Prop) : Prop :=
    wf_icf adj /\ ic_len adj = n /\ target (ic_values adj) = n /\
    forall u v, u < n -> v < n -> (In v (succs adj u) <-> E u v).

  (* adjacency through the hyperedges listed in y (the incidence is RE-INDEXED along y first) *)
  Lemma adj_restricted (y : ff) : wf_ff y -> target y = k ->
    exists adj,
      node_adjacency_from_incidence B (map_indexes_pure (h_s h) y) (map_indexes_pure (h_t h) y) = Ok adj /\
      adj_ok adj (fun u v => exists e, In e (table y) /\ hstep h u e v).
  Proof.
    intros Hy Hty. destruct Hh as (Hs & Ht & Hls & Hlt & Hts & Htt).
    assert (Hys : target y = ic_len (h_s h)) by lia.
    assert (Hyt : target y = ic_len (h_t h)) by lia.
    destruct (@ADJN (map_indexes_pure (h_s h) y) (map_indexes_pure (h_t h) y) (length (h_w h))
                (wf_map_indexes_pure Hs Hy Hys) (wf_map_indexes_pure Ht Hy Hyt))
      as (adj & E & Hwf & Hlen & Htg & Hiff).
    - unfold map_indexes_pure, ic_len, ff_source, map_indexes_sizes. cbn [ic_sources table].
      rewrite !map_length. reflexivity.
    - exact Hts.
    - exact Htt.
    - exists adj. split; [exact E|]. split; [exact Hwf|]. split; [exact Hlen|]. split; [exact Htg|].
      intros u v Hu Hv. rewrite (Hiff u v Hu Hv).
      rewrite (decode_map_indexes Hs Hy Hys), (decode_map_indexes Ht Hy Hyt).
      assert (Hl : ic_len (map_indexes_pure (h_s h) y) = length (table y)).
      { unfold map_indexes_pure, ic_len, ff_source, map_indexes_sizes. cbn [ic_sources table].
        apply map_length. }
      rewrite Hl. unfold map_indexes_segs. split.
      + intros (j & Hj & H1 & H2).
        rewrite (nth_map_lt (fun e0 => nth e0 (decode_f (h_s h)) []) (table y) [] 0) in H1 by exact Hj.
        rewrite (nth_map_lt (fun e0 => nth e0 (decode_f (h_t h)) []) (table y) [] 0) in H2 by exact Hj.
        exists (nth j (table y) 0). split; [apply nth_In; exact Hj|].
        split; [|split; assumption].
        unfold wf_ff, all_lt in Hy. rewrite Forall_forall in Hy. rewrite <- Hty. apply Hy.
        apply nth_In. exact Hj.
      + intros (e & He & _ & H1 & H2).
        destruct (In_nth (table y) e 0 He) as (j & Hj & Ej).
        exists j. split; [exact Hj|].
        rewrite (nth_map_lt (fun e0 => nth e0 (decode_f (h_s h)) []) (table y) [] 0) by exact Hj.
        rewrite (nth_map_lt (fun e0 => nth e0 (decode_f (h_t h)) []) (table y) [] 0) by exact Hj.
        rewrite Ej. split; assumption.
  Qed.

  Lemma adj_all_ok : exists adj, node_adjacency B h = Ok adj /\ adj_ok adj (Eall h).
  Proof.
    destruct Hh as (Hs & Ht & Hls & Hlt & Hts & Htt).
    destruct (@ADJN (h_s h) (h_t h) (length (h_w h)) Hs Ht)
      as (adj & E & Hwf & Hlen & Htg & Hiff); [lia|exact Hts|exact Htt|].
    exists adj. split; [exact E|]. split; [exact Hwf|]. split; [exact Hlen|]. split; [exact Htg|].
    intros u v Hu Hv. rewrite (Hiff u v Hu Hv). unfold Eall, nedge, op_src, op_tgt.
    rewrite Hls. reflexivity.
  Qed.
End Adjacency.

(* ================================================================== *)
(** * Section 4: the breadth-first loop *)
(* ================================================================== *)

Section Loop.
  Variables O A : Type.
  Variable B : Backend.
  Hypothesis OK : BackendOK B.
  Variable h : hg O A.
  Hypothesis Hh : wf_hg h.
  Variables w x : ff.
  Variables adj_in adj_out adj_all : icf.
  Hypothesis Hin : adj_ok h adj_in (Ein h x).
  Hypothesis Hout : adj_ok h adj_out (Eout h x).
  Hypothesis Hall : adj_ok h adj_all (Eall h).

  Notation n := (length (h_w h)).
  Notation mk vis v := (nth v vis 0 <> 0).

  Lemma Ein_lt u v : Ein h x u v -> u < n /\ v < n.
  Proof. intros (e & _ & H). exact (hstep_lt Hh H). Qed.
  Lemma Eout_lt u v : Eout h x u v -> u < n /\ v < n.
  Proof. intros (e & _ & H). exact (hstep_lt Hh H). Qed.
  Lemma Eall_lt u v : Eall h u v -> u < n /\ v < n.
  Proof. intros H. apply Eall_iff in H. destruct H as (e & H). exact (hstep_lt Hh H). Qed.

  (* successors along an adjacency array of relation E: one E-step from the frontier *)
  Lemma succ_E adj (E : nat -> nat -> Prop) fr :
    adj_ok h adj E -> (forall u v, E u v -> u < n /\ v < n) -> all_lt n fr ->
    exists ks, successors B adj fr = Ok ks /\ all_lt n ks /\
      forall v, In v ks <-> exists u, In u fr /\ E u v.
  Proof.
    intros (Hwf & Hlen & Htg & Hiff) Hlt Hfr.
    destruct (successors_ok OK Hwf Hlen Htg Hfr) as (ks & E1 & Hks & Hin').
    exists ks. split; [exact E1|]. split; [exact Hks|].
    unfold all_lt in Hks, Hfr. rewrite Forall_forall in Hks, Hfr.
    intros v. rewrite Hin'. split.
    - intros (u & Hu & Hv). exists u. split; [exact Hu|]. apply Hiff; auto.
      apply Hks. apply Hin'. exists u. auto.
    - intros (u & Hu & Hv). exists u. split; [exact Hu|]. destruct (Hlt u v Hv) as [H1 H2].
      apply Hiff; auto.
  Qed.

  Record Inv (st : cstate) : Prop := {
    inv_len0 : length (c_v0 st) = n;
    inv_len1 : length (c_v1 st) = n;
    inv_f0_lt : all_lt n (c_f0 st);
    inv_f1_lt : all_lt n (c_f1 st);
    (* soundness of the marks *)
    inv_s0 : forall v, mk (c_v0 st) v -> R0 h w x v;
    inv_s1 : forall v, mk (c_v1 st) v -> R1 h w x v;
    (* frontiers are marked, selected nodes are marked *)
    inv_f0 : forall u, In u (c_f0 st) -> mk (c_v0 st) u;
    inv_f1 : forall u, In u (c_f1 st) -> mk (c_v1 st) u;
    inv_sel : forall a, sel w a -> mk (c_v0 st) a;
    (* every edge out of a marked node that is no longer in the frontier has been processed *)
    inv_c0 : forall u v, mk (c_v0 st) u -> ~ In u (c_f0 st) -> Ein h x u v -> mk (c_v0 st) v;
    inv_c01 : forall u v, mk (c_v0 st) u -> ~ In u (c_f0 st) -> Eout h x u v -> mk (c_v1 st) v;
    inv_c1 : forall u v, mk (c_v1 st) u -> ~ In u (c_f1 st) -> Eall h u v -> mk (c_v1 st) v;
  }.

  (* the marks are closed under the three kinds of steps *)
  Definition Closed (st : cstate) : Prop :=
    (forall u v, mk (c_v0 st) u -> Ein h x u v -> mk (c_v0 st) v) /\
    (forall u v, mk (c_v0 st) u -> Eout h x u v -> mk (c_v1 st) v) /\
    (forall u v, mk (c_v1 st) u -> Eall h u v -> mk (c_v1 st) v).

  (* termination measure: number of unmarked nodes in both layers *)
  Definition count0 (vis : list nat) : nat := length (List.filter (unv vis) (seq 0 n)).
  Definition zeros (st : cstate) : nat := count0 (c_v0 st) + count0 (c_v1 st).

  Lemma count0_le vis : count0 vis <= n.
  Proof.
    unfold count0. pose proof (filter_length_bound (unv vis) (seq 0 n)) as H.
    rewrite seq_length in H. exact H.
  Qed.

  Lemma unv_sac_mono vis nx y : length vis = n -> all_lt n nx ->
    unv (sac_pure vis nx 1) y = true -> unv vis y = true.
  Proof.
    intros Hl Hnx H. destruct (unv vis y) eqn:E; [reflexivity|].
    apply unv_false in E. apply unv_true in H. exfalso.
    apply (proj2 (@marked_sac vis nx y ltac:(rewrite Hl; exact Hnx))); [right; exact E|exact H].
  Qed.

  Lemma count0_sac_le vis nx : length vis = n -> all_lt n nx ->
    count0 (sac_pure vis nx 1) <= count0 vis.
  Proof.
    intros Hl Hnx. unfold count0. apply filter_length_le.
    intros y _. apply unv_sac_mono; assumption.
  Qed.

  Lemma count0_sac_lt vis nx z : length vis = n -> all_lt n nx -> In z nx -> unv vis z = true ->
    count0 (sac_pure vis nx 1) < count0 vis.
  Proof.
    intros Hl Hnx Hz Hu. unfold count0. apply filter_length_lt with (z := z).
    - intros y _. apply unv_sac_mono; assumption.
    - apply in_seq. unfold all_lt in Hnx. rewrite Forall_forall in Hnx. specialize (Hnx z Hz). lia.
    - apply unv_false. apply marked_sac; [rewrite Hl; exact Hnx|left; exact Hz].
    - exact Hu.
  Qed.

  (* the loop body after the loop condition *)
  Definition step_body (st : cstate) : res (option cstate) :=
    n0 <- successors B adj_in (c_f0 st) ;;
    n10 <- successors B adj_out (c_f0 st) ;;
    n11 <- successors B adj_all (c_f1 st) ;;
    next0 <- filter_unvisited (c_v0 st) n0 ;;
    next1 <- (match n10 ++ n11 with
              | [] => Ok []
              | merged => filter_unvisited (c_v1 st) (fst (b_sparse_bincount B merged))
              end) ;;
    match next0, next1 with
    | [], [] => Ok None
    | _, _ =>
        v0 <- scatter_assign_constant (c_v0 st) next0 1 ;;
        v1 <- scatter_assign_constant (c_v1 st) next1 1 ;;
        Ok (Some (mkC v0 v1 next0 next1))
    end.

  Lemma convex_step_eq st :
    convex_step B adj_in adj_out adj_all st =
    if both_nil (c_f0 st) (c_f1 st) then Ok None else step_body st.
  Proof. unfold convex_step, step_body. destruct (c_f0 st), (c_f1 st); reflexivity. Qed.

  Lemma step_body_ok st : Inv st ->
    (step_body st = Ok None /\ Closed st) \/
    (exists st', step_body st = Ok (Some st') /\ Inv st' /\ zeros st' < zeros st).
  Proof.
    intros I. destruct st as [v0 v1 f0 f1].
    destruct I as [L0 L1 F0lt F1lt S0 S1 F0 F1 SEL C0 C01 C1].
    unfold Closed, zeros. cbn [c_v0 c_v1 c_f0 c_f1] in *.
    unfold step_body. cbn [c_v0 c_v1 c_f0 c_f1].
    destruct (succ_E Hin Ein_lt F0lt) as (n0 & E0 & N0lt & N0).
    destruct (succ_E Hout Eout_lt F0lt) as (n10 & E10 & N10lt & N10).
    destruct (succ_E Hall Eall_lt F1lt) as (n11 & E11 & N11lt & N11).
    rewrite E0. cbn [bind]. rewrite E10. cbn [bind]. rewrite E11. cbn [bind].
    rewrite filter_unvisited_ok by (rewrite L0; exact N0lt). cbn [bind].
    assert (Mlt : all_lt n (n10 ++ n11)) by (apply Forall_app; split; assumption).
    rewrite (@next1_ok B v1 (n10 ++ n11) OK) by (rewrite L1; exact Mlt). cbn [bind].
    set (U := fst (b_sparse_bincount B (n10 ++ n11))).
    set (next0 := List.filter (unv v0) n0). set (next1 := List.filter (unv v1) U).
    assert (HU : forall v, In v U <-> In v n10 \/ In v n11).
    { intros v. unfold U. rewrite (sparse_In _ _ OK). apply in_app_iff. }
    assert (Ult : all_lt n U).
    { apply Forall_forall. intros v Hv. apply HU in Hv. unfold all_lt in N10lt, N11lt.
      rewrite Forall_forall in N10lt, N11lt. destruct Hv; auto. }
    assert (X0lt : all_lt n next0).
    { apply Forall_forall. intros v Hv. apply filter_In in Hv. destruct Hv as [Hv _].
      unfold all_lt in N0lt. rewrite Forall_forall in N0lt. auto. }
    assert (X1lt : all_lt n next1).
    { apply Forall_forall. intros v Hv. apply filter_In in Hv. destruct Hv as [Hv _].
      unfold all_lt in Ult. rewrite Forall_forall in Ult. auto. }
    (* what one round does to the successors of the current frontiers *)
    assert (P0 : forall u v, In u f0 -> Ein h x u v -> mk v0 v \/ In v next0).
    { intros u v Hu He. assert (Hv : In v n0) by (apply N0; exists u; auto).
      destruct (unv v0 v) eqn:Eu.
      - right. apply filter_In. auto.
      - left. apply unv_false. exact Eu. }
    assert (P01 : forall u v, In u f0 -> Eout h x u v -> mk v1 v \/ In v next1).
    { intros u v Hu He. assert (Hv : In v U) by (apply HU; left; apply N10; exists u; auto).
      destruct (unv v1 v) eqn:Eu.
      - right. apply filter_In. auto.
      - left. apply unv_false. exact Eu. }
    assert (P1 : forall u v, In u f1 -> Eall h u v -> mk v1 v \/ In v next1).
    { intros u v Hu He. assert (Hv : In v U) by (apply HU; right; apply N11; exists u; auto).
      destruct (unv v1 v) eqn:Eu.
      - right. apply filter_In. auto.
      - left. apply unv_false. exact Eu. }
    rewrite match_both_nil. destruct (both_nil next0 next1) eqn:EB.
    - (* break: nothing new *)
      left. split; [reflexivity|]. apply both_nil_true in EB. destruct EB as [EB0 EB1].
      split; [|split]; intros u v Hu He.
      + destruct (in_dec Nat.eq_dec u f0) as [Hf|Hf]; [|exact (C0 u v Hu Hf He)].
        destruct (P0 u v Hf He) as [H|H]; [exact H|]. rewrite EB0 in H. destruct H.
      + destruct (in_dec Nat.eq_dec u f0) as [Hf|Hf]; [|exact (C01 u v Hu Hf He)].
        destruct (P01 u v Hf He) as [H|H]; [exact H|]. rewrite EB1 in H. destruct H.
      + destruct (in_dec Nat.eq_dec u f1) as [Hf|Hf]; [|exact (C1 u v Hu Hf He)].
        destruct (P1 u v Hf He) as [H|H]; [exact H|]. rewrite EB1 in H. destruct H.
    - (* mark and advance *)
      right.
      assert (X0lt' : Forall (fun i => i < length v0) next0) by (rewrite L0; exact X0lt).
      assert (X1lt' : Forall (fun i => i < length v1) next1) by (rewrite L1; exact X1lt).
      rewrite scatter_assign_constant_ok by exact X0lt'. cbn [bind].
      rewrite scatter_assign_constant_ok by exact X1lt'. cbn [bind].
      eexists. split; [reflexivity|]. cbn [c_v0 c_v1 c_f0 c_f1].
      pose proof (fun v => @marked_sac v0 next0 v X0lt') as M0.
      pose proof (fun v => @marked_sac v1 next1 v X1lt') as M1.
      split.
      + constructor; cbn [c_v0 c_v1 c_f0 c_f1].
        * rewrite sac_pure_length. exact L0.
        * rewrite sac_pure_length. exact L1.
        * exact X0lt.
        * exact X1lt.
        * intros v Hv. apply M0 in Hv. destruct Hv as [Hv|Hv]; [|exact (S0 v Hv)].
          apply filter_In in Hv. destruct Hv as [Hv _]. apply N0 in Hv.
          destruct Hv as (u & Hu & He). exact (R0_step (S0 u (F0 u Hu)) He).
        * intros v Hv. apply M1 in Hv. destruct Hv as [Hv|Hv]; [|exact (S1 v Hv)].
          apply filter_In in Hv. destruct Hv as [Hv _]. apply HU in Hv. destruct Hv as [Hv|Hv].
          -- apply N10 in Hv. destruct Hv as (u & Hu & He). exact (R1_out (S0 u (F0 u Hu)) He).
          -- apply N11 in Hv. destruct Hv as (u & Hu & He). exact (R1_step (S1 u (F1 u Hu)) He).
        * intros u Hu. apply M0. left. exact Hu.
        * intros u Hu. apply M1. left. exact Hu.
        * intros a Ha. apply M0. right. exact (SEL a Ha).
        * intros u v Hu Hn He. apply M0 in Hu. destruct Hu as [Hu|Hu]; [contradiction|].
          apply M0. destruct (in_dec Nat.eq_dec u f0) as [Hf|Hf].
          -- destruct (P0 u v Hf He) as [H|H]; [right; exact H|left; exact H].
          -- right. exact (C0 u v Hu Hf He).
        * intros u v Hu Hn He. apply M0 in Hu. destruct Hu as [Hu|Hu]; [contradiction|].
          apply M1. destruct (in_dec Nat.eq_dec u f0) as [Hf|Hf].
          -- destruct (P01 u v Hf He) as [H|H]; [right; exact H|left; exact H].
          -- right. exact (C01 u v Hu Hf He).
        * intros u v Hu Hn He. apply M1 in Hu. destruct Hu as [Hu|Hu]; [contradiction|].
          apply M1. destruct (in_dec Nat.eq_dec u f1) as [Hf|Hf].
          -- destruct (P1 u v Hf He) as [H|H]; [right; exact H|left; exact H].
          -- right. exact (C1 u v Hu Hf He).
      + pose proof (@count0_sac_le v0 next0 L0 X0lt) as Z0.
        pose proof (@count0_sac_le v1 next1 L1 X1lt) as Z1.
        apply both_nil_false in EB. destruct EB as [(z & Hz)|(z & Hz)].
        * assert (Hu : unv v0 z = true) by (apply filter_In in Hz; apply Hz).
          pose proof (@count0_sac_lt v0 next0 z L0 X0lt Hz Hu). lia.
        * assert (Hu : unv v1 z = true) by (apply filter_In in Hz; apply Hz).
          pose proof (@count0_sac_lt v1 next1 z L1 X1lt Hz Hu). lia.
  Qed.

  Lemma convex_step_ok st : Inv st ->
    (convex_step B adj_in adj_out adj_all st = Ok None /\ Closed st) \/
    (exists st', convex_step B adj_in adj_out adj_all st = Ok (Some st') /\ Inv st' /\
                 zeros st' < zeros st).
  Proof.
    intros I. rewrite convex_step_eq. destruct (both_nil (c_f0 st) (c_f1 st)) eqn:EB.
    - (* loop condition false: both frontiers exhausted *)
      left. split; [reflexivity|]. apply both_nil_true in EB. destruct EB as [E0 E1].
      split; [|split]; intros u v Hu He.
      + apply (@inv_c0 _ I u v Hu); [rewrite E0; intros []|exact He].
      + apply (@inv_c01 _ I u v Hu); [rewrite E0; intros []|exact He].
      + apply (@inv_c1 _ I u v Hu); [rewrite E1; intros []|exact He].
    - apply step_body_ok. exact I.
  Qed.

  (* the loop neither panics nor runs out of fuel, and exits in a closed state *)
  Lemma convex_loop_ok fuel : forall st, Inv st -> zeros st < fuel ->
    exists st', convex_loop B adj_in adj_out adj_all fuel st = Ok st' /\ Inv st' /\ Closed st'.
  Proof.
    induction fuel as [|fuel IH]; intros st I Hz. lia.
    cbn [convex_loop].
    destruct (convex_step_ok I) as [[E C]|(st' & E & I' & Hz')]; rewrite E; cbn [bind].
    - exists st. auto.
    - apply IH; [exact I'|lia].
  Qed.

  (* at exit the marks are exactly the two reachability layers *)
  Lemma exit_R0 st : Inv st -> Closed st -> forall v, mk (c_v0 st) v <-> R0 h w x v.
  Proof.
    intros I (K0 & _ & _) v. split; [apply (inv_s0 I)|].
    induction 1 as [a Ha|u v' Hu IHu He].
    - exact (@inv_sel _ I a Ha).
    - exact (K0 u v' IHu He).
  Qed.

  Lemma exit_R1 st : Inv st -> Closed st -> forall v, mk (c_v1 st) v <-> R1 h w x v.
  Proof.
    intros I C v. split; [apply (inv_s1 I)|].
    pose proof (exit_R0 I C) as H0. destruct C as (_ & K01 & K1).
    induction 1 as [u v' Hu He|u v' Hu IHu He].
    - apply (K01 u v'); [apply H0; exact Hu|exact He].
    - exact (K1 u v' IHu He).
  Qed.

  (* the initial state *)
  Hypothesis Hw : wf_ff w.
  Hypothesis Htw : target w = n.

  Definition st0 : cstate := mkC (sac_pure (fill 0 n) (table w) 1) (fill 0 n) (table w) [].

  Lemma w_lt : Forall (fun i => i < length (fill 0 n)) (table w).
  Proof. unfold fill. rewrite repeat_length. unfold wf_ff, all_lt in Hw. rewrite Htw in Hw. exact Hw. Qed.

  Lemma st0_marked v : mk (c_v0 st0) v <-> sel w v.
  Proof.
    unfold st0. cbn [c_v0]. rewrite (@marked_sac _ _ v w_lt). rewrite nth_fill0. unfold sel.
    split; [intros [H|H]; [exact H|contradiction]|intros H; left; exact H].
  Qed.

  Lemma Inv_st0 : Inv st0.
  Proof.
    constructor.
    - unfold st0. cbn [c_v0]. rewrite sac_pure_length. apply repeat_length.
    - apply repeat_length.
    - unfold st0. cbn [c_f0]. unfold wf_ff in Hw. rewrite Htw in Hw. exact Hw.
    - constructor.
    - intros v Hv. apply st0_marked in Hv. apply R0_sel. exact Hv.
    - intros v Hv. unfold st0 in Hv. cbn [c_v1] in Hv. rewrite nth_fill0 in Hv. contradiction.
    - intros u Hu. apply st0_marked. exact Hu.
    - intros u [].
    - intros a Ha. apply st0_marked. exact Ha.
    - intros u v Hu Hn _. apply st0_marked in Hu. contradiction.
    - intros u v Hu Hn _. apply st0_marked in Hu. contradiction.
    - intros u v Hu. unfold st0 in Hu. cbn [c_v1] in Hu. rewrite nth_fill0 in Hu. contradiction.
  Qed.

  Lemma zeros_st0 : zeros st0 < 2 * n + 2.
  Proof.
    unfold zeros. pose proof (count0_le (c_v0 st0)). pose proof (count0_le (c_v1 st0)). lia.
  Qed.

  (* loop + final test *)
  Lemma convex_tail :
    exists b,
      (st <- convex_loop B adj_in adj_out adj_all (2 * n + 2) st0 ;;
       wr <- get_range (table w) RFull ;;
       reached <- gather (c_v1 st) wr ;;
       Ok (negb (match amax reached with Some mx => 1 <=? mx | None => false end))) = Ok b /\
      (b = true <-> Convex h w x).
  Proof.
    destruct (convex_loop_ok Inv_st0 zeros_st0) as (st & E & I & C).
    rewrite E. cbn [bind]. rewrite get_range_full. cbn [bind].
    rewrite (gather_ok (c_v1 st) 0).
    2:{ rewrite (inv_len1 I). unfold wf_ff in Hw. rewrite Htw in Hw. exact Hw. }
    cbn [bind]. eexists. split; [reflexivity|].
    rewrite Convex_two_layer, negb_true_iff, <- not_true_iff_false, amax_ge1.
    split.
    - intros H b Hb Hr. apply H. exists (nth b (c_v1 st) 0). split.
      + apply in_map_iff. exists b. split; [reflexivity|exact Hb].
      + apply (exit_R1 I C) in Hr. lia.
    - intros H (y & Hy & Hy1). apply in_map_iff in Hy. destruct Hy as (b & <- & Hb).
      apply (H b Hb). apply (exit_R1 I C). lia.
  Qed.
End Loop.

(* ================================================================== *)
(** * Section 5: the theorems *)
(* ================================================================== *)

Section C18c.
  Variables O A : Type.
  Variable B : Backend.
  Hypothesis OK : BackendOK B.
  Hypothesis ADJN : adj_spec_nodes B.

  (* a morphism that is not mono is never a convex subgraph *)
  Theorem C18_convex_nonmono (m : hg_arrow O A) :
    arrow_is_monomorphism m = Ok false -> arrow_is_convex_subgraph B m = Ok false.
  Proof. intros H. unfold arrow_is_convex_subgraph. rewrite H. reflexivity. Qed.

  Variables g h : hg O A.
  Variables w x : ff.
  Hypothesis Hh : wf_hg h.
  Hypothesis Hw : wf_ff w.
  Hypothesis Htw : target w = length (h_w h).
  Hypothesis Hx : wf_ff x.
  Hypothesis Htx : target x = length (h_x h).

  Notation n := (length (h_w h)).
  Notation k := (length (h_x h)).

  (* the hyperedges outside the image, as computed from the 0/1 mask *)
  Definition outside_list : list nat := azero (sac_pure (fill 0 k) (table x) 1).

  Lemma x_lt : Forall (fun i => i < length (fill 0 k)) (table x).
  Proof. unfold fill. rewrite repeat_length. unfold wf_ff, all_lt in Hx. rewrite Htx in Hx. exact Hx. Qed.

  Lemma outside_spec e : In e outside_list <-> e < k /\ ~ inside x e.
  Proof.
    unfold outside_list, inside. rewrite azero_spec, sac_pure_length.
    unfold fill at 1. rewrite repeat_length.
    split; intros [He H]; (split; [exact He|]).
    - rewrite nth_sac_pure in H by exact x_lt.
      destruct (existsb (Nat.eqb e) (table x)) eqn:E; [discriminate|].
      apply existsb_eqb_notIn. exact E.
    - rewrite nth_sac_pure by exact x_lt. apply existsb_eqb_notIn in H. rewrite H.
      apply nth_fill_lt. exact He.
  Qed.

  Lemma outside_wf : wf_ff (mkFF outside_list k).
  Proof.
    unfold wf_ff, all_lt. cbn [table target]. apply Forall_forall. intros e He.
    apply outside_spec in He. apply He.
  Qed.

  Theorem C18_convex_mono : NoDup (table w) -> NoDup (table x) ->
    exists b, arrow_is_convex_subgraph B (mkArrow g h w x) = Ok b /\ (b = true <-> Convex h w x).
  Proof.
    intros NDw NDx. unfold arrow_is_convex_subgraph.
    destruct (@C18_mono O A (mkArrow g h w x) Hw Hx) as (bm & Em & Hbm).
    assert (bm = true) by (apply Hbm; split; assumption). subst bm.
    rewrite Em. cbn [bind negb ar_target ar_w ar_x].
    rewrite scatter_assign_constant_ok by exact x_lt. cbn [bind]. fold outside_list.
    rewrite C18Lemmas.ff_new_ok by exact outside_wf. cbn [unwrap bind].
    destruct Hh as (Hs & Ht & Hls & Hlt & Hts & Htt).
    rewrite (ic_map_indexes_ok Hs Hx) by lia. cbn [unwrap bind].
    rewrite (ic_map_indexes_ok Ht Hx) by lia. cbn [unwrap bind].
    destruct (adj_restricted ADJN Hh Hx Htx) as (adj_in & Ein_eq & Hin).
    rewrite Ein_eq. cbn [bind].
    rewrite (ic_map_indexes_ok Hs outside_wf) by (cbn [target]; lia). cbn [unwrap bind].
    rewrite (ic_map_indexes_ok Ht outside_wf) by (cbn [target]; lia). cbn [unwrap bind].
    destruct (adj_restricted ADJN Hh outside_wf eq_refl) as (adj_out & Eout_eq & Hout).
    rewrite Eout_eq. cbn [bind].
    destruct (adj_all_ok ADJN Hh) as (adj_all & Eall_eq & Hall).
    rewrite Eall_eq. cbn [bind].
    rewrite scatter_assign_constant_ok by exact (@w_lt _ _ h w Hw Htw). cbn [bind].
    assert (Hin' : adj_ok h adj_in (Ein h x)).
    { destruct Hin as (H1 & H2 & H3 & H4). split; [exact H1|]. split; [exact H2|]. split; [exact H3|].
      intros u v Hu Hv. rewrite (H4 u v Hu Hv). unfold Ein, inside. reflexivity. }
    assert (Hout' : adj_ok h adj_out (Eout h x)).
    { destruct Hout as (H1 & H2 & H3 & H4). split; [exact H1|]. split; [exact H2|]. split; [exact H3|].
      intros u v Hu Hv. rewrite (H4 u v Hu Hv). cbn [table]. unfold Eout. split.
      - intros (e & He & Hst). apply outside_spec in He. exists e. split; [apply He|exact Hst].
      - intros (e & He & Hst). exists e. split; [|exact Hst]. apply outside_spec.
        split; [apply Hst|exact He]. }
    exact (convex_tail OK Hh Hin' Hout' Hall Hw Htw).
  Qed.
End C18c.

(* convexity of an arrow: [Convex] of its target, node map and hyperedge map *)
Definition Convex_arrow {O A} (m : hg_arrow O A) : Prop := Convex (ar_target m) (ar_w m) (ar_x m).

Section C18cMain.
  Variables O A : Type.
  Variable B : Backend.
  Hypothesis OK : BackendOK B.
  Hypothesis ADJN : adj_spec_nodes B.
  Variables g h : hg O A.
  Variables w x : ff.

  (* exactness on monomorphisms; in particular no Panic and no Fuel *)
  Theorem C18_convex :
    wf_hg h -> wf_ff w -> target w = length (h_w h) -> wf_ff x -> target x = length (h_x h) ->
    NoDup (table w) -> NoDup (table x) ->
    exists b, arrow_is_convex_subgraph B (mkArrow g h w x) = Ok b /\
              (b = true <-> Convex_arrow (mkArrow g h w x)).
  Proof.
    intros Hh Hw Htw Hx Htx NDw NDx.
    exact (C18_convex_mono OK ADJN g Hh Hw Htw Hx Htx NDw NDx).
  Qed.

  (* the clause of C18 in one statement: the test is true iff the morphism is a monomorphism and
     no directed path between two nodes of the image passes through a hyperedge outside the image *)
  Theorem C18_convex_iff :
    wf_hg h -> wf_ff w -> target w = length (h_w h) -> wf_ff x -> target x = length (h_x h) ->
    exists b, arrow_is_convex_subgraph B (mkArrow g h w x) = Ok b /\
              (b = true <->
               (NoDup (table w) /\ NoDup (table x)) /\ Convex_arrow (mkArrow g h w x)).
  Proof.
    intros Hh Hw Htw Hx Htx.
    destruct (@C18_mono O A (mkArrow g h w x) Hw Hx) as (bm & Em & Hbm).
    cbn [ar_w ar_x] in Hbm. destruct bm.
    - destruct (proj1 Hbm eq_refl) as [NDw NDx].
      destruct (C18_convex Hh Hw Htw Hx Htx NDw NDx) as (b & E & Hb).
      exists b. split; [exact E|]. rewrite Hb. tauto.
    - exists false. split; [exact (C18_convex_nonmono B _ Em)|].
      split; [discriminate|]. intros [H _]. apply Hbm in H. discriminate.
  Qed.
End C18cMain.

Print Assumptions Convex_two_layer.
Print Assumptions C18_convex_nonmono.
Print Assumptions C18_convex.
Print Assumptions C18_convex_iff.

(* ---------- examples ---------- *)
Module C18cExamples.
  (* hypergraph with m nodes (all labelled 0) from segmented source / target lists *)
  Definition mk_hg (m : nat) (ssz svals tsz tvals : list nat) : hg nat nat :=
    mkHG (mkIC (mkFF ssz (list_sum ssz + 1)) (mkFF svals m))
         (mkIC (mkFF tsz (list_sum tsz + 1)) (mkFF tvals m))
         (repeat 0 m) (repeat 0 (length ssz)).

  Ltac wf_tac := unfold wf_hg, wf_icf, wf_ic, wf_ff, all_lt; simpl;
                 repeat split; repeat constructor; lia.

  Notation convexV m := (arrow_is_convex_subgraph VecBackend m).
  Notation convexA m := (arrow_is_convex_subgraph AdvBackend m).

  (* 1. tests/hypergraph/test_monogamous.rs, test_convex_subgraph_false_with_shortcut:
     target 0 -e0-> 1 -e1-> 2 and the shortcut 0 -e2-> 2; image = all nodes, hyperedges e0 e1 *)
  Definition sc_h : hg nat nat := mk_hg 3 [1; 1; 1] [0; 1; 0] [1; 1; 1] [1; 2; 2].
  Definition sc_g : hg nat nat := mk_hg 3 [1; 1] [0; 1] [1; 1] [1; 2].
  Definition sc_w := mkFF [0; 1; 2] 3.
  Definition sc_x := mkFF [0; 1] 3.
  Definition sc_m := mkArrow sc_g sc_h sc_w sc_x.

  Example sc_h_wf : wf_hg sc_h. Proof. wf_tac. Qed.
  Example sc_w_wf : wf_ff sc_w /\ target sc_w = length (h_w sc_h) /\ NoDup (table sc_w).
  Proof. split; [wf_tac|]. split; [reflexivity|]. repeat constructor; simpl; lia. Qed.
  Example sc_x_wf : wf_ff sc_x /\ target sc_x = length (h_x sc_h) /\ NoDup (table sc_x).
  Proof. split; [wf_tac|]. split; [reflexivity|]. repeat constructor; simpl; lia. Qed.

  Example sc_valid : arrow_validate Nat.eqb Nat.eqb sc_m = Ok (inl sc_m).
  Proof. vm_compute. reflexivity. Qed.
  Example sc_vec : convexV sc_m = Ok false. Proof. vm_compute. reflexivity. Qed.
  Example sc_adv : convexA sc_m = Ok false. Proof. vm_compute. reflexivity. Qed.
  (* ... and the specification agrees: the path 0 -e2-> 2 leaves the image *)
  Example sc_not_convex : ~ Convex_arrow sc_m.
  Proof.
    intros H. apply H. exists 0, 2, [(2, 2)]. unfold sel, leaves, inside, hstep. simpl.
    repeat split; auto; try (vm_compute; auto; fail).
    exists 2, 2. split; [left; reflexivity|]. intros [E|[E|[]]]; discriminate.
  Qed.
  (* the identity and the one-edge subgraph of the same tests are convex *)
  Example sc_identity : convexV (mkArrow sc_h sc_h sc_w (mkFF [0; 1; 2] 3)) = Ok true /\
                        convexA (mkArrow sc_h sc_h sc_w (mkFF [0; 1; 2] 3)) = Ok true.
  Proof. vm_compute. auto. Qed.
  Example sc_small :
    convexV (mkArrow (mk_hg 2 [1] [0] [1] [1]) sc_h (mkFF [0; 1] 3) (mkFF [0] 3)) = Ok true /\
    convexA (mkArrow (mk_hg 2 [1] [0] [1] [1]) sc_h (mkFF [0; 1] 3) (mkFF [0] 3)) = Ok true.
  Proof. vm_compute. auto. Qed.

  (* 2. a path that leaves and re-enters through two outside hyperedges:
     target 0 -e0-> 1 -e1-> 2, 0 -e2-> 2, node 3 untouched; image = nodes 0 2, hyperedge e2 *)
  Definition lr_h : hg nat nat := mk_hg 4 [1; 1; 1] [0; 1; 0] [1; 1; 1] [1; 2; 2].
  Definition lr_g : hg nat nat := mk_hg 2 [1] [0] [1] [1].
  Definition lr_m := mkArrow lr_g lr_h (mkFF [0; 2] 4) (mkFF [2] 3).
  Example lr_h_wf : wf_hg lr_h. Proof. wf_tac. Qed.
  Example lr_valid : arrow_validate Nat.eqb Nat.eqb lr_m = Ok (inl lr_m).
  Proof. vm_compute. reflexivity. Qed.
  Example lr_vec : convexV lr_m = Ok false. Proof. vm_compute. reflexivity. Qed.
  Example lr_adv : convexA lr_m = Ok false. Proof. vm_compute. reflexivity. Qed.
  Example lr_not_convex : ~ Convex_arrow lr_m.
  Proof.
    intros H. apply H. exists 0, 2, [(0, 1); (1, 2)]. unfold sel, leaves, inside, hstep. simpl.
    repeat split; auto; try (vm_compute; auto; fail).
    exists 0, 1. split; [left; reflexivity|]. intros [E|[]]; discriminate.
  Qed.
  (* leaving without coming back is harmless: image = nodes 0 1, hyperedge e0 *)
  Example lr_leave_only :
    convexV (mkArrow lr_g lr_h (mkFF [0; 1] 4) (mkFF [0] 3)) = Ok true /\
    convexA (mkArrow lr_g lr_h (mkFF [0; 1] 4) (mkFF [0] 3)) = Ok true.
  Proof. vm_compute. auto. Qed.

  (* 3. cycles, a parallel hyperedge and repeated incidences:
     e0 : [0;0] -> [1], e1 : [1] -> [0;0] (cycle 0 <-> 1), e2 : [1] -> [2], e3 : [2] -> [1;1],
     e4 : [0;0] -> [1] (parallel to e0), node 3 untouched *)
  Definition cy_h : hg nat nat :=
    mk_hg 4 [2; 1; 1; 1; 2] [0; 0; 1; 1; 2; 0; 0] [1; 2; 1; 2; 1] [1; 0; 0; 2; 1; 1; 1].
  Example cy_h_wf : wf_hg cy_h. Proof. wf_tac. Qed.
  (* image = the cycle {0,1} with e0 e1: the path 1 -e2-> 2 -e3-> 1 leaves and comes back *)
  Definition cy_g : hg nat nat := mk_hg 2 [2; 1] [0; 0; 1] [1; 2] [1; 0; 0].
  Definition cy_m := mkArrow cy_g cy_h (mkFF [0; 1] 4) (mkFF [0; 1] 5).
  Example cy_valid : arrow_validate Nat.eqb Nat.eqb cy_m = Ok (inl cy_m).
  Proof. vm_compute. reflexivity. Qed.
  Example cy_vec : convexV cy_m = Ok false. Proof. vm_compute. reflexivity. Qed.
  Example cy_adv : convexA cy_m = Ok false. Proof. vm_compute. reflexivity. Qed.
  (* image = all of {0,1,2} with every hyperedge: convex although cyclic *)
  Example cy_full :
    convexV (mkArrow cy_h cy_h (mkFF [0; 1; 2; 3] 4) (mkFF [0; 1; 2; 3; 4] 5)) = Ok true /\
    convexA (mkArrow cy_h cy_h (mkFF [0; 1; 2; 3] 4) (mkFF [0; 1; 2; 3; 4] 5)) = Ok true.
  Proof. vm_compute. auto. Qed.
  (* image = {0,1,2} with e0 e1 e2 e3 but not the parallel hyperedge e4: 0 -e4-> 1 is outside *)
  Example cy_parallel :
    convexV (mkArrow cy_h cy_h (mkFF [0; 1; 2] 4) (mkFF [0; 1; 2; 3] 5)) = Ok false /\
    convexA (mkArrow cy_h cy_h (mkFF [0; 1; 2] 4) (mkFF [0; 1; 2; 3] 5)) = Ok false.
  Proof. vm_compute. auto. Qed.
  (* image = the untouched node 3 and node 2, no hyperedge: node 2 lies on the cycle
     2 -e3-> 1 -e2-> 2, which is a path from the image to the image through outside hyperedges *)
  Example cy_isolated_cycle :
    convexV (mkArrow cy_h cy_h (mkFF [3; 2] 4) (mkFF [] 5)) = Ok false /\
    convexA (mkArrow cy_h cy_h (mkFF [3; 2] 4) (mkFF [] 5)) = Ok false.
  Proof. vm_compute. auto. Qed.
  (* image = the untouched node 3 alone *)
  Example cy_isolated :
    convexV (mkArrow cy_h cy_h (mkFF [3] 4) (mkFF [] 5)) = Ok true /\
    convexA (mkArrow cy_h cy_h (mkFF [3] 4) (mkFF [] 5)) = Ok true.
  Proof. vm_compute. auto. Qed.

  (* 4. the empty subgraph *)
  Definition em_m := mkArrow (@hg_empty nat nat) cy_h (mkFF [] 4) (mkFF [] 5).
  Example em_vec : convexV em_m = Ok true. Proof. vm_compute. reflexivity. Qed.
  Example em_adv : convexA em_m = Ok true. Proof. vm_compute. reflexivity. Qed.
  Example em_convex : Convex_arrow em_m.
  Proof. intros (a & _ & _ & [] & _). Qed.

  (* 5. a non-injective morphism is rejected before anything else *)
  Example nonmono :
    convexV (mkArrow (hg_discrete nat [0; 0]) cy_h (mkFF [3; 3] 4) (mkFF [] 5)) = Ok false /\
    convexA (mkArrow (hg_discrete nat [0; 0]) cy_h (mkFF [3; 3] 4) (mkFF [] 5)) = Ok false.
  Proof. vm_compute. auto. Qed.
End C18cExamples.
