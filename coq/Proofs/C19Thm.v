(* C19: Var builder and Forget, generator level.
   Model: Model/LaxFunctor.v, section Var (var_new, var_new_source/target, thread, var_operation,
          run_cmd, var_build, all_elements_equal, forget_spider, forget_map_operation,
          forget_mono_map_operation), Model/Lax.v (lhg_new_nodes, lhg_new_operation, lohg_singleton,
          lohg_spider, lhg_add_edge_source/target).
   Rust:  src/lax/var/{var,operators,forget}.rs. *)
From OHG Require Import Spec.Plain Proofs.PrimsThm Proofs.C09Thm.
From Coq Require Import List Arith Lia Bool.
Import ListNotations.

Arguments Nat.sub : simpl never.

(* ---------- generic list facts ---------- *)
Lemma nth_error_snoc {T} (l : list T) x i y :
  nth_error (l ++ [x]) i = Some y <-> nth_error l i = Some y \/ (i = length l /\ y = x).
Proof.
  destruct (Nat.lt_ge_cases i (length l)) as [Hlt|Hge].
  - rewrite nth_error_app1 by exact Hlt. split; [intros H; left; exact H|].
    intros [H|[H _]]; [exact H|lia].
  - rewrite nth_error_app2 by exact Hge. split.
    + intros H. right. destruct (i - length l) as [|j] eqn:E.
      * cbn [nth_error] in H. inversion H. split; [lia|reflexivity].
      * cbn [nth_error] in H. destruct j; discriminate.
    + intros [H|[H1 H2]].
      * apply nth_error_None in Hge. congruence.
      * subst. rewrite Nat.sub_diag. reflexivity.
Qed.

Lemma nth_error_app_some {T} (l l' : list T) i y :
  nth_error l i = Some y -> nth_error (l ++ l') i = Some y.
Proof.
  intros H. rewrite nth_error_app1; [exact H|]. apply nth_error_Some. congruence.
Qed.

Lemma nth_error_some_lt {T} (l : list T) i y : nth_error l i = Some y -> i < length l.
Proof. intros H. apply nth_error_Some. congruence. Qed.

Lemma nth_error_set_nth_eq {T} (xs : list T) i y :
  i < length xs -> nth_error (set_nth xs i y) i = Some y.
Proof.
  revert i; induction xs as [|x xs IH]; intros [|i] H; cbn [length] in H; try lia.
  - reflexivity.
  - cbn [set_nth nth_error]. apply IH. lia.
Qed.

Lemma nth_error_set_nth_neq {T} (xs : list T) i j y :
  i <> j -> nth_error (set_nth xs i y) j = nth_error xs j.
Proof.
  revert i j; induction xs as [|x xs IH]; intros [|i] [|j] H; try reflexivity; try lia.
  cbn [set_nth nth_error]. apply IH. lia.
Qed.

Lemma nth_error_ext_eq {T} (l l' : list T) :
  (forall i, nth_error l i = nth_error l' i) -> l = l'.
Proof.
  revert l'; induction l as [|x l IH]; intros [|x' l'] H.
  - reflexivity.
  - specialize (H 0). discriminate.
  - specialize (H 0). discriminate.
  - pose proof (H 0) as H0. cbn [nth_error] in H0. inversion H0; subst. f_equal.
    apply IH. intros i. exact (H (S i)).
Qed.

Lemma all_eq_repeat {T} (c : T) (l : list T) :
  (forall x, In x l -> x = c) -> l = repeat c (length l).
Proof.
  induction l as [|x l IH]; intros H; [reflexivity|].
  cbn [length repeat]. rewrite (H x) by (left; reflexivity). f_equal.
  apply IH. intros y Hy. apply H. right. exact Hy.
Qed.

(* reading a contiguous block of a list through [get] *)
Lemma mapM_get_seq {T} (l : list T) : forall p r,
  mapM (get (p ++ l ++ r)) (seq (length p) (length l)) = Ok l.
Proof.
  induction l as [|x l IH]; intros p r; [reflexivity|].
  cbn [length seq mapM].
  assert (E : get (p ++ (x :: l) ++ r) (length p) = Ok x).
  { unfold get. rewrite nth_error_app2 by lia. rewrite Nat.sub_diag. reflexivity. }
  rewrite E. cbn [bind].
  replace (p ++ (x :: l) ++ r) with ((p ++ [x]) ++ l ++ r) by (rewrite <- app_assoc; reflexivity).
  replace (S (length p)) with (length (p ++ [x])) by (rewrite app_length; cbn [length]; lia).
  rewrite IH. reflexivity.
Qed.

Lemma mapM_get_repeat0 {T} (c : T) n : mapM (get [c]) (repeat 0 n) = Ok (repeat c n).
Proof.
  induction n as [|n IH]; [reflexivity|].
  cbn [repeat mapM]. unfold get at 1. cbn [nth_error unwrap bind]. rewrite IH. reflexivity.
Qed.

(* ====================================================================================== *)
(* (a), (b): Forget                                                                       *)
(* ====================================================================================== *)
Section Forget.
  Variables O A : Type.
  Variable var_label : A.
  Variable eqO : O -> O -> bool.
  Variable eqA : A -> A -> bool.

  (* ---------- (a) all_elements_equal ---------- *)
  Theorem C19_all_equal (a b : list O) :
    (forall x y, eqO x y = true <-> x = y) ->
    (all_elements_equal eqO a b = true <->
     forall x y, In x (a ++ b) -> In y (a ++ b) -> x = y).
  Proof.
    intros eqO_spec. unfold all_elements_equal. destruct (a ++ b) as [|c rest].
    - split; [intros _ x y []|reflexivity].
    - rewrite forallb_forall. split.
      + intros H x y Hx Hy.
        assert (E : forall z, In z (c :: rest) -> z = c).
        { intros z [Hz|Hz]; [symmetry; exact Hz|]. apply eqO_spec. apply H. exact Hz. }
        rewrite (E x Hx), (E y Hy). reflexivity.
      + intros H y Hy. apply eqO_spec. apply H; [right; exact Hy|left; reflexivity].
  Qed.

  (* all incident labels equal the first one *)
  Lemma all_equal_common (s t : list O) c rest :
    (forall x y, eqO x y = true <-> x = y) ->
    all_elements_equal eqO s t = true -> s ++ t = c :: rest ->
    s = repeat c (length s) /\ t = repeat c (length t).
  Proof.
    intros eqO_spec H E.
    rewrite (C19_all_equal s t eqO_spec) in H.
    assert (Hc : In c (s ++ t)) by (rewrite E; left; reflexivity).
    split; apply all_eq_repeat; intros x Hx; apply H; try exact Hc; apply in_or_app; auto.
  Qed.

  (* ---------- lhg_new_nodes, lohg_singleton ---------- *)
  Lemma lhg_new_nodes_spec (h : lhg O A) ws :
    lhg_new_nodes h ws =
    (mkLHG (l_nodes h ++ ws) (l_edges h) (l_adj h) (l_q h), seq (length (l_nodes h)) (length ws)).
  Proof.
    revert h; induction ws as [|w ws IH]; intros h.
    - cbn [lhg_new_nodes length seq]. rewrite app_nil_r. destruct h; reflexivity.
    - cbn [lhg_new_nodes]. unfold lhg_new_node. rewrite IH.
      cbn [l_nodes l_edges l_adj l_q length seq].
      rewrite app_length, <- app_assoc. cbn [length List.app]. rewrite Nat.add_1_r. reflexivity.
  Qed.

  Lemma lohg_singleton_spec (x : A) (s t : list O) :
    lohg_singleton x s t =
    mkLOHG (seq 0 (length s)) (seq (length s) (length t))
           (mkLHG (s ++ t) [x] [(seq 0 (length s), seq (length s) (length t))] ([], [])).
  Proof.
    unfold lohg_singleton, lhg_new_operation. rewrite !lhg_new_nodes_spec.
    cbn [l_nodes l_edges l_adj l_q lhg_empty lhg_new_edge List.app length]. reflexivity.
  Qed.

  Lemma lohg_singleton_source (x : A) (s t : list O) : lohg_source (lohg_singleton x s t) = Ok s.
  Proof.
    rewrite lohg_singleton_spec. unfold lohg_source. cbn [lo_h lo_sources l_nodes].
    exact (mapM_get_seq s [] t).
  Qed.

  Lemma lohg_singleton_target (x : A) (s t : list O) : lohg_target (lohg_singleton x s t) = Ok t.
  Proof.
    rewrite lohg_singleton_spec. unfold lohg_target. cbn [lo_h lo_targets l_nodes].
    pose proof (mapM_get_seq t s []) as H. rewrite app_nil_r in H. exact H.
  Qed.

  (* ---------- forget_spider never takes its None branch ---------- *)
  Definition spider1 (label : O) (n m : nat) : lohg O A :=
    mkLOHG (repeat 0 n) (repeat 0 m) (lhg_discrete A [label]).

  Lemma forget_spider_some (label : O) (s t : list O) :
    lohg_spider A (ff_terminal (length s)) (ff_terminal (length t)) [label] =
    Some (spider1 label (length s) (length t)).
  Proof. reflexivity. Qed.

  Lemma forget_spider_spec (s t : list O) :
    forget_spider A s t =
    match s ++ t with
    | [] => lohg_empty
    | label :: _ => spider1 label (length s) (length t)
    end.
  Proof.
    unfold forget_spider. destruct (s ++ t) as [|label rest]; [reflexivity|].
    rewrite forget_spider_some. reflexivity.
  Qed.

  (* ---------- (b) the image of a generator ---------- *)
  Definition forget_image (a : A) (s t : list O) : lohg O A :=
    if eqA a var_label && all_elements_equal eqO s t then
      match s ++ t with
      | [] => lohg_empty
      | label :: _ => spider1 label (length s) (length t)
      end
    else lohg_singleton a s t.

  Theorem C19_forget_operation (a : A) (s t : list O) :
    forget_map_operation var_label eqO eqA a s t = forget_image a s t.
  Proof.
    unfold forget_map_operation, forget_image.
    destruct (eqA a var_label && all_elements_equal eqO s t); [apply forget_spider_spec|reflexivity].
  Qed.

  Hypothesis eqO_spec : forall x y, eqO x y = true <-> x = y.

  Theorem C19_forget_operation_typed (a : A) (s t : list O) :
    lohg_source (forget_map_operation var_label eqO eqA a s t) = Ok s /\
    lohg_target (forget_map_operation var_label eqO eqA a s t) = Ok t.
  Proof.
    rewrite C19_forget_operation. unfold forget_image.
    destruct (eqA a var_label && all_elements_equal eqO s t) eqn:E.
    - apply andb_true_iff in E. destruct E as [_ E].
      destruct (s ++ t) as [|c rest] eqn:Est.
      + apply app_eq_nil in Est. destruct Est as [-> ->]. split; reflexivity.
      + destruct (@all_equal_common s t c rest eqO_spec E Est) as [Hs Ht].
        unfold lohg_source, lohg_target, spider1.
        cbn [lo_h lo_sources lo_targets l_nodes lhg_discrete].
        rewrite !mapM_get_repeat0. rewrite <- Hs, <- Ht. split; reflexivity.
    - split; [apply lohg_singleton_source|apply lohg_singleton_target].
  Qed.

  (* Forget is the identity on objects *)
  Theorem C19_forget_object (o : O) :
    lf_map_object (forget_functor var_label eqO eqA) o = [o] /\
    lf_map_object (forget_mono_functor var_label eqO eqA) o = [o].
  Proof. split; reflexivity. Qed.

  Theorem C19_forget_functor_typed (a : A) (s t : list O) :
    lohg_source (lf_map_operation (forget_functor var_label eqO eqA) a s t) =
      Ok (concat (map (lf_map_object (forget_functor var_label eqO eqA)) s)) /\
    lohg_target (lf_map_operation (forget_functor var_label eqO eqA) a s t) =
      Ok (concat (map (lf_map_object (forget_functor var_label eqO eqA)) t)).
  Proof.
    assert (E : forall l : list O, concat (map (fun o => [o]) l) = l).
    { intros l. induction l as [|x l IH]; [reflexivity|]. cbn [map concat List.app]. rewrite IH. reflexivity. }
    cbn [forget_functor lf_map_operation lf_map_object]. rewrite !E.
    apply C19_forget_operation_typed.
  Qed.

  (* ---------- the monogamous variant ---------- *)
  Theorem C19_forget_mono (a : A) (s t : list O) :
    (length s = 1 /\ length t = 1 ->
     forget_mono_map_operation var_label eqO eqA a s t = forget_map_operation var_label eqO eqA a s t) /\
    (~ (length s = 1 /\ length t = 1) ->
     forget_mono_map_operation var_label eqO eqA a s t = lohg_singleton a s t).
  Proof.
    unfold forget_mono_map_operation. split.
    - intros [Hs Ht]. rewrite Hs, Ht. reflexivity.
    - intros H. destruct (length s =? 1) eqn:Es; [|reflexivity].
      destruct (length t =? 1) eqn:Et; [|reflexivity].
      apply Nat.eqb_eq in Es. apply Nat.eqb_eq in Et. exfalso. apply H. split; assumption.
  Qed.

  Theorem C19_forget_mono_typed (a : A) (s t : list O) :
    lohg_source (forget_mono_map_operation var_label eqO eqA a s t) = Ok s /\
    lohg_target (forget_mono_map_operation var_label eqO eqA a s t) = Ok t.
  Proof.
    unfold forget_mono_map_operation.
    destruct (negb (length s =? 1) || negb (length t =? 1)).
    - split; [apply lohg_singleton_source|apply lohg_singleton_target].
    - apply C19_forget_operation_typed.
  Qed.

  (* the image of a 1 -> 1 var edge with equal labels: one node, which is both input and output *)
  Corollary C19_forget_mono_wire (x : O) :
    forget_mono_map_operation var_label eqO eqA var_label [x] [x] =
    (if eqA var_label var_label then mkLOHG [0] [0] (lhg_discrete A [x])
     else lohg_singleton var_label [x] [x]).
  Proof.
    unfold forget_mono_map_operation. cbn [length Nat.eqb negb orb].
    rewrite C19_forget_operation. unfold forget_image, all_elements_equal.
    cbn [List.app forallb length]. replace (eqO x x) with true by (symmetry; apply eqO_spec; reflexivity).
    destruct (eqA var_label var_label); reflexivity.
  Qed.
End Forget.

Print Assumptions C19_all_equal.
Print Assumptions C19_forget_operation.
Print Assumptions C19_forget_operation_typed.
Print Assumptions C19_forget_functor_typed.
Print Assumptions C19_forget_mono.
Print Assumptions C19_forget_mono_typed.

(* ====================================================================================== *)
(* (c): the Var builder                                                                   *)
(* ====================================================================================== *)
Lemma Forall2_mono {X Y} (R1 R2 : X -> Y -> Prop) l1 l2 :
  (forall x y, R1 x y -> R2 x y) -> Forall2 R1 l1 l2 -> Forall2 R2 l1 l2.
Proof. intros H HF. induction HF as [|x y l1 l2 Hxy HF IH]; constructor; auto. Qed.

Lemma Forall2_len {X Y} (R : X -> Y -> Prop) l1 l2 : Forall2 R l1 l2 -> length l1 = length l2.
Proof. intros HF. induction HF as [|x y l1 l2 Hxy HF IH]; cbn [length]; congruence. Qed.

(* a block [map f l] sitting at offset [length p] is read back position by position *)
Lemma Forall2_seq_block {X Y} (f : X -> Y) (l : list X) : forall p q,
  Forall2 (fun n x => nth_error (p ++ map f l ++ q) n = Some (f x)) (seq (length p) (length l)) l.
Proof.
  induction l as [|x l IH]; intros p q; [constructor|].
  cbn [length seq map]. constructor.
  - rewrite nth_error_app2 by lia. rewrite Nat.sub_diag. reflexivity.
  - replace (p ++ (f x :: map f l) ++ q) with ((p ++ [f x]) ++ map f l ++ q)
      by (rewrite <- app_assoc; reflexivity).
    replace (S (length p)) with (length (p ++ [f x])) by (rewrite app_length; cbn [length]; lia).
    apply IH.
Qed.

Lemma Forall2_seq_app {X} (p l : list X) :
  Forall2 (fun k v => nth_error (p ++ l) k = Some v) (seq (length p) (length l)) l.
Proof.
  pose proof (Forall2_seq_block (fun x : X => x) l p []) as H.
  rewrite map_id, app_nil_r in H. exact H.
Qed.

Section Build.
  Variables O A : Type.
  Variable var_label : A.

  (* ---------- ghost vocabulary ---------- *)
  (* role of a node: (variable handle, true = fresh SOURCE of the variable's hyperedge (a definition /
     an input), false = fresh TARGET of it (a use / an output)) *)
  Definition role := (nat * bool)%type.
  (* what an op hyperedge is: label, argument handles, result handles *)
  Definition opinfo := (A * (list nat * list nat))%type.
  (* kind of a hyperedge: the var hyperedge of handle k, or an op hyperedge *)
  Definition ekind := (nat + opinfo)%type.

  Definition role_eqb (r : role) (k : nat) (b : bool) : bool := (fst r =? k) && Bool.eqb (snd r) b.

  Lemma role_eqb_spec r k b : role_eqb r k b = true <-> r = (k, b).
  Proof.
    destruct r as [k' b']. unfold role_eqb. cbn [fst snd].
    rewrite andb_true_iff, Nat.eqb_eq, eqb_true_iff.
    split; [intros [-> ->]; reflexivity|intros H; inversion H; auto].
  Qed.

  (* positions (in increasing order) of the nodes having role (k, b) *)
  Fixpoint pos_from (i : nat) (roles : list role) (k : nat) (b : bool) : list nat :=
    match roles with
    | [] => []
    | r :: rs => if role_eqb r k b then i :: pos_from (S i) rs k b else pos_from (S i) rs k b
    end.
  Definition rpos (roles : list role) (k : nat) (b : bool) : list nat := pos_from 0 roles k b.

  Lemma pos_from_app r1 : forall i r2 k b,
    pos_from i (r1 ++ r2) k b = pos_from i r1 k b ++ pos_from (i + length r1) r2 k b.
  Proof.
    induction r1 as [|r r1 IH]; intros i r2 k b.
    - cbn [List.app pos_from length]. rewrite Nat.add_0_r. reflexivity.
    - cbn [List.app pos_from length]. rewrite IH.
      replace (S i + length r1) with (i + S (length r1)) by lia.
      destruct (role_eqb r k b); reflexivity.
  Qed.

  Lemma in_pos_from roles : forall i n k b,
    In n (pos_from i roles k b) <-> i <= n /\ nth_error roles (n - i) = Some (k, b).
  Proof.
    induction roles as [|r rs IH]; intros i n k b.
    - cbn [pos_from In]. split; [intros []|]. intros [_ H]. destruct (n - i); discriminate.
    - cbn [pos_from].
      assert (Hstep : In n (pos_from (S i) rs k b) <->
                      i < n /\ nth_error (r :: rs) (n - i) = Some (k, b)).
      { rewrite IH. split; intros [H1 H2]; (split; [lia|]).
        - replace (n - i) with (S (n - S i)) by lia. exact H2.
        - replace (n - i) with (S (n - S i)) in H2 by lia. exact H2. }
      destruct (role_eqb r k b) eqn:E.
      + cbn [In]. rewrite Hstep. apply role_eqb_spec in E. split.
        * intros [Hi|[H1 H2]].
          -- subst n. split; [lia|]. rewrite Nat.sub_diag. cbn [nth_error]. rewrite E. reflexivity.
          -- split; [lia|exact H2].
        * intros [H1 H2]. destruct (Nat.eq_dec i n) as [Hi|Hne]; [left; exact Hi|].
          right. split; [lia|exact H2].
      + rewrite Hstep. split; [intros [H1 H2]; split; [lia|exact H2]|].
        intros [H1 H2]. split; [|exact H2]. destruct (Nat.eq_dec i n) as [Hi|Hne]; [|lia].
        subst n. rewrite Nat.sub_diag in H2. cbn [nth_error] in H2. inversion H2 as [Hr].
        assert (Ht : role_eqb r k b = true) by (apply role_eqb_spec; exact Hr). congruence.
  Qed.

  Lemma in_rpos roles n k b : In n (rpos roles k b) <-> nth_error roles n = Some (k, b).
  Proof.
    unfold rpos. rewrite in_pos_from, Nat.sub_0_r. split; [intros [_ H]; exact H|].
    intros H. split; [lia|exact H].
  Qed.

  Lemma pos_from_NoDup roles : forall i k b, NoDup (pos_from i roles k b).
  Proof.
    induction roles as [|r rs IH]; intros i k b; cbn [pos_from]; [constructor|].
    destruct (role_eqb r k b); [|apply IH].
    constructor; [|apply IH]. intros H. apply in_pos_from in H. lia.
  Qed.

  Lemma rpos_snoc roles k b k' b' :
    rpos (roles ++ [(k, b)]) k' b' =
    rpos roles k' b' ++ (if role_eqb (k, b) k' b' then [length roles] else []).
  Proof.
    unfold rpos. rewrite pos_from_app. cbn [pos_from Nat.add]. reflexivity.
  Qed.

  Lemma rpos_none roles k b : (forall n, nth_error roles n <> Some (k, b)) -> rpos roles k b = [].
  Proof.
    intros H. destruct (rpos roles k b) as [|n l] eqn:E; [reflexivity|].
    exfalso. apply (H n). apply in_rpos. rewrite E. left. reflexivity.
  Qed.

  (* ---------- the invariant ---------- *)
  (* h: the hypergraph under construction; vs: the handle table (handle -> (hyperedge id, label));
     roles: one role per node; ek: one kind per hyperedge *)
  Record hinv (h : lhg O A) (vs : list (var O)) (roles : list role) (ek : list ekind) : Prop :=
    mk_hinv {
      hi_q : l_q h = ([], []);
      hi_edges : length (l_edges h) = length ek;
      hi_adj : length (l_adj h) = length ek;
      hi_nodes : length (l_nodes h) = length roles;
      (* the hyperedge of handle k is of kind [inl k] *)
      hi_var : forall k e l, nth_error vs k = Some (e, l) -> nth_error ek e = Some (inl k);
      (* a hyperedge of kind [inl k] is the one of handle k, is labelled var, its sources are exactly
         the nodes of role (k, true) and its targets exactly the nodes of role (k, false), in order *)
      hi_varedge : forall e k, nth_error ek e = Some (inl k) ->
        exists l, nth_error vs k = Some (e, l) /\ nth_error (l_edges h) e = Some var_label /\
                  nth_error (l_adj h) e = Some (rpos roles k true, rpos roles k false);
      (* an op hyperedge: its i-th source is a target node (a use) of the i-th argument variable,
         its j-th target is a source node (the definition) of the j-th result variable *)
      hi_opedge : forall e op args res, nth_error ek e = Some (inr (op, (args, res))) ->
        nth_error (l_edges h) e = Some op /\
        exists S T, nth_error (l_adj h) e = Some (S, T) /\
          Forall2 (fun n a => nth_error roles n = Some (a, false)) S args /\
          Forall2 (fun n r => nth_error roles n = Some (r, true)) T res;
      (* every node belongs to a live variable and carries its label *)
      hi_node : forall n k b, nth_error roles n = Some (k, b) ->
        exists e l, nth_error vs k = Some (e, l) /\ nth_error (l_nodes h) n = Some l
    }.

  Lemma hinv_empty : hinv lhg_empty [] [] [].
  Proof.
    constructor; try reflexivity.
    - intros k e l H. destruct k; discriminate.
    - intros e k H. destruct e; discriminate.
    - intros e op args res H. destruct e; discriminate.
    - intros n k b H. destruct n; discriminate.
  Qed.

  (* ---------- var_new ---------- *)
  Definition new_h (h : lhg O A) : lhg O A :=
    mkLHG (l_nodes h) (l_edges h ++ [var_label]) (l_adj h ++ [([], [])]) (l_q h).

  Lemma var_new_spec (st : lohg O A) l :
    var_new var_label st l =
    (mkLOHG (lo_sources st) (lo_targets st) (new_h (lo_h st)), (length (l_edges (lo_h st)), l)).
  Proof. reflexivity. Qed.

  Lemma hinv_new h vs roles ek l : hinv h vs roles ek ->
    hinv (new_h h) (vs ++ [(length (l_edges h), l)]) roles (ek ++ [inl (length vs)]).
  Proof.
    intros [Hq He Ha Hn Hv Hve Hoe Hnd].
    constructor; unfold new_h; cbn [l_q l_edges l_adj l_nodes].
    - exact Hq.
    - rewrite !app_length, He. reflexivity.
    - rewrite !app_length, Ha. reflexivity.
    - exact Hn.
    - intros k e l' H. apply nth_error_snoc in H. destruct H as [H|[H1 H2]].
      + apply nth_error_app_some. eapply Hv. exact H.
      + inversion H2; subst. rewrite He. apply nth_error_snoc. right. split; reflexivity.
    - intros e k H. apply nth_error_snoc in H. destruct H as [H|[H1 H2]].
      + destruct (Hve e k H) as (l' & H1 & H2 & H3). exists l'.
        split; [|split]; apply nth_error_app_some; assumption.
      + inversion H2; subst k. subst e. exists l. split; [|split].
        * apply nth_error_snoc. right. split; [reflexivity|]. rewrite He. reflexivity.
        * rewrite <- He. apply nth_error_snoc. right. split; reflexivity.
        * rewrite <- Ha. apply nth_error_snoc. right. split; [reflexivity|].
          rewrite !rpos_none; [reflexivity| |]; intros n Hn';
            destruct (Hnd _ _ _ Hn') as (e' & l' & Hx & _); apply nth_error_some_lt in Hx; lia.
    - intros e op args res H. apply nth_error_snoc in H. destruct H as [H|[_ H]]; [|discriminate].
      destruct (Hoe e op args res H) as (H1 & S & T & H2 & H3 & H4).
      split; [apply nth_error_app_some; exact H1|].
      exists S, T. split; [apply nth_error_app_some; exact H2|]. split; assumption.
    - intros n k b H. destruct (Hnd n k b H) as (e & l' & H1 & H2).
      exists e, l'. split; [apply nth_error_app_some; exact H1|exact H2].
  Qed.

  (* ---------- new_source / new_target ---------- *)
  Definition var_port (b : bool) : lohg O A -> var O -> res (lohg O A * nat) :=
    if b then @var_new_source O A else @var_new_target O A.

  Definition port_adj (b : bool) (n : nat) (x : hyperedge) : hyperedge :=
    if b then (fst x ++ [n], snd x) else (fst x, snd x ++ [n]).

  Definition port_h (b : bool) (h : lhg O A) (e : nat) (l : O) (x : hyperedge) : lhg O A :=
    mkLHG (l_nodes h ++ [l]) (l_edges h)
          (set_nth (l_adj h) e (port_adj b (length (l_nodes h)) x)) (l_q h).

  Lemma var_port_ok b (st : lohg O A) (v : var O) x :
    nth_error (l_adj (lo_h st)) (fst v) = Some x ->
    var_port b st v =
    Ok (mkLOHG (lo_sources st) (lo_targets st) (port_h b (lo_h st) (fst v) (snd v) x),
        length (l_nodes (lo_h st))).
  Proof.
    intros H. pose proof (nth_error_some_lt _ _ _ H) as Hlt.
    destruct b; unfold var_port, var_new_source, var_new_target, lhg_add_edge_source,
      lhg_add_edge_target, lhg_new_node, upd_adj; cbn [l_adj l_nodes l_edges l_q];
      unfold get; rewrite H; cbn [unwrap bind]; rewrite assign_ok by exact Hlt;
      cbn [bind]; reflexivity.
  Qed.

  Lemma hinv_port b h vs roles ek k e l : hinv h vs roles ek -> nth_error vs k = Some (e, l) ->
    nth_error (l_adj h) e = Some (rpos roles k true, rpos roles k false) /\
    hinv (port_h b h e l (rpos roles k true, rpos roles k false)) vs (roles ++ [(k, b)]) ek.
  Proof.
    intros [Hq He Ha Hn Hv Hve Hoe Hnd] Hk.
    pose proof (Hv k e l Hk) as Hek.
    destruct (Hve e k Hek) as (l0 & _ & _ & Hadj).
    split; [exact Hadj|].
    pose proof (nth_error_some_lt _ _ _ Hadj) as Hlt.
    constructor; unfold port_h; cbn [l_q l_edges l_adj l_nodes].
    - exact Hq.
    - exact He.
    - rewrite set_nth_length. exact Ha.
    - rewrite !app_length, Hn. reflexivity.
    - exact Hv.
    - intros e' k' H. destruct (Hve e' k' H) as (l' & H1 & H2 & H3). exists l'.
      split; [exact H1|]. split; [exact H2|].
      destruct (Nat.eq_dec e e') as [Hee|Hee].
      + subst e'. assert (k' = k) by congruence. subst k'.
        rewrite nth_error_set_nth_eq by exact Hlt. f_equal.
        rewrite !rpos_snoc, Hn. unfold port_adj, role_eqb. cbn [fst snd].
        rewrite Nat.eqb_refl. destruct b; cbn [Bool.eqb andb]; rewrite app_nil_r; reflexivity.
      + rewrite nth_error_set_nth_neq by exact Hee. rewrite H3. f_equal.
        assert (Hkk : k =? k' = false).
        { apply Nat.eqb_neq. intros ->. rewrite Hk in H1. inversion H1. contradiction. }
        rewrite !rpos_snoc. unfold role_eqb. cbn [fst snd]. rewrite Hkk. cbn [andb].
        rewrite !app_nil_r. reflexivity.
    - intros e' op args res H. destruct (Hoe e' op args res H) as (H1 & S & T & H2 & H3 & H4).
      split; [exact H1|]. exists S, T.
      assert (Hee : e <> e') by (intros ->; congruence).
      rewrite nth_error_set_nth_neq by exact Hee. split; [exact H2|].
      split; [revert H3|revert H4]; apply Forall2_mono; intros n a Hna;
        apply nth_error_app_some; exact Hna.
    - intros n k' b' H. apply nth_error_snoc in H. destruct H as [H|[H1 H2]].
      + destruct (Hnd n k' b' H) as (e' & l' & H1 & H2). exists e', l'.
        split; [exact H1|apply nth_error_app_some; exact H2].
      + inversion H2; subst k' b'. exists e, l. split; [exact Hk|].
        apply nth_error_snoc. right. split; [congruence|reflexivity].
  Qed.

  Arguments hinv_port b [h vs roles ek k e l] _ _.
  Arguments hi_nodes [h vs roles ek] _.
  Arguments hi_q [h vs roles ek] _.
  Arguments hi_edges [h vs roles ek] _.
  Arguments hi_adj [h vs roles ek] _.
  Arguments hi_node [h vs roles ek] _ n k b _.

  Lemma thread_port b ks avs : forall (st : lohg O A) vs roles ek,
    hinv (lo_h st) vs roles ek -> Forall2 (fun k v => nth_error vs k = Some v) ks avs ->
    exists st', thread (var_port b) st avs = Ok (st', seq (length roles) (length ks)) /\
      hinv (lo_h st') vs (roles ++ map (fun k => (k, b)) ks) ek /\
      lo_sources st' = lo_sources st /\ lo_targets st' = lo_targets st.
  Proof.
    intros st vs roles ek Hinv HF. revert st roles Hinv.
    induction HF as [|k v ks avs Hk HF IH]; intros st roles Hinv.
    - exists st. cbn [thread length seq map]. rewrite app_nil_r. auto.
    - destruct v as [e l]. destruct (hinv_port b Hinv Hk) as [Hadj Hinv'].
      cbn [thread]. rewrite (var_port_ok b st (e, l) _ Hadj). cbn [bind fst snd].
      set (st1 := mkLOHG (lo_sources st) (lo_targets st) _).
      destruct (IH st1 _ Hinv') as (st' & Hth & Hinv'' & Hs & Ht).
      rewrite Hth. cbn [bind]. exists st'.
      rewrite (hi_nodes Hinv). split; [|split; [|split]].
      + rewrite app_length. cbn [length seq]. rewrite Nat.add_1_r. reflexivity.
      + cbn [map]. rewrite <- app_assoc in Hinv''. exact Hinv''.
      + exact Hs.
      + exact Ht.
  Qed.

  Lemma thread_sources ks avs (st : lohg O A) vs roles ek :
    hinv (lo_h st) vs roles ek -> Forall2 (fun k v => nth_error vs k = Some v) ks avs ->
    exists st', thread (@var_new_source O A) st avs = Ok (st', seq (length roles) (length ks)) /\
      hinv (lo_h st') vs (roles ++ map (fun k => (k, true)) ks) ek /\
      lo_sources st' = lo_sources st /\ lo_targets st' = lo_targets st.
  Proof. exact (@thread_port true ks avs st vs roles ek). Qed.

  Lemma thread_targets ks avs (st : lohg O A) vs roles ek :
    hinv (lo_h st) vs roles ek -> Forall2 (fun k v => nth_error vs k = Some v) ks avs ->
    exists st', thread (@var_new_target O A) st avs = Ok (st', seq (length roles) (length ks)) /\
      hinv (lo_h st') vs (roles ++ map (fun k => (k, false)) ks) ek /\
      lo_sources st' = lo_sources st /\ lo_targets st' = lo_targets st.
  Proof. exact (@thread_port false ks avs st vs roles ek). Qed.

  Arguments hinv_new [h vs roles ek] l _.
  Arguments thread_sources [ks avs st vs roles ek] _ _.
  Arguments thread_targets [ks avs st vs roles ek] _ _.

  (* ---------- a batch of fresh variables ---------- *)
  Lemma thread_new rts : forall (st : lohg O A) vs roles ek,
    hinv (lo_h st) vs roles ek ->
    exists st' rvars,
      thread (fun s t => Ok (var_new var_label s t)) st rts = Ok (st', rvars) /\
      hinv (lo_h st') (vs ++ rvars) roles (ek ++ map inl (seq (length vs) (length rts))) /\
      map snd rvars = rts /\
      lo_sources st' = lo_sources st /\ lo_targets st' = lo_targets st.
  Proof.
    induction rts as [|l rts IH]; intros st vs roles ek Hinv.
    - exists st, []. cbn [thread length seq map]. rewrite !app_nil_r. auto.
    - cbn [thread]. rewrite var_new_spec. cbn [bind].
      set (st1 := mkLOHG (lo_sources st) (lo_targets st) _).
      pose proof (hinv_new l Hinv) as Hinv'.
      destruct (IH st1 _ _ _ Hinv') as (st' & rvars & Hth & Hinv'' & Hl & Hs & Ht).
      rewrite Hth. cbn [bind]. exists st', ((length (l_edges (lo_h st)), l) :: rvars).
      split; [reflexivity|]. split; [|split; [|split]].
      + rewrite <- !app_assoc in Hinv''. cbn [List.app] in Hinv''.
        rewrite app_length in Hinv''. cbn [length] in Hinv''. rewrite Nat.add_1_r in Hinv''.
        exact Hinv''.
      + cbn [map snd]. rewrite Hl. reflexivity.
      + exact Hs.
      + exact Ht.
  Qed.

  Arguments thread_new rts [st vs roles ek] _.

  (* ---------- the op hyperedge ---------- *)
  Definition op_h (h : lhg O A) (op : A) (S T : list nat) : lhg O A :=
    mkLHG (l_nodes h) (l_edges h ++ [op]) (l_adj h ++ [(S, T)]) (l_q h).

  Lemma hinv_op h vs roles ek op args res S T : hinv h vs roles ek ->
    Forall2 (fun n a => nth_error roles n = Some (a, false)) S args ->
    Forall2 (fun n r => nth_error roles n = Some (r, true)) T res ->
    hinv (op_h h op S T) vs roles (ek ++ [inr (op, (args, res))]).
  Proof.
    intros [Hq He Ha Hn Hv Hve Hoe Hnd] HS HT.
    constructor; unfold op_h; cbn [l_q l_edges l_adj l_nodes].
    - exact Hq.
    - rewrite !app_length, He. reflexivity.
    - rewrite !app_length, Ha. reflexivity.
    - exact Hn.
    - intros k e l H. apply nth_error_app_some. eapply Hv. exact H.
    - intros e k H. apply nth_error_snoc in H. destruct H as [H|[_ H]]; [|discriminate].
      destruct (Hve e k H) as (l' & H1 & H2 & H3). exists l'.
      split; [exact H1|]. split; apply nth_error_app_some; assumption.
    - intros e op' args' res' H. apply nth_error_snoc in H. destruct H as [H|[H1 H2]].
      + destruct (Hoe e op' args' res' H) as (H1 & S' & T' & H2 & H3 & H4).
        split; [apply nth_error_app_some; exact H1|].
        exists S', T'. split; [apply nth_error_app_some; exact H2|]. split; assumption.
      + inversion H2; subst op' args' res'. subst e. split.
        * rewrite <- He. apply nth_error_snoc. right. split; reflexivity.
        * exists S, T. split; [|split; assumption].
          rewrite <- Ha. apply nth_error_snoc. right. split; reflexivity.
    - exact Hnd.
  Qed.

  Arguments hinv_op [h vs roles ek] op [args res S T] _ _ _.

  (* ---------- operators::operation ---------- *)
  Lemma var_operation_ok (st : lohg O A) vs roles ek args avs rts op :
    hinv (lo_h st) vs roles ek -> Forall2 (fun k v => nth_error vs k = Some v) args avs ->
    exists st' rvars,
      var_operation var_label st avs rts op = Ok (st', rvars) /\
      hinv (lo_h st') (vs ++ rvars)
           (roles ++ map (fun k => (k, false)) args ++
                     map (fun k => (k, true)) (seq (length vs) (length rts)))
           (ek ++ map inl (seq (length vs) (length rts)) ++
               [inr (op, (args, seq (length vs) (length rts)))]) /\
      map snd rvars = rts /\
      lo_sources st' = lo_sources st /\ lo_targets st' = lo_targets st.
  Proof.
    intros Hinv HF. unfold var_operation.
    destruct (thread_targets Hinv HF) as (st1 & Hth1 & Hinv1 & Hs1 & Ht1).
    rewrite Hth1. cbn [bind].
    destruct (thread_new rts Hinv1) as (st2 & rvars & Hth2 & Hinv2 & Hl & Hs2 & Ht2).
    rewrite Hth2. cbn [bind].
    assert (Hlen : length rvars = length rts) by (rewrite <- Hl, map_length; reflexivity).
    pose proof (Forall2_seq_app vs rvars) as HF3. rewrite Hlen in HF3.
    destruct (thread_sources Hinv2 HF3) as (st3 & Hth3 & Hinv3 & Hs3 & Ht3).
    rewrite Hth3. cbn [bind]. unfold lhg_new_edge.
    set (rs := seq (length vs) (length rts)) in *.
    set (S := seq (length roles) (length args)).
    set (T := seq (length (roles ++ map (fun k => (k, false)) args)) (length rs)).
    exists (mkLOHG (lo_sources st3) (lo_targets st3) (op_h (lo_h st3) op S T)), rvars.
    split; [reflexivity|]. cbn [lo_h lo_sources lo_targets].
    split; [|split; [exact Hl|split; congruence]].
    rewrite <- app_assoc in Hinv3. rewrite app_assoc with (l := ek).
    apply hinv_op; [exact Hinv3| |].
    - exact (Forall2_seq_block (fun k => (k, false)) args roles
               (map (fun k => (k, true)) rs)).
    - pose proof (Forall2_seq_block (fun k => (k, true)) rs
                    (roles ++ map (fun k => (k, false)) args) []) as H.
      rewrite app_nil_r, <- app_assoc in H. exact H.
  Qed.

  Arguments var_operation_ok [st vs roles ek args avs] rts op _ _.

  (* ---------- programs ---------- *)
  (* every argument handle of a CApply has been created before *)
  Fixpoint prog_ok (nv : nat) (prog : list (vcmd O A)) : Prop :=
    match prog with
    | [] => True
    | CNew _ _ :: p => prog_ok (S nv) p
    | CApply _ args rts :: p => Forall (fun h => h < nv) args /\ prog_ok (nv + length rts) p
    end.

  (* labels of the created variables, in handle order *)
  Fixpoint g_labels (prog : list (vcmd O A)) : list O :=
    match prog with
    | [] => []
    | CNew _ l :: p => l :: g_labels p
    | CApply _ _ rts :: p => rts ++ g_labels p
    end.
  Definition nvars (prog : list (vcmd O A)) : nat := length (g_labels prog).

  (* roles of the nodes created by the commands (k = number of variables created before):
     a CApply creates one use node per argument, then one definition node per result *)
  Fixpoint g_roles (k : nat) (prog : list (vcmd O A)) : list role :=
    match prog with
    | [] => []
    | CNew _ _ :: p => g_roles (S k) p
    | CApply _ args rts :: p =>
        map (fun a => (a, false)) args ++ map (fun r => (r, true)) (seq k (length rts)) ++
        g_roles (k + length rts) p
    end.

  (* kinds of the hyperedges created by the commands: CNew creates the var hyperedge of its variable,
     a CApply the var hyperedges of its results followed by the op hyperedge *)
  Fixpoint g_ek (k : nat) (prog : list (vcmd O A)) : list ekind :=
    match prog with
    | [] => []
    | CNew _ _ :: p => inl k :: g_ek (S k) p
    | CApply op args rts :: p =>
        map inl (seq k (length rts)) ++ [inr (op, (args, seq k (length rts)))] ++
        g_ek (k + length rts) p
    end.

  Lemma mapM_get_range {T} (vs : list T) ks : Forall (fun h => h < length vs) ks ->
    exists avs, mapM (get vs) ks = Ok avs /\ Forall2 (fun k v => nth_error vs k = Some v) ks avs.
  Proof.
    intros HF. induction HF as [|k ks Hk HF IH].
    - exists []. split; [reflexivity|constructor].
    - destruct IH as (avs & H1 & H2).
      destruct (nth_error vs k) as [v|] eqn:E; [|apply nth_error_None in E; lia].
      exists (v :: avs). split; [|constructor; assumption].
      cbn [mapM]. unfold get at 1. rewrite E. cbn [unwrap bind]. rewrite H1. reflexivity.
  Qed.

  Arguments mapM_get_range {T} [vs ks] _.

  Lemma foldM_run_ok prog : forall (st : lohg O A) vs roles ek,
    hinv (lo_h st) vs roles ek -> prog_ok (length vs) prog ->
    exists st' vs',
      foldM (run_cmd var_label) prog (st, vs) = Ok (st', vs') /\
      hinv (lo_h st') vs' (roles ++ g_roles (length vs) prog) (ek ++ g_ek (length vs) prog) /\
      map snd vs' = map snd vs ++ g_labels prog /\
      lo_sources st' = lo_sources st /\ lo_targets st' = lo_targets st.
  Proof.
    induction prog as [|c prog IH]; intros st vs roles ek Hinv Hok.
    - exists st, vs. cbn [foldM g_roles g_ek g_labels]. rewrite !app_nil_r. auto.
    - destruct c as [l|op args rts].
      + cbn [prog_ok] in Hok. cbn [foldM run_cmd]. rewrite var_new_spec. cbn [bind].
        pose proof (hinv_new l Hinv) as Hinv'.
        set (st1 := mkLOHG (lo_sources st) (lo_targets st) _).
        set (vs1 := vs ++ [(length (l_edges (lo_h st)), l)]) in *.
        assert (Hlen : length vs1 = S (length vs))
          by (unfold vs1; rewrite app_length; cbn [length]; lia).
        rewrite <- Hlen in Hok.
        destruct (IH st1 vs1 _ _ Hinv' Hok) as (st' & vs' & Hf & Hinv'' & Hl & Hs & Ht).
        exists st', vs'. split; [exact Hf|]. cbn [g_roles g_ek g_labels].
        rewrite Hlen in Hinv''. split; [|split; [|split]].
        * rewrite <- app_assoc in Hinv''. exact Hinv''.
        * rewrite Hl. unfold vs1. rewrite map_app, <- app_assoc. reflexivity.
        * exact Hs.
        * exact Ht.
      + cbn [prog_ok] in Hok. destruct Hok as [Hargs Hok].
        destruct (mapM_get_range Hargs) as (avs & Hm & HF).
        cbn [foldM run_cmd]. rewrite Hm. cbn [bind].
        destruct (var_operation_ok rts op Hinv HF) as (st1 & rvars & Hop & Hinv' & Hl1 & Hs1 & Ht1).
        rewrite Hop. cbn [bind].
        assert (Hlen : length (vs ++ rvars) = length vs + length rts)
          by (rewrite app_length, <- Hl1, map_length; reflexivity).
        rewrite <- Hlen in Hok.
        destruct (IH st1 (vs ++ rvars) _ _ Hinv' Hok) as (st' & vs' & Hf & Hinv'' & Hl & Hs & Ht).
        exists st', vs'. split; [exact Hf|]. cbn [g_roles g_ek g_labels].
        rewrite Hlen in Hinv''. split; [|split; [|split]].
        * rewrite <- !app_assoc in Hinv''. exact Hinv''.
        * rewrite Hl, map_app, <- app_assoc. f_equal. f_equal. exact Hl1.
        * congruence.
        * congruence.
  Qed.

  (* ---------- var::build ---------- *)
  Definition build_roles (prog : list (vcmd O A)) (ins outs : list nat) : list role :=
    g_roles 0 prog ++ map (fun k => (k, true)) ins ++ map (fun k => (k, false)) outs.

  Lemma var_build_ok prog ins outs :
    prog_ok 0 prog ->
    Forall (fun h => h < nvars prog) ins -> Forall (fun h => h < nvars prog) outs ->
    exists f vs,
      (forall leaked, var_build var_label prog ins outs leaked =
                      Ok (if leaked then None else Some f)) /\
      hinv (lo_h f) vs (build_roles prog ins outs) (g_ek 0 prog) /\
      map snd vs = g_labels prog /\
      lo_sources f = seq (length (g_roles 0 prog)) (length ins) /\
      lo_targets f = seq (length (g_roles 0 prog) + length ins) (length outs).
  Proof.
    intros Hok Hins Houts. unfold var_build.
    destruct (@foldM_run_ok prog lohg_empty [] [] [] hinv_empty Hok)
      as (st & vs & Hf & Hinv & Hl & _ & _).
    cbn [List.app length map] in Hinv, Hl. rewrite Hf.
    assert (Hlen : length vs = nvars prog) by (unfold nvars; rewrite <- Hl, map_length; reflexivity).
    rewrite <- Hlen in Hins, Houts.
    destruct (mapM_get_range Hins) as (ivs & Hmi & HFi).
    destruct (mapM_get_range Houts) as (ovs & Hmo & HFo).
    destruct (thread_sources Hinv HFi) as (st1 & Hth1 & Hinv1 & _ & _).
    set (st1' := mkLOHG (seq (length (g_roles 0 prog)) (length ins)) (lo_targets st1) (lo_h st1)).
    destruct (@thread_targets outs ovs st1' vs _ _ Hinv1 HFo) as (st2 & Hth2 & Hinv2 & Hs2 & _).
    exists (mkLOHG (lo_sources st2)
                   (seq (length (g_roles 0 prog ++ map (fun k => (k, true)) ins)) (length outs))
                   (lo_h st2)), vs.
    split; [|split; [|split; [|split]]].
    - intros leaked. cbn [bind]. rewrite Hmi, Hmo. cbn [bind]. rewrite Hth1. cbn [bind].
      fold st1'. rewrite Hth2. cbn [bind]. reflexivity.
    - cbn [lo_h]. unfold build_roles. rewrite <- app_assoc in Hinv2. exact Hinv2.
    - exact Hl.
    - cbn [lo_sources]. rewrite Hs2. reflexivity.
    - cbn [lo_targets]. rewrite app_length, map_length. reflexivity.
  Qed.

  (* ---------- what the invariant says, clause by clause ---------- *)
  Lemma Forall2_Forall_l {X Y} (R : X -> Y -> Prop) (P : X -> Prop) l1 l2 :
    (forall x y, R x y -> P x) -> Forall2 R l1 l2 -> Forall P l1.
  Proof. intros H HF. induction HF as [|x y l1 l2 Hxy HF IH]; constructor; eauto. Qed.

  Lemma Forall2_exists {X Y Z} (R : X -> Y -> Prop) (P : X -> Z -> Prop) (Q : Y -> Z -> Prop) l1 l2 :
    (forall x y, R x y -> exists z, P x z /\ Q y z) -> Forall2 R l1 l2 ->
    exists l3, Forall2 P l1 l3 /\ Forall2 Q l2 l3.
  Proof.
    intros H HF. induction HF as [|x y l1 l2 Hxy HF IH].
    - exists []. split; constructor.
    - destruct IH as (l3 & H1 & H2). destruct (H x y Hxy) as (z & Hz1 & Hz2).
      exists (z :: l3). split; constructor; assumption.
  Qed.

  (* lax well-formedness (C09Thm.hwf / lwf) *)
  Lemma hinv_hwf h vs roles ek : hinv h vs roles ek -> hwf h.
  Proof.
    intros [Hq He Ha Hn Hv Hve Hoe Hnd]. unfold hwf, hn, all_lt. rewrite Hq. cbn [fst snd].
    split; [|repeat split; constructor].
    intros e Hin. apply In_nth_error in Hin. destruct Hin as [i Hi].
    pose proof (nth_error_some_lt _ _ _ Hi) as Hlt. rewrite Ha in Hlt.
    destruct (nth_error ek i) as [[k|[op [args res]]]|] eqn:E; [| |apply nth_error_None in E; lia].
    - destruct (Hve i k E) as (l & _ & _ & H3). rewrite Hi in H3. inversion H3; subst e.
      cbn [fst snd]. split; apply Forall_forall; intros n Hin; apply in_rpos in Hin;
        apply nth_error_some_lt in Hin; lia.
    - destruct (Hoe i op args res E) as (_ & S & T & H2 & H3 & H4). rewrite Hi in H2.
      inversion H2; subst e. cbn [fst snd].
      split; [revert H3|revert H4]; apply Forall2_Forall_l; intros n a Hna;
        apply nth_error_some_lt in Hna; lia.
  Qed.

  Lemma hinv_lwf (f : lohg O A) vs roles ek : hinv (lo_h f) vs roles ek ->
    Forall (fun n => n < length roles) (lo_sources f) ->
    Forall (fun n => n < length roles) (lo_targets f) -> lwf f.
  Proof.
    intros Hinv Hs Ht. unfold lwf, nn, all_lt. rewrite (hi_nodes Hinv).
    split; [exact (hinv_hwf _ _ _ _ Hinv)|]. split; assumption.
  Qed.

  (* the hyperedge labels, in order *)
  Definition ek_label (x : ekind) : A := match x with inl _ => var_label | inr (op, _) => op end.

  Lemma hinv_edges h vs roles ek : hinv h vs roles ek -> l_edges h = map ek_label ek.
  Proof.
    intros [Hq He Ha Hn Hv Hve Hoe Hnd]. apply nth_error_ext_eq. intros i.
    destruct (nth_error ek i) as [x|] eqn:E.
    - rewrite (map_nth_error ek_label i ek E). destruct x as [k|[op [args res]]].
      + destruct (Hve i k E) as (l & _ & H2 & _). exact H2.
      + destruct (Hoe i op args res E) as (H1 & _). exact H1.
    - apply nth_error_None in E.
      transitivity (@None A); [|symmetry]; apply nth_error_None; [|rewrite map_length]; lia.
  Qed.

  (* every node lies on exactly one var hyperedge, exactly once, and carries that variable's label *)
  Lemma hinv_node h vs roles ek n : hinv h vs roles ek -> n < length (l_nodes h) ->
    exists k b e l S T,
      nth_error roles n = Some (k, b) /\ nth_error vs k = Some (e, l) /\
      nth_error (l_nodes h) n = Some l /\
      nth_error (l_edges h) e = Some var_label /\ nth_error (l_adj h) e = Some (S, T) /\
      In n (if b then S else T) /\ ~ In n (if b then T else S) /\ NoDup S /\ NoDup T /\
      (forall k' e' l' S' T', nth_error vs k' = Some (e', l') ->
         nth_error (l_adj h) e' = Some (S', T') -> In n (S' ++ T') -> k' = k).
  Proof.
    intros Hinv Hlt. pose proof Hinv as [Hq He Ha Hn Hv Hve Hoe Hnd]. rewrite Hn in Hlt.
    destruct (nth_error roles n) as [[k b]|] eqn:E; [|apply nth_error_None in E; lia].
    destruct (Hnd n k b E) as (e & l & H1 & H2).
    destruct (Hve e k (Hv k e l H1)) as (l0 & _ & H3 & H4).
    exists k, b, e, l, (rpos roles k true), (rpos roles k false).
    repeat (split; [first [reflexivity|assumption]|]).
    split; [destruct b; apply in_rpos; exact E|].
    split; [destruct b; intros Hin; apply in_rpos in Hin; congruence|].
    split; [apply pos_from_NoDup|]. split; [apply pos_from_NoDup|].
    intros k' e' l' S' T' Hk' Hadj' Hin.
    destruct (Hve e' k' (Hv k' e' l' Hk')) as (l1 & _ & _ & H5). rewrite Hadj' in H5.
    inversion H5; subst S' T'. apply in_app_or in Hin.
    destruct Hin as [Hin|Hin]; apply in_rpos in Hin; congruence.
  Qed.

  (* ---------- counting ---------- *)
  Definition cmd_nodes (c : vcmd O A) : nat :=
    match c with CNew _ _ => 0 | CApply _ args rts => length args + length rts end.
  Definition cmd_edges (c : vcmd O A) : nat :=
    match c with CNew _ _ => 1 | CApply _ _ rts => length rts + 1 end.
  Definition n_nodes (prog : list (vcmd O A)) : nat := list_sum (map cmd_nodes prog).
  Definition n_edges (prog : list (vcmd O A)) : nat := list_sum (map cmd_edges prog).

  Lemma g_roles_length prog : forall k, length (g_roles k prog) = n_nodes prog.
  Proof.
    unfold n_nodes. induction prog as [|c prog IH]; intros k; [reflexivity|].
    destruct c as [l|op args rts]; cbn [g_roles map list_sum fold_right cmd_nodes].
    - rewrite IH. reflexivity.
    - rewrite !app_length, !map_length, seq_length, IH. unfold list_sum. lia.
  Qed.

  Lemma g_ek_length prog : forall k, length (g_ek k prog) = n_edges prog.
  Proof.
    unfold n_edges. induction prog as [|c prog IH]; intros k; [reflexivity|].
    destruct c as [l|op args rts]; cbn [g_ek map list_sum fold_right cmd_edges length].
    - rewrite IH. reflexivity.
    - rewrite !app_length, !map_length, seq_length, IH. cbn [length]. unfold list_sum. lia.
  Qed.

  (* exactly one var hyperedge per created variable (in handle order), one op hyperedge per CApply *)
  Definition ek_vars (ek : list ekind) : list nat :=
    flat_map (fun x => match x with inl k => [k] | inr _ => [] end) ek.
  Definition ek_ops (ek : list ekind) : list opinfo :=
    flat_map (fun x => match x with inl _ => [] | inr o => [o] end) ek.
  Fixpoint g_ops (k : nat) (prog : list (vcmd O A)) : list opinfo :=
    match prog with
    | [] => []
    | CNew _ _ :: p => g_ops (S k) p
    | CApply op args rts :: p => (op, (args, seq k (length rts))) :: g_ops (k + length rts) p
    end.

  Lemma ek_vars_inl l : ek_vars (map inl l) = l.
  Proof.
    unfold ek_vars. induction l as [|x l IH]; [reflexivity|].
    cbn [map flat_map List.app]. rewrite IH. reflexivity.
  Qed.
  Lemma ek_ops_inl l : ek_ops (map inl l) = [].
  Proof.
    unfold ek_ops. induction l as [|x l IH]; [reflexivity|].
    cbn [map flat_map List.app]. exact IH.
  Qed.

  Lemma g_ek_vars prog : forall k, ek_vars (g_ek k prog) = seq k (nvars prog).
  Proof.
    unfold nvars. induction prog as [|c prog IH]; intros k; [reflexivity|].
    destruct c as [l|op args rts]; cbn [g_ek g_labels length seq].
    - unfold ek_vars in *. cbn [flat_map List.app]. rewrite IH. reflexivity.
    - unfold ek_vars in *. rewrite !flat_map_app. fold (ek_vars (map inl (seq k (length rts)))).
      rewrite ek_vars_inl, IH. cbn [flat_map List.app]. rewrite app_length, seq_app. reflexivity.
  Qed.

  Lemma g_ek_ops prog : forall k, ek_ops (g_ek k prog) = g_ops k prog.
  Proof.
    induction prog as [|c prog IH]; intros k; [reflexivity|].
    destruct c as [l|op args rts]; cbn [g_ek g_ops].
    - unfold ek_ops in *. cbn [flat_map List.app]. apply IH.
    - unfold ek_ops in *. rewrite !flat_map_app. fold (ek_ops (map inl (seq k (length rts)))).
      rewrite ek_ops_inl, IH. reflexivity.
  Qed.

  (* ---------- typing of interface nodes ---------- *)
  Lemma hinv_typed h vs roles ek b ns ks : hinv h vs roles ek ->
    Forall2 (fun n k => nth_error roles n = Some (k, b)) ns ks ->
    exists ls, mapM (get (l_nodes h)) ns = Ok ls /\
               Forall2 (fun k l => nth_error (map snd vs) k = Some l) ks ls.
  Proof.
    intros Hinv HF.
    destruct (Forall2_exists (fun n k => nth_error roles n = Some (k, b))
                (fun n l => get (l_nodes h) n = Ok l)
                (fun k l => nth_error (map snd vs) k = Some l) ns ks) as (ls & H1 & H2).
    - intros n k Hnk. destruct (hi_node Hinv n k b Hnk) as (e & l & Hk & Hn).
      exists l. split; [unfold get; rewrite Hn; reflexivity|].
      exact (map_nth_error snd k vs Hk).
    - exact HF.
    - exists ls. split; [apply mapM_ok_iff; exact H1|exact H2].
  Qed.

  Arguments hinv_typed [h vs roles ek b ns ks] _ _.
  Arguments hinv_edges [h vs roles ek] _.
  Arguments hinv_node [h vs roles ek n] _ _.
  Arguments hinv_lwf f [vs roles ek] _ _ _.

  (* ---------- the main theorems ---------- *)
  Definition C19_build_structure_full : Prop :=
    forall (prog : list (vcmd O A)) (ins outs : list nat),
    prog_ok 0 prog ->
    Forall (fun h => h < nvars prog) ins -> Forall (fun h => h < nvars prog) outs ->
    exists f vs,
      (* never panics; a leaked handle makes build return None *)
      var_build var_label prog ins outs false = Ok (Some f) /\
      var_build var_label prog ins outs true = Ok None /\
      (* lax well-formed, no pending unifications *)
      lwf f /\ length (l_edges (lo_h f)) = length (l_adj (lo_h f)) /\ l_q (lo_h f) = ([], []) /\
      (* hyperedges: labels in creation order; one var hyperedge per variable, one op per CApply *)
      l_edges (lo_h f) = map ek_label (g_ek 0 prog) /\
      ek_vars (g_ek 0 prog) = seq 0 (nvars prog) /\
      ek_ops (g_ek 0 prog) = g_ops 0 prog /\
      length (l_edges (lo_h f)) = n_edges prog /\
      (* nodes *)
      length (l_nodes (lo_h f)) = n_nodes prog + length ins + length outs /\
      (* handle table: one entry per variable, with its label *)
      length vs = nvars prog /\ map snd vs = g_labels prog /\
      (* the complete description of nodes and adjacency (see [hinv], [hinv_node]) *)
      hinv (lo_h f) vs (build_roles prog ins outs) (g_ek 0 prog) /\
      (* interfaces: fresh nodes, created last, one per declared input / output, in order *)
      lo_sources f = seq (n_nodes prog) (length ins) /\
      lo_targets f = seq (n_nodes prog + length ins) (length outs) /\
      Forall2 (fun n k => nth_error (build_roles prog ins outs) n = Some (k, true)) (lo_sources f) ins /\
      Forall2 (fun n k => nth_error (build_roles prog ins outs) n = Some (k, false)) (lo_targets f) outs.

  Theorem C19_build_structure : C19_build_structure_full.
  Proof.
    intros prog ins outs Hok Hins Houts.
    destruct (var_build_ok prog ins outs Hok Hins Houts) as (f & vs & Hb & Hinv & Hl & Hs & Ht).
    rewrite g_roles_length in Hs, Ht.
    assert (Hrl : length (build_roles prog ins outs) = n_nodes prog + length ins + length outs).
    { unfold build_roles. rewrite !app_length, !map_length, g_roles_length. lia. }
    assert (HFs : Forall2 (fun n k => nth_error (build_roles prog ins outs) n = Some (k, true))
                    (lo_sources f) ins).
    { rewrite Hs, <- (g_roles_length prog 0). unfold build_roles.
      apply (Forall2_seq_block (fun k : nat => (k, true))). }
    assert (HFt : Forall2 (fun n k => nth_error (build_roles prog ins outs) n = Some (k, false))
                    (lo_targets f) outs).
    { rewrite Ht. unfold build_roles. rewrite app_assoc.
      replace (n_nodes prog + length ins)
        with (length (g_roles 0 prog ++ map (fun k : nat => (k, true)) ins))
        by (rewrite app_length, map_length, g_roles_length; reflexivity).
      pose proof (Forall2_seq_block (fun k : nat => (k, false)) outs
                    (g_roles 0 prog ++ map (fun k : nat => (k, true)) ins) []) as H.
      rewrite app_nil_r in H. exact H. }
    exists f, vs.
    split; [exact (Hb false)|]. split; [exact (Hb true)|].
    split.
    { apply (hinv_lwf f Hinv); rewrite Hrl.
      - rewrite Hs. apply Forall_forall. intros n Hn. apply in_seq in Hn. lia.
      - rewrite Ht. apply Forall_forall. intros n Hn. apply in_seq in Hn. lia. }
    split; [rewrite (hi_edges Hinv), (hi_adj Hinv); reflexivity|].
    split; [exact (hi_q Hinv)|].
    split; [exact (hinv_edges Hinv)|].
    split; [apply g_ek_vars|]. split; [apply g_ek_ops|].
    split; [rewrite (hi_edges Hinv); apply g_ek_length|].
    split; [rewrite (hi_nodes Hinv); exact Hrl|].
    split; [unfold nvars; rewrite <- Hl, map_length; reflexivity|].
    split; [exact Hl|]. split; [exact Hinv|]. split; [exact Hs|]. split; [exact Ht|].
    split; [exact HFs|exact HFt].
  Qed.

  (* the built arrow is well typed: its source (target) labels are the labels of the declared input
     (output) variables; lohg_source / lohg_target never panic on it *)
  Theorem C19_build_typed (prog : list (vcmd O A)) (ins outs : list nat) :
    prog_ok 0 prog ->
    Forall (fun h => h < nvars prog) ins -> Forall (fun h => h < nvars prog) outs ->
    exists f ls lt,
      var_build var_label prog ins outs false = Ok (Some f) /\
      lohg_source f = Ok ls /\ lohg_target f = Ok lt /\
      Forall2 (fun k l => nth_error (g_labels prog) k = Some l) ins ls /\
      Forall2 (fun k l => nth_error (g_labels prog) k = Some l) outs lt.
  Proof.
    intros Hok Hins Houts.
    destruct (C19_build_structure prog ins outs Hok Hins Houts)
      as (f & vs & Hb & _ & _ & _ & _ & _ & _ & _ & _ & _ & _ & Hl & Hinv & _ & _ & HFs & HFt).
    destruct (hinv_typed Hinv HFs) as (ls & H1 & H2).
    destruct (hinv_typed Hinv HFt) as (lt & H3 & H4).
    rewrite Hl in H2, H4. exists f, ls, lt. repeat (split; [assumption|]). assumption.
  Qed.

  (* every node of the built arrow lies on exactly one var hyperedge *)
  Theorem C19_build_nodes (prog : list (vcmd O A)) (ins outs : list nat) :
    prog_ok 0 prog ->
    Forall (fun h => h < nvars prog) ins -> Forall (fun h => h < nvars prog) outs ->
    exists f vs,
      var_build var_label prog ins outs false = Ok (Some f) /\
      forall n, n < length (l_nodes (lo_h f)) ->
      exists k b e l S T,
        nth_error (build_roles prog ins outs) n = Some (k, b) /\
        nth_error vs k = Some (e, l) /\ nth_error (g_labels prog) k = Some l /\
        nth_error (l_nodes (lo_h f)) n = Some l /\
        nth_error (l_edges (lo_h f)) e = Some var_label /\
        nth_error (l_adj (lo_h f)) e = Some (S, T) /\
        In n (if b then S else T) /\ ~ In n (if b then T else S) /\ NoDup S /\ NoDup T /\
        (forall k' e' l' S' T', nth_error vs k' = Some (e', l') ->
           nth_error (l_adj (lo_h f)) e' = Some (S', T') -> In n (S' ++ T') -> k' = k).
  Proof.
    intros Hok Hins Houts.
    destruct (C19_build_structure prog ins outs Hok Hins Houts)
      as (f & vs & Hb & _ & _ & _ & _ & _ & _ & _ & _ & _ & _ & Hl & Hinv & _).
    exists f, vs. split; [exact Hb|]. intros n Hn.
    destruct (hinv_node Hinv Hn) as (k & b & e & l & S & T & H1 & H2 & H3 & H4 & H5 & H6 & H7 & H8 & H9 & H10).
    exists k, b, e, l, S, T.
    split; [exact H1|]. split; [exact H2|].
    split; [rewrite <- Hl; exact (map_nth_error snd k vs H2)|].
    repeat (split; [assumption|]). exact H10.
  Qed.

  (* wiring of the op hyperedges: the i-th source of a CApply hyperedge is a target node of the var
     hyperedge of its i-th argument, the j-th target a source node of the var hyperedge of its j-th
     result; both carry the variable's label *)
  Lemma hinv_op_wiring h vs roles ek e op args res : hinv h vs roles ek ->
    nth_error ek e = Some (inr (op, (args, res))) ->
    nth_error (l_edges h) e = Some op /\
    exists S T, nth_error (l_adj h) e = Some (S, T) /\
      length S = length args /\ length T = length res /\
      Forall2 (fun n a => exists ea la Sa Ta, nth_error vs a = Some (ea, la) /\
                 nth_error (l_adj h) ea = Some (Sa, Ta) /\ In n Ta /\
                 nth_error (l_nodes h) n = Some la) S args /\
      Forall2 (fun n r => exists er lr Sr Tr, nth_error vs r = Some (er, lr) /\
                 nth_error (l_adj h) er = Some (Sr, Tr) /\ In n Sr /\
                 nth_error (l_nodes h) n = Some lr) T res.
  Proof.
    intros [Hq He Ha Hn Hv Hve Hoe Hnd] Hek.
    destruct (Hoe e op args res Hek) as (H1 & S & T & H2 & H3 & H4).
    split; [exact H1|]. exists S, T. split; [exact H2|].
    split; [exact (Forall2_len _ _ _ H3)|]. split; [exact (Forall2_len _ _ _ H4)|].
    split; [revert H3|revert H4]; apply Forall2_mono; intros n a Hna;
      destruct (Hnd n a _ Hna) as (ea & la & Hk & Hl);
      destruct (Hve ea a (Hv a ea la Hk)) as (l0 & _ & _ & Hadj);
      exists ea, la, (rpos roles a true), (rpos roles a false);
      (split; [exact Hk|]); (split; [exact Hadj|]); (split; [apply in_rpos; exact Hna|exact Hl]).
  Qed.

  Arguments hinv_op_wiring [h vs roles ek e op args res] _ _.

  Theorem C19_build_ops (prog : list (vcmd O A)) (ins outs : list nat) :
    prog_ok 0 prog ->
    Forall (fun h => h < nvars prog) ins -> Forall (fun h => h < nvars prog) outs ->
    exists f vs,
      var_build var_label prog ins outs false = Ok (Some f) /\
      forall e op args res, nth_error (g_ek 0 prog) e = Some (inr (op, (args, res))) ->
        nth_error (l_edges (lo_h f)) e = Some op /\
        exists S T, nth_error (l_adj (lo_h f)) e = Some (S, T) /\
          length S = length args /\ length T = length res /\
          Forall2 (fun n a => exists ea la Sa Ta, nth_error vs a = Some (ea, la) /\
                     nth_error (l_adj (lo_h f)) ea = Some (Sa, Ta) /\ In n Ta /\
                     nth_error (l_nodes (lo_h f)) n = Some la) S args /\
          Forall2 (fun n r => exists er lr Sr Tr, nth_error vs r = Some (er, lr) /\
                     nth_error (l_adj (lo_h f)) er = Some (Sr, Tr) /\ In n Sr /\
                     nth_error (l_nodes (lo_h f)) n = Some lr) T res.
  Proof.
    intros Hok Hins Houts.
    destruct (C19_build_structure prog ins outs Hok Hins Houts)
      as (f & vs & Hb & _ & _ & _ & _ & _ & _ & _ & _ & _ & _ & _ & Hinv & _).
    exists f, vs. split; [exact Hb|]. intros e op args res Hek.
    exact (hinv_op_wiring Hinv Hek).
  Qed.
End Build.

Print Assumptions C19_build_structure.
Print Assumptions C19_build_typed.
Print Assumptions C19_build_nodes.
Print Assumptions C19_build_ops.

Arguments prog_ok [O A] nv prog.
Arguments g_labels [O A] prog.
Arguments nvars [O A] prog.
Arguments g_roles [O A] k prog.
Arguments g_ek [O A] k prog.
Arguments g_ops [O A] k prog.
Arguments build_roles [O A] prog ins outs.
Arguments hinv [O A] var_label h vs roles ek.
Arguments n_nodes [O A] prog.
Arguments n_edges [O A] prog.
Arguments ek_label [A] var_label x.
Arguments ek_vars [A] ek.
Arguments ek_ops [A] ek.
Arguments forget_image [O A] var_label eqO eqA a s t.
Arguments spider1 [O] A label n m.

(* ====================================================================================== *)
(* Examples (O := nat, A := nat, var label 0)                                             *)
(* ====================================================================================== *)
Section Examples.
  (* x := var(5); y := var(5); z := op7(x, y) : 6;  build with inputs [x; y] and output [z] *)
  Definition ex_prog : list (vcmd nat nat) := [CNew nat 5; CNew nat 5; CApply 7 [0; 1] [6]].

  Example ex_prog_ok : prog_ok 0 ex_prog /\
    Forall (fun h => h < nvars ex_prog) [0; 1] /\ Forall (fun h => h < nvars ex_prog) [2].
  Proof. cbn. repeat constructor. Qed.

  Example ex_build :
    var_build 0 ex_prog [0; 1] [2] false =
    Ok (Some (mkLOHG [3; 4] [5]
                (mkLHG [5; 5; 6; 5; 5; 6] [0; 0; 0; 7]
                       [([3], [0]); ([4], [1]); ([2], [5]); ([0; 1], [2])] ([], [])))).
  Proof. vm_compute. reflexivity. Qed.

  Example ex_build_leaked : var_build 0 ex_prog [0; 1] [2] true = Ok None.
  Proof. vm_compute. reflexivity. Qed.

  (* the ghost description predicted by the theorem *)
  Example ex_ghost :
    g_ek 0 ex_prog = [inl 0; inl 1; inl 2; inr (7, ([0; 1], [2]))] /\
    build_roles ex_prog [0; 1] [2] =
      [(0, false); (1, false); (2, true); (0, true); (1, true); (2, false)] /\
    g_labels ex_prog = [5; 5; 6] /\ n_nodes ex_prog = 3 /\ n_edges ex_prog = 4 /\
    rpos (build_roles ex_prog [0; 1] [2]) 2 true = [2] /\
    rpos (build_roles ex_prog [0; 1] [2]) 2 false = [5].
  Proof. vm_compute. repeat split; reflexivity. Qed.

  (* outside the hypotheses the builder does panic (out-of-range handle) *)
  Example ex_build_panic_arg : var_build 0 [CApply 7 [0] [6]] [] [] false = Panic.
  Proof. vm_compute. reflexivity. Qed.
  Example ex_build_panic_in : var_build 0 ex_prog [3] [] false = Panic.
  Proof. vm_compute. reflexivity. Qed.

  (* a variable used twice and never declared as output; an op may carry the var label itself *)
  Example ex_build_2 :
    exists f, var_build 0 [CNew nat 1; CApply 0 [0; 0] [2; 3]] [0] [1; 1; 0] false = Ok (Some f) /\
              length (l_nodes (lo_h f)) = 8 /\ l_edges (lo_h f) = [0; 0; 0; 0] /\
              lohg_source f = Ok [1] /\ lohg_target f = Ok [2; 2; 1].
  Proof. eexists. vm_compute. repeat split; reflexivity. Qed.

  (* all_elements_equal *)
  Example ex_all_equal :
    all_elements_equal Nat.eqb [5; 5] [5] = true /\ all_elements_equal Nat.eqb [5; 6] [5] = false /\
    all_elements_equal Nat.eqb [] [4] = true /\ all_elements_equal Nat.eqb [] [] = true.
  Proof. vm_compute. repeat split; reflexivity. Qed.

  (* Forget on generators *)
  Example ex_forget_uniform :
    forget_map_operation 0 Nat.eqb Nat.eqb 0 [5; 5] [5] =
    mkLOHG [0; 0] [0] (lhg_discrete nat [5]).
  Proof. vm_compute. reflexivity. Qed.

  Example ex_forget_nonuniform :
    forget_map_operation 0 Nat.eqb Nat.eqb 0 [5; 6] [5] = lohg_singleton 0 [5; 6] [5].
  Proof. vm_compute. reflexivity. Qed.

  Example ex_forget_other_label :
    forget_map_operation 0 Nat.eqb Nat.eqb 3 [5; 5] [5] = lohg_singleton 3 [5; 5] [5].
  Proof. vm_compute. reflexivity. Qed.

  Example ex_forget_nullary : forget_map_operation 0 Nat.eqb Nat.eqb 0 [] [] = lohg_empty.
  Proof. vm_compute. reflexivity. Qed.

  Example ex_forget_typed :
    lohg_source (forget_map_operation 0 Nat.eqb Nat.eqb 0 [5; 5] [5]) = Ok [5; 5] /\
    lohg_target (forget_map_operation 0 Nat.eqb Nat.eqb 0 [5; 5] [5]) = Ok [5] /\
    lohg_source (forget_map_operation 0 Nat.eqb Nat.eqb 0 [5; 6] [5]) = Ok [5; 6] /\
    lohg_target (forget_map_operation 0 Nat.eqb Nat.eqb 0 [5; 6] [5]) = Ok [5].
  Proof. vm_compute. repeat split; reflexivity. Qed.

  Example ex_forget_mono :
    forget_mono_map_operation 0 Nat.eqb Nat.eqb 0 [5] [5] = mkLOHG [0] [0] (lhg_discrete nat [5]) /\
    forget_mono_map_operation 0 Nat.eqb Nat.eqb 0 [5; 5] [5] = lohg_singleton 0 [5; 5] [5] /\
    forget_mono_map_operation 0 Nat.eqb Nat.eqb 0 [5] [6] = lohg_singleton 0 [5] [6].
  Proof. vm_compute. repeat split; reflexivity. Qed.

  (* the hypotheses of the theorems are satisfiable: the theorem instantiated on ex_prog *)
  Example ex_structure_instance :
    exists f vs, var_build 0 ex_prog [0; 1] [2] false = Ok (Some f) /\ lwf f /\
                 hinv 0 (lo_h f) vs (build_roles ex_prog [0; 1] [2]) (g_ek 0 ex_prog).
  Proof.
    destruct ex_prog_ok as (H1 & H2 & H3).
    destruct (@C19_build_structure nat nat 0 ex_prog [0; 1] [2] H1 H2 H3)
      as (f & vs & Hb & _ & Hw & _ & _ & _ & _ & _ & _ & _ & _ & _ & Hinv & _).
    exists f, vs. auto.
  Qed.
End Examples.
