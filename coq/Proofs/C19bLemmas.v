(* C19b, part 1: the DynFunctor bridge (lax functor -> strict functor -> lax result) is total,
   well-formed and typed for every lax functor that satisfies the documented contract, and the
   result is the substitution instance.
   Model: Model/LaxFunctor.v (dyn_map_object, dyn_map_operations, dyn_functor, dyn_define_map_arrow).
   Rust:  src/lax/functor/dyn_functor.rs. *)
From OHG Require Import Spec.Plain Proofs.PrimsThm Proofs.CCThm Proofs.SegThm Proofs.C08Thm
  Proofs.C01Lemmas Proofs.C01Thm Proofs.QuotThm Proofs.C09Thm Proofs.C10Lemmas Proofs.C10Strict
  Proofs.C10Quot Proofs.C10Thm Proofs.C12Lemmas Proofs.C12Plain Proofs.C12Thm.
From Coq Require Import List Arith Lia Bool.
Import ListNotations.

Set Implicit Arguments.
Arguments Nat.sub : simpl never.

(* ====================================================================================== *)
(* list facts                                                                             *)
(* ====================================================================================== *)
(* the labels of a list of node references (default free: dangling references are dropped) *)
Definition sel {T} (w : list T) (l : list nat) : list T :=
  flat_map (fun i => match nth_error w i with Some x => [x] | None => [] end) l.

Lemma sel_spec {T} (w : list T) l s : map Some s = map (nth_error w) l -> sel w l = s.
Proof.
  revert s; induction l as [|i l IH]; intros [|x s] H; cbn [map] in H; try discriminate.
  - reflexivity.
  - injection H as H1 H2. unfold sel. cbn [flat_map]. rewrite <- H1. cbn [List.app].
    f_equal. apply IH. exact H2.
Qed.

Lemma sel_some {T} (w : list T) l : all_lt (length w) l -> map Some (sel w l) = map (nth_error w) l.
Proof.
  intros H. induction H as [|i l Hi Hl IH]; [reflexivity|].
  unfold sel. cbn [flat_map map]. destruct (nth_error w i) as [x|] eqn:E.
  - cbn [List.app map]. f_equal. exact IH.
  - apply nth_error_None in E. lia.
Qed.

Lemma sel_app {T} (w : list T) l1 l2 : sel w (l1 ++ l2) = sel w l1 ++ sel w l2.
Proof. unfold sel. apply flat_map_app. Qed.

Lemma mapM_get_iff {T} (xs : list T) l r :
  mapM (get xs) l = Ok r <-> map Some r = map (nth_error xs) l.
Proof.
  rewrite mapM_ok_iff. split.
  - intros H. induction H as [|i x l r Hx _ IH]; [reflexivity|].
    cbn [map]. apply get_ok_inv in Hx. destruct Hx as [_ Hx]. rewrite Hx, IH. reflexivity.
  - revert r. induction l as [|i l IH]; intros [|x r] H; cbn [map] in H; try discriminate.
    + constructor.
    + injection H as H1 H2. constructor; [|apply IH; exact H2].
      unfold get. rewrite <- H1. reflexivity.
Qed.

Lemma map_Some_app_inv {T} (a : list T) (l1 l2 : list (option T)) :
  map Some a = l1 ++ l2 ->
  exists a1 a2, a = a1 ++ a2 /\ map Some a1 = l1 /\ map Some a2 = l2.
Proof.
  revert a; induction l1 as [|o l1 IH]; intros a H.
  - exists [], a. auto.
  - destruct a as [|x a]; cbn [map List.app] in H; [discriminate|]. injection H as H1 H2.
    destruct (IH a H2) as (a1 & a2 & -> & E1 & E2). exists (x :: a1), a2.
    cbn [List.app map]. rewrite H1, E1. auto.
Qed.

(* reading a block of a concatenation *)
Lemma map_nth_error_block {T} (l : list T) : forall p r,
  map (nth_error (p ++ l ++ r)) (seq (length p) (length l)) = map Some l.
Proof.
  induction l as [|x l IH]; intros p r; [reflexivity|].
  cbn [length seq map]. f_equal.
  - rewrite nth_error_app2 by lia. rewrite Nat.sub_diag. reflexivity.
  - replace (p ++ (x :: l) ++ r) with ((p ++ [x]) ++ l ++ r) by (rewrite <- app_assoc; reflexivity).
    replace (S (length p)) with (length (p ++ [x])) by (rewrite app_length; cbn [length]; lia).
    apply IH.
Qed.

Lemma length_concat {T} (ls : list (list T)) : length (concat ls) = list_sum (map (@length T) ls).
Proof. induction ls as [|l ls IH]; [reflexivity|]. cbn. rewrite app_length, IH. reflexivity. Qed.

(* the block of the v-th object inside the flattened object map *)
Lemma block_type {X T} (F : X -> list T) (w : list X) v x : nth_error w v = Some x ->
  map (nth_error (concat (map F w)))
      (seq (list_sum (firstn v (map (@length T) (map F w)))) (nth v (map (@length T) (map F w)) 0))
  = map Some (F x).
Proof.
  intros H. destruct (nth_error_split w v H) as (w1 & w2 & -> & Hlen).
  rewrite !map_app. cbn [map]. rewrite concat_app. cbn [concat].
  rewrite firstn_app. rewrite !map_length, Hlen, Nat.sub_diag. cbn [firstn]. rewrite app_nil_r.
  rewrite firstn_all2 by (rewrite !map_length; lia).
  rewrite app_nth2 by (rewrite !map_length; lia). rewrite !map_length, Hlen, Nat.sub_diag.
  cbn [nth]. rewrite <- length_concat. apply map_nth_error_block.
Qed.

(* the type of an expanded reference list is the flattened image of its type *)
Lemma expand_type {X T} (F : X -> list T) (w : list X) l a :
  map Some a = map (nth_error w) l ->
  map (nth_error (concat (map F w))) (inj_table (map (@length T) (map F w)) l)
  = map Some (flat_map F a).
Proof.
  revert a; induction l as [|v l IH]; intros [|x a] H; cbn [map] in H; try discriminate.
  - reflexivity.
  - injection H as H1 H2. unfold inj_table. cbn [flat_map].
    rewrite !map_app. f_equal.
    + apply block_type. symmetry. exact H1.
    + apply IH. exact H2.
Qed.

Lemma flat_map_singleton {T} (l : list T) : flat_map (fun o => [o]) l = l.
Proof. induction l as [|x l IH]; [reflexivity|]. cbn [flat_map List.app]. rewrite IH. reflexivity. Qed.

Lemma flat_map_flat_map_concat {X T} (F : X -> list T) (ls : list (list X)) :
  flat_map (flat_map F) ls = flat_map F (concat ls).
Proof.
  induction ls as [|l ls IH]; [reflexivity|]. cbn [flat_map concat]. rewrite flat_map_app, IH.
  reflexivity.
Qed.

Lemma zip3_as_combine {A} (xs : list A) : forall (ss ts : list (list nat)),
  map (fun e => (pe_lbl e, (pe_src e, pe_tgt e))) (zip3 xs ss ts) = combine xs (combine ss ts).
Proof.
  induction xs as [|x xs IH]; intros [|s ss] [|t ts]; try reflexivity.
  cbn [zip3 map combine pe_lbl pe_src pe_tgt]. f_equal. apply IH.
Qed.

Lemma combine_map_r {X Y Z W} (g : Y -> Z) (k : Y -> W) (xs : list X) : forall (ss ts : list Y),
  combine xs (combine (map g ss) (map k ts)) =
  map (fun p => (fst p, (g (fst (snd p)), k (snd (snd p))))) (combine xs (combine ss ts)).
Proof.
  induction xs as [|x xs IH]; intros [|s ss] [|t ts]; try reflexivity.
  cbn [combine map fst snd]. f_equal. apply IH.
Qed.

(* a segmented array of labels read through a segmented array of references *)
Lemma segs_sel {T} (w : list T) sizes refs vals : map Some vals = map (nth_error w) refs ->
  segs sizes vals = map (sel w) (segs sizes refs).
Proof.
  revert refs vals. induction sizes as [|k sizes IH]; intros refs vals H; [reflexivity|].
  cbn [segs map]. f_equal.
  - symmetry. apply sel_spec. rewrite <- !firstn_map. rewrite H. reflexivity.
  - apply IH. rewrite <- !skipn_map. rewrite H. reflexivity.
Qed.

(* ====================================================================================== *)
(* the lax tensor: consistency of labels and types                                        *)
(* ====================================================================================== *)
Section LaxTensor.
  Variables O A : Type.
  Implicit Types f g : lohg O A.

  Lemma nn_tensor f g : nn (lohg_tensor f g) = nn f + nn g.
  Proof. unfold nn, lohg_tensor, lhg_coproduct. cbn [lo_h l_nodes]. apply app_length. Qed.

  Lemma pending_pairs_lt f : lwf f -> pairs_lt (nn f) (pending f).
  Proof. intros ((_ & Hs & Ht & _) & _). apply pairs_lt_combine; assumption. Qed.

  Lemma labels_consistent_tensor f g : lwf f -> lwf g ->
    labels_consistent f -> labels_consistent g -> labels_consistent (lohg_tensor f g).
  Proof.
    intros Hf Hg Cf Cg i j Hi Hj Hc. rewrite nn_tensor in Hi, Hj.
    rewrite (pending_tensor g Hf) in Hc.
    change (map (C10Lemmas.shift_pair (nn f)) (pending g)) with (shift_pairs (nn f) (pending g)) in Hc.
    apply (conn_sum_char (pending g) i j (pending_pairs_lt Hf)) in Hc.
    unfold lohg_tensor, lhg_coproduct. cbn [lo_h l_nodes].
    destruct Hc as [(H1 & H2 & Hc)|(H1 & H2 & Hc)].
    - unfold nn in H1, H2. rewrite !nth_error_app1 by assumption. apply Cf; assumption.
    - unfold nn in H1, H2, Hi, Hj. rewrite !nth_error_app2 by assumption.
      apply Cg; try assumption; unfold nn; lia.
  Qed.

  Lemma lohg_source_tensor f g a b : lohg_source f = Ok a -> lohg_source g = Ok b ->
    lohg_source (lohg_tensor f g) = Ok (a ++ b).
  Proof.
    unfold lohg_source. rewrite !mapM_get_iff. intros Ha Hb.
    unfold lohg_tensor, lhg_coproduct. cbn [lo_h lo_sources l_nodes]. rewrite !map_app. f_equal.
    - rewrite Ha. apply map_ext_in. intros i Hi.
      assert (Hs : nth_error (l_nodes (lo_h f)) i <> None).
      { intros E. apply (in_map (nth_error (l_nodes (lo_h f)))) in Hi. rewrite E, <- Ha in Hi.
        apply in_map_iff in Hi. destruct Hi as (x & Hx & _). discriminate. }
      apply nth_error_Some in Hs. symmetry. apply nth_error_app1. exact Hs.
    - rewrite Hb. unfold shift. rewrite map_map. apply map_ext. intros i.
      rewrite nth_error_app2 by lia. f_equal. lia.
  Qed.

  Lemma lohg_target_tensor f g a b : lohg_target f = Ok a -> lohg_target g = Ok b ->
    lohg_target (lohg_tensor f g) = Ok (a ++ b).
  Proof.
    intros Ha Hb.
    exact (@lohg_source_tensor (lohg_dagger f) (lohg_dagger g) a b Ha Hb).
  Qed.

  (* the diagrams a lax functor may answer with *)
  Definition lax_good f : Prop := lwf f /\ ladj_ok f /\ labels_consistent f.

  Lemma lax_good_empty : lax_good (@lohg_empty O A).
  Proof.
    split; [|split].
    - unfold lwf, hwf, nn, hn. cbn. repeat split; try constructor; contradiction.
    - reflexivity.
    - intros i j Hi. cbn in Hi. lia.
  Qed.

  Lemma lax_good_tensor f g : lax_good f -> lax_good g -> lax_good (lohg_tensor f g).
  Proof.
    intros (W1 & L1 & C1) (W2 & L2 & C2). split; [|split].
    - apply lwf_tensor; assumption.
    - apply ladj_ok_tensor; assumption.
    - apply labels_consistent_tensor; assumption.
  Qed.
End LaxTensor.

Lemma flat_map_comp {X Y Z} (f : X -> list Y) (g : Y -> list Z) (l : list X) :
  flat_map g (flat_map f l) = flat_map (fun x => flat_map g (f x)) l.
Proof.
  induction l as [|x l IH]; [reflexivity|]. cbn [flat_map]. rewrite flat_map_app, IH. reflexivity.
Qed.

Lemma flat_map_map {X Y Z} (f : X -> Y) (g : Y -> list Z) (l : list X) :
  flat_map g (map f l) = flat_map (fun x => g (f x)) l.
Proof. induction l as [|x l IH]; [reflexivity|]. cbn [map flat_map]. rewrite IH. reflexivity. Qed.

(* ====================================================================================== *)
(* the DynFunctor bridge                                                                  *)
(* ====================================================================================== *)
Section Dyn.
  Variable B : Backend.
  Hypothesis OK : BackendOK B.
  Variables O1 A1 O2 A2 : Type.
  Variable eqO1 : O1 -> O1 -> bool.
  Hypothesis eqO1_spec : forall x y, eqO1 x y = true <-> x = y.
  Variable eqO2 : O2 -> O2 -> bool.
  Hypothesis eqO2_spec : forall x y, eqO2 x y = true <-> x = y.
  Variable F : lfunctor O1 A1 O2 A2.

  Notation FO := (lf_map_object F).

  (* the documented contract of a lax functor: the image of a generator  a : s -> t  is a
     well-formed lax diagram (pending unifications allowed, as long as they are label consistent)
     of type  F(s) -> F(t) *)
  Definition lf_contract : Prop := forall a s t,
    lwf (lf_map_operation F a s t) /\ ladj_ok (lf_map_operation F a s t) /\
    labels_consistent (lf_map_operation F a s t) /\
    lohg_source (lf_map_operation F a s t) = Ok (flat_map FO s) /\
    lohg_target (lf_map_operation F a s t) = Ok (flat_map FO t).

  Hypothesis HF : lf_contract.

  (* ---------- the batch: the tensor of the images of a list of generators ---------- *)
  Notation gen := (A1 * (list O1 * list O1))%type.
  Definition gen_img (p : gen) : lohg O2 A2 := lf_map_operation F (fst p) (fst (snd p)) (snd (snd p)).

  Definition dyn_batch_from (acc : lohg O2 A2) (l : list gen) : lohg O2 A2 :=
    fold_left (fun acc p => lohg_tensor acc (gen_img p)) l acc.
  Definition dyn_batch (l : list gen) : lohg O2 A2 := dyn_batch_from lohg_empty l.

  Lemma dyn_batch_model (l : list gen) :
    fold_left (fun acc (p : gen) => let '(x, (s, t)) := p in
                 lohg_tensor_assign acc (lf_map_operation F x s t)) l lohg_empty = dyn_batch l.
  Proof.
    unfold dyn_batch, dyn_batch_from. generalize (@lohg_empty O2 A2).
    induction l as [|[x [s t]] l IH]; intros acc; [reflexivity|]. cbn [fold_left]. apply IH.
  Qed.

  Lemma dyn_batch_from_ok (l : list gen) : forall acc a b,
    lax_good acc -> lohg_source acc = Ok a -> lohg_target acc = Ok b ->
    lax_good (dyn_batch_from acc l) /\
    lohg_source (dyn_batch_from acc l) = Ok (a ++ flat_map (fun p => flat_map FO (fst (snd p))) l) /\
    lohg_target (dyn_batch_from acc l) = Ok (b ++ flat_map (fun p => flat_map FO (snd (snd p))) l).
  Proof.
    induction l as [|p l IH]; intros acc a b Hg Ha Hb.
    - cbn [dyn_batch_from fold_left flat_map]. rewrite !app_nil_r. auto.
    - unfold dyn_batch_from. cbn [fold_left flat_map]. fold (dyn_batch_from (lohg_tensor acc (gen_img p)) l).
      destruct (HF (fst p) (fst (snd p)) (snd (snd p))) as (W & L & C & S & T). fold (gen_img p) in *.
      rewrite !app_assoc. apply IH.
      + apply lax_good_tensor; [exact Hg|]. split; [exact W|split; assumption].
      + apply lohg_source_tensor; assumption.
      + apply lohg_target_tensor; assumption.
  Qed.

  Lemma dyn_batch_ok (l : list gen) :
    lax_good (dyn_batch l) /\
    lohg_source (dyn_batch l) = Ok (flat_map FO (flat_map (fun p => fst (snd p)) l)) /\
    lohg_target (dyn_batch l) = Ok (flat_map FO (flat_map (fun p => snd (snd p)) l)).
  Proof.
    destruct (@dyn_batch_from_ok l lohg_empty [] [] (lax_good_empty O2 A2) eq_refl eq_refl)
      as (H1 & H2 & H3).
    rewrite !flat_map_comp. cbn [List.app] in H2, H3. auto.
  Qed.

  (* ---------- the generators of a strict diagram ---------- *)
  Definition edge_gens (sf : ohg O1 A1) : list gen :=
    map (fun e => (pe_lbl e, (sel (h_w (o_h sf)) (pe_src e), sel (h_w (o_h sf)) (pe_tgt e))))
        (p_edges (abs sf)).

  (* the operation map of the induced strict functor, on the operations of a well-formed diagram *)
  Lemma dyn_ops_data (sf : ohg O1 A1) : wf_ohg sf ->
    exists va vb,
      to_operations sf = Ok (to_ops_pure sf va vb) /\
      map Some va = map (nth_error (h_w (o_h sf))) (table (ic_values (h_s (o_h sf)))) /\
      map Some vb = map (nth_error (h_w (o_h sf))) (table (ic_values (h_t (o_h sf)))) /\
      dyn_map_operations F B eqO2 (to_ops_pure sf va vb) = lohg_to_strict B eqO2 (dyn_batch (edge_gens sf)) /\
      flat_map (fun p : gen => fst (snd p)) (edge_gens sf) = va /\
      flat_map (fun p : gen => snd (snd p)) (edge_gens sf) = vb.
  Proof.
    intros Hwf. destruct (to_operations_val Hwf) as (va & vb & Hops & Ea & Eb).
    exists va, vb. split; [exact Hops|]. split; [exact Ea|]. split; [exact Eb|].
    pose proof (map_Some_length _ _ _ Ea) as La. pose proof (map_Some_length _ _ _ Eb) as Lb.
    destruct (wf_to_ops_pure va vb Hwf La Lb) as (Wa & Wb & Ia & Ib).
    destruct (C08_iter_s Wa) as (_ & _ & _ & _ & _ & _ & _ & _ & Ca & _).
    destruct (C08_iter_s Wb) as (_ & _ & _ & _ & _ & _ & _ & _ & Cb & _).
    assert (Da : decode_s (ops_a (to_ops_pure sf va vb)) = map (sel (h_w (o_h sf))) (decode_f (h_s (o_h sf)))).
    { unfold decode_s, decode_f, to_ops_pure. cbn [ops_a ic_sources ic_values]. apply segs_sel. exact Ea. }
    assert (Db : decode_s (ops_b (to_ops_pure sf va vb)) = map (sel (h_w (o_h sf))) (decode_f (h_t (o_h sf)))).
    { unfold decode_s, decode_f, to_ops_pure. cbn [ops_b ic_sources ic_values]. apply segs_sel. exact Eb. }
    assert (Eg : combine (h_x (o_h sf))
                   (combine (decode_s (ops_a (to_ops_pure sf va vb))) (decode_s (ops_b (to_ops_pure sf va vb))))
                 = edge_gens sf).
    { rewrite Da, Db, combine_map_r. unfold edge_gens, abs, abs_hg_edges. cbn [p_edges].
      rewrite <- zip3_as_combine, map_map. reflexivity. }
    pose proof Hwf as ((((S1 & S2) & _) & ((T1 & T2) & _) & Hxs & Hxt & _) & _).
    unfold ic_len, ff_source in Hxs, Hxt, S2, T2.
    assert (Lda : length (decode_s (ops_a (to_ops_pure sf va vb))) = length (h_x (o_h sf))).
    { unfold decode_s. rewrite segs_length. cbn [to_ops_pure ops_a ic_sources]. exact Hxs. }
    assert (Ldb : length (decode_s (ops_b (to_ops_pure sf va vb))) = length (h_x (o_h sf))).
    { unfold decode_s. rewrite segs_length. cbn [to_ops_pure ops_b ic_sources]. exact Hxt. }
    split; [|split].
    - unfold dyn_map_operations. rewrite Ca, Cb. cbn [bind].
      change (ops_x (to_ops_pure sf va vb)) with (h_x (o_h sf)). rewrite Eg, dyn_batch_model. reflexivity.
    - rewrite <- Eg. rewrite <- (flat_map_map (@snd A1 (list O1 * list O1)) (fun q => fst q)).
      rewrite map_snd_combine by (rewrite combine_length; lia).
      rewrite <- (flat_map_map (@fst (list O1) (list O1)) (fun s => s)).
      rewrite map_fst_combine by lia.
      rewrite flat_map_concat_map, map_id. unfold decode_s. cbn [to_ops_pure ops_a ic_sources ic_values].
      apply segs_concat. rewrite La. exact S2.
    - rewrite <- Eg. rewrite <- (flat_map_map (@snd A1 (list O1 * list O1)) (fun q => snd q)).
      rewrite map_snd_combine by (rewrite combine_length; lia).
      rewrite <- (flat_map_map (@snd (list O1) (list O1)) (fun s => s)).
      rewrite map_snd_combine by lia.
      rewrite flat_map_concat_map, map_id. unfold decode_s. cbn [to_ops_pure ops_b ic_sources ic_values].
      apply segs_concat. rewrite Lb. exact T2.
  Qed.

  (* ---------- the object map ---------- *)
  Definition dyn_fw (a : list O1) : ic (list O2) :=
    mkIC (mkFF (map (@length O2) (map FO a)) (length (concat (map FO a)) + 1)) (concat (map FO a)).

  Lemma dyn_map_object_val a : dyn_map_object F a = Ok (dyn_fw a).
  Proof.
    unfold dyn_map_object.
    assert (E : list_sum (map (@length O2) (map FO a)) = vlen (semi_vops O2) (concat (map FO a))).
    { cbn [vlen semi_vops]. symmetry. apply length_concat. }
    rewrite (from_semifinite_ok (semi_vops O2) _ _ E). reflexivity.
  Qed.

  Lemma wf_dyn_fw a : wf_ics (dyn_fw a).
  Proof.
    split; cbn [dyn_fw ic_sources ic_values table target]; rewrite length_concat; reflexivity.
  Qed.

  Lemma dyn_fw_len a : ic_len (dyn_fw a) = length a.
  Proof. unfold ic_len, ff_source, dyn_fw. cbn [ic_sources table]. rewrite !map_length. reflexivity. Qed.

  Lemma dyn_fw_decode a : decode_s (dyn_fw a) = map FO a.
  Proof. unfold decode_s, dyn_fw. cbn [ic_sources ic_values table]. apply segs_of_concat. Qed.

  Lemma dyn_fw_type (w : list O1) l a : map Some a = map (nth_error w) l ->
    map (nth_error (ic_values (dyn_fw w))) (expand (dyn_fw w) l) = map Some (flat_map FO a).
  Proof. intros H. unfold expand, dyn_fw. cbn [ic_sources ic_values table]. apply expand_type. exact H. Qed.

  (* ---------- the strictified batch and its typing ---------- *)
  Lemma lohg_source_type (X Y : Type) (g : lohg X Y) a : lohg_source g = Ok a -> src_type (labs g) = map Some a.
  Proof. unfold lohg_source. rewrite mapM_get_iff. intros H. symmetry. exact H. Qed.

  Lemma lohg_target_type (X Y : Type) (g : lohg X Y) a : lohg_target g = Ok a -> tgt_type (labs g) = map Some a.
  Proof. unfold lohg_target. rewrite mapM_get_iff. intros H. symmetry. exact H. Qed.

  Lemma dyn_fx_data (sf : ohg O1 A1) va vb :
    map Some va = map (nth_error (h_w (o_h sf))) (table (ic_values (h_s (o_h sf)))) ->
    map Some vb = map (nth_error (h_w (o_h sf))) (table (ic_values (h_t (o_h sf)))) ->
    flat_map (fun p : gen => fst (snd p)) (edge_gens sf) = va ->
    flat_map (fun p : gen => snd (snd p)) (edge_gens sf) = vb ->
    exists fx, lohg_to_strict B eqO2 (dyn_batch (edge_gens sf)) = Ok fx /\ wf_ohg fx /\
               fx_typed sf (dyn_fw (h_w (o_h sf))) fx.
  Proof.
    intros Ea Eb Ga Gb.
    destruct (dyn_batch_ok (edge_gens sf)) as ((W & L & C) & S & T). rewrite Ga in S. rewrite Gb in T.
    destruct (C10_to_strict_spec OK eqO2 eqO2_spec W L C) as (fx & Hfx & Wfx & q & HQ & _).
    exists fx. split; [exact Hfx|]. split; [exact Wfx|].
    destruct (strict_types W HQ) as [Hs Ht].
    unfold fx_typed, edge_sources, edge_targets.
    rewrite Hs, Ht, (lohg_source_type _ S), (lohg_target_type _ T).
    rewrite (dyn_fw_type _ _ _ Ea), (dyn_fw_type _ _ _ Eb). split; reflexivity.
  Qed.

  (* ---------- the run of the lax entry point ---------- *)
  Lemma dyn_run (f : lohg O1 A1) : lwf f -> ladj_ok f -> labels_consistent f ->
    exists sf a b fx h g,
      lohg_to_strict B eqO1 f = Ok sf /\ wf_ohg sf /\
      lohg_source f = Ok a /\ lohg_target f = Ok b /\
      ohg_source sf = Ok a /\ ohg_target sf = Ok b /\
      lohg_to_strict B eqO2 (dyn_batch (edge_gens sf)) = Ok fx /\ wf_ohg fx /\
      fx_typed sf (dyn_fw (h_w (o_h sf))) fx /\
      define_map_arrow B eqO2 (dyn_functor F B eqO2) sf = Ok h /\ wf_ohg h /\
      IsSubst sf (dyn_fw (h_w (o_h sf))) fx (abs h) /\
      lohg_from_strict h = Ok g /\ labs g = abs h /\
      dyn_define_map_arrow F B eqO1 eqO2 f = Ok g /\
      lwf g /\ ladj_ok g /\ pending g = [] /\ l_q (lo_h g) = ([], []) /\
      lohg_source g = Ok (flat_map FO a) /\ lohg_target g = Ok (flat_map FO b).
  Proof.
    intros Wf Lf Cf.
    destruct (C10_to_strict_spec OK eqO1 eqO1_spec Wf Lf Cf) as (sf & Hsf & Wsf & q & HQ & _).
    destruct (strict_types Wf HQ) as [Hst Htt].
    destruct (lohg_source_ok Wf) as (a & Ha & Ha').
    destruct (lohg_target_ok Wf) as (b & Hb & Hb').
    destruct (ohg_source_ok Wsf) as (a' & Hsa & Hsa').
    destruct (ohg_target_ok Wsf) as (b' & Hsb & Hsb').
    assert (a' = a) by (apply map_Some_inj'; congruence). subst a'.
    assert (b' = b) by (apply map_Some_inj'; congruence). subst b'.
    destruct (dyn_ops_data Wsf) as (va & vb & Hops & Ea & Eb & Hmo & Ga & Gb).
    destruct (dyn_fx_data sf Ea Eb Ga Gb) as (fx & Hfx & Wfx & Tfx).
    destruct (@C12_define_map_arrow B OK O1 A1 O2 A2 eqO2 eqO2_spec (dyn_functor F B eqO2) sf
                (dyn_fw (h_w (o_h sf))) fx Wsf) as (h & Hh & Wh & Hhs & Hht & Hsub).
    { intros ops Hops'. assert (ops = to_ops_pure sf va vb) by congruence. subst ops.
      cbn [dyn_functor sf_map_operations]. rewrite Hmo. exact Hfx. }
    { cbn [dyn_functor sf_map_object]. apply dyn_map_object_val. }
    { apply wf_dyn_fw. }
    { apply dyn_fw_len. }
    { exact Wfx. }
    { exact Tfx. }
    destruct (C10_from_strict_spec Wh) as (g & Hg & Pg & Qg & Wg & Lg & Ag).
    exists sf, a, b, fx, h, g.
    repeat match goal with |- _ /\ _ => split end; try assumption.
    - unfold dyn_define_map_arrow. rewrite Hsf. cbn [bind]. rewrite Hh. cbn [bind]. exact Hg.
    - unfold lohg_source. apply mapM_get_iff.
      change (map (nth_error (l_nodes (lo_h g))) (lo_sources g)) with (src_type (labs g)).
      rewrite Ag, Hhs. symmetry. apply dyn_fw_type. rewrite Hsa'. reflexivity.
    - unfold lohg_target. apply mapM_get_iff.
      change (map (nth_error (l_nodes (lo_h g))) (lo_targets g)) with (tgt_type (labs g)).
      rewrite Ag, Hht. symmetry. apply dyn_fw_type. rewrite Hsb'. reflexivity.
  Qed.

  (* ====================================================================================== *)
  (* the theorems                                                                           *)
  (* ====================================================================================== *)
  (* the lax functor entry point returns (never panics), on every well-formed lax diagram - pending
     unifications allowed - a well-formed, quotient-free diagram of type F(A) -> F(B), where A, B
     are the source and target label lists of the argument (equally: of its strictification) *)
  Theorem dyn_total_typed (f : lohg O1 A1) : lwf f -> ladj_ok f -> labels_consistent f ->
    exists sf a b g,
      lohg_to_strict B eqO1 f = Ok sf /\ wf_ohg sf /\
      lohg_source f = Ok a /\ lohg_target f = Ok b /\
      ohg_source sf = Ok a /\ ohg_target sf = Ok b /\
      dyn_define_map_arrow F B eqO1 eqO2 f = Ok g /\
      lwf g /\ ladj_ok g /\ pending g = [] /\ l_q (lo_h g) = ([], []) /\
      lohg_source g = Ok (flat_map FO a) /\ lohg_target g = Ok (flat_map FO b).
  Proof.
    intros Wf Lf Cf.
    destruct (dyn_run Wf Lf Cf) as (sf & a & b & fx & h & g & H).
    exists sf, a, b, g. tauto.
  Qed.

  (* ... and the strict image  h  (of which the result is the lax form) is the substitution instance
     of the strictified argument for the object data [dyn_fw] and the strictified batch *)
  Theorem dyn_substitution (f : lohg O1 A1) : lwf f -> ladj_ok f -> labels_consistent f ->
    exists sf fx h g,
      lohg_to_strict B eqO1 f = Ok sf /\ wf_ohg sf /\
      dyn_map_object F (h_w (o_h sf)) = Ok (dyn_fw (h_w (o_h sf))) /\
      decode_s (dyn_fw (h_w (o_h sf))) = map FO (h_w (o_h sf)) /\
      lohg_to_strict B eqO2 (dyn_batch (edge_gens sf)) = Ok fx /\ wf_ohg fx /\
      define_map_arrow B eqO2 (dyn_functor F B eqO2) sf = Ok h /\ wf_ohg h /\
      IsSubst sf (dyn_fw (h_w (o_h sf))) fx (abs h) /\
      dyn_define_map_arrow F B eqO1 eqO2 f = Ok g /\ lohg_from_strict h = Ok g /\ labs g = abs h.
  Proof.
    intros Wf Lf Cf.
    destruct (dyn_run Wf Lf Cf) as (sf & a & b & fx & h & g & H).
    exists sf, fx, h, g. pose proof (dyn_map_object_val (h_w (o_h sf))).
    pose proof (dyn_fw_decode (h_w (o_h sf))). tauto.
  Qed.
End Dyn.

Print Assumptions dyn_total_typed.
Print Assumptions dyn_substitution.
