(* C19b: Forget through the DynFunctor bridge, and the C05 corollary for lax functors.
   Part 1 (Proofs/C19bLemmas.v): dyn_total_typed, dyn_substitution for every lax functor satisfying
   the documented contract [lf_contract].
   Part 2 (here): forget_functor / forget_mono_functor satisfy the contract; hence [forget] and
   [forget_monogamous] return, for every well-formed term, a well-formed quotient-free term of the
   same type, which is the substitution instance of the argument along [forget_image].
   Part 3 (here): C05 for lax functor images.
   Model: Model/LaxFunctor.v (forget, forget_monogamous, dyn_define_map_arrow).
   Rust:  src/lax/var/forget.rs, src/lax/functor/dyn_functor.rs. *)
From OHG Require Import Spec.Plain Proofs.PrimsThm Proofs.CCThm Proofs.SegThm Proofs.C08Thm
  Proofs.C01Lemmas Proofs.C01Thm Proofs.QuotThm Proofs.C09Thm Proofs.C10Lemmas Proofs.C10Strict
  Proofs.C10Quot Proofs.C10Thm Proofs.C12Lemmas Proofs.C12Plain Proofs.C12Thm Proofs.C19Thm
  Proofs.C19bLemmas Proofs.BackendInst.
From Coq Require Import List Arith Lia Bool.
Import ListNotations.

Set Implicit Arguments.
Arguments Nat.sub : simpl never.

Lemma all_lt_repeat0 n m : 0 < m -> all_lt m (repeat 0 n).
Proof. intros H. unfold all_lt. apply Forall_forall. intros x Hx. apply repeat_spec in Hx. lia. Qed.

Lemma map_length_singletons {T} (w : list T) :
  map (@length T) (map (fun o => [o]) w) = repeat 1 (length w).
Proof. induction w as [|x w IH]; [reflexivity|]. cbn [map length repeat]. rewrite IH. reflexivity. Qed.

Lemma concat_singletons {T} (w : list T) : concat (map (fun o => [o]) w) = w.
Proof. rewrite <- flat_map_concat_map. apply flat_map_singleton. Qed.

Lemma fold_left_map {X Y S} (f : S -> Y -> S) (g : X -> Y) (l : list X) : forall s,
  fold_left f (map g l) s = fold_left (fun s x => f s (g x)) l s.
Proof. induction l as [|x l IH]; intros s; [reflexivity|]. cbn [map fold_left]. apply IH. Qed.

Lemma fold_left_ext {X S} (f g : S -> X -> S) (l : list X) : (forall s x, f s x = g s x) ->
  forall s, fold_left f l s = fold_left g l s.
Proof.
  intros H. induction l as [|x l IH]; intros s; [reflexivity|]. cbn [fold_left]. rewrite H. apply IH.
Qed.

(* ====================================================================================== *)
(* Part 2: Forget                                                                         *)
(* ====================================================================================== *)
Section ForgetDyn.
  Variable B : Backend.
  Hypothesis OK : BackendOK B.
  Variables O A : Type.
  Variable eqO : O -> O -> bool.
  Hypothesis eqO_spec : forall x y, eqO x y = true <-> x = y.
  Variable eqA : A -> A -> bool.
  Hypothesis eqA_spec : forall x y, eqA x y = true <-> x = y.
  Variable var_label : A.

  Notation FF := (forget_functor var_label eqO eqA).
  Notation FM := (forget_mono_functor var_label eqO eqA).
  Notation fimage := (forget_image var_label eqO eqA).

  (* ---------- the three shapes of an image ---------- *)
  Lemma lax_good_nopending (f : lohg O A) : lwf f -> ladj_ok f -> l_q (lo_h f) = ([], []) -> lax_good f.
  Proof. intros W L Q. split; [exact W|]. split; [exact L|]. apply pending_nil_consistent. exact Q. Qed.

  Lemma lax_good_singleton (a : A) (s t : list O) : lax_good (lohg_singleton a s t).
  Proof. destruct (lwf_singleton a s t) as (W & L & Q). apply lax_good_nopending; assumption. Qed.

  Lemma lax_good_spider1 (c : O) n m : lax_good (spider1 A c n m).
  Proof.
    unfold spider1.
    destruct (@lwf_discrete O A [c] (repeat 0 n) (repeat 0 m)) as (W & L & Q);
      try (apply all_lt_repeat0; cbn; lia).
    apply lax_good_nopending; assumption.
  Qed.

  Lemma lax_good_forget_image a s t : lax_good (fimage a s t).
  Proof.
    unfold forget_image. destruct (eqA a var_label && all_elements_equal eqO s t).
    - destruct (s ++ t) as [|c rest]; [apply lax_good_empty|apply lax_good_spider1].
    - apply lax_good_singleton.
  Qed.

  (* images never carry pending unifications *)
  Lemma forget_image_nopending a s t : l_q (lo_h (fimage a s t)) = ([], []).
  Proof.
    unfold forget_image. destruct (eqA a var_label && all_elements_equal eqO s t).
    - destruct (s ++ t) as [|c rest]; reflexivity.
    - apply lwf_singleton.
  Qed.

  (* ---------- forget_functor_contract ---------- *)
  Theorem forget_functor_contract : lf_contract FF.
  Proof.
    intros a s t. cbn [forget_functor lf_map_operation lf_map_object].
    rewrite !flat_map_singleton.
    destruct (C19_forget_operation_typed O A var_label eqO eqA eqO_spec a s t) as [Hs Ht].
    rewrite C19_forget_operation in *.
    destruct (lax_good_forget_image a s t) as (W & L & C). auto.
  Qed.

  Theorem forget_mono_functor_contract : lf_contract FM.
  Proof.
    intros a s t. cbn [forget_mono_functor lf_map_operation lf_map_object].
    rewrite !flat_map_singleton.
    destruct (C19_forget_mono_typed O A var_label eqO eqA eqO_spec a s t) as [Hs Ht].
    split; [|split; [|split; [|split; assumption]]];
      unfold forget_mono_map_operation;
      destruct (negb (length s =? 1) || negb (length t =? 1));
      try apply lax_good_singleton; rewrite C19_forget_operation; apply lax_good_forget_image.
  Qed.

  (* ---------- C19_forget_total_typed ---------- *)
  (* Forget returns on every well-formed term (pending unifications allowed) and preserves its
     type: the result is well formed, quotient free, and has the source / target labels of the
     argument (which are those of its strictification) *)
  Theorem C19_forget_total_typed (f : lohg O A) : lwf f -> ladj_ok f -> labels_consistent f ->
    exists sf a b g,
      lohg_to_strict B eqO f = Ok sf /\ wf_ohg sf /\
      lohg_source f = Ok a /\ lohg_target f = Ok b /\
      ohg_source sf = Ok a /\ ohg_target sf = Ok b /\
      forget var_label eqO eqA B f = Ok g /\
      lwf g /\ ladj_ok g /\ pending g = [] /\ l_q (lo_h g) = ([], []) /\
      lohg_source g = Ok a /\ lohg_target g = Ok b.
  Proof.
    intros W L C.
    destruct (dyn_total_typed OK eqO eqO_spec eqO eqO_spec forget_functor_contract W L C)
      as (sf & a & b & g & H).
    cbn [forget_functor lf_map_object] in H. rewrite !flat_map_singleton in H.
    exists sf, a, b, g. exact H.
  Qed.

  Theorem C19_forget_monogamous_total_typed (f : lohg O A) : lwf f -> ladj_ok f -> labels_consistent f ->
    exists sf a b g,
      lohg_to_strict B eqO f = Ok sf /\ wf_ohg sf /\
      lohg_source f = Ok a /\ lohg_target f = Ok b /\
      ohg_source sf = Ok a /\ ohg_target sf = Ok b /\
      forget_monogamous var_label eqO eqA B f = Ok g /\
      lwf g /\ ladj_ok g /\ pending g = [] /\ l_q (lo_h g) = ([], []) /\
      lohg_source g = Ok a /\ lohg_target g = Ok b.
  Proof.
    intros W L C.
    destruct (dyn_total_typed OK eqO eqO_spec eqO eqO_spec forget_mono_functor_contract W L C)
      as (sf & a & b & g & H).
    cbn [forget_mono_functor lf_map_object] in H. rewrite !flat_map_singleton in H.
    exists sf, a, b, g. exact H.
  Qed.

  (* ---------- the object data: one block of size 1 per node ---------- *)
  Definition forget_fw (w : list O) : ic (list O) := mkIC (mkFF (repeat 1 (length w)) (length w + 1)) w.

  Lemma forget_fw_elements w : ic_elements (semi_vops O) w = Ok (forget_fw w).
  Proof. apply elements_val. Qed.

  Lemma expand_forget_fw w l : all_lt (length w) l -> expand (forget_fw w) l = l.
  Proof. intros H. unfold expand, forget_fw. cbn [ic_sources table]. apply inj_table_ones. exact H. Qed.

  Lemma dyn_fw_identity_on_objects (G : lfunctor O A O A) w :
    (forall o, lf_map_object G o = [o]) -> dyn_fw G w = forget_fw w.
  Proof.
    intros HG. unfold dyn_fw, forget_fw.
    rewrite (map_ext _ (fun o => [o]) HG).
    rewrite map_length_singletons, concat_singletons. reflexivity.
  Qed.

  (* ---------- substitution, for any functor that is the identity on objects ---------- *)
  Lemma id_on_objects_subst (G : lfunctor O A O A) (f : lohg O A) :
    lf_contract G -> (forall o, lf_map_object G o = [o]) ->
    lwf f -> ladj_ok f -> labels_consistent f ->
    exists sf fx h g,
      lohg_to_strict B eqO f = Ok sf /\ wf_ohg sf /\
      lax_good (dyn_batch G (edge_gens sf)) /\
      lohg_to_strict B eqO (dyn_batch G (edge_gens sf)) = Ok fx /\ wf_ohg fx /\
      define_map_arrow B eqO (dyn_functor G B eqO) sf = Ok h /\ wf_ohg h /\
      IsSubst sf (forget_fw (h_w (o_h sf))) fx (abs h) /\
      dyn_define_map_arrow G B eqO eqO f = Ok g /\ lohg_from_strict h = Ok g /\ labs g = abs h.
  Proof.
    intros HG Hobj W L C.
    destruct (dyn_substitution OK eqO eqO_spec eqO eqO_spec HG W L C)
      as (sf & fx & h & g & H1 & H2 & _ & _ & H5 & H6 & H7 & H8 & H9 & H10 & H11 & H12).
    rewrite (dyn_fw_identity_on_objects _ _ Hobj) in H9.
    exists sf, fx, h, g.
    pose proof (proj1 (dyn_batch_ok HG (edge_gens sf))) as Hgood. tauto.
  Qed.

  (* ---------- the batch of Forget, explicitly ---------- *)
  (* the tensor, over the hyperedges e of sf in order, of the image of e under [img] *)
  Definition image_batch (img : A -> list O -> list O -> lohg O A) (sf : ohg O A) : lohg O A :=
    fold_left (fun acc e => lohg_tensor acc (img (pe_lbl e) (sel (h_w (o_h sf)) (pe_src e))
                                                           (sel (h_w (o_h sf)) (pe_tgt e))))
              (p_edges (abs sf)) lohg_empty.

  Lemma dyn_batch_image (G : lfunctor O A O A) img sf :
    (forall a s t, lf_map_operation G a s t = img a s t) ->
    dyn_batch G (edge_gens sf) = image_batch img sf.
  Proof.
    intros HG. unfold dyn_batch, dyn_batch_from, edge_gens, image_batch. rewrite fold_left_map.
    apply fold_left_ext. intros acc e. unfold gen_img. cbn [fst snd]. rewrite HG. reflexivity.
  Qed.

  Definition forget_batch (sf : ohg O A) : lohg O A := image_batch fimage sf.

  Definition forget_mono_image (a : A) (s t : list O) : lohg O A :=
    if (length s =? 1) && (length t =? 1) then fimage a s t else lohg_singleton a s t.
  Definition forget_mono_batch (sf : ohg O A) : lohg O A := image_batch forget_mono_image sf.

  Lemma forget_mono_operation a s t :
    forget_mono_map_operation var_label eqO eqA a s t = forget_mono_image a s t.
  Proof.
    unfold forget_mono_map_operation, forget_mono_image. rewrite C19_forget_operation.
    destruct (length s =? 1); destruct (length t =? 1); reflexivity.
  Qed.

  (* no image carries pending unifications, hence neither does the batch *)
  Lemma image_batch_nopending img sf : (forall a s t, l_q (lo_h (img a s t)) = ([], [])) ->
    l_q (lo_h (image_batch img sf)) = ([], []).
  Proof.
    intros Himg. unfold image_batch.
    assert (G : forall (l : list (pedge A)) (acc : lohg O A), l_q (lo_h acc) = ([], []) ->
              l_q (lo_h (fold_left (fun acc e => lohg_tensor acc
                           (img (pe_lbl e) (sel (h_w (o_h sf)) (pe_src e)) (sel (h_w (o_h sf)) (pe_tgt e))))
                         l acc)) = ([], [])).
    { induction l as [|e l IH]; intros acc Hacc; [exact Hacc|]. cbn [fold_left]. apply IH.
      unfold lohg_tensor, lhg_coproduct. cbn [lo_h l_q]. rewrite Hacc, Himg. reflexivity. }
    apply G. reflexivity.
  Qed.

  Lemma forget_mono_image_nopending a s t : l_q (lo_h (forget_mono_image a s t)) = ([], []).
  Proof.
    unfold forget_mono_image. destruct ((length s =? 1) && (length t =? 1)).
    - apply forget_image_nopending.
    - apply lwf_singleton.
  Qed.

  (* ---------- which hyperedges are replaced ---------- *)
  (* exactly the var-labelled hyperedges whose incident nodes all carry one label are replaced: by
     one merged node (a spider with |s| inputs and |t| outputs on a single node), or by nothing when
     there is no incident node; every other hyperedge is kept as it is *)
  Definition forgettable (a : A) (s t : list O) : Prop :=
    a = var_label /\ forall x y, In x (s ++ t) -> In y (s ++ t) -> x = y.

  Theorem C19_forget_image_cases (a : A) (s t : list O) :
    (forgettable a s t ->
       fimage a s t = match s ++ t with
                      | [] => lohg_empty
                      | c :: _ => spider1 A c (length s) (length t)
                      end) /\
    (~ forgettable a s t -> fimage a s t = lohg_singleton a s t).
  Proof.
    unfold forgettable, forget_image.
    destruct (eqA a var_label && all_elements_equal eqO s t) eqn:E.
    - split; [reflexivity|]. intros H. exfalso. apply H.
      apply andb_true_iff in E. destruct E as [E1 E2]. split; [apply eqA_spec; exact E1|].
      apply (C19_all_equal O eqO s t eqO_spec). exact E2.
    - split; [|reflexivity]. intros [H1 H2]. exfalso.
      apply eqA_spec in H1. apply (C19_all_equal O eqO s t eqO_spec) in H2.
      rewrite H1, H2 in E. discriminate.
  Qed.

  (* ---------- C19_forget_subst ---------- *)
  (* the result of Forget is (the lax form of) the substitution instance of the strictified
     argument sf:  every node is kept (fw = the elements of the node labels, expansion is the
     identity), every hyperedge e is replaced by  forget_image (label e) (source labels e)
     (target labels e)  (fx = the strictification of their tensor, which has no pending pairs) *)
  Theorem C19_forget_subst (f : lohg O A) : lwf f -> ladj_ok f -> labels_consistent f ->
    exists sf fx h g,
      lohg_to_strict B eqO f = Ok sf /\ wf_ohg sf /\
      ic_elements (semi_vops O) (h_w (o_h sf)) = Ok (forget_fw (h_w (o_h sf))) /\
      (forall l, all_lt (length (h_w (o_h sf))) l -> expand (forget_fw (h_w (o_h sf))) l = l) /\
      lax_good (forget_batch sf) /\ l_q (lo_h (forget_batch sf)) = ([], []) /\
      lohg_to_strict B eqO (forget_batch sf) = Ok fx /\ wf_ohg fx /\
      define_map_arrow B eqO (dyn_functor FF B eqO) sf = Ok h /\ wf_ohg h /\
      IsSubst sf (forget_fw (h_w (o_h sf))) fx (abs h) /\
      forget var_label eqO eqA B f = Ok g /\ lohg_from_strict h = Ok g /\ labs g = abs h.
  Proof.
    intros W L C.
    destruct (@id_on_objects_subst FF f forget_functor_contract (fun o => eq_refl) W L C)
      as (sf & fx & h & g & H).
    rewrite (@dyn_batch_image FF fimage sf (C19_forget_operation O A var_label eqO eqA)) in H.
    exists sf, fx, h, g.
    pose proof (forget_fw_elements (h_w (o_h sf))).
    pose proof (expand_forget_fw (h_w (o_h sf))).
    pose proof (@image_batch_nopending fimage sf forget_image_nopending).
    unfold forget, forget_batch. tauto.
  Qed.

  Theorem C19_forget_monogamous_subst (f : lohg O A) : lwf f -> ladj_ok f -> labels_consistent f ->
    exists sf fx h g,
      lohg_to_strict B eqO f = Ok sf /\ wf_ohg sf /\
      ic_elements (semi_vops O) (h_w (o_h sf)) = Ok (forget_fw (h_w (o_h sf))) /\
      (forall l, all_lt (length (h_w (o_h sf))) l -> expand (forget_fw (h_w (o_h sf))) l = l) /\
      lax_good (forget_mono_batch sf) /\ l_q (lo_h (forget_mono_batch sf)) = ([], []) /\
      lohg_to_strict B eqO (forget_mono_batch sf) = Ok fx /\ wf_ohg fx /\
      define_map_arrow B eqO (dyn_functor FM B eqO) sf = Ok h /\ wf_ohg h /\
      IsSubst sf (forget_fw (h_w (o_h sf))) fx (abs h) /\
      forget_monogamous var_label eqO eqA B f = Ok g /\ lohg_from_strict h = Ok g /\ labs g = abs h.
  Proof.
    intros W L C.
    destruct (@id_on_objects_subst FM f forget_mono_functor_contract (fun o => eq_refl) W L C)
      as (sf & fx & h & g & H).
    rewrite (@dyn_batch_image FM forget_mono_image sf forget_mono_operation) in H.
    exists sf, fx, h, g.
    pose proof (forget_fw_elements (h_w (o_h sf))).
    pose proof (expand_forget_fw (h_w (o_h sf))).
    pose proof (@image_batch_nopending forget_mono_image sf forget_mono_image_nopending).
    unfold forget_monogamous, forget_mono_batch. tauto.
  Qed.

  (* with the canonical component numbering (VecKind) the strictified batch is its re-encoding *)
  Corollary C19_forget_batch_strict (sf : ohg O A) : cc_canonical B ->
    lohg_to_strict B eqO (forget_batch sf) = Ok (strict_of (forget_batch sf)).
  Proof.
    intros Hcc.
    pose proof (proj1 (dyn_batch_ok forget_functor_contract (edge_gens sf))) as (W & L & _).
    rewrite (@dyn_batch_image FF fimage sf (C19_forget_operation O A var_label eqO eqA)) in W, L.
    apply (to_strict_nopending OK eqO eqO_spec Hcc W L).
    apply image_batch_nopending. exact forget_image_nopending.
  Qed.
End ForgetDyn.

Print Assumptions forget_functor_contract.
Print Assumptions forget_mono_functor_contract.
Print Assumptions C19_forget_total_typed.
Print Assumptions C19_forget_monogamous_total_typed.
Print Assumptions C19_forget_image_cases.
Print Assumptions C19_forget_subst.
Print Assumptions C19_forget_monogamous_subst.
Print Assumptions C19_forget_batch_strict.

(* ====================================================================================== *)
(* Part 3: C05 for lax functor images                                                     *)
(* ====================================================================================== *)
Section C05Lax.
  Variable B : Backend.
  Hypothesis OK : BackendOK B.
  Variables O1 A1 O2 A2 : Type.
  Variable eqO1 : O1 -> O1 -> bool.
  Hypothesis eqO1_spec : forall x y, eqO1 x y = true <-> x = y.
  Variable eqO2 : O2 -> O2 -> bool.
  Hypothesis eqO2_spec : forall x y, eqO2 x y = true <-> x = y.
  Variable F : lfunctor O1 A1 O2 A2.
  Hypothesis HF : lf_contract F.

  (* well-formedness and typing of the image of a diagram under a lax functor, through the lax
     entry point: for every well-formed f : A -> B (pending unifications allowed) the call returns
     a well-formed quotient-free g : F(A) -> F(B), whose strictification is a well-formed strict
     diagram of the same type *)
  Theorem C05_lax_functor_image_wf_typed (f : lohg O1 A1) :
    lwf f -> ladj_ok f -> labels_consistent f ->
    exists a b g sg,
      lohg_source f = Ok a /\ lohg_target f = Ok b /\
      dyn_define_map_arrow F B eqO1 eqO2 f = Ok g /\
      lwf g /\ ladj_ok g /\ pending g = [] /\ l_q (lo_h g) = ([], []) /\
      lohg_source g = Ok (flat_map (lf_map_object F) a) /\
      lohg_target g = Ok (flat_map (lf_map_object F) b) /\
      lohg_to_strict B eqO2 g = Ok sg /\ wf_ohg sg /\
      src_type (abs sg) = map Some (flat_map (lf_map_object F) a) /\
      tgt_type (abs sg) = map Some (flat_map (lf_map_object F) b).
  Proof.
    intros W L C.
    destruct (dyn_total_typed OK eqO1 eqO1_spec eqO2 eqO2_spec HF W L C)
      as (sf & a & b & g & _ & _ & Ha & Hb & _ & _ & Hg & Wg & Lg & Pg & Qg & Sg & Tg).
    pose proof (pending_nil_consistent O2 A2 g Qg) as Cg.
    destruct (C10_to_strict_spec OK eqO2 eqO2_spec Wg Lg Cg) as (sg & Hsg & Wsg & q & HQ & _).
    destruct (strict_types Wg HQ) as [Hs Ht].
    exists a, b, g, sg.
    rewrite (lohg_source_type _ Sg) in Hs. rewrite (lohg_target_type _ Tg) in Ht.
    repeat match goal with |- _ /\ _ => split end; assumption.
  Qed.
End C05Lax.

Print Assumptions C05_lax_functor_image_wf_typed.

(* ====================================================================================== *)
(* Examples (O := nat, A := nat, var label 0)                                             *)
(* ====================================================================================== *)
Section Examples.
  Notation fg := (forget 0 Nat.eqb Nat.eqb VecBackend).
  Notation fgm := (forget_monogamous 0 Nat.eqb Nat.eqb VecBackend).

  (* a uniform var edge 1 -> 2 (all incident nodes labelled 5) feeding an operation 7 : 5 5 -> 6:
     the var edge and its three nodes collapse to one node, used twice by 7 *)
  Definition ex_uniform : lohg nat nat :=
    mkLOHG [0] [3] (mkLHG [5; 5; 5; 6] [0; 7] [([0], [1; 2]); ([1; 2], [3])] ([], [])).

  Example ex_forget_uniform :
    fg ex_uniform = Ok (mkLOHG [0] [1] (mkLHG [5; 6] [7] [([0; 0], [1])] ([], []))).
  Proof. vm_compute. reflexivity. Qed.

  (* the monogamous variant only touches 1 -> 1 var edges: this one is kept *)
  Example ex_forget_mono_uniform : fgm ex_uniform = Ok ex_uniform.
  Proof. vm_compute. reflexivity. Qed.

  (* a non-uniform var edge (5 -> 6 6) is kept *)
  Definition ex_nonuniform : lohg nat nat :=
    mkLOHG [0] [3] (mkLHG [5; 6; 6; 6] [0; 7] [([0], [1; 2]); ([1; 2], [3])] ([], [])).

  Example ex_forget_nonuniform : fg ex_nonuniform = Ok ex_nonuniform.
  Proof. vm_compute. reflexivity. Qed.

  (* a var edge 0 -> 0 is replaced by nothing *)
  Definition ex_nullary : lohg nat nat :=
    mkLOHG [0] [1] (mkLHG [5; 6] [0; 7] [([], []); ([0], [1])] ([], [])).

  Example ex_forget_nullary :
    fg ex_nullary = Ok (mkLOHG [0] [1] (mkLHG [5; 6] [7] [([0], [1])] ([], []))).
  Proof. vm_compute. reflexivity. Qed.

  (* a var edge [] -> [A; B] with A <> B is kept *)
  Definition ex_fanout : lohg nat nat := mkLOHG [] [0; 1] (mkLHG [5; 6] [0] [([], [0; 1])] ([], [])).

  Example ex_forget_fanout : fg ex_fanout = Ok ex_fanout.
  Proof. vm_compute. reflexivity. Qed.

  (* ... with A = B it is replaced by one node *)
  Example ex_forget_fanout_uniform :
    fg (mkLOHG [] [0; 1] (mkLHG [5; 5] [0] [([], [0; 1])] ([], []))) =
    Ok (mkLOHG [] [0; 0] (mkLHG [5] [] [] ([], []))).
  Proof. vm_compute. reflexivity. Qed.

  (* a term WITH a pending unification (node 1 ~ node 2): a var wire 0 : 5 -> 5 followed by 7 : 5 -> 6 *)
  Definition ex_pending : lohg nat nat :=
    mkLOHG [0] [3] (mkLHG [5; 5; 5; 6] [0; 7] [([0], [1]); ([2], [3])] ([1], [2])).

  Example ex_forget_pending :
    fg ex_pending = Ok (mkLOHG [0] [1] (mkLHG [5; 6] [7] [([0], [1])] ([], []))) /\
    fgm ex_pending = Ok (mkLOHG [0] [1] (mkLHG [5; 6] [7] [([0], [1])] ([], []))).
  Proof. split; vm_compute; reflexivity. Qed.

  (* the hypotheses of the theorems are satisfiable *)
  Example ex_pending_good : lwf ex_pending /\ ladj_ok ex_pending /\ labels_consistent ex_pending.
  Proof.
    split; [|split].
    - unfold lwf, hwf, nn, hn, ex_pending, all_lt; cbn.
      split; [split; [|split; [|split]]|split].
      + intros e [<-|[<-|[]]]; cbn; split; repeat constructor.
      + repeat constructor.
      + repeat constructor.
      + reflexivity.
      + repeat constructor.
      + repeat constructor.
    - reflexivity.
    - intros i j _ _ C.
      apply (conn_invariant (fun x => nth_error (l_nodes (lo_h ex_pending)) x) (pending ex_pending)); auto.
      intros x y [E|[]]; inversion E; reflexivity.
  Qed.

  (* the theorem applied on the adversarial back-end (nothing to compute with there) *)
  Example ex_pending_total_typed :
    exists g, forget 0 Nat.eqb Nat.eqb AdvBackend ex_pending = Ok g /\ lwf g /\ pending g = [] /\
              lohg_source g = Ok [5] /\ lohg_target g = Ok [6].
  Proof.
    destruct ex_pending_good as (W & L & C).
    destruct (C19_forget_total_typed AdvBackend_ok Nat.eqb Nat.eqb_eq Nat.eqb 0 W L C)
      as (sf & a & b & g & _ & _ & Ha & Hb & _ & _ & Hg & Wg & _ & Pg & _ & Sg & Tg).
    exists g. vm_compute in Ha, Hb. inversion Ha; inversion Hb; subst. auto.
  Qed.

  (* the general theorem on a functor that is not the identity on objects: every wire is doubled *)
  Definition dup (o : nat) : list nat := [o; o + 100].
  Definition ex_double : lfunctor nat nat nat nat :=
    mkLF dup (fun a s t => lohg_singleton a (flat_map dup s) (flat_map dup t)).

  Example ex_double_contract : lf_contract ex_double.
  Proof.
    intros a s t. cbn [ex_double lf_map_operation lf_map_object].
    destruct (lax_good_singleton a (flat_map dup s) (flat_map dup t)) as (W & L & C).
    split; [exact W|]. split; [exact L|]. split; [exact C|].
    split; [apply lohg_singleton_source|apply lohg_singleton_target].
  Qed.

  Example ex_double_run :
    dyn_define_map_arrow ex_double VecBackend Nat.eqb Nat.eqb ex_pending =
    Ok (mkLOHG [0; 1] [4; 5]
          (mkLHG [5; 105; 5; 105; 6; 106] [0; 7] [([0; 1], [2; 3]); ([2; 3], [4; 5])] ([], []))).
  Proof. vm_compute. reflexivity. Qed.

  Example ex_double_applies :
    exists g, dyn_define_map_arrow ex_double AdvBackend Nat.eqb Nat.eqb ex_pending = Ok g /\ lwf g /\
              pending g = [] /\ lohg_source g = Ok [5; 105] /\ lohg_target g = Ok [6; 106].
  Proof.
    destruct ex_pending_good as (W & L & C).
    destruct (C05_lax_functor_image_wf_typed AdvBackend_ok Nat.eqb Nat.eqb_eq Nat.eqb Nat.eqb_eq
                ex_double_contract W L C)
      as (a & b & g & sg & Ha & Hb & Hg & Wg & _ & Pg & _ & Sg & Tg & _).
    exists g. vm_compute in Ha, Hb. inversion Ha; inversion Hb; subst. auto.
  Qed.

  (* the substitution description on the uniform example: the batch is the tensor of the two images *)
  Example ex_forget_batch :
    forget_batch Nat.eqb Nat.eqb 0
      (mkOHG (mkFF [0] 4) (mkFF [3] 4)
             (mkHG (mkIC (mkFF [1; 2] 4) (mkFF [0; 1; 2] 4)) (mkIC (mkFF [2; 1] 4) (mkFF [1; 2; 3] 4))
                   [5; 5; 5; 6] [0; 7])) =
    lohg_tensor (lohg_tensor lohg_empty (spider1 nat 5 1 2)) (lohg_singleton 7 [5; 5] [6]).
  Proof. vm_compute. reflexivity. Qed.
End Examples.

(* the substitution theorem applied (adversarial back-end) *)
Example ex_pending_subst :
  exists sf fx h g,
    lohg_to_strict AdvBackend Nat.eqb ex_pending = Ok sf /\
    lohg_to_strict AdvBackend Nat.eqb (forget_batch Nat.eqb Nat.eqb 0 sf) = Ok fx /\
    IsSubst sf (forget_fw (h_w (o_h sf))) fx (abs h) /\
    forget 0 Nat.eqb Nat.eqb AdvBackend ex_pending = Ok g /\ labs g = abs h.
Proof.
  destruct ex_pending_good as (W & L & C).
  destruct (C19_forget_subst AdvBackend_ok Nat.eqb Nat.eqb_eq Nat.eqb 0 W L C)
    as (sf & fx & h & g & H).
  exists sf, fx, h, g. tauto.
Qed.
