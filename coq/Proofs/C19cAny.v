(* C19c, part 3: the same on ANY conforming back-end (no canonical component numbering).
   A strictification without pending pairs only renumbers nodes (to_strict_niso); the Forget batch
   does not see the numbering (forget_batch_renumber); the substitution data of C12 are transported
   along the renumberings and the two quotients are isomorphic (QuotThm.quot_iso). *)
From OHG Require Import Spec.Plain Proofs.PrimsThm Proofs.CCThm Proofs.SegThm Proofs.C08Thm
  Proofs.C01Lemmas Proofs.C01Thm Proofs.QuotThm Proofs.C09Thm Proofs.C10Lemmas Proofs.C10Strict
  Proofs.C10Thm Proofs.C12Lemmas Proofs.C12Plain Proofs.C12Thm Proofs.C05Thm Proofs.C19Thm
  Proofs.C19bLemmas Proofs.C19bThm Proofs.BackendInst Proofs.C16Thm Proofs.C19cSem Proofs.C19cIso.
From Coq Require Import List Arith Lia Bool Permutation.
Import ListNotations.

Set Implicit Arguments.
Arguments Nat.sub : simpl never.

(* ====================================================================================== *)
(* 1. strictification without pending pairs is a renumbering of nodes                     *)
(* ====================================================================================== *)
Section Renumber.
  Variable B : Backend.
  Hypothesis OK : BackendOK B.
  Variables O A : Type.
  Variable eqO : O -> O -> bool.
  Hypothesis eqO_spec : forall x y, eqO x y = true <-> x = y.

  Lemma to_strict_niso (g : lohg O A) : lwf g -> ladj_ok g -> l_q (lo_h g) = ([], []) ->
    exists s, lohg_to_strict B eqO g = Ok s /\ wf_ohg s /\ NIso (labs g) (abs s).
  Proof.
    intros Hw Hl Hq.
    destruct (C10_to_strict_spec OK eqO eqO_spec Hw Hl (pending_nil_consistent O A g Hq))
      as (s & Hs & Ws & q & HQ & HK).
    exists s. split; [exact Hs|]. split; [exact Ws|].
    apply (quot_unique (lwf_pwf Hw) (IsQuot_id (labs g)) HQ).
    intros i j Hi Hj. rewrite (HK i j Hi Hj). unfold pending. rewrite Hq. cbn [fst snd combine].
    split; [intros ->; apply conn_refl|apply conn_nil].
  Qed.
End Renumber.

(* all hyperedge sources / targets of a strict diagram, from its plain form *)
Lemma edge_sources_abs {O A} (sf : ohg O A) : wf_ohg sf ->
  edge_sources sf = concat (map (@pe_src A) (p_edges (abs sf))) /\
  edge_targets sf = concat (map (@pe_tgt A) (p_edges (abs sf))).
Proof.
  intros (((Ws1 & _) & (Wt1 & _) & Hls & Hlt & _) & _).
  unfold edge_sources, edge_targets, abs, abs_hg_edges. cbn [p_edges].
  rewrite zip3_src, zip3_tgt by (rewrite decode_length; assumption).
  destruct Ws1 as [_ Es]. destruct Wt1 as [_ Et]. unfold decode_f.
  rewrite !segs_concat by assumption. split; reflexivity.
Qed.

(* ====================================================================================== *)
(* 2. the Forget batch does not depend on the node numbering                              *)
(* ====================================================================================== *)
Lemma fold_left_ext_in {X S} (f g : S -> X -> S) (l : list X) :
  (forall s x, In x l -> f s x = g s x) -> forall s, fold_left f l s = fold_left g l s.
Proof.
  induction l as [|x l IH]; intros H s; [reflexivity|]. cbn [fold_left].
  rewrite (H s x (or_introl eq_refl)). apply IH. intros s' y Hy. apply H. right. exact Hy.
Qed.

Lemma sel_renumber {X} (w w' : list X) (pn : nat -> nat) l :
  (forall i, In i l -> nth_error w' (pn i) = nth_error w i) -> sel w' (map pn l) = sel w l.
Proof.
  induction l as [|i l IH]; intros H; [reflexivity|]. unfold sel in *. cbn [map flat_map].
  rewrite (H i (or_introl eq_refl)). f_equal. apply IH. intros j Hj. apply H. right. exact Hj.
Qed.

Section BatchRenumber.
  Variables O A : Type.
  Variable eqO : O -> O -> bool.
  Variable eqA : A -> A -> bool.
  Variable var_label : A.

  Lemma forget_batch_renumber (sf0 sf : ohg O A) (pn : nat -> nat) :
    pwf (abs sf0) ->
    p_edges (abs sf) = map (map_edge pn) (p_edges (abs sf0)) ->
    (forall i, i < length (h_w (o_h sf0)) -> nth_error (h_w (o_h sf)) (pn i) = nth_error (h_w (o_h sf0)) i) ->
    forget_batch eqO eqA var_label sf = forget_batch eqO eqA var_label sf0.
  Proof.
    intros (He & _ & _) Hedges Hlab. unfold forget_batch, image_batch. rewrite Hedges, fold_left_map.
    apply fold_left_ext_in. intros acc e Hin. destruct (He e Hin) as [Hs Ht]. cbn [abs p_nodes] in Hs, Ht.
    cbn [map_edge pe_lbl pe_src pe_tgt].
    rewrite !(@sel_renumber _ (h_w (o_h sf0)) (h_w (o_h sf)) pn); [reflexivity| |].
    - intros i Hi. apply Hlab. unfold all_lt in Ht. rewrite Forall_forall in Ht. exact (Ht _ Hi).
    - intros i Hi. apply Hlab. unfold all_lt in Hs. rewrite Forall_forall in Hs. exact (Hs _ Hi).
  Qed.
End BatchRenumber.

(* ====================================================================================== *)
(* 3. transport of the substitution data of C12 along two renumberings                    *)
(* ====================================================================================== *)
Section Transport.
  Variables O A : Type.
  Variables sf0 sf fx0 fx : ohg O A.
  Hypothesis Wsf0 : wf_ohg sf0.
  Hypothesis Wsf : wf_ohg sf.
  Hypothesis Wfx0 : wf_ohg fx0.
  Hypothesis Wfx : wf_ohg fx.
  Variables pn1 pn2 : nat -> nat.

  Notation N := (length (h_w (o_h sf0))).
  Notation M := (length (h_w (o_h fx0))).

  Hypothesis H1n : length (h_w (o_h sf)) = N.
  Hypothesis H1b : bij_on N pn1.
  Hypothesis H1l : forall i, i < N -> nth_error (h_w (o_h sf)) (pn1 i) = nth_error (h_w (o_h sf0)) i.
  Hypothesis H1e : p_edges (abs sf) = map (map_edge pn1) (p_edges (abs sf0)).
  Hypothesis H1i : table (o_s sf) = map pn1 (table (o_s sf0)).
  Hypothesis H1o : table (o_t sf) = map pn1 (table (o_t sf0)).
  Hypothesis H2n : length (h_w (o_h fx)) = M.
  Hypothesis H2b : bij_on M pn2.
  Hypothesis H2l : forall i, i < M -> nth_error (h_w (o_h fx)) (pn2 i) = nth_error (h_w (o_h fx0)) i.
  Hypothesis H2e : p_edges (abs fx) = map (map_edge pn2) (p_edges (abs fx0)).
  Hypothesis H2i : table (o_s fx) = map pn2 (table (o_s fx0)).
  Hypothesis H2o : table (o_t fx) = map pn2 (table (o_t fx0)).

  Definition tpn : nat -> nat := qsum N N pn1 pn2.
  Notation D0 := (subst_D sf0 (forget_fw (h_w (o_h sf0))) fx0).
  Notation D1 := (subst_D sf (forget_fw (h_w (o_h sf))) fx).
  Notation P0 := (subst_pairs sf0 (forget_fw (h_w (o_h sf0))) fx0).
  Notation P1 := (subst_pairs sf (forget_fw (h_w (o_h sf))) fx).

  Lemma tr_len0 : length (p_nodes D0) = N + M.
  Proof. unfold subst_D. cbn [p_nodes forget_fw ic_values]. apply app_length. Qed.

  Lemma tr_len1 : length (p_nodes D1) = N + M.
  Proof. unfold subst_D. cbn [p_nodes forget_fw ic_values]. rewrite app_length, H1n, H2n. reflexivity. Qed.

  Lemma tr_bij : bij_on (N + M) tpn.
  Proof. apply bij_on_qsum; assumption. Qed.

  Lemma tr_nodes i : i < N + M -> nth_error (p_nodes D1) (tpn i) = nth_error (p_nodes D0) i.
  Proof.
    intros Hi. unfold subst_D, tpn. cbn [p_nodes forget_fw ic_values].
    destruct (Nat.lt_ge_cases i N) as [Hlt|Hge].
    - rewrite qsum_l by exact Hlt. pose proof (proj1 H1b i Hlt) as Hp.
      rewrite !nth_error_app1 by lia. apply H1l. exact Hlt.
    - rewrite qsum_r by exact Hge. rewrite !nth_error_app2 by lia. rewrite H1n.
      replace (pn2 (i - N) + N - N) with (pn2 (i - N)) by lia. apply H2l. lia.
  Qed.

  Lemma tr_ins_lt : all_lt N (table (o_s sf0)) /\ all_lt N (table (o_t sf0)).
  Proof. destruct Wsf0 as (_ & Hs & Ht & Es & Et). unfold wf_ff in Hs, Ht. rewrite Es in Hs. rewrite Et in Ht. auto. Qed.

  Lemma tr_ins1_lt : all_lt (length (h_w (o_h sf))) (table (o_s sf)) /\ all_lt (length (h_w (o_h sf))) (table (o_t sf)).
  Proof. destruct Wsf as (_ & Hs & Ht & Es & Et). unfold wf_ff in Hs, Ht. rewrite Es in Hs. rewrite Et in Ht. auto. Qed.

  Lemma tr_ins : p_ins D1 = map tpn (p_ins D0) /\ p_outs D1 = map tpn (p_outs D0).
  Proof.
    unfold subst_D. cbn [p_ins p_outs]. destruct tr_ins_lt as [Hs Ht]. destruct tr_ins1_lt as [Hs1 Ht1].
    rewrite !expand_forget_fw by assumption. unfold tpn. rewrite !map_qsum_l by assumption. auto.
  Qed.

  Lemma tr_edges : p_edges D1 = map (map_edge tpn) (p_edges D0).
  Proof.
    unfold subst_D. cbn [p_edges forget_fw ic_values]. rewrite H2e, H1n, !map_map.
    apply map_ext. intros e. unfold tpn. rewrite map_edge_qsum_r. reflexivity.
  Qed.

  Lemma tr_es_lt : all_lt N (edge_sources sf0) /\ all_lt N (edge_targets sf0).
  Proof.
    destruct Wsf0 as (((_ & Hs) & (_ & Ht) & _ & _ & Es & Et) & _). unfold wf_ff in Hs, Ht.
    rewrite Es in Hs. rewrite Et in Ht. auto.
  Qed.

  Lemma tr_es1_lt : all_lt (length (h_w (o_h sf))) (edge_sources sf) /\ all_lt (length (h_w (o_h sf))) (edge_targets sf).
  Proof.
    destruct Wsf as (((_ & Hs) & (_ & Ht) & _ & _ & Es & Et) & _). unfold wf_ff in Hs, Ht.
    rewrite Es in Hs. rewrite Et in Ht. auto.
  Qed.

  Lemma tr_es : edge_sources sf = map pn1 (edge_sources sf0) /\ edge_targets sf = map pn1 (edge_targets sf0).
  Proof.
    destruct (edge_sources_abs Wsf) as [E1 E2]. destruct (edge_sources_abs Wsf0) as [E3 E4].
    rewrite E1, E2, E3, E4, H1e, !map_map, !concat_map, !map_map. split; reflexivity.
  Qed.

  Lemma tr_pairs : P1 = pmap tpn P0.
  Proof.
    unfold subst_pairs. cbn [forget_fw ic_values]. destruct tr_es_lt as [Hs Ht]. destruct tr_es1_lt as [Hs1 Ht1].
    destruct tr_es as [E1 E2].
    rewrite !expand_forget_fw by assumption. rewrite pmap_app, <- !combine_pmap.
    cbn [abs p_ins p_outs]. rewrite E1, E2, H2i, H2o, H1n. unfold tpn.
    rewrite !map_qsum_r, !map_qsum_l by assumption. reflexivity.
  Qed.

  Lemma tr_pairs_lt : pairs_lt (N + M) P0.
  Proof.
    unfold subst_pairs. cbn [forget_fw ic_values]. destruct tr_es_lt as [Hs Ht].
    rewrite !expand_forget_fw by assumption. cbn [abs p_ins p_outs].
    destruct Wfx0 as (_ & Hi & Ho & Ei & Eo). unfold wf_ff in Hi, Ho. rewrite Ei in Hi. rewrite Eo in Ho.
    apply pairs_lt_app; apply pairs_lt_combine;
      try (eapply C01Lemmas.all_lt_mono; [|eassumption]; lia); apply all_lt_shiftl; assumption.
  Qed.

  (* quotients of the two data with kernels given by the two pair lists are isomorphic *)
  Theorem subst_transport (h0 h1 : pohg O A) :
    IsSubst sf0 (forget_fw (h_w (o_h sf0))) fx0 h0 -> IsSubst sf (forget_fw (h_w (o_h sf))) fx h1 ->
    Iso h0 h1.
  Proof.
    intros (q0 & HQ0 & HK0) (q1 & HQ1 & HK1). cbn [forget_fw ic_values] in HK0, HK1.
    destruct tr_ins as [Ei Eo].
    apply (@quot_iso O A D0 D1 tpn q0 q1 h0 h1).
    - apply pwf_subst_D; [apply wf_forget_fw|exact Wfx0].
    - rewrite tr_len0, tr_len1. reflexivity.
    - rewrite tr_len0. exact tr_bij.
    - rewrite tr_len0. exact tr_nodes.
    - rewrite tr_edges. apply Permutation_refl.
    - exact Ei.
    - exact Eo.
    - exact HQ0.
    - exact HQ1.
    - rewrite tr_len0. intros i j Hi Hj. rewrite (HK0 i j Hi Hj).
      destruct tr_bij as [Hr _]. rewrite H1n, H2n in HK1.
      rewrite (HK1 (tpn i) (tpn j) (Hr i Hi) (Hr j Hj)), tr_pairs.
      apply (conn_pmap_bij tr_bij tr_pairs_lt); assumption.
  Qed.
End Transport.

(* ====================================================================================== *)
(* 4. forgetting a built term on any conforming back-end                                  *)
(* ====================================================================================== *)
Section AnyBackend.
  Variable B : Backend.
  Hypothesis OK : BackendOK B.
  Variables O A : Type.
  Variable eqO : O -> O -> bool.
  Hypothesis eqO_spec : forall x y, eqO x y = true <-> x = y.
  Variable eqA : A -> A -> bool.
  Hypothesis eqA_spec : forall x y, eqA x y = true <-> x = y.
  Variable var_label : A.

  Theorem forget_built_expected_any (prog : list (vcmd O A)) (ins outs : list nat) :
    prog_ok 0 prog ->
    Forall (fun h => h < nvars prog) ins -> Forall (fun h => h < nvars prog) outs ->
    (forall o, In o (g_ops 0 prog) -> o_lbl o <> var_label) ->
    exists f g s,
      var_build var_label prog ins outs false = Ok (Some f) /\
      forget var_label eqO eqA B f = Ok g /\
      lohg_to_strict B eqO g = Ok s /\ wf_ohg s /\
      Iso (expected prog ins outs) (abs s).
  Proof.
    intros Hok Hins Houts Hnovar.
    destruct (C19_build_structure O A var_label prog ins outs Hok Hins Houts)
      as (f & vs & Hb & _ & Hlwf & Hladj & Hq & _ & _ & _ & _ & _ & _ & Hvs & Hinv & _ & _ & HFs & HFt).
    destruct (C19_forget_subst OK eqO eqO_spec eqA var_label Hlwf Hladj (pending_nil_consistent O A f Hq))
      as (sf & fx & h & g & Hsf & Wsf & _ & _ & Hgood & Hbq & Hfx & Wfx & _ & Wh & Hsub & Hg & Hfrom & _).
    (* the strictified term is a renumbering of the re-encoding *)
    destruct (to_strict_niso OK eqO eqO_spec Hlwf Hladj Hq) as (sf' & Hsf' & _ & HN1).
    rewrite Hsf in Hsf'. inversion Hsf'; subst sf'. clear Hsf'.
    destruct HN1 as (Hn1 & pn1 & Hb1 & Hl1 & He1 & Hi1 & Ho1).
    pose proof (wf_strict_of Hlwf Hladj) as Wsf0.
    (* the batch is the batch of the re-encoding *)
    assert (Hbat : forget_batch eqO eqA var_label sf = forget_batch eqO eqA var_label (strict_of f)).
    { apply (@forget_batch_renumber O A eqO eqA var_label (strict_of f) sf pn1).
      - rewrite abs_strict_of. exact (lwf_pwf Hlwf).
      - rewrite abs_strict_of. exact He1.
      - exact Hl1. }
    rewrite Hbat in Hgood, Hbq, Hfx.
    destruct Hgood as (Wbat & Lbat & _).
    destruct (to_strict_niso OK eqO eqO_spec Wbat Lbat Hbq) as (fx' & Hfx' & _ & HN2).
    rewrite Hfx in Hfx'. inversion Hfx'; subst fx'. clear Hfx'.
    destruct HN2 as (Hn2 & pn2 & Hb2 & Hl2 & He2 & Hi2 & Ho2).
    pose proof (wf_strict_of Wbat Lbat) as Wfx0.
    (* the two substitution instances are isomorphic *)
    pose proof (expected_is_subst eqO eqO_spec eqA eqA_spec prog Hnovar Hinv Hvs HFs HFt Hlwf) as Hsub0.
    assert (HI : Iso (expected prog ins outs) (abs h)).
    { apply (@subst_transport O A (strict_of f) sf (strict_of (forget_batch eqO eqA var_label (strict_of f))) fx
               Wsf0 Wsf Wfx0 pn1 pn2); try assumption.
      - symmetry. exact Hn1.
      - rewrite abs_strict_of. exact He1.
      - symmetry. exact Hn2.
      - rewrite abs_strict_of. exact He2. }
    (* strictifying the lax form of h renumbers once more *)
    rewrite (lohg_from_strict_ok Wh) in Hfrom. inversion Hfrom; subst g.
    destruct (to_strict_niso OK eqO eqO_spec (lwf_lax_of Wh) (ladj_ok_lax_of Wh) (proj2 (pending_lax_of h)))
      as (s & Hs & Ws & HN3).
    rewrite labs_lax_of in HN3.
    exists f, (lax_of h), s. split; [exact Hb|]. split; [exact Hg|]. split; [exact Hs|]. split; [exact Ws|].
    apply (Iso_trans HI). apply NIso_Iso. exact HN3.
  Qed.
End AnyBackend.

Print Assumptions subst_transport.
Print Assumptions forget_built_expected_any.
