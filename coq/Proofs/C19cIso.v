(* C19c, part 2: the substitution instance computed by Forget on a Var-built term is (up to a
   renumbering of nodes) the expected diagram of C19cSem.v.
     1. blocks of a concatenation, iterated juxtaposition of plain diagrams
     2. Core: on ghost data (roles, hyperedge kinds, labels) the disjoint union "nodes + batch" with
        the gluing pairs of C12 has the expected diagram as its quotient      (core_quot, core_ker)
     3. the Forget batch of a built term is the batch of the Core               (batch_plain)
     4. forget_expected: NIso (expected prog ins outs) (abs h) for the strict image h *)
From OHG Require Import Spec.Plain Proofs.PrimsThm Proofs.CCThm Proofs.SegThm Proofs.C08Thm
  Proofs.C01Lemmas Proofs.C01Thm Proofs.QuotThm Proofs.C09Thm Proofs.C10Lemmas Proofs.C10Strict
  Proofs.C10Quot Proofs.C10Thm Proofs.C12Lemmas Proofs.C12Plain Proofs.C12Thm Proofs.C19Thm
  Proofs.C19bLemmas Proofs.C19bThm Proofs.BackendInst Proofs.C19cSem.
From Coq Require Import List Arith Lia Bool.
Import ListNotations.

Set Implicit Arguments.
Arguments Nat.sub : simpl never.

(* ====================================================================================== *)
(* 1. blocks                                                                              *)
(* ====================================================================================== *)
Section Blocks.
  Variables X Y : Type.

  (* position of block e inside the concatenation *)
  Definition boffs (bs : list (list X)) (e : nat) : nat := length (concat (firstn e bs)).

  Lemma boffs_0 bs : boffs bs 0 = 0.
  Proof. reflexivity. Qed.

  Lemma boffs_S b bs e : boffs (b :: bs) (S e) = length b + boffs bs e.
  Proof. unfold boffs. cbn [firstn concat]. apply app_length. Qed.

  Lemma nth_error_concat_block (bs : list (list X)) : forall e b p,
    nth_error bs e = Some b -> p < length b ->
    nth_error (concat bs) (boffs bs e + p) = nth_error b p.
  Proof.
    induction bs as [|b0 bs IH]; intros e b p He Hp; [destruct e; discriminate|].
    destruct e as [|e]; cbn [nth_error] in He.
    - inversion He; subst b0. rewrite boffs_0. cbn [concat Nat.add]. apply nth_error_app1. exact Hp.
    - rewrite boffs_S. cbn [concat]. rewrite nth_error_app2 by lia.
      replace (length b0 + boffs bs e + p - length b0) with (boffs bs e + p) by lia.
      apply IH; assumption.
  Qed.

  Lemma concat_block_inv (bs : list (list X)) : forall j, j < length (concat bs) ->
    exists e b p, nth_error bs e = Some b /\ p < length b /\ j = boffs bs e + p.
  Proof.
    induction bs as [|b0 bs IH]; intros j Hj; cbn [concat length] in Hj; [lia|].
    rewrite app_length in Hj. destruct (Nat.lt_ge_cases j (length b0)) as [Hlt|Hge].
    - exists 0, b0, j. split; [reflexivity|]. split; [exact Hlt|]. rewrite boffs_0. reflexivity.
    - destruct (IH (j - length b0) ltac:(lia)) as (e & b & p & He & Hp & Hjp).
      exists (S e), b, p. split; [exact He|]. split; [exact Hp|]. rewrite boffs_S. lia.
  Qed.

  (* pairs of two concatenations with blocks of equal lengths *)
  Lemma in_combine_concat (As : list (list X)) : forall (Bs : list (list Y)) x y,
    Forall2 (fun a b => length a = length b) As Bs ->
    (In (x, y) (combine (concat As) (concat Bs)) <->
     exists e a b, nth_error As e = Some a /\ nth_error Bs e = Some b /\ In (x, y) (combine a b)).
  Proof.
    induction As as [|a As IH]; intros Bs x y HF; inversion HF as [|a' b As' Bs' Hab HF']; subst.
    - cbn [concat combine In]. split; [intros []|]. intros (e & a & b & He & _). destruct e; discriminate.
    - cbn [concat]. rewrite combine_app_eq by exact Hab. rewrite in_app_iff, (IH Bs' x y HF'). split.
      + intros [H|(e & a0 & b0 & H1 & H2 & H3)].
        * exists 0, a, b. auto.
        * exists (S e), a0, b0. auto.
      + intros (e & a0 & b0 & H1 & H2 & H3). destruct e as [|e]; cbn [nth_error] in H1, H2.
        * inversion H1; inversion H2; subst. left. exact H3.
        * right. exists e, a0, b0. auto.
  Qed.
End Blocks.

Lemma Forall2_nth_error {X Y} (R : X -> Y -> Prop) (l1 : list X) : forall (l2 : list Y),
  length l1 = length l2 ->
  (forall e a b, nth_error l1 e = Some a -> nth_error l2 e = Some b -> R a b) -> Forall2 R l1 l2.
Proof.
  induction l1 as [|a l1 IH]; intros [|b l2] Hl H; cbn [length] in Hl; try discriminate; constructor.
  - apply (H 0); reflexivity.
  - apply IH; [lia|]. intros e a' b' Ha Hb. apply (H (S e)); assumption.
Qed.

Lemma Forall2_nth_l {X Y} (R : X -> Y -> Prop) l1 l2 p x : Forall2 R l1 l2 -> nth_error l1 p = Some x ->
  exists y, nth_error l2 p = Some y /\ R x y.
Proof.
  intros HF. revert p. induction HF as [|a b l1 l2 Hab HF IH]; intros p Hp; [destruct p; discriminate|].
  destruct p as [|p]; cbn [nth_error] in *.
  - inversion Hp; subst. eauto.
  - apply IH. exact Hp.
Qed.

Lemma Forall2_nth_r {X Y} (R : X -> Y -> Prop) l1 l2 p y : Forall2 R l1 l2 -> nth_error l2 p = Some y ->
  exists x, nth_error l1 p = Some x /\ R x y.
Proof.
  intros HF. revert p. induction HF as [|a b l1 l2 Hab HF IH]; intros p Hp; [destruct p; discriminate|].
  destruct p as [|p]; cbn [nth_error] in *.
  - inversion Hp; subst. eauto.
  - apply IH. exact Hp.
Qed.

Lemma in_combine_nth {X Y} (l1 : list X) : forall (l2 : list Y) x y,
  In (x, y) (combine l1 l2) <-> exists p, nth_error l1 p = Some x /\ nth_error l2 p = Some y.
Proof.
  induction l1 as [|a l1 IH]; intros [|b l2] x y; cbn [combine In].
  - split; [intros []|intros (p & H & _); destruct p; discriminate].
  - split; [intros []|intros (p & H & _); destruct p; discriminate].
  - split; [intros []|intros (p & _ & H); destruct p; discriminate].
  - rewrite IH. split.
    + intros [E|(p & H1 & H2)]; [inversion E; subst; exists 0; auto|exists (S p); auto].
    + intros (p & H1 & H2). destruct p as [|p]; cbn [nth_error] in *.
      * left. congruence.
      * right. eauto.
Qed.

Lemma nth_error_shiftl n l p : nth_error (shiftl n l) p = option_map (fun x => x + n) (nth_error l p).
Proof. unfold shiftl. apply nth_error_map. Qed.

Lemma shiftl_concat n (Bs : list (list nat)) : shiftl n (concat Bs) = concat (map (shiftl n) Bs).
Proof. unfold shiftl. apply concat_map. Qed.

Lemma shiftl_length n l : length (shiftl n l) = length l.
Proof. apply map_length. Qed.

Lemma nth_error_repeat {X} (c : X) n p : p < n -> nth_error (repeat c n) p = Some c.
Proof.
  revert p. induction n as [|n IH]; intros p Hp; [lia|]. destruct p as [|p]; cbn [repeat nth_error]; [reflexivity|].
  apply IH. lia.
Qed.

Lemma nth_error_seq a n p : p < n -> nth_error (seq a n) p = Some (a + p).
Proof.
  revert a p. induction n as [|n IH]; intros a p Hp; [lia|]. destruct p as [|p]; cbn [seq nth_error].
  - f_equal. lia.
  - rewrite IH by lia. f_equal. lia.
Qed.

(* ====================================================================================== *)
(* 2. iterated juxtaposition of plain diagrams                                            *)
(* ====================================================================================== *)
Section Tens.
  Variables O A : Type.
  Implicit Types (g P : pohg O A) (gs : list (pohg O A)).

  Definition pempty : pohg O A := mkP [] [] [] [].
  Definition ptens gs P : pohg O A := fold_left (@ptensor O A) gs P.

  (* the interface (proj = p_ins / p_outs) of the components, shifted to their place *)
  Fixpoint iblocks (proj : pohg O A -> list nat) (off : nat) gs : list (list nat) :=
    match gs with
    | [] => []
    | g :: r => shiftl off (proj g) :: iblocks proj (off + length (p_nodes g)) r
    end.
  Fixpoint eblocks (off : nat) gs : list (list (pedge A)) :=
    match gs with
    | [] => []
    | g :: r => map (shift_edge off) (p_edges g) :: eblocks (off + length (p_nodes g)) r
    end.

  Lemma ptens_nodes gs : forall P, p_nodes (ptens gs P) = p_nodes P ++ concat (map (@p_nodes O A) gs).
  Proof.
    induction gs as [|g r IH]; intros P; cbn [ptens fold_left map concat]; [rewrite app_nil_r; reflexivity|].
    fold (ptens r (ptensor P g)). rewrite IH. cbn [ptensor p_nodes]. rewrite <- app_assoc. reflexivity.
  Qed.

  Lemma ptens_ins gs : forall P,
    p_ins (ptens gs P) = p_ins P ++ concat (iblocks (@p_ins O A) (length (p_nodes P)) gs).
  Proof.
    induction gs as [|g r IH]; intros P; cbn [ptens fold_left iblocks concat]; [rewrite app_nil_r; reflexivity|].
    fold (ptens r (ptensor P g)). rewrite IH. cbn [ptensor p_nodes p_ins]. rewrite app_length, <- app_assoc.
    reflexivity.
  Qed.

  Lemma ptens_outs gs : forall P,
    p_outs (ptens gs P) = p_outs P ++ concat (iblocks (@p_outs O A) (length (p_nodes P)) gs).
  Proof.
    induction gs as [|g r IH]; intros P; cbn [ptens fold_left iblocks concat]; [rewrite app_nil_r; reflexivity|].
    fold (ptens r (ptensor P g)). rewrite IH. cbn [ptensor p_nodes p_outs]. rewrite app_length, <- app_assoc.
    reflexivity.
  Qed.

  Lemma ptens_edges gs : forall P,
    p_edges (ptens gs P) = p_edges P ++ concat (eblocks (length (p_nodes P)) gs).
  Proof.
    induction gs as [|g r IH]; intros P; cbn [ptens fold_left eblocks concat]; [rewrite app_nil_r; reflexivity|].
    fold (ptens r (ptensor P g)). rewrite IH. cbn [ptensor p_nodes p_edges]. rewrite app_length, <- app_assoc.
    reflexivity.
  Qed.

  Lemma iblocks_length proj gs : forall off, length (iblocks proj off gs) = length gs.
  Proof. induction gs as [|g r IH]; intros off; cbn [iblocks length]; [reflexivity|]. rewrite IH. reflexivity. Qed.

  Lemma iblocks_nth proj gs : forall off e g, nth_error gs e = Some g ->
    nth_error (iblocks proj off gs) e =
    Some (shiftl (off + boffs (map (@p_nodes O A) gs) e) (proj g)).
  Proof.
    induction gs as [|g0 r IH]; intros off e g He; [destruct e; discriminate|].
    destruct e as [|e]; cbn [nth_error iblocks map] in *.
    - inversion He; subst. rewrite boffs_0, Nat.add_0_r. reflexivity.
    - rewrite (IH _ _ _ He), boffs_S. do 2 f_equal. lia.
  Qed.
End Tens.

Lemma boffs_len_ext {X Y} (bs : list (list X)) (bs' : list (list Y)) :
  Forall2 (fun a b => length a = length b) bs bs' -> forall e, boffs bs e = boffs bs' e.
Proof.
  intros HF. induction HF as [|a b l l' Hab HF IH]; intros e.
  - unfold boffs. rewrite !firstn_nil. reflexivity.
  - destruct e as [|e]; [reflexivity|]. rewrite !boffs_S, IH, Hab. reflexivity.
Qed.

Lemma Forall2_map_same {X Y Z} (R : Y -> Z -> Prop) (f : X -> Y) (g : X -> Z) l :
  (forall x, In x l -> R (f x) (g x)) -> Forall2 R (map f l) (map g l).
Proof.
  induction l as [|x l IH]; intros H; cbn [map]; constructor.
  - apply H. left. reflexivity.
  - apply IH. intros y Hy. apply H. right. exact Hy.
Qed.

Lemma sel_flat_map {X Z} (w : list X) (f : Z -> list nat) l :
  sel w (flat_map f l) = concat (map (fun x => sel w (f x)) l).
Proof.
  induction l as [|x l IH]; [reflexivity|]. cbn [flat_map map concat]. rewrite sel_app, IH. reflexivity.
Qed.

Lemma map_seq_nth {X Y} (f : X -> Y) (g : nat -> Y) l :
  (forall p x, nth_error l p = Some x -> g p = f x) -> map g (seq 0 (length l)) = map f l.
Proof.
  revert g. induction l as [|x l IH]; intros g H; [reflexivity|]. cbn [length seq map]. f_equal.
  - apply (H 0). reflexivity.
  - rewrite <- seq_shift, map_map. apply IH. intros p y Hp. apply (H (S p)). exact Hp.
Qed.

(* first hyperedge of kind [inl k] *)
Fixpoint vfind {A} (l : list (ekind A)) (k : nat) : nat :=
  match l with
  | [] => 0
  | inl k' :: r => if k' =? k then 0 else S (vfind r k)
  | inr _ :: r => S (vfind r k)
  end.

Lemma vfind_spec {A} (l : list (ekind A)) k : forall e, nth_error l e = Some (inl k) ->
  nth_error l (vfind l k) = Some (inl k).
Proof.
  induction l as [|x l IH]; intros e He; [destruct e; discriminate|].
  destruct x as [k'|o]; cbn [vfind].
  - destruct (k' =? k) eqn:E; [apply Nat.eqb_eq in E; subst; reflexivity|].
    destruct e as [|e]; cbn [nth_error] in *.
    + inversion He; subst. rewrite Nat.eqb_refl in E. discriminate.
    + eapply IH. exact He.
  - destruct e as [|e]; cbn [nth_error] in *; [discriminate|]. eapply IH. exact He.
Qed.

(* ====================================================================================== *)
(* 3. the core: nodes + batch, glued                                                      *)
(* ====================================================================================== *)
Section Core.
  Variables O A : Type.
  Variable lbls : list O.                 (* label of every handle *)
  Variable roles : list role.             (* role of every node *)
  Variable ek : list (ekind A).           (* kind of every hyperedge *)
  Variable W : list O.                    (* node labels *)
  Variable adj : list hyperedge.          (* adjacency *)
  Variables srcs tgts ins outs : list nat.

  Notation nv := (length lbls).
  Notation N := (length W).
  Notation pt := (ported roles).
  Notation vx := (rank (ported roles)).
  Notation lv := (sieve (ported roles) (length lbls)).

  Hypothesis HNW : length roles = length W.
  Hypothesis HW : forall n k b, nth_error roles n = Some (k, b) ->
    nth_error W n = nth_error lbls k /\ k < nv.
  Hypothesis Hvar : forall e k, nth_error ek e = Some (inl k) ->
    nth_error adj e = Some (rpos roles k true, rpos roles k false) /\ k < nv.
  Hypothesis Hvar_uniq : forall e e' k,
    nth_error ek e = Some (inl k) -> nth_error ek e' = Some (inl k) -> e = e'.
  Hypothesis Hvar_ex : forall n k b, nth_error roles n = Some (k, b) ->
    exists e, nth_error ek e = Some (inl k).
  Hypothesis Hop : forall e o, nth_error ek e = Some (inr o) ->
    exists S T, nth_error adj e = Some (S, T) /\
      Forall2 (fun n a => nth_error roles n = Some (a, false)) S (o_args o) /\
      Forall2 (fun n r => nth_error roles n = Some (r, true)) T (o_res o).
  Hypothesis Hadj : length adj = length ek.
  Hypothesis Hsrc : Forall2 (fun n k => nth_error roles n = Some (k, true)) srcs ins.
  Hypothesis Htgt : Forall2 (fun n k => nth_error roles n = Some (k, false)) tgts outs.

  (* handles of the nodes of the image of a hyperedge: a var hyperedge with a port becomes one node,
     without a port nothing; an op hyperedge keeps one node per port *)
  Definition bvars (x : ekind A) : list nat :=
    match x with
    | inl k => if pt k then [k] else []
    | inr o => o_args o ++ o_res o
    end.

  Definition pimg (x : ekind A) : pohg O A :=
    match x with
    | inl k => mkP (sel lbls (bvars x)) []
                   (repeat 0 (length (rpos roles k true))) (repeat 0 (length (rpos roles k false)))
    | inr o => mkP (sel lbls (bvars x))
                   [mkPE (o_lbl o) (seq 0 (length (o_args o))) (seq (length (o_args o)) (length (o_res o)))]
                   (seq 0 (length (o_args o))) (seq (length (o_args o)) (length (o_res o)))
    end.

  Definition PB : pohg O A := ptens (map pimg ek) (pempty O A).
  Definition BV : list nat := flat_map bvars ek.
  Definition NV : list nat := map fst roles ++ BV.
  Definition qe (i : nat) : nat := vx (nth i NV 0).
  Definition boff (e : nat) : nat := boffs (map bvars ek) e.

  Definition coreD : pohg O A := mkP (W ++ p_nodes PB) (map (shift_edge N) (p_edges PB)) srcs tgts.
  Definition coreP : list (nat * nat) :=
    combine (flat_map fst adj) (shiftl N (p_ins PB)) ++ combine (flat_map snd adj) (shiftl N (p_outs PB)).
  Definition coreX : pohg O A :=
    mkP (sel lbls lv)
        (map (fun o => mkPE (o_lbl o) (map vx (o_args o)) (map vx (o_res o))) (ek_ops ek))
        (map vx ins) (map vx outs).

  (* ---------- ranges ---------- *)
  Lemma role_port n k b : nth_error roles n = Some (k, b) -> pt k = true /\ k < nv.
  Proof.
    intros H. split; [|exact (proj2 (HW _ H))]. apply (@ported_in roles k b). eapply nth_error_In. exact H.
  Qed.

  Lemma bvars_range e x k : nth_error ek e = Some x -> In k (bvars x) -> pt k = true /\ k < nv.
  Proof.
    intros He Hk. destruct x as [k'|o]; cbn [bvars] in Hk.
    - destruct (pt k') eqn:Ep; [|destruct Hk]. destruct Hk as [<-|[]]. split; [exact Ep|].
      exact (proj2 (Hvar _ He)).
    - destruct (Hop _ He) as (S & T & _ & HS & HT). apply in_app_or in Hk. destruct Hk as [Hk|Hk];
        apply In_nth_error in Hk; destruct Hk as (p & Hp).
      + destruct (Forall2_nth_r _ HS Hp) as (n & _ & Hn). exact (role_port _ Hn).
      + destruct (Forall2_nth_r _ HT Hp) as (n & _ & Hn). exact (role_port _ Hn).
  Qed.

  Lemma bvars_lt x : In x ek -> all_lt nv (bvars x).
  Proof.
    intros Hx. apply In_nth_error in Hx. destruct Hx as (e & He). unfold all_lt. apply Forall_forall.
    intros k Hk. exact (proj2 (bvars_range _ _ He Hk)).
  Qed.

  Lemma BV_lt : all_lt nv BV.
  Proof.
    unfold all_lt, BV. apply Forall_forall. intros k Hk. apply in_flat_map in Hk.
    destruct Hk as (x & Hx & Hk). pose proof (bvars_lt _ Hx) as H. unfold all_lt in H.
    rewrite Forall_forall in H. auto.
  Qed.

  Lemma pimg_nodes x : p_nodes (pimg x) = sel lbls (bvars x).
  Proof. destruct x; reflexivity. Qed.

  Lemma PB_nodes : p_nodes PB = sel lbls BV.
  Proof.
    unfold PB. rewrite ptens_nodes. cbn [pempty p_nodes List.app]. rewrite map_map.
    unfold BV. rewrite sel_flat_map. f_equal. apply map_ext. apply pimg_nodes.
  Qed.

  Lemma PB_nodes_length : length (p_nodes PB) = length BV.
  Proof. rewrite PB_nodes. apply sel_length. exact BV_lt. Qed.

  Lemma boff_nodes e : boffs (map (@p_nodes O A) (map pimg ek)) e = boff e.
  Proof.
    unfold boff. rewrite map_map. apply boffs_len_ext. apply Forall2_map_same. intros x Hx.
    rewrite pimg_nodes. apply sel_length. exact (bvars_lt _ Hx).
  Qed.

  (* ---------- the handle of a node of the disjoint union ---------- *)
  Lemma roles_fst_length : length (map fst roles) = N.
  Proof. rewrite map_length. exact HNW. Qed.

  Lemma NV_node i k b : nth_error roles i = Some (k, b) -> nth i NV 0 = k.
  Proof.
    intros H. unfold NV. apply nth_error_nth. rewrite nth_error_app1.
    - rewrite (map_nth_error fst _ _ H). reflexivity.
    - rewrite map_length. exact (nth_error_some_lt _ _ _ H).
  Qed.

  Lemma NV_batch e x p k : nth_error ek e = Some x -> nth_error (bvars x) p = Some k ->
    nth (boff e + p + N) NV 0 = k.
  Proof.
    intros He Hp. unfold NV. apply nth_error_nth. rewrite nth_error_app2 by (rewrite roles_fst_length; lia).
    rewrite roles_fst_length. replace (boff e + p + N - N) with (boff e + p) by lia.
    unfold BV. rewrite flat_map_concat_map. unfold boff.
    rewrite (@nth_error_concat_block _ (map bvars ek) e (bvars x) p).
    - exact Hp.
    - apply map_nth_error. exact He.
    - exact (nth_error_some_lt _ _ _ Hp).
  Qed.

  Lemma qe_node i k b : nth_error roles i = Some (k, b) -> qe i = vx k.
  Proof. intros H. unfold qe. rewrite (NV_node _ H). reflexivity. Qed.

  Lemma qe_batch e x p k : nth_error ek e = Some x -> nth_error (bvars x) p = Some k ->
    qe (boff e + p + N) = vx k.
  Proof. intros He Hp. unfold qe. rewrite (NV_batch _ _ He Hp). reflexivity. Qed.

  Lemma BV_inv j : j < length BV ->
    exists e x p k, nth_error ek e = Some x /\ nth_error (bvars x) p = Some k /\ j = boff e + p.
  Proof.
    intros Hj. unfold BV in Hj. rewrite flat_map_concat_map in Hj.
    destruct (concat_block_inv _ Hj) as (e & b & p & He & Hp & Hjp).
    rewrite nth_error_map in He. destruct (nth_error ek e) as [x|] eqn:Ex; [|discriminate].
    cbn [option_map] in He. inversion He; subst b.
    destruct (nth_error (bvars x) p) as [k|] eqn:Ek; [|apply nth_error_None in Ek; lia].
    exists e, x, p, k. auto.
  Qed.

  (* ---------- the gluing pairs, block by block ---------- *)
  Lemma ek_adj e x : nth_error ek e = Some x -> exists a, nth_error adj e = Some a.
  Proof.
    intros H. pose proof (nth_error_some_lt _ _ _ H) as Hlt. rewrite <- Hadj in Hlt.
    destruct (nth_error adj e) as [a|] eqn:E; [eauto|]. apply nth_error_None in E. lia.
  Qed.

  Lemma adj_ek e a : nth_error adj e = Some a -> exists x, nth_error ek e = Some x.
  Proof.
    intros H. pose proof (nth_error_some_lt _ _ _ H) as Hlt. rewrite Hadj in Hlt.
    destruct (nth_error ek e) as [x|] eqn:E; [eauto|]. apply nth_error_None in E. lia.
  Qed.

  Lemma iblock_at proj e x : nth_error ek e = Some x ->
    nth_error (map (shiftl N) (iblocks proj 0 (map pimg ek))) e =
    Some (shiftl N (shiftl (boff e) (proj (pimg x)))).
  Proof.
    intros He. apply map_nth_error.
    rewrite (@iblocks_nth _ _ proj (map pimg ek) 0 e (pimg x) (map_nth_error pimg _ _ He)).
    rewrite boff_nodes. reflexivity.
  Qed.

  Lemma pairs_iff (proj : pohg O A -> list nat) (padj : hyperedge -> list nat) :
    proj PB = concat (iblocks proj 0 (map pimg ek)) ->
    (forall e a x, nth_error adj e = Some a -> nth_error ek e = Some x ->
                   length (padj a) = length (proj (pimg x))) ->
    forall u v, In (u, v) (combine (flat_map padj adj) (shiftl N (proj PB))) <->
      exists e a x p w, nth_error adj e = Some a /\ nth_error ek e = Some x /\
        nth_error (padj a) p = Some u /\ nth_error (proj (pimg x)) p = Some w /\ v = w + boff e + N.
  Proof.
    intros HPB Hlen u v. rewrite HPB, shiftl_concat, flat_map_concat_map.
    rewrite in_combine_concat.
    - split.
      + intros (e & a' & b' & Ha' & Hb' & Hin). rewrite nth_error_map in Ha'.
        destruct (nth_error adj e) as [a|] eqn:Ea; [|discriminate]. cbn [option_map] in Ha'.
        inversion Ha'; subst a'. destruct (adj_ek _ Ea) as (x & Ex).
        rewrite (iblock_at proj _ Ex) in Hb'. inversion Hb'; subst b'.
        apply in_combine_nth in Hin. destruct Hin as (p & Hp1 & Hp2).
        rewrite !nth_error_shiftl in Hp2.
        destruct (nth_error (proj (pimg x)) p) as [w|] eqn:Ew; [|discriminate]. cbn [option_map] in Hp2.
        inversion Hp2. exists e, a, x, p, w. auto.
      + intros (e & a & x & p & w & Ea & Ex & Hp1 & Hp2 & ->).
        exists e, (padj a), (shiftl N (shiftl (boff e) (proj (pimg x)))).
        split; [apply map_nth_error; exact Ea|]. split; [apply iblock_at; exact Ex|].
        apply in_combine_nth. exists p. split; [exact Hp1|]. rewrite !nth_error_shiftl, Hp2. reflexivity.
    - apply Forall2_nth_error.
      + rewrite !map_length, iblocks_length, map_length. exact Hadj.
      + intros e a' b' Ha' Hb'. rewrite nth_error_map in Ha'.
        destruct (nth_error adj e) as [a|] eqn:Ea; [|discriminate]. cbn [option_map] in Ha'.
        inversion Ha'; subst a'. destruct (adj_ek _ Ea) as (x & Ex).
        rewrite (iblock_at proj _ Ex) in Hb'. inversion Hb'; subst b'.
        rewrite !shiftl_length. eapply Hlen; eassumption.
  Qed.

  Lemma PB_ins : p_ins PB = concat (iblocks (@p_ins O A) 0 (map pimg ek)).
  Proof. unfold PB. rewrite ptens_ins. reflexivity. Qed.

  Lemma PB_outs : p_outs PB = concat (iblocks (@p_outs O A) 0 (map pimg ek)).
  Proof. unfold PB. rewrite ptens_outs. reflexivity. Qed.

  Lemma len_ins e a x : nth_error adj e = Some a -> nth_error ek e = Some x ->
    length (fst a) = length (p_ins (pimg x)).
  Proof.
    intros Ea Ex. destruct x as [k|o]; cbn [pimg p_ins].
    - destruct (Hvar _ Ex) as [Ha _]. rewrite Ea in Ha. inversion Ha. cbn [fst]. rewrite repeat_length. reflexivity.
    - destruct (Hop _ Ex) as (S & T & Ha & HS & HT). rewrite Ea in Ha. inversion Ha. cbn [fst].
      rewrite seq_length. exact (Forall2_len _ _ _ HS).
  Qed.

  Lemma len_outs e a x : nth_error adj e = Some a -> nth_error ek e = Some x ->
    length (snd a) = length (p_outs (pimg x)).
  Proof.
    intros Ea Ex. destruct x as [k|o]; cbn [pimg p_outs].
    - destruct (Hvar _ Ex) as [Ha _]. rewrite Ea in Ha. inversion Ha. cbn [snd]. rewrite repeat_length. reflexivity.
    - destruct (Hop _ Ex) as (S & T & Ha & HS & HT). rewrite Ea in Ha. inversion Ha. cbn [snd].
      rewrite seq_length. exact (Forall2_len _ _ _ HT).
  Qed.

  (* the two shapes of a gluing pair *)
  Definition var_pair (u v : nat) : Prop :=
    exists e k b, nth_error ek e = Some (inl k) /\ nth_error roles u = Some (k, b) /\ v = boff e + 0 + N.
  Definition op_pair (u v : nat) : Prop :=
    exists e o p k b, nth_error ek e = Some (inr o) /\ nth_error roles u = Some (k, b) /\
      nth_error (o_args o ++ o_res o) p = Some k /\ v = boff e + p + N.

  Lemma coreP_cases u v : In (u, v) coreP -> var_pair u v \/ op_pair u v.
  Proof.
    unfold coreP. rewrite in_app_iff.
    rewrite (pairs_iff (@p_ins O A) fst PB_ins len_ins), (pairs_iff (@p_outs O A) snd PB_outs len_outs).
    intros [(e & a & x & p & w & Ea & Ex & Hp1 & Hp2 & ->)|(e & a & x & p & w & Ea & Ex & Hp1 & Hp2 & ->)];
      destruct x as [k|o]; cbn [pimg p_ins p_outs] in Hp2.
    - left. destruct (Hvar _ Ex) as [Ha _]. rewrite Ea in Ha. inversion Ha; subst a. cbn [fst] in Hp1.
      pose proof (nth_error_some_lt _ _ _ Hp2) as Hlt. rewrite repeat_length in Hlt.
      rewrite nth_error_repeat in Hp2 by exact Hlt. inversion Hp2; subst w.
      exists e, k, true. split; [exact Ex|]. split; [|lia]. apply in_rpos. eapply nth_error_In. exact Hp1.
    - right. destruct (Hop _ Ex) as (S & T & Ha & HS & HT). rewrite Ea in Ha. inversion Ha; subst a. cbn [fst] in Hp1.
      pose proof (nth_error_some_lt _ _ _ Hp2) as Hlt. rewrite seq_length in Hlt.
      rewrite nth_error_seq in Hp2 by exact Hlt. inversion Hp2; subst w.
      destruct (Forall2_nth_l _ HS Hp1) as (k & Hk & Hr).
      exists e, o, p, k, false. split; [exact Ex|]. split; [exact Hr|]. split; [|lia].
      rewrite nth_error_app1 by exact Hlt. exact Hk.
    - left. destruct (Hvar _ Ex) as [Ha _]. rewrite Ea in Ha. inversion Ha; subst a. cbn [snd] in Hp1.
      pose proof (nth_error_some_lt _ _ _ Hp2) as Hlt. rewrite repeat_length in Hlt.
      rewrite nth_error_repeat in Hp2 by exact Hlt. inversion Hp2; subst w.
      exists e, k, false. split; [exact Ex|]. split; [|lia]. apply in_rpos. eapply nth_error_In. exact Hp1.
    - right. destruct (Hop _ Ex) as (S & T & Ha & HS & HT). rewrite Ea in Ha. inversion Ha; subst a. cbn [snd] in Hp1.
      pose proof (nth_error_some_lt _ _ _ Hp2) as Hlt. rewrite seq_length in Hlt.
      rewrite nth_error_seq in Hp2 by exact Hlt. inversion Hp2; subst w.
      destruct (Forall2_nth_l _ HT Hp1) as (k & Hk & Hr).
      exists e, o, (length (o_args o) + p), k, true. split; [exact Ex|]. split; [exact Hr|]. split; [|lia].
      rewrite nth_error_app2 by lia. replace (length (o_args o) + p - length (o_args o)) with p by lia. exact Hk.
  Qed.

  (* converse: the pairs that are there *)
  Lemma var_pair_in e k b u : nth_error ek e = Some (inl k) -> nth_error roles u = Some (k, b) ->
    In (u, boff e + 0 + N) coreP.
  Proof.
    intros Ex Hu. destruct (Hvar _ Ex) as [Ea _]. apply in_rpos in Hu. apply In_nth_error in Hu.
    destruct Hu as (p & Hp). pose proof (nth_error_some_lt _ _ _ Hp) as Hlt.
    unfold coreP. apply in_or_app. destruct b; [left|right].
    - apply (pairs_iff (@p_ins O A) fst PB_ins len_ins).
      exists e, (rpos roles k true, rpos roles k false), (inl k), p, 0.
      split; [exact Ea|]. split; [exact Ex|]. split; [exact Hp|]. split; [|lia].
      cbn [pimg p_ins]. apply nth_error_repeat. exact Hlt.
    - apply (pairs_iff (@p_outs O A) snd PB_outs len_outs).
      exists e, (rpos roles k true, rpos roles k false), (inl k), p, 0.
      split; [exact Ea|]. split; [exact Ex|]. split; [exact Hp|]. split; [|lia].
      cbn [pimg p_outs]. apply nth_error_repeat. exact Hlt.
  Qed.

  Lemma op_pair_in e o p k : nth_error ek e = Some (inr o) ->
    nth_error (o_args o ++ o_res o) p = Some k ->
    exists u b, nth_error roles u = Some (k, b) /\ In (u, boff e + p + N) coreP.
  Proof.
    intros Ex Hp. destruct (Hop _ Ex) as (S & T & Ea & HS & HT).
    destruct (Nat.lt_ge_cases p (length (o_args o))) as [Hlt|Hge].
    - rewrite nth_error_app1 in Hp by exact Hlt. destruct (Forall2_nth_r _ HS Hp) as (u & Hu & Hr).
      exists u, false. split; [exact Hr|]. unfold coreP. apply in_or_app. left.
      apply (pairs_iff (@p_ins O A) fst PB_ins len_ins). exists e, (S, T), (inr o), p, (0 + p).
      split; [exact Ea|]. split; [exact Ex|]. split; [exact Hu|]. split; [|lia].
      cbn [pimg p_ins]. apply nth_error_seq. exact Hlt.
    - rewrite nth_error_app2 in Hp by exact Hge. destruct (Forall2_nth_r _ HT Hp) as (u & Hu & Hr).
      pose proof (nth_error_some_lt _ _ _ Hp) as Hlt.
      exists u, true. split; [exact Hr|]. unfold coreP. apply in_or_app. right.
      apply (pairs_iff (@p_outs O A) snd PB_outs len_outs).
      exists e, (S, T), (inr o), (p - length (o_args o)), (length (o_args o) + (p - length (o_args o))).
      split; [exact Ea|]. split; [exact Ex|]. split; [exact Hu|]. split; [|lia].
      cbn [pimg p_outs]. apply nth_error_seq. exact Hlt.
  Qed.

  (* ---------- the kernel ---------- *)
  Lemma bvars_var k u b : nth_error roles u = Some (k, b) -> bvars (inl k) = [k].
  Proof. intros H. cbn [bvars]. rewrite (proj1 (role_port _ H)). reflexivity. Qed.

  Lemma coreP_qe u v : In (u, v) coreP -> qe u = qe v.
  Proof.
    intros H. destruct (coreP_cases _ _ H) as [(e & k & b & Ex & Hu & ->)|(e & o & p & k & b & Ex & Hu & Hp & ->)].
    - rewrite (qe_node _ Hu). symmetry. apply (@qe_batch e (inl k) 0 k Ex).
      rewrite (bvars_var _ Hu). reflexivity.
    - rewrite (qe_node _ Hu). symmetry. apply (@qe_batch e (inr o) p k Ex). exact Hp.
  Qed.

  Definition rep (c : nat) : nat := boff (vfind ek (nth c lv 0)) + 0 + N.

  Lemma lv_vx k : pt k = true -> k < nv -> nth (vx k) lv 0 = k.
  Proof. intros Hp Hk. apply nth_error_nth. apply nth_error_sieve_rank; assumption. Qed.

  Lemma rep_node u k b : nth_error roles u = Some (k, b) -> conn coreP u (rep (vx k)).
  Proof.
    intros Hu. destruct (role_port _ Hu) as [Hp Hk]. unfold rep. rewrite (lv_vx Hp Hk).
    destruct (Hvar_ex _ Hu) as (e0 & He0). pose proof (vfind_spec _ _ He0) as He.
    apply conn_step. exact (var_pair_in _ _ He Hu).
  Qed.

  Lemma core_ker : KerIs (N + length BV) qe coreP.
  Proof.
    apply (@ker_by_rep (N + length BV) qe coreP rep).
    - intros u v H. apply coreP_qe. exact H.
    - intros i Hi. destruct (Nat.lt_ge_cases i N) as [Hlt|Hge].
      + rewrite <- HNW in Hlt. destruct (nth_error roles i) as [[k b]|] eqn:Er; [|apply nth_error_None in Er; lia].
        rewrite (qe_node _ Er). exact (rep_node _ Er).
      + destruct (@BV_inv (i - N) ltac:(lia)) as (e & x & p & k & Ex & Hp & Hj).
        assert (Ei : i = boff e + p + N) by lia. rewrite Ei. rewrite (qe_batch _ _ Ex Hp).
        destruct x as [k'|o].
        * cbn [bvars] in Hp. destruct (pt k') eqn:Ept; [|destruct p; discriminate].
          destruct p as [|p]; [|destruct p; discriminate]. cbn [nth_error] in Hp. inversion Hp; subst k'.
          destruct (Hvar _ Ex) as [_ Hk]. unfold rep. rewrite (lv_vx Ept Hk).
          rewrite (Hvar_uniq _ _ (vfind_spec _ _ Ex) Ex). apply conn_refl.
        * cbn [bvars] in Hp. destruct (op_pair_in _ _ Ex Hp) as (u & b & Hu & Hin).
          apply conn_trans with u; [apply conn_sym, conn_step; exact Hin|]. exact (rep_node _ Hu).
  Qed.

  (* ---------- the quotient ---------- *)
  Lemma coreD_nodes_length : length (p_nodes coreD) = N + length BV.
  Proof. unfold coreD. cbn [p_nodes]. rewrite app_length, PB_nodes_length. reflexivity. Qed.

  (* every node of the disjoint union has a handle, which has a port, and carries its label *)
  Lemma node_handle i : i < N + length BV ->
    exists k, qe i = vx k /\ pt k = true /\ k < nv /\ nth_error (p_nodes coreD) i = nth_error lbls k.
  Proof.
    intros Hi. unfold coreD. cbn [p_nodes]. destruct (Nat.lt_ge_cases i N) as [Hlt|Hge].
    - pose proof Hlt as Hlt'. rewrite <- HNW in Hlt'.
      destruct (nth_error roles i) as [[k b]|] eqn:Er; [|apply nth_error_None in Er; lia].
      exists k. destruct (role_port _ Er) as [Hp Hk]. split; [exact (qe_node _ Er)|]. split; [exact Hp|].
      split; [exact Hk|]. rewrite nth_error_app1 by exact Hlt. exact (proj1 (HW _ Er)).
    - destruct (@BV_inv (i - N) ltac:(lia)) as (e & x & p & k & Ex & Hp & Hj).
      assert (Ei : i = boff e + p + N) by lia. exists k.
      destruct (bvars_range _ _ Ex (nth_error_In _ _ Hp)) as [Hpt Hk].
      split; [rewrite Ei; exact (qe_batch _ _ Ex Hp)|]. split; [exact Hpt|]. split; [exact Hk|].
      rewrite nth_error_app2 by exact Hge. rewrite PB_nodes.
      apply (@sel_nth_error _ lbls BV (i - N) k BV_lt). rewrite Hj. unfold BV, boff.
      rewrite flat_map_concat_map.
      rewrite (@nth_error_concat_block _ (map bvars ek) e (bvars x) p (map_nth_error bvars _ _ Ex)
                 (nth_error_some_lt _ _ _ Hp)).
      exact Hp.
  Qed.

  Lemma map_seq_shift {Y} (g : nat -> Y) a n : map g (seq a n) = map (fun p => g (a + p)) (seq 0 n).
  Proof.
    revert a. induction n as [|n IH]; intros a; [reflexivity|]. cbn [seq map]. f_equal; [f_equal; lia|].
    rewrite IH, <- seq_shift, map_map. apply map_ext. intros p. f_equal. lia.
  Qed.

  Definition o2pe (o : opinfo A) : pedge A := mkPE (o_lbl o) (map vx (o_args o)) (map vx (o_res o)).

  Lemma core_edges_from suf : forall pre, ek = pre ++ suf ->
    map (map_edge qe) (map (shift_edge N) (concat (eblocks (length (flat_map bvars pre)) (map pimg suf)))) =
    map o2pe (ek_ops suf).
  Proof.
    induction suf as [|x suf IH]; intros pre Hek; [reflexivity|].
    assert (Hx : In x ek) by (rewrite Hek; apply in_or_app; right; left; reflexivity).
    assert (Ex : nth_error ek (length pre) = Some x).
    { rewrite Hek, nth_error_app2 by lia. rewrite Nat.sub_diag. reflexivity. }
    assert (Eoff : boff (length pre) = length (flat_map bvars pre)).
    { unfold boff, boffs. rewrite Hek, map_app, firstn_app, map_length, Nat.sub_diag. cbn [firstn].
      rewrite app_nil_r, <- (map_length bvars pre), firstn_all, <- flat_map_concat_map. reflexivity. }
    cbn [map eblocks concat]. rewrite !map_app.
    assert (Hnext : length (flat_map bvars pre) + length (p_nodes (pimg x)) = length (flat_map bvars (pre ++ [x]))).
    { rewrite flat_map_app, app_length. cbn [flat_map]. rewrite app_nil_r, pimg_nodes.
      rewrite (sel_length _ (bvars_lt _ Hx)). reflexivity. }
    rewrite Hnext. rewrite (IH (pre ++ [x])) by (rewrite <- app_assoc; exact Hek).
    destruct x as [k|o]; cbn [pimg p_edges map ek_ops flat_map List.app]; [reflexivity|].
    fold (ek_ops suf). f_equal. unfold o2pe, map_edge, shift_edge. cbn [pe_lbl pe_src pe_tgt]. f_equal.
    - unfold shiftl. rewrite !map_map.
      apply (map_seq_nth vx (fun p => qe (p + length (flat_map bvars pre) + N))).
      intros p a Hp. rewrite <- Eoff.
      replace (p + boff (length pre) + N) with (boff (length pre) + p + N) by lia.
      apply (@qe_batch (length pre) (inr o) p a Ex). cbn [bvars].
      rewrite nth_error_app1 by exact (nth_error_some_lt _ _ _ Hp). exact Hp.
    - unfold shiftl. rewrite !map_map, map_seq_shift.
      apply (map_seq_nth vx (fun p => qe (length (o_args o) + p + length (flat_map bvars pre) + N))).
      intros p a Hp. rewrite <- Eoff.
      replace (length (o_args o) + p + boff (length pre) + N)
        with (boff (length pre) + (length (o_args o) + p) + N) by lia.
      apply (@qe_batch (length pre) (inr o) (length (o_args o) + p) a Ex). cbn [bvars].
      rewrite nth_error_app2 by lia. replace (length (o_args o) + p - length (o_args o)) with p by lia. exact Hp.
  Qed.

  Lemma Forall2_map_eq {X Y Z} (R : X -> Y -> Prop) (f : X -> Z) (g : Y -> Z) l1 l2 :
    (forall x y, R x y -> f x = g y) -> Forall2 R l1 l2 -> map g l2 = map f l1.
  Proof.
    intros H HF. induction HF as [|x y l1 l2 Hxy HF IH]; [reflexivity|]. cbn [map]. rewrite IH, (H _ _ Hxy). reflexivity.
  Qed.

  Theorem core_quot : IsQuot coreD qe coreX.
  Proof.
    unfold IsQuot. rewrite coreD_nodes_length.
    assert (HXn : length (p_nodes coreX) = length lv).
    { unfold coreX. cbn [p_nodes]. apply sel_length. unfold all_lt. apply Forall_forall.
      intros k Hk. apply sieve_In in Hk. exact (proj1 Hk). }
    rewrite HXn. split; [|split; [|split; [|split; [|split]]]].
    - intros i Hi. destruct (node_handle Hi) as (k & Eq & Hp & Hk & _). rewrite Eq. apply rank_lt; assumption.
    - intros j Hj. destruct (nth_error lv j) as [k|] eqn:Ek; [|apply nth_error_None in Ek; lia].
      destruct (sieve_nth _ _ _ Ek) as (Hk & Hp & Hr). apply ported_iff in Hp. destruct Hp as (b & Hin).
      apply In_nth_error in Hin. destruct Hin as (n & Hn).
      exists n. split.
      + assert (Hlt : n < N) by (rewrite <- HNW; exact (nth_error_some_lt _ _ _ Hn)). lia.
      + rewrite (qe_node _ Hn). exact Hr.
    - intros i Hi. destruct (node_handle Hi) as (k & Eq & Hp & Hk & Hl). rewrite Eq, Hl.
      unfold coreX. cbn [p_nodes].
      apply (@sel_nth_error _ lbls lv (vx k) k).
      + unfold all_lt. apply Forall_forall. intros k' Hk'. apply sieve_In in Hk'. exact (proj1 Hk').
      + apply nth_error_sieve_rank; assumption.
    - unfold coreX, coreD. cbn [p_edges]. unfold PB. rewrite ptens_edges. cbn [pempty p_edges p_nodes length List.app].
      symmetry. exact (core_edges_from ek [] eq_refl).
    - unfold coreX, coreD. cbn [p_ins]. eapply Forall2_map_eq; [|exact Hsrc].
      intros n k H. exact (qe_node _ H).
    - unfold coreX, coreD. cbn [p_outs]. eapply Forall2_map_eq; [|exact Htgt].
      intros n k H. exact (qe_node _ H).
  Qed.
End Core.

(* ====================================================================================== *)
(* 4. the Forget batch of a built term                                                    *)
(* ====================================================================================== *)
Lemma sel_const {X} (w : list X) l c : (forall n, In n l -> nth_error w n = Some c) ->
  sel w l = repeat c (length l).
Proof.
  induction l as [|n l IH]; intros H; [reflexivity|]. unfold sel in *. cbn [flat_map length repeat].
  rewrite (H n (or_introl eq_refl)). cbn [List.app]. f_equal. apply IH. intros m Hm. apply H. right. exact Hm.
Qed.

Lemma sel_transport {X} (w w' : list X) l l' : all_lt (length w') l' ->
  Forall2 (fun n a => nth_error w n = nth_error w' a) l l' -> sel w l = sel w' l'.
Proof.
  intros Hlt HF. apply sel_spec. rewrite (sel_some _ Hlt).
  induction HF as [|n a l l' Hna HF IH]; [reflexivity|]. cbn [map]. rewrite Hna. f_equal. apply IH.
  inversion Hlt; assumption.
Qed.

Lemma list_sum_repeat1 n : list_sum (repeat 1 n) = n.
Proof. rewrite list_sum_repeat. lia. Qed.

Lemma wf_forget_fw {X} (w : list X) : wf_ics (forget_fw w).
Proof.
  unfold wf_ics, wf_ic, forget_fw. cbn [ic_sources ic_values table target]. rewrite list_sum_repeat1. split; reflexivity.
Qed.

Section LabsFold.
  Variables O A X : Type.
  Variable img : X -> lohg O A.
  Hypothesis img_ok : forall e, ladj_ok (img e).

  Lemma labs_fold l : forall acc, ladj_ok acc ->
    labs (fold_left (fun acc e => lohg_tensor acc (img e)) l acc) = ptens (map (fun e => labs (img e)) l) (labs acc).
  Proof.
    induction l as [|e l IH]; intros acc Hacc; [reflexivity|]. cbn [fold_left map ptens].
    rewrite IH by (apply ladj_ok_tensor; [exact Hacc|apply img_ok]).
    rewrite (labs_tensor _ Hacc). reflexivity.
  Qed.
End LabsFold.

Section ForgetExpected.
  Variable B : Backend.
  Hypothesis OK : BackendOK B.
  Hypothesis CC : cc_canonical B.
  Variables O A : Type.
  Variable eqO : O -> O -> bool.
  Hypothesis eqO_spec : forall x y, eqO x y = true <-> x = y.
  Variable eqA : A -> A -> bool.
  Hypothesis eqA_spec : forall x y, eqA x y = true <-> x = y.
  Variable var_label : A.

  Variables (prog : list (vcmd O A)) (ins outs : list nat).
  (* no applied operator carries the variable label *)
  Hypothesis Hnovar : forall o, In o (g_ops 0 prog) -> o_lbl o <> var_label.

  Notation roles := (build_roles prog ins outs).
  Notation ek := (g_ek 0 prog).
  Notation lbls := (g_labels prog).
  Notation fimage := (forget_image var_label eqO eqA).

  Variable f : lohg O A.
  Variable vs : list (var O).
  Hypothesis Hinv : hinv var_label (lo_h f) vs roles ek.
  Hypothesis Hvs : map snd vs = lbls.
  Hypothesis Hsrc : Forall2 (fun n k => nth_error roles n = Some (k, true)) (lo_sources f) ins.
  Hypothesis Htgt : Forall2 (fun n k => nth_error roles n = Some (k, false)) (lo_targets f) outs.
  Hypothesis Hlwf : lwf f.

  Notation W := (l_nodes (lo_h f)).
  Notation adj := (l_adj (lo_h f)).

  (* ---------- the hypotheses of the core ---------- *)
  Lemma fe_HNW : length roles = length W.
  Proof. destruct Hinv as [Hq He Ha Hn Hv Hve Hoe Hnd]. symmetry. exact Hn. Qed.

  Lemma fe_HW n k b : nth_error roles n = Some (k, b) ->
    nth_error W n = nth_error lbls k /\ k < length lbls.
  Proof.
    destruct Hinv as [Hq He Ha Hn Hv Hve Hoe Hnd].
    intros H. destruct (Hnd _ _ _ H) as (e & l & Hk & Hn'). split.
    - rewrite Hn', <- Hvs. symmetry. exact (map_nth_error snd _ _ Hk).
    - rewrite <- Hvs, map_length. exact (nth_error_some_lt _ _ _ Hk).
  Qed.

  Lemma fe_Hvar e k : nth_error ek e = Some (inl k) ->
    nth_error adj e = Some (rpos roles k true, rpos roles k false) /\ k < length lbls.
  Proof.
    destruct Hinv as [Hq He Ha Hn Hv Hve Hoe Hnd].
    intros H. destruct (Hve _ _ H) as (l & Hk & _ & Ha'). split; [exact Ha'|].
    rewrite <- Hvs, map_length. exact (nth_error_some_lt _ _ _ Hk).
  Qed.

  Lemma fe_Hvar_uniq e e' k : nth_error ek e = Some (inl k) -> nth_error ek e' = Some (inl k) -> e = e'.
  Proof.
    destruct Hinv as [Hq He Ha Hn Hv Hve Hoe Hnd].
    intros H H'. destruct (Hve _ _ H) as (l & Hk & _). destruct (Hve _ _ H') as (l' & Hk' & _).
    congruence.
  Qed.

  Lemma fe_Hvar_ex n k b : nth_error roles n = Some (k, b) -> exists e, nth_error ek e = Some (inl k).
  Proof.
    destruct Hinv as [Hq He Ha Hn Hv Hve Hoe Hnd].
    intros H. destruct (Hnd _ _ _ H) as (e & l & Hk & _). exists e. exact (Hv _ _ _ Hk).
  Qed.

  Lemma fe_Hop e o : nth_error ek e = Some (inr o) ->
    exists S T, nth_error adj e = Some (S, T) /\
      Forall2 (fun n a => nth_error roles n = Some (a, false)) S (o_args o) /\
      Forall2 (fun n r => nth_error roles n = Some (r, true)) T (o_res o).
  Proof.
    destruct Hinv as [Hq He Ha Hn Hv Hve Hoe Hnd].
    destruct o as [op [args res]]. intros H. destruct (Hoe _ _ _ _ H) as (_ & S & T & H1 & H2 & H3).
    exists S, T. auto.
  Qed.

  Lemma fe_Hadj : length adj = length ek.
  Proof. destruct Hinv as [Hq He Ha Hn Hv Hve Hoe Hnd]. exact Ha. Qed.

  (* ---------- the image of one hyperedge ---------- *)
  Lemma ported_rpos k : ported roles k = true <-> rpos roles k true ++ rpos roles k false <> [].
  Proof.
    split.
    - intros H. apply ported_iff in H. destruct H as (b & Hin). apply In_nth_error in Hin.
      destruct Hin as (n & Hn). apply in_rpos in Hn. intros E. apply app_eq_nil in E. destruct E as [E1 E2].
      destruct b; [rewrite E1 in Hn|rewrite E2 in Hn]; destruct Hn.
    - intros H. destruct (rpos roles k true) as [|n l] eqn:E1.
      + destruct (rpos roles k false) as [|n l] eqn:E2; [exfalso; apply H; reflexivity|].
        assert (Hn : In n (rpos roles k false)) by (rewrite E2; left; reflexivity).
        apply in_rpos in Hn. apply (@ported_in roles k false). eapply nth_error_In. exact Hn.
      + assert (Hn : In n (rpos roles k true)) by (rewrite E1; left; reflexivity).
        apply in_rpos in Hn. apply (@ported_in roles k true). eapply nth_error_In. exact Hn.
  Qed.

  Lemma in_ek_ops (l : list (ekind A)) o : In (inr o) l -> In o (ek_ops l).
  Proof.
    intros H. unfold ek_ops. apply in_flat_map. exists (inr o). split; [exact H|left; reflexivity].
  Qed.

  Lemma all_equal_repeat (c : O) a b : all_elements_equal eqO (repeat c a) (repeat c b) = true.
  Proof.
    apply (C19_all_equal O eqO (repeat c a) (repeat c b) eqO_spec). intros x y Hx Hy.
    apply in_app_or in Hx. apply in_app_or in Hy.
    destruct Hx as [Hx|Hx]; apply repeat_spec in Hx; destruct Hy as [Hy|Hy]; apply repeat_spec in Hy; congruence.
  Qed.

  Lemma img_edge e lbl S T : nth_error (l_edges (lo_h f)) e = Some lbl -> nth_error adj e = Some (S, T) ->
    exists x, nth_error ek e = Some x /\
      labs (fimage lbl (sel W S) (sel W T)) = pimg lbls roles x.
  Proof.
    intros Hl Ha. pose proof Hinv as [Hq He Haa Hn Hv Hve Hoe Hnd].
    pose proof (nth_error_some_lt _ _ _ Ha) as Hlt. rewrite Haa in Hlt.
    destruct (nth_error ek e) as [[k|[op [args res]]]|] eqn:Ex; [| |apply nth_error_None in Ex; lia].
    - exists (inl k). split; [reflexivity|].
      destruct (Hve _ _ Ex) as (l & Hk & Hl' & Ha'). rewrite Hl in Hl'. rewrite Ha in Ha'.
      inversion Hl'; subst lbl. inversion Ha'; subst S T.
      assert (Hlab : forall b n, In n (rpos roles k b) -> nth_error W n = Some l).
      { intros b n Hin. apply in_rpos in Hin. destruct (Hnd _ _ _ Hin) as (e' & l' & Hk' & Hn'). congruence. }
      rewrite (sel_const W _ (Hlab true)), (sel_const W _ (Hlab false)).
      unfold forget_image. replace (eqA var_label var_label) with true by (symmetry; apply eqA_spec; reflexivity).
      rewrite all_equal_repeat. cbn [andb pimg bvars].
      assert (Hlk : nth_error lbls k = Some l) by (rewrite <- Hvs; exact (map_nth_error snd _ _ Hk)).
      destruct (ported roles k) eqn:Ept.
      + apply ported_rpos in Ept.
        assert (Esel : sel lbls [k] = [l]) by (unfold sel; cbn [flat_map]; rewrite Hlk; reflexivity).
        rewrite Esel.
        destruct (repeat l (length (rpos roles k true)) ++ repeat l (length (rpos roles k false))) as [|c rest] eqn:Er.
        * exfalso. apply Ept. apply app_eq_nil in Er. destruct Er as [E1 E2].
          destruct (rpos roles k true); [|discriminate]. destruct (rpos roles k false); [|discriminate]. reflexivity.
        * assert (c = l).
          { assert (Hc : In c (repeat l (length (rpos roles k true)) ++ repeat l (length (rpos roles k false))))
              by (rewrite Er; left; reflexivity).
            apply in_app_or in Hc. destruct Hc as [Hc|Hc]; apply repeat_spec in Hc; exact Hc. }
          subst c. unfold spider1, labs. cbn [lo_h lhg_discrete l_nodes l_edges l_adj lo_sources lo_targets combine map].
          rewrite !repeat_length. reflexivity.
      + assert (Hnil : rpos roles k true ++ rpos roles k false = []).
        { destruct (rpos roles k true ++ rpos roles k false) eqn:E; [reflexivity|].
          assert (ported roles k = true) by (apply ported_rpos; rewrite E; discriminate). congruence. }
        apply app_eq_nil in Hnil. destruct Hnil as [E1 E2]. rewrite E1, E2. reflexivity.
    - exists (inr (op, (args, res))). split; [reflexivity|].
      destruct (Hoe _ _ _ _ Ex) as (Hl' & S' & T' & Ha' & HS & HT). rewrite Hl in Hl'. rewrite Ha in Ha'.
      inversion Hl'; subst lbl. inversion Ha'; subst S' T'.
      assert (Hno : eqA op var_label = false).
      { apply not_true_is_false. intros E. apply eqA_spec in E.
        apply (Hnovar (op, (args, res))); [|exact E]. rewrite <- (g_ek_ops O A prog 0). apply in_ek_ops.
        eapply nth_error_In. exact Ex. }
      unfold forget_image. rewrite Hno. cbn [andb]. rewrite lohg_singleton_spec.
      assert (HWl : forall n a b, nth_error roles n = Some (a, b) -> nth_error W n = nth_error lbls a /\ a < length lbls).
      { intros n a b H. destruct (Hnd _ _ _ H) as (e' & l' & Hk' & Hn'). split.
        - rewrite Hn', <- Hvs. symmetry. exact (map_nth_error snd _ _ Hk').
        - rewrite <- Hvs, map_length. exact (nth_error_some_lt _ _ _ Hk'). }
      assert (Hargs : all_lt (length lbls) args).
      { unfold all_lt. apply Forall_forall. intros a Hin. apply In_nth_error in Hin. destruct Hin as (p & Hp).
        destruct (Forall2_nth_r _ HS Hp) as (n & _ & Hr). exact (proj2 (HWl _ _ _ Hr)). }
      assert (Hres : all_lt (length lbls) res).
      { unfold all_lt. apply Forall_forall. intros a Hin. apply In_nth_error in Hin. destruct Hin as (p & Hp).
        destruct (Forall2_nth_r _ HT Hp) as (n & _ & Hr). exact (proj2 (HWl _ _ _ Hr)). }
      assert (ES : sel W S = sel lbls args).
      { apply (@sel_transport _ W lbls S args Hargs). revert HS. apply Forall2_mono. intros n a H. exact (proj1 (HWl _ _ _ H)). }
      assert (ET : sel W T = sel lbls res).
      { apply (@sel_transport _ W lbls T res Hres). revert HT. apply Forall2_mono. intros n a H. exact (proj1 (HWl _ _ _ H)). }
      rewrite ES, ET. unfold labs.
      cbn [lo_h l_nodes l_edges l_adj lo_sources lo_targets combine map fst snd pimg bvars o_args o_res o_lbl].
      rewrite (sel_length _ Hargs), (sel_length _ Hres), sel_app. reflexivity.
  Qed.

  Lemma nth_error_combine {X Y} (a : list X) : forall (b : list Y) i,
    nth_error (combine a b) i =
    match nth_error a i, nth_error b i with Some x, Some y => Some (x, y) | _, _ => None end.
  Proof.
    induction a as [|x a IH]; intros [|y b] [|i]; cbn [combine nth_error]; try reflexivity.
    - destruct (nth_error a i); reflexivity.
    - apply IH.
  Qed.

  (* ---------- the batch ---------- *)
  Theorem batch_plain :
    labs (forget_batch eqO eqA var_label (strict_of f)) = PB lbls roles ek.
  Proof.
    pose proof Hinv as [Hq He Haa Hn Hv Hve Hoe Hnd].
    unfold forget_batch, image_batch. rewrite abs_strict_of.
    cbn [strict_of o_h hstrict_of h_w].
    rewrite (@labs_fold O A (pedge A)
               (fun e => fimage (pe_lbl e) (sel W (pe_src e)) (sel W (pe_tgt e)))).
    - unfold PB. f_equal. rewrite labs_pedges. unfold pedges. apply nth_error_ext.
      + rewrite !map_length, combine_length. lia.
      + intros i Hi. rewrite !nth_error_map, nth_error_combine.
        rewrite !map_length, combine_length in Hi.
        destruct (nth_error (l_edges (lo_h f)) i) as [lbl|] eqn:El; [|apply nth_error_None in El; lia].
        match goal with |- context [match ?t with Some y => Some (lbl, y) | None => None end] =>
          destruct t as [[S T]|] eqn:Ea end; [|apply nth_error_None in Ea; unfold hyperedge in *; lia].
        cbn [option_map pe_lbl pe_src pe_tgt fst snd].
        destruct (img_edge _ El Ea) as (x & Ex & Himg). rewrite Ex. cbn [option_map]. rewrite Himg. reflexivity.
    - intros e. exact (proj1 (proj2 (lax_good_forget_image eqO eqA var_label (pe_lbl e) _ _))).
    - reflexivity.
  Qed.

  (* ---------- the substitution data of C12 are the data of the core ---------- *)
  Notation bat := (forget_batch eqO eqA var_label (strict_of f)).

  Lemma substD_core :
    subst_D (strict_of f) (forget_fw W) (strict_of bat) =
    coreD lbls roles ek W (lo_sources f) (lo_targets f).
  Proof.
    destruct Hlwf as (_ & Hs & Ht). unfold nn in Hs, Ht.
    unfold subst_D, coreD. rewrite abs_strict_of, batch_plain.
    cbn [forget_fw ic_values strict_of o_s o_t table].
    rewrite (expand_forget_fw W Hs), (expand_forget_fw W Ht). f_equal.
    f_equal. change (h_w (o_h (strict_of bat))) with (p_nodes (labs bat)). rewrite batch_plain. reflexivity.
  Qed.

  Lemma substP_core :
    subst_pairs (strict_of f) (forget_fw W) (strict_of bat) = coreP lbls roles ek W adj.
  Proof.
    destruct Hlwf as ((Ha & _) & _ & _). unfold hn in Ha.
    unfold subst_pairs, coreP, edge_sources, edge_targets. rewrite abs_strict_of, batch_plain.
    cbn [forget_fw ic_values strict_of o_h hstrict_of h_s h_t enc table].
    rewrite !expand_forget_fw; [reflexivity| |]; apply all_lt_flat_map; intros e He; apply (Ha e He).
  Qed.

  Lemma expected_core : expected prog ins outs = coreX lbls roles ek ins outs.
  Proof. unfold expected, coreX. rewrite (g_ek_ops O A prog 0). reflexivity. Qed.

  Theorem expected_is_subst :
    IsSubst (strict_of f) (forget_fw W) (strict_of bat) (expected prog ins outs).
  Proof.
    exists (qe roles ek). split.
    - rewrite substD_core, expected_core.
      exact (core_quot lbls roles ek W adj fe_HNW fe_HW fe_Hvar fe_Hop fe_Hadj Hsrc Htgt).
    - rewrite substP_core. cbn [forget_fw ic_values].
      change (h_w (o_h (strict_of bat))) with (p_nodes (labs bat)). rewrite batch_plain.
      rewrite (PB_nodes_length lbls roles ek W adj fe_HW fe_Hvar fe_Hop).
      exact (core_ker lbls roles ek W adj fe_HNW fe_HW fe_Hvar fe_Hvar_uniq fe_Hvar_ex fe_Hop fe_Hadj).
  Qed.
End ForgetExpected.

(* ====================================================================================== *)
(* 5. forgetting a built term gives the expected diagram                                   *)
(* ====================================================================================== *)
Section ForgetBuilt.
  Variable B : Backend.
  Hypothesis OK : BackendOK B.
  Hypothesis CC : cc_canonical B.
  Variables O A : Type.
  Variable eqO : O -> O -> bool.
  Hypothesis eqO_spec : forall x y, eqO x y = true <-> x = y.
  Variable eqA : A -> A -> bool.
  Hypothesis eqA_spec : forall x y, eqA x y = true <-> x = y.
  Variable var_label : A.

  Theorem forget_built_expected (prog : list (vcmd O A)) (ins outs : list nat) :
    prog_ok 0 prog ->
    Forall (fun h => h < nvars prog) ins -> Forall (fun h => h < nvars prog) outs ->
    (forall o, In o (g_ops 0 prog) -> o_lbl o <> var_label) ->
    exists f g s,
      var_build var_label prog ins outs false = Ok (Some f) /\
      forget var_label eqO eqA B f = Ok g /\
      lohg_to_strict B eqO g = Ok s /\ wf_ohg s /\
      NIso (expected prog ins outs) (abs s).
  Proof.
    intros Hok Hins Houts Hnovar.
    destruct (C19_build_structure O A var_label prog ins outs Hok Hins Houts)
      as (f & vs & Hb & _ & Hlwf & Hladj & Hq & _ & _ & _ & _ & _ & _ & Hvs & Hinv & _ & _ & HFs & HFt).
    destruct (C19_forget_subst OK eqO eqO_spec eqA var_label Hlwf Hladj (pending_nil_consistent O A f Hq))
      as (sf & fx & h & g & Hsf & Wsf & _ & _ & _ & _ & Hfx & Wfx & _ & Wh & Hsub & Hg & Hfrom & _).
    rewrite (to_strict_nopending OK eqO eqO_spec CC Hlwf Hladj Hq) in Hsf. inversion Hsf; subst sf.
    rewrite (C19_forget_batch_strict OK eqO eqO_spec eqA var_label (strict_of f) CC) in Hfx.
    inversion Hfx; subst fx.
    pose proof (C10_round_strict OK eqO eqO_spec CC Wh) as Hround. rewrite Hfrom in Hround. cbn [bind] in Hround.
    exists f, g, h. split; [exact Hb|]. split; [exact Hg|]. split; [exact Hround|]. split; [exact Wh|].
    refine (C12_subst_unique (wf_forget_fw (h_w (o_h (strict_of f)))) Wfx _ Hsub).
    cbn [strict_of o_h hstrict_of h_w].
    exact (expected_is_subst eqO eqO_spec eqA eqA_spec prog Hnovar Hinv Hvs HFs HFt Hlwf).
  Qed.
End ForgetBuilt.

Print Assumptions core_quot.
Print Assumptions core_ker.
Print Assumptions batch_plain.
Print Assumptions forget_built_expected.
